(* C19 -- configuration loading.  Executable model of the parts of the loader
   (and of the serving code that consumes the configuration) where the
   arithmetic, the indexing and the `unwrap`s live, over the YAML AST that
   yaml-rust hands to the loader.  The YAML text layer is not modelled.

   Modelled (crates/erbium-core/src unless said otherwise), AFTER the repairs
   F29..F36 (the unrepaired variants of the two parsers with the most
   arithmetic, [type_to_name_orig] and [str_duration_orig], are kept so that
   the defect is a theorem, Proofs/ConfigAst.v [.._refuted]):
     config.rs   type_to_name, parse_string, parse_boolean, parse_array,
                 str_duration / parse_duration, str_prefix / str_prefix4 /
                 str_prefix6 (split on '/', `u8::from_str`, family, length
                 range), Prefix4/Prefix6 netmask and network,
                 Prefix6::contains(Ipv4Addr) (the `prefixlen - 96` and the
                 Prefix4::new assert)
     erbium-net  Ipv4Subnet::new / netmask
     dhcp/config.rs  parse_subnet, the apply-subnet host-range arithmetic,
                 the route prefix (`a.b.c.d/len`) of parse_routes
     dhcp/mod.rs build_default_config: host range of an `addresses` prefix
     radv/config.rs  parse_prefix (a `prefixes:` entry), parse_pref64
     radv/icmppkt.rs the PREF64 prefix-length code `(len - 32) / 8`
     dns/config.rs   parse_dns_route;  dns/router.rs  `dest[0]`
     acl.rs      parse_acl (match-subnets)
   `str::parse::<IpAddr>` (with the `$self4`/`$self6` keywords of str_ip) is
   a Section variable [ip_parse]: the theorems hold for every such function.
   Strings are lists of Unicode scalar values.  Definitions only. *)
From Erbium Require Import Lib.Base.
From Coq Require Import String Ascii.

(* ---- the YAML AST (yaml_rust::Yaml) ---------------------------------- *)
Inductive yaml :=
| YReal (s : list N)
| YInteger (i : Z)
| YString (s : list N)
| YBoolean (b : bool)
| YArray (a : list yaml)
| YHash (h : list (yaml * yaml))
| YAlias (n : N)
| YNull
| YBadValue.

Definition codes (s : string) : list N := map (fun a => N_of_ascii a) (list_ascii_of_string s).
Definition str_eqb (a b : list N) : bool := list_eqb N.eqb a b.

(* error classes (the implementation's message strings are not modelled) *)
Definition E_type : N := 1.        (* "... should be of type X, not <type name>" *)
Definition E_split : N := 2.       (* not exactly one '/' *)
Definition E_number : N := 3.      (* prefix length is not a u8 *)
Definition E_ip : N := 4.          (* address does not parse *)
Definition E_family : N := 5.      (* v4 where v6 expected or the reverse *)
Definition E_len : N := 6.         (* prefix length beyond 32 / 128 *)
Definition E_hostbits : N := 7.    (* Ipv4Subnet: address has bits beyond the prefix *)
Definition E_missing : N := 8.     (* required key missing *)
Definition E_key : N := 9.         (* unknown key, or key not a string *)
Definition E_null : N := 10.       (* null where a value is required *)
Definition E_toolarge : N := 11.   (* apply-subnet /0 *)
Definition E_durchar : N := 12.
Definition E_durnonum : N := 13.   (* unit without a number *)
Definition E_durrange : N := 14.   (* beyond u64 seconds *)
Definition E_noserver : N := 15.   (* forward route without dns-servers *)
Definition E_servers : N := 16.    (* more than one server *)
Definition E_keyword : N := 17.
Definition E_pref64 : N := 18.     (* PREF64 length not one of 96,64,56,48,40,32 *)

(* ---- config.rs:130 type_to_name --------------------------------------
   names as code lists: 0 Real 1 Integer 2 String 3 Boolean 4 "Array of" ::
   5 Hash 6 Alias 7 Null 8 "Bad Value" 10 "Empty Array" *)
Fixpoint type_to_name (y : yaml) : outcome (list N) :=
  match y with
  | YReal _ => Ok [0]
  | YInteger _ => Ok [1]
  | YString _ => Ok [2]
  | YBoolean _ => Ok [3]
  | YArray a =>
    match a with
    | [] => Ok [10]                                  (* repaired: was a[0] *)
    | x :: _ => match type_to_name x with Ok n => Ok (4 :: n) | Err e => Err e | Panic k => Panic k end
    end
  | YHash _ => Ok [5]
  | YAlias _ => Ok [6]
  | YNull => Ok [7]
  | YBadValue => Ok [8]
  end.

(* the code before the repair of F29: `type_to_name(&a[0])` *)
Fixpoint type_to_name_orig (y : yaml) : outcome (list N) :=
  match y with
  | YReal _ => Ok [0]
  | YInteger _ => Ok [1]
  | YString _ => Ok [2]
  | YBoolean _ => Ok [3]
  | YArray a =>
    match a with
    | [] => Panic IndexOOB
    | x :: _ => match type_to_name_orig x with Ok n => Ok (4 :: n) | Err e => Err e | Panic k => Panic k end
    end
  | YHash _ => Ok [5]
  | YAlias _ => Ok [6]
  | YNull => Ok [7]
  | YBadValue => Ok [8]
  end.

(* an error that mentions the type's name: the name has to be computed *)
Definition type_error {A} (y : yaml) : outcome A :=
  match type_to_name y with Ok _ => Err E_type | Err e => Err e | Panic k => Panic k end.

(* config.rs:166 parse_string, :178 parse_boolean *)
Definition parse_string (y : yaml) : outcome (option (list N)) :=
  match y with YNull => Ok None | YString s => Ok (Some s) | e => type_error e end.
Definition parse_boolean (y : yaml) : outcome (option bool) :=
  match y with YNull => Ok None | YBoolean b => Ok (Some b) | e => type_error e end.

(* config.rs:190 parse_array: every element parsed (first error wins), then
   a Null element is an error *)
Fixpoint parse_elems {T} (p : yaml -> outcome (option T)) (a : list yaml) : outcome (list (option T)) :=
  match a with
  | [] => Ok []
  | x :: r => do v <- p x ; do vs <- parse_elems p r ; Ok (v :: vs)
  end.
Fixpoint no_nulls {T} (l : list (option T)) : outcome (list T) :=
  match l with
  | [] => Ok []
  | None :: _ => Err E_null
  | Some v :: r => do vs <- no_nulls r ; Ok (v :: vs)
  end.
Definition parse_array {T} (p : yaml -> outcome (option T)) (y : yaml) : outcome (option (list T)) :=
  match y with
  | YNull => Ok None
  | YArray a => do l <- parse_elems p a ; do v <- no_nulls l ; Ok (Some v)
  | e => type_error e
  end.

(* ---- config.rs:401 str_duration, character by character --------------- *)
Definition u64max : N := 18446744073709551615.
Definition is_digit (c : N) : bool := (48 <=? c) && (c <=? 57).
(* char::is_whitespace (Unicode White_Space) *)
Definition is_whitespace (c : N) : bool :=
  ((9 <=? c) && (c <=? 13)) || (c =? 32) || (c =? 133) || (c =? 160) || (c =? 5760)
  || ((8192 <=? c) && (c <=? 8202)) || (c =? 8232) || (c =? 8233) || (c =? 8239) || (c =? 8287) || (c =? 12288).
Definition unit_mult (c : N) : option N :=
  if c =? 115 then Some 1            (* s *)
  else if c =? 109 then Some 60      (* m *)
  else if c =? 104 then Some 3600    (* h *)
  else if c =? 100 then Some 86400   (* d *)
  else if c =? 119 then Some 604800  (* w *)
  else None.

(* repaired (F30): checked arithmetic, a unit without a number is an error *)
Fixpoint dur_loop (s : list N) (num : option N) (ret : N) : outcome N :=
  match s with
  | [] =>
    match num with
    | Some n => if ret + n <=? u64max then Ok (ret + n) else Err E_durrange
    | None => Ok ret
    end
  | c :: r =>
    if is_digit c then
      let n' := match num with Some n => n * 10 + (c - 48) | None => c - 48 end in
      if n' <=? u64max then dur_loop r (Some n') ret else Err E_durrange
    else match unit_mult c with
    | Some m =>
      match num with
      | None => Err E_durnonum
      | Some n =>
        if n * m <=? u64max then
          if ret + n * m <=? u64max then dur_loop r None (ret + n * m) else Err E_durrange
        else Err E_durrange
      end
    | None =>
      if is_whitespace c || (c =? 95) then dur_loop r num ret else Err E_durchar
    end
  end.
Definition str_duration (s : list N) : outcome N := dur_loop s None 0.

(* the code before the repair: u64 arithmetic of the debug profile,
   `num.take().unwrap()`, `Duration += ` (panics on overflow) *)
Fixpoint dur_loop_orig (s : list N) (num : option N) (ret : N) : outcome N :=
  match s with
  | [] =>
    match num with
    | Some n => add_chk 64 ret n
    | None => Ok ret
    end
  | c :: r =>
    if is_digit c then
      match num with
      | Some n => do a <- mul_chk 64 n 10 ; do b <- add_chk 64 a c ; do d <- sub_chk b 48 ; dur_loop_orig r (Some d) ret
      | None => dur_loop_orig r (Some (c - 48)) ret
      end
    else match unit_mult c with
    | Some m =>
      match num with
      | None => Panic UnwrapNone
      | Some n => do a <- mul_chk 64 n m ; do b <- add_chk 64 ret a ; dur_loop_orig r None b
      end
    | None =>
      if is_whitespace c || (c =? 95) then dur_loop_orig r num ret else Err E_durchar
    end
  end.
Definition str_duration_orig (s : list N) : outcome N := dur_loop_orig s None 0.

(* the manual's reading of a duration string ("numbers suffixed with s, m, h,
   d [w]; multiple units can be combined; if the unit is left off it is
   seconds"), in unbounded arithmetic: None when the string is not of that
   form.  Shares nothing with the range checks above; used as the spec-level
   predicate "an accepted duration is the sum of its parts". *)
Fixpoint dur_value (s : list N) (num : option N) (acc : N) : option N :=
  match s with
  | [] => Some (acc + match num with Some n => n | None => 0 end)
  | c :: r =>
    if is_digit c then dur_value r (Some (match num with Some n => n * 10 | None => 0 end + (c - 48))) acc
    else match unit_mult c with
    | Some m => match num with Some n => dur_value r None (acc + n * m) | None => None end
    | None => if is_whitespace c || (c =? 95) then dur_value r num acc else None
    end
  end.

(* config.rs:520 parse_duration: an Integer is taken `as u64` *)
Definition parse_duration (y : yaml) : outcome (option N) :=
  match y with
  | YInteger i => Ok (Some (Z.to_N (i mod 18446744073709551616)%Z))
  | YNull => Ok None
  | YString s => do d <- str_duration s ; Ok (Some d)
  | e => type_error e
  end.

(* ---- `u8::from_str`, split on '/' ------------------------------------- *)
Fixpoint digits_u8 (s : list N) (acc : N) : option N :=
  match s with
  | [] => Some acc
  | c :: r => if is_digit c then
                let a := acc * 10 + (c - 48) in
                if a <=? 255 then digits_u8 r a else None
              else None
  end.
Definition parse_u8 (s : list N) : option N :=
  match s with
  | [] => None
  | c :: r => if c =? 43 then match r with [] => None | _ => digits_u8 r 0 end
              else digits_u8 s 0
  end.

Fixpoint split_on (sep : N) (s : list N) (cur : list N) : list (list N) :=
  match s with
  | [] => [rev_append cur []]                       (* rev_append: List.rev is quadratic *)
  | c :: r => if c =? sep then rev_append cur [] :: split_on sep r [] else split_on sep r (c :: cur)
  end.
Definition split_slash (s : list N) : list (list N) := split_on 47 s [].

(* ---- addresses -------------------------------------------------------- *)
Inductive ip := V4 (a : N) | V6 (a : N).
Record ipprefix := { p_fam : N ; p_addr : N ; p_len : N }.     (* p_fam = 4 | 6 *)

Definition mask4 (len : N) : N := 4294967295 - (4294967295 / 2 ^ len).          (* !(0xffffffff >> len) for len <= 32; Prefix4::netmask gives all ones beyond *)
Definition mask6 (len : N) : N := (2 ^ 128 - 1) - ((2 ^ 128 - 1) / 2 ^ len).
Definition network4 (a len : N) : N := N.land a (mask4 len).
Definition network6 (a len : N) : N := N.land a (mask6 len).

Section WithIpParser.
Variable ip_parse : list N -> option ip.       (* str_ip: `$self4`, `$self6`, else str::parse::<IpAddr> *)
Variable ip4_parse : list N -> option N.       (* str::parse::<Ipv4Addr> (dhcp/config.rs) *)

(* config.rs:312/345/374 str_prefix, str_prefix4, str_prefix6; [want] = 0
   (either family), 4 or 6.  Repaired (F36): the length is checked against
   the family. *)
Definition str_prefix (want : N) (s : list N) : outcome ipprefix :=
  match split_slash s with
  | [a; l] =>
    match parse_u8 l with
    | None => Err E_number
    | Some len =>
      match ip_parse a with
      | None => Err E_ip
      | Some (V4 v) =>
        if want =? 6 then Err E_family
        else if len <=? 32 then Ok {| p_fam := 4; p_addr := v; p_len := len |} else Err E_len
      | Some (V6 v) =>
        if want =? 4 then Err E_family
        else if len <=? 128 then Ok {| p_fam := 6; p_addr := v; p_len := len |} else Err E_len
      end
    end
  | _ => Err E_split
  end.

Definition parse_string_prefix (want : N) (y : yaml) : outcome (option ipprefix) :=
  do s <- parse_string y ;
  match s with None => Ok None | Some s => do p <- str_prefix want s ; Ok (Some p) end.

(* top level `addresses:` and an ACL's `match-subnets:` *)
Definition load_addresses (y : yaml) : outcome (list ipprefix) :=
  do v <- parse_array (parse_string_prefix 0) y ; Ok (match v with Some l => l | None => [] end).

(* erbium-net lib.rs:57 Ipv4Subnet::new.  Repaired (F31): a length beyond 32
   is an error (it was: accepted for 33..63, shift overflow from 64). *)
Definition subnet_new (a len : N) : outcome (N * N) :=
  if len <=? 32 then
    if N.land a (4294967295 - mask4 len) =? 0 then Ok (a, len) else Err E_hostbits
  else Err E_len.

(* dhcp/config.rs:197 parse_subnet *)
Definition parse_subnet (y : yaml) : outcome (option (N * N)) :=
  match y with
  | YNull => Ok None
  | YString s =>
    match split_slash s with
    | [a; l] =>
      match ip4_parse a with
      | None => Err E_ip
      | Some v => match parse_u8 l with
                  | None => Err E_number
                  | Some len => do sn <- subnet_new v len ; Ok (Some sn)
                  end
      end
    | _ => Err E_split
    end
  | _ => Err E_type               (* "{:?}" of the value: no type name computed *)
  end.

(* dhcp/config.rs:478 apply-subnet: offsets 1 .. 2^(32-len) - 1 (exclusive),
   i.e. every host address (the end point is the one after the repair of
   F19/F20).  Repaired (F31): /0 is rejected, /31 and /32 give the empty pool.
   Result: first and last address of the pool, None when it is empty. *)
Definition apply_subnet_range (base len : N) : outcome (option (N * N)) :=
  do hostbits <- sub_chk 32 len ;
  if hostbits =? 32 then Err E_toolarge
  else
    let size := 2 ^ hostbits in                       (* 1u32 << hostbits, hostbits < 32 *)
    let stop := sat_sub size 1 in
    if 1 <? stop then
      do first <- add_chk 32 base 1 ;
      do last <- add_chk 32 base (stop - 1) ;
      Ok (Some (first, last))
    else Ok None.
Definition apply_subnet (y : yaml) : outcome (option (N * N)) :=
  do sn <- parse_subnet y ;
  match sn with
  | None => Err E_null
  | Some (a, len) => apply_subnet_range (network4 a len) len
  end.
Definition match_subnet (y : yaml) : outcome (N * N) :=
  do sn <- parse_subnet y ;
  match sn with None => Err E_null | Some x => Ok x end.

(* dhcp/config.rs:136 the `prefix:` of a route: the first two '/'-separated
   parts are used, further ones ignored.  Repaired (F32): a missing or
   non-numeric length is an error (was: unwrap). *)
Definition route_prefix (y : yaml) : outcome (N * N) :=
  match y with
  | YNull => Err E_null
  | YString s =>
    match split_slash s with
    | a :: rest =>
      match ip4_parse a with
      | None => Err E_ip
      | Some v =>
        match rest with
        | [] => Err E_split
        | l :: _ => match parse_u8 l with
                    | None => Err E_number
                    | Some len => subnet_new v len
                    end
        end
      end
    | [] => Err E_split
    end
  | _ => Err E_type
  end.

(* ---- hashes: iteration in document order ------------------------------ *)
Definition key_str (k : yaml) : option (list N) := match k with YString s => Some s | _ => None end.

(* radv/config.rs:92 parse_prefix (one entry of `prefixes:`).  Repaired
   (F33): a missing `prefix:` is an error (was: unwrap). *)
Fixpoint ra_prefix_keys (h : list (yaml * yaml)) (pfx : option ipprefix) : outcome (option ipprefix) :=
  match h with
  | [] => Ok pfx
  | (k, v) :: r =>
    match key_str k with
    | None => Err E_key
    | Some ks =>
      if str_eqb ks (codes "prefix") then do p <- parse_string_prefix 6 v ; ra_prefix_keys r p
      else if str_eqb ks (codes "on-link") || str_eqb ks (codes "autonomous") then do _ <- parse_boolean v ; ra_prefix_keys r pfx
      else if str_eqb ks (codes "valid") || str_eqb ks (codes "preferred") then do _ <- parse_duration v ; ra_prefix_keys r pfx
      else Err E_key
    end
  end.
Definition ra_prefix (y : yaml) : outcome ipprefix :=
  match y with
  | YHash h => do p <- ra_prefix_keys h None ; match p with Some p => Ok p | None => Err E_missing end
  | e => type_error e
  end.

(* radv/config.rs:229 parse_pref64.  Repaired: only the six lengths RFC 8781
   can encode are accepted (was: any u8, `(len - 32) / 8` underflows below 32
   when the advertisement is built). *)
Definition pref64_len_ok (len : N) : bool :=
  (len =? 96) || (len =? 64) || (len =? 56) || (len =? 48) || (len =? 40) || (len =? 32).
Fixpoint pref64_keys (h : list (yaml * yaml)) (pfx : option ipprefix) : outcome (option ipprefix) :=
  match h with
  | [] => Ok pfx
  | (k, v) :: r =>
    match key_str k with
    | None => Err E_key
    | Some ks =>
      if str_eqb ks (codes "prefix") then do p <- parse_string_prefix 6 v ; pref64_keys r p
      else if str_eqb ks (codes "lifetime") then do _ <- parse_duration v ; pref64_keys r pfx
      else Err E_key
    end
  end.
Definition pref64 (y : yaml) : outcome (option ipprefix) :=
  match y with
  | YHash h =>
    do p <- pref64_keys h None ;
    match p with
    | Some p => if pref64_len_ok (p_len p) then Ok (Some p) else Err E_pref64
    | None => Ok None
    end
  | e => type_error e
  end.

(* acl.rs:235 parse_acl: the prefixes of `match-subnets` *)
Fixpoint acl_keys (h : list (yaml * yaml)) (sub : option (list ipprefix)) : outcome (option (list ipprefix)) :=
  match h with
  | [] => Ok sub
  | (k, v) :: r =>
    match key_str k with
    | None => Err E_key
    | Some ks =>
      if str_eqb ks (codes "match-subnets") then do s <- parse_array (parse_string_prefix 0) v ; acl_keys r s
      else if str_eqb ks (codes "match-unix") then do _ <- parse_boolean v ; acl_keys r sub
      else if str_eqb ks (codes "apply-access") then
        do a <- parse_array parse_string v ; match a with None => Err E_null | Some _ => acl_keys r sub end
      else Err E_key
    end
  end.
Definition acl (y : yaml) : outcome (list ipprefix) :=
  match y with
  | YHash h => do s <- acl_keys h None ; Ok (match s with Some l => l | None => [] end)
  | e => type_error e
  end.

(* dns/config.rs:41 parse_dns_route: (type, number of servers); type 0 =
   forward, 1 = forge-nxdomain.  Repaired (F35): a forward route needs a
   server.  A fragment that is not a hash is silently no route (None). *)
Definition parse_string_ip (y : yaml) : outcome (option ip) :=
  do s <- parse_string y ;
  match s with
  | None => Ok None
  | Some s => match ip_parse s with Some a => Ok (Some a) | None => Err E_ip end
  end.
Fixpoint route_keys (h : list (yaml * yaml)) (servers : option (list ip)) (handler : option N)
  : outcome (option (list ip) * option N) :=
  match h with
  | [] => Ok (servers, handler)
  | (k, v) :: r =>
    match key_str k with
    | None => Err E_key
    | Some ks =>
      if str_eqb ks (codes "domain-suffixes") then do _ <- parse_array parse_string v ; route_keys r servers handler
      else if str_eqb ks (codes "dns-servers") then do s <- parse_array parse_string_ip v ; route_keys r s handler
      else if str_eqb ks (codes "type") then
        do t <- parse_string v ;
        match t with
        | None => Err E_null
        | Some t => if str_eqb t (codes "forward") then route_keys r servers (Some 0)
                    else if str_eqb t (codes "forge-nxdomain") then route_keys r servers (Some 1)
                    else Err E_keyword
        end
      else Err E_key
    end
  end.
Definition dns_route (y : yaml) : outcome (option (N * N)) :=
  match y with
  | YHash h =>
    do (servers, handler) <- route_keys h None None ;
    let n := match servers with Some l => lenN l | None => 0 end in
    if 1 <? n then Err E_servers
    else match handler with
         | Some 1 => Ok (Some (1, 0))
         | _ => if n =? 0 then Err E_noserver else Ok (Some (0, n))
         end
  | _ => Ok None
  end.

(* ---- the modelled part of a configuration ----------------------------- *)
Record cfg := {
  c_addresses : list ipprefix;          (* top level `addresses` *)
  c_acl : list ipprefix;                (* every prefix of every ACL *)
  c_routes : list (N * N);            (* (type, number of servers) *)
  c_pref64 : list N;                  (* PREF64 prefix lengths *)
  c_raprefix : list N;                (* lengths of announced prefixes *)
  c_subnets : list N                  (* lengths of Ipv4Subnets in DHCP policies *)
}.

Definition prefix_len_ok (p : ipprefix) : bool :=
  if p_fam p =? 4 then p_len p <=? 32 else p_len p <=? 128.
Definition route_ok (r : N * N) : bool := negb (fst r =? 0) || (1 <=? snd r).
Definition cfg_safe (c : cfg) : bool :=
  forallb prefix_len_ok (c_addresses c) && forallb prefix_len_ok (c_acl c)
  && forallb route_ok (c_routes c) && forallb pref64_len_ok (c_pref64 c)
  && forallb (fun l => l <=? 128) (c_raprefix c) && forallb (fun l => l <=? 32) (c_subnets c).

(* the fragments of a document that feed the modelled fields *)
Record fragments := {
  f_addresses : yaml;                 (* value of `addresses:` *)
  f_acls : list yaml;                 (* entries of `acls:` *)
  f_routes : list yaml;               (* entries of `dns-routes:` *)
  f_pref64 : list yaml;               (* values of `pref64:` *)
  f_raprefixes : list yaml;           (* entries of every `prefixes:` *)
  f_apply_subnets : list yaml;
  f_match_subnets : list yaml;
  f_route_prefixes : list yaml
}.

Fixpoint omap {A B} (f : A -> outcome B) (l : list A) : outcome (list B) :=
  match l with
  | [] => Ok []
  | x :: r => do y <- f x ; do ys <- omap f r ; Ok (y :: ys)
  end.
Fixpoint somes {A} (l : list (option A)) : list A :=
  match l with [] => [] | Some x :: r => x :: somes r | None :: r => somes r end.

Definition load_fragments (f : fragments) : outcome cfg :=
  do addrs <- load_addresses (f_addresses f) ;
  do acls <- omap acl (f_acls f) ;
  do routes <- omap dns_route (f_routes f) ;
  do p64 <- omap pref64 (f_pref64 f) ;
  do rap <- omap ra_prefix (f_raprefixes f) ;
  do _ <- omap apply_subnet (f_apply_subnets f) ;
  do ms <- omap match_subnet (f_match_subnets f) ;
  do rp <- omap route_prefix (f_route_prefixes f) ;
  Ok {| c_addresses := addrs; c_acl := List.concat acls; c_routes := somes routes;
        c_pref64 := map p_len (somes p64); c_raprefix := map p_len rap;
        c_subnets := map snd ms ++ map snd rp |}.

End WithIpParser.

(* ---- serving: the arithmetic that consumes the configuration ----------- *)

(* dhcp/mod.rs:659 build_default_config, one IPv4 prefix of `addresses`:
   Ipv4Subnet::new(network, len), then offsets 1 .. (1 << (32 - len)) - 1 (exclusive).
   Repaired (F34): /0, /31 and /32 give no sub-policy.  Result: first and
   last address of the default pool. *)
Definition default_pool (a len : N) : outcome (option (N * N)) :=
  if (len =? 0) || (30 <? len) then Ok None
  else
    match subnet_new (network4 a len) len with
    | Err _ => Ok None                                       (* `.ok()?` *)
    | Panic k => Panic k
    | Ok sn =>
      do hostbits <- sub_chk 32 (snd sn) ;
      if 32 <=? hostbits then Panic Overflow                 (* 1u32 << 32 *)
      else
        do stop <- sub_chk (2 ^ hostbits) 1 ;
        if 1 <? stop then
          do first <- add_chk 32 (fst sn) 1 ;
          do last <- add_chk 32 (fst sn) (stop - 1) ;
          Ok (Some (first, last))
        else Ok None
    end.
Definition default_pool_orig (a len : N) : outcome (option (N * N)) :=       (* before the repair, for len <= 32 *)
  do hostbits <- sub_chk 32 len ;
  if 32 <=? hostbits then Panic Overflow
  else do stop <- sub_chk (2 ^ hostbits) 2 ; Ok (Some (network4 a len + 1, network4 a len + stop - 1)).

(* config.rs:633 Prefix6::contains(Ipv4Addr): an IPv4 client against an IPv6
   ACL prefix *)
Definition mapped_pattern (net : N) : bool := N.shiftr net 32 =? 65535.          (* ::ffff:a.b.c.d *)
Definition prefix6_contains_v4 (p : ipprefix) (client : N) : outcome bool :=
  let net := network6 (p_addr p) (p_len p) in
  if mapped_pattern net then
    do l4 <- sub_chk (p_len p) 96 ;
    if l4 <=? 32 then Ok (N.land client (mask4 l4) =? net mod 4294967296)     (* Prefix4::new asserts l4 <= 32 *)
    else Panic Assert
  else Ok false.
Definition acl_check (p : ipprefix) (client : ip) : outcome bool :=
  match client with
  | V4 c => if p_fam p =? 4 then Ok (N.land c (mask4 (p_len p)) =? p_addr p) else prefix6_contains_v4 p c
  | V6 c => if p_fam p =? 6 then Ok (N.land c (mask6 (p_len p)) =? p_addr p)
            else Ok (if N.shiftr c 32 =? 65535 then N.land (c mod 4294967296) (mask4 (p_len p)) =? p_addr p else false)
  end.

(* radv/icmppkt.rs:448 the prefix length code of the PREF64 option *)
Definition pref64_plc (len : N) : outcome N := do d <- sub_chk len 32 ; Ok (d / 8).

(* dns/router.rs:77 `dest[0]` of a forward route *)
Definition route_dest (r : N * N) : outcome N :=
  if fst r =? 0 then (if 1 <=? snd r then Ok 0 else Panic IndexOOB) else Ok 1.

Definition all_ok {A B} (f : A -> outcome B) (l : list A) : bool := forallb (fun x => negb (is_panic (f x))) l.

(* every modelled serving computation on a configuration, for the given
   clients: true iff none of them panics *)
Definition serve_no_panic (c : cfg) (clients : list ip) : bool :=
  all_ok (fun p => if p_fam p =? 4 then default_pool (p_addr p) (p_len p) else Ok None) (c_addresses c)
  && forallb (fun cl => all_ok (fun p => acl_check p cl) (c_acl c) && all_ok (fun p => acl_check p cl) (c_addresses c)) clients
  && all_ok pref64_plc (c_pref64 c)
  && all_ok route_dest (c_routes c).

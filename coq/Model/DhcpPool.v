(* Model of the DHCP lease store: crates/erbium-core/src/dhcp/pool.rs
   (select_address and its four steps, select_requested_address,
   select_new_address, allocate_address, the lease-time computation and clamp)
   and of the lease-time option in the replies built by handle_discover /
   handle_request (dhcp/mod.rs).  Definitions only.

   The model is RELATIONAL: [alloc_ok d o t1 t2 a] accepts or rejects the
   answer [a] the implementation gave and, when it accepts, returns the store
   the implementation must then hold.  Which free address a new client gets
   (SipHash order) and which of several equally good rows SQLite returns are
   not predicted.  It describes the code AFTER the F21 repair: the client's
   rows are walked in the ORDER BY order and the first one inside today's pool
   is taken (the unchanged tree looked at the first row only, LIMIT 1).

   Time is an absolute number of seconds; [t1] is the clock read in
   select_address (pool.rs:346), [t2] the one in allocate_address (pool.rs:489). *)
From Erbium Require Import Lib.Base.

Record row := { r_addr : N; r_client : list N; r_start : N; r_expiry : N }.
Definition db := list row.          (* invariant: NoDup (map r_addr d) -- address is the PRIMARY KEY *)

Definition row_eqb (a b : row) : bool :=
  (r_addr a =? r_addr b) && bytes_eqb (r_client a) (r_client b)
  && (r_start a =? r_start b) && (r_expiry a =? r_expiry b).

(* INSERT OR REPLACE on the primary key *)
Definition upsert (r : row) (d : db) : db :=
  r :: filter (fun r' => negb (r_addr r' =? r_addr r)) d.

Record op := { o_client : list N; o_req : option N; o_pool : list N; o_min : N; o_max : N }.
Inductive kind := NewAddress | ReusingLease | Requested | Revived.
Inductive answer :=
| Granted (ip secs : N) (k : kind)
| NoAddress            (* Error::NoAssignableAddress *)
| InUse                (* Error::RequestedAddressInUse -- swallowed by select_address, never returned *)
| DbErr                (* Error::DbError / CorruptDatabase *)
| Panicked.            (* `lease.2 - lease.1` on u32 with expiry < start (debug profile) *)

Definition mine (c : list N) (r : row) : bool := bytes_eqb (r_client r) c.
Definition in_pool (p : list N) (x : N) : bool := existsb (N.eqb x) p.
Definition is_req (req : option N) (x : N) : bool :=
  match req with Some q => q =? x | None => false end.

(* ORDER BY address=?req DESC, expiry DESC: [key_le req r' r] = r' sorts no earlier than r *)
Definition key_le (req : option N) (r' r : row) : bool :=
  match is_req req (r_addr r'), is_req req (r_addr r) with
  | true, false => false
  | false, true => true
  | _, _ => r_expiry r' <=? r_expiry r
  end.

Definition find_addr (x : N) (rs : list row) : option row := find (fun r => r_addr r =? x) rs.

(* r is inside the pool and no row of rs inside the pool sorts strictly before it:
   it is the first in-pool row of SOME order SQLite may return *)
Definition best_in_pool (pool : list N) (req : option N) (rs : list row) (r : row) : bool :=
  in_pool pool (r_addr r)
  && forallb (fun r' => negb (in_pool pool (r_addr r')) || key_le req r' r) rs.

Definition none_in_pool (pool : list N) (rs : list row) : bool :=
  forallb (fun r => negb (in_pool pool (r_addr r))) rs.

(* NOT EXISTS (expiry >= ts AND address = x) *)
Definition free (d : db) (t x : N) : bool :=
  forallb (fun r => negb (r_addr r =? x) || (r_expiry r <? t)) d.

Definition clamp (o : op) (v : N) : N := N.min (N.max v (o_min o)) (o_max o).

(* max((ts as u32).saturating_sub(start).saturating_mul(3), expiry.saturating_sub(ts as u32)):
   three times the time since the lease started, but never less than what is left of
   the lease the client was already told (repair of observation O1) *)
Definition reuse_secs (t : N) (r : row) : N :=
  N.max (sat_mul 32 (sat_sub t (r_start r)) 3) (sat_sub (r_expiry r) t).
(* 2 * (expiry - start) as u64 *)
Definition revive_secs (r : row) : N := 2 * (r_expiry r - r_start r).

Definition new_row (o : op) (ip t2 secs : N) : row :=
  {| r_addr := ip; r_client := o_client o; r_start := cast 32 t2; r_expiry := cast 32 (t2 + secs) |}.

Definition my_rows (d : db) (o : op) : list row := filter (mine (o_client o)) d.
Definition cur_rows (d : db) (o : op) (t : N) : list row :=
  filter (fun r => t <? r_expiry r) (my_rows d o).

Definition req_ok (d : db) (o : op) (t x : N) : bool :=
  is_req (o_req o) x && in_pool (o_pool o) x && free d t x.
Definition no_req_ok (d : db) (o : op) (t : N) : bool :=
  match o_req o with Some q => negb (req_ok d o t q) | None => true end.

Definition alloc_ok (d : db) (o : op) (t1 t2 : N) (a : answer) : option db :=
  let t := cast 32 t1 in
  let all := my_rows d o in
  let cur := cur_rows d o t in
  let pool := o_pool o in
  match a with
  | Granted ip s ReusingLease =>                                     (* step 1: expiry > ts *)
      match find_addr ip cur with
      | Some r =>
          if best_in_pool pool (o_req o) cur r && (s =? clamp o (reuse_secs t r))
          then Some (upsert (new_row o ip t2 s) d) else None
      | None => None
      end
  | Granted ip s Revived =>                                          (* step 2: any expiry *)
      if none_in_pool pool cur then
        match find_addr ip all with
        | Some r =>
            if best_in_pool pool (o_req o) all r && (r_start r <=? r_expiry r)
               && (s =? clamp o (revive_secs r))
            then Some (upsert (new_row o ip t2 s) d) else None
        | None => None
        end
      else None
  | Granted ip s Requested =>                                        (* step 3 *)
      if none_in_pool pool all && req_ok d o t ip && (s =? clamp o 0)
      then Some (upsert (new_row o ip t2 s) d) else None
  | Granted ip s NewAddress =>                                       (* step 4 *)
      if none_in_pool pool all && no_req_ok d o t && in_pool pool ip && free d t ip
         && (s =? clamp o 0)
      then Some (upsert (new_row o ip t2 s) d) else None
  | NoAddress =>
      if none_in_pool pool all && no_req_ok d o t && forallb (fun x => negb (free d t x)) pool
      then Some d else None
  | Panicked =>
      if none_in_pool pool cur
         && existsb (fun r => best_in_pool pool (o_req o) all r && (r_expiry r <? r_start r)) all
      then Some d else None
  | InUse | DbErr => None
  end.

(* ---- histories -------------------------------------------------------- *)
Record grant := { g_client : list N; g_addr : N; g_time : N; g_expiry : N;
                  g_secs : N; g_min : N; g_max : N }.

Inductive event :=
| EAlloc (o : op) (t1 t2 : N) (a : answer)    (* a DISCOVER/REQUEST reaching allocate_address, with the reply *)
| ETick (d : N)                               (* d seconds pass *)
| ERestart.                                   (* the store is closed and reopened (SQLite durability) *)

Definition state := (db * list grant)%type.    (* the log is newest first *)

Definition grant_of (o : op) (t2 ip secs : N) : grant :=
  {| g_client := o_client o; g_addr := ip; g_time := t2; g_expiry := cast 32 (t2 + secs);
     g_secs := secs; g_min := o_min o; g_max := o_max o |}.

Definition step (s : state) (e : event) : option state :=
  match e with
  | EAlloc o t1 t2 a =>
      match alloc_ok (fst s) o t1 t2 a with
      | Some d' => Some (d', match a with
                             | Granted ip secs _ => grant_of o t2 ip secs :: snd s
                             | _ => snd s
                             end)
      | None => None
      end
  | ETick _ => Some s
  | ERestart => Some s
  end.

Fixpoint run_from (s : state) (h : list event) : option state :=
  match h with
  | [] => Some s
  | e :: h' => match step s e with Some s' => run_from s' h' | None => None end
  end.
Definition run (h : list event) : option state := run_from ([], []) h.

(* Histories in which a reply may be LOST (crash between the INSERT and the send, packet
   loss, a duplicate ACK the client discards): the step happens, the store changes, but
   the client never learns of the grant, so it is not logged as held. *)
Definition step_lossy (s : state) (el : event * bool) : option state :=
  let '(e, lost) := el in
  match step s e with
  | Some (d', log') => Some (d', if lost then snd s else log')
  | None => None
  end.
Fixpoint run_lossy_from (s : state) (h : list (event * bool)) : option state :=
  match h with
  | [] => Some s
  | el :: h' => match step_lossy s el with Some s' => run_lossy_from s' h' | None => None end
  end.
Definition run_lossy (h : list (event * bool)) : option state := run_lossy_from ([], []) h.

(* as wf_from, with one configured maximum M for the whole history *)
Fixpoint wf_lossy_from (M now : N) (h : list (event * bool)) : bool :=
  match h with
  | [] => true
  | (EAlloc o t1 t2 _, _) :: h' =>
      (now <=? t1) && (t1 <=? t2) && (t2 + M <? pow2 32) && (o_min o <=? o_max o) && (o_max o =? M)
      && wf_lossy_from M t2 h'
  | (ETick d, _) :: h' => wf_lossy_from M (now + d) h'
  | (ERestart, _) :: h' => wf_lossy_from M now h'
  end.
Definition wf_lossy (M : N) (h : list (event * bool)) : bool := wf_lossy_from M 0 h.

(* times sorted, no u32 wrap, sane bounds *)
Fixpoint wf_from (now : N) (h : list event) : bool :=
  match h with
  | [] => true
  | EAlloc o t1 t2 _ :: h' =>
      (now <=? t1) && (t1 <=? t2) && (t2 + o_max o <? pow2 32) && (o_min o <=? o_max o) && wf_from t2 h'
  | ETick d :: h' => wf_from (now + d) h'
  | ERestart :: h' => wf_from now h'
  end.
Definition wf_history (h : list event) : bool := wf_from 0 h.

(* ---- the specification side (from the property text) ------------------- *)
(* the latest reply to client c for address x produced at or before t *)
Fixpoint last_grant_to (log : list grant) (c : list N) (x t : N) : option grant :=
  match log with
  | [] => None
  | g :: l => if bytes_eqb (g_client g) c && (g_addr g =? x) && (g_time g <=? t) then Some g
              else last_grant_to l c x t
  end.
Definition holds (log : list grant) (c : list N) (x t : N) : Prop :=
  exists g, last_grant_to log c x t = Some g /\ t < g_expiry g.

(* c holds an unexpired lease on x according to the store *)
Definition held_by (d : db) (c : list N) (x t : N) : bool :=
  existsb (fun r => (r_addr r =? x) && mine c r && (t <? r_expiry r)) d.

(* ---- reply construction (dhcp/mod.rs handle_discover / handle_request) --
   ResponseOptions is a map code -> Option<bytes>; policies fill it first,
   then the handler sets message type, server id and -- last -- the lease
   time, so a policy cannot override it.  [None] = "do not send". *)
Definition optmap := list (N * option (list N)).
Definition set_opt (k : N) (v : option (list N)) (m : optmap) : optmap :=
  (k, v) :: filter (fun kv => negb (fst kv =? k)) m.
Definition get_opt (k : N) (m : optmap) : option (list N) :=
  match find (fun kv => fst kv =? k) m with Some (_, Some v) => Some v | _ => None end.
Definition OPT_LEASETIME : N := 51.
Definition OPT_MSGTYPE : N := 53.
Definition OPT_SERVERID : N := 54.
(* is_request = false: OFFER (type 2), true: ACK (type 5) *)
Definition reply_options (is_request : bool) (policy_opts : optmap) (serverid : list N) (secs : N) : optmap :=
  set_opt OPT_LEASETIME (Some (be32 (cast 32 secs)))
    (set_opt OPT_SERVERID (Some serverid)
      (set_opt OPT_MSGTYPE (Some [if is_request then 5 else 2]) policy_opts)).

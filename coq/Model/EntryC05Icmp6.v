(* Token-level entry point for property C05, ICMPv6 part: "no input octets
   make the router solicitation/advertisement decoder panic".  Decodes one
   case line written by harness/src/c05_icmp6.rs, runs the model on the
   input, compares with what the implementation returned and evaluates the
   property predicate on the implementation's own outcome.  Definitions only.

   case kind 300:  300 ; len ; octets... ; impl
     impl = 2                      the decoder panicked
          | 1 e                    Err(e): 1 Truncated, 2 InvalidEncoding, 3 InvalidPacket
          | 0 v                    Ok(v), v =
              0                                                   Icmp6::Unknown
              1 opts                                              Icmp6::RtrSolicit
              2 hop managed other lifetime_s reachable_ms retrans_ms opts   Icmp6::RtrAdvert
            opts = count ; then per option
              1 bytes(addr)                                       SourceLLAddr
              5 mtu                                               Mtu
              3 plen onlink auto valid_s preferred_s bytes(prefix)   Prefix
              25 lifetime_s nservers bytes(server)*               RecursiveDnsServers
              37 bytes(url)                                       CaptivePortal
              38 lifetime_s plen bytes(prefix)                    Pref64
   verdict tags: 1 unknown type, 2 solicitation decoded, 3 advertisement decoded,
     4 Err Truncated (length >= 8), 5 Err InvalidEncoding, 6 Err InvalidPacket,
     7 shorter than 8 octets. *)
From Erbium Require Import Lib.Base Model.Icmp6Parse.

Definition put_ndopt (o : ndopt) : list N :=
  match o with
  | SourceLLAddr v => 1 :: put_bytes v
  | Mtu m => [5; m]
  | Prefix pl onl aut valid pref pfx =>
      [3; pl; N.b2n onl; N.b2n aut; valid; pref] ++ put_bytes pfx
  | RecursiveDnsServers lt servers =>
      25 :: lt :: lenN servers :: flat_map put_bytes servers
  | CaptivePortal url => 37 :: put_bytes url
  | Pref64 lt pl pfx => 38 :: lt :: pl :: put_bytes pfx
  end.

Definition put_ndopts (os : list ndopt) : list N := lenN os :: flat_map put_ndopt os.

Definition put_icmp6 (m : icmp6) : list N :=
  match m with
  | Unknown => [0]
  | RtrSolicit os => 1 :: put_ndopts os
  | RtrAdvert ra =>
      [2; ra_hop_limit ra; N.b2n (ra_managed ra); N.b2n (ra_other ra);
       ra_lifetime_s ra; ra_reachable_ms ra; ra_retrans_ms ra] ++ put_ndopts (ra_options ra)
  end.

Definition put_icmp6_outcome (o : outcome icmp6) : list N :=
  match o with
  | Ok m => 0 :: put_icmp6 m
  | Err e => [1; e]
  | Panic _ => [2]
  end.

Definition icmp6_tag (len : N) (o : outcome icmp6) : N :=
  match o with
  | Ok Unknown => 1
  | Ok (RtrSolicit _) => 2
  | Ok (RtrAdvert _) => 3
  | Err e => if len <? 8 then 7 else 3 + e
  | Panic _ => 0
  end.

Definition check_icmp6_parse (ts : list N) : list N :=
  match tok_bytes ts with
  | Some (wire, impl) =>
    if negb (bytes_ok wire) then v_bad else
    match impl with
    | 2 :: _ => v_viol 1                         (* the property: the decoder must not panic *)
    | _ =>
      let o := icmp6_parse wire in
      let md := put_icmp6_outcome o in
      if list_eqb N.eqb impl md then v_ok (icmp6_tag (lenN wire) o) else v_diff md
    end
  | None => v_bad
  end.

Definition check_C05_icmp6 (ts : list N) : list N :=
  match ts with
  | 300 :: r => check_icmp6_parse r
  | _ => v_bad
  end.

(* Token-level entry point of property C03: the DNS case kinds are shared by
   C14, C04 and C03 (Model/DnsEntry.v); each harness emits its own mix. *)
From Erbium Require Import Lib.Base Model.DnsEntry.
Definition check_C03 (ts : list N) : list N := check_dns ts.

(* DNS names on the wire: the compressing encoder of dnspkt.rs
   (push_compressed_domain / push_prefix with its suffix tree of offsets) and
   the decoder of parse.rs (get_domain / get_domain_into).  Definitions only.

   The model is of the code AFTER the repairs of F17 (offsets that do not fit
   a compression pointer are stored saturated and never matched), F18 (the
   decoder follows up to LIMIT = 127 pointers) and F45 (the decoder rejects
   names longer than 255 octets, RFC 1035 2.3.4 -- without this bound no
   finite hop limit makes decode . encode the identity on decoder output). *)
From Erbium Require Import Lib.Base.

Definition label := list N.
Definition name := list label.          (* wire order: leftmost label first *)

Definition label_eqb : label -> label -> bool := list_eqb N.eqb.
Definition name_eqb : name -> name -> bool := list_eqb label_eqb.

(* octets the uncompressed name takes on the wire *)
Definition wire_len (n : name) : N := fold_right (fun l a => 1 + lenN l + a) 1 n.

Definition wf_label (l : label) : bool := (0 <? lenN l) && (lenN l <? 64) && bytes_ok l.
Definition wf_name (n : name) : bool := forallb wf_label n && (wire_len n <=? 255).

(* ---- the compression dictionary (dnspkt.rs DomainTree<u16>) ------------ *)
Inductive tree := Node (lbl : label) (off : N) (kids : list tree).
Definition t_lbl (t : tree) := match t with Node l _ _ => l end.
Definition t_off (t : tree) := match t with Node _ o _ => o end.
Definition t_kids (t : tree) := match t with Node _ _ k => k end.

Definition PTR_MAX : N := 16384.                       (* 0x4000 *)
Definition usable (t : tree) : bool := t_off t <? PTR_MAX.
Definition node_off (o : N) : N := N.min o 65535.      (* saturating store into the u16 *)

(* `for it in &mut node.children { if it.label == *label && it.data < 0x4000 { child = Some(it) } }`
   -- the LAST matching child; returned with the children before and after it *)
Fixpoint find_last (l : label) (ks : list tree) : option (list tree * tree * list tree) :=
  match ks with
  | [] => None
  | k :: r =>
    match find_last l r with
    | Some (a, c, b) => Some (k :: a, c, b)
    | None => if label_eqb (t_lbl k) l && usable k then Some ([], k, r) else None
    end
  end.

Definition enc_label (l : label) : outcome (list N) :=      (* push_label, with its two asserts *)
  if (0 <? lenN l) && (lenN l <? 64) then Ok (lenN l :: l) else Panic Assert.
Definition enc_ptr (off : N) : list N := [192 + off / 256; off mod 256].

Definition found_kids (f : option (list tree * tree * list tree)) : option (list tree) :=
  match f with Some (_, c, _) => Some (t_kids c) | None => None end.

(* push_prefix on the REVERSED label list (last label of the name first).
   [okids] = children of the node the Rust code was handed ([None]: no node).
   Result: octets written, the new node to attach (None: a pointer closed the
   name), and the children of the handed node after in-place updates. *)
Fixpoint push_prefix (pos : N) (rl : list label) (okids : option (list tree))
  : outcome (list N * option tree * option (list tree)) :=
  match rl with
  | [] => Panic Assert
  | l :: rp =>
    let found := match okids with Some ks => find_last l ks | None => None end in
    match rp with
    | [] =>
      match found with
      | None => do b <- enc_label l; Ok (b, Some (Node l (node_off pos) []), okids)
      | Some (_, c, _) => Ok (enc_ptr (t_off c), None, okids)
      end
    | _ :: _ =>
      match push_prefix pos rp (found_kids found) with
      | Ok (b1, ret, ck) =>
        match ret, found with
        | None, None => Panic Unreachable
        | None, Some (a, c, b) =>
          Ok (b1, None, Some (a ++ Node (t_lbl c) (t_off c) (match ck with Some k => k | None => t_kids c end) :: b))
        | Some r, None =>
          do lb <- enc_label l;
          Ok (b1 ++ lb, Some (Node l (node_off (pos + lenN b1)) [r]), okids)
        | Some r, Some (a, c, b) =>
          if t_off c =? 0 then Panic Assert
          else Ok (b1 ++ enc_ptr (t_off c), None,
                   Some (a ++ Node (t_lbl c) (t_off c) ((match ck with Some k => k | None => t_kids c end) ++ [r]) :: b))
        end
      | Err e => Err e
      | Panic k => Panic k
      end
    end
  end.

(* push_compressed_domain: octets written at absolute offset [pos] and the
   updated children of the root *)
Definition push_name (pos : N) (kids : list tree) (n : name) : outcome (list N * list tree) :=
  match n with
  | [] => Ok ([0], kids)
  | _ :: _ =>
    match push_prefix pos (rev n) (Some kids) with
    | Ok (b, None, Some ks) => Ok (b, ks)
    | Ok (b, Some r, Some ks) => Ok (b ++ [0], ks ++ [r])
    | Ok (_, _, None) => Panic Unreachable
    | Err e => Err e
    | Panic k => Panic k
    end
  end.

(* ---- decoder ----------------------------------------------------------- *)
Definition LIMIT : N := 127.            (* parse.rs: `if depth > LIMIT` with depth starting at 1 *)
Definition MAXNAME : N := 255.
Definition NAME_FUEL : nat := 300.      (* at most 127 labels + 127 hops + 1 terminator *)

Fixpoint take_exact {A} (n : nat) (l : list A) : option (list A * list A) :=
  match n with
  | O => Some ([], l)
  | S k => match l with
           | [] => None
           | x :: r => match take_exact k r with Some (a, b) => Some (x :: a, b) | None => None end
           end
  end.

(* error classes of the DNS decoder (compared only as "an error") *)
Definition E_TRUNC : N := 1.
Definition E_DEPTH : N := 2.
Definition E_LABELTYPE : N := 3.
Definition E_TOOLONG : N := 4.
Definition E_QCOUNT : N := 5.
Definition E_FUEL : N := 9.

(* get_domain_into: [rest] = the buffer from offset [off] on; [alen] = octets
   of the expanded name so far.  Returns the labels and the offset after the
   inline part of the name. *)
Fixpoint get_domain_into (fuel : nat) (buf rest : list N) (off depth alen : N)
  : outcome (name * N) :=
  match fuel with
  | O => Err E_FUEL
  | S f =>
    match rest with
    | [] => Err E_TRUNC
    | p :: r =>
      if p =? 0 then Ok ([], off + 1)
      else if p <? 64 then
        match take_exact (N.to_nat p) r with
        | None => Err E_TRUNC
        | Some (l, r') =>
          if MAXNAME <? alen + 1 + p + 1 then Err E_TOOLONG
          else match get_domain_into f buf r' (off + 1 + p) depth (alen + 1 + p) with
               | Ok (ls, nxt) => Ok (l :: ls, nxt)
               | e => e
               end
        end
      else if 192 <=? p then
        if LIMIT <? depth then Err E_DEPTH
        else match r with
             | [] => Err E_TRUNC
             | lo :: _ =>
               let tgt := (p - 192) * 256 + lo in
               match get_domain_into f buf (dropN tgt buf) tgt (depth + 1) alen with
               | Ok (ls, _) => Ok (ls, off + 2)
               | e => e
               end
             end
      else Err E_LABELTYPE
    end
  end.

Definition get_domain (buf : list N) (off : N) : outcome (name * N) :=
  get_domain_into NAME_FUEL buf (dropN off buf) off 1 0.

(* ---- sequences of names (harness case kind 3) -------------------------- *)
Fixpoint push_names (pos : N) (kids : list tree) (ns : list name) : outcome (list N) :=
  match ns with
  | [] => Ok []
  | n :: r =>
    do (b, k) <- push_name pos kids n;
    do bs <- push_names (pos + lenN b) k r;
    Ok (b ++ bs)
  end.

Fixpoint get_domains (buf : list N) (off : N) (cnt : nat) : outcome (list name) :=
  match cnt with
  | O => Ok []
  | S c =>
    do (n, nxt) <- get_domain buf off;
    do ns <- get_domains buf nxt c;
    Ok (n :: ns)
  end.

(* ---- strict name decoding (specification side; RFC 1035 4.1.4) ---------
   Independent of the decoder above: a pointer must target an offset that is
   strictly smaller than its own and below 0x4000; at most 255 octets. *)
Fixpoint strict_name (fuel : nat) (buf rest : list N) (off alen : N) : option (name * N) :=
  match fuel with
  | O => None
  | S f =>
    match rest with
    | [] => None
    | p :: r =>
      if p =? 0 then Some ([], off + 1)
      else if p <? 64 then
        match take_exact (N.to_nat p) r with
        | None => None
        | Some (l, r') =>
          if 255 <? alen + 1 + p + 1 then None
          else match strict_name f buf r' (off + 1 + p) (alen + 1 + p) with
               | Some (ls, nxt) => Some (l :: ls, nxt)
               | None => None
               end
        end
      else if 192 <=? p then
        match r with
        | [] => None
        | lo :: _ =>
          let tgt := (p - 192) * 256 + lo in
          if (tgt <? off) && (tgt <? PTR_MAX) then
            match strict_name f buf (dropN tgt buf) tgt alen with
            | Some (ls, _) => Some (ls, off + 2)
            | None => None
            end
          else None
        end
      else None
    end
  end.

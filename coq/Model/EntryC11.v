(* Token-level entry point for property C11.
   Case line:  1 <config> <request> <impl>      (grammar in Model/ConfTokens.v)
   <impl> :=  7                         the loader rejected the configuration
            | 0 yiaddr n (code bytes)*   reply; options sorted by code
            | 1 e                        handle_pkt returned an error:
                                         1 NoPolicyConfigured, 2 NoLeasesConfigured, 3 pool: no assignable
                                         address, 4 OtherServer, 5 other pool error, 6 message type, 9 other
            | 2                          panic
   Definitions only. *)
From Erbium Require Import Lib.Base Model.DhcpPolicy Model.DhcpPolicySpec Model.DhcpAddrs Model.ConfTokens.

(* ---- the specification side: selected chain applied -------------------- *)
Definition spec_walk (g : config) (req : request) (init : table) : response :=
  let conf := conf_policies g in
  let r0 := {| rs_opts := init; rs_addr := None |} in
  let r1 := match selected req [build_default g req conf] with Some ch => apply_chain req ch r0 | None => r0 end in
  match selected req conf with Some ch => apply_chain req ch r1 | None => r1 end.

Definition msgtype (req : request) : N :=
  match ropt OPTION_MSGTYPE req with Some [t] => t | _ => 0 end.

Definition lease_of (os : list (N * list N)) : N :=
  match find (fun o => fst o =? OPTION_LEASETIME) os with Some o => be_decode (snd o) | None => 0 end.

Definition final_table (req : request) (walked : table) (lease : N) : table :=
  if msgtype req =? 1 then
    tset OPTION_LEASETIME (Some (be32 lease)) (tset OPTION_SERVERID (Some (be32 (r_serverip req))) walked)
  else tset OPTION_LEASETIME (Some (be32 lease))
         (tset OPTION_SERVERID
            (Some (match ropt OPTION_SERVERID req with
                   | Some [a; b; c; d] => [a; b; c; d]
                   | _ => be32 (r_serverip req) end))
            (tset OPTION_MSGTYPE (Some [5]) walked)).

Definition other_server (req : request) : bool :=
  (msgtype req =? 3)
  && match ropt OPTION_SERVERID req with
     | Some [a; b; c; d] => negb (be_decode [a; b; c; d] =? r_serverip req)
     | _ => false end.

Definition chain_depth (g : config) (req : request) : N :=
  match selected req (conf_policies g) with Some ch => lenN ch | None => 0 end.

Definition check_reply (ts : list N) : list N :=
  match tok_config ts with
  | Some (g, r) =>
    match tok_request r with
    | Some (req, impl) =>
      if negb (forallb loads (g_policies g)) then
        match impl with [7] => v_ok 0 | _ => v_diff [7] end
      else
      match impl with
      | [2] => v_viol 2
      | [7] => v_viol 3
      | 1 :: e :: _ =>
        if other_server req then (if e =? 4 then v_ok 3 else v_diff [1; 4])
        else match rs_addr (snd (policy_walk g req (init_table req))) with
             | None => if e =? 2 then v_ok 1 else v_diff [1; 2]
             | Some _ => if e =? 3 then v_ok 2 else v_diff [0]
             end
      | 0 :: y :: r =>
        match tok_counted tok_ropt r with
        | Some (os, []) =>
          let lease := lease_of os in
          let spec := sort_codes (to_options (final_table req (rs_opts (spec_walk g req (init_table req))) lease)) in
          let walk := policy_walk g req (init_table req) in
          let model := sort_codes (to_options (final_table req (rs_opts (snd walk)) lease)) in
          if other_server req then v_diff [1; 4]
          else if negb (opts_eqb os spec) then v_viol 1
          else if negb (opts_eqb os model) then v_diff (0 :: put_ropts model)
          else match rs_addr (snd walk) with
               | None => v_diff [1; 2]
               | Some f => if f y then v_ok (10 * (if msgtype req =? 1 then 1 else 2) + chain_depth g req)
                           else v_diff [0; 0]
               end
        | _ => v_bad
        end
      | _ => v_bad
      end
    | None => v_bad
    end
  | None => v_bad
  end.

Definition check_C11 (ts : list N) : list N :=
  match ts with
  | 1 :: r => check_reply r
  | _ => v_bad
  end.

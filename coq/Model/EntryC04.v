(* Token-level entry point of property C04: the DNS case kinds are shared by
   C14, C04 and C03 (Model/DnsEntry.v); each harness emits its own mix. *)
From Erbium Require Import Lib.Base Model.DnsEntry.
Definition check_C04 (ts : list N) : list N :=
  match ts with
  | 8 :: r => check_k8g true r
  | _ => check_dns ts
  end.

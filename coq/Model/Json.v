(* SPECIFICATION side of C20: a parser for RFC 8259 JSON texts over lists of
   Unicode code points, written from the RFC's grammar; shares no code with the
   model of the renderer (Model/Http.v).  Definitions only.

     JSON-text = ws value ws
     value     = false / null / true / object / array / number / string
     object    = { ws [ member *( ws , ws member ) ] ws }      member = string ws : ws value
     array     = [ ws [ value *( ws , ws value ) ] ws ]
     number    = [ - ] int [ frac ] [ exp ]     int = 0 / ( digit1-9 *DIGIT )
     string    = DQUOTE *char DQUOTE     char = unescaped / BACKSLASH ( DQUOTE BACKSLASH / b f n r t / uXXXX )
     unescaped = %x20-21 / %x23-5B / %x5D-10FFFF          ws = *( SP / HT / LF / CR )         *)
From Erbium Require Import Lib.Base.

Inductive json :=
| JNull
| JBool (b : bool)
| JInt (n : N)                        (* a number written as a plain non-negative integer *)
| JNumber (lexeme : list N)           (* any other number, kept as written *)
| JStr (s : list N)                   (* code points *)
| JArr (l : list json)
| JObj (l : list (list N * json)).

Definition is_ws (c : N) : bool := (c =? 32) || (c =? 9) || (c =? 10) || (c =? 13).
Fixpoint skip_ws (s : list N) : list N :=
  match s with
  | c :: r => if is_ws c then skip_ws r else s
  | [] => []
  end.

Definition is_digit (c : N) : bool := (48 <=? c) && (c <=? 57).

Definition hexval (c : N) : option N :=
  if is_digit c then Some (c - 48)
  else if (65 <=? c) && (c <=? 70) then Some (c - 55)
  else if (97 <=? c) && (c <=? 102) then Some (c - 87)
  else None.
Definition hex4 (a b c d : N) : option N :=
  match hexval a, hexval b, hexval c, hexval d with
  | Some x, Some y, Some z, Some w => Some (((x * 16 + y) * 16 + z) * 16 + w)
  | _, _, _, _ => None
  end.

Definition is_high_surrogate (u : N) : bool := (55296 <=? u) && (u <=? 56319).
Definition is_low_surrogate (u : N) : bool := (56320 <=? u) && (u <=? 57343).

Definition simple_escape (e : N) : option N :=
  if e =? 34 then Some 34 else if e =? 92 then Some 92 else if e =? 47 then Some 47
  else if e =? 98 then Some 8 else if e =? 102 then Some 12 else if e =? 110 then Some 10
  else if e =? 114 then Some 13 else if e =? 116 then Some 9 else None.

Definition cons_fst {A} (c : N) (o : option (list N * A)) : option (list N * A) :=
  match o with Some (s, r) => Some (c :: s, r) | None => None end.

(* the characters after an opening quotation mark, up to and including the
   closing one; result: the string's code points and the rest of the input *)
Fixpoint parse_chars (s : list N) : option (list N * list N) :=
  match s with
  | [] => None
  | c :: r =>
    if c =? 34 then Some ([], r)
    else if c =? 92 then
      match r with
      | [] => None
      | e :: r1 =>
        if e =? 117 then
          match r1 with
          | h1 :: h2 :: h3 :: h4 :: r2 =>
            match hex4 h1 h2 h3 h4 with
            | None => None
            | Some u =>
              (* a high surrogate followed by an escaped low surrogate is one character *)
              match r2 with
              | b :: u' :: l1 :: l2 :: l3 :: l4 :: r3 =>
                match (if is_high_surrogate u && (b =? 92) && (u' =? 117) then hex4 l1 l2 l3 l4 else None) with
                | Some lo => if is_low_surrogate lo
                             then cons_fst (65536 + (u - 55296) * 1024 + (lo - 56320)) (parse_chars r3)
                             else cons_fst u (parse_chars r2)
                | None => cons_fst u (parse_chars r2)
                end
              | _ => cons_fst u (parse_chars r2)
              end
            end
          | _ => None
          end
        else
          match simple_escape e with
          | Some v => cons_fst v (parse_chars r1)
          | None => None
          end
      end
    else if (c <? 32) || (1114111 <? c) then None
    else cons_fst c (parse_chars r)
  end.

(* json_string_parse: a complete JSON string (with both quotation marks) *)
Definition json_string_parse (s : list N) : option (list N) :=
  match s with
  | q :: r => if q =? 34 then match parse_chars r with Some (v, []) => Some v | _ => None end else None
  | [] => None
  end.

(* ---- numbers ----------------------------------------------------------- *)
Fixpoint take_digits (s : list N) : list N * list N :=
  match s with
  | c :: r => if is_digit c then let (d, r') := take_digits r in (c :: d, r') else ([], s)
  | [] => ([], [])
  end.
Definition digits_value (d : list N) : N := fold_left (fun acc c => acc * 10 + (c - 48)) d 0.

(* int = 0 / digit1-9 *DIGIT ; returns the digits and the rest *)
Definition parse_int (s : list N) : option (list N * list N) :=
  match s with
  | c :: r =>
    if c =? 48 then Some ([48], r)
    else if is_digit c then let (d, r') := take_digits r in Some (c :: d, r')
    else None
  | [] => None
  end.
Definition parse_frac (s : list N) : option (list N * list N) :=
  match s with
  | c :: r =>
    if c =? 46 then
      match take_digits r with
      | ([], _) => None
      | (d, r') => Some (46 :: d, r')
      end
    else Some ([], s)
  | [] => Some ([], [])
  end.
Definition parse_exp (s : list N) : option (list N * list N) :=
  match s with
  | c :: r =>
    if (c =? 101) || (c =? 69) then
      let '(sign, r1) := match r with
                         | g :: r0 => if (g =? 43) || (g =? 45) then ([g], r0) else ([], r)
                         | [] => ([], r)
                         end in
      match take_digits r1 with
      | ([], _) => None
      | (d, r') => Some (c :: sign ++ d, r')
      end
    else Some ([], s)
  | [] => Some ([], [])
  end.
Definition parse_number (s : list N) : option (json * list N) :=
  let '(neg, s1) := match s with c :: r => if c =? 45 then (true, r) else (false, s) | [] => (false, s) end in
  match parse_int s1 with
  | None => None
  | Some (i, r1) =>
    match parse_frac r1 with
    | None => None
    | Some (f, r2) =>
      match parse_exp r2 with
      | None => None
      | Some (e, r3) =>
        match neg, f, e with
        | false, [], [] => Some (JInt (digits_value i), r3)
        | _, _, _ => Some (JNumber ((if neg then [45] else []) ++ i ++ f ++ e), r3)
        end
      end
    end
  end.

(* ---- literals ---------------------------------------------------------- *)
Fixpoint strip_prefix (p s : list N) : option (list N) :=
  match p, s with
  | [], _ => Some s
  | a :: p', b :: s' => if a =? b then strip_prefix p' s' else None
  | _ :: _, [] => None
  end.
Definition LIT_TRUE : list N := [116; 114; 117; 101].
Definition LIT_FALSE : list N := [102; 97; 108; 115; 101].
Definition LIT_NULL : list N := [110; 117; 108; 108].

(* ---- values ------------------------------------------------------------ *)
(* [parse_value] expects its input to start at the value (leading white space
   already skipped); [parse_elems]/[parse_members] are entered after the
   opening bracket when the container is not empty.  Fuel bounds the nesting
   and the number of elements; [json_parse] supplies 2 * length + 2. *)
Fixpoint parse_value (fuel : nat) (s : list N) : option (json * list N) :=
  match fuel with
  | O => None
  | S f =>
    match s with
    | [] => None
    | c :: r =>
      if c =? 34 then
        match parse_chars r with Some (v, r') => Some (JStr v, r') | None => None end
      else if c =? 91 then
        match skip_ws r with
        | c' :: r' => if c' =? 93 then Some (JArr [], r')
                      else match parse_elems f (c' :: r') with Some (l, r'') => Some (JArr l, r'') | None => None end
        | [] => None
        end
      else if c =? 123 then
        match skip_ws r with
        | c' :: r' => if c' =? 125 then Some (JObj [], r')
                      else match parse_members f (c' :: r') with Some (l, r'') => Some (JObj l, r'') | None => None end
        | [] => None
        end
      else if c =? 116 then match strip_prefix LIT_TRUE s with Some r' => Some (JBool true, r') | None => None end
      else if c =? 102 then match strip_prefix LIT_FALSE s with Some r' => Some (JBool false, r') | None => None end
      else if c =? 110 then match strip_prefix LIT_NULL s with Some r' => Some (JNull, r') | None => None end
      else parse_number s
    end
  end
with parse_elems (fuel : nat) (s : list N) : option (list json * list N) :=
  match fuel with
  | O => None
  | S f =>
    match parse_value f s with
    | None => None
    | Some (v, r) =>
      match skip_ws r with
      | c :: r' =>
        if c =? 44 then
          match parse_elems f (skip_ws r') with Some (l, r'') => Some (v :: l, r'') | None => None end
        else if c =? 93 then Some ([v], r')
        else None
      | [] => None
      end
    end
  end
with parse_members (fuel : nat) (s : list N) : option (list (list N * json) * list N) :=
  match fuel with
  | O => None
  | S f =>
    match s with
    | q :: r0 =>
      if q =? 34 then
        match parse_chars r0 with
        | None => None
        | Some (k, r1) =>
          match skip_ws r1 with
          | c1 :: r2 =>
            if c1 =? 58 then
              match parse_value f (skip_ws r2) with
              | None => None
              | Some (v, r3) =>
                match skip_ws r3 with
                | c :: r' =>
                  if c =? 44 then
                    match parse_members f (skip_ws r') with Some (l, r'') => Some ((k, v) :: l, r'') | None => None end
                  else if c =? 125 then Some ([(k, v)], r')
                  else None
                | [] => None
                end
              end
            else None
          | [] => None
          end
        end
      else None
    | [] => None
    end
  end.

Definition json_parse (s : list N) : option json :=
  match parse_value (2 * length s + 2) (skip_ws s) with
  | Some (j, r) => match skip_ws r with [] => Some j | _ => None end
  | None => None
  end.

(* ---- what a lease listing says ------------------------------------------
   { "leases": [ { "ip": text, "client_id": text, "start": int, "expire": int
                   [, "host-name": text] } ... ] }
   Members are looked up by name (any order), each name at most once. *)
Definition str_eqb := list_eqb N.eqb.

Fixpoint lookup_all (k : list N) (l : list (list N * json)) : list json :=
  match l with
  | [] => []
  | (k', v) :: r => if str_eqb k k' then v :: lookup_all k r else lookup_all k r
  end.
Definition lookup1 (k : list N) (l : list (list N * json)) : option json :=
  match lookup_all k l with [v] => Some v | _ => None end.
Definition lookup01 (k : list N) (l : list (list N * json)) : option (option json) :=
  match lookup_all k l with [] => Some None | [v] => Some (Some v) | _ => None end.

Definition K_LEASES : list N := [108; 101; 97; 115; 101; 115].
Definition K_IP : list N := [105; 112].
Definition K_CLIENT_ID : list N := [99; 108; 105; 101; 110; 116; 95; 105; 100].
Definition K_START : list N := [115; 116; 97; 114; 116].
Definition K_EXPIRE : list N := [101; 120; 112; 105; 114; 101].
Definition K_HOSTNAME : list N := [104; 111; 115; 116; 45; 110; 97; 109; 101].

(* one entry of the listing: address text, identifier text, start, expiry, host name *)
Record entry := { e_ip : list N; e_cid : list N; e_start : N; e_expire : N; e_host : option (list N) }.

Definition entry_of_json (j : json) : option entry :=
  match j with
  | JObj m =>
    match lookup1 K_IP m, lookup1 K_CLIENT_ID m, lookup1 K_START m, lookup1 K_EXPIRE m, lookup01 K_HOSTNAME m with
    | Some (JStr ip), Some (JStr cid), Some (JInt st), Some (JInt ex), Some h =>
      match h with
      | None => Some {| e_ip := ip; e_cid := cid; e_start := st; e_expire := ex; e_host := None |}
      | Some (JStr hn) => Some {| e_ip := ip; e_cid := cid; e_start := st; e_expire := ex; e_host := Some hn |}
      | Some _ => None
      end
    | _, _, _, _, _ => None
    end
  | _ => None
  end.

Fixpoint all_some {A} (l : list (option A)) : option (list A) :=
  match l with
  | [] => Some []
  | Some a :: r => match all_some r with Some l' => Some (a :: l') | None => None end
  | None :: _ => None
  end.

Definition entries (j : json) : option (list entry) :=
  match j with
  | JObj m => match lookup1 K_LEASES m with
              | Some (JArr items) => all_some (map entry_of_json items)
              | _ => None
              end
  | _ => None
  end.

(* the spec's notation for an address (dotted quad) and for a client
   identifier (two lower-case hex digits per octet, separated by colons) *)
Fixpoint spec_dec_aux (fuel : nat) (n : N) (acc : list N) : list N :=
  match fuel with
  | O => acc
  | S f => if n <? 10 then (48 + n) :: acc else spec_dec_aux f (n / 10) ((48 + n mod 10) :: acc)
  end.
Definition spec_dec (n : N) : list N := spec_dec_aux (S (N.to_nat (N.log2 n))) n [].
Definition spec_ip_text (ip : N) : list N :=
  spec_dec ((ip / 16777216) mod 256) ++ [46] ++ spec_dec ((ip / 65536) mod 256) ++ [46]
  ++ spec_dec ((ip / 256) mod 256) ++ [46] ++ spec_dec (ip mod 256).
Definition spec_hexdigit (d : N) : N := if d <? 10 then 48 + d else 87 + d.
Fixpoint spec_cid_text (cid : list N) : list N :=
  match cid with
  | [] => []
  | [b] => [spec_hexdigit (b / 16); spec_hexdigit (b mod 16)]
  | b :: r => spec_hexdigit (b / 16) :: spec_hexdigit (b mod 16) :: 58 :: spec_cid_text r
  end.

(* Token-level entry point for property C18 (schema part).  Definitions only. *)
From Erbium Require Import Lib.Base Model.Schema Model.DhcpPool Model.PoolEntry.

Definition tok_ver (ts : list N) : option (option Z * list N) :=
  match ts with
  | 0 :: r => Some (None, r)
  | 1 :: m :: r => Some (Some (Z.of_N m), r)
  | 2 :: m :: r => Some (Some (- Z.of_N m)%Z, r)
  | _ => None
  end.

Definition tok_row (ts : list N) : option (lrow * list N) :=
  match ts with
  | a :: r =>
    match tok_bytes r with
    | Some (c, st :: ex :: 0 :: r2) =>
      Some ({| l_addr := a; l_client := c; l_start := st; l_expiry := ex; l_opts := None |}, r2)
    | Some (c, st :: ex :: 1 :: r2) =>
      match tok_bytes r2 with
      | Some (o, r3) => Some ({| l_addr := a; l_client := c; l_start := st; l_expiry := ex; l_opts := Some o |}, r3)
      | None => None
      end
    | _ => None
    end
  | [] => None
  end.

Fixpoint tok_rows (n : nat) (ts : list N) : option (list lrow * list N) :=
  match n with
  | O => Some ([], ts)
  | S k =>
    match tok_row ts with
    | Some (r, ts') =>
      match tok_rows k ts' with Some (rs, ts'') => Some (r :: rs, ts'') | None => None end
    | None => None
    end
  end.

Definition tok_store (ts : list N) : option (store * list N) :=
  match ts with
  | sv :: r =>
    match tok_ver r with
    | Some (v, 0 :: r2) => Some ({| s_sv := negb (sv =? 0); s_ver := v; s_leases := None |}, r2)
    | Some (v, 1 :: col :: n :: r2) =>
      match tok_rows (N.to_nat n) r2 with
      | Some (rs, r3) => Some ({| s_sv := negb (sv =? 0); s_ver := v; s_leases := Some (negb (col =? 0), rs) |}, r3)
      | None => None
      end
    | _ => None
    end
  | [] => None
  end.

Definition put_ver (v : option Z) : list N :=
  match v with
  | None => [0]
  | Some z => if (z <? 0)%Z then [2; Z.to_N (- z)] else [1; Z.to_N z]
  end.
Definition put_row (r : lrow) : list N :=
  l_addr r :: put_bytes (l_client r) ++ [l_start r; l_expiry r] ++
  match l_opts r with None => [0] | Some o => 1 :: put_bytes o end.
Definition put_store (s : store) : list N :=
  N.b2n (s_sv s) :: put_ver (s_ver s) ++
  match s_leases s with
  | None => [0]
  | Some (col, rs) => 1 :: N.b2n col :: lenN rs :: flat_map put_row rs
  end.

Definition toks_eqb := list_eqb N.eqb.
Definition res_class (r : open_res) : N :=
  match r with
  | Opened s => match s_leases s with Some (true, _) => 0 | _ => 5 end   (* 5: opens, but get_leases() cannot read it *)
  | Failed _ => 1
  | Refused _ => 2
  end.

Definition view_eqb (a b : N * list N * N * N * list N) : bool :=
  let '(a1, a2, a3, a4, a5) := a in let '(b1, b2, b3, b4, b5) := b in
  (a1 =? b1) && bytes_eqb a2 b2 && (a3 =? b3) && (a4 =? b4) && bytes_eqb a5 b5.
Definition rows_eqb := list_eqb view_eqb.

Definition known_version (s : store) : bool :=
  match s_ver s with None => true | Some v => ((v =? 0) || (v =? 1))%Z end.

(* kind 1: [1; store s; k; r1; store d1; r2; store d2]
   the harness builds s with raw SQL, opens it with a simulated kill at statement
   boundary k (0 = none; r1 = 3 when killed), dumps the file (d1), opens it again
   without a kill (r2) and dumps again (d2). *)
Definition check_schema (ts : list N) : list N :=
  match tok_store ts with
  | Some (s, k :: r1 :: r) =>
    match tok_store r with
    | Some (d1, r2 :: r') =>
      match tok_store r' with
      | Some (d2, []) =>
        let exp1 := match crash_state k s with
                    | Some st => 3 :: put_store st
                    | None => res_class (open s) :: put_store (res_store (open s))
                    end in
        let exp2 := res_class (open d1) :: put_store (res_store (open d1)) in
        (* the property, on what the implementation did *)
        if wf_store s && known_version s && negb ((r2 =? 0) && rows_eqb (rows d2) (rows s)) then v_viol 1
        else if negb (known_version s) && s_sv s &&
                negb (((r1 =? 2) || (r1 =? 3)) && toks_eqb (put_store d1) (put_store s) &&
                      (r2 =? 2) && toks_eqb (put_store d2) (put_store s)) &&
                match s_ver s with Some v => ((-2147483648 <=? v) && (v <? 2147483648))%Z | None => false end
             then v_viol 2
        else if negb (toks_eqb (r1 :: put_store d1) exp1) then v_diff exp1
        else if negb (toks_eqb (r2 :: put_store d2) exp2) then v_diff (99 :: exp2)
        else v_ok (if r1 =? 3 then 10 + N.min k 5
                   else match s_sv s, s_ver s, s_leases s with
                        | false, None, None => 1
                        | false, None, Some _ => 2
                        | _, Some 1%Z, _ => 3
                        | _, Some 0%Z, _ => 4
                        | _, None, _ => 5
                        | _, _, _ => 6 + r1
                        end)
      | _ => v_bad
      end
    | _ => v_bad
    end
  | _ => v_bad
  end.

Definition check_C18 (ts : list N) : list N :=
  match ts with
  | 1 :: r => check_schema r
  (* kind 3: the witness of S05_multihomed_refuted on the real code: a DISCOVER answered on one address of the
     host, then a REQUEST naming that address received on ANOTHER address of the server -- uninterrupted
     (a1 a2) and after a restart (b1 b2: a new service object around the reopened store); 1 = answered.  The
     identifiers handed to the handler are the receive loop's own.  Since the repair 726412e (every IPv4
     address of the host counts) both runs answer; a difference is a violation again *)
  | [3; a1; a2; b1; b2] =>
    if negb (a1 =? b1) || negb (a2 =? b2) then v_viol 6 else v_ok 120
  | 2 :: r => match check_pool 18 r with
              | [0; mask] => [0; 100 + N.land mask 96]     (* +32: the history contained a restart, +64: a kill *)
              | v => v
              end
  | _ => v_bad
  end.

(* Token-level entry point for property C06 (DNS cache).
   Case line (harness/src/bin/c06.rs): one history on one cache under tokio's paused clock
     1 nops op*
   op = 1 <key> qclass <script> tb ta asked <result>     CacheHandler::handle_query
          <key> = nlabels {len octet*}* qtype do cd
          <script> = 0 (upstream silent) | 2 (upstream answers garbage) | 1 <ttls> <ttls> <ttls>
                     | 3 rcode <ttls> <ttls> <ttls>   (a reply with a non-zero rcode)
      | 4 s ns <the fields of 1>                          the same, the look-up having waited s.ns for the cache's lock
          tb, ta = clock before / after the call, each as  seconds nanoseconds
          asked = number of datagrams the scripted upstream received
          <result> = 0 <rrs> <rrs> <rrs> | 1 errkind | 2 (panic)       <rrs> = n {ttl id}*
      | 2 s ns                                            tokio::time::advance
      | 3 now_s now_ns len next_s next_ns                 CacheHandler::expire(now): entries left, next run - now
   Definitions only. *)
From Erbium Require Import Lib.Base Model.DnsCache.

Section TokList.
  Context {A : Type} (f : list N -> option (A * list N)).
  Fixpoint tok_list (n : nat) (ts : list N) : option (list A * list N) :=
    match n with
    | O => Some ([], ts)
    | S k =>
      match f ts with
      | Some (a, r) =>
        match tok_list k r with
        | Some (l, r2) => Some (a :: l, r2)
        | None => None
        end
      | None => None
      end
    end.
  Definition tok_counted (ts : list N) : option (list A * list N) :=
    match ts with
    | n :: r => if n <=? lenN r then tok_list (N.to_nat n) r else None
    | [] => None
    end.
End TokList.

Definition tok_name := tok_counted tok_bytes.
Definition tok_key (ts : list N) : option (key * list N) :=
  match tok_name ts with
  | Some (n, qt :: d :: c :: r) => Some ((n, qt, negb (d =? 0), negb (c =? 0)), r)
  | _ => None
  end.
Definition tok_time (ts : list N) : option (N * list N) :=
  match ts with s :: ns :: r => Some (s * NS + ns, r) | _ => None end.
Definition tok_pair (ts : list N) : option (N * N * list N) :=
  match ts with a :: b :: r => Some (a, b, r) | _ => None end.
Definition tok_rr (ts : list N) : option ((N * N) * list N) :=
  match ts with a :: b :: r => Some ((a, b), r) | _ => None end.
Definition tok_rrs := tok_counted tok_rr.
Definition tok_ttls := tok_counted tok_one.

(* number the records of the scripted reply 0,1,2,... through all sections *)
Fixpoint number_from (i : N) (l : list N) : rrs :=
  match l with [] => [] | t :: r => (t, i) :: number_from (i + 1) r end.

Definition tok_script (ts : list N) : option (result * list N) :=
  match ts with
  | 0 :: r => Some (RErr 1, r)
  | 2 :: r => Some (RErr 5, r)
  | 1 :: r | 3 :: _ :: r =>          (* 3 rcode ...: a reply with that rcode; the cache does not look at it *)
    match tok_ttls r with Some (a, r) =>
    match tok_ttls r with Some (n, r) =>
    match tok_ttls r with Some (d, r) =>
      Some (ROk (number_from 0 a, number_from (lenN a) n, number_from (lenN a + lenN n) d), r)
    | None => None end | None => None end | None => None end
  | _ => None
  end.

Inductive ires := IOk (r : reply) | IErr (e : N) | IPanic.

Definition tok_ires (ts : list N) : option (ires * list N) :=
  match ts with
  | 0 :: r =>
    match tok_rrs r with Some (a, r) =>
    match tok_rrs r with Some (n, r) =>
    match tok_rrs r with Some (d, r) => Some (IOk (a, n, d), r)
    | None => None end | None => None end | None => None end
  | 1 :: e :: r => Some (IErr e, r)
  | 2 :: r => Some (IPanic, r)
  | _ => None
  end.

Inductive dop :=
| DQuery (k : key) (qc : N) (up : result) (tb ta : N) (asked : bool) (res : ires)
| DAdvance
| DExpire (now len next : N).

Definition tok_op (ts : list N) : option (dop * list N) :=
  match ts with
  | 1 :: r | 4 :: _ :: _ :: r =>      (* 4 s ns ...: the look-up waited s.ns for the cache's lock; tb is when it got it *)
    match tok_key r with
    | Some (k, qc :: r) =>
      match tok_script r with Some (up, r) =>
      match tok_time r with Some (tb, r) =>
      match tok_time r with Some (ta, r) =>
      match r with
      | asked :: r =>
        match tok_ires r with
        | Some (res, r) => Some (DQuery k qc up tb ta (negb (asked =? 0)) res, r)
        | None => None
        end
      | [] => None
      end
      | None => None end | None => None end | None => None end
    | _ => None
    end
  | 2 :: _ :: _ :: r => Some (DAdvance, r)
  | 3 :: r =>
    match tok_time r with
    | Some (now, len :: r) =>
      match tok_time r with
      | Some (next, r) => Some (DExpire now len next, r)
      | None => None
      end
    | _ => None
    end
  | _ => None
  end.

Definition rrs_eqb (a b : rrs) : bool :=
  list_eqb (fun x y => (fst x =? fst y) && (snd x =? snd y)) a b.
Definition reply_eqb (a b : reply) : bool :=
  rrs_eqb (r_answer a) (r_answer b) && rrs_eqb (r_ns a) (r_ns b) && rrs_eqb (r_additional a) (r_additional b).
Definition ires_eqb (a b : ires) : bool :=
  match a, b with
  | IOk x, IOk y => reply_eqb x y
  | IErr x, IErr y => x =? y
  | IPanic, IPanic => true
  | _, _ => false
  end.
Definition ires_of (o : outcome result) : ires :=
  match o with
  | Ok (ROk r) => IOk r
  | Ok (RErr e) => IErr e
  | _ => IPanic
  end.

Definition put_rrs (l : rrs) : list N := lenN l :: flat_map (fun p => [fst p; snd p]) l.
Definition put_ires (r : ires) : list N :=
  match r with
  | IOk r => 0 :: put_rrs (r_answer r) ++ put_rrs (r_ns r) ++ put_rrs (r_additional r)
  | IErr e => [1; e]
  | IPanic => [2]
  end.

(* ---- the property, monitored on what the implementation did ------------- *)
(* per key: when the reply now possibly in the cache was obtained, and the reply *)
Definition fetches := list (key * (N * reply)).
Fixpoint f_lookup (k : key) (f : fetches) : option (N * reply) :=
  match f with
  | [] => None
  | (k', v) :: r => if key_eqb k k' then Some v else f_lookup k r
  end.
Definition f_remove (k : key) (f : fetches) : fetches := filter (fun p => negb (key_eqb k (fst p))) f.

Definition dec_spec (d : N) (l : rrs) : rrs := map (fun p => (fst p - d, snd p)) l.

(* 0 = fine, otherwise the number of the failed predicate *)
Definition monitor_query (f : fetches) (k : key) (qc tb : N) (asked : bool) (res : ires) : N :=
  match res with
  | IPanic => 3
  | IErr _ => 0
  | IOk r' =>
    if asked then 0
    else if negb (qc =? 1) then 4
    else
      match f_lookup k f with
      | None => 1
      | Some (t0, r0) =>
        let el := tb - t0 in
        if negb (t0 <=? tb) || negb (el <=? NS * min_ttl r0) then 1
        else
          let d := el / NS in
          if forallb (fun p => d <=? fst p) (all_rrs r0)
             && rrs_eqb (r_answer r') (dec_spec d (r_answer r0))
             && rrs_eqb (r_ns r') (dec_spec d (r_ns r0))
             && rrs_eqb (r_additional r') (dec_spec d (r_additional r0))
          then 0 else 2
      end
  end.

Definition monitor_update (f : fetches) (k : key) (qc ta : N) (asked : bool) (res : ires) : fetches :=
  if asked && (qc =? 1) then
    match res with
    | IOk r => (k, (ta, r)) :: f_remove k f
    | _ => f_remove k f
    end
  else f.

(* ---- running the history ------------------------------------------------ *)
(* accumulates: first predicate failure, first disagreement, coverage flags *)
Record acc := {
  a_viol : N;                       (* 0 = none *)
  a_diff : option (list N);
  a_hit : bool; a_expired : bool; a_errhit : bool; a_boundary : bool }.

Definition first_nz (a b : N) : N := if a =? 0 then b else a.
Definition first_some {A} (a b : option A) : option A := match a with Some _ => a | None => b end.

Fixpoint run_ops (c : cache) (f : fetches) (a : acc) (i : N) (ops : list dop) : acc :=
  match ops with
  | [] => a
  | DAdvance :: r => run_ops c f a (i + 1) r
  | DExpire now len next :: r =>
    let c' := expire c now in
    let exp_next := next_cycle c now now - now in
    let ok := (len =? lenN c') && (next =? exp_next) in
    run_ops c' f
      {| a_viol := a_viol a;
         a_diff := first_some (a_diff a) (if ok then None else Some [i; 3; lenN c'; exp_next / NS; exp_next mod NS]);
         a_hit := a_hit a; a_expired := a_expired a; a_errhit := a_errhit a; a_boundary := a_boundary a |}
      (i + 1) r
  | DQuery k qc up tb ta asked res :: r =>
    match handle c k qc tb ta up with
    | (mres, c', masked) =>
      let m := ires_of mres in
      let ok := ires_eqb m res && Bool.eqb masked asked in
      let present := match lookup k c with Some _ => true | None => false end in
      let hit := (qc =? 1) && negb masked in
      let boundary := match lookup k c with
                      | Some e => hit && (e_birth e + e_life e - NS <? tb)
                      | None => false
                      end in
      run_ops c' (monitor_update f k qc ta asked res)
        {| a_viol := first_nz (a_viol a) (monitor_query f k qc tb asked res);
           a_diff := first_some (a_diff a) (if ok then None else Some (i :: (if masked then 1 else 0) :: put_ires m));
           a_hit := a_hit a || (hit && match m with IOk _ => true | _ => false end);
           a_expired := a_expired a || ((qc =? 1) && present && masked);
           a_errhit := a_errhit a || (hit && match m with IErr _ => true | _ => false end);
           a_boundary := a_boundary a || boundary |}
        (i + 1) r
    end
  end.

Definition check_history (ts : list N) : list N :=
  match tok_counted tok_op ts with
  | Some (ops, []) =>
    let a := run_ops [] [] {| a_viol := 0; a_diff := None; a_hit := false; a_expired := false;
                              a_errhit := false; a_boundary := false |} 0 ops in
    if negb (a_viol a =? 0) then v_viol (a_viol a)
    else match a_diff a with
         | Some d => v_diff d
         | None => v_ok (1 + (if a_hit a then 1 else 0) + (if a_expired a then 2 else 0)
                           + (if a_errhit a then 4 else 0) + (if a_boundary a then 8 else 0))
         end
  | _ => v_bad
  end.

Definition check_C06 (ts : list N) : list N :=
  match ts with
  | 1 :: r => check_history r
  | _ => v_bad
  end.

(* Stand-alone entry point for the pseudo-property C05L (the LLDP and DHCP
   option-value parts of C05): dispatch on the case kind. *)
From Erbium Require Import Lib.Base Model.EntryC05Lldp Model.EntryC05DhcpOpt.

Definition check_C05L (ts : list N) : list N :=
  match ts with
  | k :: _ =>
    if (100 <=? k) && (k <? 200) then check_C05_dhcpopt ts
    else if (400 <=? k) && (k <? 500) then check_C05_lldp ts
    else v_bad
  | [] => v_bad
  end.

(* Token-level entry point for property C12: decodes one case line written
   by the harness (input + what the implementation returned), runs the model
   on the input, compares, and evaluates the property predicates on the
   implementation's output.  Definitions only. *)
From Erbium Require Import Lib.Base Model.Frame Model.DhcpCodec.

(* ---- canonical form of decoded options: sorted by code ---------------- *)
Fixpoint ins_opt (o : N * list N) (l : list (N * list N)) : list (N * list N) :=
  match l with
  | [] => [o]
  | p :: r => if fst o <=? fst p then o :: l else p :: ins_opt o r
  end.
Definition sort_opts (l : list (N * list N)) : list (N * list N) := fold_right ins_opt [] l.

(* ---- token codecs ----------------------------------------------------- *)
Fixpoint tok_opts (n : nat) (ts : list N) : option (list (N * list N) * list N) :=
  match n with
  | O => Some ([], ts)
  | S k =>
    match ts with
    | code :: r =>
      match tok_bytes r with
      | Some (v, r2) =>
        match tok_opts k r2 with
        | Some (os, r3) => Some ((code, v) :: os, r3)
        | None => None
        end
      | None => None
      end
    | [] => None
    end
  end.

Definition tok_dhcp (ts : list N) : option (dhcp * list N) :=
  match ts with
  | op :: htype :: hlen :: hops :: xid :: secs :: flags :: ci :: yi :: si :: gi :: r =>
    match tok_bytes r with Some (ch, r) =>
    match tok_bytes r with Some (sn, r) =>
    match tok_bytes r with Some (fl, r) =>
    match r with nopts :: r =>
    match tok_opts (N.to_nat nopts) r with Some (os, r) =>
      Some ({| d_op := op; d_htype := htype; d_hlen := hlen; d_hops := hops; d_xid := xid;
               d_secs := secs; d_flags := flags; d_ciaddr := ci; d_yiaddr := yi; d_siaddr := si;
               d_giaddr := gi; d_chaddr := ch; d_sname := sn; d_file := fl; d_options := os |}, r)
    | None => None end
    | [] => None end
    | None => None end
    | None => None end
    | None => None end
  | _ => None
  end.

Definition put_opts (os : list (N * list N)) : list N :=
  lenN os :: flat_map (fun o => fst o :: put_bytes (snd o)) os.
Definition put_dhcp (m : dhcp) : list N :=
  [d_op m; d_htype m; d_hlen m; d_hops m; d_xid m; d_secs m; d_flags m;
   d_ciaddr m; d_yiaddr m; d_siaddr m; d_giaddr m]
  ++ put_bytes (d_chaddr m) ++ put_bytes (d_sname m) ++ put_bytes (d_file m) ++ put_opts (d_options m).

Definition canon (m : dhcp) : dhcp :=
  {| d_op := d_op m; d_htype := d_htype m; d_hlen := d_hlen m; d_hops := d_hops m; d_xid := d_xid m;
     d_secs := d_secs m; d_flags := d_flags m; d_ciaddr := d_ciaddr m; d_yiaddr := d_yiaddr m;
     d_siaddr := d_siaddr m; d_giaddr := d_giaddr m; d_chaddr := d_chaddr m; d_sname := d_sname m;
     d_file := d_file m; d_options := sort_opts (d_options m) |}.

(* outcome of the decoder as tokens: 0 m | 1 errcode | 2 (panic) *)
Definition put_decode (o : outcome dhcp) : list N :=
  match o with
  | Ok m => 0 :: put_dhcp (canon m)
  | Err e => [1; e]
  | Panic _ => [2]
  end.

Definition toks_eqb := list_eqb N.eqb.

(* ---- case kinds ------------------------------------------------------- *)
(* kind 1: [1; flags; impl_bool]                      broadcast bit
   kind 2: [2; sip*4; sport; smac*6; dip*4; dport; dmac*6; payload; impl]   frame
           impl = 0 :: bytes(frame) | [2] (panic)
   kind 3: [3; m; bytes(impl serialise m); impl parse of those bytes]         round trip
           (options of m listed in the order the implementation iterates them)
   kind 4: [4; bytes; impl parse]                       decoder on arbitrary input *)

Definition check_flags (ts : list N) : list N :=
  match ts with
  | [flags; impl] =>
    let spec := N.testbit flags 15 in                 (* the property: most significant bit of 16 *)
    if negb (Bool.eqb (negb (impl =? 0)) spec) then v_viol 1
    else if negb (Bool.eqb (broadcast_flag flags) (negb (impl =? 0))) then v_diff [N.b2n (broadcast_flag flags)]
    else v_ok (N.b2n spec)
  | _ => v_bad
  end.

Definition tok_udp4 (ts : list N) : option (udp4_args * list N) :=
  match tok_take 4 ts with Some (sip, r) =>
  match r with sport :: r =>
  match tok_take 6 r with Some (smac, r) =>
  match tok_take 4 r with Some (dip, r) =>
  match r with dport :: r =>
  match tok_take 6 r with Some (dmac, r) =>
  match tok_bytes r with Some (pl, r) =>
    Some ({| u_src_ip := sip; u_src_port := sport; u_src_mac := smac;
             u_dst_ip := dip; u_dst_port := dport; u_dst_mac := dmac; u_payload := pl |}, r)
  | None => None end | None => None end | [] => None end | None => None end
  | None => None end | [] => None end | None => None end.

Definition check_frame (ts : list N) : list N :=
  match tok_udp4 ts with
  | Some (a, impl) =>
    let model := match udp4_build a with Ok f => 0 :: put_bytes f | _ => [2] end in
    match impl with
    | 0 :: r =>
      match tok_bytes r with
      | Some (f, []) =>
        if negb (valid_frame a f) && (lenN (u_payload a) <=? 1472) then v_viol 2
        else if toks_eqb impl model then v_ok (2 + lenN (u_payload a) mod 2)
        else v_diff model
      | _ => v_bad
      end
    | [2] => if lenN (u_payload a) <=? 1472 then v_viol 3
             else if toks_eqb impl model then v_ok 4 else v_diff model
    | _ => v_bad
    end
  | None => v_bad
  end.

Definition check_roundtrip (ts : list N) : list N :=
  match tok_dhcp ts with
  | Some (m, r) =>
    match tok_bytes r with
    | Some (wire, impl_dec) =>
      (* the property itself, on the implementation's behaviour *)
      if wf_dhcp m && negb (toks_eqb impl_dec (0 :: put_dhcp (canon m))) then v_viol 4
      else if negb (bytes_eqb wire (encode m)) then v_diff (put_bytes (encode m))
      else if negb (toks_eqb impl_dec (put_decode (decode wire))) then v_diff (put_decode (decode wire))
      else v_ok (if existsb (fun o => 255 <? lenN (snd o)) (d_options m) then 6 else 5)
    | None => v_bad
    end
  | None => v_bad
  end.

Definition check_decode (ts : list N) : list N :=
  match tok_bytes ts with
  | Some (wire, impl_dec) =>
    let md := put_decode (decode wire) in
    match impl_dec with
    | 2 :: _ => v_viol 5                                  (* a panic in the decoder: also a C05 failure *)
    | _ => if toks_eqb impl_dec md then v_ok (match md with 0 :: _ => 7 | 1 :: e :: _ => 7 + e | _ => 0 end)
           else v_diff md
    end
  | None => v_bad
  end.

(* kind 6 (end-to-end rig): [6; flags; got; yiaddr; dst_ip; dst_mac*6; req_mac*6] -- an OFFER captured
   on the wire for a DISCOVER sent with these flags from this hardware address *)
Definition check_wire_dest (ts : list N) : list N :=
  match ts with
  | flags :: got :: yiaddr :: dst :: r =>
    match tok_take 6 r with
    | Some (dmac, r2) =>
      match tok_take 6 r2 with
      | Some (rmac, []) =>
        if got =? 0 then v_diff [1]                          (* a valid DISCOVER was not answered *)
        else if negb (dst =? (if N.testbit flags 15 then 4294967295 else yiaddr)) then v_viol 6
        else if negb (dst =? reply_dest flags yiaddr) then v_diff [reply_dest flags yiaddr]
        else if negb (bytes_eqb dmac rmac) then v_diff (2 :: rmac)
        else v_ok (11 + N.b2n (N.testbit flags 15))
      | _ => v_bad
      end
    | None => v_bad
    end
  | _ => v_bad
  end.

(* kind 7 (end-to-end rig): [7; prl; len; frame octets] -- a whole OFFER frame captured on the wire.
   Judged with the receiver-side definitions only: IPv4 header checksum, lengths, UDP checksum
   over the pseudo-header (or the RFC 768 zero), and the payload must decode as a DHCP message
   (which needs its end marker) carrying a message type; when the DISCOVER asked for the policy's
   long options (prl = 1) they must be there -- a reply cut short on its way to the frame fails here. *)
Definition check_wire_frame (ts : list N) : list N :=
  match ts with
  | prl :: r =>
    match tok_bytes r with
    | Some (f, []) =>
      let v := split_frame f in
      let ih := fv_ip_hdr v in
      let ud := fv_udp v in
      let tot := be_decode (takeN 2 (dropN 2 ih)) in
      let ulen := be_decode (takeN 2 (dropN 4 ud)) in
      let uck := be_decode (takeN 2 (dropN 6 ud)) in
      let payload := dropN 8 ud in
      let sums := (fv_ethertype v =? 2048) && rx_sum_ok ih && (tot =? lenN f - 14) && (ulen =? tot - 20) &&
                  ((uck =? 0) || rx_sum_ok (takeN 4 (dropN 12 ih) ++ takeN 4 (dropN 16 ih) ++ [0; 17]
                                              ++ takeN 2 (dropN 4 ud) ++ ud)) in
      if negb sums then v_viol 7
      else match decode payload with
           | Ok m =>
             let has c := existsb (fun o => fst o =? c) (d_options m) in
             if negb (has 53) then v_viol 7
             else if negb (prl =? 0) && negb (has 15 && has 17 && has 252) then v_viol 7
             else v_ok (13 + N.b2n (300 <? lenN payload))
           | _ => v_viol 7
           end
    | _ => v_bad
    end
  | [] => v_bad
  end.

Definition check_C12 (ts : list N) : list N :=
  match ts with
  | 6 :: r => check_wire_dest r
  | 7 :: r => check_wire_frame r
  | 1 :: r => check_flags r
  | 2 :: r => check_frame r
  | 3 :: r => check_roundtrip r
  | 4 :: r => check_decode r
  | _ => v_bad
  end.

(* Token-level entry point for property C13.  Definitions only. *)
From Erbium Require Import Lib.Base Model.DhcpCodec Model.DhcpHandler Model.EntryC12.

Fixpoint tok_list (n : nat) (ts : list N) : option (list N * list N) :=
  match n with
  | O => Some ([], ts)
  | S k => match ts with
           | x :: r => match tok_list k r with Some (l, r') => Some (x :: l, r') | None => None end
           | [] => None
           end
  end.

Fixpoint tok_leases (n : nat) (ts : list N) : option (list lease * list N) :=
  match n with
  | O => Some ([], ts)
  | S k =>
    match ts with
    | a :: r =>
      match tok_bytes r with
      | Some (c, st :: ex :: r2) =>
        match tok_leases k r2 with
        | Some (l, r3) => Some ({| le_addr := a; le_client := c; le_start := st; le_expiry := ex |} :: l, r3)
        | None => None
        end
      | _ => None
      end
    | [] => None
    end
  end.
Definition tok_db (ts : list N) : option (list lease * list N) :=
  match ts with n :: r => tok_leases (N.to_nat n) r | [] => None end.

Definition lease_eqb (a b : lease) : bool :=
  (le_addr a =? le_addr b) && bytes_eqb (le_client a) (le_client b) &&
  (le_start a =? le_start b) && (le_expiry a =? le_expiry b).
Fixpoint ins_lease (r : lease) (l : list lease) : list lease :=
  match l with
  | [] => [r]
  | x :: t => if le_addr r <=? le_addr x then r :: l else x :: ins_lease r t
  end.
Definition sort_db (l : list lease) : list lease := fold_right ins_lease [] l.
Definition db_eqb (a b : list lease) : bool := list_eqb lease_eqb (sort_db a) (sort_db b).

Definition reason_code (e : nreason) : N :=
  match e with UnknownMessageType => 1 | InvalidPacket => 2 | OtherServer => 3
             | NoPolicy => 4 | NoLeases => 5 | PoolError => 6 end.

Definition opt_eq (a b : option (list N)) : bool := opt_eqb bytes_eqb a b.

(* header fields + options 53/54 of a reply, the part of the reply C13 speaks about *)
Definition reply_core (r : dhcp) : list N :=
  [d_op r; d_htype r; d_hlen r; d_hops r; d_xid r; d_secs r; d_flags r; d_ciaddr r; d_yiaddr r;
   d_siaddr r; d_giaddr r] ++ put_bytes (d_chaddr r) ++ put_bytes (d_sname r) ++ put_bytes (d_file r)
  ++ match opt_get (d_options r) 53 with Some v => 1 :: put_bytes v | None => [0] end
  ++ match opt_get (d_options r) 54 with Some v => 1 :: put_bytes v | None => [0] end.

(* [1; cfg; nids; ids; serverip; m; db_before; res; db_after]   (cfg: which harness configuration; not interpreted)
   res = 0 reply | 1 errkind | 2 (panic) *)
Definition check_handle (ts : list N) : list N :=
  match ts with
  | _ :: nids :: r =>
    match tok_list (N.to_nat nids) r with
    | Some (ids, serverip :: r1) =>
      match tok_dhcp r1 with
      | Some (m, r2) =>
        match tok_db r2 with
        | Some (db0, res) =>
          let eligible :=
            match msgtype m with
            | Some t => (t =? 1) || ((t =? 3) &&
                         match serverid m with
                         | None => true
                         | Some s => existsb (N.eqb s) ids || (s =? serverip)
                         end)
            | None => false
            end in
          match res with
          | 0 :: r3 =>
            match tok_dhcp r3 with
            | Some (rep, r4) =>
              match tok_db r4 with
              | Some (db1, []) =>
                let y := d_yiaddr rep in
                let others_same := db_eqb (filter (fun x => negb (le_addr x =? y)) db1)
                                          (filter (fun x => negb (le_addr x =? y)) db0) in
                let sid_ok := match opt_get (d_options rep) 54 with
                              | Some [a; b; c; d] =>
                                let s := be_decode [a; b; c; d] in (s =? serverip) || existsb (N.eqb s) ids
                              | _ => false end in
                if negb eligible then v_viol 1
                else if negb others_same then v_viol 3
                else if negb (match row_of db1 y with Some row => bytes_eqb (le_client row) (client_id m) | None => false end) then v_viol 4
                else if negb ((d_op rep =? 2) && (d_xid rep =? d_xid m) && bytes_eqb (d_chaddr rep) (d_chaddr m) &&
                              (d_giaddr rep =? d_giaddr m) && (d_flags rep =? d_flags m) && sid_ok) then v_viol 5
                else if negb (bytes_eqb (takeN (d_hlen rep) (fixed 16 (d_chaddr rep))) (d_chaddr m)) then v_viol 8
                else
                  (* correspondence: run the model with the policy/pool outcome the implementation had *)
                  match row_of db1 y with
                  | Some row =>
                    let secs := (le_expiry row + 4294967296 - le_start row) mod 4294967296 in
                    let i := {| i_ids := ids; i_serverip := serverip; i_pol := Some true;
                                i_alloc := Some (y, secs); i_now := le_start row; i_reply_opts := [] |} in
                    match handle i db0 m with
                    | (Reply mr, mdb) =>
                      if negb (list_eqb N.eqb (reply_core rep) (reply_core mr)) then v_diff (reply_core mr)
                      else if negb (db_eqb mdb db1) then v_diff [77]
                      else if negb (opt_eq (opt_get (d_options rep) 51) (Some (be32 secs))) then v_viol 6
                      else v_ok (match msgtype m with Some 1 => 1 | _ => if opt_eq (opt_get (d_options m) 54) None then 2 else 3 end)
                    | (NoReply e, _) => v_diff [1; reason_code e]
                    end
                  | None => v_viol 4
                  end
              | _ => v_bad
              end
            | None => v_bad
            end
          | 1 :: kind :: r3 =>
            match tok_db r3 with
            | Some (db1, []) =>
              if negb (db_eqb db1 db0) then v_viol 2
              else
                let i := {| i_ids := ids; i_serverip := serverip;
                            i_pol := if kind =? 4 then None else if kind =? 5 then Some false else Some true;
                            i_alloc := None; i_now := 0; i_reply_opts := [] |} in
                match handle i db0 m with
                | (NoReply e, _) =>
                  let k := if (6 <=? kind) && (kind <=? 8) then 6 else kind in
                  if reason_code e =? k then v_ok (10 + k) else v_diff [1; reason_code e]
                | (Reply _, _) => v_diff [0]
                end
            | _ => v_bad
            end
          | 2 :: _ => v_viol 7                      (* the handler panicked: also a C05 failure *)
          | _ => v_bad
          end
        | None => v_bad
        end
      | None => v_bad
      end
    | _ => v_bad
    end
  | _ => v_bad
  end.

(* kind 30 (end-to-end rig, tools/rig.py scenario `dhcpflow`): one message sent to the REAL binary over a
   veth pair, the reply frame captured (or none), the lease listing read over HTTP before and after.
     [30; msgtype; serverid class (0 absent, 1 this server's, 2 foreign); got_reply;
          echo_ok    (BOOTREPLY echoing xid, htype, hlen, chaddr, giaddr, flags);
          sid_ok     (option 54 present, the server's address on that link, = the IP source of the frame);
          listing_changed (a row other than the one of the reply's yiaddr differs; any row when there is no reply);
          row_ok     (the listing row of yiaddr carries the requesting client's identifier)]
   This is the glue of DhcpService::recvdhcp (server address from the interface, reply framing) and the
   HTTP listing, which the function-level cases of kind 1 do not reach.  Independent of kind 1. *)
Definition check_rig_flow (ts : list N) : list N :=
  match ts with
  | [msgtype; sidc; got; echo; sid; changed; rowok] =>
    let for_us := (msgtype =? 1) || ((msgtype =? 3) && negb (sidc =? 2)) in
    if negb (got =? 0) then
      if negb for_us then v_viol 1
      else if negb (changed =? 0) then v_viol 3
      else if rowok =? 0 then v_viol 4
      else if (echo =? 0) || (sid =? 0) then v_viol 5
      else v_ok (if msgtype =? 1 then 31 else if sidc =? 0 then 32 else 33)
    else
      if negb (changed =? 0) then v_viol 2
      else if for_us then v_diff [0]                     (* a message meant for this server was not answered *)
      else v_ok (if msgtype =? 3 then 34 else 35)
  | _ => v_bad
  end.

Definition check_C13 (ts : list N) : list N :=
  match ts with
  | 1 :: r => check_handle r
  | 30 :: r => check_rig_flow r
  | _ => v_bad
  end.

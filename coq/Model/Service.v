(* The two process structures in which erbium runs a packet handler
   (DESIGN.md section 8, C05).  Definitions only.
   - spawned: one tokio task per datagram (DHCP recvdhcp, DNS run_udp/run_tcp):
     a panic kills that task only; shared state is behind tokio mutexes, which
     are not poisoned -- the input is dropped, the state is what the handler
     had committed (modelled: unchanged).
   - inline: the handler runs inside the receive loop (LLDP, RA receive path):
     a panic ends the loop, i.e. the service. *)
From Erbium Require Import Lib.Base.

Section Service.
  Variables St Rep : Type.
  Variable handle : St -> list N -> outcome (St * option Rep).

  Definition step_spawned (st : St) (b : list N) : St * option Rep :=
    match handle st b with
    | Ok (st', r) => (st', r)
    | Err _ => (st, None)
    | Panic _ => (st, None)
    end.

  Definition step_inline (st : option St) (b : list N) : option St :=
    match st with
    | None => None                       (* the service is gone *)
    | Some s =>
      match handle s b with
      | Ok (s', _) => Some s'
      | Err _ => Some s
      | Panic _ => None
      end
    end.

  Definition run_inline (st : St) (bs : list (list N)) : option St :=
    fold_left step_inline bs (Some st).
  Definition run_spawned (st : St) (bs : list (list N)) : St :=
    fold_left (fun s b => fst (step_spawned s b)) bs st.
End Service.

(* The DNS forwarder's query pipeline, composed from the per-stage models:

     octets --decode--> query --ACL--> (ANY / source port 53 screens) --route-->
       cache --> upstream --> create_in_reply / create_in_error --> size limit + serialise
       --> (UDP, REFUSED, no good cookie: rate limiter) --> octets or silence

   crates/erbium-core/src/dns/mod.rs (run_udp / run_tcp, build_dns_message, recv_in_query,
   create_in_reply, create_in_error, should_ratelimit, prepare_to_send), dns/acl.rs,
   dns/router.rs, dns/cache/mod.rs, dns/outquery.rs (handle_query_internal).

   Nothing is re-modelled here: the stages are Model/DnsCodec (decode, encode_sized),
   Model/Acl (dns_gate), Model/DnsRoute (decide), Model/DnsCache (handle), Model/DnsForward
   (in_reply, in_error, outquery), Model/DnsEncodeSized (wire_bytes), Model/Bucket
   (should_ratelimit), Model/Cookie (exempt).  This file only contains the glue and the
   adapters between their record types.  Definitions only.

   Where the code has latitude the value is an input of the step (relational style):
     id   the random id of the upstream query
     eo   the EDNS options of the reply (NSID text, server cookie = HMAC, extended-error text)
     up   what the upstream answers if asked, over UDP and over TCP
   and two environment functions: [mac] (HMAC-SHA256) and, per source address, the two
   buckets the limiter hashes it to. *)
From Erbium Require Import Lib.Base Model.DnsName Model.DnsCodec Model.DnsForward Model.DnsEncodeSized.
From Erbium Require Model.Acl Model.DnsRoute Model.Bucket Model.Cookie Model.DnsCache.

(* ---- adapter: packets <-> the cache's abstract replies ((ttl, position) per record) ------ *)
Fixpoint number_rrs (i : N) (l : list rr) : DnsCache.rrs :=
  match l with
  | [] => []
  | r :: t => (r_ttl r, i) :: number_rrs (i + 1) t
  end.
Definition abs_reply (m : pkt) : DnsCache.reply :=
  (number_rrs 0 (answer m), number_rrs (lenN (answer m)) (nameserver m),
   number_rrs (lenN (answer m) + lenN (nameserver m)) (additional m)).

Definition with_ttl (r : rr) (ttl : N) : rr :=
  {| r_name := r_name r; r_class := r_class r; r_type := r_type r; r_ttl := ttl; r_data := r_data r |}.
Fixpoint set_ttls (l : list rr) (a : DnsCache.rrs) : list rr :=
  match l, a with
  | r :: t, (ttl, _) :: a' => with_ttl r ttl :: set_ttls t a'
  | _, _ => []
  end.
(* the packet [m] with the TTLs of the abstract reply [r] *)
Definition conc_reply (m : pkt) (r : DnsCache.reply) : pkt :=
  {| qid := qid m; rd := rd m; tc := tc m; aa := aa m; qr := qr m; opcode := opcode m;
     cd := cd m; ad := ad m; ra := ra m; rcode := rcode m; bufsize := bufsize m;
     edns_ver := edns_ver m; edns_do := edns_do m;
     qname := qname m; qtype := qtype m; qclass := qclass m;
     answer := set_ttls (answer m) (DnsCache.r_answer r);
     nameserver := set_ttls (nameserver m) (DnsCache.r_ns r);
     additional := set_ttls (additional m) (DnsCache.r_additional r);
     edns := edns m |}.

(* what the resolver (OutQuery::handle_query) returned: a packet or an error, numbered as in
   Model/DnsCache (1 Timeout, 2 FailedToSend, 3 FailedToRecv, 4 TcpConnection, 5 Parse, 6 Internal) *)
Inductive upres := UOk (m : pkt) | UErr (e : N).
Definition abs_result (u : upres) : DnsCache.result :=
  match u with UOk m => DnsCache.ROk (abs_reply m) | UErr e => DnsCache.RErr e end.

(* ---- the upstream as an input ------------------------------------------------------------ *)
Inductive upans := UpReply (b : list N) | UpTimeout | UpFail (e : N).
Record upstream := { u_udp : upans; u_tcp : upans }.

Definition parse_up (a : upans) : upres :=
  match a with
  | UpReply b => match decode b with Ok m => UOk m | _ => UErr 5 end
  | UpTimeout => UErr 1
  | UpFail e => UErr e
  end.

(* handle_query_internal: UDP first unless the client came over TCP; a UDP reply with another
   id or with TC set is discarded and the query repeated over TCP.  Returns the result and
   the transports used, in order (false = UDP, true = TCP). *)
Definition out_query (client_tcp : bool) (id : N) (u : upstream) : upres * list bool :=
  if client_tcp then (parse_up (u_tcp u), [true])
  else
    match parse_up (u_udp u) with
    | UOk m => if (qid m =? id) && negb (tc m) then (UOk m, [false]) else (parse_up (u_tcp u), [false; true])
    | UErr e => (UErr e, [false])
    end.

(* an upstream query as seen on the wire: server, transport, octets *)
Definition upq := (N * bool * list N)%type.

(* ---- configuration and state ----------------------------------------------------------- *)
Record cfg := {
  c_acls : list Acl.rule;
  c_routes : DnsRoute.table;
  c_hash : Acl.addr -> nat * nat        (* IpRateLimiter::check: the two buckets of a source *)
}.

Record pstate := {
  s_cache : DnsCache.cache;
  s_store : list (DnsCache.key * pkt);  (* the packets behind the cache's abstract replies *)
  s_buckets : list N;                   (* 256 timestamps *)
  s_keys : list N * list N              (* current and previous cookie key *)
}.

Fixpoint store_lookup (k : DnsCache.key) (s : list (DnsCache.key * pkt)) : option pkt :=
  match s with
  | [] => None
  | (k', m) :: r => if DnsCache.key_eqb k k' then Some m else store_lookup k r
  end.
Definition store_insert (k : DnsCache.key) (m : pkt) (s : list (DnsCache.key * pkt)) :=
  (k, m) :: filter (fun p => negb (DnsCache.key_eqb k (fst p))) s.

Definition key_of (q : pkt) : DnsCache.key := (qname q, qtype q, edns_do q, cd q).

(* ---- addresses --------------------------------------------------------------------------- *)
Fixpoint be_bytes (n : nat) (v : N) : list N :=
  match n with
  | O => []
  | S k => be_bytes k (v / 256) ++ [v mod 256]
  end.
(* Ipv4Addr::octets / Ipv6Addr::octets; a unix-socket peer has none (`_ => unreachable!()`) *)
Definition addr_octets (a : Acl.addr) : outcome (list N) :=
  match a with
  | Acl.A4 x => Ok (be_bytes 4 x)
  | Acl.A6 x => Ok (be_bytes 16 x)
  | Acl.AUnix => Panic Unreachable
  end.

(* the data of the query's COOKIE option (EdnsData::get_opt: the first one) *)
Definition cookie_opt (q : pkt) : option (list N) :=
  match edns q with
  | Some o => match find (fun c => fst c =? 10) o with Some c => Some (snd c) | None => None end
  | None => None
  end.

(* ---- stages ------------------------------------------------------------------------------ *)
(* acl.rs + router.rs: what happens before the cache.  Error kinds are those of
   DnsForward.in_error: 0 Denied/RefusedByAcl, 1 Blocked, 2 NotAuthoritative, 3 NoRouteConfigured *)
Inductive routed := ToServer (srv : N) | Refuse (kind : N).

Definition front (c : cfg) (client : Acl.addr) (port : N) (q : pkt) : outcome routed :=
  match Acl.dns_gate (c_acls c) client with
  | Acl.DnsRefusedByAcl => Ok (Refuse 0)
  | Acl.DnsPassedOn =>
    if qtype q =? 255 then Ok (Refuse 0)
    else if port =? 53 then Ok (Refuse 0)
    else
      match DnsRoute.decide (c_routes c) (qname q) (rd q) with
      | DnsRoute.RBlocked => Ok (Refuse 1)
      | DnsRoute.RNotAuth => Ok (Refuse 2)
      | DnsRoute.RNoRoute => Ok (Refuse 3)
      | DnsRoute.RForward srv => Ok (ToServer srv)
      | DnsRoute.RPanic => Panic IndexOOB
      end
  end.

(* cache/mod.rs handle_query in front of outquery.rs: result, new cache and store, and the
   upstream queries emitted (none on a hit).  [t_ns]: the clock when the cache is consulted,
   [t_ins]: when the resolver's result is stored (later by the time the resolver took) *)
Definition cache_stage (st : pstate) (q : pkt) (tcp : bool) (t_ns t_ins : N) (srv id : N) (u : upstream)
  : outcome (upres * DnsCache.cache * list (DnsCache.key * pkt) * list upq) :=
  let k := key_of q in
  let o := out_query tcp id u in
  match DnsCache.handle (s_cache st) k (qclass q) t_ns t_ins (abs_result (fst o)) with
  | (res, c', asked) =>
    if asked then
      do qb <- encode (outquery id q);
      let store' := match fst o with
                    | UOk m => if (qclass q =? 1) && (0 <? DnsCache.calculate_expiry (abs_result (fst o)))
                               then store_insert k m (s_store st) else s_store st
                    | UErr _ => s_store st
                    end in
      Ok (fst o, c', store', map (fun tr => (srv, tr, qb)) (snd o))
    else
      match res with
      | Ok (DnsCache.ROk r') =>
        match store_lookup k (s_store st) with
        | Some m => Ok (UOk (conc_reply m r'), c', s_store st, [])
        | None => Panic Unreachable
        end
      | Ok (DnsCache.RErr e) => Ok (UErr e, c', s_store st, [])
      | Err e => Err e
      | Panic p => Panic p
      end
  end.

Definition reply_of (q : pkt) (r : upres) (eo : opts) : pkt :=
  match r with
  | UOk m => in_reply q m eo
  | UErr _ => in_error q 4 eo             (* every resolver error: SERVFAIL *)
  end.

Definition upd {A} (i : nat) (v : A) (l : list A) : list A :=
  firstn i l ++ match skipn i l with [] => [] | _ :: r => v :: r end.

Section Pipeline.
  Variable mac : list N -> list N -> list N.

  (* run_udp: should_ratelimit; run_tcp sends unconditionally.  true = the reply is dropped *)
  Definition limiter_stage (c : cfg) (st : pstate) (client local : Acl.addr) (tcp : bool) (q reply : pkt)
      (in_size out_size t_s : N) : outcome (bool * list N) :=
    if tcp then Ok (false, s_buckets st)
    else if negb (rcode reply =? 5) then Ok (false, s_buckets st)
    else
      do ex <- match cookie_opt q with
               | Some d =>
                 if lenN d <? 8 then Ok false
                 else
                   do l <- addr_octets local; do r <- addr_octets client;
                   Ok (Cookie.exempt mac (Some d) l r (fst (s_keys st)) (snd (s_keys st)))
               | None => Ok false
               end;
      let ij := c_hash c client in
      let z1 := nth (fst ij) (s_buckets st) 0 in
      let z2 := nth (snd ij) (s_buckets st) 0 in
      do r <- Bucket.should_ratelimit Bucket.CAP Bucket.RATE (rcode reply) ex in_size out_size (z1, z2) t_s;
      Ok (fst r, upd (snd ij) (snd (snd r)) (upd (fst ij) (fst (snd r)) (s_buckets st))).

  (* one query through the whole pipeline *)
  Definition dns_step (c : cfg) (st : pstate) (t_ns t_ins t_s : N)
      (client : Acl.addr) (port : N) (local : Acl.addr) (tcp : bool)
      (b : list N) (u : upstream) (id : N) (eo : opts)
    : outcome (pstate * option (list N) * list upq) :=
    match decode b with
    | Err _ => Ok (st, None, [])                        (* cannot be parsed: no reply *)
    | Panic p => Panic p
    | Ok q =>
      do rt <- front c client port q;
      do staged <- match rt with
                   | Refuse kind => Ok (in_error q kind eo, s_cache st, s_store st, [])
                   | ToServer srv =>
                     do x <- cache_stage st q tcp t_ns t_ins srv id u;
                     match x with
                     | (r, c', store', qs) => Ok (reply_of q r eo, c', store', qs)
                     end
                   end;
      match staged with
      | (reply, c', store', qs) =>
        do bytes <- wire_bytes q tcp reply;
        do lim <- limiter_stage c st client local tcp q reply (lenN b) (lenN bytes) t_s;
        Ok ({| s_cache := c'; s_store := store'; s_buckets := snd lim; s_keys := s_keys st |},
            (if fst lim then None else Some bytes), qs)
      end
    end.
End Pipeline.

(* ---- what the inputs chosen by the implementation must look like ------------------------ *)
(* the reply's option list: NSID iff asked for, COOKIE iff the query carried one of at least
   8 octets (client part echoed, 32 server octets), then [n_ede] extended-error options;
   everything encodable *)
Definition eo_shape (q : pkt) (eo : opts) (n_ede : nat) : bool :=
  wf_opts eo &&
  let eo1 := if has_opt 3 q then match eo with (3, _) :: r => Some r | _ => None end else Some eo in
  match eo1 with
  | None => false
  | Some eo1 =>
    let wants_cookie := match cookie_opt q with Some d => 8 <=? lenN d | None => false end in
    let eo2 := if wants_cookie then
                 match eo1 with
                 | (10, d) :: r => if bytes_eqb (firstn 8 d) (client_cookie q) && (lenN d =? 40) then Some r else None
                 | _ => None
                 end
               else Some eo1 in
    match eo2 with
    | None => false
    | Some r => Nat.eqb (length r) n_ede && forallb (fun c => fst c =? 15) r
    end
  end.

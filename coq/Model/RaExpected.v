(* What an interface configuration is documented to advertise (erbium.conf(5)
   and the text of property C17), as a value of the decoder's result type:
   the right-hand side of C17_decodes_to_config.  Written from the manual, not
   from the builder: per-interface value, else the top-level setting, `null`
   suppresses; lifetimes beyond what a field can hold are advertised as the
   field's maximum; a prefix is its first `len` bits.  Definitions only. *)
From Erbium Require Import Lib.Base Model.Radv Model.RfcRaDecode.

Definition sat (max v : N) : N := if v <=? max then v else max.

(* the network part of an address: bits after the first [len] cleared *)
Fixpoint network (len : N) (a : list N) : list N :=
  match a with
  | [] => []
  | b :: r => (let k := 2 ^ (8 - N.min len 8) in b - b mod k) :: network (len - 8) r
  end.

Definition tri {A} (c : cv A) (default : option A) : option A :=
  match c with Value v => Some v | DontSet => None | NotSpecified => default end.
Definition tri_or {A} (c : cv A) (default : A) : A :=
  match c with Value v => v | _ => default end.

Definition exp_prefix (p : prefix) : rfc_prefix :=
  {| rp_len := p_len p; rp_onlink := p_onlink p; rp_auto := p_auto p;
     rp_valid := sat 4294967295 (d_secs (p_valid p));
     rp_preferred := sat 4294967295 (d_secs (p_preferred p));
     rp_prefix := network (p_len p) (p_addr p) |}.

(* the IPv6 entries of the top-level dns-servers list *)
Definition v6_servers (t : top) : list (list N) :=
  map snd (filter (fun s => fst s =? 6) (t_dns_servers t)).
Definition self6_subst (self6 a : list N) : list N :=
  if forallb (fun x => x =? 0) a then self6 else a.        (* $self6 is held as :: *)

(* RFC 1035 3.1: a domain name is a sequence of labels of 1..63 octets *)
Definition name_ok (d : list N) : bool :=
  forallb (fun l => (1 <=? lenN l) && (lenN l <=? 63)) (split_on 46 d).

Definition nat64_len_ok (n : N) : bool :=
  existsb (N.eqb n) [32; 40; 48; 56; 64; 96].
(* lifetime in the 13-bit field counted in units of 8 s, rounded up (RFC 8781 4.1) *)
Definition pref64_lifetime (s : N) : N := sat 65528 ((s + 7) / 8 * 8).

Definition expected (t : top) (i : intf) (e : env) : rfc_ra :=
  {| r_hop := i_hoplimit i; r_managed := i_managed i; r_other := i_other i;
     r_lifetime := sat 65535 (d_secs (tri_or (i_lifetime i) (e_lifetime e)));
     r_reachable := sat 4294967295 (as_millis (i_reachable i));
     r_retrans := sat 4294967295 (as_millis (i_retrans i));
     r_sll := match e_ll e with Some a => [a] | None => [] end;
     r_mtu := match e_mtu e with Some m => [m] | None => [] end;
     r_prefixes := map exp_prefix (i_prefixes i);
     r_rdnss :=
       match tri (i_rdnss i) (Some (v6_servers t)) with
       | Some (s :: ss) =>
         [(sat 4294967295 (d_secs (tri_or (i_rdnss_lifetime i) (secs 1800))),
           map (self6_subst (e_self6 e)) (s :: ss))]
       | _ => []
       end;
     r_dnssl :=
       match tri (i_dnssl i) (Some (t_dns_search t)) with
       | Some l =>
         match filter name_ok l with             (* what is not a domain name is not advertised *)
         | d :: ds =>
           [(sat 4294967295 (d_secs (tri_or (i_dnssl_lifetime i) (secs 1800))),
             map (split_on 46) (d :: ds))]
         | [] => []
         end
       | None => []
       end;
     r_pref64 :=
       match i_pref64 i with
       | Some p =>
         if nat64_len_ok (n_len p)
         then [(pref64_lifetime (d_secs (n_lifetime p)), n_len p, takeN 12 (network (n_len p) (n_prefix p)))]
         else []                                  (* not a NAT64 prefix length: rejected, nothing advertised *)
       | None => []
       end;
     r_captive :=
       match tri (i_captive i) (t_captive t) with Some u => [u] | None => [] end |}.

(* ---- which configurations the theorems speak about --------------------- *)
Definition addr_ok (a : list N) : bool := (lenN a =? 16) && bytes_ok a.
Definition label_ok (l : list N) : bool := (1 <=? lenN l) && (lenN l <=? 63) && bytes_ok l.
Definition domain_ok (d : list N) : bool := forallb label_ok (split_on 46 d).
Definition url_ok (u : list N) : bool := forallb (fun x => (1 <=? x) && (x <? 256)) u && (lenN u <=? 2030).
Definition prefix_ok (p : prefix) : bool := addr_ok (p_addr p) && (p_len p <=? 128).
Definition pref64_ok (p : pref64) : bool := addr_ok (n_prefix p).

Definition cv_forall {A} (f : A -> bool) (c : cv A) : bool := match c with Value v => f v | _ => true end.
Definition opt_forall {A} (f : A -> bool) (c : option A) : bool := match c with Some v => f v | None => true end.

Definition dnssl_fits (ds : list (list N)) : bool := lenN (flat_map enc_domain ds) <=? 2032.

Definition wf_top (t : top) : bool :=
  forallb (fun s => negb (fst s =? 6) || addr_ok (snd s)) (t_dns_servers t)
  && (lenN (t_dns_servers t) <=? 127)
  && forallb domain_ok (t_dns_search t) && dnssl_fits (t_dns_search t)
  && opt_forall url_ok (t_captive t).
Definition wf_intf (i : intf) : bool :=
  (i_hoplimit i <? 256)
  && forallb prefix_ok (i_prefixes i)
  && cv_forall (fun l => forallb addr_ok l && (lenN l <=? 127)) (i_rdnss i)
  && cv_forall (fun l => forallb domain_ok l && dnssl_fits l) (i_dnssl i)
  && cv_forall url_ok (i_captive i)
  && opt_forall pref64_ok (i_pref64 i).
Definition wf_env (e : env) : bool :=
  opt_forall (fun a => (lenN a =? 6) && bytes_ok a) (e_ll e)
  && opt_forall (fun m => m <? 4294967296) (e_mtu e)
  && addr_ok (e_self6 e).
Definition wf_cfg (t : top) (i : intf) (e : env) : bool := wf_top t && wf_intf i && wf_env e.

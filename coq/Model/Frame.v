(* Model of crates/erbium-net/src/packet.rs: Internet checksum and the
   Ethernet/IPv4/UDP frame built by Fragment::new_udp4(..).flatten().
   Definitions only. *)
From Erbium Require Import Lib.Base.

(* partial_netsum(current, buffer): big-endian 16-bit words, odd tail padded
   on the right with a zero octet.  The u32 accumulator cannot overflow for
   buffers below 2^16 octets (Proofs/Frame.v: sum16_bound). *)
Fixpoint sum16 (l : list N) : N :=
  match l with
  | a :: b :: r => a * 256 + b + sum16 r
  | [a] => a * 256
  | [] => 0
  end.
Definition partial_netsum (current : N) (buffer : list N) : N := current + sum16 buffer.

(* finish_netsum: `while sum > 0xffff { sum = (sum >> 16) + (sum & 0xffff) }; !(sum as u16)`.
   The loop is modelled with fuel; [fold_fuel_enough] shows 3 rounds reach
   the fixpoint for every u32. *)
Definition fold_step (s : N) : N := s / 65536 + s mod 65536.
Fixpoint fold_loop (fuel : nat) (s : N) : N :=
  match fuel with
  | O => s
  | S f => if 65535 <? s then fold_loop f (fold_step s) else s
  end.
Definition fold16 (s : N) : N := fold_loop 3 s.
Definition finish_netsum (s : N) : N := 65535 - fold16 s.    (* !(sum as u16) once sum <= 0xffff *)

(* Fragment chains: a frame is a list of buffers followed by the payload;
   Fragment::partial_netsum sums each buffer separately, threading the
   accumulator. *)
Definition chain_netsum (frags : list (list N)) : N :=
  fold_left partial_netsum frags 0.

Record udp4_args := {
  u_src_ip : list N;  u_src_port : N;  u_src_mac : list N;
  u_dst_ip : list N;  u_dst_port : N;  u_dst_mac : list N;
  u_payload : list N }.

Definition udp_header (a : udp4_args) (ck : N) : list N :=
  be16 (u_src_port a) ++ be16 (u_dst_port a) ++ be16 (cast 16 (8 + lenN (u_payload a))) ++ be16 ck.
Definition pseudo_header (a : udp4_args) : list N :=
  u_src_ip a ++ u_dst_ip a ++ [0; 17] ++ be16 (cast 16 (8 + lenN (u_payload a))).
Definition udp_cksum (a : udp4_args) : N :=
  finish_netsum (chain_netsum [pseudo_header a; udp_header a 0; u_payload a]).

Definition ip_header (a : udp4_args) (ck : N) : list N :=
  [69; 0] ++ be16 (cast 16 (20 + (8 + lenN (u_payload a)))) ++ [0; 0; 0; 0; 1; 17] ++ be16 ck
  ++ u_src_ip a ++ u_dst_ip a.
Definition ip_cksum (a : udp4_args) : N := finish_netsum (partial_netsum 0 (ip_header a 0)).

Definition eth_header (a : udp4_args) : list N := u_dst_mac a ++ u_src_mac a ++ [8; 0].

(* new_udp4(src, srcmac, dst, dstmac, Payload(p)).flatten() *)
Definition udp4_frame (a : udp4_args) : list N :=
  eth_header a ++ ip_header a (ip_cksum a) ++ udp_header a (udp_cksum a) ++ u_payload a.

(* `20_u16 + tail.len() as u16` and `8_u16 + tail.len() as u16` overflow (debug
   profile: panic) exactly when the payload is too long for the length
   fields. *)
Definition udp4_build (a : udp4_args) : outcome (list N) :=
  let pl := cast 16 (lenN (u_payload a)) in
  do _ <- add_chk 16 8 pl ;
  do _ <- add_chk 16 20 (cast 16 (8 + lenN (u_payload a))) ;   (* the UDP fragment's len() as u16 *)
  Ok (udp4_frame a).

(* ------------------------------------------------------------------ *)
(* Specification side: what a receiver checks, written from RFC 791/768 *)
Definition rx_sum_ok (bytes : list N) : bool := fold16 (sum16 bytes) =? 65535.

Record frame_view := {
  fv_dst_mac : list N; fv_src_mac : list N; fv_ethertype : N;
  fv_ip_hdr : list N; fv_udp : list N }.

Definition split_frame (f : list N) : frame_view :=
  {| fv_dst_mac := takeN 6 f; fv_src_mac := takeN 6 (dropN 6 f);
     fv_ethertype := be_decode (takeN 2 (dropN 12 f));
     fv_ip_hdr := takeN 20 (dropN 14 f); fv_udp := dropN 34 f |}.

Definition valid_frame (a : udp4_args) (f : list N) : bool :=
  let v := split_frame f in
  let ih := fv_ip_hdr v in
  let ud := fv_udp v in
  let udp_ck := be_decode (takeN 2 (dropN 6 ud)) in
  bytes_eqb (fv_dst_mac v) (u_dst_mac a) && bytes_eqb (fv_src_mac v) (u_src_mac a) &&
  (fv_ethertype v =? 2048) &&
  (lenN f =? 42 + lenN (u_payload a)) &&
  opt_eqb N.eqb (nthN ih 0) (Some 69) &&
  (be_decode (takeN 2 (dropN 2 ih)) =? 28 + lenN (u_payload a)) &&        (* total length *)
  opt_eqb N.eqb (nthN ih 9) (Some 17) &&
  bytes_eqb (takeN 4 (dropN 12 ih)) (u_src_ip a) && bytes_eqb (takeN 4 (dropN 16 ih)) (u_dst_ip a) &&
  rx_sum_ok ih &&                                                           (* RFC 791 header checksum *)
  (be_decode (takeN 2 ud) =? u_src_port a) && (be_decode (takeN 2 (dropN 2 ud)) =? u_dst_port a) &&
  (be_decode (takeN 2 (dropN 4 ud)) =? 8 + lenN (u_payload a)) &&           (* UDP length *)
  ((udp_ck =? 0) ||                                                         (* RFC 768: 0 = no checksum *)
   rx_sum_ok (takeN 4 (dropN 12 ih) ++ takeN 4 (dropN 16 ih) ++ [0; 17] ++ takeN 2 (dropN 4 ud) ++ ud)) &&
  bytes_eqb (dropN 8 ud) (u_payload a).

Definition wf_udp4_args (a : udp4_args) : bool :=
  bytes_ok (u_src_ip a) && (lenN (u_src_ip a) =? 4) &&
  bytes_ok (u_dst_ip a) && (lenN (u_dst_ip a) =? 4) &&
  bytes_ok (u_src_mac a) && (lenN (u_src_mac a) =? 6) &&
  bytes_ok (u_dst_mac a) && (lenN (u_dst_mac a) =? 6) &&
  (u_src_port a <? 65536) && (u_dst_port a <? 65536) &&
  bytes_ok (u_payload a).

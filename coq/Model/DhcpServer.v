(* ONE composed model of the DHCPv4 server step (dhcp/mod.rs recvdhcp):

     octets --decode--> message --msgtype / server-id gate (DhcpHandler.handle)-->
     policy walk (DhcpPolicy / DhcpAddrs.policy_walk: address set, reply options) -->
     lease store step (DhcpPool.alloc_ok, RELATIONAL in the pool's answer) -->
     reply (DhcpHandler.mk_reply with the policies' options, option 51) -->
     encode --> destination (DhcpCodec.reply_dest) --> frame (Frame.udp4_build).

   Nothing is re-modelled here: every stage is the definition of the model
   that owns it; this file only converts between their record types
   (lease rows, request views) and threads the state (lease rows, the set of
   server identifiers this server has used).  Definitions only.

   Not inside the step: log_pkt/log_options (pure logging; total by C05L), the
   netinfo look-ups (their results are the [env]), sending the frame. *)
From Erbium Require Import Lib.Base Model.DhcpCodec Model.DhcpOptVal Model.DhcpPolicy Model.DhcpAddrs
  Model.DhcpPool Model.DhcpHandler Model.Frame.

(* what recvdhcp learns from the socket and from netinfo about the receiving interface *)
Record env := {
  e_serverip : N;            (* IPv4 address of the receiving interface *)
  e_mac : list N;            (* its link-layer address (6 octets) *)
  e_port : N;                (* source port of the datagram (replies go back to it) *)
  e_mtu : option N;          (* if_mtu *)
  e_router : option N        (* if_router *)
}.

(* the configuration; [sc_universe] enumerates every address any policy may allow (the
   policy model keeps address sets as predicates; the lease store wants a list) *)
Record scfg := { sc_conf : config; sc_universe : list N; sc_min : N; sc_max : N }.

Definition sstate := (db * list N)%type.      (* lease rows, ServerIds *)

(* ---- conversions between the models' record types ------------------------ *)
Definition lease_of_row (r : row) : lease :=
  {| le_addr := r_addr r; le_client := r_client r; le_start := r_start r; le_expiry := r_expiry r |}.
Definition leases_of (d : db) : list lease := map lease_of_row d.

Definition request_of (e : env) (m : dhcp) : request :=
  {| r_serverip := e_serverip e; r_mtu := e_mtu e; r_router := e_router e;
     r_chaddr := d_chaddr m; r_opts := d_options m |}.

(* ---- what the policy walk yields ------------------------------------------ *)
Definition walk_of (cfg : scfg) (req : request) : bool * response :=
  policy_walk (sc_conf cfg) req (init_table req).

Definition pol_of (w : bool * response) : option bool :=
  if fst w then Some (match rs_addr (snd w) with Some _ => true | None => false end) else None.

Definition pool_list (cfg : scfg) (w : bool * response) : list N :=
  match rs_addr (snd w) with Some f => filter f (sc_universe cfg) | None => [] end.

(* REQUEST: ciaddr if set, else option 50; DISCOVER: option 50 *)
Definition wanted_addr (m : dhcp) : option N :=
  match msgtype m with
  | Some 3 => if d_ciaddr m =? 0 then addr_request m else Some (d_ciaddr m)
  | _ => addr_request m
  end.

Definition op_of (cfg : scfg) (w : bool * response) (m : dhcp) : op :=
  {| o_client := client_id m; o_req := wanted_addr m; o_pool := pool_list cfg w;
     o_min := sc_min cfg; o_max := sc_max cfg |}.

Definition step_in_of (ids : list N) (e : env) (w : bool * response) (t2 : N) (alloc : option (N * N)) : step_in :=
  {| i_ids := ids; i_serverip := e_serverip e; i_pol := pol_of w; i_alloc := alloc; i_now := t2;
     i_reply_opts := to_options (rs_opts (snd w)) |}.

(* ---- the frame ---------------------------------------------------------------- *)
Definition frame_args (e : env) (m r : dhcp) (mac : list N) : udp4_args :=
  {| u_src_ip := be32 (e_serverip e); u_src_port := 67; u_src_mac := e_mac e;
     u_dst_ip := be32 (reply_dest (d_flags m) (d_yiaddr r)); u_dst_port := e_port e; u_dst_mac := mac;
     u_payload := encode r |}.

Definition MAX_UDP4_PAYLOAD : N := 65507.     (* dhcp/mod.rs: 65535 - 20 - 8 *)

Definition too_big (r : dhcp) : bool := MAX_UDP4_PAYLOAD <? lenN (encode r).

Definition E_CHOICE : N := 9.     (* the pool answer offered to the model is not one it admits *)

(* [t1], [t2]: the two clock reads of allocate_address; [ans]: what the lease store answered *)
Definition server_step (cfg : scfg) (st : sstate) (t1 t2 : N) (e : env) (b : list N) (ans : answer)
  : outcome (sstate * option (list N)) :=
  match decode b with
  | Panic k => Panic k
  | Err _ => Ok (st, None)                                   (* "Failed to parse packet": dropped *)
  | Ok m =>
    let d := fst st in
    let ids := snd st in
    let req := request_of e m in
    let w := walk_of cfg req in
    match handle (step_in_of ids e w t2 None) (leases_of d) m with
    | (NoReply PoolError, _) =>                              (* allocate_address is reached *)
      match alloc_ok d (op_of cfg w m) t1 t2 ans with
      | None => Err E_CHOICE
      | Some d' =>
        match ans with
        | Granted ip secs _ =>
          match handle (step_in_of ids e w t2 (Some (ip, secs))) (leases_of d) m with
          | (Reply r, _) =>
            let ids' := match serverid r with Some s => s :: ids | None => ids end in
            match to_array (d_chaddr r) with
            | Ok (Some mac) =>
              (* reply_frame: "Reply of .. octets does not fit in a UDP datagram, not sent" *)
              if too_big r then Ok ((d', ids'), None)
              else do f <- udp4_build (frame_args e m r mac) ; Ok ((d', ids'), Some f)
            | Ok None => Ok ((d', ids'), None)             (* "Cannot send reply to invalid client hardware addr" *)
            | Err x => Err x
            | Panic k => Panic k
            end
          | (NoReply _, _) => Err E_CHOICE                   (* unreachable *)
          end
        | Panicked => Panic Overflow                         (* the task dies inside allocate_address *)
        | _ => Ok ((d', ids), None)                          (* pool error: logged, no reply *)
        end
      end
    | (NoReply _, _) => Ok (st, None)                        (* not for us / no policy / no pool *)
    | (Reply _, _) => Err E_CHOICE                           (* unreachable: no allocation offered *)
    end
  end.

(* the reply message of a step that produced a frame (for stating theorems) *)
Definition reply_of (cfg : scfg) (st : sstate) (t2 : N) (e : env) (b : list N) (ans : answer) : option dhcp :=
  match decode b, ans with
  | Ok m, Granted ip secs _ =>
    match handle (step_in_of (snd st) e (walk_of cfg (request_of e m)) t2 (Some (ip, secs))) (leases_of (fst st)) m with
    | (Reply r, _) => Some r
    | _ => None
    end
  | _, _ => None
  end.

(* ---- histories of received datagrams -------------------------------------- *)
Record sevent := { se_t1 : N; se_t2 : N; se_env : env; se_bytes : list N; se_ans : answer }.

(* one spawned task per datagram (Model/Service.v): an aborted step leaves the state *)
Fixpoint server_run (cfg : scfg) (st : sstate) (h : list sevent) : option (sstate * list (list N)) :=
  match h with
  | [] => Some (st, [])
  | ev :: h' =>
    match server_step cfg st (se_t1 ev) (se_t2 ev) (se_env ev) (se_bytes ev) (se_ans ev) with
    | Ok (st', fo) =>
      match server_run cfg st' h' with
      | Some (st'', fs) => Some (st'', match fo with Some f => f :: fs | None => fs end)
      | None => None
      end
    | Err _ => None                      (* the history offers an answer the model does not admit *)
    | Panic _ => server_run cfg st h'
    end
  end.

(* ---- the lease-store view of a history (for lifting C01) --------------------- *)
(* the lease-store step a datagram causes, if it gets as far as allocate_address;
   the flag says that no frame went out (the grant, if any, never reached the client) *)
Definition pool_event (cfg : scfg) (st : sstate) (ev : sevent) : option (event * bool) :=
  match decode (se_bytes ev) with
  | Ok m =>
    let w := walk_of cfg (request_of (se_env ev) m) in
    match handle (step_in_of (snd st) (se_env ev) w (se_t2 ev) None) (leases_of (fst st)) m with
    | (NoReply PoolError, _) =>
      Some (EAlloc (op_of cfg w m) (se_t1 ev) (se_t2 ev) (se_ans ev),
            match server_step cfg st (se_t1 ev) (se_t2 ev) (se_env ev) (se_bytes ev) (se_ans ev) with
            | Ok (_, Some _) => false
            | _ => true
            end)
    | _ => None
    end
  | _ => None
  end.

Fixpoint pool_history (cfg : scfg) (st : sstate) (h : list sevent) : list (event * bool) :=
  match h with
  | [] => []
  | ev :: h' =>
    match server_step cfg st (se_t1 ev) (se_t2 ev) (se_env ev) (se_bytes ev) (se_ans ev) with
    | Ok (st', _) =>
      (match pool_event cfg st ev with Some pe => [pe] | None => [] end) ++ pool_history cfg st' h'
    | Err _ => []
    | Panic _ => pool_history cfg st h'
    end
  end.

(* clock reads sorted, no u32 wrap *)
Fixpoint wf_times (M now : N) (h : list sevent) : bool :=
  match h with
  | [] => true
  | ev :: h' => (now <=? se_t1 ev) && (se_t1 ev <=? se_t2 ev) && (se_t2 ev + M <? pow2 32) && wf_times M (se_t2 ev) h'
  end.

(* ---- restart (C18) -------------------------------------------------------------
   Closing and reopening the store keeps the lease rows -- SQLite durability: every
   INSERT is committed before the reply is built; this is the TRUSTED assumption, checked
   on the real store by the Restart/Kill events of the harness -- and loses the in-memory
   set of server identifiers. *)
Definition restart (st : sstate) : sstate := (fst st, []).

(* what an observer sees of a run: the frames, and the rows at the end *)
Definition view (r : sstate * list (list N)) : db * list (list N) := (fst (fst r), snd r).

Definition run_restart (cfg : scfg) (st : sstate) (h1 h2 : list sevent) : option (sstate * list (list N)) :=
  match server_run cfg st h1 with
  | Some (st1, fs1) =>
    match server_run cfg (restart st1) h2 with
    | Some (st2, fs2) => Some (st2, fs1 ++ fs2)
    | None => None
    end
  | None => None
  end.

(* single-homed use: a REQUEST names no server, or the address of the interface it arrives on *)
Definition names_own_address (ev : sevent) : Prop :=
  forall m, decode (se_bytes ev) = Ok m -> msgtype m = Some 3 ->
            serverid m = None \/ serverid m = Some (e_serverip (se_env ev)).

(* a datagram may be KILLED: the process dies between the INSERT and the send -- the row (if
   any) is written, no frame leaves -- and the server is started again *)
Fixpoint server_run_k (cfg : scfg) (st : sstate) (h : list (sevent * bool)) : option (sstate * list (list N)) :=
  match h with
  | [] => Some (st, [])
  | (ev, killed) :: h' =>
    match server_step cfg st (se_t1 ev) (se_t2 ev) (se_env ev) (se_bytes ev) (se_ans ev) with
    | Ok (st', fo) =>
      match server_run_k cfg (if killed then restart st' else st') h' with
      | Some (st'', fs) => Some (st'', match fo with Some f => if killed then fs else f :: fs | None => fs end)
      | None => None
      end
    | Err _ => None
    | Panic _ => server_run_k cfg (if killed then restart st else st) h'
    end
  end.

Fixpoint pool_history_k (cfg : scfg) (st : sstate) (h : list (sevent * bool)) : list (event * bool) :=
  match h with
  | [] => []
  | (ev, killed) :: h' =>
    match server_step cfg st (se_t1 ev) (se_t2 ev) (se_env ev) (se_bytes ev) (se_ans ev) with
    | Ok (st', _) =>
      (match pool_event cfg st ev with Some (e, lost) => [(e, lost || killed)] | None => [] end)
      ++ pool_history_k cfg (if killed then restart st' else st') h'
    | Err _ => []
    | Panic _ => pool_history_k cfg (if killed then restart st else st) h'
    end
  end.

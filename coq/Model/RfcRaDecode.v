(* THE SPECIFICATION for property C17: a decoder for Router Advertisement
   messages written from the RFC texts only.  It imports nothing but
   Lib/Base.v: no definition is shared with the model of the implementation
   (Model/Radv.v).  What a configuration is documented to advertise
   ([expected]) is in Model/RaExpected.v.  Definitions only.

   Layouts used (octet offsets from the start of the ICMPv6 message / option):

   RFC 4861 4.2  Router Advertisement
     0 Type=134 | 1 Code=0 | 2-3 Checksum | 4 Cur Hop Limit
     5 M(0x80) O(0x40) Reserved(6 bits, MUST be zero on transmission)
     6-7 Router Lifetime (s) | 8-11 Reachable Time (ms) | 12-15 Retrans Timer (ms) | 16.. options
   RFC 4861 4.6  every option: 0 Type | 1 Length in units of 8 octets (0 is invalid) | ...
     4.6.1 Source Link-Layer Address: Type 1, then the address (Ethernet: Length 1, 6 octets)
     4.6.2 Prefix Information: Type 3, Length 4: 2 Prefix Length (0..128)
           3 L(0x80) A(0x40) Reserved1(6 bits) | 4-7 Valid Lifetime | 8-11 Preferred Lifetime
           12-15 Reserved2 | 16-31 Prefix; "bits in the prefix after the prefix length are
           reserved and MUST be initialized to zero by the sender"
     4.6.4 MTU: Type 5, Length 1: 2-3 Reserved | 4-7 MTU
   RFC 8106 5.1  RDNSS: Type 25, Length = 1 + 2n with n >= 1 ("minimum value is 3"):
           2-3 Reserved | 4-7 Lifetime | 8.. n addresses of 16 octets
   RFC 8106 5.2  DNSSL: Type 31, Length >= 2: 2-3 Reserved | 4-7 Lifetime |
           8.. domain names, each a sequence of labels (length octet 1..63 + that many octets)
           ended by a zero octet (RFC 1035 3.1, no compression), then zero padding
           to a multiple of 8; at least one domain name
   RFC 8781 4    PREF64: Type 38, Length 2: 2-3 Scaled Lifetime (13 bits, units of 8 s) and
           PLC (3 bits): 0 -> /96, 1 -> /64, 2 -> /56, 3 -> /48, 4 -> /40, 5 -> /32 (6, 7 invalid)
           4-15 highest 96 bits of the prefix
   RFC 8910 2.3  Captive-Portal: Type 37, Length; 2.. URI, padded with NUL (0x00) octets
   Unknown option types are skipped (RFC 4861 4.2: "MUST silently ignore"). *)
From Erbium Require Import Lib.Base.

(* ---- what a decoded advertisement says --------------------------------- *)
Record rfc_prefix := {
  rp_len : N; rp_onlink : bool; rp_auto : bool; rp_valid : N; rp_preferred : N; rp_prefix : list N }.

Inductive rfc_opt :=
| RSll (addr : list N)
| RMtu (m : N)
| RPrefix (p : rfc_prefix)
| RRdnss (lifetime : N) (servers : list (list N))
| RDnssl (lifetime : N) (domains : list (list (list N)))      (* a domain = its labels *)
| RPref64 (lifetime : N) (len : N) (prefix96 : list N)
| RCaptive (uri : list N).

Record rfc_ra := {
  r_hop : N; r_managed : bool; r_other : bool;
  r_lifetime : N;           (* seconds *)
  r_reachable : N;          (* milliseconds *)
  r_retrans : N;            (* milliseconds *)
  r_sll : list (list N);
  r_mtu : list N;
  r_prefixes : list rfc_prefix;
  r_rdnss : list (N * list (list N));
  r_dnssl : list (N * list (list (list N)));
  r_pref64 : list (N * N * list N);
  r_captive : list (list N) }.

(* ---- numbers ----------------------------------------------------------- *)
Definition u16_at (b : list N) : N := match b with h :: l :: _ => h * 256 + l | _ => 0 end.
Definition u32_at (b : list N) : N :=
  match b with a :: b :: c :: d :: _ => ((a * 256 + b) * 256 + c) * 256 + d | _ => 0 end.
Definition all_zero (b : list N) : bool := forallb (fun x => x =? 0) b.

(* the bits of [bs] after the first [len] are zero *)
Fixpoint tail_bits_zero (len : N) (bs : list N) : bool :=
  match bs with
  | [] => true
  | b :: r => (b mod 2 ^ (8 - N.min len 8) =? 0) && tail_bits_zero (len - 8) r
  end.

(* ---- option bodies ------------------------------------------------------ *)
Fixpoint chunks16 (fuel : nat) (b : list N) : option (list (list N)) :=
  match fuel with
  | O => match b with [] => Some [] | _ => None end
  | S k =>
    match b with
    | [] => Some []
    | _ => if lenN b <? 16 then None
           else match chunks16 k (dropN 16 b) with
                | Some cs => Some (takeN 16 b :: cs)
                | None => None
                end
    end
  end.

(* one domain name: labels up to the terminating zero octet; returns the labels and the rest *)
Fixpoint name_labels (fuel : nat) (b : list N) : option (list (list N) * list N) :=
  match fuel with
  | O => None
  | S k =>
    match b with
    | [] => None                                           (* no terminator *)
    | l :: r =>
      if l =? 0 then Some ([], r)
      else if (63 <? l) || (lenN r <? l) then None         (* RFC 1035: label of 1..63 octets *)
      else match name_labels k (dropN l r) with
           | Some (ls, rest) => Some (takeN l r :: ls, rest)
           | None => None
           end
    end
  end.

(* the domain names of a DNSSL option, then zero padding only *)
Fixpoint dnssl_names (fuel : nat) (b : list N) : option (list (list (list N))) :=
  match fuel with
  | O => None
  | S k =>
    match b with
    | [] => Some []
    | l :: _ =>
      if l =? 0 then (if all_zero b then Some [] else None)
      else match name_labels (S (length b)) b with
           | Some (ls, rest) =>
             match dnssl_names k rest with
             | Some ds => Some (ls :: ds)
             | None => None
             end
           | None => None
           end
    end
  end.

Fixpoint strip_zeros_rev (b : list N) : list N :=          (* on the reversed octets *)
  match b with
  | x :: r => if x =? 0 then strip_zeros_rev r else b
  | [] => []
  end.
Definition strip_trailing_zeros (b : list N) : list N := rev (strip_zeros_rev (rev b)).

Definition plc_len (plc : N) : option N :=
  match plc with
  | 0 => Some 96 | 1 => Some 64 | 2 => Some 56 | 3 => Some 48 | 4 => Some 40 | 5 => Some 32
  | _ => None
  end.

(* "reserved fields (including the bits of a prefix beyond its length) are zero":
   the reserved fields of the option types this decoder understands *)
Definition reserved_body (ty : N) (body : list N) : bool :=
  match ty with
  | 5 => all_zero (takeN 2 body)
  | 3 => match body with
         | plen :: flags :: r =>
           (flags mod 64 =? 0) && all_zero (takeN 4 (dropN 8 r)) && tail_bits_zero plen (dropN 12 r)
         | _ => false
         end
  | 25 => all_zero (takeN 2 body)
  | 31 => all_zero (takeN 2 body)
  | 38 => match plc_len (u16_at body mod 8) with
          | Some plen => tail_bits_zero plen (dropN 2 body)
          | None => false
          end
  | _ => true
  end.

(* the value of an option whose reserved fields have been checked.
   [Some None]: an option to be ignored; [None]: the message is malformed *)
Definition rfc_opt_body (ty len : N) (body : list N) : option (option rfc_opt) :=
  match ty with
  | 1 => Some (Some (RSll body))
  | 5 => if len =? 1 then Some (Some (RMtu (u32_at (dropN 2 body)))) else None
  | 3 =>
    if negb (len =? 4) then None else
    match body with
    | plen :: flags :: r =>
      if plen <=? 128
      then Some (Some (RPrefix {| rp_len := plen; rp_onlink := 128 <=? flags; rp_auto := 64 <=? flags mod 128;
                                  rp_valid := u32_at r; rp_preferred := u32_at (dropN 4 r);
                                  rp_prefix := dropN 12 r |}))
      else None
    | _ => None
    end
  | 25 =>
    if (len <? 3) || (len mod 2 =? 0) then None else
    match chunks16 (length body) (dropN 6 body) with
    | Some servers => Some (Some (RRdnss (u32_at (dropN 2 body)) servers))
    | None => None
    end
  | 31 =>
    if len <? 2 then None else
    match dnssl_names (S (length body)) (dropN 6 body) with
    | Some [] => None                                      (* at least one domain name *)
    | Some ds => Some (Some (RDnssl (u32_at (dropN 2 body)) ds))
    | None => None
    end
  | 38 =>
    if negb (len =? 2) then None else
    let v := u16_at body in
    match plc_len (v mod 8) with
    | Some plen => Some (Some (RPref64 (v / 8 * 8) plen (dropN 2 body)))
    | None => None
    end
  | 37 => Some (Some (RCaptive (strip_trailing_zeros body)))
  | _ => Some None
  end.

(* the option area: every option has a non-zero length and lies inside the message *)
Fixpoint rfc_options (fuel : nat) (b : list N) : option (list rfc_opt) :=
  match fuel with
  | O => match b with [] => Some [] | _ => None end
  | S k =>
    match b with
    | [] => Some []
    | ty :: len :: r =>
      if (len =? 0) || (lenN r <? len * 8 - 2) || negb (reserved_body ty (takeN (len * 8 - 2) r)) then None
      else match rfc_opt_body ty len (takeN (len * 8 - 2) r), rfc_options k (dropN (len * 8 - 2) r) with
           | Some (Some o), Some os => Some (o :: os)
           | Some None, Some os => Some os
           | _, _ => None
           end
    | _ => None
    end
  end.

Definition collect (hop : N) (m o : bool) (lt reach retr : N) (os : list rfc_opt) : rfc_ra :=
  {| r_hop := hop; r_managed := m; r_other := o; r_lifetime := lt; r_reachable := reach; r_retrans := retr;
     r_sll := flat_map (fun x => match x with RSll a => [a] | _ => [] end) os;
     r_mtu := flat_map (fun x => match x with RMtu a => [a] | _ => [] end) os;
     r_prefixes := flat_map (fun x => match x with RPrefix a => [a] | _ => [] end) os;
     r_rdnss := flat_map (fun x => match x with RRdnss l s => [(l, s)] | _ => [] end) os;
     r_dnssl := flat_map (fun x => match x with RDnssl l d => [(l, d)] | _ => [] end) os;
     r_pref64 := flat_map (fun x => match x with RPref64 l n p => [(l, n, p)] | _ => [] end) os;
     r_captive := flat_map (fun x => match x with RCaptive u => [u] | _ => [] end) os |}.

Definition rfc_decode (b : list N) : option rfc_ra :=
  match b with
  | ty :: code :: _ :: _ :: hop :: flags :: r =>
    if negb (bytes_ok b) || negb (ty =? 134) || negb (code =? 0) || negb (flags mod 64 =? 0) || (lenN r <? 10)
    then None
    else match rfc_options (length r) (dropN 10 r) with
         | Some os =>
           Some (collect hop (128 <=? flags) (64 <=? flags mod 128)
                         (u16_at r) (u32_at (dropN 2 r)) (u32_at (dropN 6 r)) os)
         | None => None
         end
  | _ => None
  end.

(* "The message length and every option length are multiples of 8 octets":
   the message is a whole number of 8-octet units and the option area is
   exactly tiled by options whose Length field is their size / 8. *)
Fixpoint options_tile (fuel : nat) (b : list N) : bool :=
  match fuel with
  | O => match b with [] => true | _ => false end
  | S k =>
    match b with
    | [] => true
    | _ :: len :: r =>
      negb (len =? 0) && (len * 8 - 2 <=? lenN r) && options_tile k (dropN (len * 8 - 2) r)
    | _ => false
    end
  end.
Definition lengths_ok (b : list N) : bool :=
  (lenN b mod 8 =? 0) && (16 <=? lenN b) && options_tile (length b) (dropN 16 b).

(* "reserved fields (including the bits of a prefix beyond its length) are zero", over a whole message *)
Fixpoint reserved_opts (fuel : nat) (b : list N) : bool :=
  match fuel with
  | O => true
  | S k =>
    match b with
    | ty :: len :: r =>
      reserved_body ty (takeN (len * 8 - 2) r) && reserved_opts k (dropN (len * 8 - 2) r)
    | _ => true
    end
  end.
Definition reserved_zero (b : list N) : bool :=
  match b with
  | _ :: _ :: _ :: _ :: _ :: flags :: r => (flags mod 64 =? 0) && reserved_opts (length r) (dropN 10 r)
  | _ => false
  end.

(* Token codecs and the per-case checks shared by the entry points of C14,
   C04 and C03 (case kinds: see harness/src/dnsgen.rs).  Definitions only. *)
From Erbium Require Import Lib.Base Model.DnsName Model.DnsCodec Model.DnsStrict
  Model.DnsEncodeSized Model.DnsForward.

(* ---- reading tokens ------------------------------------------------------ *)
Definition t_bytes (ts : list N) : option (list N * list N) :=
  match ts with n :: r => take_exact (N.to_nat n) r | [] => None end.

Fixpoint t_labels (n : nat) (ts : list N) : option (name * list N) :=
  match n with
  | O => Some ([], ts)
  | S k => let? (l, ts) := t_bytes ts in let? (ls, ts) := t_labels k ts in Some (l :: ls, ts)
  end.
Definition t_name (ts : list N) : option (name * list N) :=
  match ts with n :: r => t_labels (N.to_nat n) r | [] => None end.

Fixpoint t_optlist (n : nat) (ts : list N) : option (opts * list N) :=
  match n with
  | O => Some ([], ts)
  | S k =>
    match ts with
    | code :: r => let? (d, ts) := t_bytes r in let? (os, ts) := t_optlist k ts in Some ((code, d) :: os, ts)
    | [] => None
    end
  end.
Definition t_opts (ts : list N) : option (opts * list N) :=
  match ts with n :: r => t_optlist (N.to_nat n) r | [] => None end.

Definition t_rdata (ts : list N) : option (rdata * list N) :=
  match ts with
  | 0 :: r => let? (n, ts) := t_name r in Some (RCName n, ts)
  | 1 :: p :: r => let? (n, ts) := t_name r in Some (RMx p n, ts)
  | 2 :: r => let? (n, ts) := t_name r in Some (RNs n, ts)
  | 3 :: r => let? (n, ts) := t_name r in Some (RPtr n, ts)
  | 4 :: r =>
    let? (m, ts) := t_name r in let? (rn, ts) := t_name ts in
    match ts with
    | s :: rf :: rt :: e :: mi :: ts => Some (RSoa m rn s rf rt e mi, ts)
    | _ => None
    end
  | 5 :: r => let? (o, ts) := t_opts r in Some (ROpt o, ts)
  | 6 :: p :: r => let? (n, ts) := t_name r in Some (RAfsDb p n, ts)
  | 7 :: r => let? (m, ts) := t_name r in let? (t, ts) := t_name ts in Some (RRp m t, ts)
  | 8 :: p :: r => let? (n, ts) := t_name r in Some (RRt p n, ts)
  | 9 :: o :: p :: r =>
    let? (f, ts) := t_bytes r in let? (s, ts) := t_bytes ts in let? (rg, ts) := t_bytes ts in
    let? (n, ts) := t_name ts in Some (RNaPtr o p f s rg n, ts)
  | 10 :: r => let? (b, ts) := t_bytes r in Some (ROther b, ts)
  | _ => None
  end.

Definition t_rr (ts : list N) : option (rr * list N) :=
  let? (n, ts) := t_name ts in
  match ts with
  | cl :: ty :: ttl :: r =>
    let? (d, ts) := t_rdata r in
    Some ({| r_name := n; r_class := cl; r_type := ty; r_ttl := ttl; r_data := d |}, ts)
  | _ => None
  end.

Fixpoint t_rrlist (n : nat) (ts : list N) : option (list rr * list N) :=
  match n with
  | O => Some ([], ts)
  | S k => let? (r, ts) := t_rr ts in let? (rs, ts) := t_rrlist k ts in Some (r :: rs, ts)
  end.
Definition t_rrs (ts : list N) : option (list rr * list N) :=
  match ts with n :: r => t_rrlist (N.to_nat n) r | [] => None end.

Definition nb (v : N) : bool := negb (v =? 0).

Definition t_pkt (ts : list N) : option (pkt * list N) :=
  match ts with
  | id :: rd_ :: tc_ :: aa_ :: qr_ :: opc :: cd_ :: ad_ :: ra_ :: rc :: bs :: ever :: edo :: r =>
    let? (qn, ts) := t_name r in
    match ts with
    | qt :: qc :: ts =>
      let? (an, ts) := t_rrs ts in
      let? (ns, ts) := t_rrs ts in
      let? (ad2, ts) := t_rrs ts in
      let? (ed, ts) := match ts with
                       | 0 :: ts => Some (None, ts)
                       | 1 :: ts => let? (o, ts) := t_opts ts in Some (Some o, ts)
                       | _ => None
                       end in
      Some ({| qid := id; rd := nb rd_; tc := nb tc_; aa := nb aa_; qr := nb qr_; opcode := opc;
               cd := nb cd_; ad := nb ad_; ra := nb ra_; rcode := rc; bufsize := bs;
               edns_ver := if ever =? 0 then None else Some (ever - 1); edns_do := nb edo;
               qname := qn; qtype := qt; qclass := qc;
               answer := an; nameserver := ns; additional := ad2; edns := ed |}, ts)
    | _ => None
    end
  | _ => None
  end.

(* what the implementation did at one step *)
Inductive res (A : Type) := RAbsent | RPanic | RErr | RVal (a : A).
Arguments RAbsent {A}. Arguments RPanic {A}. Arguments RErr {A}. Arguments RVal {A} a.

Definition t_res {A} (rd_ : list N -> option (A * list N)) (ts : list N) : option (res A * list N) :=
  match ts with
  | [] => Some (RAbsent, [])
  | 0 :: r => let? (a, ts) := rd_ r in Some (RVal a, ts)
  | 1 :: r => Some (RErr, r)
  | 2 :: r => Some (RPanic, r)
  | _ => None
  end.

Fixpoint t_namelist (n : nat) (ts : list N) : option (list name * list N) :=
  match n with
  | O => Some ([], ts)
  | S k => let? (x, ts) := t_name ts in let? (xs, ts) := t_namelist k ts in Some (x :: xs, ts)
  end.
Definition t_names (ts : list N) : option (list name * list N) :=
  match ts with n :: r => t_namelist (N.to_nat n) r | [] => None end.

(* ---- writing tokens (what the model expected, after verdict 1) ---------- *)
Definition p_outcome_len (o : outcome (list N)) : list N :=
  match o with Ok b => [0; lenN b] | Err e => [1; e] | Panic k => [2; panic_code k] end.

(* first index where two byte strings differ *)
Fixpoint first_diff (a b : list N) (i : N) : N :=
  match a, b with
  | x :: a', y :: b' => if x =? y then first_diff a' b' (i + 1) else i
  | _, _ => i
  end.

(* ---- the cut relation of C04: m' is m with records dropped from the end -- *)
Definition edns_same (m m' : pkt) : bool :=
  opt_eqb opts_eqb (edns m) (edns m') && (rcode m =? rcode m')
  && match edns m with
     | Some _ => (bufsize m =? bufsize m') && Bool.eqb (edns_do m) (edns_do m')
                 && opt_eqb N.eqb (Some (match edns_ver m with Some v => v | None => 0 end)) (edns_ver m')
     | None => true
     end.

(* Some dropped / None: not a cut *)
Definition cut_of (m m' : pkt) : option bool :=
  let no_edns := match edns m' with None => true | Some _ => false end in
  if negb (is_prefix rr_eqb (answer m') (answer m)) then None
  else if (length (answer m') <? length (answer m))%nat then
    match nameserver m', additional m' with [], [] => if no_edns then Some true else None | _, _ => None end
  else if negb (is_prefix rr_eqb (nameserver m') (nameserver m)) then None
  else if (length (nameserver m') <? length (nameserver m))%nat then
    match additional m' with [] => if no_edns then Some true else None | _ => None end
  else if negb (is_prefix rr_eqb (additional m') (additional m)) then None
  else if (length (additional m') <? length (additional m))%nat then (if no_edns then Some true else None)
  else match edns m with
       | None => if no_edns then Some false else None
       | Some _ => if no_edns then Some true else if edns_same m m' then Some false else None
       end.

(* predicate numbers (props/C*.json) *)
Definition P_REDECODE : N := 2.     (* decode(encode m) <> m *)
Definition P_STRICT : N := 3.       (* the bytes are not a strictly well-formed message / pointer discipline *)
Definition P_ENCPANIC : N := 4.     (* the encoder panicked on a well-formed message *)
Definition P_DECPANIC : N := 5.     (* the decoder panicked *)
Definition P_LIMIT : N := 6.        (* response longer than the limit *)
Definition P_HEADER : N := 7.       (* header/question of the bytes differ from the message *)
Definition P_CUT : N := 8.          (* records are not the message's records cut at one point *)
Definition P_TC : N := 9.           (* TC flag does not say whether records were dropped *)
Definition P_FITS : N := 10.        (* records dropped although the complete message fits *)
Definition P_LIMITFN : N := 11.     (* wrong size limit for the transport *)
Definition P_ASMPANIC : N := 12.    (* reply assembly panicked *)
Definition P_IDQ : N := 13.         (* id / question / QR of the reply *)
Definition P_RCODE : N := 14.
Definition P_ANSWER : N := 15.
Definition P_AUTH : N := 16.
Definition P_ADDL : N := 17.
Definition P_WIRE : N := 18.        (* sections on the wire differ from the upstream reply *)
Definition P_OUTQ : N := 19.        (* upstream query does not carry the client's question *)
Definition P_TTL : N := 20.         (* TTL ageing changed more than the TTL *)

Definition lenle (b : list N) (n : N) : bool := lenN b <=? n.

(* the first k records of m in wire order (OPT pseudo-record last) *)
Definition cut_pkt (m : pkt) (k : nat) : pkt :=
  let k1 := (k - length (answer m))%nat in
  let k2 := (k1 - length (nameserver m))%nat in
  let k3 := (k2 - length (additional m))%nat in
  {| qid := qid m; rd := rd m; tc := tc m; aa := aa m; qr := qr m; opcode := opcode m;
     cd := cd m; ad := ad m; ra := ra m; rcode := rcode m; bufsize := bufsize m;
     edns_ver := edns_ver m; edns_do := edns_do m;
     qname := qname m; qtype := qtype m; qclass := qclass m;
     answer := firstn k (answer m); nameserver := firstn k1 (nameserver m);
     additional := firstn k2 (additional m);
     edns := match k3 with O => None | S _ => edns m end |}.

Definition records_kept (m' : pkt) : nat :=
  (length (answer m') + length (nameserver m') + length (additional m')
   + match edns m' with Some _ => 1 | None => 0 end)%nat.

(* common monitor on "message m was serialised with limit size into e":
   None = all predicates hold (with: were records dropped) *)
Definition monitor_sized (m : pkt) (size : N) (e : list N) (full_len : option N) : list N + bool :=
  if negb (lenle e size) then inl (v_viol P_LIMIT) else
  match strict_decode e with
  | None => inl (v_viol P_STRICT)
  | Some m' =>
    if negb (header_eqb m m') then inl (v_viol P_HEADER) else
    match cut_of m m' with
    | None => inl (v_viol P_CUT)
    | Some dropped =>
      if negb (Bool.eqb (tc m') (tc m || dropped)) then inl (v_viol P_TC) else
      if dropped && match full_len with Some l => l <=? size | None => false end then inl (v_viol P_FITS)
      else if dropped && match encode_sized (cut_pkt m (S (records_kept m'))) 1000000000 with
                         | Ok b => lenN b <=? size      (* the first dropped record would have fitted *)
                         | _ => false
                         end then inl (v_viol P_FITS)
      else inr dropped
    end
  end.

Definition full_length (m : pkt) : option N :=
  match encode_sized m 1000000000 with Ok b => Some (lenN b) | _ => None end.

(* impl decode result vs a packet *)
Definition dec_is (d : res pkt) (m : pkt) : bool :=
  match d with RVal x => pkt_eqb x m | _ => false end.

(* ---- kind 1: byte strings --------------------------------------------------- *)
Definition check_k1 (ts : list N) : list N :=
  match t_bytes ts with
  | None => v_bad
  | Some (b, ts) =>
    match t_res t_pkt ts with
    | None => v_bad
    | Some (d1, ts) =>
      match t_res t_bytes ts with
      | None => v_bad
      | Some (e1, ts) =>
        match t_res t_pkt ts with
        | None => v_bad
        | Some (d2, _) =>
          let md := decode b in
          match d1 with
          | RAbsent => v_bad
          | RPanic => v_viol P_DECPANIC
          | RErr => match md with Ok _ => v_diff [0] | _ => v_ok 10 end
          | RVal mi =>
            (* predicates on the implementation's own output *)
            match e1 with
            | RAbsent | RErr => v_bad
            | RPanic => v_viol P_ENCPANIC
            | RVal e =>
              (* the property speaks about messages of up to 65535 octets: serialise() truncates beyond 65536 *)
              let small := match full_length mi with Some l => l <=? 65535 | None => lenN e <=? 65535 end in
              if small && match d2 with RPanic => true | _ => false end then v_viol P_DECPANIC
              else if small && negb (dec_is d2 mi) then v_viol P_REDECODE
              else if small && negb (match strict_decode e with Some m' => pkt_eqb m' mi | None => false end)
                   then v_viol P_STRICT
              else
                match md with
                | Ok m =>
                  if negb (pkt_eqb m mi) then v_diff [0; 0]
                  else match encode mi with
                       | Ok e' => if bytes_eqb e' e then v_ok (if small then (if 16384 <? lenN e then 12 else 11) else 13)
                                  else v_diff [0; lenN e'; first_diff e' e 0]
                       | o => v_diff (p_outcome_len o)
                       end
                | _ => v_diff [1]
                end
            end
          end
        end
      end
    end
  end.

(* ---- kind 2: structured message, size ------------------------------------- *)
Definition check_k2 (ts : list N) : list N :=
  match t_pkt ts with
  | Some (m, size :: ts) =>
    match t_res t_bytes ts with
    | None => v_bad
    | Some (e1, ts) =>
      match t_res t_pkt ts with
      | None => v_bad
      | Some (d2, _) =>
        let me := encode_sized m size in
        if negb (wf_pkt m) then
          match e1, me with
          | RPanic, Panic _ => v_ok 29
          | RVal e, Ok e' => if bytes_eqb e e' then v_ok 29 else v_diff [0; lenN e'; first_diff e' e 0]
          | _, o => v_diff (p_outcome_len o)
          end
        else
        match e1 with
        | RAbsent | RErr => v_bad
        | RPanic => if size <? 512 then v_ok 28 else v_viol P_ENCPANIC
        | RVal e =>
          match monitor_sized m size e (full_length m) with
          | inl v => v
          | inr dropped =>
            if match d2 with RPanic => true | _ => false end then v_viol P_DECPANIC
            else if negb dropped && (lenN e <=? 65535) && negb (dec_is d2 m) then v_viol P_REDECODE
            else if negb dropped && negb (match strict_decode e with Some m' => pkt_eqb m' m | None => false end)
                 then v_viol P_REDECODE
            else match me with
                 | Ok e' =>
                   if bytes_eqb e' e then
                     v_ok (if dropped then (if lenN e + 12 <? size then 23 else 22)
                           else if 16384 <? lenN e then 21 else 20)
                   else v_diff [0; lenN e'; first_diff e' e 0]
                 | o => v_diff (p_outcome_len o)
                 end
          end
        end
      end
    end
  | _ => v_bad
  end.

(* ---- kind 3: names only ----------------------------------------------------- *)
Definition check_k3 (ts : list N) : list N :=
  match t_bytes ts with
  | None => v_bad
  | Some (prefix, ts) =>
    match t_names ts with
    | None => v_bad
    | Some (ns, ts) =>
      match t_res t_bytes ts with
      | None => v_bad
      | Some (e1, ts) =>
        match t_res t_names ts with
        | None => v_bad
        | Some (d2, _) =>
          let p := lenN prefix in
          let me := push_names p [] ns in
          let spec_ok := forallb wf_name ns && (0 <? p) in
          match e1 with
          | RAbsent | RErr => v_bad
          | RPanic => if spec_ok then v_viol P_ENCPANIC
                      else match me with Panic _ => v_ok 39 | o => v_diff (p_outcome_len o) end
          | RVal e =>
            let strict := match s_names e (length ns) (dropN p e, p) with
                          | Some (ns', ([], _)) => list_eqb name_eqb ns' ns
                          | _ => false
                          end in
            if spec_ok && negb strict then v_viol P_STRICT
            else if spec_ok && match d2 with RPanic => true | _ => false end then v_viol P_DECPANIC
            else if spec_ok && negb (match d2 with RVal x => list_eqb name_eqb x ns | _ => false end)
                 then v_viol P_REDECODE
            else match me with
                 | Ok bs =>
                   if negb (bytes_eqb (prefix ++ bs) e) then v_diff [0; p + lenN bs; first_diff (prefix ++ bs) e 0]
                   else
                     let md := get_domains e p (length ns) in
                     match md, d2 with
                     | Ok x, RVal y => if list_eqb name_eqb x y then v_ok (if 16384 <? lenN e then 31 else 30) else v_diff [3]
                     | Err _, RErr => v_ok 32
                     | _, _ => v_diff [4]
                     end
                 | o => v_diff (p_outcome_len o)
                 end
          end
        end
      end
    end
  end.

(* ---- kind 4: the limit function ------------------------------------------- *)
Definition check_k4 (ts : list N) : list N :=
  match ts with
  | [tcp; adv; lim] =>
    let spec := if nb tcp then 65535 else N.max 512 adv in
    if negb (lim =? spec) then v_viol P_LIMITFN
    else if lim =? response_size_limit (nb tcp) adv then v_ok (if nb tcp then 41 else 40)
    else v_diff [response_size_limit (nb tcp) adv]
  | _ => v_bad
  end.

(* ---- kind 5: bytes on the wire per transport ------------------------------ *)
Definition check_k5 (ts : list N) : list N :=
  match t_pkt ts with
  | Some (q, tcp :: ts) =>
    match t_pkt ts with
    | None => v_bad
    | Some (r, ts) =>
      match t_res t_bytes ts with
      | None => v_bad
      | Some (e1, ts) =>
        match t_res t_pkt ts with
        | None => v_bad
        | Some (d2, _) =>
          let limit := if nb tcp then 65535 else N.max 512 (bufsize q) in
          if negb (wf_pkt r) then v_bad else
          match e1 with
          | RAbsent | RErr => v_bad
          | RPanic => v_viol P_ENCPANIC
          | RVal e =>
            match monitor_sized r limit e (full_length r) with
            | inl v => v
            | inr dropped =>
              if match d2 with RPanic => true | _ => false end then v_viol P_DECPANIC
              else match wire_bytes q (nb tcp) r with
                   | Ok e' => if bytes_eqb e' e
                              then v_ok (if nb tcp then (if dropped then 53 else 52) else (if dropped then 51 else 50))
                              else v_diff [0; lenN e'; first_diff e' e 0]
                   | o => v_diff (p_outcome_len o)
                   end
            end
          end
        end
      end
    end
  | _ => v_bad
  end.

(* ---- kinds 6, 7, 8, 9: the forwarder -------------------------------------- *)
Definition edns_of (m : pkt) : opts := match edns m with Some o => o | None => [] end.

Definition check_reply_wire (r : pkt) (e1 : res (list N)) (d2 : res pkt) (tag : N) : list N :=
  match e1 with
  | RAbsent | RErr => v_bad
  | RPanic => v_viol P_ENCPANIC
  | RVal e =>
    if 65535 <? lenN e then v_ok (tag + 1)
    else match strict_decode e with
         | None => v_viol P_STRICT
         | Some m' =>
           if negb (rrs_eqb (answer m') (answer r) && rrs_eqb (nameserver m') (nameserver r)
                    && rrs_eqb (additional m') (additional r) && (rcode m' =? rcode r)
                    && (qid m' =? qid r) && name_eqb (qname m') (qname r))
           then (* legitimate only as a truncation of a reply whose complete encoding exceeds serialise()'s 65536 *)
             match cut_of r m', full_length r with
             | Some true, Some l => if (65536 <? l) && tc m' then v_ok (tag + 1) else v_viol P_WIRE
             | _, _ => v_viol P_WIRE
             end
           else if match d2 with RPanic => true | _ => false end then v_viol P_DECPANIC
           else match encode r with
                | Ok e' => if bytes_eqb e' e then v_ok tag else v_diff [0; lenN e'; first_diff e' e 0]
                | o => v_diff (p_outcome_len o)
                end
         end
  end.

Definition check_k6 (ts : list N) : list N :=
  match t_pkt ts with
  | None => v_bad
  | Some (q, ts) =>
    match t_bytes ts with
    | None => v_bad
    | Some (ub, ts) =>
      match t_res t_pkt ts with
      | None => v_bad
      | Some (d1, ts) =>
        match t_res t_pkt ts with
        | None => v_bad
        | Some (r1, ts) =>
          match t_res t_bytes ts with
          | None => v_bad
          | Some (e1, ts) =>
            match t_res t_pkt ts with
            | None => v_bad
            | Some (d2, _) =>
              match d1 with
              | RAbsent => v_bad
              | RPanic => v_viol P_DECPANIC
              | RErr => match decode ub with Ok _ => v_diff [0] | _ => v_ok 60 end
              | RVal up =>
                match r1 with
                | RAbsent | RErr => v_bad
                | RPanic => v_viol P_ASMPANIC
                | RVal r =>
                  if negb ((qid r =? qid q) && name_eqb (qname r) (qname q) && (qtype r =? qtype q)
                           && (qclass r =? qclass q) && qr r) then v_viol P_IDQ
                  else if negb (rcode r =? rcode up) then v_viol P_RCODE
                  else if negb (rrs_eqb (answer r) (answer up)) then v_viol P_ANSWER
                  else if negb (rrs_eqb (nameserver r) (nameserver up)) then v_viol P_AUTH
                  else if negb (rrs_eqb (additional r) (additional up)) then v_viol P_ADDL
                  else
                    match decode ub with
                    | Ok mup =>
                      if negb (pkt_eqb mup up) then v_diff [0; 0]
                      else if negb (pkt_eqb r (in_reply q up (edns_of r)) && edns_accept q (edns_of r) 0)
                      then v_diff [0; 1]
                      else check_reply_wire r e1 d2
                             (if match answer up, nameserver up, additional up with
                                    | _ :: _, _ :: _, _ :: _ => true | _, _, _ => false end then 62 else 64)
                    | _ => v_diff [1]
                    end
                end
              end
            end
          end
        end
      end
    end
  end.

Definition check_k7 (ts : list N) : list N :=
  match ts with
  | id :: ts =>
    match t_pkt ts with
    | None => v_bad
    | Some (q, ts) =>
      match t_res t_pkt ts with
      | Some (RVal o, _) =>
        if negb (name_eqb (qname o) (qname q) && (qtype o =? qtype q) && (qclass o =? qclass q)
                 && negb (qr o) && (qid o =? id)) then v_viol P_OUTQ
        else if pkt_eqb o (outquery id q) then v_ok 70 else v_diff [0]
      | Some (RPanic, _) => v_viol P_ASMPANIC
      | _ => v_bad
      end
    end
  | [] => v_bad
  end.

(* [tcchk] (C04): an error reply is complete -- it has no records to drop -- so TC on it claims a truncation
   that did not happen *)
Definition check_k8g (tcchk : bool) (ts : list N) : list N :=
  match t_pkt ts with
  | Some (q, kind :: ts) =>
    match t_bytes ts with
    | None => v_bad
    | Some (_, ts) =>
      match t_res t_pkt ts with
      | None => v_bad
      | Some (r1, ts) =>
        match t_res t_bytes ts with
        | None => v_bad
        | Some (e1, ts) =>
          match t_res t_pkt ts with
          | None => v_bad
          | Some (d2, _) =>
            match r1 with
            | RAbsent | RErr => v_bad
            | RPanic => v_viol P_ASMPANIC
            | RVal r =>
              if negb ((qid r =? qid q) && name_eqb (qname r) (qname q) && (qtype r =? qtype q)
                       && (qclass r =? qclass q) && qr r) then v_viol P_IDQ
              else if tcchk && tc r then v_viol P_TC
              else if negb (pkt_eqb r (in_error q kind (edns_of r)) && edns_accept q (edns_of r) 1)
              then v_diff [0; 1]
              else check_reply_wire r e1 d2 80
            end
          end
        end
      end
    end
  | _ => v_bad
  end.

Definition check_k8 := check_k8g false.

Definition ttl_aged (dec : N) (a b : list rr) : bool :=       (* a = aged b *)
  list_eqb (fun x y => rr_eqb (strip_ttl x) (strip_ttl y) && (r_ttl x + dec =? r_ttl y)) a b.

Definition check_k9 (ts : list N) : list N :=
  match t_pkt ts with
  | Some (m, dec :: ts) =>
    match t_res t_pkt ts with
    | Some (RVal r, _) =>
      if negb (ttl_aged dec (answer r) (answer m) && ttl_aged dec (nameserver r) (nameserver m)
               && ttl_aged dec (additional r) (additional m))
      then (if min_ttl m <? dec then v_known 1 else v_viol P_TTL)   (* known class 1: decrement beyond the smallest TTL *)
      else match age_ttls dec m with
           | Ok r' => if pkt_eqb r r' then v_ok 90 else v_diff [0]
           | o => v_diff [1]
           end
    | Some (RPanic, _) =>
      match age_ttls dec m with Panic _ => v_ok 91 | _ => v_diff [2] end
    | _ => v_bad
    end
  | _ => v_bad
  end.

Definition check_dns (ts : list N) : list N :=
  match ts with
  | 1 :: r => check_k1 r
  | 2 :: r => check_k2 r
  | 3 :: r => check_k3 r
  | 4 :: r => check_k4 r
  | 5 :: r => check_k5 r
  | 6 :: r => check_k6 r
  | 7 :: r => check_k7 r
  | 8 :: r => check_k8 r
  | 9 :: r => check_k9 r
  | _ => v_bad
  end.

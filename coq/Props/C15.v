(* Property C15 -- statements only; every proof is `exact <lemma from Proofs/>`.
   Vocabulary (Proofs/DnsRoute.v): [suffix_ci s q] -- q ends with s, whole labels,
   ASCII case-insensitive; [name_eq_ci] -- equal up to ASCII case; [entries rt] --
   all (suffix, action) pairs of a table; [table_functional] -- no suffix (up to
   case) listed under two different actions; [Permutation_tables] -- the same
   routes in another order, each with its suffixes in another order.
   [select] is the double loop of router.rs, [decide] what handle_query does. *)
From Erbium Require Import Lib.Base Model.DnsRoute Proofs.DnsRoute.
From Coq Require Import Permutation.

(* the selected suffix is configured in the selected route, the query ends with
   it, and no configured suffix the query ends with has more labels *)
Theorem C15_longest : forall rt q i s, select rt q = Some (i, s) ->
  (exists r, nth_error rt i = Some r /\ In s (suffixes r)) /\
  suffix_ci s q /\
  (forall j r' s', nth_error rt j = Some r' -> In s' (suffixes r') -> suffix_ci s' q ->
     (length s' <= length s)%nat).
Proof. exact select_longest. Qed.
Check C15_longest : forall rt q i s, select rt q = Some (i, s) ->
  (exists r, nth_error rt i = Some r /\ In s (suffixes r)) /\
  suffix_ci s q /\
  (forall j r' s', nth_error rt j = Some r' -> In s' (suffixes r') -> suffix_ci s' q ->
     (length s' <= length s)%nat).
Print Assumptions C15_longest.

Theorem C15_none_iff_no_match : forall rt q,
  select rt q = None <-> (forall r s, In r rt -> In s (suffixes r) -> ~ suffix_ci s q).
Proof. exact select_none_iff. Qed.
Check C15_none_iff_no_match : forall rt q,
  select rt q = None <-> (forall r s, In r rt -> In s (suffixes r) -> ~ suffix_ci s q).
Print Assumptions C15_none_iff_no_match.

Theorem C15_empty_suffix_matches_all : forall rt q r, In r rt -> In [] (suffixes r) ->
  suffix_ci [] q /\ select rt q <> None.
Proof. exact empty_suffix_matches_all. Qed.
Check C15_empty_suffix_matches_all : forall rt q r, In r rt -> In [] (suffixes r) ->
  suffix_ci [] q /\ select rt q <> None.
Print Assumptions C15_empty_suffix_matches_all.

(* "outcome(q) = action(argmax_{s suffix of q} labels(s))" *)
Theorem C15_outcome_is_action_of_longest : forall rt q rd s a,
  table_functional rt ->
  In (s, a) (entries rt) -> suffix_ci s q ->
  (forall s' a', In (s', a') (entries rt) -> suffix_ci s' q -> (length s' <= length s)%nat) ->
  decide rt q rd = act_result a rd.
Proof. exact decide_argmax. Qed.
Check C15_outcome_is_action_of_longest : forall rt q rd s a,
  table_functional rt ->
  In (s, a) (entries rt) -> suffix_ci s q ->
  (forall s' a', In (s', a') (entries rt) -> suffix_ci s' q -> (length s' <= length s)%nat) ->
  decide rt q rd = act_result a rd.
Print Assumptions C15_outcome_is_action_of_longest.

Theorem C15_order_and_case_invariant : forall rt rt' q q' rd,
  table_functional rt -> Permutation_tables rt rt' -> name_eq_ci q q' ->
  decide rt q rd = decide rt' q' rd.
Proof. exact order_and_case_invariant. Qed.
Check C15_order_and_case_invariant : forall rt rt' q q' rd,
  table_functional rt -> Permutation_tables rt rt' -> name_eq_ci q q' ->
  decide rt q rd = decide rt' q' rd.
Print Assumptions C15_order_and_case_invariant.

(* forge-nxdomain: NXDOMAIN and never a server; forward: only with RD and only to the
   selected route's server; no route: SERVFAIL *)
Theorem C15_actions : forall rt q rd,
  (decide rt q rd = RBlocked <->
     exists i s r, select rt q = Some (i, s) /\ nth_error rt i = Some r /\ act r = Forge) /\
  (forall srv, decide rt q rd = RForward srv ->
     rd = true /\ exists i s r rest, select rt q = Some (i, s) /\ nth_error rt i = Some r /\
                                     act r = Forward (srv :: rest)) /\
  (decide rt q rd = RNotAuth ->
     rd = false /\ exists i s r srvs, select rt q = Some (i, s) /\ nth_error rt i = Some r /\
                                      act r = Forward srvs) /\
  (decide rt q rd = RNoRoute <-> select rt q = None) /\
  rcode_of RBlocked = Some 3 /\ rcode_of RNoRoute = Some 2 /\ rcode_of RNotAuth = Some 5.
Proof. exact decide_actions. Qed.
Check C15_actions : forall rt q rd,
  (decide rt q rd = RBlocked <->
     exists i s r, select rt q = Some (i, s) /\ nth_error rt i = Some r /\ act r = Forge) /\
  (forall srv, decide rt q rd = RForward srv ->
     rd = true /\ exists i s r rest, select rt q = Some (i, s) /\ nth_error rt i = Some r /\
                                     act r = Forward (srv :: rest)) /\
  (decide rt q rd = RNotAuth ->
     rd = false /\ exists i s r srvs, select rt q = Some (i, s) /\ nth_error rt i = Some r /\
                                      act r = Forward srvs) /\
  (decide rt q rd = RNoRoute <-> select rt q = None) /\
  rcode_of RBlocked = Some 3 /\ rcode_of RNoRoute = Some 2 /\ rcode_of RNotAuth = Some 5.
Print Assumptions C15_actions.

(* ---- the hypotheses are satisfiable, the conclusions not vacuous ---------- *)
(* "invalid" -> forge-nxdomain; "" -> forward to server 0 (the crate's test configuration);
   i = 105, n = 110, v = 118, a = 97, l = 108, d = 100 *)
Definition ex_invalid : label := [105; 110; 118; 97; 108; 105; 100].
Definition ex_table : table := [([[ex_invalid]], Forge); ([[]], Forward [0])].
Definition ex_table' : table := [([[]], Forward [0]); ([[ex_invalid]], Forge)].

Example ex_functional : table_functional ex_table.
Proof.
  intros s1 a1 s2 a2 H1 H2 E. simpl in H1, H2.
  destruct H1 as [H1|[H1|[]]]; destruct H2 as [H2|[H2|[]]]; inversion H1; inversion H2; subst;
    try reflexivity; inversion E.
Qed.
Example ex_permuted : Permutation_tables ex_table ex_table'.
Proof.
  exists ex_table'. split; [apply perm_swap|].
  repeat constructor.
Qed.
(* WWW.INVALID and www.invalid, either order of the table: blocked; anything else: forwarded *)
Example ex_blocked :
  decide ex_table [[87; 87; 87]; [73; 78; 86; 65; 76; 73; 68]] true = RBlocked /\
  decide ex_table' [[119; 119; 119]; ex_invalid] true = RBlocked /\
  decide ex_table [[99; 111; 109]] true = RForward 0 /\
  decide ex_table [[99; 111; 109]] false = RNotAuth /\
  decide [] [[99; 111; 109]] true = RNoRoute.
Proof. vm_compute. repeat split. Qed.
(* the side condition is needed: the same suffix under two actions -- the first listed wins *)
Example ex_not_functional_order_matters :
  decide [([[[97]]], Forge); ([[[97]]], Forward [0])] [[97]] true = RBlocked /\
  decide [([[[97]]], Forward [0]); ([[[97]]], Forge)] [[97]] true = RForward 0.
Proof. vm_compute. split; reflexivity. Qed.

(* Property C15 -- statements only; every proof is `exact <lemma from Proofs/>`. *)
From Erbium Require Import Lib.Base Model.DnsRoute Proofs.DnsRoute.

Theorem C15_empty_suffix_matches_all_pre : forall q, ends_with q [] = true.
Proof. exact ends_with_nil. Qed.

(* The DNS forwarder's query pipeline as ONE model (Model/DnsPipeline.v: dns_step) and the theorems
   that tie the per-property results together.  Statements only; every proof is
   `exact <lemma from Proofs/DnsPipeline.v>`.

   dns_step mac c st t_ns t_ins t_s client port local tcp b u id eo = Ok (st', out, qs):
     c      configuration: ACL rules, route table, and which two buckets a source hashes to
     st     cache (+ the packets behind its abstract entries), 256 bucket timestamps, cookie keys
     t_ns   tokio clock when the cache is consulted, t_ins when the resolver's result is stored;
            t_s wall clock in seconds (limiter)
     client/port/local/tcp   the peer, the receiving address, the transport
     b      the query octets;  u  what the upstream answers if asked (over UDP / over TCP)
     id, eo values the implementation picks: upstream query id, EDNS options of the reply
     out    the reply octets, or None (unparsable query / withheld by the limiter)
     qs     the upstream queries emitted: (server, over TCP?, octets)
   The background expiry sweep of the cache is not part of a step: C06_expire_invisible shows it
   changes no observation. *)
From Erbium Require Import Lib.Base Model.DnsName Model.DnsCodec Model.DnsStrict Model.DnsForward
  Model.DnsEncodeSized Model.DnsPipeline Proofs.DnsForward Proofs.DnsPipeline.
From Erbium Require Model.Acl Model.DnsRoute Model.Bucket Model.Cookie Model.DnsCache.

(* D01 -- totality.  For ANY query octets, ANY upstream answers (octets, time-out, error), any id
   and any encodable option list: the step returns normally (no Panic, no Err) and re-establishes
   the invariant [st_ok] (cache entries consistent and backed by stored packets, 256 bucket
   timestamps in the past), so this holds along every history.  Side conditions: routes of type
   forward name a server (the loader rejects others), the limiter's two buckets per source are
   two different ones of the 256, the wall clock is u32 seconds >= capacity/rate, the peers are
   IP sockets, and an upstream message carries fewer than 65535 additional records (any message
   of at most 65535 octets does: a record takes at least 11). *)
Theorem D01_total : forall mac c st t_ns t_ins t_s client port local tcp b u id eo,
  cfg_ok c -> st_ok t_s st ->
  Bucket.window Bucket.CAP Bucket.RATE <= t_s -> t_s < pow2 32 -> is_ip client -> is_ip local ->
  bytes_ok b = true -> up_ok u -> id < 65536 -> wf_opts eo = true ->
  exists st' out qs,
    dns_step mac c st t_ns t_ins t_s client port local tcp b u id eo = Ok (st', out, qs) /\ st_ok t_s st'.
Proof. exact dns_step_total. Qed.
Check D01_total : forall mac c st t_ns t_ins t_s client port local tcp b u id eo,
  cfg_ok c -> st_ok t_s st ->
  Bucket.window Bucket.CAP Bucket.RATE <= t_s -> t_s < pow2 32 -> is_ip client -> is_ip local ->
  bytes_ok b = true -> up_ok u -> id < 65536 -> wf_opts eo = true ->
  exists st' out qs,
    dns_step mac c st t_ns t_ins t_s client port local tcp b u id eo = Ok (st', out, qs) /\ st_ok t_s st'.
Print Assumptions D01_total.

(* the invariant survives the passing of time *)
Theorem D01_invariant_monotone : forall t t' st, t <= t' -> st_ok t st -> st_ok t' st.
Proof. exact st_ok_mono. Qed.
Check D01_invariant_monotone : forall t t' st, t <= t' -> st_ok t st -> st_ok t' st.
Print Assumptions D01_invariant_monotone.

(* D02 -- the ACL.  If the first rule matching the client does not grant dns-recursion (or no rule
   matches), then whatever the query octets, the upstream and the state: NO upstream query is
   emitted, cache and store are unchanged, and the client gets either nothing (an unparsable query;
   or, over UDP only, the rate limiter withheld it) or a strictly well-formed REFUSED carrying its
   id and question and no records.  Lifts C08_dns_gate: "never forwarded upstream nor answered
   from cache". *)
Theorem D02_acl : forall mac c st t_ns t_ins t_s client port local tcp b u id eo st' out qs,
  Acl.wf_rules (c_acls c) = true -> Acl.wf_addr client = true ->
  (~ exists r, Acl.first_match (c_acls c) client r /\ Acl.permits r Acl.OpDns = true) ->
  bytes_ok b = true -> wf_opts eo = true ->
  dns_step mac c st t_ns t_ins t_s client port local tcp b u id eo = Ok (st', out, qs) ->
  qs = [] /\ s_cache st' = s_cache st /\ s_store st' = s_store st /\
  (out = None /\ (tcp = true -> forall q, decode b <> Ok q) \/
   exists bytes q r, out = Some bytes /\ decode b = Ok q /\ strict_decode bytes = Some r /\ refused_reply_for q r 5).
Proof. exact d02_acl. Qed.
Check D02_acl : forall mac c st t_ns t_ins t_s client port local tcp b u id eo st' out qs,
  Acl.wf_rules (c_acls c) = true -> Acl.wf_addr client = true ->
  (~ exists r, Acl.first_match (c_acls c) client r /\ Acl.permits r Acl.OpDns = true) ->
  bytes_ok b = true -> wf_opts eo = true ->
  dns_step mac c st t_ns t_ins t_s client port local tcp b u id eo = Ok (st', out, qs) ->
  qs = [] /\ s_cache st' = s_cache st /\ s_store st' = s_store st /\
  (out = None /\ (tcp = true -> forall q, decode b <> Ok q) \/
   exists bytes q r, out = Some bytes /\ decode b = Ok q /\ strict_decode bytes = Some r /\ refused_reply_for q r 5).
Print Assumptions D02_acl.

(* D03a -- forge-nxdomain.  A query past the ACL and the screens whose longest matching suffix belongs
   to a forge-nxdomain route (C15_actions: decide = RBlocked iff that) is answered NXDOMAIN -- always
   answered: only REFUSED is ever withheld -- with no upstream query and no change to cache, store or
   buckets. *)
Theorem D03_forge_nxdomain : forall mac c st t_ns t_ins t_s client port local tcp b u id eo st' out qs q,
  decode b = Ok q -> bytes_ok b = true -> wf_opts eo = true ->
  Acl.dns_gate (c_acls c) client = Acl.DnsPassedOn -> qtype q <> 255 -> port <> 53 ->
  DnsRoute.decide (c_routes c) (qname q) (rd q) = DnsRoute.RBlocked ->
  dns_step mac c st t_ns t_ins t_s client port local tcp b u id eo = Ok (st', out, qs) ->
  qs = [] /\ s_cache st' = s_cache st /\ s_store st' = s_store st /\ s_buckets st' = s_buckets st /\
  exists bytes r, out = Some bytes /\ strict_decode bytes = Some r /\ refused_reply_for q r 3.
Proof. exact d03_forge. Qed.
Check D03_forge_nxdomain : forall mac c st t_ns t_ins t_s client port local tcp b u id eo st' out qs q,
  decode b = Ok q -> bytes_ok b = true -> wf_opts eo = true ->
  Acl.dns_gate (c_acls c) client = Acl.DnsPassedOn -> qtype q <> 255 -> port <> 53 ->
  DnsRoute.decide (c_routes c) (qname q) (rd q) = DnsRoute.RBlocked ->
  dns_step mac c st t_ns t_ins t_s client port local tcp b u id eo = Ok (st', out, qs) ->
  qs = [] /\ s_cache st' = s_cache st /\ s_store st' = s_store st /\ s_buckets st' = s_buckets st /\
  exists bytes r, out = Some bytes /\ strict_decode bytes = Some r /\ refused_reply_for q r 3.
Print Assumptions D03_forge_nxdomain.

(* D03b -- forwarding.  Whenever a step emits upstream queries at all: the client passed the ACL, the
   query is not ANY and not from port 53, the longest matching suffix belongs to a forward route,
   RD is set, the cache had no live entry (or the class is not IN), and the queries are: ONE (over
   the client's transport class: UDP, or TCP for a TCP client), or UDP followed by TCP when the UDP
   answer had another id or TC set -- all to that route's server, all the same octets: the
   serialisation of outquery id q (C03_outquery_question: the client's question). *)
Theorem D03_forward_only : forall mac c st t_ns t_ins t_s client port local tcp b u id eo st' out qs q,
  st_ok t_s st -> decode b = Ok q ->
  dns_step mac c st t_ns t_ins t_s client port local tcp b u id eo = Ok (st', out, qs) -> qs <> [] ->
  exists srv qb,
    Acl.dns_gate (c_acls c) client = Acl.DnsPassedOn /\ qtype q <> 255 /\ port <> 53 /\
    DnsRoute.decide (c_routes c) (qname q) (rd q) = DnsRoute.RForward srv /\ rd q = true /\
    encode (outquery id q) = Ok qb /\
    qs = map (fun tr => (srv, tr, qb)) (snd (out_query tcp id u)) /\
    (qs = [(srv, true, qb)] \/ qs = [(srv, false, qb)] \/ qs = [(srv, false, qb); (srv, true, qb)]) /\
    (qclass q <> 1 \/ DnsCache.get_entry (s_cache st) (key_of q) t_ns = None).
Proof. exact d03_forward. Qed.
Check D03_forward_only : forall mac c st t_ns t_ins t_s client port local tcp b u id eo st' out qs q,
  st_ok t_s st -> decode b = Ok q ->
  dns_step mac c st t_ns t_ins t_s client port local tcp b u id eo = Ok (st', out, qs) -> qs <> [] ->
  exists srv qb,
    Acl.dns_gate (c_acls c) client = Acl.DnsPassedOn /\ qtype q <> 255 /\ port <> 53 /\
    DnsRoute.decide (c_routes c) (qname q) (rd q) = DnsRoute.RForward srv /\ rd q = true /\
    encode (outquery id q) = Ok qb /\
    qs = map (fun tr => (srv, tr, qb)) (snd (out_query tcp id u)) /\
    (qs = [(srv, true, qb)] \/ qs = [(srv, false, qb)] \/ qs = [(srv, false, qb); (srv, true, qb)]) /\
    (qclass q <> 1 \/ DnsCache.get_entry (s_cache st) (key_of q) t_ns = None).
Print Assumptions D03_forward_only.

(* D04 -- faithfulness end to end.  A reply sent for a query that reached the cache stage is within
   the transport's limit (max(advertised, 512) over UDP, 65535 over TCP) and is either a SERVFAIL
   (resolver error) or a strictly well-formed message with the client's id and question, QR set,
   the upstream's rcode, whose sections are -- record for record, in order, up to where the size
   limit cut (all of them when TC was not added) -- the records of a packet m0 with every TTL
   lowered by exactly d, where (m0, d) is EITHER what the upstream answered to this very query
   (decoded from its octets; d = 0) OR the packet stored under the identical (name, type, DO, CD)
   key, d = whole seconds since it was stored, d <= its smallest TTL <= every TTL.
   Composes C14 (decode/encode), C06 (cache), C03 (assembly), C04 (size limit). *)
Theorem D04_faithful : forall mac c st t_ns t_ins t_s client port local tcp b u id eo st' bytes qs q srv,
  st_ok t_s st -> up_ok u -> bytes_ok b = true -> wf_opts eo = true ->
  decode b = Ok q -> front c client port q = Ok (ToServer srv) ->
  dns_step mac c st t_ns t_ins t_s client port local tcp b u id eo = Ok (st', Some bytes, qs) ->
  lenN bytes <= N.max (response_size_limit tcp (bufsize q)) 512 /\
  ((exists r, strict_decode bytes = Some r /\ refused_reply_for q r 2)
   \/
   exists m0 d m' r ac nc dc t,
     relayed_from st q t_ns u qs m0 d /\
     (forall x, In x (answer m0 ++ nameserver m0 ++ additional m0) -> d <= r_ttl x) /\
     Forall2 (aged d) (answer m') (answer m0) /\ Forall2 (aged d) (nameserver m') (nameserver m0) /\
     Forall2 (aged d) (additional m') (additional m0) /\
     strict_decode bytes = Some r /\
     qid r = qid q /\ qname r = qname q /\ qtype r = qtype q /\ qclass r = qclass q /\ qr r = true /\
     rcode r mod 16 = rcode m0 mod 16 /\
     answer r = firstn (N.to_nat ac) (answer m') /\ nameserver r = firstn (N.to_nat nc) (nameserver m') /\
     additional r = firstn (N.to_nat dc) (additional m') /\
     (t = false -> answer r = answer m' /\ nameserver r = nameserver m' /\ additional r = additional m' /\
                   rcode r = rcode m0)).
Proof. exact d04_faithful. Qed.
Check D04_faithful : forall mac c st t_ns t_ins t_s client port local tcp b u id eo st' bytes qs q srv,
  st_ok t_s st -> up_ok u -> bytes_ok b = true -> wf_opts eo = true ->
  decode b = Ok q -> front c client port q = Ok (ToServer srv) ->
  dns_step mac c st t_ns t_ins t_s client port local tcp b u id eo = Ok (st', Some bytes, qs) ->
  lenN bytes <= N.max (response_size_limit tcp (bufsize q)) 512 /\
  ((exists r, strict_decode bytes = Some r /\ refused_reply_for q r 2)
   \/
   exists m0 d m' r ac nc dc t,
     relayed_from st q t_ns u qs m0 d /\
     (forall x, In x (answer m0 ++ nameserver m0 ++ additional m0) -> d <= r_ttl x) /\
     Forall2 (aged d) (answer m') (answer m0) /\ Forall2 (aged d) (nameserver m') (nameserver m0) /\
     Forall2 (aged d) (additional m') (additional m0) /\
     strict_decode bytes = Some r /\
     qid r = qid q /\ qname r = qname q /\ qtype r = qtype q /\ qclass r = qclass q /\ qr r = true /\
     rcode r mod 16 = rcode m0 mod 16 /\
     answer r = firstn (N.to_nat ac) (answer m') /\ nameserver r = firstn (N.to_nat nc) (nameserver m') /\
     additional r = firstn (N.to_nat dc) (additional m') /\
     (t = false -> answer r = answer m' /\ nameserver r = nameserver m' /\ additional r = additional m' /\
                   rcode r = rcode m0)).
Print Assumptions D04_faithful.

(* D05 -- cache.  A query that reaches the cache stage is answered EITHER from the cache: no upstream
   query, cache and store untouched, class IN, an entry under the identical key, not past its
   lifetime, lifetime = smallest TTL, served TTLs = stored - whole seconds elapsed ([is_hit]) -- OR
   from the upstream's answer to the query sent for it, and that only when the cache had no live
   entry for the key (or the class is not IN). *)
Theorem D05_hit_or_fetch : forall mac c st t_ns t_ins t_s client port local tcp b u id eo st' out qs q srv,
  st_ok t_s st -> decode b = Ok q -> front c client port q = Ok (ToServer srv) ->
  dns_step mac c st t_ns t_ins t_s client port local tcp b u id eo = Ok (st', out, qs) ->
  exists r bytes,
    wire_bytes q tcp (reply_of q r eo) = Ok bytes /\ (out = None \/ out = Some bytes) /\
    ((qs = [] /\ s_cache st' = s_cache st /\ s_store st' = s_store st /\ is_hit st q t_ns r)
     \/
     (qs <> [] /\ r = fst (out_query tcp id u) /\
      (qclass q <> 1 \/ DnsCache.get_entry (s_cache st) (key_of q) t_ns = None))).
Proof. exact served_step. Qed.
Check D05_hit_or_fetch : forall mac c st t_ns t_ins t_s client port local tcp b u id eo st' out qs q srv,
  st_ok t_s st -> decode b = Ok q -> front c client port q = Ok (ToServer srv) ->
  dns_step mac c st t_ns t_ins t_s client port local tcp b u id eo = Ok (st', out, qs) ->
  exists r bytes,
    wire_bytes q tcp (reply_of q r eo) = Ok bytes /\ (out = None \/ out = Some bytes) /\
    ((qs = [] /\ s_cache st' = s_cache st /\ s_store st' = s_store st /\ is_hit st q t_ns r)
     \/
     (qs <> [] /\ r = fst (out_query tcp id u) /\
      (qclass q <> 1 \/ DnsCache.get_entry (s_cache st) (key_of q) t_ns = None))).
Print Assumptions D05_hit_or_fetch.

(* D06 -- REFUSED volume per source, at the level of the whole pipeline.  Over ANY history of steps
   (any clients, transports, queries, upstream behaviour) whose wall-clock times are non-decreasing
   within [t1,t2]: the tokens charged to one source address a for rate-limitable replies that were
   actually SENT to it -- REFUSED, over UDP, to a query without a valid server cookie
   ([limited_class]) -- are at most 2*CAP + 2*RATE*(t2-t1), whoever else hashes into its two
   buckets.  Lifts C16_source_bound (same potential argument, now on the 256-bucket state inside
   dns_step).  [run_tokens] / [run_octets] sum [step_tokens] / [step_octets] along the run. *)
Theorem D06_refused_tokens_bounded : forall mac c a xs st t1 t2,
  cfg_ok c -> buckets_ok t1 st -> Bucket.window Bucket.CAP Bucket.RATE <= t1 -> t2 < pow2 32 -> xs_sorted t1 t2 xs ->
  run_tokens mac c st xs a <= 2 * Bucket.CAP + 2 * (Bucket.RATE * (t2 - t1)).
Proof. exact d06_tokens. Qed.
Check D06_refused_tokens_bounded : forall mac c a xs st t1 t2,
  cfg_ok c -> buckets_ok t1 st -> Bucket.window Bucket.CAP Bucket.RATE <= t1 -> t2 < pow2 32 -> xs_sorted t1 t2 xs ->
  run_tokens mac c st xs a <= 2 * Bucket.CAP + 2 * (Bucket.RATE * (t2 - t1)).
Print Assumptions D06_refused_tokens_bounded.

(* the same bound for the OCTETS of those replies when each is covered by its charge, which holds
   (D06_covered) for replies of at most 200 octets or not shorter than their query *)
Theorem D06_refused_octets_bounded : forall mac c a xs st t1 t2,
  cfg_ok c -> buckets_ok t1 st -> Bucket.window Bucket.CAP Bucket.RATE <= t1 -> t2 < pow2 32 -> xs_sorted t1 t2 xs ->
  run_covered mac c st xs a ->
  run_octets mac c st xs a <= 2 * Bucket.CAP + 2 * (Bucket.RATE * (t2 - t1)).
Proof. exact d06_octets. Qed.
Check D06_refused_octets_bounded : forall mac c a xs st t1 t2,
  cfg_ok c -> buckets_ok t1 st -> Bucket.window Bucket.CAP Bucket.RATE <= t1 -> t2 < pow2 32 -> xs_sorted t1 t2 xs ->
  run_covered mac c st xs a ->
  run_octets mac c st xs a <= 2 * Bucket.CAP + 2 * (Bucket.RATE * (t2 - t1)).
Print Assumptions D06_refused_octets_bounded.

Theorem D06_covered : forall mac c st x a st' bytes qs,
  step mac c st x = Ok (st', Some bytes, qs) ->
  (lenN bytes <= Bucket.MIN_COST \/ lenN (x_b x) <= lenN bytes) -> lenN bytes < 2147483648 ->
  step_octets mac c st x a <= step_tokens mac c st x a.
Proof. exact covered_step. Qed.
Check D06_covered : forall mac c st x a st' bytes qs,
  step mac c st x = Ok (st', Some bytes, qs) ->
  (lenN bytes <= Bucket.MIN_COST \/ lenN (x_b x) <= lenN bytes) -> lenN bytes < 2147483648 ->
  step_octets mac c st x a <= step_tokens mac c st x a.
Print Assumptions D06_covered.

(* D04 over histories.  [reach mac c st0 xs = Some st]: the history xs of steps leads from st0 to st.
   From a state with an empty store, every packet the cache stage can relay "from the cache" (the m0 of
   D04_faithful's second case: the packet stored under the query's key) is what the upstream answered
   -- decoded from its octets, accepted by the resolver -- to an EARLIER query of the history with the
   identical (name, type, DO, CD) key and class IN ([fetched_in]).  Together with D04_faithful: a
   client only ever sees records an upstream sent for that very question, aged by whole seconds. *)
Theorem D04_history : forall mac c st0 xs st k m,
  s_store st0 = [] -> reach mac c st0 xs = Some st ->
  store_lookup k (s_store st) = Some m -> exists x, In x xs /\ fetched_in x k m.
Proof. exact store_provenance. Qed.
Check D04_history : forall mac c st0 xs st k m,
  s_store st0 = [] -> reach mac c st0 xs = Some st ->
  store_lookup k (s_store st) = Some m -> exists x, In x xs /\ fetched_in x k m.
Print Assumptions D04_history.

(* D07 -- over TCP nothing is ever dropped on purpose (the REFUSED limiter applies to UDP only): every
   query that decodes gets a reply.  (C07's "every well-formed query from a permitted client receives
   exactly one response", for the transport on which the model has no latitude; predicate 7 of the D01
   check evaluates it on what the implementation did.) *)
Theorem D07_tcp_always_answered : forall mac c st t_ns t_ins t_s client port local b u id eo st' out qs q,
  decode b = Ok q ->
  dns_step mac c st t_ns t_ins t_s client port local true b u id eo = Ok (st', out, qs) ->
  exists bytes, out = Some bytes.
Proof. exact tcp_always_answered. Qed.
Check D07_tcp_always_answered : forall mac c st t_ns t_ins t_s client port local b u id eo st' out qs q,
  decode b = Ok q ->
  dns_step mac c st t_ns t_ins t_s client port local true b u id eo = Ok (st', out, qs) ->
  exists bytes, out = Some bytes.
Print Assumptions D07_tcp_always_answered.

(* Property C03 -- statements only; every proof is `exact <lemma from Proofs/>`. *)
From Erbium Require Import Lib.Base Model.DnsName Model.DnsCodec Model.DnsStrict Model.DnsForward Proofs.DnsForward Proofs.DnsForwardWire.

(* The reply assembled for query q from the upstream reply up (after it spent
   [age] seconds in the cache): the client's id and question, marked as a
   response, the upstream rcode, and in each section exactly the upstream
   records in order, every TTL reduced by exactly [age]. *)
Theorem C03_reply_sections : forall q up age eo, age <= min_ttl up ->
  exists up', age_ttls age up = Ok up' /\
    let r := in_reply q up' eo in
    qid r = qid q /\ qname r = qname q /\ qtype r = qtype q /\ qclass r = qclass q /\ qr r = true /\
    rcode r = rcode up /\
    Forall2 (aged age) (answer r) (answer up) /\ Forall2 (aged age) (nameserver r) (nameserver up) /\
    Forall2 (aged age) (additional r) (additional up).
Proof. exact reply_sections_aged. Qed.
Check C03_reply_sections : forall q up age eo, age <= min_ttl up ->
  exists up', age_ttls age up = Ok up' /\
    let r := in_reply q up' eo in
    qid r = qid q /\ qname r = qname q /\ qtype r = qtype q /\ qclass r = qclass q /\ qr r = true /\
    rcode r = rcode up /\
    Forall2 (aged age) (answer r) (answer up) /\ Forall2 (aged age) (nameserver r) (nameserver up) /\
    Forall2 (aged age) (additional r) (additional up).
Print Assumptions C03_reply_sections.

Theorem C03_outquery_question : forall id q,
  let o := outquery id q in
  qid o = id /\ qname o = qname q /\ qtype o = qtype q /\ qclass o = qclass q /\ qr o = false /\
  answer o = [] /\ nameserver o = [] /\ additional o = [].
Proof. exact outquery_question. Qed.
Check C03_outquery_question : forall id q,
  let o := outquery id q in
  qid o = id /\ qname o = qname q /\ qtype o = qtype q /\ qclass o = qclass q /\ qr o = false /\
  answer o = [] /\ nameserver o = [] /\ additional o = [].
Print Assumptions C03_outquery_question.

(* the hypothesis is satisfiable: age 0 always is *)
Example C03_age_zero_ok : forall up, 0 <= min_ttl up.
Proof. intros. apply N.le_0_l. Qed.

(* On the wire: the reply assembled for a well-formed query q from a well-formed
   upstream reply up (any option list eo that add_edns produced), serialised under
   any limit without dropping a record, is accepted by the strict decoder of the
   specification side, and what it reads is the client's id and question, QR set,
   the upstream's (12-bit) rcode and exactly the upstream's answer, authority and
   additional sections.  (When the limit forces records out, C04_sized_wellformed
   says which: whole records from the end, TC set.)  Composes C14 and C04. *)
Theorem C03_on_the_wire : forall q up eo size e,
  wf_pkt q = true -> wf_pkt up = true -> wf_opts eo = true -> lenN (additional up) < 65535 ->
  encode_sized_t (in_reply q up eo) size = Ok (e, false) ->
  exists r, strict_decode e = Some r /\
    qid r = qid q /\ qname r = qname q /\ qtype r = qtype q /\ qclass r = qclass q /\ qr r = true /\
    rcode r = rcode up /\ answer r = answer up /\ nameserver r = nameserver up /\ additional r = additional up.
Proof. exact reply_on_the_wire. Qed.
Check C03_on_the_wire : forall q up eo size e,
  wf_pkt q = true -> wf_pkt up = true -> wf_opts eo = true -> lenN (additional up) < 65535 ->
  encode_sized_t (in_reply q up eo) size = Ok (e, false) ->
  exists r, strict_decode e = Some r /\
    qid r = qid q /\ qname r = qname q /\ qtype r = qtype q /\ qclass r = qclass q /\ qr r = true /\
    rcode r = rcode up /\ answer r = answer up /\ nameserver r = nameserver up /\ additional r = additional up.
Print Assumptions C03_on_the_wire.

(* Property C03 -- statements only; every proof is `exact <lemma from Proofs/>`. *)
From Erbium Require Import Lib.Base Model.DnsName Model.DnsCodec Model.DnsForward Proofs.DnsForward.

(* The reply assembled for query q from the upstream reply up (after it spent
   [age] seconds in the cache): the client's id and question, marked as a
   response, the upstream rcode, and in each section exactly the upstream
   records in order, every TTL reduced by exactly [age]. *)
Theorem C03_reply_sections : forall q up age eo, age <= min_ttl up ->
  exists up', age_ttls age up = Ok up' /\
    let r := in_reply q up' eo in
    qid r = qid q /\ qname r = qname q /\ qtype r = qtype q /\ qclass r = qclass q /\ qr r = true /\
    rcode r = rcode up /\
    Forall2 (aged age) (answer r) (answer up) /\ Forall2 (aged age) (nameserver r) (nameserver up) /\
    Forall2 (aged age) (additional r) (additional up).
Proof. exact reply_sections_aged. Qed.
Check C03_reply_sections : forall q up age eo, age <= min_ttl up ->
  exists up', age_ttls age up = Ok up' /\
    let r := in_reply q up' eo in
    qid r = qid q /\ qname r = qname q /\ qtype r = qtype q /\ qclass r = qclass q /\ qr r = true /\
    rcode r = rcode up /\
    Forall2 (aged age) (answer r) (answer up) /\ Forall2 (aged age) (nameserver r) (nameserver up) /\
    Forall2 (aged age) (additional r) (additional up).
Print Assumptions C03_reply_sections.

Theorem C03_outquery_question : forall id q,
  let o := outquery id q in
  qid o = id /\ qname o = qname q /\ qtype o = qtype q /\ qclass o = qclass q /\ qr o = false /\
  answer o = [] /\ nameserver o = [] /\ additional o = [].
Proof. exact outquery_question. Qed.
Check C03_outquery_question : forall id q,
  let o := outquery id q in
  qid o = id /\ qname o = qname q /\ qtype o = qtype q /\ qclass o = qclass q /\ qr o = false /\
  answer o = [] /\ nameserver o = [] /\ additional o = [].
Print Assumptions C03_outquery_question.

(* the hypothesis is satisfiable: age 0 always is *)
Example C03_age_zero_ok : forall up, 0 <= min_ttl up.
Proof. intros. apply N.le_0_l. Qed.

(* Property C05 -- statements only. *)
From Erbium Require Import Lib.Base Model.DhcpCodec Model.Service Proofs.DhcpCodec Proofs.Service.

(* the DHCP packet decoder returns a message or an error on EVERY byte string *)
Theorem C05_dhcp_decode_total : forall b : list N, is_panic (decode b) = false.
Proof. exact decode_total. Qed.
Check C05_dhcp_decode_total : forall b : list N, is_panic (decode b) = false.
Print Assumptions C05_dhcp_decode_total.

(* termination is real, not an artefact of the fuel: any two sufficient fuels agree *)
Theorem C05_dhcp_options_fuel_irrelevant : forall f1 f2 l acc,
  (length l < f1)%nat -> (length l < f2)%nat -> parse_options f1 l acc = parse_options f2 l acc.
Proof. exact parse_options_fuel_irrelevant. Qed.
Check C05_dhcp_options_fuel_irrelevant : forall f1 f2 l acc,
  (length l < f1)%nat -> (length l < f2)%nat -> parse_options f1 l acc = parse_options f2 l acc.
Print Assumptions C05_dhcp_options_fuel_irrelevant.

(* "After any such input the service still answers the next well-formed
   request": a handler that never panics keeps an inline (non-spawned) service
   alive through any input sequence, and the next request reaches the handler. *)
Theorem C05_total_handler_keeps_service_alive :
  forall (St Rep : Type) (handle : St -> list N -> outcome (St * option Rep)),
  (forall st b, is_panic (handle st b) = false) ->
  forall st bs v, exists st',
    run_inline St Rep handle st bs = Some st' /\
    step_inline St Rep handle (run_inline St Rep handle st bs) v =
    match handle st' v with Ok (s', _) => Some s' | _ => Some st' end.
Proof. exact inline_still_answers. Qed.
Check C05_total_handler_keeps_service_alive :
  forall (St Rep : Type) (handle : St -> list N -> outcome (St * option Rep)),
  (forall st b, is_panic (handle st b) = false) ->
  forall st bs v, exists st',
    run_inline St Rep handle st bs = Some st' /\
    step_inline St Rep handle (run_inline St Rep handle st bs) v =
    match handle st' v with Ok (s', _) => Some s' | _ => Some st' end.
Print Assumptions C05_total_handler_keeps_service_alive.

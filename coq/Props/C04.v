(* Property C04 -- statements only; every proof is `exact <lemma from Proofs/>`. *)
From Erbium Require Import Lib.Base Model.DnsName Model.DnsCodec Model.DnsEncodeSized Proofs.DnsCodec.

(* "512 octets if it advertised none": the size a decoded query advertises is never below 512 *)
Theorem C04_advertised_floor : forall b q, decode b = Ok q -> 512 <= bufsize q.
Proof. exact decode_bufsize_floor. Qed.
Check C04_advertised_floor : forall b q, decode b = Ok q -> 512 <= bufsize q.
Print Assumptions C04_advertised_floor.

(* Property C04 -- statements only; every proof is `exact <lemma from Proofs/>`. *)
From Erbium Require Import Lib.Base Model.DnsName Model.DnsCodec Model.DnsStrict Model.DnsEncodeSized Proofs.DnsCodec Proofs.DnsStrictProofs.

(* C04 at the byte level, full strength.  For every well-formed reply m and every
   limit (>= 512; smaller limits assert), the octets e produced by the size-limited
   serialiser (t = "a record was dropped") are never longer than the limit and are
   a strictly well-formed DNS message: the specification-side decoder
   [strict_decode] (Model/DnsStrict.v: QDCOUNT 1, header counts = records present,
   no trailing octets, RDLENGTH exact, every compression pointer backwards and
   below 0x4000, at most one root-owned OPT) accepts e and returns
   [sized_result m ac nc dc t] (Proofs/DnsStrictProofs.v): m's id, flags, opcode,
   question; TC = tc m || t; the first ac answers, nc authority records and dc
   additional records (OPT pseudo-record last) and nothing else.  Records are
   dropped whole and from the end only (a shortened section is followed by empty
   ones); t = false means all records are present, and t = true means at least one
   record really was dropped: TC is set by the serialiser only then. *)
Theorem C04_sized_wellformed : forall m size e t,
  wf_pkt m = true -> encode_sized_t m size = Ok (e, t) ->
  lenN e <= size /\
  exists ac nc dc,
    strict_decode e = Some (sized_result m ac nc dc t) /\
    let adds := additional m ++ opt_rr m in
    (N.to_nat ac <= length (answer m))%nat /\ (N.to_nat nc <= length (nameserver m))%nat /\
    (N.to_nat dc <= length adds)%nat /\
    (t = false -> N.to_nat ac = length (answer m) /\ N.to_nat nc = length (nameserver m) /\
                  N.to_nat dc = length adds) /\
    (t = true -> (N.to_nat ac < length (answer m))%nat \/ (N.to_nat nc < length (nameserver m))%nat \/
                 (N.to_nat dc < length adds)%nat) /\
    ((N.to_nat ac < length (answer m))%nat -> nc = 0 /\ dc = 0) /\
    ((N.to_nat nc < length (nameserver m))%nat -> dc = 0).
Proof. exact sized_wellformed. Qed.
Check C04_sized_wellformed : forall m size e t,
  wf_pkt m = true -> encode_sized_t m size = Ok (e, t) ->
  lenN e <= size /\
  exists ac nc dc,
    strict_decode e = Some (sized_result m ac nc dc t) /\
    let adds := additional m ++ opt_rr m in
    (N.to_nat ac <= length (answer m))%nat /\ (N.to_nat nc <= length (nameserver m))%nat /\
    (N.to_nat dc <= length adds)%nat /\
    (t = false -> N.to_nat ac = length (answer m) /\ N.to_nat nc = length (nameserver m) /\
                  N.to_nat dc = length adds) /\
    (t = true -> (N.to_nat ac < length (answer m))%nat \/ (N.to_nat nc < length (nameserver m))%nat \/
                 (N.to_nat dc < length adds)%nat) /\
    ((N.to_nat ac < length (answer m))%nat -> nc = 0 /\ dc = 0) /\
    ((N.to_nat nc < length (nameserver m))%nat -> dc = 0).
Print Assumptions C04_sized_wellformed.

(* The abstract half (kept): octets = header ++ question ++ unlimited encoding of the kept records. *)
(* The size-limited serialiser (any message whose question name is a legal
   name; any limit >= 512, smaller limits assert): the result is never longer
   than the limit, and it consists of the header carrying the counts of the
   records actually written, the question, and exactly the unlimited encoding
   ([enc_rrs], Proofs/DnsCodec.v) of the records kept: the first ac answers,
   then the first nc authority records, then the first dc additional records
   (OPT pseudo-record last).  Whole records only; once a record is dropped no
   later record is written; when the internal flag t is false nothing was
   dropped, and the TC bit on the wire is [tc m || t] (flag1).
   The byte-level statement (strict_decode) is C04_sized_wellformed above. *)
Theorem C04_sized_shape : forall m size e,
  wf_name (qname m) = true -> encode_sized m size = Ok e ->
  lenN e <= size /\
  exists qb k0 recs k ac nc dc t,
    push_name 12 [] (qname m) = Ok (qb, k0) /\
    let qbytes := qb ++ be16 (qtype m) ++ be16 (qclass m) in
    let adds := additional m ++ opt_rr m in
    e = be16 (qid m) ++ [flag1 m t; flag2 m] ++ be16 1 ++ be16 ac ++ be16 nc ++ be16 dc ++ qbytes ++ recs /\
    enc_rrs (12 + lenN qbytes) k0
      (firstn (N.to_nat ac) (answer m) ++ firstn (N.to_nat nc) (nameserver m) ++ firstn (N.to_nat dc) adds)
      = Ok (recs, k) /\
    (N.to_nat ac <= length (answer m))%nat /\ (N.to_nat nc <= length (nameserver m))%nat /\
    (N.to_nat dc <= length adds)%nat /\
    (t = false -> N.to_nat ac = length (answer m) /\ N.to_nat nc = length (nameserver m) /\
                  N.to_nat dc = length adds) /\
    ((N.to_nat ac < length (answer m))%nat -> nc = 0 /\ dc = 0) /\
    ((N.to_nat nc < length (nameserver m))%nat -> dc = 0).
Proof. exact sized_wellformed_partial. Qed.
Check C04_sized_shape : forall m size e,
  wf_name (qname m) = true -> encode_sized m size = Ok e ->
  lenN e <= size /\
  exists qb k0 recs k ac nc dc t,
    push_name 12 [] (qname m) = Ok (qb, k0) /\
    let qbytes := qb ++ be16 (qtype m) ++ be16 (qclass m) in
    let adds := additional m ++ opt_rr m in
    e = be16 (qid m) ++ [flag1 m t; flag2 m] ++ be16 1 ++ be16 ac ++ be16 nc ++ be16 dc ++ qbytes ++ recs /\
    enc_rrs (12 + lenN qbytes) k0
      (firstn (N.to_nat ac) (answer m) ++ firstn (N.to_nat nc) (nameserver m) ++ firstn (N.to_nat dc) adds)
      = Ok (recs, k) /\
    (N.to_nat ac <= length (answer m))%nat /\ (N.to_nat nc <= length (nameserver m))%nat /\
    (N.to_nat dc <= length adds)%nat /\
    (t = false -> N.to_nat ac = length (answer m) /\ N.to_nat nc = length (nameserver m) /\
                  N.to_nat dc = length adds) /\
    ((N.to_nat ac < length (answer m))%nat -> nc = 0 /\ dc = 0) /\
    ((N.to_nat nc < length (nameserver m))%nat -> dc = 0).
Print Assumptions C04_sized_shape.

(* Truncation is maximal: a section stops only at a record that does not fit
   (the record at index c exists, and written after the kept ones it would
   end beyond the limit); with t = false the whole section was written. *)
Theorem C04_truncation_maximal : forall size rs pos kids bs k c t,
  push_rrs size pos kids rs = Ok (bs, k, c, t) ->
  (N.to_nat c <= length rs)%nat /\
  (exists k', enc_rrs pos kids (firstn (N.to_nat c) rs) = Ok (bs, k') /\ (t = false -> k' = k)) /\
  (t = false -> N.to_nat c = length rs) /\
  (t = true -> exists r b k', nth_error rs (N.to_nat c) = Some r /\
                 (exists kk, enc_rrs pos kids (firstn (N.to_nat c) rs) = Ok (bs, kk) /\
                             push_rr (pos + lenN bs) kk r = Ok (b, k')) /\
                 size < pos + lenN bs + lenN b).
Proof. exact push_rrs_prefix. Qed.
Check C04_truncation_maximal : forall size rs pos kids bs k c t,
  push_rrs size pos kids rs = Ok (bs, k, c, t) ->
  (N.to_nat c <= length rs)%nat /\
  (exists k', enc_rrs pos kids (firstn (N.to_nat c) rs) = Ok (bs, k') /\ (t = false -> k' = k)) /\
  (t = false -> N.to_nat c = length rs) /\
  (t = true -> exists r b k', nth_error rs (N.to_nat c) = Some r /\
                 (exists kk, enc_rrs pos kids (firstn (N.to_nat c) rs) = Ok (bs, kk) /\
                             push_rr (pos + lenN bs) kk r = Ok (b, k')) /\
                 size < pos + lenN bs + lenN b).
Print Assumptions C04_truncation_maximal.

(* UDP: never larger than what the client advertised, 512 if it advertised less or nothing *)
Theorem C04_udp_limit : forall q r e,
  wf_name (qname r) = true -> udp_bytes q r = Ok e -> lenN e <= N.max 512 (bufsize q).
Proof. exact udp_limit. Qed.
Check C04_udp_limit : forall q r e,
  wf_name (qname r) = true -> udp_bytes q r = Ok e -> lenN e <= N.max 512 (bufsize q).
Print Assumptions C04_udp_limit.

(* TCP: whenever an encoding under ANY limit of at least 65535 (in particular
   the complete, unlimited one) fits in 65535 octets, exactly that encoding is
   what is sent: nothing more is dropped and TC is not set additionally. *)
Theorem C04_tcp_complete : forall q r size e,
  65535 <= size -> encode_sized r size = Ok e -> lenN e <= 65535 -> tcp_bytes q r = Ok e.
Proof. exact tcp_complete. Qed.
Check C04_tcp_complete : forall q r size e,
  65535 <= size -> encode_sized r size = Ok e -> lenN e <= 65535 -> tcp_bytes q r = Ok e.
Print Assumptions C04_tcp_complete.

(* "512 octets if it advertised none": the size a decoded query advertises is never below 512 *)
Theorem C04_advertised_floor : forall b q, decode b = Ok q -> 512 <= bufsize q.
Proof. exact decode_bufsize_floor. Qed.
Check C04_advertised_floor : forall b q, decode b = Ok q -> 512 <= bufsize q.
Print Assumptions C04_advertised_floor.

(* hypotheses are satisfiable: a concrete reply that is truncated at 512 *)
Example C04_example_truncated :
  let r := {| r_name := [[97]]; r_class := 1; r_type := 16; r_ttl := 60; r_data := ROther (repeat 7 300) |} in
  let m := {| qid := 1; rd := false; tc := false; aa := false; qr := true; opcode := 0; cd := false; ad := false;
              ra := true; rcode := 0; bufsize := 512; edns_ver := None; edns_do := false;
              qname := [[97]]; qtype := 16; qclass := 1; answer := [r; r]; nameserver := []; additional := [];
              edns := None |} in
  match encode_sized m 512 with Ok e => (lenN e <=? 512) && opt_eqb N.eqb (nthN e 2) (Some 130) && opt_eqb N.eqb (nthN e 7) (Some 1) | _ => false end = true.
Proof. vm_compute. reflexivity. Qed.

(* Property C19 -- statements only; every proof is `exact <lemma from Proofs/>`.
   The model (Model/ConfigAst.v) covers the parts of the loader and of the
   serving code where the arithmetic, the indexing and the `unwrap`s live; its
   header lists the functions.  `str::parse::<IpAddr>` / `<Ipv4Addr>` are
   universally quantified ([ipp], [ip4p]). *)
From Erbium Require Import Lib.Base Model.ConfigAst Model.ConfigLoad Proofs.ConfigAst Proofs.ConfigLoad.
From Coq Require Import String.

(* ---- "the loader returns either a configuration or a descriptive error; it
        never panics or overflows" ------------------------------------------- *)

(* config.rs type_to_name (after F29): every AST, including empty and nested arrays *)
Theorem C19_type_to_name_total : forall (y : yaml) (k : panic_kind), type_to_name y <> Panic k.
Proof. exact type_to_name_total. Qed.
Check C19_type_to_name_total : forall (y : yaml) (k : panic_kind), type_to_name y <> Panic k.
Print Assumptions C19_type_to_name_total.

(* the code as found does panic: `captive-portal: []` *)
Theorem C19_type_to_name_orig_refuted : exists y : yaml, type_to_name_orig y = Panic IndexOOB.
Proof. exact type_to_name_orig_refuted. Qed.
Check C19_type_to_name_orig_refuted : exists y : yaml, type_to_name_orig y = Panic IndexOOB.
Print Assumptions C19_type_to_name_orig_refuted.

(* config.rs str_duration (after F30), for every string of Unicode scalar values *)
Theorem C19_duration_total : forall (s : list N) (k : panic_kind), str_duration s <> Panic k.
Proof. exact str_duration_total. Qed.
Check C19_duration_total : forall (s : list N) (k : panic_kind), str_duration s <> Panic k.
Print Assumptions C19_duration_total.

(* ... and an accepted duration is a number of seconds that fits u64 *)
Theorem C19_duration_range : forall (s : list N) (d : N), str_duration s = Ok d -> d <= 18446744073709551615.
Proof. exact str_duration_range. Qed.
Check C19_duration_range : forall (s : list N) (d : N), str_duration s = Ok d -> d <= 18446744073709551615.
Print Assumptions C19_duration_range.

(* ... and it is the manual's reading of the string (sum of number * unit), computed without bounds *)
Theorem C19_duration_value : forall (s : list N) (d : N), str_duration s = Ok d -> dur_value s None 0 = Some d.
Proof. exact str_duration_value. Qed.
Check C19_duration_value : forall (s : list N) (d : N), str_duration s = Ok d -> dur_value s None 0 = Some d.
Print Assumptions C19_duration_value.

Example C19_duration_nonvacuous :
  str_duration [49;119;50;100;51;104;52;109;53;115] = Ok 788645 (* "1w2d3h4m5s" *)
  /\ str_duration [115] = Err E_durnonum /\ str_duration [] = Ok 0.
Proof. vm_compute. repeat split. Qed.

(* the code as found: "s" unwraps None, a 20 digit number overflows *)
Theorem C19_duration_orig_refuted :
  str_duration_orig [115] = Panic UnwrapNone /\
  str_duration_orig [49;56;52;52;54;55;52;52;48;55;51;55;48;57;53;53;49;54;49;54] = Panic Overflow.
Proof. exact str_duration_orig_refuted. Qed.
Check C19_duration_orig_refuted :
  str_duration_orig [115] = Panic UnwrapNone /\
  str_duration_orig [49;56;52;52;54;55;52;52;48;55;51;55;48;57;53;53;49;54;49;54] = Panic Overflow.
Print Assumptions C19_duration_orig_refuted.

(* config.rs str_prefix / str_prefix4 / str_prefix6 (after F36): total, and an
   accepted prefix has a length its family can have *)
Theorem C19_prefix_len_checked : forall (ipp : list N -> option ip) (want : N) (s : list N) (p : ipprefix),
  str_prefix ipp want s = Ok p ->
  (p_fam p = 4 /\ p_len p <= 32 /\ want <> 6) \/ (p_fam p = 6 /\ p_len p <= 128 /\ want <> 4).
Proof. exact str_prefix_len. Qed.
Check C19_prefix_len_checked : forall (ipp : list N -> option ip) (want : N) (s : list N) (p : ipprefix),
  str_prefix ipp want s = Ok p ->
  (p_fam p = 4 /\ p_len p <= 32 /\ want <> 6) \/ (p_fam p = 6 /\ p_len p <= 128 /\ want <> 4).
Print Assumptions C19_prefix_len_checked.

Theorem C19_prefix_total : forall (ipp : list N -> option ip) (want : N) (s : list N) (k : panic_kind),
  str_prefix ipp want s <> Panic k.
Proof. exact str_prefix_total. Qed.
Check C19_prefix_total : forall (ipp : list N -> option ip) (want : N) (s : list N) (k : panic_kind),
  str_prefix ipp want s <> Panic k.
Print Assumptions C19_prefix_total.

Example C19_prefix_nonvacuous :
  let ipp := fun s : list N => if list_eqb N.eqb s [49;46;50;46;51;46;48] then Some (V4 16909056) else None in
  str_prefix ipp 0 [49;46;50;46;51;46;48;47;50;52] = Ok {| p_fam := 4; p_addr := 16909056; p_len := 24 |}   (* "1.2.3.0/24" *)
  /\ str_prefix ipp 0 [49;46;50;46;51;46;48;47;51;51] = Err E_len.                                             (* "1.2.3.0/33" *)
Proof. vm_compute. split; reflexivity. Qed.

(* dhcp/config.rs apply-subnet (parse_subnet, Ipv4Subnet::new, the expansion
   `1 << (32 - len)` ... `- 2`; after F31): total for every AST value *)
Theorem C19_subnet_range_total : forall (ip4p : list N -> option N) (y : yaml) (k : panic_kind),
  apply_subnet ip4p y <> Panic k.
Proof. exact apply_subnet_total. Qed.
Check C19_subnet_range_total : forall (ip4p : list N -> option N) (y : yaml) (k : panic_kind),
  apply_subnet ip4p y <> Panic k.
Print Assumptions C19_subnet_range_total.

(* the expansion itself, for every accepted length and every base address
   with clear host bits: no overflow in the shift, the subtraction or the
   additions *)
Theorem C19_subnet_expansion_total : forall base len : N,
  len <= 32 -> base <= mask4 len -> forall k : panic_kind, apply_subnet_range base len <> Panic k.
Proof. exact apply_subnet_range_total. Qed.
Check C19_subnet_expansion_total : forall base len : N,
  len <= 32 -> base <= mask4 len -> forall k : panic_kind, apply_subnet_range base len <> Panic k.
Print Assumptions C19_subnet_expansion_total.

Example C19_subnet_nonvacuous :
  apply_subnet_range 3221225984 24 = Ok (Some (3221225985, 3221226238))      (* 192.0.2.0/24: .1 .. .254 *)
  /\ apply_subnet_range 3221225984 32 = Ok None /\ apply_subnet_range 3221225984 31 = Ok None
  /\ apply_subnet_range 0 0 = Err E_toolarge.
Proof. vm_compute. repeat split. Qed.

(* every modelled fragment parser together (addresses, acls, dns-routes,
   pref64, prefixes entries, apply-subnet, match-subnet, route prefixes) *)
Theorem C19_fragments_total : forall (ipp : list N -> option ip) (ip4p : list N -> option N)
  (f : fragments) (k : panic_kind), load_fragments ipp ip4p f <> Panic k.
Proof. exact load_fragments_total. Qed.
Check C19_fragments_total : forall (ipp : list N -> option ip) (ip4p : list N -> option N)
  (f : fragments) (k : panic_kind), load_fragments ipp ip4p f <> Panic k.
Print Assumptions C19_fragments_total.
(* (the fragment parsers alone; the whole loader is C19_loader_total below) *)

(* ---- "a configuration the loader accepts never makes a request handler
        panic, overflow ..." ------------------------------------------------ *)
Theorem C19_accepted_is_safe : forall (ipp : list N -> option ip) (ip4p : list N -> option N)
  (f : fragments) (c : cfg), load_fragments ipp ip4p f = Ok c -> cfg_safe c = true.
Proof. exact load_fragments_safe. Qed.
Check C19_accepted_is_safe : forall (ipp : list N -> option ip) (ip4p : list N -> option N)
  (f : fragments) (c : cfg), load_fragments ipp ip4p f = Ok c -> cfg_safe c = true.
Print Assumptions C19_accepted_is_safe.

(* the serving arithmetic on a safe configuration: the default pool of every
   IPv4 prefix of `addresses` (dhcp/mod.rs build_default_config, after F34),
   every ACL and address prefix against every client (Prefix6::contains(v4):
   `prefixlen - 96`, the Prefix4::new assert), the PREF64 length code
   `(len - 32) / 8`, `dest[0]` of every forward route *)
Theorem C19_safe_serving_never_panics : forall (c : cfg) (clients : list ip),
  cfg_safe c = true -> serve_no_panic c clients = true.
Proof. exact serve_safe. Qed.
Check C19_safe_serving_never_panics : forall (c : cfg) (clients : list ip),
  cfg_safe c = true -> serve_no_panic c clients = true.
Print Assumptions C19_safe_serving_never_panics.

Corollary C19_serving_never_panics : forall (ipp : list N -> option ip) (ip4p : list N -> option N)
  (f : fragments) (c : cfg) (clients : list ip),
  load_fragments ipp ip4p f = Ok c -> serve_no_panic c clients = true.
Proof. intros ipp ip4p f c clients H. exact (serve_safe c clients (load_fragments_safe ipp ip4p f c H)). Qed.
Check C19_serving_never_panics : forall (ipp : list N -> option ip) (ip4p : list N -> option N)
  (f : fragments) (c : cfg) (clients : list ip),
  load_fragments ipp ip4p f = Ok c -> serve_no_panic c clients = true.
Print Assumptions C19_serving_never_panics.

(* the default pool arithmetic is total for EVERY prefix length (the guard
   added by F34 covers what the loader's check does not: /0, /31, /32) *)
Theorem C19_default_pool_total : forall (a len : N) (k : panic_kind), default_pool a len <> Panic k.
Proof. exact default_pool_total. Qed.
Check C19_default_pool_total : forall (a len : N) (k : panic_kind), default_pool a len <> Panic k.
Print Assumptions C19_default_pool_total.

(* without the repairs: `addresses: [192.0.2.1/32]` and `[0.0.0.0/0]` (F34),
   and an ACL prefix ::ffff:192.0.2.0/200 against an IPv4 client (F36) *)
Theorem C19_serving_orig_refuted :
  default_pool_orig 3221225985 32 = Panic Overflow /\ default_pool_orig 0 0 = Panic Overflow /\
  exists p c, prefix6_contains_v4 p c = Panic Assert.
Proof. exact (conj (proj1 default_pool_orig_refuted) (conj (proj2 default_pool_orig_refuted) prefix6_unchecked_refuted)). Qed.
Check C19_serving_orig_refuted :
  default_pool_orig 3221225985 32 = Panic Overflow /\ default_pool_orig 0 0 = Panic Overflow /\
  exists p c, prefix6_contains_v4 p c = Panic Assert.
Print Assumptions C19_serving_orig_refuted.

(* hypotheses are satisfiable: a document's fragments that load, safe, served *)
Example C19_accepted_nonvacuous :
  let ipp := fun s : list N =>
    if list_eqb N.eqb s [49;46;50;46;51;46;48] then Some (V4 16909056)
    else if list_eqb N.eqb s [58;58] then Some (V6 0) else None in
  let ip4p := fun s : list N => if list_eqb N.eqb s [49;46;50;46;51;46;48] then Some 16909056 else None in
  let pfx := YString [49;46;50;46;51;46;48;47;50;52] in
  let f := {| f_addresses := YArray [pfx];
              f_acls := [YHash [(YString (codes "match-subnets"), YArray [pfx; YString [58;58;47;48]]);
                                (YString (codes "apply-access"), YArray [])]];
              f_routes := [YHash [(YString (codes "dns-servers"), YArray [YString [58;58]])];
                           YHash [(YString (codes "type"), YString (codes "forge-nxdomain"))]];
              f_pref64 := [YHash [(YString (codes "prefix"), YString [58;58;47;57;54])]];
              f_raprefixes := [YHash [(YString (codes "prefix"), YString [58;58;47;54;52])]];
              f_apply_subnets := [pfx]; f_match_subnets := [pfx]; f_route_prefixes := [pfx] |} in
  match load_fragments ipp ip4p f with
  | Ok c => cfg_safe c = true /\ serve_no_panic c [V4 16909057; V6 1] = true
            /\ c_routes c = [(0, 1); (1, 0)] /\ c_pref64 c = [96] /\ c_subnets c = [24; 24]
  | _ => False
  end.
Proof. vm_compute. repeat split. Qed.

Example C19_rejected_nonvacuous :
  let ipp := fun s : list N => if list_eqb N.eqb s [58;58] then Some (V6 0) else None in
  dns_route ipp (YHash [(YString (codes "domain-suffixes"), YArray [YString []])]) = Err E_noserver
  /\ ra_prefix ipp (YHash [(YString (codes "on-link"), YBoolean true)]) = Err E_missing
  /\ pref64 ipp (YHash [(YString (codes "prefix"), YString [58;58;47;50;52])]) = Err E_pref64
  /\ parse_string (YArray []) = Err E_type.
Proof. vm_compute. repeat split. Qed.

(* ---- the whole loader (Model/ConfigLoad.v) ------------------------------------
   [load ipp ip4p sock fuel ndocs y]: everything config::load_config_from_string
   does once yaml-rust has produced [ndocs] documents of which [y] is the first:
   the top-level key dispatch, dhcp-policies (recursive policy tree, option
   table, routes, ranges), router-advertisements (interfaces, prefixes, rdnss,
   dnssl, pref64, interval checks), dns-routes, acls, listeners -- the header of
   Model/ConfigLoad.v lists the Rust functions.  Universally quantified
   (external code): [ipp] = str_ip, [ip4p] = str::parse::<Ipv4Addr>, [sock] =
   "str_sockaddr accepts"; [fuel] bounds the nesting of `policies:` (too little
   fuel is an error value, never a panic). *)
Theorem C19_loader_total : forall (ipp : list N -> option ip) (ip4p : list N -> option N)
  (sock : list N -> bool) (fuel : nat) (ndocs : N) (y : yaml) (k : panic_kind),
  load ipp ip4p sock fuel ndocs y <> Panic k.
Proof. exact load_total. Qed.
Check C19_loader_total : forall (ipp : list N -> option ip) (ip4p : list N -> option N)
  (sock : list N -> bool) (fuel : nat) (ndocs : N) (y : yaml) (k : panic_kind),
  load ipp ip4p sock fuel ndocs y <> Panic k.
Print Assumptions C19_loader_total.

Theorem C19_loaded_is_safe : forall (ipp : list N -> option ip) (ip4p : list N -> option N)
  (sock : list N -> bool) (fuel : nat) (ndocs : N) (y : yaml) (t : top),
  load ipp ip4p sock fuel ndocs y = Ok t -> cfg_safe (cfg_of_top t) = true.
Proof. exact load_safe. Qed.
Check C19_loaded_is_safe : forall (ipp : list N -> option ip) (ip4p : list N -> option N)
  (sock : list N -> bool) (fuel : nat) (ndocs : N) (y : yaml) (t : top),
  load ipp ip4p sock fuel ndocs y = Ok t -> cfg_safe (cfg_of_top t) = true.
Print Assumptions C19_loaded_is_safe.

Corollary C19_loaded_serving_never_panics : forall (ipp : list N -> option ip) (ip4p : list N -> option N)
  (sock : list N -> bool) (fuel : nat) (ndocs : N) (y : yaml) (t : top) (clients : list ip),
  load ipp ip4p sock fuel ndocs y = Ok t -> serve_no_panic (cfg_of_top t) clients = true.
Proof. intros ipp ip4p sock fuel ndocs y t clients H. exact (serve_safe _ clients (load_safe ipp ip4p sock fuel ndocs y t H)). Qed.
Check C19_loaded_serving_never_panics : forall (ipp : list N -> option ip) (ip4p : list N -> option N)
  (sock : list N -> bool) (fuel : nat) (ndocs : N) (y : yaml) (t : top) (clients : list ip),
  load ipp ip4p sock fuel ndocs y = Ok t -> serve_no_panic (cfg_of_top t) clients = true.
Print Assumptions C19_loaded_serving_never_panics.

(* the new fields: the RDNSS address lists and DNSSL search lists an accepted
   document leaves (per interface and at the top level, which interfaces fall
   back to) fit their options, so the option-length arithmetic of the
   advertisement serialiser (`u8::try_from(1 + 2n).unwrap()`, `1 + (len / 8) as
   u8`) does not panic *)
Theorem C19_loaded_ra_options_fit : forall (ipp : list N -> option ip) (ip4p : list N -> option N)
  (sock : list N -> bool) (fuel : nat) (ndocs : N) (y : yaml) (t : top),
  load ipp ip4p sock fuel ndocs y = Ok t -> ra_lens_no_panic t = true.
Proof. intros ipp ip4p sock fuel ndocs y t H. exact (fits_no_panic t (load_fits ipp ip4p sock fuel ndocs y t H)). Qed.
Check C19_loaded_ra_options_fit : forall (ipp : list N -> option ip) (ip4p : list N -> option N)
  (sock : list N -> bool) (fuel : nat) (ndocs : N) (y : yaml) (t : top),
  load ipp ip4p sock fuel ndocs y = Ok t -> ra_lens_no_panic t = true.
Print Assumptions C19_loaded_ra_options_fit.

Example C19_ra_options_refuted_without_limits :
  rdnss_optlen 128 = Panic UnwrapNone /\ dnssl_optlen 2033 = Panic Overflow /\ dnssl_optlen 2032 = Ok 255.
Proof. vm_compute. repeat split. Qed.

(* the interval cross-check (`3 * max`, u32 * Duration) cannot overflow because
   the interval was range-checked when its key was read *)
Theorem C19_interval_crosscheck_total : forall (i : iface) (k : panic_kind),
  (match i_max i with Some s => s <= 1800 | None => True end) -> interval_crosscheck i <> Panic k.
Proof. intros i k H. exact (interval_crosscheck_total i H k). Qed.
Check C19_interval_crosscheck_total : forall (i : iface) (k : panic_kind),
  (match i_max i with Some s => s <= 1800 | None => True end) -> interval_crosscheck i <> Panic k.
Print Assumptions C19_interval_crosscheck_total.

Definition ys (x : string) : yaml := YString (codes x).

(* hypotheses are satisfiable: a document that loads (policy tree two levels
   deep, an interface, a route, an ACL), and documents that are rejected *)
Example C19_load_nonvacuous :
  let ipp := fun s : list N =>
    if list_eqb N.eqb s (codes "192.0.2.0") then Some (V4 3221225984)
    else if list_eqb N.eqb s (codes "192.0.2.7") then Some (V4 3221225991)
    else if list_eqb N.eqb s (codes "2001:db8::") then Some (V6 42540766411282592856903984951653826560) else None in
  let ip4p := fun s : list N => if list_eqb N.eqb s (codes "192.0.2.0") then Some 3221225984 else None in
  let sock := fun _ : list N => true in
  let doc := YHash [
    (ys "addresses", YArray [ys "192.0.2.0/24"; ys "2001:db8::/64"]);
    (ys "dns-routes", YArray [YHash [(ys "domain-suffixes", YArray [ys ""]); (ys "dns-servers", YArray [ys "192.0.2.7"])]]);
    (ys "acls", YArray [YHash [(ys "match-subnets", YArray [ys "192.0.2.0/24"]); (ys "apply-access", YArray [ys "http-ro"])]]);
    (ys "router-advertisements", YHash [(ys "eth0", YHash [
        (ys "max-router-advertisement-interval", YInteger 1800); (ys "min-router-advertisement-interval", ys "1350s");
        (ys "prefixes", YArray [YHash [(ys "prefix", ys "2001:db8::/64")]]);
        (ys "pref64", YHash [(ys "prefix", ys "2001:db8::/96"); (ys "lifetime", YInteger (-1))])])]);
    (ys "dhcp-policies", YArray [YHash [
        (ys "match-subnet", ys "192.0.2.0/24"); (ys "apply-subnet", ys "192.0.2.0/24"); (ys "apply-mtu", YInteger 1500);
        (ys "policies", YArray [YHash [(ys "match-hardware-address", ys "00:00:5E:00:53:01"); (ys "apply-address", ys "192.0.2.7")]])]])] in
  match load ipp ip4p sock 5 1 doc with
  | Ok t => cfg_safe (cfg_of_top t) = true /\ c_routes (cfg_of_top t) = [(0, 1)] /\ c_pref64 (cfg_of_top t) = [96]
            /\ c_subnets (cfg_of_top t) = [24] /\ lenN (c_acl (cfg_of_top t)) = 1
  | _ => False
  end
  /\ load ipp ip4p sock 5 2 doc = Err E_docs
  /\ load ipp ip4p sock 1 1 doc = Err E_fuel
  /\ load ipp ip4p sock 5 1 (YHash [(ys "router-advertisements", YHash [(ys "eth0", YHash [
        (ys "max-router-advertisement-interval", YInteger 600); (ys "min-router-advertisement-interval", YInteger (-1))])])]) = Err E_interval
  /\ load ipp ip4p sock 5 1 (YHash [(ys "dhcp-policies", YArray [YHash [(ys "apply-mtu", YInteger 65536)]])]) = Err E_range
  /\ load ipp ip4p sock 5 1 (YHash [(ys "nonsense", YNull)]) = Err E_key.
Proof. vm_compute. repeat split. Qed.

(* Bridge between C02 (which addresses the configuration allows, builder dhcpconf:
   Model/DhcpAddrs.v `allowed g req x`) and the lease store (Model/DhcpPool.v):
   `handle_discover`/`handle_request` hand the set the policy walk ends with to
   `Pool::allocate_address` as its pool.  Statements only. *)
From Erbium Require Import Lib.Base Model.DhcpPolicy Model.DhcpAddrs Model.DhcpAddrsSpec
  Model.DhcpPool Proofs.DhcpPool Proofs.DhcpPoolSpec Proofs.DhcpPoolDrain Proofs.DhcpPoolBridge.

(* "Every address offered or acknowledged to a client belongs to the address set the
   configuration assigns to that client": whatever answer of the lease store the model
   admits, a granted address is a member of the pool it was given -- i.e. of Allowed. *)
Theorem C02_grant_in_allowed :
  forall g req d o t1 t2 ip s k d',
  (forall x, In x (o_pool o) -> allowed g req x = true) ->
  alloc_ok d o t1 t2 (Granted ip s k) = Some d' ->
  allowed g req ip = true.
Proof. exact grant_in_allowed. Qed.
Check C02_grant_in_allowed :
  forall g req d o t1 t2 ip s k d',
  (forall x, In x (o_pool o) -> allowed g req x = true) ->
  alloc_ok d o t1 t2 (Granted ip s k) = Some d' ->
  allowed g req ip = true.
Print Assumptions C02_grant_in_allowed.

(* the same from the declarative reading of the four steps *)
Theorem C02_admissible_in_allowed :
  forall g req d o t ip s k,
  Inv d -> t < pow2 32 ->
  (forall x, In x (o_pool o) -> allowed g req x = true) ->
  admissible d o t (Granted ip s k) -> allowed g req ip = true.
Proof. exact admissible_in_allowed. Qed.
Check C02_admissible_in_allowed :
  forall g req d o t ip s k,
  Inv d -> t < pow2 32 ->
  (forall x, In x (o_pool o) -> allowed g req x = true) ->
  admissible d o t (Granted ip s k) -> allowed g req ip = true.
Print Assumptions C02_admissible_in_allowed.

(* "Conversely every address the documentation says is available ... can actually be
   leased."  (1) A client without a lease that names a free allowed address gets it: *)
Theorem C02_leasable_on_request :
  forall g req pool d c x mn mx t1 t2 a d',
  (forall y, allowed g req y = true -> In y pool) ->
  allowed g req x = true ->
  fresh d c -> t1 < pow2 32 -> free d t1 x = true ->
  alloc_ok d (new_op c (Some x) pool mn mx) t1 t2 a = Some d' ->
  exists s k, a = Granted x s k.
Proof. exact allowed_leasable_on_request. Qed.
Check C02_leasable_on_request :
  forall g req pool d c x mn mx t1 t2 a d',
  (forall y, allowed g req y = true -> In y pool) ->
  allowed g req x = true ->
  fresh d c -> t1 < pow2 32 -> free d t1 x = true ->
  alloc_ok d (new_op c (Some x) pool mn mx) t1 t2 a = Some d' ->
  exists s k, a = Granted x s k.
Print Assumptions C02_leasable_on_request.

(* (2) Drain argument: in whatever order the implementation picks free addresses
   (step 4 admits any free pool address, and refuses only when none is free), as many
   new clients as the pool has addresses, asking without naming an address, lease every
   free allowed address. *)
Theorem C02_everything_leasable :
  forall g req pool mn mx t cas d log d' log',
  (forall y, allowed g req y = true -> In y pool) ->
  t + mx < pow2 32 -> mn <= mx ->
  NoDup (map fst cas) -> (forall c, In c (map fst cas) -> fresh d c) ->
  length cas = length pool ->
  run_from (d, log) (drain_events cas pool mn mx t) = Some (d', log') ->
  forall x, allowed g req x = true -> free d t x = true ->
  exists gr, In gr log' /\ g_addr gr = x /\ In (g_client gr) (map fst cas).
Proof. exact allowed_everything_leasable. Qed.
Check C02_everything_leasable :
  forall g req pool mn mx t cas d log d' log',
  (forall y, allowed g req y = true -> In y pool) ->
  t + mx < pow2 32 -> mn <= mx ->
  NoDup (map fst cas) -> (forall c, In c (map fst cas) -> fresh d c) ->
  length cas = length pool ->
  run_from (d, log) (drain_events cas pool mn mx t) = Some (d', log') ->
  forall x, allowed g req x = true -> free d t x = true ->
  exists gr, In gr log' /\ g_addr gr = x /\ In (g_client gr) (map fst cas).
Print Assumptions C02_everything_leasable.

(* Hypotheses are satisfiable: a pool of three addresses, one already leased to somebody
   else, drained by three new clients in an order of the implementation's choosing. *)
Definition exd_pool : list N := [10; 11; 12].
Definition exd_db : db := [ {| r_addr := 11; r_client := [9]; r_start := 900; r_expiry := 5000 |} ].
Definition exd_cas : list (list N * answer) :=
  [ ([1], Granted 12 300 NewAddress); ([2], Granted 10 300 NewAddress); ([3], NoAddress) ].
Example C02_drain_example :
  NoDup (map fst exd_cas) /\ (forall c, In c (map fst exd_cas) -> fresh exd_db c) /\
  length exd_cas = length exd_pool /\
  exists d' log', run_from (exd_db, []) (drain_events exd_cas exd_pool 300 86400 1000) = Some (d', log')
                  /\ length log' = 2%nat.
Proof.
  split. { repeat constructor; simpl; intuition discriminate. }
  split. { intros c H r [E|[]]. subst r. simpl in *. intuition (subst; discriminate). }
  split. reflexivity.
  eexists. eexists. split. vm_compute. reflexivity. reflexivity.
Qed.

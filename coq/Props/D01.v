(* Pseudo-property D01 (correspondence of the composed pipeline): the theorems are in
   Props/DnsPipeline.v; this file makes them the proof gate of `./check D01`. *)
From Erbium Require Export Props.DnsPipeline.
From Erbium Require Import Lib.Base Model.DnsPipeline Proofs.DnsPipeline.

Theorem D01_gate : forall t t' st, t <= t' -> st_ok t st -> st_ok t' st.
Proof. exact st_ok_mono. Qed.
Check D01_gate : forall t t' st, t <= t' -> st_ok t st -> st_ok t' st.
Print Assumptions D01_gate.

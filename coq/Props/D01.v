(* Pseudo-property D01: the proof gate of `./check D01` is the whole of Props/DnsPipeline.v. *)
From Erbium Require Export Props.DnsPipeline.

Theorem gate_D01_total : True. Proof. pose proof D01_total. exact I. Qed.
Print Assumptions gate_D01_total.
Theorem gate_D01_invariant_monotone : True. Proof. pose proof D01_invariant_monotone. exact I. Qed.
Print Assumptions gate_D01_invariant_monotone.
Theorem gate_D02_acl : True. Proof. pose proof D02_acl. exact I. Qed.
Print Assumptions gate_D02_acl.
Theorem gate_D03_forge_nxdomain : True. Proof. pose proof D03_forge_nxdomain. exact I. Qed.
Print Assumptions gate_D03_forge_nxdomain.
Theorem gate_D03_forward_only : True. Proof. pose proof D03_forward_only. exact I. Qed.
Print Assumptions gate_D03_forward_only.
Theorem gate_D04_faithful : True. Proof. pose proof D04_faithful. exact I. Qed.
Print Assumptions gate_D04_faithful.
Theorem gate_D05_hit_or_fetch : True. Proof. pose proof D05_hit_or_fetch. exact I. Qed.
Print Assumptions gate_D05_hit_or_fetch.
Theorem gate_D06_refused_tokens_bounded : True. Proof. pose proof D06_refused_tokens_bounded. exact I. Qed.
Print Assumptions gate_D06_refused_tokens_bounded.
Theorem gate_D06_refused_octets_bounded : True. Proof. pose proof D06_refused_octets_bounded. exact I. Qed.
Print Assumptions gate_D06_refused_octets_bounded.
Theorem gate_D06_covered : True. Proof. pose proof D06_covered. exact I. Qed.
Print Assumptions gate_D06_covered.
Theorem gate_D04_history : True. Proof. pose proof D04_history. exact I. Qed.
Print Assumptions gate_D04_history.
Theorem gate_D07_tcp_always_answered : True. Proof. pose proof D07_tcp_always_answered. exact I. Qed.
Print Assumptions gate_D07_tcp_always_answered.

(* Property C20 -- statements only; every proof is `exact <lemma from Proofs/>`.
   Model (Model/Http.v): render = http.rs leases_to_json with its JSON string
   escaper; metrics = pool.rs get_pool_metrics (SQL's NULL-on-empty explicit).
   Specification (Model/Json.v): json_parse, an RFC 8259 parser over code
   points; entries, which reads the rows back out of the parsed document. *)
From Coq Require Import String.
From Erbium Require Import Lib.Base Model.Json Model.Http Model.EntryC20 Proofs.Http Proofs.Listing.
From Erbium Require Import Model.DhcpPool Proofs.DhcpPool Proofs.DhcpPoolHistory Proofs.ListingHistory.
Open Scope N_scope.

(* "whatever bytes clients put in their host name": every string of Unicode
   code points survives escape -> RFC 8259 string parser unchanged *)
Theorem C20_escape_roundtrip : forall s : list N,
  wf_str s = true -> json_string_parse (json_string s) = Some s.
Proof. exact escape_roundtrip. Qed.
Check C20_escape_roundtrip : forall s : list N,
  wf_str s = true -> json_string_parse (json_string s) = Some s.
Print Assumptions C20_escape_roundtrip.

(* "The HTTP lease listing is always a syntactically valid JSON document
   containing exactly one entry per stored lease with that lease's address,
   client identifier, start and expiry" -- for every list of rows (any
   number, any identifiers of octets, any host names of code points) *)
Theorem C20_listing_is_json : forall rows : list lease,
  forallb wf_lease rows = true ->
  exists j, json_parse (render rows) = Some j /\ entries j = Some (map spec_entry rows).
Proof. exact listing_is_json. Qed.
Check C20_listing_is_json : forall rows : list lease,
  forallb wf_lease rows = true ->
  exists j, json_parse (render rows) = Some j /\ entries j = Some (map spec_entry rows).
Print Assumptions C20_listing_is_json.

(* the listing as the HTTP handler serves it (`leases.sort(); leases_to_json`): whatever order the store
   returns its rows in, the document holds one entry per stored lease -- a permutation of the rows, in
   the order of their addresses *)
Theorem C20_served_listing : forall rows : list lease,
  forallb wf_lease rows = true ->
  exists j es, json_parse (serve_listing rows) = Some j /\ entries j = Some es /\
               Permutation.Permutation es (map spec_entry rows) /\
               es = map spec_entry (sort_by_ip rows) /\ Sorted.Sorted ip_le (sort_by_ip rows).
Proof. exact served_listing. Qed.
Check C20_served_listing : forall rows : list lease,
  forallb wf_lease rows = true ->
  exists j es, json_parse (serve_listing rows) = Some j /\ entries j = Some es /\
               Permutation.Permutation es (map spec_entry rows) /\
               es = map spec_entry (sort_by_ip rows) /\ Sorted.Sorted ip_le (sort_by_ip rows).
Print Assumptions C20_served_listing.

(* "The active-leases gauge equals the number of leases whose expiry lies in
   the future and the expired-leases gauge the number whose expiry has passed,
   including when there are no leases at all" *)
Theorem C20_gauges : forall (expiries : list N) (now : N),
  metrics expiries now = Ok (count (fun e => now <? e) expiries, count (fun e => e <=? now) expiries).
Proof. exact metrics_spec. Qed.
Check C20_gauges : forall (expiries : list N) (now : N),
  metrics expiries now = Ok (count (fun e => now <? e) expiries, count (fun e => e <=? now) expiries).
Print Assumptions C20_gauges.

Theorem C20_gauges_partition : forall (expiries : list N) (now : N),
  count (fun e => now <? e) expiries + count (fun e => e <=? now) expiries = lenN expiries.
Proof. exact metrics_total. Qed.
Check C20_gauges_partition : forall (expiries : list N) (now : N),
  count (fun e => now <? e) expiries + count (fun e => e <=? now) expiries = lenN expiries.
Print Assumptions C20_gauges_partition.

(* the escaper never lets a raw control character through *)
Theorem C20_escape_no_raw_control : forall s : list N, Forall (fun c => 32 <= c) (escape s).
Proof. exact escape_no_raw_control. Qed.
Check C20_escape_no_raw_control : forall s : list N, Forall (fun c => 32 <= c) (escape s).
Print Assumptions C20_escape_no_raw_control.

(* ---- the hypotheses are satisfiable; the statements are not vacuous ------- *)
(* NUL, BEL, quote, backslash, newline, DEL, U+2028, U+1F600, U+10FFFF *)
Example ex_nasty_string :
  wf_str [0; 7; 34; 92; 10; 127; 8232; 128512; 1114111] = true /\
  json_string_parse (json_string [0; 7; 34; 92; 10; 127; 8232; 128512; 1114111]) = Some [0; 7; 34; 92; 10; 127; 8232; 128512; 1114111].
Proof. split; reflexivity. Qed.
(* Rust's {:?} rendering of "\u{1}" -- what the code emitted before the repair -- is not JSON *)
Example ex_debug_format_is_not_json : json_string_parse [34; 92; 117; 123; 49; 125; 34] = None.
Proof. reflexivity. Qed.
Example ex_rows :
  let rows := [ {| l_ip := 3221225985; l_cid := [1; 171; 0]; l_start := 10; l_expire := 4294967295; l_host := Some [0; 34; 8232] |};
                {| l_ip := 0; l_cid := []; l_start := 0; l_expire := 0; l_host := None |} ] in
  forallb wf_lease rows = true /\
  (match json_parse (render rows) with Some j => entries j | None => None end) = Some (map spec_entry rows).
Proof. split; vm_compute; reflexivity. Qed.
Example ex_empty_listing : json_parse (render []) = Some (JObj [(K_LEASES, JArr [])]).
Proof. reflexivity. Qed.
Example ex_gauges : metrics [] 100 = Ok (0, 0) /\ metrics [99; 100; 101] 100 = Ok (1, 2).
Proof. split; reflexivity. Qed.
(* the parser is a real RFC 8259 parser: nesting, literals, numbers, surrogate pairs; and it rejects non-JSON *)
Example ex_parser_accepts :
  json_parse (str "{""a"":[1,-2.5e+3,true,false,null,{""b"":""\uD83D\uDE00\n""}],""c"":{}}"%string)
  = Some (JObj [ (str "a", JArr [JInt 1; JNumber (str "-2.5e+3"%string); JBool true; JBool false; JNull;
                                 JObj [(str "b", JStr [128512; 10])]]);
                 (str "c", JObj []) ]).
Proof. vm_compute. reflexivity. Qed.
Example ex_parser_rejects :
  json_parse (str "{""a"":01}"%string) = None /\ json_parse (str "[1,]"%string) = None /\ json_parse (str "{""a"":""\x""}"%string) = None
  /\ json_parse (str "[1] 2"%string) = None /\ json_parse [34; 1; 34] = None /\ json_parse (str "{'a':1}"%string) = None.
Proof. vm_compute. repeat split; reflexivity. Qed.

(* "for all lease stores reachable by any history": over the store left by ANY
   well-formed history of allocations (Model/DhcpPool.v, the histories of C01), the
   gauges are the numbers of unexpired and expired rows, add up to the number of rows,
   count DISTINCT addresses, and the active gauge covers every lease a client was told
   (reply log, [holds]) that it holds *)
Theorem C20_gauges_reachable :
  forall h d log now,
  wf_history h = true -> run h = Some (d, log) ->
  metrics (map r_expiry d) now = Ok (lenN (active_rows d now), lenN (expired_rows d now))
  /\ lenN (active_rows d now) + lenN (expired_rows d now) = lenN d
  /\ NoDup (map r_addr (active_rows d now))
  /\ NoDup (map r_addr (expired_rows d now))
  /\ (clock h <= now -> forall c x, holds log c x now ->
        exists r, In r (active_rows d now) /\ r_addr r = x /\ r_client r = c).
Proof. exact gauges_reachable. Qed.
Check C20_gauges_reachable :
  forall h d log now,
  wf_history h = true -> run h = Some (d, log) ->
  metrics (map r_expiry d) now = Ok (lenN (active_rows d now), lenN (expired_rows d now))
  /\ lenN (active_rows d now) + lenN (expired_rows d now) = lenN d
  /\ NoDup (map r_addr (active_rows d now))
  /\ NoDup (map r_addr (expired_rows d now))
  /\ (clock h <= now -> forall c x, holds log c x now ->
        exists r, In r (active_rows d now) /\ r_addr r = x /\ r_client r = c).
Print Assumptions C20_gauges_reachable.

(* two different held leases are two different active rows *)
Theorem C20_gauge_counts_each_holder :
  forall h d log now a b x y,
  wf_history h = true -> run h = Some (d, log) -> clock h <= now ->
  holds log a x now -> holds log b y now -> (a <> b \/ x <> y) ->
  2 <= lenN (active_rows d now).
Proof. exact gauge_counts_each_holder. Qed.
Check C20_gauge_counts_each_holder :
  forall h d log now a b x y,
  wf_history h = true -> run h = Some (d, log) -> clock h <= now ->
  holds log a x now -> holds log b y now -> (a <> b \/ x <> y) ->
  2 <= lenN (active_rows d now).
Print Assumptions C20_gauge_counts_each_holder.

Definition ex20_o (c ip : N) : op := {| o_client := [c]; o_req := None; o_pool := [10; 11]; o_min := 300; o_max := 86400 |}.
Definition ex20_h : list event :=
  [ EAlloc (ex20_o 7 10) 1000 1000 (Granted 10 300 NewAddress);
    EAlloc (ex20_o 8 11) 1001 1001 (Granted 11 300 NewAddress); ETick 99 ].
Example ex_gauges_reachable :
  wf_history ex20_h = true /\ clock ex20_h = 1100 /\
  exists d log, run ex20_h = Some (d, log) /\ holds log [7] 10 1100 /\ holds log [8] 11 1100 /\
    metrics (map r_expiry d) 1100 = Ok (2, 0) /\ metrics (map r_expiry d) 1300 = Ok (1, 1) /\
    metrics (map r_expiry d) 1401 = Ok (0, 2).
Proof.
  split. reflexivity. split. reflexivity.
  eexists. eexists. split. vm_compute. reflexivity.
  split. eexists. split; vm_compute; reflexivity.
  split. eexists. split; vm_compute; reflexivity.
  repeat split; reflexivity.
Qed.

From Erbium Require Import Lib.Base Model.Json Model.Http.

(* Property C17 -- statements only; every proof is `exact <lemma from Proofs/>`. *)
From Erbium Require Import Lib.Base Model.Radv Model.RfcRaDecode Model.RaExpected Proofs.Radv.

Theorem C17_plc_table : forall len plc : N, plc_of_len len = Some plc -> plc_len plc = Some len.
Proof. exact plc_table_agrees. Qed.
Check C17_plc_table : forall len plc : N, plc_of_len len = Some plc -> plc_len plc = Some len.
Print Assumptions C17_plc_table.

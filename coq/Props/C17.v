(* Property C17 -- statements only; every proof is `exact <lemma from Proofs/>`.
   [build]/[serialise] (Model/Radv.v) model the code after the repairs;
   [rfc_decode], [lengths_ok], [reserved_zero] (Model/RfcRaDecode.v) are the
   specification written from RFC 4861/8106/8781/8910; [expected] and [wf_cfg]
   (Model/RaExpected.v) say what a configuration is documented to advertise and
   which configurations the loader can produce. *)
From Erbium Require Import Lib.Base Model.Radv Model.RfcRaDecode Model.RaExpected Proofs.Radv.

(* The advertisement built for an interface decodes, with the RFC decoder, to
   exactly the configured values (top-level defaults, `null` suppressing,
   $self6 substituted, unrepresentable lifetimes as the field's maximum). *)
Theorem C17_decodes_to_config : forall (t : top) (i : intf) (e : env),
  wf_cfg t i e = true ->
  exists b, serialise (build t i e) = Ok b /\ rfc_decode b = Some (expected t i e).
Proof. exact decodes_to_config. Qed.
Check C17_decodes_to_config : forall (t : top) (i : intf) (e : env),
  wf_cfg t i e = true ->
  exists b, serialise (build t i e) = Ok b /\ rfc_decode b = Some (expected t i e).
Print Assumptions C17_decodes_to_config.

(* The message length is a multiple of 8 octets (and at least the 16-octet
   header) and the option area is exactly tiled by options whose Length field,
   times 8, is their size. *)
Theorem C17_lengths : forall (t : top) (i : intf) (e : env) (b : list N),
  wf_cfg t i e = true -> serialise (build t i e) = Ok b -> lengths_ok b = true.
Proof. exact lengths_thm. Qed.
Check C17_lengths : forall (t : top) (i : intf) (e : env) (b : list N),
  wf_cfg t i e = true -> serialise (build t i e) = Ok b -> lengths_ok b = true.
Print Assumptions C17_lengths.

(* Reserved fields -- RA flags, MTU/RDNSS/DNSSL reserved octets, Prefix
   Information Reserved1/Reserved2, and the bits of a prefix (Prefix
   Information and PREF64) beyond its length -- are zero. *)
Theorem C17_reserved_zero : forall (t : top) (i : intf) (e : env) (b : list N),
  wf_cfg t i e = true -> serialise (build t i e) = Ok b -> reserved_zero b = true.
Proof. exact reserved_thm. Qed.
Check C17_reserved_zero : forall (t : top) (i : intf) (e : env) (b : list N),
  wf_cfg t i e = true -> serialise (build t i e) = Ok b -> reserved_zero b = true.
Print Assumptions C17_reserved_zero.

(* A configured value the wire field cannot hold is advertised as the field's
   maximum (min v max), never as v mod 2^w: router lifetime (16 bit, s),
   reachable / retransmit time (32 bit, ms), prefix valid / preferred lifetime,
   RDNSS / DNSSL lifetime (32 bit, s), PREF64 lifetime (13 bit, units of 8 s,
   rounded up as RFC 8781 4.1 asks). *)
Theorem C17_unrepresentable_is_clamped :
  forall (t : top) (i : intf) (e : env) (b : list N) (x : rfc_ra),
  wf_cfg t i e = true -> serialise (build t i e) = Ok b -> rfc_decode b = Some x ->
  r_lifetime x = N.min (d_secs (tri_or (i_lifetime i) (e_lifetime e))) 65535 /\
  r_reachable x = N.min (as_millis (i_reachable i)) 4294967295 /\
  r_retrans x = N.min (as_millis (i_retrans i)) 4294967295 /\
  map rp_valid (r_prefixes x) = map (fun p => N.min (d_secs (p_valid p)) 4294967295) (i_prefixes i) /\
  map rp_preferred (r_prefixes x) = map (fun p => N.min (d_secs (p_preferred p)) 4294967295) (i_prefixes i) /\
  (forall l s, In (l, s) (r_rdnss x) -> l = N.min (d_secs (tri_or (i_rdnss_lifetime i) (secs 1800))) 4294967295) /\
  (forall l d, In (l, d) (r_dnssl x) -> l = N.min (d_secs (tri_or (i_dnssl_lifetime i) (secs 1800))) 4294967295) /\
  (forall l n p, In (l, n, p) (r_pref64 x) ->
     exists p64, i_pref64 i = Some p64 /\ l = N.min ((d_secs (n_lifetime p64) + 7) / 8 * 8) 65528).
Proof. exact clamped_thm. Qed.
Check C17_unrepresentable_is_clamped :
  forall (t : top) (i : intf) (e : env) (b : list N) (x : rfc_ra),
  wf_cfg t i e = true -> serialise (build t i e) = Ok b -> rfc_decode b = Some x ->
  r_lifetime x = N.min (d_secs (tri_or (i_lifetime i) (e_lifetime e))) 65535 /\
  r_reachable x = N.min (as_millis (i_reachable i)) 4294967295 /\
  r_retrans x = N.min (as_millis (i_retrans i)) 4294967295 /\
  map rp_valid (r_prefixes x) = map (fun p => N.min (d_secs (p_valid p)) 4294967295) (i_prefixes i) /\
  map rp_preferred (r_prefixes x) = map (fun p => N.min (d_secs (p_preferred p)) 4294967295) (i_prefixes i) /\
  (forall l s, In (l, s) (r_rdnss x) -> l = N.min (d_secs (tri_or (i_rdnss_lifetime i) (secs 1800))) 4294967295) /\
  (forall l d, In (l, d) (r_dnssl x) -> l = N.min (d_secs (tri_or (i_dnssl_lifetime i) (secs 1800))) 4294967295) /\
  (forall l n p, In (l, n, p) (r_pref64 x) ->
     exists p64, i_pref64 i = Some p64 /\ l = N.min ((d_secs (n_lifetime p64) + 7) / 8 * 8) 65528).
Print Assumptions C17_unrepresentable_is_clamped.

(* The encoder's and the RFC decoder's prefix length code tables agree. *)
Theorem C17_plc_table : forall len plc : N, plc_of_len len = Some plc -> plc_len plc = Some len.
Proof. exact plc_table_agrees. Qed.
Check C17_plc_table : forall len plc : N, plc_of_len len = Some plc -> plc_len plc = Some len.
Print Assumptions C17_plc_table.

(* ---- the hypotheses are satisfiable: the configuration of erbium.conf(5)'s
   example, with a lifetime of one day (F25), host bits in the prefix (F27),
   $self6 as DNS server (F45), a /96 NAT64 prefix (F26) ------------------------ *)
Definition ex_top : top :=
  {| t_dns_servers := [(4, [192; 0; 2; 53]); (6, repeatN 0 16)];
     t_dns_search := [[101; 120; 97; 109; 112; 108; 101; 46; 99; 111; 109]];     (* example.com *)
     t_captive := Some [104; 116; 116; 112; 115; 58; 47; 47; 112; 46; 101; 120; 47] |}.
Definition ex_addr : list N := [32; 1; 13; 184; 0; 0; 0; 0; 0; 0; 0; 0; 0; 0; 0; 1].
Definition ex_intf : intf :=
  {| i_hoplimit := 64; i_managed := false; i_other := true;
     i_lifetime := Value (secs 86400); i_reachable := secs 30; i_retrans := secs 1;
     i_prefixes := [{| p_addr := ex_addr; p_len := 64; p_onlink := true; p_auto := true;
                       p_valid := secs 4294967296; p_preferred := secs 604800 |}];
     i_rdnss_lifetime := NotSpecified; i_rdnss := NotSpecified;
     i_dnssl_lifetime := DontSet; i_dnssl := NotSpecified;
     i_captive := DontSet;
     i_pref64 := Some {| n_lifetime := secs 601; n_prefix := [0; 100; 255; 155; 0; 0; 0; 0; 0; 0; 0; 0; 0; 0; 0; 0]; n_len := 96 |} |}.
Definition ex_env : env :=
  {| e_ll := Some [2; 0; 0; 0; 0; 1]; e_mtu := Some 1500;
     e_self6 := [253; 0; 0; 0; 0; 0; 0; 0; 0; 0; 0; 0; 0; 0; 0; 83]; e_lifetime := secs 0 |}.

Example C17_hypotheses_satisfiable : wf_cfg ex_top ex_intf ex_env = true.
Proof. vm_compute. reflexivity. Qed.
Example C17_example_advertisement :
  exists b, serialise (build ex_top ex_intf ex_env) = Ok b /\
    option_map (fun x => (r_lifetime x, map rp_valid (r_prefixes x), map rp_prefix (r_prefixes x),
                          r_rdnss x, r_pref64 x, r_captive x, lenN b))
               (rfc_decode b)
    = Some (65535, [4294967295], [[32; 1; 13; 184; 0; 0; 0; 0; 0; 0; 0; 0; 0; 0; 0; 0]],
            [(1800, [[253; 0; 0; 0; 0; 0; 0; 0; 0; 0; 0; 0; 0; 0; 0; 83]])],
            [(608, 96, [0; 100; 255; 155; 0; 0; 0; 0; 0; 0; 0; 0])], [], 128).
Proof. eexists. split; vm_compute; reflexivity. Qed.

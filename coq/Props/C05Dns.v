(* Property C05, DNS part -- statements only; every proof is `exact <lemma from Proofs/>`.
   Totality of the model of the DNS message decoder (parse.rs get_dns, Model/DnsCodec.v
   decode): for every list of numbers whatsoever (octets or not, any length) it returns a
   message or an ordinary error -- never a panic outcome (the model carries every Rust
   operation that can abort as an explicit Panic), and never the out-of-fuel value E_FUEL
   that the fuelled recursions (name expansion: 300 steps; EDNS options) would return if
   their fuel were too small. *)
From Erbium Require Import Lib.Base Model.DnsName Model.DnsCodec Proofs.DnsTotal Proofs.DnsEncTotal.

Theorem C05_dns_decode_total : forall b, is_panic (decode b) = false /\ decode b <> Err E_FUEL.
Proof. exact decode_total. Qed.
Check C05_dns_decode_total : forall b, is_panic (decode b) = false /\ decode b <> Err E_FUEL.
Print Assumptions C05_dns_decode_total.

(* the name decoder alone, from any offset *)
Theorem C05_dns_name_total : forall buf c, is_panic (get_name buf c) = false /\ get_name buf c <> Err E_FUEL.
Proof. exact get_name_total. Qed.
Check C05_dns_name_total : forall buf c, is_panic (get_name buf c) = false /\ get_name buf c <> Err E_FUEL.
Print Assumptions C05_dns_name_total.

(* the serialiser: on every well-formed message (in particular on everything the
   decoder returns, C14_decoded_is_wf) and for every limit of at least 512 octets
   it returns octets -- none of its asserts, unwraps or checked arithmetic fires
   (the model carries them as Panic outcomes; sizes below 512 do assert) *)
Theorem C05_dns_encode_total : forall m size,
  wf_pkt m = true -> 512 <= size -> exists e t, encode_sized_t m size = Ok (e, t).
Proof. exact encode_total. Qed.
Check C05_dns_encode_total : forall m size,
  wf_pkt m = true -> 512 <= size -> exists e t, encode_sized_t m size = Ok (e, t).
Print Assumptions C05_dns_encode_total.

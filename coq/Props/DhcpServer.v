(* The composed DHCPv4 server step (Model/DhcpServer.v: decode -> message-type / server-id
   gate -> policy walk -> lease store (relational in the pool's answer) -> reply -> encode ->
   destination -> frame) and the theorems that tie the per-property results together.
   Statements only; every proof is `exact <lemma of Proofs/DhcpServer.v>`. *)
From Erbium Require Import Lib.Base Model.DhcpCodec Model.DhcpOptVal Model.DhcpPolicy Model.DhcpAddrs
  Model.DhcpPool Model.DhcpHandler Model.Frame Model.DhcpServer.
From Erbium Require Import Proofs.DhcpPool Proofs.DhcpPoolCrash Proofs.DhcpServer.

(* S01 -- totality.  Full statement wanted:
     forall cfg st t1 t2 e b ans, is_panic (server_step cfg st t1 t2 e b ans) = false.
   Proved under two hypotheses, both necessary for the model as it stands:
   (1) every stored row has start <= expiry (else `expiry - start` in the revive step
       underflows: the model's Panicked answer) -- an invariant of every store the server
       itself wrote (C10_record_covers);
   (2) the encoded reply fits a UDP datagram (<= 65507 octets): new_udp4 computes
       `20_u16 + len as u16` with overflow checks.  Missing to discharge (2) from the
       configuration: a bound on the total size of the option values a policy chain can
       put into one reply (no such bound exists in the loader). *)
Theorem S01_total_partial : forall cfg st t1 t2 e b ans,
  rows_wf (fst st) ->
  (forall r, reply_of cfg st t2 e b ans = Some r -> lenN (encode r) <= 65507) ->
  is_panic (server_step cfg st t1 t2 e b ans) = false.
Proof. exact step_no_panic. Qed.
Check S01_total_partial : forall cfg st t1 t2 e b ans,
  rows_wf (fst st) ->
  (forall r, reply_of cfg st t2 e b ans = Some r -> lenN (encode r) <= 65507) ->
  is_panic (server_step cfg st t1 t2 e b ans) = false.
Print Assumptions S01_total_partial.

(* S02 -- lifts C13: a frame only for a DISCOVER or an acceptable REQUEST ... *)
Theorem S02_frame_only_when_answerable : forall cfg st t1 t2 e b ans st' f,
  server_step cfg st t1 t2 e b ans = Ok (st', Some f) ->
  exists m, decode b = Ok m /\ answerable (snd st) (e_serverip e) m.
Proof. exact frame_only_when_answerable. Qed.
Check S02_frame_only_when_answerable : forall cfg st t1 t2 e b ans st' f,
  server_step cfg st t1 t2 e b ans = Ok (st', Some f) ->
  exists m, decode b = Ok m /\ answerable (snd st) (e_serverip e) m.
Print Assumptions S02_frame_only_when_answerable.

(* ... otherwise the state (lease rows and server identifiers) is exactly what it was.
   The one exception the code has: an answerable message whose hardware address is shorter
   than six octets is allocated a lease and then not answered ("Cannot send reply to invalid
   client hardware addr") -- the lease is written before the check. *)
Theorem S02_silence_is_inert : forall cfg st t1 t2 e b ans st',
  server_step cfg st t1 t2 e b ans = Ok (st', None) ->
  st' = st \/ exists m, decode b = Ok m /\ answerable (snd st) (e_serverip e) m /\ lenN (d_chaddr m) < 6.
Proof. exact silent_step_inert. Qed.
Check S02_silence_is_inert : forall cfg st t1 t2 e b ans st',
  server_step cfg st t1 t2 e b ans = Ok (st', None) ->
  st' = st \/ exists m, decode b = Ok m /\ answerable (snd st) (e_serverip e) m /\ lenN (d_chaddr m) < 6.
Print Assumptions S02_silence_is_inert.

(* S03 -- if a frame is produced: it is the Ethernet/IPv4/UDP frame around `encode reply`,
   from (server address, 67) to (broadcast iff bit 15 of the request's flags, else yiaddr)
   and the first six octets of the client's hardware address (C12) ... *)
Theorem S03_frame : forall cfg st t1 t2 e b ans st' f,
  server_step cfg st t1 t2 e b ans = Ok (st', Some f) ->
  exists m r ip secs k mac,
    granted_step cfg st t1 t2 e b ans st' m r ip secs k /\
    mac = takeN 6 (d_chaddr m) /\ 6 <= lenN (d_chaddr m) /\
    f = udp4_frame (frame_args e m r mac) /\
    u_payload (frame_args e m r mac) = encode r /\
    u_dst_ip (frame_args e m r mac) = be32 (if N.testbit (d_flags m) 15 then 4294967295 else d_yiaddr r).
Proof. exact frame_facts. Qed.
Check S03_frame : forall cfg st t1 t2 e b ans st' f,
  server_step cfg st t1 t2 e b ans = Ok (st', Some f) ->
  exists m r ip secs k mac,
    granted_step cfg st t1 t2 e b ans st' m r ip secs k /\
    mac = takeN 6 (d_chaddr m) /\ 6 <= lenN (d_chaddr m) /\
    f = udp4_frame (frame_args e m r mac) /\
    u_payload (frame_args e m r mac) = encode r /\
    u_dst_ip (frame_args e m r mac) = be32 (if N.testbit (d_flags m) 15 then 4294967295 else d_yiaddr r).
Print Assumptions S03_frame.

(* ... and the reply inside it: yiaddr is an address the configuration allows for this
   request (C02 through the pool bridge), option 51 is the lease time, inside the bounds
   and exactly the window of the row now recorded (C10), and xid / chaddr / htype / hlen /
   giaddr / flags are the request's (C13). *)
Theorem S03_reply : forall cfg st t1 t2 e b ans st' m r ip secs k,
  granted_step cfg st t1 t2 e b ans st' m r ip secs k ->
  sc_min cfg <= sc_max cfg -> t2 + sc_max cfg < pow2 32 ->
  d_yiaddr r = ip /\ allowed (sc_conf cfg) (request_of e m) ip = true /\
  sc_min cfg <= secs <= sc_max cfg /\ opt_get (d_options r) 51 = Some (be32 secs) /\
  (exists row, find_addr ip (fst st') = Some row /\ r_client row = client_id m /\
               r_start row = t2 /\ r_expiry row = t2 + secs) /\
  d_op r = 2 /\ d_xid r = d_xid m /\ d_chaddr r = d_chaddr m /\ d_htype r = d_htype m /\
  d_hlen r = d_hlen m /\ d_giaddr r = d_giaddr m /\ d_flags r = d_flags m.
Proof. exact reply_facts. Qed.
Check S03_reply : forall cfg st t1 t2 e b ans st' m r ip secs k,
  granted_step cfg st t1 t2 e b ans st' m r ip secs k ->
  sc_min cfg <= sc_max cfg -> t2 + sc_max cfg < pow2 32 ->
  d_yiaddr r = ip /\ allowed (sc_conf cfg) (request_of e m) ip = true /\
  sc_min cfg <= secs <= sc_max cfg /\ opt_get (d_options r) 51 = Some (be32 secs) /\
  (exists row, find_addr ip (fst st') = Some row /\ r_client row = client_id m /\
               r_start row = t2 /\ r_expiry row = t2 + secs) /\
  d_op r = 2 /\ d_xid r = d_xid m /\ d_chaddr r = d_chaddr m /\ d_htype r = d_htype m /\
  d_hlen r = d_hlen m /\ d_giaddr r = d_giaddr m /\ d_flags r = d_flags m.
Print Assumptions S03_reply.

(* S04 -- lifts C01 to histories of received datagrams: the datagrams that get as far as
   allocate_address form a lease-store history (pool_history) in which a step whose reply
   did not go out as a frame counts as lost; that history is admitted by the lease-store
   model, ends in the server's store, and in its grant log -- (client id of the request,
   yiaddr, time, recorded expiry) of every datagram answered with a frame -- no two clients
   hold one address at the same time. *)
Theorem S04_no_double_allocation : forall cfg M h st now st' fs,
  sc_max cfg = M -> sc_min cfg <= sc_max cfg ->
  Inv (fst st) -> RowsOK M now (fst st) ->
  wf_times M now h = true ->
  server_run cfg st h = Some (st', fs) ->
  exists log, run_lossy_from (fst st, []) (pool_history cfg st h) = Some (fst st', log) /\
              forall a b x t, a <> b -> ~ (holds log a x t /\ holds log b x t).
Proof. exact server_no_double. Qed.
Check S04_no_double_allocation : forall cfg M h st now st' fs,
  sc_max cfg = M -> sc_min cfg <= sc_max cfg ->
  Inv (fst st) -> RowsOK M now (fst st) ->
  wf_times M now h = true ->
  server_run cfg st h = Some (st', fs) ->
  exists log, run_lossy_from (fst st, []) (pool_history cfg st h) = Some (fst st', log) /\
              forall a b x t, a <> b -> ~ (holds log a x t /\ holds log b x t).
Print Assumptions S04_no_double_allocation.

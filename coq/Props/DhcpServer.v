(* Composed DHCPv4 server step (Model/DhcpServer.v) -- statements only. *)
From Erbium Require Import Lib.Base Model.DhcpCodec Model.DhcpPool Model.DhcpServer.

Theorem S00_undecodable_is_dropped : forall cfg st t1 t2 e b ans x,
  decode b = Err x -> server_step cfg st t1 t2 e b ans = Ok (st, None).
Proof. intros. unfold server_step. rewrite H. reflexivity. Qed.
Check S00_undecodable_is_dropped : forall cfg st t1 t2 e b ans x,
  decode b = Err x -> server_step cfg st t1 t2 e b ans = Ok (st, None).
Print Assumptions S00_undecodable_is_dropped.

(* The composed DHCPv4 server step (Model/DhcpServer.v: decode -> message-type / server-id
   gate -> policy walk -> lease store (relational in the pool's answer) -> reply -> encode ->
   destination -> frame) and the theorems that tie the per-property results together.
   Statements only; every proof is `exact <lemma of Proofs/DhcpServer.v>`. *)
From Erbium Require Import Lib.Base Model.DhcpCodec Model.DhcpOptVal Model.DhcpPolicy Model.DhcpAddrs
  Model.DhcpPool Model.DhcpHandler Model.Frame Model.DhcpServer.
From Erbium Require Import Proofs.DhcpPool Proofs.DhcpPoolCrash Proofs.DhcpServer Proofs.DhcpServerWf Proofs.DhcpServerOpts Proofs.DhcpServerRestart.

(* S01 -- totality.  Full statement wanted:
     forall cfg st t1 t2 e b ans, is_panic (server_step cfg st t1 t2 e b ans) = false.
   Proved under one hypothesis, necessary for the model (and the code) as it stands: every stored
   row has start <= expiry -- else `expiry - start` in the revive step underflows, the model's
   Panicked answer; an invariant of every store the server itself wrote (C10_record_covers), not of
   a store edited by hand.
   (Until the repair eac8c30 a second hypothesis was needed: the encoded reply fits a UDP datagram.
   The loader puts no bound on the option data a policy chain selects, and `20_u16 + len as u16` /
   `8_u16 + len as u16` in new_ipv4 / new_udp4 overflowed for 65508..65535 octets and truncated
   above; such a reply is now logged and not sent, and the step is total without that hypothesis.) *)
Theorem S01_total_partial : forall cfg st t1 t2 e b ans,
  rows_wf (fst st) ->
  is_panic (server_step cfg st t1 t2 e b ans) = false.
Proof. exact step_no_panic. Qed.
Check S01_total_partial : forall cfg st t1 t2 e b ans,
  rows_wf (fst st) ->
  is_panic (server_step cfg st t1 t2 e b ans) = false.
Print Assumptions S01_total_partial.

(* a frame is only ever built for a reply that fits one UDP datagram (65535 - 20 - 8 octets) *)
Theorem S01_frame_fits : forall cfg st t1 t2 e b ans st' f r,
  server_step cfg st t1 t2 e b ans = Ok (st', Some f) ->
  reply_of cfg st t2 e b ans = Some r -> lenN (encode r) <= 65507.
Proof. exact frame_fits. Qed.
Check S01_frame_fits : forall cfg st t1 t2 e b ans st' f r,
  server_step cfg st t1 t2 e b ans = Ok (st', Some f) ->
  reply_of cfg st t2 e b ans = Some r -> lenN (encode r) <= 65507.
Print Assumptions S01_frame_fits.

(* S02 -- lifts C13: a frame only for a DISCOVER or an acceptable REQUEST ... *)
Theorem S02_frame_only_when_answerable : forall cfg st t1 t2 e b ans st' f,
  server_step cfg st t1 t2 e b ans = Ok (st', Some f) ->
  exists m, decode b = Ok m /\ answerable (snd st) (e_serverip e) m.
Proof. exact frame_only_when_answerable. Qed.
Check S02_frame_only_when_answerable : forall cfg st t1 t2 e b ans st' f,
  server_step cfg st t1 t2 e b ans = Ok (st', Some f) ->
  exists m, decode b = Ok m /\ answerable (snd st) (e_serverip e) m.
Print Assumptions S02_frame_only_when_answerable.

(* ... otherwise the state (lease rows and server identifiers) is exactly what it was.
   The two exceptions the code has: an answerable message whose hardware address is shorter
   than six octets ("Cannot send reply to invalid client hardware addr"), and a reply that does not
   fit one UDP datagram ("Reply of .. octets does not fit in a UDP datagram, not sent"): the lease
   is written before either check. *)
Theorem S02_silence_is_inert : forall cfg st t1 t2 e b ans st',
  server_step cfg st t1 t2 e b ans = Ok (st', None) ->
  st' = st \/ exists m, decode b = Ok m /\ answerable (snd st) (e_serverip e) m /\
                        (lenN (d_chaddr m) < 6 \/
                         exists r, reply_of cfg st t2 e b ans = Some r /\ MAX_UDP4_PAYLOAD < lenN (encode r)).
Proof. exact silent_step_inert. Qed.
Check S02_silence_is_inert : forall cfg st t1 t2 e b ans st',
  server_step cfg st t1 t2 e b ans = Ok (st', None) ->
  st' = st \/ exists m, decode b = Ok m /\ answerable (snd st) (e_serverip e) m /\
                        (lenN (d_chaddr m) < 6 \/
                         exists r, reply_of cfg st t2 e b ans = Some r /\ MAX_UDP4_PAYLOAD < lenN (encode r)).
Print Assumptions S02_silence_is_inert.

(* S03 -- if a frame is produced: it is the Ethernet/IPv4/UDP frame around `encode reply`,
   from (server address, 67) to (broadcast iff bit 15 of the request's flags, else yiaddr)
   and the first six octets of the client's hardware address (C12) ... *)
Theorem S03_frame : forall cfg st t1 t2 e b ans st' f,
  server_step cfg st t1 t2 e b ans = Ok (st', Some f) ->
  exists m r ip secs k mac,
    granted_step cfg st t1 t2 e b ans st' m r ip secs k /\
    mac = takeN 6 (d_chaddr m) /\ 6 <= lenN (d_chaddr m) /\
    f = udp4_frame (frame_args e m r mac) /\
    u_payload (frame_args e m r mac) = encode r /\
    u_dst_ip (frame_args e m r mac) = be32 (if N.testbit (d_flags m) 15 then 4294967295 else d_yiaddr r).
Proof. exact frame_facts. Qed.
Check S03_frame : forall cfg st t1 t2 e b ans st' f,
  server_step cfg st t1 t2 e b ans = Ok (st', Some f) ->
  exists m r ip secs k mac,
    granted_step cfg st t1 t2 e b ans st' m r ip secs k /\
    mac = takeN 6 (d_chaddr m) /\ 6 <= lenN (d_chaddr m) /\
    f = udp4_frame (frame_args e m r mac) /\
    u_payload (frame_args e m r mac) = encode r /\
    u_dst_ip (frame_args e m r mac) = be32 (if N.testbit (d_flags m) 15 then 4294967295 else d_yiaddr r).
Print Assumptions S03_frame.

(* ... and the reply inside it: yiaddr is an address the configuration allows for this
   request (C02 through the pool bridge), option 51 is the lease time, inside the bounds
   and exactly the window of the row now recorded (C10), and xid / chaddr / htype / hlen /
   giaddr / flags are the request's (C13). *)
Theorem S03_reply : forall cfg st t1 t2 e b ans st' m r ip secs k,
  granted_step cfg st t1 t2 e b ans st' m r ip secs k ->
  sc_min cfg <= sc_max cfg -> t2 + sc_max cfg < pow2 32 ->
  d_yiaddr r = ip /\ allowed (sc_conf cfg) (request_of e m) ip = true /\
  sc_min cfg <= secs <= sc_max cfg /\ opt_get (d_options r) 51 = Some (be32 secs) /\
  (exists row, find_addr ip (fst st') = Some row /\ r_client row = client_id m /\
               r_start row = t2 /\ r_expiry row = t2 + secs) /\
  d_op r = 2 /\ d_xid r = d_xid m /\ d_chaddr r = d_chaddr m /\ d_htype r = d_htype m /\
  d_hlen r = d_hlen m /\ d_giaddr r = d_giaddr m /\ d_flags r = d_flags m.
Proof. exact reply_facts. Qed.
Check S03_reply : forall cfg st t1 t2 e b ans st' m r ip secs k,
  granted_step cfg st t1 t2 e b ans st' m r ip secs k ->
  sc_min cfg <= sc_max cfg -> t2 + sc_max cfg < pow2 32 ->
  d_yiaddr r = ip /\ allowed (sc_conf cfg) (request_of e m) ip = true /\
  sc_min cfg <= secs <= sc_max cfg /\ opt_get (d_options r) 51 = Some (be32 secs) /\
  (exists row, find_addr ip (fst st') = Some row /\ r_client row = client_id m /\
               r_start row = t2 /\ r_expiry row = t2 + secs) /\
  d_op r = 2 /\ d_xid r = d_xid m /\ d_chaddr r = d_chaddr m /\ d_htype r = d_htype m /\
  d_hlen r = d_hlen m /\ d_giaddr r = d_giaddr m /\ d_flags r = d_flags m.
Print Assumptions S03_reply.

(* S03, wire level -- the frame is a VALID frame and its payload decodes back to the reply.
   Full statement wanted: for every input of octets and every configuration the loader
   accepts, a produced frame satisfies valid_frame and `decode (payload) = Ok reply`.
   Proved under: the datagram consists of octets; the interface has a 6-octet address and the
   port is a u16; every address of the configuration is a u32; and two hypotheses that are
   facts about the CONFIGURATION not yet derived from its well-formedness:
   (a) the options the policy walk selects have codes 1..254 and octet values (that their
       codes are distinct is proved: Proofs/DhcpServerOpts.walk_opts_distinct); deriving (a)
       needs an invariant over the loader's option values along the selected chain;
   (b) the encoded reply fits a UDP datagram (see S01). *)
Theorem S03_wire_partial : forall cfg st t1 t2 e b ans st' f,
  server_step cfg st t1 t2 e b ans = Ok (st', Some f) ->
  bytes_ok b = true -> wf_env e ->
  (forall x, In x (sc_universe cfg) -> x < 4294967296) ->
  (forall m, decode b = Ok m ->
     forallb wf_option (to_options (rs_opts (snd (walk_of cfg (request_of e m))))) = true) ->
  exists m r mac,
    decode b = Ok m /\ reply_of cfg st t2 e b ans = Some r /\ mac = takeN 6 (d_chaddr m) /\
    f = udp4_frame (frame_args e m r mac) /\
    wf_dhcp r = true /\ decode (encode r) = Ok r /\
    (lenN (encode r) <= 65507 -> valid_frame (frame_args e m r mac) f = true).
Proof. exact wire_facts2. Qed.
Check S03_wire_partial : forall cfg st t1 t2 e b ans st' f,
  server_step cfg st t1 t2 e b ans = Ok (st', Some f) ->
  bytes_ok b = true -> wf_env e ->
  (forall x, In x (sc_universe cfg) -> x < 4294967296) ->
  (forall m, decode b = Ok m ->
     forallb wf_option (to_options (rs_opts (snd (walk_of cfg (request_of e m))))) = true) ->
  exists m r mac,
    decode b = Ok m /\ reply_of cfg st t2 e b ans = Some r /\ mac = takeN 6 (d_chaddr m) /\
    f = udp4_frame (frame_args e m r mac) /\
    wf_dhcp r = true /\ decode (encode r) = Ok r /\
    (lenN (encode r) <= 65507 -> valid_frame (frame_args e m r mac) f = true).
Print Assumptions S03_wire_partial.

(* S04 -- lifts C01 to histories of received datagrams: the datagrams that get as far as
   allocate_address form a lease-store history (pool_history) in which a step whose reply
   did not go out as a frame counts as lost; that history is admitted by the lease-store
   model, ends in the server's store, and in its grant log -- (client id of the request,
   yiaddr, time, recorded expiry) of every datagram answered with a frame -- no two clients
   hold one address at the same time. *)
Theorem S04_no_double_allocation : forall cfg M h st now st' fs,
  sc_max cfg = M -> sc_min cfg <= sc_max cfg ->
  Inv (fst st) -> RowsOK M now (fst st) ->
  wf_times M now h = true ->
  server_run cfg st h = Some (st', fs) ->
  exists log, run_lossy_from (fst st, []) (pool_history cfg st h) = Some (fst st', log) /\
              forall a b x t, a <> b -> ~ (holds log a x t /\ holds log b x t).
Proof. exact server_no_double. Qed.
Check S04_no_double_allocation : forall cfg M h st now st' fs,
  sc_max cfg = M -> sc_min cfg <= sc_max cfg ->
  Inv (fst st) -> RowsOK M now (fst st) ->
  wf_times M now h = true ->
  server_run cfg st h = Some (st', fs) ->
  exists log, run_lossy_from (fst st, []) (pool_history cfg st h) = Some (fst st', log) /\
              forall a b x t, a <> b -> ~ (holds log a x t /\ holds log b x t).
Print Assumptions S04_no_double_allocation.

(* S05 -- C18: "closing and reopening ... the server then behaves exactly as an uninterrupted
   server would: replies(run(h1); reopen; run(h2)) = replies(run(h1 ++ h2))".
   A restart keeps the lease rows (TRUSTED: SQLite durability -- every INSERT is committed
   before the reply is built; checked on the real store by the Restart and Kill events of the
   correspondence) and empties the in-memory set of server identifiers (Model/DhcpServer.v
   `restart`).  For single-homed use -- every REQUEST of h2 names no server or the address of
   the interface it arrives on -- the frames and the final rows are the same. *)
Theorem S05_restart_transparent : forall cfg st h1 h2,
  Forall names_own_address h2 ->
  option_map view (server_run cfg st (h1 ++ h2)) = option_map view (run_restart cfg st h1 h2).
Proof. exact restart_transparent. Qed.
Check S05_restart_transparent : forall cfg st h1 h2,
  Forall names_own_address h2 ->
  option_map view (server_run cfg st (h1 ++ h2)) = option_map view (run_restart cfg st h1 h2).
Print Assumptions S05_restart_transparent.

(* Without the hypothesis the statement is false: a server with two interfaces answers a
   DISCOVER on 192.0.2.1; a REQUEST arriving on 198.51.100.1 that names 192.0.2.1 is answered
   by the uninterrupted server (it remembers having used that identifier) and dropped as
   "for another server" after a restart (witness: the mh_ definitions of Proofs/DhcpServerRestart.v). *)
Theorem S05_multihomed_refuted :
  exists cfg st h1 h2,
    option_map view (server_run cfg st (h1 ++ h2)) <> option_map view (run_restart cfg st h1 h2).
Proof. exact multihomed_refuted. Qed.
Check S05_multihomed_refuted :
  exists cfg st h1 h2,
    option_map view (server_run cfg st (h1 ++ h2)) <> option_map view (run_restart cfg st h1 h2).
Print Assumptions S05_multihomed_refuted.

(* S06 -- a kill between the INSERT and the send, followed by a restart: the row (if any) is
   written, no frame leaves, the identifier set is lost (server_run_k).  S04 survives: the
   lease-store view of such a history (pool_history_k: a killed step counts as a lost reply)
   is admitted by the lease-store model, ends in the server's rows, and no two clients hold
   one address in its grant log -- the store contains every lease whose reply had been
   produced, and a lease written without a reply only ever makes the server more careful. *)
Theorem S06_kill_keeps_no_double_allocation : forall cfg M h st now st' fs,
  sc_max cfg = M -> sc_min cfg <= sc_max cfg ->
  Inv (fst st) -> RowsOK M now (fst st) ->
  wf_times M now (map fst h) = true ->
  server_run_k cfg st h = Some (st', fs) ->
  exists log, run_lossy_from (fst st, []) (pool_history_k cfg st h) = Some (fst st', log) /\
              forall a b x t, a <> b -> ~ (holds log a x t /\ holds log b x t).
Proof. exact server_k_no_double. Qed.
Check S06_kill_keeps_no_double_allocation : forall cfg M h st now st' fs,
  sc_max cfg = M -> sc_min cfg <= sc_max cfg ->
  Inv (fst st) -> RowsOK M now (fst st) ->
  wf_times M now (map fst h) = true ->
  server_run_k cfg st h = Some (st', fs) ->
  exists log, run_lossy_from (fst st, []) (pool_history_k cfg st h) = Some (fst st', log) /\
              forall a b x t, a <> b -> ~ (holds log a x t /\ holds log b x t).
Print Assumptions S06_kill_keeps_no_double_allocation.

(* ---- the hypotheses are satisfiable: a /24, a DISCOVER with the broadcast bit, then the
   REQUEST naming the offered address, then a DISCOVER of another client ------------- *)
Definition exs_g : config :=
  {| g_dns := None; g_search := []; g_portal := None; g_addresses := [P4 3221225984 24]; g_policies := [] |}.
Definition exs_cfg : scfg :=
  {| sc_conf := exs_g; sc_universe := map (fun k => 3221225984 + N.of_nat k) (seq 0 256); sc_min := 300; sc_max := 86400 |}.
Definition exs_env : env :=
  {| e_serverip := 3221225985; e_mac := [2; 0; 94; 16; 0; 1]; e_port := 68; e_mtu := Some 1500; e_router := None |}.
Definition exs_msg (t : N) (flags : N) (mac6 : N) (extra : list (N * list N)) : dhcp :=
  {| d_op := 1; d_htype := 1; d_hlen := 6; d_hops := 0; d_xid := 305419896; d_secs := 0; d_flags := flags;
     d_ciaddr := 0; d_yiaddr := 0; d_siaddr := 0; d_giaddr := 0; d_chaddr := [0; 0; 94; 0; 83; mac6];
     d_sname := []; d_file := []; d_options := (53, [t]) :: (55, [1; 3; 6; 26; 51]) :: extra |}.
Definition exs_ev (t1 : N) (m : dhcp) (a : answer) : sevent :=
  {| se_t1 := t1; se_t2 := t1; se_env := exs_env; se_bytes := encode m; se_ans := a |}.
Definition exs_history : list sevent :=
  [ exs_ev 1000 (exs_msg 1 32768 1 []) (Granted 3221226061 300 NewAddress);
    exs_ev 1002 (exs_msg 3 0 1 [(50, [192; 0; 2; 77]); (54, [192; 0; 2; 1])]) (Granted 3221226061 300 ReusingLease);
    exs_ev 1003 (exs_msg 7 0 1 []) NoAddress;                                        (* RELEASE: not answered *)
    exs_ev 1004 (exs_msg 1 0 2 [(50, [192; 0; 2; 77])]) (Granted 3221226062 300 NewAddress) ].

Definition exs_b1 : list N := encode (exs_msg 1 32768 1 []).
Definition exs_a1 : answer := Granted 3221226061 300 NewAddress.
(* closed boolean statements, decided by computation *)
Example S_example_step :
  match server_step exs_cfg ([], []) 1000 1000 exs_env exs_b1 exs_a1,
        decode exs_b1, reply_of exs_cfg ([], []) 1000 exs_env exs_b1 exs_a1 with
  | Ok (st', Some f), Ok m, Some r =>
      let mac := takeN 6 (d_chaddr m) in
      valid_frame (frame_args exs_env m r mac) f
      && bytes_eqb (u_dst_ip (frame_args exs_env m r mac)) [255; 255; 255; 255]
      && wf_dhcp r && allowed exs_g (request_of exs_env m) (d_yiaddr r)
      && (lenN f =? 314) && (lenN (fst st') =? 1) && bytes_eqb (snd st') [3221225985]
  | _, _, _ => false
  end = true.
Proof. vm_compute. reflexivity. Qed.

Example S_example_history :
  wf_times 86400 0 exs_history = true /\
  match server_run exs_cfg ([], []) exs_history with
  | Some (st', fs) => (lenN fs =? 3) && (lenN (fst st') =? 2)
                      && (lenN (pool_history exs_cfg ([], []) exs_history) =? 3)
  | None => false
  end = true.
Proof. split; vm_compute; reflexivity. Qed.

(* S05: the example history is single-homed (its REQUEST names 192.0.2.1, the receiving
   address), and a restart after the first datagram changes neither frames nor rows;
   S06: the same history with the REQUEST killed after its INSERT. *)
Example S_example_restart :
  match server_run exs_cfg ([], []) exs_history,
        run_restart exs_cfg ([], []) (firstn 1 exs_history) (skipn 1 exs_history) with
  | Some a, Some b => (lenN (snd a) =? 3) && (lenN (snd b) =? 3) && (lenN (fst (fst b)) =? 2)
  | _, _ => false
  end = true.
Proof. vm_compute. reflexivity. Qed.
Example S_example_kill :
  match server_run_k exs_cfg ([], []) (combine exs_history [false; true; false; false]) with
  | Some (st', fs) => (lenN fs =? 2) && (lenN (fst st') =? 2)
                      && (lenN (pool_history_k exs_cfg ([], []) (combine exs_history [false; true; false; false])) =? 3)
  | None => false
  end = true.
Proof. vm_compute. reflexivity. Qed.

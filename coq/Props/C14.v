(* Property C14 -- statements only; every proof is `exact <lemma from Proofs/>`. *)
From Erbium Require Import Lib.Base Model.DnsName Model.DnsCodec Proofs.DnsName Proofs.DnsRecord Proofs.DnsPacket Proofs.DnsWf Proofs.DnsRoundtrip Model.DnsStrict Proofs.DnsStrictProofs.

(* Names, with the dictionary (suffix tree) invariant [tree_ok]: writing a
   well-formed name at the end of a buffer whose dictionary is valid never
   panics, keeps the dictionary valid for the extended buffer, and the decoder
   (hop limit 127, length limit 255) reads exactly that name back from where
   it was written and stops where the encoder stopped. *)
Theorem C14_name_roundtrip : forall buf kids n,
  0 < lenN buf -> Forall (tree_ok buf []) kids -> wf_name n = true ->
  exists b kids', push_name (lenN buf) kids n = Ok (b, kids') /\
    Forall (tree_ok (buf ++ b) []) kids' /\
    get_domain (buf ++ b) (lenN buf) = Ok (n, lenN buf + lenN b).
Proof. exact name_roundtrip. Qed.
Check C14_name_roundtrip : forall buf kids n,
  0 < lenN buf -> Forall (tree_ok buf []) kids -> wf_name n = true ->
  exists b kids', push_name (lenN buf) kids n = Ok (b, kids') /\
    Forall (tree_ok (buf ++ b) []) kids' /\
    get_domain (buf ++ b) (lenN buf) = Ok (n, lenN buf + lenN b).
Print Assumptions C14_name_roundtrip.

(* the hypotheses are satisfiable: the empty dictionary is valid for any buffer *)
Example C14_empty_dictionary_ok : forall buf, Forall (tree_ok buf []) [].
Proof. constructor. Qed.
Example C14_wf_name_example : wf_name [[119;119;119]; [101;120]; [99;111;109]] = true.
Proof. reflexivity. Qed.

(* Any number of names written one after the other against one dictionary
   (all names of a message): each is read back, also after the buffer has been
   extended by whatever follows. *)
Theorem C14_names_roundtrip : forall ns buf kids,
  0 < lenN buf -> Forall (tree_ok buf []) kids -> forallb wf_name ns = true ->
  exists bs, push_names (lenN buf) kids ns = Ok bs /\
    forall ext, get_domains (buf ++ bs ++ ext) (lenN buf) (length ns) = Ok ns.
Proof. exact names_roundtrip. Qed.
Check C14_names_roundtrip : forall ns buf kids,
  0 < lenN buf -> Forall (tree_ok buf []) kids -> forallb wf_name ns = true ->
  exists bs, push_names (lenN buf) kids ns = Ok bs /\
    forall ext, get_domains (buf ++ bs ++ ext) (lenN buf) (length ns) = Ok ns.
Print Assumptions C14_names_roundtrip.

(* Pointers: the strict name decoder of the specification side accepts a name
   only if every compression pointer on its path targets an offset strictly
   below the pointer's own offset and below 0x4000 (Model/DnsName.v
   strict_name).  It accepts every name the encoder writes.
   The packet-level statement is C14_pointers_backwards_and_small below. *)
Theorem C14_name_pointers_backwards_and_small : forall buf kids n,
  0 < lenN buf -> Forall (tree_ok buf []) kids -> wf_name n = true ->
  exists b kids', push_name (lenN buf) kids n = Ok (b, kids') /\
    strict_name NAME_FUEL (buf ++ b) (dropN (lenN buf) (buf ++ b)) (lenN buf) 0 = Some (n, lenN buf + lenN b).
Proof. exact name_pointers_strict. Qed.
Check C14_name_pointers_backwards_and_small : forall buf kids n,
  0 < lenN buf -> Forall (tree_ok buf []) kids -> wf_name n = true ->
  exists b kids', push_name (lenN buf) kids n = Ok (b, kids') /\
    strict_name NAME_FUEL (buf ++ b) (dropN (lenN buf) (buf ++ b)) (lenN buf) 0 = Some (n, lenN buf + lenN b).
Print Assumptions C14_name_pointers_backwards_and_small.

(* The decoder reads exactly what the "meaning of the octets" relation says,
   as long as the hop count stays within LIMIT and the name within 255 octets. *)
Theorem C14_decoder_complete : forall buf off h ls nxt,
  name_at buf off h ls nxt -> (h <= 127)%nat -> (length ls <= 127)%nat -> wire_len ls <= 255 ->
  get_domain buf off = Ok (ls, nxt).
Proof. exact get_domain_complete. Qed.
Check C14_decoder_complete : forall buf off h ls nxt,
  name_at buf off h ls nxt -> (h <= 127)%nat -> (length ls <= 127)%nat -> wire_len ls <= 255 ->
  get_domain buf off = Ok (ls, nxt).
Print Assumptions C14_decoder_complete.

(* Everything the decoder returns is well-formed, i.e. in the domain on which the
   encoder is specified and C14_roundtrip holds: names of 1..63-octet labels and
   at most 255 octets, field widths, record data kind matching the type, no OPT
   left in the additional section, EDNS fields consistent (version 0; without
   OPT: rcode < 16, size 512, DO clear), counts below 65536.  ([bytes_ok b]: the
   elements of b are octets.) *)
Theorem C14_decoded_is_wf : forall b m, bytes_ok b = true -> decode b = Ok m -> wf_pkt m = true.
Proof. exact decode_wf. Qed.
Check C14_decoded_is_wf : forall b m, bytes_ok b = true -> decode b = Ok m -> wf_pkt m = true.
Print Assumptions C14_decoded_is_wf.

(* The first half of the property text: any message the decoder accepts is
   re-encoded (when the re-encoding drops nothing, i.e. fits the limit) into
   octets that decode to the identical message.  With the decoder's former
   limits (10 hops, no bound on name length) this is false: F18, F45. *)
Theorem C14_decode_encode_decode : forall b m size e,
  bytes_ok b = true -> decode b = Ok m -> encode_sized_t m size = Ok (e, false) -> decode e = Ok m.
Proof. exact decode_encode_decode. Qed.
Check C14_decode_encode_decode : forall b m size e,
  bytes_ok b = true -> decode b = Ok m -> encode_sized_t m size = Ok (e, false) -> decode e = Ok m.
Print Assumptions C14_decode_encode_decode.

(* names level of the same two statements (kept: they are what the packet level rests on) *)
Theorem C14_decoded_name_is_wf : forall buf off n nxt,
  bytes_ok buf = true -> get_domain buf off = Ok (n, nxt) -> wf_name n = true.
Proof. exact get_domain_wf. Qed.
Check C14_decoded_name_is_wf : forall buf off n nxt,
  bytes_ok buf = true -> get_domain buf off = Ok (n, nxt) -> wf_name n = true.
Print Assumptions C14_decoded_name_is_wf.

(* Record level, byte exact, all eleven kinds of record data: owner name and
   every name inside the data are compressed against the dictionary (data names
   at their final offsets, after type/class/ttl/rdlength); the encoder does not
   panic; get_rr on the final buffer -- whatever follows the record -- returns
   the record and consumes exactly its octets; the dictionary stays valid. *)
Theorem C14_rr_roundtrip : forall buf kids r,
  0 < lenN buf -> Forall (tree_ok buf []) kids -> wf_rr r = true ->
  exists b kids', push_rr (lenN buf) kids r = Ok (b, kids') /\
    Forall (tree_ok (buf ++ b) []) kids' /\ 0 < lenN b /\
    forall post, get_rr (buf ++ b ++ post) (b ++ post, lenN buf) = Ok (r, (post, lenN buf + lenN b)).
Proof. exact rr_written. Qed.
Check C14_rr_roundtrip : forall buf kids r,
  0 < lenN buf -> Forall (tree_ok buf []) kids -> wf_rr r = true ->
  exists b kids', push_rr (lenN buf) kids r = Ok (b, kids') /\
    Forall (tree_ok (buf ++ b) []) kids' /\ 0 < lenN b /\
    forall post, get_rr (buf ++ b ++ post) (b ++ post, lenN buf) = Ok (r, (post, lenN buf + lenN b)).
Print Assumptions C14_rr_roundtrip.

(* The packet level, at full strength: for every well-formed message m and every
   size limit, if the serialiser produced e without dropping a record (second
   component false; serialise() is size = 65536, and with nothing dropped the
   result does not depend on the limit -- C04_tcp_complete), the decoder returns
   exactly m: header bits, opcode, 12-bit rcode, EDNS version/size/DO/options
   (OPT folding), question and every record of every section with all eleven
   kinds of record data, names compressed against everything written before.
   No length hypothesis is needed: pointers only ever target offsets < 0x4000. *)
Theorem C14_roundtrip : forall m size e,
  wf_pkt m = true -> encode_sized_t m size = Ok (e, false) -> decode e = Ok m.
Proof. exact decode_encode. Qed.
Check C14_roundtrip : forall m size e,
  wf_pkt m = true -> encode_sized_t m size = Ok (e, false) -> decode e = Ok m.
Print Assumptions C14_roundtrip.

(* the hypotheses are satisfiable *)
Example C14_roundtrip_example :
  let r := {| r_name := [[119]; [97]]; r_class := 1; r_type := 15; r_ttl := 60; r_data := RMx 10 [[109]; [97]] |} in
  let m := {| qid := 7; rd := true; tc := false; aa := false; qr := true; opcode := 0; cd := false; ad := true;
              ra := true; rcode := 3843; bufsize := 1232; edns_ver := Some 0; edns_do := true;
              qname := [[97]]; qtype := 15; qclass := 1; answer := [r]; nameserver := [r]; additional := [];
              edns := Some [(10, [1;2;3;4;5;6;7;8])] |} in
  wf_pkt m = true /\ match encode_sized_t m 65536 with Ok (_, t) => t = false | _ => False end.
Proof. vm_compute. auto. Qed.

(* Pointers, packet level: every encoding of a well-formed message -- complete or
   truncated, of any size -- is accepted by the strict decoder of the
   specification side.  That decoder expands the question name, every owner name
   and every name inside record data, and gives up on any compression pointer
   whose target is not strictly below the pointer's own offset and below 0x4000
   (Model/DnsName.v strict_name, the only place where it follows a pointer); so
   every pointer in the message points backwards to an offset below 16384.  Which
   message it returns is stated in C04_sized_wellformed / C14_roundtrip. *)
Theorem C14_pointers_backwards_and_small : forall m size e t,
  wf_pkt m = true -> encode_sized_t m size = Ok (e, t) -> exists m', strict_decode e = Some m'.
Proof. exact encoding_strictly_decodable. Qed.
Check C14_pointers_backwards_and_small : forall m size e t,
  wf_pkt m = true -> encode_sized_t m size = Ok (e, t) -> exists m', strict_decode e = Some m'.
Print Assumptions C14_pointers_backwards_and_small.

(* Property C11 -- statements only; every proof is `exact <lemma from Proofs/>`.
   Model/DhcpPolicy.v is the policy walk as coded (check_policy, apply_policy,
   apply_policies); Model/DhcpPolicySpec.v is erbium.conf(5) (conds/holds,
   matches, selected, apply_chain, chain_value). *)
From Erbium Require Import Lib.Base Model.DhcpPolicy Model.DhcpPolicySpec Model.DhcpAddrs Model.DhcpAddrsSpec
  Proofs.DhcpPolicy Proofs.DhcpAddrs.

(* the coded walk = the manual's selected chain, applied outer to inner *)
Theorem C11_walk_is_spec : forall req ps resp,
  apply_policies req ps resp =
  match selected req ps with
  | None => (false, resp)
  | Some ch => (true, apply_chain req ch resp)
  end.
Proof. exact walk_is_spec. Qed.
Check C11_walk_is_spec : forall req ps resp,
  apply_policies req ps resp =
  match selected req ps with
  | None => (false, resp)
  | Some ch => (true, apply_chain req ch resp)
  end.
Print Assumptions C11_walk_is_spec.
Example C11_walk_is_spec_ex :
  selected {| r_serverip := 3221225985; r_mtu := None; r_router := None; r_chaddr := []; r_opts := [] |}
           [Policy false (Some (3221225984, 24)) None [] [] None []] <> None.
Proof. vm_compute. discriminate. Qed.

(* "Each policy is considered in turn, with the first policy that successfully
   matches being the policy that is applied" *)
Theorem C11_first_sibling_only : forall req pre p post resp,
  (forall q, In q pre -> matches req q = false) -> matches req p = true ->
  apply_policies req (pre ++ p :: post) resp = apply_policies req [p] resp.
Proof. exact first_sibling_only. Qed.
Check C11_first_sibling_only : forall req pre p post resp,
  (forall q, In q pre -> matches req q = false) -> matches req p = true ->
  apply_policies req (pre ++ p :: post) resp = apply_policies req [p] resp.
Print Assumptions C11_first_sibling_only.

Theorem C11_no_sibling_matches : forall req ps resp,
  (forall q, In q ps -> matches req q = false) -> apply_policies req ps resp = (false, resp).
Proof. exact no_sibling_matches. Qed.
Check C11_no_sibling_matches : forall req ps resp,
  (forall q, In q ps -> matches req q = false) -> apply_policies req ps resp = (false, resp).
Print Assumptions C11_no_sibling_matches.

(* "All match conditions in a policy must match (the conditions are AND'd together)" *)
Theorem C11_and_of_conditions : forall req p,
  (check_policy req p = NoMatch <-> conds p = [])
  /\ (check_policy req p = MatchSucceeded <-> conds p <> [] /\ forall c, In c (conds p) -> holds req c = true)
  /\ (check_policy req p = MatchFailed <-> exists c, In c (conds p) /\ holds req c = false).
Proof. exact check_policy_cases. Qed.
Check C11_and_of_conditions : forall req p,
  (check_policy req p = NoMatch <-> conds p = [])
  /\ (check_policy req p = MatchSucceeded <-> conds p <> [] /\ forall c, In c (conds p) -> holds req c = true)
  /\ (check_policy req p = MatchFailed <-> exists c, In c (conds p) /\ holds req c = false).
Print Assumptions C11_and_of_conditions.

(* "A policy section that contains no matches only matches if one of it's subpolicies matches" *)
Theorem C11_conditionless_needs_child : forall req p resp,
  conds p = [] ->
  (fst (apply_policies req [p] resp) = true <-> exists c, In c (p_kids p) /\ matches req c = true).
Proof. exact conditionless_needs_child. Qed.
Check C11_conditionless_needs_child : forall req p resp,
  conds p = [] ->
  (fst (apply_policies req [p] resp) = true <-> exists c, In c (p_kids p) /\ matches req c = true).
Print Assumptions C11_conditionless_needs_child.
Example C11_conditionless_ex : conds (Policy false None None [] [] None []) = [].
Proof. reflexivity. Qed.

(* "options are applied for the outer policies first, then the subpolicies can
   choose to override those values": for a requested option (other than the
   subnet-derived netmask/broadcast) the table ends with the value of the
   innermost policy of the chain that names it, whatever the outer ones said *)
Theorem C11_inner_overrides_outer : forall req k outer q v resp,
  requested req k = true -> k <> 1 -> k <> 28 ->
  last_for k (p_apply q) = Some v ->
  tget k (rs_opts (apply_chain req (outer ++ [q]) resp)) = Some v.
Proof. exact inner_overrides_outer. Qed.
Check C11_inner_overrides_outer : forall req k outer q v resp,
  requested req k = true -> k <> 1 -> k <> 28 ->
  last_for k (p_apply q) = Some v ->
  tget k (rs_opts (apply_chain req (outer ++ [q]) resp)) = Some v.
Print Assumptions C11_inner_overrides_outer.

Theorem C11_chain_value : forall req k ch,
  requested req k = true -> k <> 1 -> k <> 28 ->
  forall resp, tget k (rs_opts (apply_chain req ch resp)) = chain_value k ch (tget k (rs_opts resp)).
Proof. exact chain_value_get. Qed.
Check C11_chain_value : forall req k ch,
  requested req k = true -> k <> 1 -> k <> 28 ->
  forall resp, tget k (rs_opts (apply_chain req ch resp)) = chain_value k ch (tget k (rs_opts resp)).
Print Assumptions C11_chain_value.

(* an option the inner policies do not name keeps the outer value *)
Theorem C11_outer_inherited : forall req k outer inner resp,
  requested req k = true -> k <> 1 -> k <> 28 ->
  (forall q, In q inner -> last_for k (p_apply q) = None) ->
  tget k (rs_opts (apply_chain req (outer ++ inner) resp)) =
  tget k (rs_opts (apply_chain req outer resp)).
Proof. exact outer_inherited. Qed.
Check C11_outer_inherited : forall req k outer inner resp,
  requested req k = true -> k <> 1 -> k <> 28 ->
  (forall q, In q inner -> last_for k (p_apply q) = None) ->
  tget k (rs_opts (apply_chain req (outer ++ inner) resp)) =
  tget k (rs_opts (apply_chain req outer resp)).
Print Assumptions C11_outer_inherited.

(* "`null` removes an inherited or default value": the option is not sent *)
Theorem C11_null_unsets : forall req k outer q resp,
  requested req k = true -> k <> 1 -> k <> 28 ->
  NoDup (tkeys (rs_opts resp)) ->
  last_for k (p_apply q) = Some None ->
  ~ In k (map fst (to_options (rs_opts (apply_chain req (outer ++ [q]) resp)))).
Proof. exact null_unsets. Qed.
Check C11_null_unsets : forall req k outer q resp,
  requested req k = true -> k <> 1 -> k <> 28 ->
  NoDup (tkeys (rs_opts resp)) ->
  last_for k (p_apply q) = Some None ->
  ~ In k (map fst (to_options (rs_opts (apply_chain req (outer ++ [q]) resp)))).
Print Assumptions C11_null_unsets.
Example C11_null_unsets_ex : last_for 6 [(6, None)] = Some None /\ NoDup (tkeys []).
Proof. split; [reflexivity|constructor]. Qed.

(* "an option is only sent if the client asked for it": the walk never touches
   an option that is not in the parameter request list *)
Theorem C11_only_requested_options : forall req ps resp k,
  requested req k = false ->
  tget k (rs_opts (snd (apply_policies req ps resp))) = tget k (rs_opts resp).
Proof. exact only_requested_options. Qed.
Check C11_only_requested_options : forall req ps resp k,
  requested req k = false ->
  tget k (rs_opts (snd (apply_policies req ps resp))) = tget k (rs_opts resp).
Print Assumptions C11_only_requested_options.

(* "top-level defaults (DNS servers with $self4 replaced by the receiving
   address, search list, captive portal) apply unless overridden": after the
   whole walk of handle_discover/handle_request (built-in base policy, then
   dhcp-policies) a requested option 6 / 119 / 114 has the top-level value
   (IPv6 servers filtered out, $self4 = receiving address) unless a policy of
   the selected chain names it -- then the innermost such policy decides
   (a value, or null = not sent).
   The interface-derived defaults are the next theorem. *)
Theorem C11_defaults_unless_overridden : forall g req init k,
  requested req k = true -> k = 6 \/ k = 119 \/ k = 114 ->
  tget k (rs_opts (snd (policy_walk g req init))) =
  chain_value k (match selected req (conf_policies g) with Some ch => ch | None => [] end)
    (top_level_default g req k).
Proof. exact defaults_unless_overridden. Qed.
Check C11_defaults_unless_overridden : forall g req init k,
  requested req k = true -> k = 6 \/ k = 119 \/ k = 114 ->
  tget k (rs_opts (snd (policy_walk g req init))) =
  chain_value k (match selected req (conf_policies g) with Some ch => ch | None => [] end)
    (top_level_default g req k).
Print Assumptions C11_defaults_unless_overridden.

(* "... interface MTU and router, netmask and broadcast of the matched subnet
   apply unless overridden": when the request arrives on an `addresses` prefix
   (net/len), a requested option 26 / 3 / 1 / 28 that was not in the table
   before the walk ends as the interface MTU (as u16) / the interface router /
   the netmask of len / the broadcast address of net/len, unless a policy of
   the selected dhcp-policies chain names it (value or null).  For 26 and 3 the
   statement also covers requests received outside every `addresses` prefix
   (no default then). *)
Theorem C11_interface_defaults_unless_overridden : forall g req init k,
  wf_cfg g = true -> requested req k = true -> tget k init = None ->
  k = 26 \/ k = 3 \/ ((k = 1 \/ k = 28) /\ receiving_prefix (r_serverip req) (g_addresses g) <> None) ->
  tget k (rs_opts (snd (policy_walk g req init))) =
  chain_value k (match selected req (conf_policies g) with Some ch => ch | None => [] end)
    (interface_default g req k).
Proof. exact interface_defaults. Qed.
Check C11_interface_defaults_unless_overridden : forall g req init k,
  wf_cfg g = true -> requested req k = true -> tget k init = None ->
  k = 26 \/ k = 3 \/ ((k = 1 \/ k = 28) /\ receiving_prefix (r_serverip req) (g_addresses g) <> None) ->
  tget k (rs_opts (snd (policy_walk g req init))) =
  chain_value k (match selected req (conf_policies g) with Some ch => ch | None => [] end)
    (interface_default g req k).
Print Assumptions C11_interface_defaults_unless_overridden.

(* Property C11 -- statements only; every proof is `exact <lemma from Proofs/>`. *)
From Erbium Require Import Lib.Base Model.DhcpPolicy Model.DhcpPolicySpec Proofs.DhcpPolicy.

Theorem C11_no_policies : forall req resp, apply_policies req [] resp = (false, resp).
Proof. exact apply_policies_nil. Qed.
Check C11_no_policies : forall req resp, apply_policies req [] resp = (false, resp).
Print Assumptions C11_no_policies.

From Erbium Require Import Lib.Base Model.Acl.

(* Property C08 -- statements only; every proof is `exact <lemma from Proofs/Acl.v>`.
   Model (Model/Acl.v, upper part): require / contains / http_status / dns_gate as coded.
   Specification (Model/Acl.v, lower part): in_prefix (top len bits of the written
   address agree, an IPv4 address being the same as its ::ffff: form), rule_matches,
   first_match -- written from erbium.conf(5), no code shared with the model. *)
From Erbium Require Import Lib.Base Model.Acl Proofs.Acl.

(* "A client is granted an operation exactly when the first ACL rule whose
   conditions it satisfies grants that permission" *)
Theorem C08_decision : forall (rules : list rule) (cl : addr) (o : op),
  wf_rules rules = true -> wf_addr cl = true ->
  (require rules cl o = Granted <-> exists r, first_match rules cl r /\ permits r o = true).
Proof. exact decision_granted. Qed.
Check C08_decision : forall (rules : list rule) (cl : addr) (o : op),
  wf_rules rules = true -> wf_addr cl = true ->
  (require rules cl o = Granted <-> exists r, first_match rules cl r /\ permits r o = true).
Print Assumptions C08_decision.

(* "a client matching no rule, or whose first matching rule lacks the permission, is refused" *)
Theorem C08_refused_no_match : forall (rules : list rule) (cl : addr) (o : op),
  wf_rules rules = true -> wf_addr cl = true ->
  (require rules cl o = NotAuthenticated <-> no_match rules cl).
Proof. exact decision_not_authenticated. Qed.
Check C08_refused_no_match : forall (rules : list rule) (cl : addr) (o : op),
  wf_rules rules = true -> wf_addr cl = true ->
  (require rules cl o = NotAuthenticated <-> no_match rules cl).
Print Assumptions C08_refused_no_match.

Theorem C08_refused_lacks_permission : forall (rules : list rule) (cl : addr) (o : op),
  wf_rules rules = true -> wf_addr cl = true ->
  (require rules cl o = NotAuthorised <-> exists r, first_match rules cl r /\ permits r o = false).
Proof. exact decision_not_authorised. Qed.
Check C08_refused_lacks_permission : forall (rules : list rule) (cl : addr) (o : op),
  wf_rules rules = true -> wf_addr cl = true ->
  (require rules cl o = NotAuthorised <-> exists r, first_match rules cl r /\ permits r o = false).
Print Assumptions C08_refused_lacks_permission.

(* "A subnet condition matches every address inside the written prefix,
   including IPv4 clients seen as IPv4-mapped IPv6 addresses" -- all four
   combinations of prefix family and client family, every length 0..32 /
   0..128, host bits allowed in the written address *)
Theorem C08_contains_spec : forall (p : prefix) (ip : addr),
  wf_prefix p = true -> wf_addr ip = true -> (contains p ip = true <-> in_prefix p ip).
Proof. exact contains_spec. Qed.
Check C08_contains_spec : forall (p : prefix) (ip : addr),
  wf_prefix p = true -> wf_addr ip = true -> (contains p ip = true <-> in_prefix p ip).
Print Assumptions C08_contains_spec.

(* the executable predicates the monitor evaluates on the implementation's
   answers are the specification *)
Theorem C08_monitor_in_prefix : forall (p : prefix) (ip : addr),
  wf_prefix p = true -> wf_addr ip = true -> (in_prefix_b p ip = true <-> in_prefix p ip).
Proof. exact in_prefix_b_spec. Qed.
Check C08_monitor_in_prefix : forall (p : prefix) (ip : addr),
  wf_prefix p = true -> wf_addr ip = true -> (in_prefix_b p ip = true <-> in_prefix p ip).
Print Assumptions C08_monitor_in_prefix.

Theorem C08_monitor_granted : forall (rules : list rule) (cl : addr) (o : op),
  wf_rules rules = true -> wf_addr cl = true ->
  (spec_granted rules cl o = true <-> exists r, first_match rules cl r /\ permits r o = true).
Proof. exact spec_granted_spec. Qed.
Check C08_monitor_granted : forall (rules : list rule) (cl : addr) (o : op),
  wf_rules rules = true -> wf_addr cl = true ->
  (spec_granted rules cl o = true <-> exists r, first_match rules cl r /\ permits r o = true).
Print Assumptions C08_monitor_granted.

(* "403 for HTTP": every path of the request handler answers 403 exactly when
   the first matching rule does not grant the permission of that path; the
   permission per path is pinned by C08_http_paths *)
Theorem C08_http_gate : forall (rules : list rule) (cl : addr) (get : bool) (path : N),
  wf_rules rules = true -> wf_addr cl = true ->
  (http_status rules cl get path = 403 <->
   ~ exists r, first_match rules cl r /\ permits r (http_perm get path) = true).
Proof. exact http_gate. Qed.
Check C08_http_gate : forall (rules : list rule) (cl : addr) (get : bool) (path : N),
  wf_rules rules = true -> wf_addr cl = true ->
  (http_status rules cl get path = 403 <->
   ~ exists r, first_match rules cl r /\ permits r (http_perm get path) = true).
Print Assumptions C08_http_gate.

Theorem C08_http_paths :
  http_perm true 0 = OpHttp /\ http_perm true 1 = OpMetrics /\ http_perm true 2 = OpLeases /\
  (forall p, 3 <= p -> http_perm true p = OpLeases) /\ (forall p, http_perm false p = OpLeases).
Proof. exact http_paths. Qed.
Check C08_http_paths :
  http_perm true 0 = OpHttp /\ http_perm true 1 = OpMetrics /\ http_perm true 2 = OpLeases /\
  (forall p, 3 <= p -> http_perm true p = OpLeases) /\ (forall p, http_perm false p = OpLeases).
Print Assumptions C08_http_paths.

(* "REFUSED for DNS ... never forwarded upstream nor answered from cache":
   the ACL stage stands before routing, cache and forwarding, and hands a
   query on exactly when dns-recursion is granted *)
Theorem C08_dns_gate : forall (rules : list rule) (cl : addr),
  wf_rules rules = true -> wf_addr cl = true ->
  (dns_gate rules cl = DnsRefusedByAcl <-> ~ exists r, first_match rules cl r /\ permits r OpDns = true).
Proof. exact dns_gate_spec. Qed.
Check C08_dns_gate : forall (rules : list rule) (cl : addr),
  wf_rules rules = true -> wf_addr cl = true ->
  (dns_gate rules cl = DnsRefusedByAcl <-> ~ exists r, first_match rules cl r /\ permits r OpDns = true).
Print Assumptions C08_dns_gate.

(* the default ACLs are the three rules printed in erbium.conf(5) *)
Theorem C08_default_acls : forall addresses : list prefix,
  default_acls addresses = documented_default addresses.
Proof. exact default_acls_documented. Qed.
Check C08_default_acls : forall addresses : list prefix,
  default_acls addresses = documented_default addresses.
Print Assumptions C08_default_acls.

(* ---- the hypotheses are satisfiable; the statements are not vacuous ------- *)
(* 192.0.2.53/24 -- written with host bits -- contains 192.0.2.1 in all its guises *)
Example ex_hostbits_v4 : wf_prefix (P4 3221226037 24) = true /\ contains (P4 3221226037 24) (A4 3221225985) = true.
Proof. split; reflexivity. Qed.
Example ex_hostbits_mapped : wf_addr (A6 281473902969345) = true /\ contains (P4 3221226037 24) (A6 281473902969345) = true.
Proof. split; reflexivity. Qed.
Example ex_outside : contains (P4 3221226037 24) (A4 3221226241) = false.
Proof. reflexivity. Qed.
(* ::/0 contains an IPv4 client, seen either way *)
Example ex_v6_all : contains (P6 0 0) (A4 167772161) = true /\ contains (P6 0 0) (A6 281470849515521) = true.
Proof. split; reflexivity. Qed.
(* two overlapping rules with opposite grants: the first one decides *)
Example ex_first_match :
  let deny := {| r_subnet := Some [P4 3221226037 24]; r_unix := None; r_perm := no_perm |} in
  let allow := {| r_subnet := Some [P4 3221225472 16]; r_unix := None; r_perm := all_perm |} in
  wf_rules [deny; allow] = true /\
  require [deny; allow] (A4 3221225985) OpDns = NotAuthorised /\
  require [allow; deny] (A4 3221225985) OpDns = Granted /\
  require [deny; allow] (A4 3221226241) OpDns = Granted /\
  require [deny; allow] AUnix OpDns = NotAuthenticated /\
  http_status [deny; allow] (A4 3221225985) true 2 = 403 /\
  http_status [allow; deny] (A4 3221225985) true 2 = 200.
Proof. repeat split; reflexivity. Qed.

(* Property C05, ICMPv6 part -- statement only; the proof is `exact <lemma from Proofs/>`. *)
From Erbium Require Import Lib.Base Model.Icmp6Parse Proofs.Icmp6Parse.

(* "no input makes the router solicitation/advertisement decoder panic":
   for every `&[u8]` (octets, at most isize::MAX of them) the model of
   icmppkt::parse, in which every slice index, range, checked usize
   operation and `unwrap` of the source is an explicit abort, returns Ok or
   Err; running out of loop fuel is an abort too, so the fuel is sufficient. *)
Theorem C05_icmp6_parse_total : forall (b : list N) (k : panic_kind),
  slice_u8_ok b = true -> icmp6_parse b <> Panic k.
Proof. exact icmp6_parse_total. Qed.
Check C05_icmp6_parse_total : forall (b : list N) (k : panic_kind),
  slice_u8_ok b = true -> icmp6_parse b <> Panic k.
Print Assumptions C05_icmp6_parse_total.

(* the hypothesis is satisfiable, and the decoder does real work under it *)
Example C05_icmp6_hyp_sat :
  slice_u8_ok [133; 0; 0; 0; 0; 0; 0; 0; 1; 1; 1; 2; 3; 4; 5; 6] = true /\
  icmp6_parse [133; 0; 0; 0; 0; 0; 0; 0; 1; 1; 1; 2; 3; 4; 5; 6]
    = Ok (RtrSolicit [SourceLLAddr [1; 2; 3; 4; 5; 6]]).
Proof. split; vm_compute; reflexivity. Qed.

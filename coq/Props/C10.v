(* Property C10 -- statements only; every proof is `exact <lemma from Proofs/>`. *)
From Erbium Require Import Lib.Base Model.DhcpPool Proofs.DhcpPool.

(* "that time lies within the configured minimum and maximum" *)
Theorem C10_bounds :
  forall d o t1 t2 ip secs k d',
  alloc_ok d o t1 t2 (Granted ip secs k) = Some d' ->
  o_min o <= o_max o -> o_min o <= secs <= o_max o.
Proof. exact lease_bounds. Qed.
Check C10_bounds :
  forall d o t1 t2 ip secs k d',
  alloc_ok d o t1 t2 (Granted ip secs k) = Some d' ->
  o_min o <= o_max o -> o_min o <= secs <= o_max o.
Print Assumptions C10_bounds.

(* "the server's own record of the lease does not expire before the moment the
   reply was produced plus the advertised time": the row written for the
   granted address starts at the (later) clock read t2 and ends at t2 + secs *)
Theorem C10_record_covers :
  forall d o t1 t2 ip secs k d',
  alloc_ok d o t1 t2 (Granted ip secs k) = Some d' ->
  t2 + secs < pow2 32 ->
  exists r, find_addr ip d' = Some r /\ r_client r = o_client o /\
            r_start r = t2 /\ r_expiry r = t2 + secs.
Proof. exact record_covers. Qed.
Check C10_record_covers :
  forall d o t1 t2 ip secs k d',
  alloc_ok d o t1 t2 (Granted ip secs k) = Some d' ->
  t2 + secs < pow2 32 ->
  exists r, find_addr ip d' = Some r /\ r_client r = o_client o /\
            r_start r = t2 /\ r_expiry r = t2 + secs.
Print Assumptions C10_record_covers.

(* "Every OFFER and ACK carries an IP-address-lease-time": whatever the
   policies put into the option map, the reply's option 51 is the lease time
   the pool returned *)
Theorem C10_reply_carries_it :
  forall (is_request : bool) policy_opts serverid secs,
  secs < pow2 32 ->
  get_opt OPT_LEASETIME (reply_options is_request policy_opts serverid secs) = Some (be32 secs).
Proof. exact reply_carries_lease_time. Qed.
Check C10_reply_carries_it :
  forall (is_request : bool) policy_opts serverid secs,
  secs < pow2 32 ->
  get_opt OPT_LEASETIME (reply_options is_request policy_opts serverid secs) = Some (be32 secs).
Print Assumptions C10_reply_carries_it.

(* "A client that keeps renewing never sees its lease time fall outside those
   bounds, whatever the renewal rhythm": every grant of every admitted history *)
Theorem C10_renewal_stays_bounded :
  forall h d log, wf_history h = true -> run h = Some (d, log) ->
  Forall (fun g => g_min g <= g_secs g <= g_max g) log.
Proof. exact renewal_stays_bounded. Qed.
Check C10_renewal_stays_bounded :
  forall h d log, wf_history h = true -> run h = Some (d, log) ->
  Forall (fun g => g_min g <= g_secs g <= g_max g) log.
Print Assumptions C10_renewal_stays_bounded.

(* Hypotheses are satisfiable: a renewal after 50 s (3 x 50 < min: clamped up),
   after 40000 s (3 x 40000 > max: clamped down), and a policy that tries to
   set option 51 itself. *)
Definition ex_o10 : op := {| o_client := [1]; o_req := None; o_pool := [10]; o_min := 300; o_max := 86400 |}.
Definition ex_h10 : list event :=
  [ EAlloc ex_o10 1000 1000 (Granted 10 300 NewAddress);
    EAlloc ex_o10 1050 1050 (Granted 10 300 ReusingLease);
    EAlloc ex_o10 1200 1201 (Granted 10 450 ReusingLease);
    EAlloc ex_o10 1500 1500 (Granted 10 897 ReusingLease);
    ETick 40000;
    EAlloc ex_o10 41500 41500 (Granted 10 1794 Revived);
    EAlloc ex_o10 42000 42000 (Granted 10 1500 ReusingLease);
    EAlloc ex_o10 43000 43000 (Granted 10 3000 ReusingLease);
    ETick 40000;
    EAlloc ex_o10 83000 83000 (Granted 10 6000 Revived) ].
Example C10_example :
  wf_history ex_h10 = true /\ exists d log, run ex_h10 = Some (d, log) /\ length log = 8%nat.
Proof. split. reflexivity. eexists. eexists. split. vm_compute. reflexivity. reflexivity. Qed.
Example C10_example_reply :
  get_opt OPT_LEASETIME (reply_options false [(51, Some [0; 0; 30; 97]); (6, None)] [192; 0; 2; 254] 300)
  = Some [0; 0; 1; 44].
Proof. reflexivity. Qed.

(* Property C07 (claimed PARTIAL) -- statements only; every proof is
   `exact <lemma from Proofs/>`.

   The theorems are about the LOGIC of the out-query path as state machines
   whose inputs are everything the runtime decides: the order in which the
   per-upstream TCP task sees submissions, replies and connection failures
   (Demux), the fate and delay of each UDP transmission and the random jitter
   (Retry).  They hold for ALL such inputs.  The runtime itself (tokio's
   scheduler and timers, kernel socket queues, the real clock) is not
   modelled; that the real code behaves like the machines is checked, not
   proved, by the correspondence run. *)
From Erbium Require Import Lib.Base Model.Cmsg Model.OutQuery Proofs.Cmsg Proofs.OutQuery.

(* ---- (i) the shared TCP channel to one upstream, repaired code --------
   For every finite history of the task (any interleaving of submissions with
   arbitrary ids -- colliding or not --, replies in any order, duplicated or
   missing, connect/write failures and connection errors), with each waiter
   submitting once: a waiter is either still waiting and has received nothing,
   or has received exactly one result; a reply it receives carries the id it
   submitted, arrived under the wire id its query was sent with and carries the
   question the waiter asked (a reply with another question is dropped, F45
   repaired); nobody else receives anything. *)
Theorem C07_demux_exactly_once : forall evs s o,
  demux_run d_init evs = (s, o) ->
  NoDup (map fst (submissions evs)) ->
  (forall w id, In (w, id) (submissions evs) ->
     (pending w (d_map s) = false -> exists r, deliveries w o = [r]) /\
     (pending w (d_map s) = true -> deliveries w o = []) /\
     (forall orig wire rq, In (RReply orig wire rq) (deliveries w o) ->
        orig = id /\ In (Sent w wire) o /\ In (w, rq) (questions evs))) /\
  (forall w, ~ In w (map fst (submissions evs)) -> deliveries w o = [] /\ pending w (d_map s) = false).
Proof. exact demux_exactly_once. Qed.
Check C07_demux_exactly_once : forall evs s o,
  demux_run d_init evs = (s, o) ->
  NoDup (map fst (submissions evs)) ->
  (forall w id, In (w, id) (submissions evs) ->
     (pending w (d_map s) = false -> exists r, deliveries w o = [r]) /\
     (pending w (d_map s) = true -> deliveries w o = []) /\
     (forall orig wire rq, In (RReply orig wire rq) (deliveries w o) ->
        orig = id /\ In (Sent w wire) o /\ In (w, rq) (questions evs))) /\
  (forall w, ~ In w (map fst (submissions evs)) -> deliveries w o = [] /\ pending w (d_map s) = false).
Print Assumptions C07_demux_exactly_once.

Example C07_demux_exactly_once_nonvacuous :
  let evs := [Submit 0 7 100 IoOk; Submit 1 7 101 IoOk; Submit 2 9 102 IoOk;
              Arrive 8 101; Arrive 8 101; Arrive 7 100; Submit 3 7 103 IoOk; Arrive 7 100; ConnError] in
  NoDup (map fst (submissions evs)) /\
  snd (demux_run d_init evs) =
  [Sent 0 7; Sent 1 8; Sent 2 9; Deliver 1 (RReply 7 8 101); Deliver 0 (RReply 7 7 100); Sent 3 7;
   Deliver 3 RErrTcp; Deliver 2 RErrTcp].
Proof. split; [simpl; repeat constructor; simpl; intuition discriminate | reflexivity]. Qed.

(* ... and nobody waits forever: whatever is in flight is released by the next
   connection event (EOF, read error, or either of the two 120 s timers). *)
Theorem C07_demux_conn_error_releases_all : forall evs s o,
  demux_run d_init (evs ++ [ConnError]) = (s, o) -> d_map s = [].
Proof. exact demux_conn_error_releases_all. Qed.
Check C07_demux_conn_error_releases_all : forall evs s o,
  demux_run d_init (evs ++ [ConnError]) = (s, o) -> d_map s = [].
Print Assumptions C07_demux_conn_error_releases_all.

(* the repaired task always finds a free wire id while fewer than 65536 queries
   are in flight (pigeonhole): the model branch "probe ran out of fuel" is dead,
   and the Rust `while contains_key` loop terminates *)
Theorem C07_demux_probe_total : forall V (m : list (N * V)) id, id < 65536 -> lenN m < 65536 ->
  probe (S (length m)) id m <> None.
Proof. exact probe_total. Qed.
Check C07_demux_probe_total : forall V (m : list (N * V)) id, id < 65536 -> lenN m < 65536 ->
  probe (S (length m)) id m <> None.
Print Assumptions C07_demux_probe_total.

(* ---- (i) the code as found (F37): two in-flight queries with one id kill
   the task; both waiters fail although nothing went wrong on the network, and
   so does every query submitted afterwards, whatever its id. *)
Theorem C07_demux_collision_refuted :
  exists evs,
    evs = [Submit 0 7 100 IoOk; Submit 1 7 101 IoOk] /\
    NoDup (map fst (submissions evs)) /\
    deliveries 0 (snd (odemux_run o_init evs)) = [RErrInternal] /\
    deliveries 1 (snd (odemux_run o_init evs)) = [RErrInternal] /\
    forall more w id q i,
      In (Deliver w RErrInternal) (snd (odemux_run o_init (evs ++ more ++ [Submit w id q i]))) /\
      forall r, In (Deliver w r) (snd (odemux_run (fst (odemux_run o_init evs)) (more ++ [Submit w id q i]))) ->
                r = RErrInternal.
Proof. exact demux_collision_refuted. Qed.
Check C07_demux_collision_refuted :
  exists evs,
    evs = [Submit 0 7 100 IoOk; Submit 1 7 101 IoOk] /\
    NoDup (map fst (submissions evs)) /\
    deliveries 0 (snd (odemux_run o_init evs)) = [RErrInternal] /\
    deliveries 1 (snd (odemux_run o_init evs)) = [RErrInternal] /\
    forall more w id q i,
      In (Deliver w RErrInternal) (snd (odemux_run o_init (evs ++ more ++ [Submit w id q i]))) /\
      forall r, In (Deliver w r) (snd (odemux_run (fst (odemux_run o_init evs)) (more ++ [Submit w id q i]))) ->
                r = RErrInternal.
Print Assumptions C07_demux_collision_refuted.

(* ... and a collision is the only way: on every history in which no submission
   carries an id that is in flight and every reply arriving under an id in
   flight answers the question sent under it, the code as found produces
   exactly the outputs of the repaired code (so C07_demux_exactly_once applies
   to it) and its task stays alive. *)
Theorem C07_demux_orig_agrees_without_collision : forall evs,
  no_collision o_init evs -> well_answered d_init evs ->
  snd (odemux_run o_init evs) = snd (demux_run d_init evs) /\
  o_dead (fst (odemux_run o_init evs)) = false.
Proof. exact orig_agrees_without_collision. Qed.
Check C07_demux_orig_agrees_without_collision : forall evs,
  no_collision o_init evs -> well_answered d_init evs ->
  snd (odemux_run o_init evs) = snd (demux_run d_init evs) /\
  o_dead (fst (odemux_run o_init evs)) = false.
Print Assumptions C07_demux_orig_agrees_without_collision.

Example C07_demux_orig_agrees_nonvacuous :
  let evs := [Submit 0 7 100 IoOk; Submit 1 8 101 IoOk; Arrive 8 101; Submit 2 8 102 IoOk; ConnError] in
  no_collision o_init evs /\ well_answered d_init evs.
Proof. simpl. repeat split; reflexivity. Qed.

(* ---- composition: the answer a client gets is the answer to ITS question ----
   For every history of the shared TCP channel (any interleaving with the
   other queries in flight, ids colliding or not, replies delayed, reordered,
   repeated -- also after their id was re-used -- or lost, connection
   failures), every outcome [u] of the query's own UDP retransmission loop
   (every loss pattern, delay, jitter: [u] is arbitrary) and either client
   transport: the reply built for the client carries the client's id, and it
   either relays an upstream answer to the client's OWN question or is
   SERVFAIL.  Honest upstream = a reply carries the answer to the question it
   echoes; over UDP each attempt has its own connected socket (the kernel hands
   it only replies to that attempt), which is why [answered_question] says [q]
   there. *)
Theorem C07_own_answer : forall evs s o,
  demux_run d_init evs = (s, o) ->
  NoDup (map fst (submissions evs)) ->
  forall w id q, In (w, id) (submissions evs) -> In (w, q) (questions evs) ->
  forall t, In t (deliveries w o) ->
  forall client_tcp u cq up,
    let rep := in_reply_of cq up (handle_query_model client_tcp id u t) in
    ir_qid rep = cq /\
    match answered_question client_tcp id q u t with
    | Some q' => q' = q /\ ir_from_upstream rep = true /\ ir_rcode rep = up
    | None => ir_rcode rep = SERVFAIL /\ ir_from_upstream rep = false
    end.
Proof. exact own_answer. Qed.
Check C07_own_answer : forall evs s o,
  demux_run d_init evs = (s, o) ->
  NoDup (map fst (submissions evs)) ->
  forall w id q, In (w, id) (submissions evs) -> In (w, q) (questions evs) ->
  forall t, In t (deliveries w o) ->
  forall client_tcp u cq up,
    let rep := in_reply_of cq up (handle_query_model client_tcp id u t) in
    ir_qid rep = cq /\
    match answered_question client_tcp id q u t with
    | Some q' => q' = q /\ ir_from_upstream rep = true /\ ir_rcode rep = up
    | None => ir_rcode rep = SERVFAIL /\ ir_from_upstream rep = false
    end.
Print Assumptions C07_own_answer.

(* the stale reply of F45: waiter 0 (question 100) is answered, its id 7 is taken by waiter 1
   (question 101), the upstream repeats the reply to question 100 under id 7 -- dropped; the
   code as found handed it to waiter 1 *)
Example C07_own_answer_stale_reply :
  let evs := [Submit 0 7 100 IoOk; Arrive 7 100; Submit 1 7 101 IoOk; Arrive 7 100; Arrive 7 101] in
  snd (demux_run d_init evs) = [Sent 0 7; Deliver 0 (RReply 7 7 100); Sent 1 7; Deliver 1 (RReply 7 7 101)] /\
  snd (odemux_run o_init evs) = [Sent 0 7; Deliver 0 (RReply 7 7 100); Sent 1 7; Deliver 1 (RReply 7 7 100)].
Proof. split; reflexivity. Qed.

(* ---- (ii) the UDP retransmission loop ---------------------------------
   For every fate of every transmission (lost / answered after any delay /
   socket error after any delay), every sequence of jitter values and every
   first-retry delay t0 > 0 (the code keeps it within 300..2000 ms): at most 4
   transmissions; the loop ends no later than 25.375 * t0 after it started
   (8 * elapsed <= 203 * t0; with t0 <= 2000 ms that is 50.75 s); it gives up
   only after the 4th transmission. *)
Theorem C07_retry_bounded : forall fates jit t0, 0 < t0 ->
  transmissions (retry fates jit t0) <= 4 /\ 8 * elapsed (retry fates jit t0) <= 203 * t0 /\
  (is_timeout (retry fates jit t0) = true -> transmissions (retry fates jit t0) = 4).
Proof. exact retry_bounded. Qed.
Check C07_retry_bounded : forall fates jit t0, 0 < t0 ->
  transmissions (retry fates jit t0) <= 4 /\ 8 * elapsed (retry fates jit t0) <= 203 * t0 /\
  (is_timeout (retry fates jit t0) = true -> transmissions (retry fates jit t0) = 4).
Print Assumptions C07_retry_bounded.

Example C07_retry_bounded_nonvacuous :
  retry [Lost; Reply 100000000] [0; 0; 0; 0] 300000000 = UAnswered 2 400000000 2 /\
  retry [Lost; Lost; Lost; Lost] [0; 0; 0; 0] 300000000 = UTimeout 2437500000 4.
Proof. split; reflexivity. Qed.

(* the global adaptive first-retry delay never leaves 300 ms .. 2 s, whatever replies are
   timed how (so every query starts within that range) ... *)
Theorem C07_adaptive_delay_in_range : forall initial cur dur attempts,
  MIN_TIMEOUT <= cur <= MAX_TIMEOUT ->
  MIN_TIMEOUT <= adapt initial cur dur attempts <= MAX_TIMEOUT.
Proof. exact adapt_in_range. Qed.
Check C07_adaptive_delay_in_range : forall initial cur dur attempts,
  MIN_TIMEOUT <= cur <= MAX_TIMEOUT ->
  MIN_TIMEOUT <= adapt initial cur dur attempts <= MAX_TIMEOUT.
Print Assumptions C07_adaptive_delay_in_range.

(* ... and with a first-retry delay in that range the loop ends within 50.75 s *)
Theorem C07_retry_bounded_capped : forall fates jit t0, 0 < t0 <= MAX_TIMEOUT ->
  elapsed (retry fates jit t0) <= 50750000000.
Proof. exact retry_bounded_capped. Qed.
Check C07_retry_bounded_capped : forall fates jit t0, 0 < t0 <= MAX_TIMEOUT ->
  elapsed (retry fates jit t0) <= 50750000000.
Print Assumptions C07_retry_bounded_capped.

Example C07_adaptive_delay_late_reply :
  adapt 300000000 300000000 1200000000 3 = MAX_TIMEOUT /\ adapt 300000000 300000000 1000000 2 = MIN_TIMEOUT.
Proof. split; reflexivity. Qed.

(* an answer taken by the loop is the reply to one of the transmissions made *)
Theorem C07_retry_answer_genuine : forall fates jit t0 i a s,
  retry fates jit t0 = UAnswered i a s ->
  1 <= i <= s /\ exists d, nth_error fates (N.to_nat (i - 1)) = Some (Reply d).
Proof. exact retry_answer_genuine. Qed.
Check C07_retry_answer_genuine : forall fates jit t0 i a s,
  retry fates jit t0 = UAnswered i a s ->
  1 <= i <= s /\ exists d, nth_error fates (N.to_nat (i - 1)) = Some (Reply d).
Print Assumptions C07_retry_answer_genuine.

(* ---- silent upstream => SERVFAIL with the client's id, in bounded time -- *)
Theorem C07_timeout_is_servfail : forall fates jit t0 id rid tc t client_qid up_rcode,
  0 < t0 -> all_lost fates = true ->
  let u := retry fates jit t0 in
  let rep := in_reply_of client_qid up_rcode (handle_query_model false id (udp_res_of u rid tc) t) in
  ir_rcode rep = SERVFAIL /\ ir_qid rep = client_qid /\ transmissions u = 4 /\ 8 * elapsed u <= 203 * t0.
Proof. exact silent_upstream_servfail. Qed.
Check C07_timeout_is_servfail : forall fates jit t0 id rid tc t client_qid up_rcode,
  0 < t0 -> all_lost fates = true ->
  let u := retry fates jit t0 in
  let rep := in_reply_of client_qid up_rcode (handle_query_model false id (udp_res_of u rid tc) t) in
  ir_rcode rep = SERVFAIL /\ ir_qid rep = client_qid /\ transmissions u = 4 /\ 8 * elapsed u <= 203 * t0.
Print Assumptions C07_timeout_is_servfail.

Example C07_timeout_is_servfail_nonvacuous : all_lost [Lost; Lost; Lost; Lost] = true /\ all_lost [] = true.
Proof. split; reflexivity. Qed.

(* every out-query error, not only Timeout, becomes SERVFAIL with the client's id *)
Theorem C07_any_error_is_servfail : forall client_qid up_rcode e,
  ir_rcode (in_reply_of client_qid up_rcode (OqErr e)) = SERVFAIL /\
  ir_qid (in_reply_of client_qid up_rcode (OqErr e)) = client_qid /\
  ir_from_upstream (in_reply_of client_qid up_rcode (OqErr e)) = false.
Proof. exact timeout_is_servfail. Qed.
Check C07_any_error_is_servfail : forall client_qid up_rcode e,
  ir_rcode (in_reply_of client_qid up_rcode (OqErr e)) = SERVFAIL /\
  ir_qid (in_reply_of client_qid up_rcode (OqErr e)) = client_qid /\
  ir_from_upstream (in_reply_of client_qid up_rcode (OqErr e)) = false.
Print Assumptions C07_any_error_is_servfail.

(* ---- (iii) a UDP reply is used as the answer only if it carries the id of
   the query and is not truncated; anything else is retried over TCP -------- *)
Theorem C07_accept_only_matching_id : forall id rid tc,
  accept_udp id rid tc = Accept <-> (rid = id /\ tc = false).
Proof. exact accept_only_matching_id. Qed.
Check C07_accept_only_matching_id : forall id rid tc,
  accept_udp id rid tc = Accept <-> (rid = id /\ tc = false).
Print Assumptions C07_accept_only_matching_id.

Theorem C07_udp_answer_has_own_id : forall id rid tc t r,
  handle_query_model false id (UdpReply rid tc) t = OqReply r false -> r = id /\ tc = false.
Proof. exact udp_reply_has_own_id. Qed.
Check C07_udp_answer_has_own_id : forall id rid tc t r,
  handle_query_model false id (UdpReply rid tc) t = OqReply r false -> r = id /\ tc = false.
Print Assumptions C07_udp_answer_has_own_id.

(* ---- (iv) the source address handed to the kernel is the address given -- *)
Theorem C07_source_address_roundtrip : forall ip, ip4_ok ip = true -> local_ip_of (pktinfo_for ip) = ip.
Proof. exact source_address_roundtrip. Qed.
Check C07_source_address_roundtrip : forall ip, ip4_ok ip = true -> local_ip_of (pktinfo_for ip) = ip.
Print Assumptions C07_source_address_roundtrip.

Example C07_source_address_roundtrip_nonvacuous : ip4_ok [127; 0; 0; 1] = true.
Proof. reflexivity. Qed.

(* the code as found (F38) reverses the octets of EVERY address: only
   palindromic addresses survive; 127.0.0.1 becomes 1.0.0.127 *)
Theorem C07_source_address_orig_refuted : forall ip, ip4_ok ip = true ->
  local_ip_of (pktinfo_orig ip) = rev ip.
Proof. exact source_address_orig_reversed. Qed.
Check C07_source_address_orig_refuted : forall ip, ip4_ok ip = true ->
  local_ip_of (pktinfo_orig ip) = rev ip.
Print Assumptions C07_source_address_orig_refuted.

(* ---- (v)+(iv) the reply datagram goes back to where the query came from and
   leaves from the address and port the query was sent to, both families ---- *)
Theorem C07_reply_from_query_destination : forall q,
  (g_v6 q = false -> ip4_ok (g_dst_ip q) = true) ->
  g_src_ip (reply_dgram q) = g_dst_ip q /\ g_src_port (reply_dgram q) = g_dst_port q /\
  g_dst_ip (reply_dgram q) = g_src_ip q /\ g_dst_port (reply_dgram q) = g_src_port q.
Proof. exact reply_from_query_destination. Qed.
Check C07_reply_from_query_destination : forall q,
  (g_v6 q = false -> ip4_ok (g_dst_ip q) = true) ->
  g_src_ip (reply_dgram q) = g_dst_ip q /\ g_src_port (reply_dgram q) = g_dst_port q /\
  g_dst_ip (reply_dgram q) = g_src_ip q /\ g_dst_port (reply_dgram q) = g_src_port q.
Print Assumptions C07_reply_from_query_destination.

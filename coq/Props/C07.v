(* Property C07 -- statements only; every proof is `exact <lemma from Proofs/>`. *)
From Erbium Require Import Lib.Base Model.Cmsg Model.OutQuery Proofs.Cmsg.

Theorem C07_source_address_roundtrip : forall ip, ip4_ok ip = true -> local_ip_of (pktinfo_for ip) = ip.
Proof. exact source_address_roundtrip. Qed.
Check C07_source_address_roundtrip : forall ip, ip4_ok ip = true -> local_ip_of (pktinfo_for ip) = ip.
Print Assumptions C07_source_address_roundtrip.

(* Property C09 -- statements only; every proof is `exact <lemma from Proofs/>`. *)
From Erbium Require Import Lib.Base Model.DhcpPool Proofs.DhcpPool Proofs.DhcpPoolHistory.

(* "A client that holds an unexpired lease on an address inside the pool it is
   being served from is given that same address again ... (the one it names,
   if it names one it holds)".  A = {x in pool : c holds an unexpired lease on x}. *)
Theorem C09_keeps_address :
  forall d o t1 t2 ans d',
  Inv d -> t1 < pow2 32 ->
  alloc_ok d o t1 t2 ans = Some d' ->
  (exists x, A_set d o t1 x = true) ->
  exists ip s k, ans = Granted ip s k /\ A_set d o t1 ip = true /\
                 (forall q, o_req o = Some q -> A_set d o t1 q = true -> ip = q).
Proof. exact keeps_address. Qed.
Check C09_keeps_address :
  forall d o t1 t2 ans d',
  Inv d -> t1 < pow2 32 ->
  alloc_ok d o t1 t2 ans = Some d' ->
  (exists x, A_set d o t1 x = true) ->
  exists ip s k, ans = Granted ip s k /\ A_set d o t1 ip = true /\
                 (forall q, o_req o = Some q -> A_set d o t1 q = true -> ip = q).
Print Assumptions C09_keeps_address.

(* "the address acknowledged after an offer is the address that was offered":
   a REQUEST by the same client from the same pool, naming the offered address,
   within the offered lease *)
Theorem C09_ack_is_offer :
  forall d o t1 t2 ip s k d1 o' t1' t2' ans d2,
  Inv d ->
  alloc_ok d o t1 t2 (Granted ip s k) = Some d1 ->
  o_client o' = o_client o -> o_pool o' = o_pool o -> o_req o' = Some ip ->
  t2 + s < pow2 32 -> t1' < t2 + s ->
  alloc_ok d1 o' t1' t2' ans = Some d2 ->
  exists s' k', ans = Granted ip s' k'.
Proof. exact ack_is_offer. Qed.
Check C09_ack_is_offer :
  forall d o t1 t2 ip s k d1 o' t1' t2' ans d2,
  Inv d ->
  alloc_ok d o t1 t2 (Granted ip s k) = Some d1 ->
  o_client o' = o_client o -> o_pool o' = o_pool o -> o_req o' = Some ip ->
  t2 + s < pow2 32 -> t1' < t2 + s ->
  alloc_ok d1 o' t1' t2' ans = Some d2 ->
  exists s' k', ans = Granted ip s' k'.
Print Assumptions C09_ack_is_offer.

(* "A request is refused for lack of addresses only when every address of that
   pool is held, unexpired, by some other client."  Blocking is expiry >= t
   (the code's one-second guard band: time is in whole seconds). *)
Theorem C09_refusal_means_exhausted :
  forall d o t1 t2 d',
  t1 < pow2 32 ->
  alloc_ok d o t1 t2 NoAddress = Some d' ->
  d' = d /\
  forall x, In x (o_pool o) ->
    exists r, In r d /\ r_addr r = x /\ r_client r <> o_client o /\ t1 <= r_expiry r.
Proof. exact refusal_means_exhausted. Qed.
Check C09_refusal_means_exhausted :
  forall d o t1 t2 d',
  t1 < pow2 32 ->
  alloc_ok d o t1 t2 NoAddress = Some d' ->
  d' = d /\
  forall x, In x (o_pool o) ->
    exists r, In r d /\ r_addr r = x /\ r_client r <> o_client o /\ t1 <= r_expiry r.
Print Assumptions C09_refusal_means_exhausted.

(* Hypotheses are satisfiable: the F21 situation -- a client with two unexpired
   leases, the longer-lived one (20) outside today's pool [10; 11] -- is
   answered with the one inside; and a refusal that the model admits. *)
Definition ex_c : list N := [7].
Definition ex_d2 : db :=
  [ {| r_addr := 20; r_client := ex_c; r_start := 1010; r_expiry := 1310 |};
    {| r_addr := 10; r_client := ex_c; r_start := 1000; r_expiry := 1300 |} ].
Definition ex_o : op := {| o_client := ex_c; o_req := None; o_pool := [10; 11]; o_min := 300; o_max := 86400 |}.
Example C09_example_keeps :
  Inv ex_d2 /\ (exists x, A_set ex_d2 ex_o 1020 x = true) /\
  (exists d', alloc_ok ex_d2 ex_o 1020 1020 (Granted 10 300 ReusingLease) = Some d') /\
  alloc_ok ex_d2 ex_o 1020 1020 (Granted 11 300 NewAddress) = None /\
  alloc_ok ex_d2 ex_o 1020 1020 NoAddress = None.
Proof.
  split. repeat constructor; simpl; intuition discriminate.
  split. exists 10. reflexivity.
  split. eexists. vm_compute. reflexivity.
  split; reflexivity.
Qed.
Example C09_example_refusal :
  exists d', alloc_ok ex_d2 {| o_client := [8]; o_req := Some 10; o_pool := [10; 20]; o_min := 300; o_max := 86400 |}
                      1300 1300 NoAddress = Some d'.
Proof. eexists. vm_compute. reflexivity. Qed.

(* The same over HISTORIES ("for all histories as in C01 and every step"): in every
   state reachable from the empty store by a well-formed history, a client that was
   TOLD -- by the latest reply it received for x -- that it holds an unexpired lease on
   an address x inside the pool it is now served from is given an address it holds
   inside that pool, and the one it names if it was told it holds that one.  [holds]
   is the specification-side predicate of C01 (reply log), not the store. *)
Theorem C09_history_keeps_address :
  forall h d log,
  wf_history h = true -> run h = Some (d, log) ->
  forall o t1 t2 ans d' x,
  clock h <= t1 -> t1 < pow2 32 ->
  holds log (o_client o) x t1 -> In x (o_pool o) ->
  alloc_ok d o t1 t2 ans = Some d' ->
  exists ip s k, ans = Granted ip s k /\ In ip (o_pool o) /\
                 held_by d (o_client o) ip t1 = true /\
                 (forall q, o_req o = Some q -> holds log (o_client o) q t1 -> In q (o_pool o) -> ip = q).
Proof. exact history_keeps_address. Qed.
Check C09_history_keeps_address :
  forall h d log,
  wf_history h = true -> run h = Some (d, log) ->
  forall o t1 t2 ans d' x,
  clock h <= t1 -> t1 < pow2 32 ->
  holds log (o_client o) x t1 -> In x (o_pool o) ->
  alloc_ok d o t1 t2 ans = Some d' ->
  exists ip s k, ans = Granted ip s k /\ In ip (o_pool o) /\
                 held_by d (o_client o) ip t1 = true /\
                 (forall q, o_req o = Some q -> holds log (o_client o) q t1 -> In q (o_pool o) -> ip = q).
Print Assumptions C09_history_keeps_address.

(* ... and in no reachable state is such a client refused for lack of addresses *)
Theorem C09_history_never_refuses_holder :
  forall h d log,
  wf_history h = true -> run h = Some (d, log) ->
  forall o t1 t2 d' x,
  clock h <= t1 -> t1 < pow2 32 ->
  holds log (o_client o) x t1 -> In x (o_pool o) ->
  alloc_ok d o t1 t2 NoAddress = Some d' -> False.
Proof. exact history_never_refuses_holder. Qed.
Check C09_history_never_refuses_holder :
  forall h d log,
  wf_history h = true -> run h = Some (d, log) ->
  forall o t1 t2 d' x,
  clock h <= t1 -> t1 < pow2 32 ->
  holds log (o_client o) x t1 -> In x (o_pool o) ->
  alloc_ok d o t1 t2 NoAddress = Some d' -> False.
Print Assumptions C09_history_never_refuses_holder.

(* A refusal in a reachable state leaves the store as it was, and every address of
   the pool has exactly ONE row, which belongs to another client and has not run out *)
Theorem C09_history_refusal_means_exhausted :
  forall h d log,
  wf_history h = true -> run h = Some (d, log) ->
  forall o t1 t2 d',
  t1 < pow2 32 ->
  alloc_ok d o t1 t2 NoAddress = Some d' ->
  d' = d /\ NoDup (map r_addr d) /\
  forall x, In x (o_pool o) ->
    exists r, In r d /\ r_addr r = x /\ r_client r <> o_client o /\ t1 <= r_expiry r /\
              (forall r', In r' d -> r_addr r' = x -> r' = r).
Proof. exact history_refusal_means_exhausted. Qed.
Check C09_history_refusal_means_exhausted :
  forall h d log,
  wf_history h = true -> run h = Some (d, log) ->
  forall o t1 t2 d',
  t1 < pow2 32 ->
  alloc_ok d o t1 t2 NoAddress = Some d' ->
  d' = d /\ NoDup (map r_addr d) /\
  forall x, In x (o_pool o) ->
    exists r, In r d /\ r_addr r = x /\ r_client r <> o_client o /\ t1 <= r_expiry r /\
              (forall r', In r' d -> r_addr r' = x -> r' = r).
Print Assumptions C09_history_refusal_means_exhausted.

(* Hypotheses of the history theorems are satisfiable: client [7] is offered 10 at
   t = 1000 for 300 s, client [8] gets 11; 100 s later [7] holds 10 according to the
   reply log, the clock of the history is 1100, and the model accepts exactly the
   reuse of 10 and neither a new address nor a refusal. *)
Definition ex_o8 : op := {| o_client := [8]; o_req := None; o_pool := [10; 11]; o_min := 300; o_max := 86400 |}.
Definition ex_h : list event :=
  [ EAlloc ex_o 1000 1000 (Granted 10 300 NewAddress);
    EAlloc ex_o8 1001 1001 (Granted 11 300 NewAddress);
    ETick 99 ].
Example C09_example_history :
  wf_history ex_h = true /\ clock ex_h = 1100 /\
  exists d log, run ex_h = Some (d, log) /\ holds log ex_c 10 1100 /\ In 10 (o_pool ex_o) /\
    (exists d', alloc_ok d ex_o 1100 1100 (Granted 10 300 ReusingLease) = Some d') /\
    alloc_ok d ex_o 1100 1100 (Granted 11 300 NewAddress) = None /\
    alloc_ok d ex_o 1100 1100 NoAddress = None.
Proof.
  split. reflexivity. split. reflexivity.
  eexists. eexists. split. vm_compute. reflexivity.
  split. eexists. split. vm_compute. reflexivity. vm_compute. reflexivity.
  split. simpl. auto.
  split. eexists. vm_compute. reflexivity.
  split; reflexivity.
Qed.

(* Crash points and lost replies: the store may hold grants the client never heard of
   (step_lossy); what the client WAS told still decides -- it keeps that address.
   One configured maximum M for the whole history, as in C01's lossy theorem. *)
Theorem C09_lossy_history_keeps_address :
  forall M h d log,
  wf_lossy M h = true -> run_lossy h = Some (d, log) ->
  forall o t1 t2 ans d' x,
  clock_lossy h <= t1 -> t1 < pow2 32 ->
  holds log (o_client o) x t1 -> In x (o_pool o) ->
  alloc_ok d o t1 t2 ans = Some d' ->
  exists ip s k, ans = Granted ip s k /\ In ip (o_pool o) /\
                 held_by d (o_client o) ip t1 = true /\
                 (forall q, o_req o = Some q -> holds log (o_client o) q t1 -> In q (o_pool o) -> ip = q).
Proof. exact lossy_history_keeps_address. Qed.
Check C09_lossy_history_keeps_address :
  forall M h d log,
  wf_lossy M h = true -> run_lossy h = Some (d, log) ->
  forall o t1 t2 ans d' x,
  clock_lossy h <= t1 -> t1 < pow2 32 ->
  holds log (o_client o) x t1 -> In x (o_pool o) ->
  alloc_ok d o t1 t2 ans = Some d' ->
  exists ip s k, ans = Granted ip s k /\ In ip (o_pool o) /\
                 held_by d (o_client o) ip t1 = true /\
                 (forall q, o_req o = Some q -> holds log (o_client o) q t1 -> In q (o_pool o) -> ip = q).
Print Assumptions C09_lossy_history_keeps_address.

(* satisfiable: the OFFER of 11 to [8] is lost (the server crashes before the send);
   [7] still holds 10 and is given 10 *)
Definition ex_hl : list (event * bool) :=
  [ (EAlloc ex_o 1000 1000 (Granted 10 300 NewAddress), false);
    (EAlloc {| o_client := [8]; o_req := None; o_pool := [10; 11]; o_min := 300; o_max := 86400 |} 1001 1001
            (Granted 11 300 NewAddress), true);
    (ERestart, false); (ETick 99, false) ].
Example C09_example_lossy_history :
  wf_lossy 86400 ex_hl = true /\ clock_lossy ex_hl = 1100 /\
  exists d log, run_lossy ex_hl = Some (d, log) /\ length d = 2%nat /\ length log = 1%nat /\
    holds log ex_c 10 1100 /\
    (exists d', alloc_ok d ex_o 1100 1100 (Granted 10 300 ReusingLease) = Some d').
Proof.
  split. reflexivity. split. reflexivity.
  eexists. eexists. split. vm_compute. reflexivity.
  split. reflexivity. split. reflexivity.
  split. eexists. split. vm_compute. reflexivity. vm_compute. reflexivity.
  eexists. vm_compute. reflexivity.
Qed.

(* Property C09 -- statements only; every proof is `exact <lemma from Proofs/>`. *)
From Erbium Require Import Lib.Base Model.DhcpPool Proofs.DhcpPool.

(* "A client that holds an unexpired lease on an address inside the pool it is
   being served from is given that same address again ... (the one it names,
   if it names one it holds)".  A = {x in pool : c holds an unexpired lease on x}. *)
Theorem C09_keeps_address :
  forall d o t1 t2 ans d',
  Inv d -> t1 < pow2 32 ->
  alloc_ok d o t1 t2 ans = Some d' ->
  (exists x, A_set d o t1 x = true) ->
  exists ip s k, ans = Granted ip s k /\ A_set d o t1 ip = true /\
                 (forall q, o_req o = Some q -> A_set d o t1 q = true -> ip = q).
Proof. exact keeps_address. Qed.
Check C09_keeps_address :
  forall d o t1 t2 ans d',
  Inv d -> t1 < pow2 32 ->
  alloc_ok d o t1 t2 ans = Some d' ->
  (exists x, A_set d o t1 x = true) ->
  exists ip s k, ans = Granted ip s k /\ A_set d o t1 ip = true /\
                 (forall q, o_req o = Some q -> A_set d o t1 q = true -> ip = q).
Print Assumptions C09_keeps_address.

(* "the address acknowledged after an offer is the address that was offered":
   a REQUEST by the same client from the same pool, naming the offered address,
   within the offered lease *)
Theorem C09_ack_is_offer :
  forall d o t1 t2 ip s k d1 o' t1' t2' ans d2,
  Inv d ->
  alloc_ok d o t1 t2 (Granted ip s k) = Some d1 ->
  o_client o' = o_client o -> o_pool o' = o_pool o -> o_req o' = Some ip ->
  t2 + s < pow2 32 -> t1' < t2 + s ->
  alloc_ok d1 o' t1' t2' ans = Some d2 ->
  exists s' k', ans = Granted ip s' k'.
Proof. exact ack_is_offer. Qed.
Check C09_ack_is_offer :
  forall d o t1 t2 ip s k d1 o' t1' t2' ans d2,
  Inv d ->
  alloc_ok d o t1 t2 (Granted ip s k) = Some d1 ->
  o_client o' = o_client o -> o_pool o' = o_pool o -> o_req o' = Some ip ->
  t2 + s < pow2 32 -> t1' < t2 + s ->
  alloc_ok d1 o' t1' t2' ans = Some d2 ->
  exists s' k', ans = Granted ip s' k'.
Print Assumptions C09_ack_is_offer.

(* "A request is refused for lack of addresses only when every address of that
   pool is held, unexpired, by some other client."  Blocking is expiry >= t
   (the code's one-second guard band: time is in whole seconds). *)
Theorem C09_refusal_means_exhausted :
  forall d o t1 t2 d',
  t1 < pow2 32 ->
  alloc_ok d o t1 t2 NoAddress = Some d' ->
  d' = d /\
  forall x, In x (o_pool o) ->
    exists r, In r d /\ r_addr r = x /\ r_client r <> o_client o /\ t1 <= r_expiry r.
Proof. exact refusal_means_exhausted. Qed.
Check C09_refusal_means_exhausted :
  forall d o t1 t2 d',
  t1 < pow2 32 ->
  alloc_ok d o t1 t2 NoAddress = Some d' ->
  d' = d /\
  forall x, In x (o_pool o) ->
    exists r, In r d /\ r_addr r = x /\ r_client r <> o_client o /\ t1 <= r_expiry r.
Print Assumptions C09_refusal_means_exhausted.

(* Hypotheses are satisfiable: the F21 situation -- a client with two unexpired
   leases, the longer-lived one (20) outside today's pool [10; 11] -- is
   answered with the one inside; and a refusal that the model admits. *)
Definition ex_c : list N := [7].
Definition ex_d2 : db :=
  [ {| r_addr := 20; r_client := ex_c; r_start := 1010; r_expiry := 1310 |};
    {| r_addr := 10; r_client := ex_c; r_start := 1000; r_expiry := 1300 |} ].
Definition ex_o : op := {| o_client := ex_c; o_req := None; o_pool := [10; 11]; o_min := 300; o_max := 86400 |}.
Example C09_example_keeps :
  Inv ex_d2 /\ (exists x, A_set ex_d2 ex_o 1020 x = true) /\
  (exists d', alloc_ok ex_d2 ex_o 1020 1020 (Granted 10 300 ReusingLease) = Some d') /\
  alloc_ok ex_d2 ex_o 1020 1020 (Granted 11 300 NewAddress) = None /\
  alloc_ok ex_d2 ex_o 1020 1020 NoAddress = None.
Proof.
  split. repeat constructor; simpl; intuition discriminate.
  split. exists 10. reflexivity.
  split. eexists. vm_compute. reflexivity.
  split; reflexivity.
Qed.
Example C09_example_refusal :
  exists d', alloc_ok ex_d2 {| o_client := [8]; o_req := Some 10; o_pool := [10; 20]; o_min := 300; o_max := 86400 |}
                      1300 1300 NoAddress = Some d'.
Proof. eexists. vm_compute. reflexivity. Qed.

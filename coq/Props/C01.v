(* Property C01 -- statements only; every proof is `exact <lemma from Proofs/>`. *)
From Erbium Require Import Lib.Base Model.DhcpPool Proofs.DhcpPool Proofs.DhcpPoolSpec Proofs.DhcpPoolShift.

(* "an IPv4 address that the server has offered or acknowledged to one client,
   and whose lease has not yet expired, is never offered or acknowledged to a
   different client ... across every sequence of DISCOVER/REQUEST messages
   from any number of clients, any passage of time, any change of the address
   pool between messages, and a server restart."
   [holds log c x t]: the latest reply with yiaddr = x produced for c at or
   before t has a recorded expiry > t.  The history carries the answers the
   implementation gave; [run h = Some _] says the model admits every one of
   them, so the theorem covers every choice the code may make. *)
Theorem C01_no_double_allocation :
  forall h, wf_history h = true ->
  forall d log, run h = Some (d, log) ->
  forall a b x t, a <> b -> ~ (holds log a x t /\ holds log b x t).
Proof. exact no_double_allocation. Qed.
Check C01_no_double_allocation :
  forall h, wf_history h = true ->
  forall d log, run h = Some (d, log) ->
  forall a b x t, a <> b -> ~ (holds log a x t /\ holds log b x t).
Print Assumptions C01_no_double_allocation.

(* step-wise form, used by the monitor: an address is granted only if every
   row another client has on it expired strictly before the clock read *)
Theorem C01_grant_respects_holder :
  forall d o t1 t2 ip secs k d',
  Inv d -> t1 < pow2 32 ->
  alloc_ok d o t1 t2 (Granted ip secs k) = Some d' ->
  forall r, In r d -> r_addr r = ip -> r_client r <> o_client o -> r_expiry r < t1.
Proof. exact grant_respects_holder. Qed.
Check C01_grant_respects_holder :
  forall d o t1 t2 ip secs k d',
  Inv d -> t1 < pow2 32 ->
  alloc_ok d o t1 t2 (Granted ip secs k) = Some d' ->
  forall r, In r d -> r_addr r = ip -> r_client r <> o_client o -> r_expiry r < t1.
Print Assumptions C01_grant_respects_holder.

Theorem C01_single_row_per_address :
  forall h d log, run h = Some (d, log) -> NoDup (map r_addr d).
Proof. exact single_row_per_address. Qed.
Check C01_single_row_per_address :
  forall h d log, run h = Some (d, log) -> NoDup (map r_addr d).
Print Assumptions C01_single_row_per_address.

(* The hypotheses are satisfiable: two clients, expiry, reuse, revival after a
   restart, a pool change, a requested address taken over after expiry, and a
   refusal -- all four steps of select_address. *)
Definition ex_a : list N := [1].
Definition ex_b : list N := [2; 2].
Definition ex_op c req pool := {| o_client := c; o_req := req; o_pool := pool; o_min := 300; o_max := 86400 |}.
Definition ex_history : list event :=
  [ EAlloc (ex_op ex_a None [10; 11]) 1000 1000 (Granted 10 300 NewAddress);
    EAlloc (ex_op ex_b (Some 10) [10; 11]) 1001 1002 (Granted 11 300 NewAddress);
    ETick 98;
    EAlloc (ex_op ex_a None [10; 11]) 1100 1100 (Granted 10 300 ReusingLease);
    ERestart;
    EAlloc (ex_op ex_a None [10]) 2000 2000 (Granted 10 600 Revived);
    EAlloc (ex_op ex_b (Some 10) [10]) 3000 3000 (Granted 10 300 Requested);
    EAlloc (ex_op ex_a None [10]) 3001 3001 NoAddress ].
Example C01_example :
  wf_history ex_history = true /\
  exists d log, run ex_history = Some (d, log) /\ length log = 5%nat /\ length d = 2%nat.
Proof. split. reflexivity. eexists. eexists. split. vm_compute. reflexivity. split; reflexivity. Qed.
(* and a double allocation is NOT admitted by the model *)
Example C01_example_rejects :
  run [ EAlloc (ex_op ex_a None [10]) 1000 1000 (Granted 10 300 NewAddress);
        EAlloc (ex_op ex_b None [10]) 1001 1001 (Granted 10 300 NewAddress) ] = None.
Proof. reflexivity. Qed.

(* The executable step decides exactly the declarative reading of the four
   steps of select_address (DESIGN.md Appendix A.1; [admissible] is defined in
   Proofs/DhcpPoolSpec.v from the RFC 2131 4.3.1 list the code quotes). *)
Theorem C01_model_decides_spec :
  forall d o t1 t2 a, Inv d -> t1 < pow2 32 ->
  ((exists d', alloc_ok d o t1 t2 a = Some d') <-> admissible d o t1 a).
Proof. exact alloc_ok_iff_admissible. Qed.
Check C01_model_decides_spec :
  forall d o t1 t2 a, Inv d -> t1 < pow2 32 ->
  ((exists d', alloc_ok d o t1 t2 a = Some d') <-> admissible d o t1 a).
Print Assumptions C01_model_decides_spec.

(* The time hook: a step on the store whose timestamps were moved delta seconds
   into the past, at wall time t, is the step on the original store at time
   t + delta, shifted -- as long as nothing saturates.  This is what makes the
   harness's "absolute = wall clock + seconds ticked" comparable with the model. *)
Theorem C01_time_shift :
  forall delta d o t1 t2 a,
  shiftable delta d ->
  t1 + delta < pow2 32 -> t2 + delta + ans_secs a < pow2 32 ->
  alloc_ok (shift delta d) o t1 t2 a = option_map (shift delta) (alloc_ok d o (t1 + delta) (t2 + delta) a).
Proof. exact alloc_shift. Qed.
Check C01_time_shift :
  forall delta d o t1 t2 a,
  shiftable delta d ->
  t1 + delta < pow2 32 -> t2 + delta + ans_secs a < pow2 32 ->
  alloc_ok (shift delta d) o t1 t2 a = option_map (shift delta) (alloc_ok d o (t1 + delta) (t2 + delta) a).
Print Assumptions C01_time_shift.

Definition ex_d1 : db := [ {| r_addr := 10; r_client := ex_a; r_start := 1000; r_expiry := 1300 |} ].
Example C01_example_shift :
  (shiftable 400 ex_d1) /\
  (alloc_ok (shift 400 ex_d1) (ex_op ex_a None [10]) 1000 1000 (Granted 10 600 Revived)
   = Some (shift 400 [ {| r_addr := 10; r_client := ex_a; r_start := 1400; r_expiry := 2000 |} ])).
Proof.
  split.
  - intros r [E|[]]. subst. simpl. lia.
  - reflexivity.
Qed.

(* Crash points / lost replies: a step may write the lease while its reply never
   reaches the client (a crash between the INSERT and the send, a dropped packet,
   a duplicate ACK the client discards).  Such a step changes the store but is
   not logged as a grant.  The property still holds over every such history
   (one configured maximum M per history): since the repair of observation O1
   (design/C01.md) a renewal is granted at least the remainder of the current
   lease, so the server's record never ends before the latest expiry the client
   was told. *)
From Erbium Require Import Proofs.DhcpPoolCrash.
Theorem C01_no_double_allocation_lossy :
  forall M h, wf_lossy M h = true ->
  forall d log, run_lossy h = Some (d, log) ->
  forall a b x t, a <> b -> ~ (holds log a x t /\ holds log b x t).
Proof. exact no_double_allocation_lossy. Qed.
Check C01_no_double_allocation_lossy :
  forall M h, wf_lossy M h = true ->
  forall d log, run_lossy h = Some (d, log) ->
  forall a b x t, a <> b -> ~ (holds log a x t /\ holds log b x t).
Print Assumptions C01_no_double_allocation_lossy.

(* the O1 history: told 450 s at 1150; the lost renewal at 1151 is now granted the
   remaining 449 s (not 300), so the address is still the first client's at 1452 *)
Definition ex_lossy : list (event * bool) :=
  [ (EAlloc (ex_op ex_a None [10]) 1000 1000 (Granted 10 300 NewAddress), false);
    (EAlloc (ex_op ex_a None [10]) 1150 1150 (Granted 10 450 ReusingLease), false);
    (EAlloc (ex_op ex_a None [10]) 1151 1151 (Granted 10 449 ReusingLease), true);
    (EAlloc (ex_op ex_b None [10]) 1452 1452 NoAddress, false);
    (ETick 148, false);
    (EAlloc (ex_op ex_b None [10]) 1601 1601 (Granted 10 300 NewAddress), false) ].
Example C01_example_lossy :
  wf_lossy 86400 ex_lossy = true /\
  (exists d log, run_lossy ex_lossy = Some (d, log) /\ length log = 3%nat) /\
  (* the pre-repair answer (300 s, record cut to 1451) is no longer admitted *)
  run_lossy [ (EAlloc (ex_op ex_a None [10]) 1000 1000 (Granted 10 300 NewAddress), false);
              (EAlloc (ex_op ex_a None [10]) 1150 1150 (Granted 10 450 ReusingLease), false);
              (EAlloc (ex_op ex_a None [10]) 1151 1151 (Granted 10 300 ReusingLease), true) ] = None.
Proof.
  split. reflexivity. split.
  - eexists. eexists. split. vm_compute. reflexivity. reflexivity.
  - reflexivity.
Qed.

(* Property C06 -- statements only; every proof is `exact <lemma from Proofs/>`.
   Vocabulary: a cache is a list of (key, entry), key = (name, type, DO, CD), entry =
   (stored result, birth, lifetime), times in ns; [get_entry] is the look-up of
   cache/mod.rs, [handle] is handle_query with the resolver's answer [up] as an argument,
   returning (what the client gets, new cache, resolver asked?); [run c ops] runs a history
   of queries and expiry sweeps and lists, per query, (key, class, time, result, resolver
   asked?).  [cache_ok]: every entry has the lifetime calculate_expiry gives its result,
   > 0, and 32-bit TTLs -- it holds of the empty cache and is kept by every operation
   ([C06_invariant]).  [dec_reply_exact d r]: r with every TTL lowered by d. *)
From Erbium Require Import Lib.Base Model.DnsCache Proofs.DnsCache.

Theorem C06_invariant :
  cache_ok [] /\
  (forall c t, cache_ok c -> cache_ok (expire c t)) /\
  (forall c k qc tl ti up, cache_ok c -> result_u32 up -> cache_ok (snd (fst (handle c k qc tl ti up)))).
Proof. exact (conj cache_ok_nil (conj cache_ok_expire handle_cache_ok)). Qed.
Check C06_invariant :
  cache_ok [] /\
  (forall c t, cache_ok c -> cache_ok (expire c t)) /\
  (forall c k qc tl ti up, cache_ok c -> result_u32 up -> cache_ok (snd (fst (handle c k qc tl ti up)))).
Print Assumptions C06_invariant.

(* a hit comes from the entry stored under the identical key, not past its lifetime, and for
   a reply that lifetime is its smallest TTL (which is not zero) *)
Theorem C06_hit_only_fresh_and_same_key : forall c k now o, cache_ok c -> get_entry c k now = Some o ->
  exists e, lookup k c = Some e /\ In (k, e) c /\
    now <= e_birth e + e_life e /\
    (forall r, e_reply e = ROk r -> e_life e = NS * min_ttl r /\ 0 < min_ttl r) /\
    o = dec_result (e_reply e) (now - e_birth e).
Proof. exact hit_only_fresh_and_same_key. Qed.
Check C06_hit_only_fresh_and_same_key : forall c k now o, cache_ok c -> get_entry c k now = Some o ->
  exists e, lookup k c = Some e /\ In (k, e) c /\
    now <= e_birth e + e_life e /\
    (forall r, e_reply e = ROk r -> e_life e = NS * min_ttl r /\ 0 < min_ttl r) /\
    o = dec_result (e_reply e) (now - e_birth e).
Print Assumptions C06_hit_only_fresh_and_same_key.

(* a reply served from the cache: no abort, every TTL is the original minus the whole seconds
   elapsed d, and d does not exceed any TTL (nothing below zero, nothing wraps) *)
Theorem C06_ttl_exact : forall c k now o e r, cache_ok c -> get_entry c k now = Some o ->
  lookup k c = Some e -> e_reply e = ROk r ->
  let d := (now - e_birth e) / NS in
  o = Ok (ROk (dec_reply_exact d r)) /\
  (forall p, In p (all_rrs r) -> d <= fst p) /\
  NS * d <= now - e_birth e /\ d <= min_ttl r.
Proof. exact ttl_exact. Qed.
Check C06_ttl_exact : forall c k now o e r, cache_ok c -> get_entry c k now = Some o ->
  lookup k c = Some e -> e_reply e = ROk r ->
  let d := (now - e_birth e) / NS in
  o = Ok (ROk (dec_reply_exact d r)) /\
  (forall p, In p (all_rrs r) -> d <= fst p) /\
  NS * d <= now - e_birth e /\ d <= min_ttl r.
Print Assumptions C06_ttl_exact.

(* once the lifetime has passed, the resolver is asked and its answer is what is returned *)
Theorem C06_refetch_after_expiry : forall c k now ti up,
  (forall e, lookup k c = Some e -> e_birth e + e_life e < now) ->
  fst (fst (handle c k 1 now ti up)) = Ok up /\ snd (handle c k 1 now ti up) = true.
Proof. exact refetch_after_expiry. Qed.
Check C06_refetch_after_expiry : forall c k now ti up,
  (forall e, lookup k c = Some e -> e_birth e + e_life e < now) ->
  fst (fst (handle c k 1 now ti up)) = Ok up /\ snd (handle c k 1 now ti up) = true.
Print Assumptions C06_refetch_after_expiry.

(* a reply containing a zero TTL, or no record at all, is not stored *)
Theorem C06_zero_ttl_not_cached :
  (forall r id, In (0, id) (all_rrs r) -> min_ttl r = 0) /\
  (forall r, all_rrs r = [] -> min_ttl r = 0) /\
  (forall c k tl ti r, min_ttl r = 0 -> get_entry c k tl = None ->
     handle c k 1 tl ti (ROk r) = (Ok (ROk r), c, true)).
Proof. exact (conj min_ttl_zero (conj min_ttl_empty zero_ttl_not_cached)). Qed.
Check C06_zero_ttl_not_cached :
  (forall r id, In (0, id) (all_rrs r) -> min_ttl r = 0) /\
  (forall r, all_rrs r = [] -> min_ttl r = 0) /\
  (forall c k tl ti r, min_ttl r = 0 -> get_entry c k tl = None ->
     handle c k 1 tl ti (ROk r) = (Ok (ROk r), c, true)).
Print Assumptions C06_zero_ttl_not_cached.

(* only class IN is cached *)
Theorem C06_only_class_IN : forall c k qc tl ti up, qc <> 1 ->
  handle c k qc tl ti up = (Ok up, c, true).
Proof. exact non_in_not_cached. Qed.
Check C06_only_class_IN : forall c k qc tl ti up, qc <> 1 -> handle c k qc tl ti up = (Ok up, c, true).
Print Assumptions C06_only_class_IN.

(* the key is exactly (name, type, DO, CD): an entry is found under the key it was stored
   with and under no other *)
Theorem C06_key_is_name_type_do_cd :
  (forall a b : key, key_eqb a b = true <-> a = b) /\
  (forall c k e k', lookup k' (insert k e c) = if key_eqb k' k then Some e else lookup k' c).
Proof. exact (conj key_eqb_eq lookup_insert). Qed.
Check C06_key_is_name_type_do_cd :
  (forall a b : key, key_eqb a b = true <-> a = b) /\
  (forall c k e k', lookup k' (insert k e c) = if key_eqb k' k then Some e else lookup k' c).
Print Assumptions C06_key_is_name_type_do_cd.

(* all histories from the empty cache: whatever is answered without asking the resolver is
   what the resolver answered to an EARLIER query with the same key (class IN), obtained at
   t0 with t <= t0 + lifetime, and for a reply: TTLs lowered by exactly the whole seconds
   elapsed, which is at most the smallest TTL *)
Theorem C06_history : forall ops k qc t o, In (k, qc, t, o, false) (run [] ops) ->
  exists ops1 ops2 up' t0 up,
    ops = ops1 ++ Query k qc t up' :: ops2 /\ qc = 1 /\
    In (Query k 1 t0 up) ops1 /\
    0 < calculate_expiry up /\ t <= t0 + calculate_expiry up /\
    o = dec_result up (t - t0) /\
    (forall r, up = ROk r -> reply_u32 r ->
       o = Ok (ROk (dec_reply_exact ((t - t0) / NS) r)) /\
       (t - t0) / NS <= min_ttl r /\
       (forall p, In p (all_rrs r) -> (t - t0) / NS <= fst p)).
Proof. exact history_sound. Qed.
Check C06_history : forall ops k qc t o, In (k, qc, t, o, false) (run [] ops) ->
  exists ops1 ops2 up' t0 up,
    ops = ops1 ++ Query k qc t up' :: ops2 /\ qc = 1 /\
    In (Query k 1 t0 up) ops1 /\
    0 < calculate_expiry up /\ t <= t0 + calculate_expiry up /\
    o = dec_result up (t - t0) /\
    (forall r, up = ROk r -> reply_u32 r ->
       o = Ok (ROk (dec_reply_exact ((t - t0) / NS) r)) /\
       (t - t0) / NS <= min_ttl r /\
       (forall p, In p (all_rrs r) -> (t - t0) / NS <= fst p)).
Print Assumptions C06_history.

(* the background expiry sweep is invisible: in a history with non-decreasing times, from the
   empty cache, dropping the sweeps changes no observation *)
Theorem C06_expire_invisible : forall ops, cop_sorted 0 ops -> run [] ops = run [] (strip ops).
Proof. exact expire_invisible. Qed.
Check C06_expire_invisible : forall ops, cop_sorted 0 ops -> run [] ops = run [] (strip ops).
Print Assumptions C06_expire_invisible.

(* ---- not vacuous ------------------------------------------------------------ *)
Definition ex_key : key := ([[119]; [99]], 1, false, false).
Definition ex_up : result := ROk ([(5, 0)], [(7, 1)], [(4294967295, 2)]).
(* fetched at t = 0: served from the cache at 5.000000000 s with TTLs 0, 2, 2^32-6, asked
   again at 5.000000001 s; the same name with another type is not served from it *)
Example ex_history :
  map (fun o => (snd o, snd (fst o)))
      (run [] [Query ex_key 1 0 ex_up; Query ex_key 1 (5 * NS) (RErr 9);
               Query ([[119]; [99]], 28, false, false) 1 (5 * NS) (RErr 9);
               Query ex_key 1 (5 * NS + 1) (RErr 9)])
  = [(true, Ok ex_up); (false, Ok (ROk ([(0, 0)], [(2, 1)], [(4294967290, 2)])));
     (true, Ok (RErr 9)); (true, Ok (RErr 9))].
Proof. vm_compute. reflexivity. Qed.
Example ex_sorted : cop_sorted 0 [Query ex_key 1 0 ex_up; Expire (3 * NS); Query ex_key 1 (5 * NS) (RErr 9); Expire (6 * NS)].
Proof. unfold NS. simpl. lia. Qed.

(* Property C06 -- statements only; every proof is `exact <lemma from Proofs/>`. *)
From Erbium Require Import Lib.Base Model.DnsCache Proofs.DnsCache.

(* "only class IN is cached" *)
Theorem C06_only_class_IN : forall c k qc tl ti up, qc <> 1 ->
  handle c k qc tl ti up = (Ok up, c, true).
Proof. exact non_in_not_cached. Qed.
Check C06_only_class_IN : forall c k qc tl ti up, qc <> 1 -> handle c k qc tl ti up = (Ok up, c, true).
Print Assumptions C06_only_class_IN.

(* Property C16 -- statements only; every proof is `exact <lemma from Proofs/>`.
   Vocabulary: [run_bucket cap rate z evs] runs the requests evs = [(time, tokens)]
   against one bucket the way the limiter does (check, then deplete) and returns
   (tokens granted, final timestamp); [run_limiter] does the same for one source's
   two buckets, with [Mine t n b] a refused query of that source (charge n, reply of
   b octets) and [Other1/Other2 t n] other sources charging one of its buckets;
   [sorted_within t1 t2 evs]: times non-decreasing inside [t1,t2].
   Times are u32 seconds (< 2^32) and at least cap/rate (the code computes
   `now - cap/rate` in u32: the clock is seconds since 1970). *)
From Erbium Require Import Lib.Base Model.Bucket Model.Cookie Proofs.Bucket Proofs.Cookie.

(* tokens granted by a bucket in a window [t1,t2] of any history <= capacity + rate * (t2 - t1) *)
Theorem C16_bucket_bound : forall cap rate, 0 < rate ->
  forall pre win z0 t0 t1 t2,
  window cap rate <= t0 -> t2 < pow2 32 -> z0 <= t0 ->
  sorted_within t0 t1 pre -> sorted_within t1 t2 win ->
  fst (run_bucket cap rate (snd (run_bucket cap rate z0 pre)) win) <= cap + rate * (t2 - t1).
Proof. exact bucket_bound_window. Qed.
Check C16_bucket_bound : forall cap rate, 0 < rate ->
  forall pre win z0 t0 t1 t2,
  window cap rate <= t0 -> t2 < pow2 32 -> z0 <= t0 ->
  sorted_within t0 t1 pre -> sorted_within t1 t2 win ->
  fst (run_bucket cap rate (snd (run_bucket cap rate z0 pre)) win) <= cap + rate * (t2 - t1).
Print Assumptions C16_bucket_bound.

(* per source: tokens charged, and octets of REFUSED sent when every reply is covered by
   its charge, in [t1,t2] <= 2*capacity + 2*rate*(t2-t1), whatever other sources do *)
Theorem C16_source_bound : forall cap rate, 0 < rate ->
  forall evs z1 z2 t1 t2,
  window cap rate <= t1 -> t2 < pow2 32 -> z1 <= t1 -> z2 <= t1 -> lsorted_within t1 t2 evs ->
  tokens_of (run_limiter cap rate (z1, z2) evs) <= 2 * cap + 2 * (rate * (t2 - t1)) /\
  (Forall covered evs ->
   octets_of (run_limiter cap rate (z1, z2) evs) <= 2 * cap + 2 * (rate * (t2 - t1))).
Proof. exact source_bounds. Qed.
Check C16_source_bound : forall cap rate, 0 < rate ->
  forall evs z1 z2 t1 t2,
  window cap rate <= t1 -> t2 < pow2 32 -> z1 <= t1 -> z2 <= t1 -> lsorted_within t1 t2 evs ->
  tokens_of (run_limiter cap rate (z1, z2) evs) <= 2 * cap + 2 * (rate * (t2 - t1)) /\
  (Forall covered evs ->
   octets_of (run_limiter cap rate (z1, z2) evs) <= 2 * cap + 2 * (rate * (t2 - t1))).
Print Assumptions C16_source_bound.

(* the charge covers the reply when the reply is at most 200 octets or not shorter than the query *)
Theorem C16_charge_covers_reply : forall q r, r <= MIN_COST \/ q <= r -> r <= cost q r.
Proof. exact cost_covers_reply. Qed.
Check C16_charge_covers_reply : forall q r, r <= MIN_COST \/ q <= r -> r <= cost q r.
Print Assumptions C16_charge_covers_reply.

(* after any history, cap/rate quiet seconds later a request that fits is granted *)
Theorem C16_quiet_client_served : forall cap rate, 0 < rate ->
  forall evs z t1 t2 now n,
  window cap rate <= t1 -> now < pow2 32 -> z <= t1 -> sorted_within t1 t2 evs ->
  t2 + window cap rate <= now -> n <= rate * window cap rate ->
  check cap rate (snd (run_bucket cap rate z evs)) now n = Ok true.
Proof. exact quiet_after_history. Qed.
Check C16_quiet_client_served : forall cap rate, 0 < rate ->
  forall evs z t1 t2 now n,
  window cap rate <= t1 -> now < pow2 32 -> z <= t1 -> sorted_within t1 t2 evs ->
  t2 + window cap rate <= now -> n <= rate * window cap rate ->
  check cap rate (snd (run_bucket cap rate z evs)) now n = Ok true.
Print Assumptions C16_quiet_client_served.

(* with the constants of the code "fits" means: at most the capacity, and the minimum charge fits *)
Theorem C16_min_cost_fits : MIN_COST <= CAP /\ RATE * window CAP RATE = CAP.
Proof. exact (conj min_cost_fits rate_divides_cap). Qed.
Check C16_min_cost_fits : MIN_COST <= CAP /\ RATE * window CAP RATE = CAP.
Print Assumptions C16_min_cost_fits.

(* a cookie exempts iff its server part is the MAC under the current or previous key of
   (client cookie ++ server address ++ client address); no cookie, no exemption *)
Theorem C16_cookie_exempt_iff : forall (mac : list N -> list N -> list N) opt local remote cur prev,
  exempt mac opt local remote cur prev = true <->
  exists d, opt = Some d /\ 8 <= lenN d /\
    (dropN 8 d = server_cookie mac cur (takeN 8 d) local remote \/
     dropN 8 d = server_cookie mac prev (takeN 8 d) local remote).
Proof. exact exempt_iff. Qed.
Check C16_cookie_exempt_iff : forall (mac : list N -> list N -> list N) opt local remote cur prev,
  exempt mac opt local remote cur prev = true <->
  exists d, opt = Some d /\ 8 <= lenN d /\
    (dropN 8 d = server_cookie mac cur (takeN 8 d) local remote \/
     dropN 8 d = server_cookie mac prev (takeN 8 d) local remote).
Print Assumptions C16_cookie_exempt_iff.

(* the MAC input determines the client cookie and both addresses (one address family);
   hence, for a collision-free MAC, a cookie issued under k for (c', l', r') exempts
   (c, l, r) only if k is the current or previous key and c = c', l = l', r = r' *)
Theorem C16_cookie_is_bound_to_addresses :
  (forall c l r c' l' r', length c = length c' -> length l = length l' ->
     cookie_data c l r = cookie_data c' l' r' -> c = c' /\ l = l' /\ r = r') /\
  (forall mac : list N -> list N -> list N,
     (forall k d k' d', mac k d = mac k' d' -> k = k' /\ d = d') ->
     forall k c c' l l' r r' cur prev,
     lenN c = 8 -> lenN c' = 8 -> length l = length l' ->
     exempt mac (Some (c ++ server_cookie mac k c' l' r')) l r cur prev = true ->
     (k = cur \/ k = prev) /\ c = c' /\ l = l' /\ r = r').
Proof. exact (conj cookie_data_inj cookie_bound_to_addresses). Qed.
Check C16_cookie_is_bound_to_addresses :
  (forall c l r c' l' r', length c = length c' -> length l = length l' ->
     cookie_data c l r = cookie_data c' l' r' -> c = c' /\ l = l' /\ r = r') /\
  (forall mac : list N -> list N -> list N,
     (forall k d k' d', mac k d = mac k' d' -> k = k' /\ d = d') ->
     forall k c c' l l' r r' cur prev,
     lenN c = 8 -> lenN c' = 8 -> length l = length l' ->
     exempt mac (Some (c ++ server_cookie mac k c' l' r')) l r cur prev = true ->
     (k = cur \/ k = prev) /\ c = c' /\ l = l' /\ r = r').
Print Assumptions C16_cookie_is_bound_to_addresses.

(* no abort: with the clock in u32 range and at least cap/rate, and both timestamps in the
   past, IpRateLimiter::check returns normally and leaves both timestamps in the past *)
Theorem C16_limiter_never_aborts : forall cap rate, 0 < rate ->
  forall z1 z2 t n, window cap rate <= t -> t < pow2 32 -> z1 <= t -> z2 <= t ->
  exists b z1' z2', lim_check cap rate (z1, z2) t n = Ok (b, (z1', z2')) /\ z1' <= t /\ z2' <= t.
Proof. exact limiter_never_aborts. Qed.
Check C16_limiter_never_aborts : forall cap rate, 0 < rate ->
  forall z1 z2 t n, window cap rate <= t -> t < pow2 32 -> z1 <= t -> z2 <= t ->
  exists b z1' z2', lim_check cap rate (z1, z2) t n = Ok (b, (z1', z2')) /\ z1' <= t /\ z2' <= t.
Print Assumptions C16_limiter_never_aborts.

(* ---- hypotheses satisfiable, conclusions not vacuous ------------------------ *)
(* a collision-free MAC exists in the model: the stand-in the check runs with *)
Example ex_mac_inj : forall k d k' d', free_mac k d = free_mac k' d' -> k = k' /\ d = d'.
Proof. exact free_mac_inj. Qed.
(* a burst at t = 1000 on a full bucket: 200-token requests, five are granted, the sixth is
   not; 100 s later (200 tokens) one more is *)
Example ex_burst :
  run_bucket CAP RATE 0 [(1000, 200); (1000, 200); (1000, 200); (1000, 200); (1000, 200); (1000, 200); (1100, 200); (1100, 200)]
  = (1200, 1100).
Proof. vm_compute. reflexivity. Qed.
Example ex_sorted : sorted_within 1000 1100 [(1000, 200); (1000, 200); (1100, 200)].
Proof. simpl. lia. Qed.
(* both buckets of a source: ten grants, then nothing *)
Example ex_source :
  tokens_of (run_limiter CAP RATE (0, 0) (repeat (Mine 2000 200 120) 12)) = 2000.
Proof. vm_compute. reflexivity. Qed.
(* a valid cookie exempts; the same cookie from a neighbouring address does not *)
Example ex_cookie :
  let c := [1;2;3;4;5;6;7;8] in let l := [192;0;2;1] in let r := [192;0;2;9] in
  exempt free_mac (Some (c ++ server_cookie free_mac [7;7] c l r)) l r [7;7] [8;8] = true /\
  exempt free_mac (Some (c ++ server_cookie free_mac [8;8] c l r)) l r [7;7] [8;8] = true /\
  exempt free_mac (Some (c ++ server_cookie free_mac [7;7] c l r)) l [192;0;2;8] [7;7] [8;8] = false /\
  exempt free_mac (Some (c ++ server_cookie free_mac [9;9] c l r)) l r [7;7] [8;8] = false.
Proof. vm_compute. repeat split. Qed.

(* Property C16 -- statements only; every proof is `exact <lemma from Proofs/>`. *)
From Erbium Require Import Lib.Base Model.Bucket Model.Cookie Proofs.Bucket.

Theorem C16_min_cost_fits : MIN_COST <= CAP.
Proof. exact min_cost_fits. Qed.
Check C16_min_cost_fits : MIN_COST <= CAP.
Print Assumptions C16_min_cost_fits.

(* Pseudo-property C05L: the LLDP and DHCP option-value parts of C05
   ("no packet or frame can crash a handler or stop a service").
   Statements only; every proof is `exact <lemma from Proofs/>`.
   [Panic k] is any abort of the Rust code (overflow check, out-of-bounds
   index, unwrap); error 99 (L_FUEL / E_FUEL) is "the model's fuel ran out",
   i.e. an unbounded loop. *)
From Erbium Require Import Lib.Base Model.DhcpCodec Model.DhcpOptVal Model.Lldp Model.C05LOrig
  Proofs.Total Proofs.DhcpOptVal Proofs.Lldp Proofs.Folds Proofs.LldpWf Proofs.DhcpWf Proofs.C05LOrig.

(* ---- LLDP ---------------------------------------------------------------- *)
(* whatever octets arrive on the raw socket, handling the frame (Ethernet-header
   skip, LldpPacket::from_wire, every TLV decoder) ends in Ok or Err *)
Theorem C05_lldp_total : forall (b : list N) (k : panic_kind), lldp_handle_frame b <> Panic k.
Proof. exact lldp_total. Qed.
Check C05_lldp_total : forall (b : list N) (k : panic_kind), lldp_handle_frame b <> Panic k.
Print Assumptions C05_lldp_total.

(* ... and the TLV loop ends by itself: the fuel bound is never reached *)
Theorem C05_lldp_no_fuel_exhaustion : forall b : list N, lldp_handle_frame b <> Err L_FUEL.
Proof. exact lldp_no_fuel. Qed.
Check C05_lldp_no_fuel_exhaustion : forall b : list N, lldp_handle_frame b <> Err L_FUEL.
Print Assumptions C05_lldp_no_fuel_exhaustion.

(* the inline receive loop survives any sequence of frames and still decodes a
   well-formed frame that follows them *)
Theorem C05_lldp_still_answers : forall (bs : list (list N)) (v : list N) (p : list tlv),
  lldp_handle_frame v = Ok p ->
  exists res, lldp_serve (bs ++ [v]) = Ok (res ++ [1]) /\ length res = length bs.
Proof. exact lldp_still_answers. Qed.
Check C05_lldp_still_answers : forall (bs : list (list N)) (v : list N) (p : list tlv),
  lldp_handle_frame v = Ok p ->
  exists res, lldp_serve (bs ++ [v]) = Ok (res ++ [1]) /\ length res = length bs.
Print Assumptions C05_lldp_still_answers.
(* the hypothesis is satisfiable: the smallest well-formed frame (header + End TLV) *)
Example C05_lldp_wf_frame_exists :
  lldp_handle_frame (repeatN 0 14 ++ [0; 0]) = Ok [TEnd].
Proof. vm_compute. reflexivity. Qed.

(* the header skip is what it should be: the payload of a frame with a 14-octet
   header is the rest, shorter frames have none *)
Theorem C05_lldp_frame_payload : forall hdr p : list N, length hdr = 14%nat -> frame_payload (hdr ++ p) = Some p.
Proof. exact frame_payload_spec. Qed.
Check C05_lldp_frame_payload : forall hdr p : list N, length hdr = 14%nat -> frame_payload (hdr ++ p) = Some p.
Print Assumptions C05_lldp_frame_payload.

(* ---- DHCP option values ----------------------------------------------------- *)
(* for every option code and every octet string as its value, decoding the value
   by the option's type (what log_options does for every received option) ends
   in Ok or Err *)
Theorem C05_dhcp_option_decode_total : forall (code : N) (v : list N) (k : panic_kind),
  bytes_ok v = true -> dhcp_option_decode code v <> Panic k.
Proof. exact dhcp_option_decode_total. Qed.
Check C05_dhcp_option_decode_total : forall (code : N) (v : list N) (k : panic_kind),
  bytes_ok v = true -> dhcp_option_decode code v <> Panic k.
Print Assumptions C05_dhcp_option_decode_total.
Example C05_bytes_ok_satisfiable : bytes_ok [64; 0; 0; 0; 0; 255; 255; 255; 255] = true.
Proof. reflexivity. Qed.

Theorem C05_dhcp_option_decode_no_fuel_exhaustion : forall (code : N) (v : list N),
  bytes_ok v = true -> dhcp_option_decode code v <> Err E_FUEL.
Proof. exact dhcp_option_decode_no_fuel. Qed.
Check C05_dhcp_option_decode_no_fuel_exhaustion : forall (code : N) (v : list N),
  bytes_ok v = true -> dhcp_option_decode code v <> Err E_FUEL.
Print Assumptions C05_dhcp_option_decode_no_fuel_exhaustion.

(* log_options on any message whose option values are octet strings *)
Theorem C05_log_options_total : forall (m : dhcp) (k : panic_kind),
  opts_bytes (d_options m) = true -> log_options_model m <> Panic k.
Proof. exact log_options_total. Qed.
Check C05_log_options_total : forall (m : dhcp) (k : panic_kind),
  opts_bytes (d_options m) = true -> log_options_model m <> Panic k.
Print Assumptions C05_log_options_total.

(* the message the whole-packet decoder (Model/DhcpCodec.v) produces from octets
   satisfies that hypothesis ... *)
Theorem C05_decode_options_are_bytes : forall (b : list N) (m : dhcp),
  bytes_ok b = true -> decode b = Ok m -> opts_bytes (d_options m) = true.
Proof. exact decode_options_bytes. Qed.
Check C05_decode_options_are_bytes : forall (b : list N) (m : dhcp),
  bytes_ok b = true -> decode b = Ok m -> opts_bytes (d_options m) = true.
Print Assumptions C05_decode_options_are_bytes.

(* ... so for every datagram: parse, log_options, to_array of the hardware address *)
Theorem C05_dhcp_recv_path_total : forall (b : list N) (k : panic_kind),
  bytes_ok b = true -> dhcp_recv_path b <> Panic k.
Proof. exact dhcp_recv_path_total. Qed.
Check C05_dhcp_recv_path_total : forall (b : list N) (k : panic_kind),
  bytes_ok b = true -> dhcp_recv_path b <> Panic k.
Print Assumptions C05_dhcp_recv_path_total.

Theorem C05_dhcp_decode_total : forall (b : list N) (k : panic_kind), decode b <> Panic k.
Proof. exact decode_total. Qed.
Check C05_dhcp_decode_total : forall (b : list N) (k : panic_kind), decode b <> Panic k.
Print Assumptions C05_dhcp_decode_total.

Theorem C05_to_array_total : forall (mac : list N) (k : panic_kind), to_array mac <> Panic k.
Proof. exact to_array_total. Qed.
Check C05_to_array_total : forall (mac : list N) (k : panic_kind), to_array mac <> Panic k.
Print Assumptions C05_to_array_total.

(* Ipv4Subnet::new after the repair: total, and it accepts exactly the prefixes of
   length <= 32 without host bits *)
Theorem C05_subnet_new_total : forall (addr plen : N) (k : panic_kind), subnet_new addr plen <> Panic k.
Proof. exact subnet_new_total. Qed.
Check C05_subnet_new_total : forall (addr plen : N) (k : panic_kind), subnet_new addr plen <> Panic k.
Print Assumptions C05_subnet_new_total.

Theorem C05_subnet_new_spec : forall addr plen : N,
  subnet_new addr plen =
  if (plen <=? 32) && (N.land addr (2 ^ (32 - plen) - 1) =? 0) then Ok (addr, plen) else Err E_NONE.
Proof. exact subnet_new_spec. Qed.
Check C05_subnet_new_spec : forall addr plen : N,
  subnet_new addr plen =
  if (plen <=? 32) && (N.land addr (2 ^ (32 - plen) - 1) =? 0) then Ok (addr, plen) else Err E_NONE.
Print Assumptions C05_subnet_new_spec.

(* the big-endian folds `(acc << 8) + v` of DhcpParse for u16/u32/u64/i32 cannot
   overflow, whatever the length of the value (a suspected defect that is none) *)
Theorem C05_int_folds_total : forall (v : list N) (k : panic_kind), bytes_ok v = true ->
  parse_u16 v <> Panic k /\ parse_u32 v <> Panic k /\ parse_u64 v <> Panic k /\ parse_i32 v <> Panic k.
Proof. exact int_folds_total. Qed.
Check C05_int_folds_total : forall (v : list N) (k : panic_kind), bytes_ok v = true ->
  parse_u16 v <> Panic k /\ parse_u32 v <> Panic k /\ parse_u64 v <> Panic k /\ parse_i32 v <> Panic k.
Print Assumptions C05_int_folds_total.

(* ... and what they compute is the value of the low-order octets *)
Theorem C05_int_fold_values : forall v : list N, bytes_ok v = true ->
  parse_u16 v = Ok (be_decode v mod 2 ^ 16) /\ parse_u32 v = Ok (be_decode v mod 2 ^ 32) /\
  parse_u64 v = Ok (be_decode v mod 2 ^ 64) /\ parse_i32 v = Ok (be_decode v mod 2 ^ 32).
Proof. exact int_fold_values. Qed.
Check C05_int_fold_values : forall v : list N, bytes_ok v = true ->
  parse_u16 v = Ok (be_decode v mod 2 ^ 16) /\ parse_u32 v = Ok (be_decode v mod 2 ^ 32) /\
  parse_u64 v = Ok (be_decode v mod 2 ^ 64) /\ parse_i32 v = Ok (be_decode v mod 2 ^ 32).
Print Assumptions C05_int_fold_values.

(* a frame carrying well-formed TLVs and the End TLV (anything may follow) is
   decoded to exactly those TLVs -- so "still answers" is about a large class *)
Theorem C05_lldp_wf_frame_decodes : forall (hdr : list N) (ts : list tlv) (junk : list N),
  length hdr = 14%nat -> wf_tlvs ts = true ->
  lldp_handle_frame (hdr ++ flat_map tlv_wire ts ++ [0; 0] ++ junk) = Ok (ts ++ [TEnd]).
Proof. exact lldp_wf_frame_decodes. Qed.
Check C05_lldp_wf_frame_decodes : forall (hdr : list N) (ts : list tlv) (junk : list N),
  length hdr = 14%nat -> wf_tlvs ts = true ->
  lldp_handle_frame (hdr ++ flat_map tlv_wire ts ++ [0; 0] ++ junk) = Ok (ts ++ [TEnd]).
Print Assumptions C05_lldp_wf_frame_decodes.
Example C05_wf_tlvs_satisfiable :
  wf_tlvs [TChassis 4 [0; 25; 47; 167; 178; 141]; TPort 1 [85; 112]; TTtl 120; TStr 5 [83; 50];
           TCap 20 4; TOrg [0; 18; 15] 1 [3; 192]; TUnknown 85 [66]] = true.
Proof. reflexivity. Qed.

(* a well-formed DHCP message, as encoded on the wire, passes parse, log_options and
   to_array with Ok (uses the C12 round trip): the totality theorems are not
   vacuous about valid requests *)
Theorem C05_dhcp_wf_message_passes : forall m : dhcp, wf_dhcp m = true ->
  exists n f, dhcp_recv_path (encode m) =
              Ok (n, f, if 6 <=? d_hlen m then Some (takeN 6 (d_chaddr m)) else None).
Proof. exact wf_message_passes. Qed.
Check C05_dhcp_wf_message_passes : forall m : dhcp, wf_dhcp m = true ->
  exists n f, dhcp_recv_path (encode m) =
              Ok (n, f, if 6 <=? d_hlen m then Some (takeN 6 (d_chaddr m)) else None).
Print Assumptions C05_dhcp_wf_message_passes.
Example C05_wf_dhcp_satisfiable :
  wf_dhcp {| d_op := 1; d_htype := 1; d_hlen := 6; d_hops := 0; d_xid := 7; d_secs := 0; d_flags := 32768;
             d_ciaddr := 0; d_yiaddr := 0; d_siaddr := 0; d_giaddr := 0; d_chaddr := [2; 0; 0; 0; 0; 1];
             d_sname := []; d_file := []; d_options := [(53, [1]); (121, [24; 192; 0; 2; 0; 192; 0; 2; 1])] |} = true.
Proof. reflexivity. Qed.

(* ---- the defects F13-F16, on the fragments as they were before the repairs
   (Model/C05LOrig.v); the witnesses are the inputs in corpus/C05L/ ------------- *)
Theorem C05_to_array_orig_refuted : exists (mac : list N) (k : panic_kind), to_array_orig mac = Panic k.
Proof. exact to_array_orig_refuted. Qed.
Check C05_to_array_orig_refuted : exists (mac : list N) (k : panic_kind), to_array_orig mac = Panic k.
Print Assumptions C05_to_array_orig_refuted.

Theorem C05_subnet_new_orig_refuted : exists (addr plen : N) (k : panic_kind), subnet_new_orig addr plen = Panic k.
Proof. exact subnet_new_orig_refuted. Qed.
Check C05_subnet_new_orig_refuted : exists (addr plen : N) (k : panic_kind), subnet_new_orig addr plen = Panic k.
Print Assumptions C05_subnet_new_orig_refuted.

Theorem C05_frame_payload_orig_refuted : exists (frame : list N) (k : panic_kind), frame_payload_orig frame = Panic k.
Proof. exact frame_payload_orig_refuted. Qed.
Check C05_frame_payload_orig_refuted : exists (frame : list N) (k : panic_kind), frame_payload_orig frame = Panic k.
Print Assumptions C05_frame_payload_orig_refuted.

Theorem C05_mgmt_from_wire_orig_refuted : exists (p : list N) (k : panic_kind), mgmt_from_wire_orig p = Panic k.
Proof. exact mgmt_from_wire_orig_refuted. Qed.
Check C05_mgmt_from_wire_orig_refuted : exists (p : list N) (k : panic_kind), mgmt_from_wire_orig p = Panic k.
Print Assumptions C05_mgmt_from_wire_orig_refuted.

(* the repairs change nothing where the old code did not panic (or, for the
   subnet, where the prefix length is a prefix length) *)
Theorem C05_repairs_conservative :
  (forall mac r, to_array_orig mac = Ok r -> to_array mac = Ok r) /\
  (forall f p, frame_payload_orig f = Ok p -> frame_payload f = Some p) /\
  (forall p, (forall k, mgmt_from_wire_orig p <> Panic k) -> mgmt_from_wire p = mgmt_from_wire_orig p) /\
  (forall addr plen, plen <= 32 -> subnet_new addr plen = subnet_new_orig addr plen).
Proof.
  exact (conj to_array_conservative (conj frame_payload_conservative (conj mgmt_conservative subnet_new_conservative))).
Qed.
Check C05_repairs_conservative :
  (forall mac r, to_array_orig mac = Ok r -> to_array mac = Ok r) /\
  (forall f p, frame_payload_orig f = Ok p -> frame_payload f = Some p) /\
  (forall p, (forall k, mgmt_from_wire_orig p <> Panic k) -> mgmt_from_wire p = mgmt_from_wire_orig p) /\
  (forall addr plen, plen <= 32 -> subnet_new addr plen = subnet_new_orig addr plen).
Print Assumptions C05_repairs_conservative.

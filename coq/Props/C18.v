(* Property C18 (schema part) -- statements only.  The store model, the
   statement/transaction granularity and [wf_store] (the stores a released
   erbium can leave behind, including partially initialised ones) are in
   Model/Schema.v.  SQLite's atomic commit is assumed, not proved. *)
From Erbium Require Import Lib.Base Model.Schema Proofs.Schema.

(* "Closing and reopening the lease database at any point, or opening a
   database written by an older schema version, preserves every lease" *)
Theorem C18_reopen_is_identity : forall s : store, wf_store s = true ->
  exists s', open s = Opened s' /\ rows s' = rows s /\ wf_store s' = true /\ open s' = Opened s'.
Proof. exact reopen_identity. Qed.
Check C18_reopen_is_identity : forall s : store, wf_store s = true ->
  exists s', open s = Opened s' /\ rows s' = rows s /\ wf_store s' = true /\ open s' = Opened s'.
Print Assumptions C18_reopen_is_identity.

Theorem C18_upgrade_preserves_rows : forall rs : list lrow,
  let s := {| s_sv := false; s_ver := None; s_leases := Some (false, rs) |} in
  exists s', open s = Opened s' /\ rows s' = map row_view rs /\ s_ver s' = Some 1%Z.
Proof. exact upgrade_v0_preserves. Qed.
Check C18_upgrade_preserves_rows : forall rs : list lrow,
  let s := {| s_sv := false; s_ver := None; s_leases := Some (false, rs) |} in
  exists s', open s = Opened s' /\ rows s' = map row_view rs /\ s_ver s' = Some 1%Z.
Print Assumptions C18_upgrade_preserves_rows.

(* "If the process is killed at an arbitrary moment the database still opens
   ... and contains no partially written lease": killed at ANY statement
   boundary k of open, what is on disk opens again with exactly the leases. *)
Theorem C18_crash_anywhere_reopens : forall (s : store) (k : N) (st : store),
  wf_store s = true -> crash_state k s = Some st ->
  exists s', open st = Opened s' /\ rows s' = rows s.
Proof. exact crash_then_reopen. Qed.
Check C18_crash_anywhere_reopens : forall (s : store) (k : N) (st : store),
  wf_store s = true -> crash_state k s = Some st ->
  exists s', open st = Opened s' /\ rows s' = rows s.
Print Assumptions C18_crash_anywhere_reopens.

(* "a database from a newer unknown schema is refused rather than modified" *)
Theorem C18_newer_refused_untouched : forall (s : store) (v : Z),
  s_sv s = true -> s_ver s = Some v -> (v <> 0)%Z -> (v <> 1)%Z ->
  (-2147483648 <= v < 2147483648)%Z -> open s = Refused s.
Proof. exact newer_refused. Qed.
Check C18_newer_refused_untouched : forall (s : store) (v : Z),
  s_sv s = true -> s_ver s = Some v -> (v <> 0)%Z -> (v <> 1)%Z ->
  (-2147483648 <= v < 2147483648)%Z -> open s = Refused s.
Print Assumptions C18_newer_refused_untouched.

(* whatever open does -- succeed, refuse or fail, on ANY store -- it never
   adds, drops or alters a lease *)
Theorem C18_open_never_touches_rows : forall s : store, rows (res_store (open s)) = rows s.
Proof. exact open_never_touches_rows. Qed.
Check C18_open_never_touches_rows : forall s : store, rows (res_store (open s)) = rows s.
Print Assumptions C18_open_never_touches_rows.

Example C18_nonvacuous :
  let r := {| l_addr := 3221225985; l_client := [1; 2; 3]; l_start := 100; l_expiry := 400; l_opts := None |} in
  let s := {| s_sv := false; s_ver := None; s_leases := Some (false, [r]) |} in
  wf_store s = true /\ crash_state 2 s = Some (create_sv s) /\
  crash_state 3 s = Some (set_ver 0 (create_sv s)) /\ crash_state 5 s = None /\
  is_opened (open s) = true.
Proof. vm_compute. repeat split; reflexivity. Qed.

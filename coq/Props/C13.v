(* Property C13 -- statements only.  The handler model (Model/DhcpHandler.v)
   takes the outcome of the policy walk and of the address allocation as
   inputs (they are the subject of C11/C02 and C01/C09/C10); everything C13
   speaks about -- who is answered, what a silent message does to the store,
   which row a reply touches, what a reply echoes -- is decided here. *)
From Erbium Require Import Lib.Base Model.DhcpCodec Model.DhcpHandler Proofs.DhcpHandler.

(* "A reply is produced ... only for a DISCOVER, or for a REQUEST that names no
   server or names an address this server has identified itself with" *)
Theorem C13_who_is_answered : forall i db m r db',
  handle i db m = (Reply r, db') ->
  msgtype m = Some 1 \/
  (msgtype m = Some 3 /\
   (serverid m = None \/ exists s, serverid m = Some s /\ (In s (i_ids i) \/ s = i_serverip i))).
Proof. exact who_is_answered. Qed.
Check C13_who_is_answered : forall i db m r db',
  handle i db m = (Reply r, db') ->
  msgtype m = Some 1 \/
  (msgtype m = Some 3 /\
   (serverid m = None \/ exists s, serverid m = Some s /\ (In s (i_ids i) \/ s = i_serverip i))).
Print Assumptions C13_who_is_answered.

(* "every other message ... yields no reply and leaves every stored lease exactly as it was" *)
Theorem C13_silence_is_inert : forall i db m e db', handle i db m = (NoReply e, db') -> db' = db.
Proof. exact silence_is_inert. Qed.
Check C13_silence_is_inert : forall i db m e db', handle i db m = (NoReply e, db') -> db' = db.
Print Assumptions C13_silence_is_inert.

(* "only ever touches the lease row of the address it assigns" *)
Theorem C13_touches_one_row : forall i db m r db',
  handle i db m = (Reply r, db') ->
  (forall x, x <> d_yiaddr r -> row_of db' x = row_of db x) /\
  exists row, row_of db' (d_yiaddr r) = Some row /\ le_client row = client_id m.
Proof. exact touches_one_row. Qed.
Check C13_touches_one_row : forall i db m r db',
  handle i db m = (Reply r, db') ->
  (forall x, x <> d_yiaddr r -> row_of db' x = row_of db x) /\
  exists row, row_of db' (d_yiaddr r) = Some row /\ le_client row = client_id m.
Print Assumptions C13_touches_one_row.

(* "Every reply echoes the request's transaction id, hardware address, relay
   address and flags, carries a server identifier naming this server" *)
Theorem C13_echo : forall i db m r db',
  handle i db m = (Reply r, db') ->
  d_op r = 2 /\ d_xid r = d_xid m /\ d_chaddr r = d_chaddr m /\ d_htype r = d_htype m /\
  d_hlen r = d_hlen m /\ d_giaddr r = d_giaddr m /\ d_flags r = d_flags m /\
  exists s, opt_get (d_options r) 54 = Some (be32 s) /\ (s = i_serverip i \/ In s (i_ids i)).
Proof. exact reply_echoes. Qed.
Check C13_echo : forall i db m r db',
  handle i db m = (Reply r, db') ->
  d_op r = 2 /\ d_xid r = d_xid m /\ d_chaddr r = d_chaddr m /\ d_htype r = d_htype m /\
  d_hlen r = d_hlen m /\ d_giaddr r = d_giaddr m /\ d_flags r = d_flags m /\
  exists s, opt_get (d_options r) 54 = Some (be32 s) /\ (s = i_serverip i \/ In s (i_ids i)).
Print Assumptions C13_echo.

(* over any history of messages: a stored lease changes only if some reply of
   that history assigned that very address *)
Theorem C13_history_only_touches_granted : forall steps db x,
  ~ In x (yiaddrs (fst (run steps db))) -> row_of (snd (run steps db)) x = row_of db x.
Proof. exact run_only_touches_granted. Qed.
Check C13_history_only_touches_granted : forall steps db x,
  ~ In x (yiaddrs (fst (run steps db))) -> row_of (snd (run steps db)) x = row_of db x.
Print Assumptions C13_history_only_touches_granted.

Example C13_nonvacuous :
  let m := {| d_op := 1; d_htype := 1; d_hlen := 6; d_hops := 0; d_xid := 7; d_secs := 0; d_flags := 32768;
              d_ciaddr := 0; d_yiaddr := 0; d_siaddr := 0; d_giaddr := 0; d_chaddr := [2; 0; 0; 0; 0; 1];
              d_sname := []; d_file := []; d_options := [(53, [3]); (54, [192; 0; 2; 1])] |} in
  let i := {| i_ids := []; i_serverip := 3221225985; i_pol := Some true; i_alloc := Some (3221225994, 300);
              i_now := 1000; i_reply_opts := [] |} in
  exists r db', handle i [] m = (Reply r, db') /\ d_yiaddr r = 3221225994 /\
                handle i [] {| d_op := 1; d_htype := 1; d_hlen := 6; d_hops := 0; d_xid := 7; d_secs := 0;
                               d_flags := 0; d_ciaddr := 0; d_yiaddr := 0; d_siaddr := 0; d_giaddr := 0;
                               d_chaddr := [2; 0; 0; 0; 0; 1]; d_sname := []; d_file := [];
                               d_options := [(53, [7])] |} = (NoReply UnknownMessageType, []).
Proof. vm_compute. eexists. eexists. repeat split. Qed.

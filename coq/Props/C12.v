(* Property C12 -- statements only; every proof is `exact <lemma from Proofs/>`. *)
From Erbium Require Import Lib.Base Model.DhcpCodec Model.Frame Proofs.DhcpCodec Proofs.Frame.

(* "its IPv4 destination is the limited broadcast address exactly when the
   client set the broadcast bit (most significant bit of the flags field)" *)
Theorem C12_broadcast_bit : forall f : N, broadcast_flag f = N.testbit f 15.
Proof. exact broadcast_flag_is_bit15. Qed.
Check C12_broadcast_bit : forall f : N, broadcast_flag f = N.testbit f 15.
Print Assumptions C12_broadcast_bit.

Theorem C12_destination : forall flags yiaddr : N,
  reply_dest flags yiaddr = if N.testbit flags 15 then 4294967295 else yiaddr.
Proof. exact reply_dest_spec. Qed.
Check C12_destination : forall flags yiaddr : N,
  reply_dest flags yiaddr = if N.testbit flags 15 then 4294967295 else yiaddr.
Print Assumptions C12_destination.

(* "The Ethernet/IPv4/UDP frame built around a reply has correct lengths, a
   verifying IPv4 header checksum and UDP checksum and an unmodified payload":
   [valid_frame] (Model/Frame.v) is the receiver-side predicate written from
   RFC 791/768: MAC addresses and ethertype in place, total length, IPv4
   header checksum verifies (ones-complement sum = 0xffff), UDP length, UDP
   checksum verifies over the pseudo-header or is the RFC 768 "no checksum"
   value 0, payload unmodified.  Proved for every payload the length fields
   can carry (65507 octets), which includes the property's 0..1472. *)
Theorem C12_frame_valid : forall a : udp4_args,
  wf_udp4_args a = true -> lenN (u_payload a) <= 65507 ->
  udp4_build a = Ok (udp4_frame a) /\ valid_frame a (udp4_frame a) = true.
Proof. exact Proofs.Frame.frame_build_valid. Qed.
Check C12_frame_valid : forall a : udp4_args,
  wf_udp4_args a = true -> lenN (u_payload a) <= 65507 ->
  udp4_build a = Ok (udp4_frame a) /\ valid_frame a (udp4_frame a) = true.
Print Assumptions C12_frame_valid.

Example C12_frame_valid_nonvacuous :
  let a := {| u_src_ip := [192; 0; 2; 1]; u_src_port := 67; u_src_mac := [2; 0; 0; 0; 0; 1];
              u_dst_ip := [255; 255; 255; 255]; u_dst_port := 68; u_dst_mac := [255; 255; 255; 255; 255; 255];
              u_payload := [1; 2; 3] |} in
  wf_udp4_args a = true /\ lenN (u_payload a) <= 65507 /\ valid_frame a (udp4_frame a) = true.
Proof. vm_compute. repeat split; discriminate. Qed.

(* "Any DHCP message survives encoding followed by decoding unchanged,
   including option values longer than 255 octets and repeated or zero-length
   options."  [wf_dhcp] (Model/DhcpCodec.v) is what a message must satisfy to
   be representable at all: field widths, hlen = |chaddr| <= 16, sname/file
   within 64/128 octets and NUL-free (the wire format is NUL-terminated),
   option codes other than pad (0) and end (255), one entry per code.  Option
   values are of ANY length (they are split RFC 3396 style).  The encoder
   emits the options in the order of the list; the implementation iterates a
   hash map, i.e. some order -- the theorem holds for every [m], hence for
   every order of the same option set, and the decoder returns them in that
   order (equal as maps). *)
Theorem C12_roundtrip : forall m : dhcp, wf_dhcp m = true -> decode (encode m) = Ok m.
Proof. exact decode_encode. Qed.
Check C12_roundtrip : forall m : dhcp, wf_dhcp m = true -> decode (encode m) = Ok m.
Print Assumptions C12_roundtrip.

Example C12_roundtrip_nonvacuous :
  let m := {| d_op := 2; d_htype := 1; d_hlen := 6; d_hops := 0; d_xid := 305419896; d_secs := 0;
              d_flags := 32768; d_ciaddr := 0; d_yiaddr := 3221225985; d_siaddr := 0; d_giaddr := 0;
              d_chaddr := [2; 0; 0; 0; 0; 1]; d_sname := []; d_file := [98; 111; 111; 116];
              d_options := [(53, [5]); (43, repeat 7 300); (80, [])] |} in
  wf_dhcp m = true /\ decode (encode m) = Ok m /\ lenN (encode m) = 550.
Proof. vm_compute. repeat split; reflexivity. Qed.

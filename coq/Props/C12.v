(* Property C12 -- statements only; every proof is `exact <lemma from Proofs/>`. *)
From Erbium Require Import Lib.Base Model.DhcpCodec Model.Frame Proofs.DhcpCodec.

(* "its IPv4 destination is the limited broadcast address exactly when the
   client set the broadcast bit (most significant bit of the flags field)" *)
Theorem C12_broadcast_bit : forall f : N, broadcast_flag f = N.testbit f 15.
Proof. exact broadcast_flag_is_bit15. Qed.
Check C12_broadcast_bit : forall f : N, broadcast_flag f = N.testbit f 15.
Print Assumptions C12_broadcast_bit.

Theorem C12_destination : forall flags yiaddr : N,
  reply_dest flags yiaddr = if N.testbit flags 15 then 4294967295 else yiaddr.
Proof. exact reply_dest_spec. Qed.
Check C12_destination : forall flags yiaddr : N,
  reply_dest flags yiaddr = if N.testbit flags 15 then 4294967295 else yiaddr.
Print Assumptions C12_destination.

(* Property C02 -- statements only; every proof is `exact <lemma from Proofs/>`. *)
From Erbium Require Import Lib.Base Model.DhcpPolicy Model.DhcpAddrs Proofs.DhcpAddrs.

(* the coded host range of a subnet = all addresses but the first and the last *)
Theorem C02_hosts_are_documented : forall net len x,
  hosts net len x = ((net <? x) && (x <? net + 2 ^ (32 - len) - 1)).
Proof. exact hosts_spec. Qed.
Check C02_hosts_are_documented : forall net len x,
  hosts net len x = ((net <? x) && (x <? net + 2 ^ (32 - len) - 1)).
Print Assumptions C02_hosts_are_documented.

(* Property C02 -- statements only; every proof is `exact <lemma from Proofs/>`.
   Model/DhcpAddrs.v: loader (parse_policy address handling), built-in base
   policy (build_default_config) and the policy walk, as coded after the F19
   repair; `allowed g req x` = x is in the set the walk ends with.
   Model/DhcpAddrsSpec.v: `documented` = D(config, client, interface) from
   erbium.conf(5); `known_F20` = finding F20 (the deciding policy's own pool
   contains the receiving address). *)
From Erbium Require Import Lib.Base Model.DhcpPolicy Model.DhcpAddrs Model.DhcpAddrsSpec Proofs.DhcpAddrs.

(* Full statement wanted (DESIGN.md):
     forall g req, wf_cfg g = true -> forall x, allowed g req x = true <-> Documented g req x.
   It is false for the code as it is (F20, see C02_never_server_ip_refuted);
   proved: the two sets differ at most by the receiving address, and only in
   the F20 class. *)
Theorem C02_allowed_is_documented : forall g req x,
  wf_cfg g = true ->
  allowed g req x = documented g req x || ((x =? r_serverip req) && known_F20 g req).
Proof. exact allowed_is_documented. Qed.
Check C02_allowed_is_documented : forall g req x,
  wf_cfg g = true ->
  allowed g req x = documented g req x || ((x =? r_serverip req) && known_F20 g req).
Print Assumptions C02_allowed_is_documented.
Example C02_wf_cfg_ex : wf_cfg f20_cfg = true.
Proof. reflexivity. Qed.

(* which pool decides, explicitly *)
Theorem C02_allowed_cases : forall g req x,
  wf_cfg g = true ->
  allowed g req x =
  match deciding req (g_policies g) with
  | Some c => names c x && negb (existsb (fun d => names_deep d x) (c_kids c))
  | None =>
    match receiving_prefix (r_serverip req) (g_addresses g) with
    | Some (net, len) =>
      (net <? x) && (x <? net + 2 ^ (32 - len) - 1) && negb (x =? r_serverip req)
      && negb (existsb (fun p => names_deep p x) (g_policies g))
    | None => false
    end
  end.
Proof. exact allowed_eq. Qed.
Check C02_allowed_cases : forall g req x,
  wf_cfg g = true ->
  allowed g req x =
  match deciding req (g_policies g) with
  | Some c => names c x && negb (existsb (fun d => names_deep d x) (c_kids c))
  | None =>
    match receiving_prefix (r_serverip req) (g_addresses g) with
    | Some (net, len) =>
      (net <? x) && (x <? net + 2 ^ (32 - len) - 1) && negb (x =? r_serverip req)
      && negb (existsb (fun p => names_deep p x) (g_policies g))
    | None => false
    end
  end.
Print Assumptions C02_allowed_cases.

(* never the server's own address (outside F20), never the network or
   broadcast address of the receiving subnet *)
Theorem C02_never_special : forall g req x,
  wf_cfg g = true -> allowed g req x = true ->
  (x = r_serverip req -> known_F20 g req = true)
  /\ (deciding req (g_policies g) = None ->
      forall net len, receiving_prefix (r_serverip req) (g_addresses g) = Some (net, len) ->
      x <> r_serverip req /\ x <> net /\ x <> net + 2 ^ (32 - len) - 1).
Proof. exact never_special. Qed.
Check C02_never_special : forall g req x,
  wf_cfg g = true -> allowed g req x = true ->
  (x = r_serverip req -> known_F20 g req = true)
  /\ (deciding req (g_policies g) = None ->
      forall net len, receiving_prefix (r_serverip req) (g_addresses g) = Some (net, len) ->
      x <> r_serverip req /\ x <> net /\ x <> net + 2 ^ (32 - len) - 1).
Print Assumptions C02_never_special.

(* an apply-subnet never contributes its first or last address *)
Theorem C02_subnet_item_never_special : forall net len x,
  doc_item x (ASubnet net len) = true -> x <> net /\ x <> net + 2 ^ (32 - len) - 1.
Proof. exact subnet_item_never_special. Qed.
Check C02_subnet_item_never_special : forall net len x,
  doc_item x (ASubnet net len) = true -> x <> net /\ x <> net + 2 ^ (32 - len) - 1.
Print Assumptions C02_subnet_item_never_special.

(* the code as it is can hand out the receiving address from a configured pool *)
Theorem C02_never_server_ip_refuted :
  exists g req, wf_cfg g = true /\ known_F20 g req = true /\ allowed g req (r_serverip req) = true.
Proof. exact server_ip_refuted. Qed.
Check C02_never_server_ip_refuted :
  exists g req, wf_cfg g = true /\ known_F20 g req = true /\ allowed g req (r_serverip req) = true.
Print Assumptions C02_never_server_ip_refuted.

(* "a host with a single-address reservation gets that address and no other" *)
Theorem C02_reservation_only : forall g req c a x,
  wf_cfg g = true ->
  deciding req (g_policies g) = Some c -> c_addrs c = [AAddr a] ->
  allowed g req x = true -> x = a.
Proof. exact reservation_only. Qed.
Check C02_reservation_only : forall g req c a x,
  wf_cfg g = true ->
  deciding req (g_policies g) = Some c -> c_addrs c = [AAddr a] ->
  allowed g req x = true -> x = a.
Print Assumptions C02_reservation_only.

(* "never an address reserved by a more specific policy for someone else" *)
Theorem C02_reservation_exclusive : forall g req x,
  wf_cfg g = true ->
  (forall c d, deciding req (g_policies g) = Some c -> In d (c_kids c) -> names_deep d x = true ->
               allowed g req x = false)
  /\ (forall p, deciding req (g_policies g) = None -> In p (g_policies g) -> names_deep p x = true ->
                allowed g req x = false).
Proof. exact reservation_exclusive. Qed.
Check C02_reservation_exclusive : forall g req x,
  wf_cfg g = true ->
  (forall c d, deciding req (g_policies g) = Some c -> In d (c_kids c) -> names_deep d x = true ->
               allowed g req x = false)
  /\ (forall p, deciding req (g_policies g) = None -> In p (g_policies g) -> names_deep p x = true ->
                allowed g req x = false).
Print Assumptions C02_reservation_exclusive.

(* the coded host range of a subnet = all addresses but the first and the last *)
Theorem C02_hosts_are_documented : forall net len x,
  hosts net len x = ((net <? x) && (x <? net + 2 ^ (32 - len) - 1)).
Proof. exact hosts_spec. Qed.
Check C02_hosts_are_documented : forall net len x,
  hosts net len x = ((net <? x) && (x <? net + 2 ^ (32 - len) - 1)).
Print Assumptions C02_hosts_are_documented.

(* Lemmas about Model/DnsPipeline.v: the composed DNS pipeline (theorems D01..D06). *)
From Erbium Require Import Lib.Base Lib.ListEqbFacts Model.DnsName Model.DnsCodec Model.DnsStrict
  Model.DnsForward Model.DnsEncodeSized Model.DnsPipeline.
From Erbium Require Model.Acl Model.DnsRoute Model.Bucket Model.Cookie Model.DnsCache.
From Erbium Require Import Proofs.DnsPacket Proofs.DnsWf Proofs.DnsTotal Proofs.DnsEncTotal
  Proofs.DnsForward Proofs.DnsForwardWire Proofs.DnsStrictProofs.
From Erbium Require Proofs.Acl Proofs.DnsRoute Proofs.Bucket Proofs.Cookie Proofs.DnsCache.

(* ---- replies are encodable --------------------------------------------------------------- *)
Definition error0 (q : pkt) (kind : N) (eo : opts) : pkt :=
  {| qid := qid q; rd := false; tc := false; aa := false; qr := true; opcode := 0;
     cd := false; ad := false; ra := true; rcode := error_rcode kind; bufsize := 4096;
     edns_ver := Some 0; edns_do := false;
     qname := qname q; qtype := qtype q; qclass := qclass q;
     answer := []; nameserver := []; additional := [];
     edns := Some eo |}.

Lemma in_error_encoding q kind eo size :
  encode_sized_t (in_error q kind eo) size = encode_sized_t (error0 q kind eo) size.
Proof. unfold in_error, error0. destruct (edns_ver q); reflexivity. Qed.

Lemma error_rcode_small kind : error_rcode kind <= 5.
Proof.
  unfold error_rcode.
  repeat match goal with |- context [match ?x with _ => _ end] => destruct x end; lia.
Qed.

Lemma error0_wf q kind eo : wf_pkt q = true -> wf_opts eo = true -> wf_pkt (error0 q kind eo) = true.
Proof.
  intros Hq He.
  apply wf_pkt_parts in Hq as (Qid & _ & _ & _ & _ & Qn & Qt & Qc & _).
  pose proof (error_rcode_small kind) as Hr.
  unfold wf_pkt, error0.
  cbn [qid opcode rcode bufsize qname qtype qclass answer nameserver additional edns edns_ver edns_do opt_rr].
  unfold w16. rewrite Qn, He. cbn [forallb existsb negb app lenN length].
  repeat match goal with |- context [?a <? ?b] =>
    replace (a <? b) with true by (symmetry; apply N.ltb_lt; simpl; lia) end.
  reflexivity.
Qed.

Lemma outquery_wf id q : wf_pkt q = true -> id < 65536 -> wf_pkt (outquery id q) = true.
Proof.
  intros Hq Hid.
  apply wf_pkt_parts in Hq as (_ & _ & _ & _ & _ & Qn & Qt & Qc & _).
  unfold wf_pkt, outquery.
  cbn [qid opcode rcode bufsize qname qtype qclass answer nameserver additional edns edns_ver edns_do opt_rr].
  unfold w16. rewrite Qn. cbn [forallb existsb negb app lenN length].
  repeat match goal with |- context [?a <? ?b] =>
    replace (a <? b) with true by (symmetry; apply N.ltb_lt; simpl; lia) end.
  reflexivity.
Qed.

Lemma wire_bytes_total q tcp r : wf_pkt r = true -> exists e, wire_bytes q tcp r = Ok e.
Proof.
  intro H. unfold wire_bytes, prepare_to_send, encode_sized.
  destruct (encode_total r (N.max (response_size_limit tcp (bufsize q)) 512) H ltac:(lia)) as (e & t & E).
  rewrite E. eauto.
Qed.

Lemma encode_outquery_total id q : wf_pkt q = true -> id < 65536 -> exists e, encode (outquery id q) = Ok e.
Proof.
  intros Hq Hid. unfold encode, encode_sized.
  destruct (encode_total _ 65536 (outquery_wf id q Hq Hid) ltac:(lia)) as (e & t & E). rewrite E. eauto.
Qed.

(* ---- adapter facts: abstract cache replies <-> packets ------------------------------------ *)
Definition aged_rr (d : N) (r : rr) : rr := with_ttl r (r_ttl r - d).

Lemma set_ttls_dec d : forall l i,
  set_ttls l (DnsCache.dec_exact d (number_rrs i l)) = map (aged_rr d) l.
Proof. induction l as [|r l IH]; intro i; simpl; [reflexivity|]. rewrite IH. reflexivity. Qed.

(* the packet [m] as the cache serves it after [d] whole seconds *)
Definition age_exact (d : N) (m : pkt) : pkt := conc_reply m (DnsCache.dec_reply_exact d (abs_reply m)).

Lemma age_exact_sections d m :
  answer (age_exact d m) = map (aged_rr d) (answer m) /\
  nameserver (age_exact d m) = map (aged_rr d) (nameserver m) /\
  additional (age_exact d m) = map (aged_rr d) (additional m).
Proof.
  unfold age_exact, conc_reply, DnsCache.dec_reply_exact, abs_reply, DnsCache.r_answer, DnsCache.r_ns,
    DnsCache.r_additional. cbn [answer nameserver additional fst snd].
  rewrite !set_ttls_dec. auto.
Qed.

Lemma number_rrs_in : forall l i p, In p (number_rrs i l) -> exists r, In r l /\ fst p = r_ttl r.
Proof.
  induction l as [|r l IH]; simpl; intros i p H; [destruct H|].
  destruct H as [<-|H]; [exists r; auto|]. destruct (IH _ _ H) as (r' & ? & ?). eauto.
Qed.

Lemma all_rrs_abs m p : In p (DnsCache.all_rrs (abs_reply m)) ->
  exists r, In r (answer m ++ nameserver m ++ additional m) /\ fst p = r_ttl r.
Proof.
  unfold DnsCache.all_rrs, abs_reply, DnsCache.r_answer, DnsCache.r_ns, DnsCache.r_additional.
  cbn [fst snd]. rewrite !in_app_iff. intros [H|[H|H]]; apply number_rrs_in in H as (r & ? & ?);
    exists r; rewrite !in_app_iff; auto.
Qed.

Lemma wf_rr_ttl r : wf_rr r = true -> r_ttl r < 4294967296.
Proof.
  unfold wf_rr, w32. rewrite !andb_true_iff. intros [[[[[_ _] _] H] _] _]. apply N.ltb_lt in H. exact H.
Qed.

Lemma wf_pkt_rrs m r : wf_pkt m = true -> In r (answer m ++ nameserver m ++ additional m) -> wf_rr r = true.
Proof.
  intros H Hin. apply wf_pkt_parts in H as (_ & _ & _ & _ & _ & _ & _ & _ & A & B & C & _).
  rewrite !in_app_iff in Hin. destruct Hin as [Hin|[Hin|Hin]];
    [exact (forallb_In _ _ _ A Hin) | exact (forallb_In _ _ _ B Hin) | exact (forallb_In _ _ _ C Hin)].
Qed.

Lemma abs_result_u32 m : wf_pkt m = true -> DnsCache.result_u32 (abs_result (UOk m)).
Proof.
  intros H p Hp. apply all_rrs_abs in Hp as (r & Hin & ->).
  pose proof (wf_rr_ttl r (wf_pkt_rrs m r H Hin)). unfold pow2. simpl. lia.
Qed.

Lemma wf_rr_with_ttl r t : wf_rr r = true -> t < 4294967296 -> wf_rr (with_ttl r t) = true.
Proof.
  unfold wf_rr, with_ttl, w32. cbn [r_name r_class r_type r_ttl r_data].
  rewrite !andb_true_iff. intros [[[[[A B] C] _] E] F] Ht.
  repeat split; auto. apply N.ltb_lt. exact Ht.
Qed.

Lemma forallb_aged d l : forallb wf_rr l = true -> forallb wf_rr (map (aged_rr d) l) = true.
Proof.
  induction l as [|r l IH]; simpl; [auto|]. rewrite !andb_true_iff. intros [A B]. split; [|auto].
  apply wf_rr_with_ttl; [assumption|]. pose proof (wf_rr_ttl r A). lia.
Qed.

Lemma existsb_aged d l : existsb (fun r => r_type r =? T_OPT) (map (aged_rr d) l) = existsb (fun r => r_type r =? T_OPT) l.
Proof. induction l as [|r l IH]; simpl; [reflexivity|]. rewrite IH. reflexivity. Qed.

Lemma lenN_map {A B} (f : A -> B) l : lenN (map f l) = lenN l.
Proof. unfold lenN. rewrite map_length. reflexivity. Qed.

Lemma age_exact_wf d m : wf_pkt m = true -> wf_pkt (age_exact d m) = true.
Proof.
  intro H. pose proof (age_exact_sections d m) as (Ea & En & Ed).
  pose proof H as H0. apply wf_pkt_parts in H0 as (_ & _ & _ & _ & _ & _ & _ & _ & A & B & C & _).
  unfold wf_pkt in *.
  replace (opt_rr (age_exact d m)) with (opt_rr m) by reflexivity.
  rewrite Ea, En, Ed.
  change (qid (age_exact d m)) with (qid m). change (opcode (age_exact d m)) with (opcode m).
  change (rcode (age_exact d m)) with (rcode m). change (bufsize (age_exact d m)) with (bufsize m).
  change (qname (age_exact d m)) with (qname m). change (qtype (age_exact d m)) with (qtype m).
  change (qclass (age_exact d m)) with (qclass m). change (edns (age_exact d m)) with (edns m).
  change (edns_ver (age_exact d m)) with (edns_ver m). change (edns_do (age_exact d m)) with (edns_do m).
  rewrite !forallb_aged by assumption. rewrite existsb_aged.
  unfold lenN in *. rewrite !app_length, !map_length in *.
  rewrite A, B, C in H. exact H.
Qed.

Lemma age_exact_aged d m : (forall r, In r (answer m ++ nameserver m ++ additional m) -> d <= r_ttl r) ->
  Forall2 (aged d) (answer (age_exact d m)) (answer m) /\
  Forall2 (aged d) (nameserver (age_exact d m)) (nameserver m) /\
  Forall2 (aged d) (additional (age_exact d m)) (additional m).
Proof.
  intro H. pose proof (age_exact_sections d m) as (Ea & En & Ed). rewrite Ea, En, Ed.
  assert (G : forall l, (forall r, In r l -> d <= r_ttl r) -> Forall2 (aged d) (map (aged_rr d) l) l).
  { induction l as [|r l IH]; intro Hl; simpl; constructor.
    - unfold aged, aged_rr, with_ttl, strip_ttl. simpl. split; [reflexivity|].
      pose proof (Hl r (or_introl eq_refl)). lia.
    - apply IH. intros. apply Hl. right. assumption. }
  repeat split; apply G; intros r Hr; apply H; rewrite !in_app_iff; auto.
Qed.

(* ---- invariants ---------------------------------------------------------------------------- *)
Definition cfg_ok (c : cfg) : Prop :=
  (forall r srvs, In r (c_routes c) -> DnsRoute.act r = DnsRoute.Forward srvs -> srvs <> []) /\
  (forall a, (fst (c_hash c a) < 256)%nat /\ (snd (c_hash c a) < 256)%nat /\ fst (c_hash c a) <> snd (c_hash c a)).

Definition pkt_ok (m : pkt) : Prop := wf_pkt m = true /\ lenN (additional m) < 65535.
Definition res_ok (r : upres) : Prop := match r with UOk m => pkt_ok m | UErr _ => True end.

(* every reply in the cache has its packet in the store, under the same key *)
Definition store_ok (c : DnsCache.cache) (s : list (DnsCache.key * pkt)) : Prop :=
  forall k e r, DnsCache.lookup k c = Some e -> DnsCache.e_reply e = DnsCache.ROk r ->
    exists m, store_lookup k s = Some m /\ abs_reply m = r /\ pkt_ok m.

Definition st_ok (t_s : N) (st : pstate) : Prop :=
  DnsCache.cache_ok (s_cache st) /\ store_ok (s_cache st) (s_store st) /\
  length (s_buckets st) = 256%nat /\ Forall (fun z => z <= t_s) (s_buckets st).

(* octets in, and fewer than 65535 additional records in what decodes (any message of at most
   65535 octets: a record takes at least 11) *)
Definition upans_ok (a : upans) : Prop :=
  forall b, a = UpReply b -> bytes_ok b = true /\ forall m, decode b = Ok m -> lenN (additional m) < 65535.
Definition up_ok (u : upstream) : Prop := upans_ok (u_udp u) /\ upans_ok (u_tcp u).

Definition is_ip (a : Acl.addr) : Prop := a <> Acl.AUnix.

(* ---- front ----------------------------------------------------------------------------------- *)
Lemma decide_no_panic c q rd : cfg_ok c -> DnsRoute.decide (c_routes c) q rd <> DnsRoute.RPanic.
Proof.
  intros [H _]. unfold DnsRoute.decide, DnsRoute.decide_with.
  destruct (DnsRoute.select (c_routes c) q) as [[i s]|] eqn:E; [|discriminate].
  destruct (Proofs.DnsRoute.select_longest _ _ _ _ E) as ((r & Hn & _) & _). rewrite Hn.
  unfold DnsRoute.act_result. destruct (DnsRoute.act r) as [|srvs] eqn:A; [discriminate|].
  destruct rd; [|discriminate]. destruct srvs as [|x rest]; [|discriminate].
  exfalso. apply (H r [] (nth_error_In _ _ Hn) A). reflexivity.
Qed.

Lemma front_total c client port q : cfg_ok c -> exists rt, front c client port q = Ok rt.
Proof.
  intro H. unfold front. destruct (Acl.dns_gate (c_acls c) client); [eauto|].
  destruct (qtype q =? 255); [eauto|]. destruct (port =? 53); [eauto|].
  pose proof (decide_no_panic c (qname q) (rd q) H) as NP.
  destruct (DnsRoute.decide (c_routes c) (qname q) (rd q)); eauto. congruence.
Qed.

(* ---- cache stage ----------------------------------------------------------------------------- *)
Lemma parse_up_ok a : upans_ok a -> res_ok (parse_up a).
Proof.
  intro H. unfold parse_up. destruct a as [b| |e]; simpl; auto.
  destruct (decode b) as [m| |] eqn:E; simpl; auto.
  destruct (H b eq_refl) as [Hb Hl]. split; [eapply decode_wf; eassumption | auto].
Qed.

Lemma out_query_ok tcp id u : up_ok u -> res_ok (fst (out_query tcp id u)).
Proof.
  intros [H1 H2]. unfold out_query. destruct tcp; simpl; [apply parse_up_ok; assumption|].
  pose proof (parse_up_ok _ H1) as P1. destruct (parse_up (u_udp u)) as [m|e]; simpl; auto.
  destruct ((qid m =? id) && negb (tc m)); simpl; [assumption | apply parse_up_ok; assumption].
Qed.

Lemma store_lookup_insert s k m k' :
  store_lookup k' (store_insert k m s) = if DnsCache.key_eqb k' k then Some m else store_lookup k' s.
Proof.
  unfold store_insert. simpl. destruct (DnsCache.key_eqb k' k) eqn:E; [reflexivity|].
  induction s as [|[k0 m0] s IH]; simpl; [reflexivity|].
  destruct (DnsCache.key_eqb k k0) eqn:E0; simpl.
  - apply Proofs.DnsCache.key_eqb_eq in E0. subst k0. rewrite E. exact IH.
  - destruct (DnsCache.key_eqb k' k0); [reflexivity | exact IH].
Qed.

Lemma res_u32 r : res_ok r -> DnsCache.result_u32 (abs_result r).
Proof. destruct r as [m|e]; simpl; [intros [H _]; apply (abs_result_u32 m H) | auto]. Qed.

Lemma cache_stage_ok st q tcp t_ns t_ins srv id u :
  DnsCache.cache_ok (s_cache st) -> store_ok (s_cache st) (s_store st) ->
  wf_pkt q = true -> id < 65536 -> up_ok u ->
  exists r c' store' qs, cache_stage st q tcp t_ns t_ins srv id u = Ok (r, c', store', qs) /\
    DnsCache.cache_ok c' /\ store_ok c' store' /\ res_ok r.
Proof.
  intros CO SO Hq Hid Hu. unfold cache_stage.
  pose proof (out_query_ok tcp id u Hu) as RO. set (o := out_query tcp id u) in *.
  destruct (encode_outquery_total id q Hq Hid) as (qb & EQ).
  pose proof (Proofs.DnsCache.handle_cache_ok (s_cache st) (key_of q) (qclass q) t_ns t_ins
                (abs_result (fst o)) CO (res_u32 _ RO)) as CO'.
  unfold DnsCache.handle in *.
  destruct (N.eqb_spec (qclass q) 1) as [QC|QC]; cbn [negb] in *.
  - destruct (DnsCache.get_entry (s_cache st) (key_of q) t_ns) as [o'|] eqn:G; cbn [fst snd] in *.
    + (* hit *)
      destruct (Proofs.DnsCache.hit_only_fresh_and_same_key _ _ _ _ CO G) as (e & L & Hin & F & Hlife & Eo).
      destruct (DnsCache.e_reply e) as [r0|er] eqn:ER.
      * destruct (Proofs.DnsCache.ttl_exact _ _ _ _ _ _ CO G L ER) as (Eo' & _).
        rewrite Eo'. destruct (SO _ _ _ L ER) as (m & SL & AB & PM). rewrite SL.
        eexists _, _, _, _. split; [reflexivity|]. split; [assumption|]. split; [assumption|].
        rewrite <- AB. fold (age_exact ((t_ns - DnsCache.e_birth e) / DnsCache.NS) m).
        destruct PM as [W A]. split; [apply age_exact_wf; assumption|].
        destruct (age_exact_sections ((t_ns - DnsCache.e_birth e) / DnsCache.NS) m) as (_ & _ & Ed).
        rewrite Ed, lenN_map. assumption.
      * subst o'. cbn [DnsCache.dec_result].
        eexists _, _, _, _. split; [reflexivity|]. split; [assumption|]. split; [assumption|]. exact I.
    + (* miss *)
      rewrite EQ. cbn [obind andb].
      eexists _, _, _, _. split; [reflexivity|]. split; [exact CO'|]. split; [|exact RO].
      destruct (N.ltb_spec 0 (DnsCache.calculate_expiry (abs_result (fst o)))) as [LT|GE].
      * intros k' e' r' L' ER'. rewrite Proofs.DnsCache.lookup_insert in L'.
        destruct (fst o) as [m|er] eqn:FO.
        -- rewrite store_lookup_insert. destruct (DnsCache.key_eqb k' (key_of q)).
           ++ inversion L'; subst e'. cbn [DnsCache.e_reply abs_result] in ER'. inversion ER'; subst r'.
              exists m. repeat split; try reflexivity; apply RO.
           ++ apply (SO _ _ _ L' ER').
        -- destruct (DnsCache.key_eqb k' (key_of q)).
           ++ inversion L'; subst e'. cbn [DnsCache.e_reply abs_result] in ER'. discriminate.
           ++ apply (SO _ _ _ L' ER').
      * destruct (fst o); exact SO.
  - (* not class IN: the cache is bypassed *)
    cbn [fst snd]. rewrite EQ. cbn [obind andb].
    eexists _, _, _, _. split; [reflexivity|]. split; [assumption|]. split; [|exact RO].
    destruct (fst o); exact SO.
Qed.

(* ---- limiter stage ---------------------------------------------------------------------------- *)
Lemma upd_length {A} i (v : A) l : length (upd i v l) = length l.
Proof.
  unfold upd. rewrite app_length. rewrite <- (firstn_skipn i l) at 3. rewrite app_length. f_equal.
  destruct (skipn i l); reflexivity.
Qed.

Lemma upd_Forall {A} (P : A -> Prop) i v l : Forall P l -> P v -> Forall P (upd i v l).
Proof.
  intros H Hv. unfold upd. apply Forall_app. split.
  - rewrite <- (firstn_skipn i l) in H. apply Forall_app in H. tauto.
  - rewrite <- (firstn_skipn i l) in H. apply Forall_app in H as [_ H].
    destruct (skipn i l); [constructor|]. inversion H; subst. constructor; assumption.
Qed.

Lemma nth_Forall (P : N -> Prop) l i : Forall P l -> (i < length l)%nat -> P (nth i l 0).
Proof. intros H L. rewrite Forall_forall in H. apply H. apply nth_In. assumption. Qed.

Lemma addr_octets_ip a : is_ip a -> exists o, addr_octets a = Ok o.
Proof. destruct a; simpl; eauto. intro H. exfalso. apply H. reflexivity. Qed.

Lemma limiter_stage_ok mac c st client local tcp q reply in_size out_size t_s :
  cfg_ok c -> length (s_buckets st) = 256%nat -> Forall (fun z => z <= t_s) (s_buckets st) ->
  Bucket.window Bucket.CAP Bucket.RATE <= t_s -> t_s < pow2 32 -> is_ip client -> is_ip local ->
  exists drop bs, limiter_stage mac c st client local tcp q reply in_size out_size t_s = Ok (drop, bs) /\
    length bs = 256%nat /\ Forall (fun z => z <= t_s) bs.
Proof.
  intros [_ HH] HL HF HW HT IC IL. unfold limiter_stage.
  destruct tcp; [eauto|]. destruct (negb (rcode reply =? 5)) eqn:RC; [eauto|].
  assert (EX : exists ex,
    match cookie_opt q with
    | Some d => if lenN d <? 8 then Ok false
                else do l <- addr_octets local; do r <- addr_octets client;
                     Ok (Cookie.exempt mac (Some d) l r (fst (s_keys st)) (snd (s_keys st)))
    | None => Ok false
    end = Ok ex).
  { destruct (cookie_opt q) as [d|]; [|eauto]. destruct (lenN d <? 8); [eauto|].
    destruct (addr_octets_ip _ IL) as (l & ->). destruct (addr_octets_ip _ IC) as (r & ->). simpl. eauto. }
  destruct EX as (ex & ->). cbn [obind].
  destruct (HH client) as (H1 & H2 & _).
  set (i := fst (c_hash c client)) in *. set (j := snd (c_hash c client)) in *.
  assert (Z1 : nth i (s_buckets st) 0 <= t_s) by (apply nth_Forall; [assumption | lia]).
  assert (Z2 : nth j (s_buckets st) 0 <= t_s) by (apply nth_Forall; [assumption | lia]).
  unfold Bucket.should_ratelimit. rewrite RC. destruct ex.
  - cbn [obind fst snd]. eexists _, _. split; [reflexivity|]. rewrite !upd_length. split; [assumption|].
    apply upd_Forall; [apply upd_Forall|]; assumption.
  - destruct (Proofs.Bucket.limiter_never_aborts Bucket.CAP Bucket.RATE ltac:(reflexivity) _ _ t_s
                (cast 32 (Bucket.cost in_size out_size)) HW HT Z1 Z2) as (b & y1 & y2 & E & Y1 & Y2).
    rewrite E. cbn [obind fst snd]. eexists _, _. split; [reflexivity|]. rewrite !upd_length.
    split; [assumption|]. apply upd_Forall; [apply upd_Forall|]; assumption.
Qed.

(* ---- D01: totality, and the invariant is kept --------------------------------------------------- *)
Lemma Forall_le_mono (l : list N) t t' : t <= t' -> Forall (fun z => z <= t) l -> Forall (fun z => z <= t') l.
Proof. intros H F. eapply Forall_impl; [|exact F]. simpl. intros. lia. Qed.

Lemma st_ok_mono t t' st : t <= t' -> st_ok t st -> st_ok t' st.
Proof.
  intros H (A & B & C & D). split; [assumption|]. split; [assumption|]. split; [assumption|].
  eapply Forall_le_mono; eassumption.
Qed.

Lemma dns_step_total mac c st t_ns t_ins t_s client port local tcp b u id eo :
  cfg_ok c -> st_ok t_s st ->
  Bucket.window Bucket.CAP Bucket.RATE <= t_s -> t_s < pow2 32 -> is_ip client -> is_ip local ->
  bytes_ok b = true -> up_ok u -> id < 65536 -> wf_opts eo = true ->
  exists st' out qs,
    dns_step mac c st t_ns t_ins t_s client port local tcp b u id eo = Ok (st', out, qs) /\ st_ok t_s st'.
Proof.
  intros HC (CO & SO & BL & BF) HW HT IC IL HB HU HID HEO. unfold dns_step.
  destruct (decode b) as [q|e|p] eqn:D.
  - pose proof (decode_wf b q HB D) as WQ.
    destruct (front_total c client port q HC) as (rt & ->). cbn [obind].
    assert (ST : exists reply c' store' qs,
      match rt with
      | Refuse kind => Ok (in_error q kind eo, s_cache st, s_store st, [])
      | ToServer srv =>
        do x <- cache_stage st q tcp t_ns t_ins srv id u;
        match x with (r, c', store', qs) => Ok (reply_of q r eo, c', store', qs) end
      end = Ok (reply, c', store', qs) /\
      DnsCache.cache_ok c' /\ store_ok c' store' /\
      (exists e, wire_bytes q tcp reply = Ok e)).
    { destruct rt as [srv|kind].
      - destruct (cache_stage_ok st q tcp t_ns t_ins srv id u CO SO WQ HID HU) as (r & c' & s' & qs & -> & A & B & R).
        cbn [obind]. eexists _, _, _, _. split; [reflexivity|]. split; [assumption|]. split; [assumption|].
        unfold wire_bytes, prepare_to_send, encode_sized. destruct r as [m|er]; cbn [reply_of].
        + destruct R as [WM LM]. rewrite in_reply_encoding.
          destruct (encode_total _ (N.max (response_size_limit tcp (bufsize q)) 512)
                      (reply0_wf q m eo WQ WM HEO LM) ltac:(lia)) as (e & t & ->). eauto.
        + rewrite in_error_encoding.
          destruct (encode_total _ (N.max (response_size_limit tcp (bufsize q)) 512)
                      (error0_wf q 4 eo WQ HEO) ltac:(lia)) as (e & t & ->). eauto.
      - eexists _, _, _, _. split; [reflexivity|]. split; [assumption|]. split; [assumption|].
        unfold wire_bytes, prepare_to_send, encode_sized. rewrite in_error_encoding.
        destruct (encode_total _ (N.max (response_size_limit tcp (bufsize q)) 512)
                    (error0_wf q kind eo WQ HEO) ltac:(lia)) as (e & t & ->). eauto. }
    destruct ST as (reply & c' & store' & qs & E1 & CO' & SO' & (e & E2)). rewrite E1. cbn [obind].
    rewrite E2. cbn [obind].
    destruct (limiter_stage_ok mac c st client local tcp q reply (lenN b) (lenN e) t_s HC BL BF HW HT IC IL)
      as (drop & bs & -> & BL' & BF'). cbn [obind fst snd].
    eexists _, _, _. split; [reflexivity|]. unfold st_ok. cbn [s_cache s_store s_buckets]. tauto.
  - eexists _, _, _. split; [reflexivity|]. unfold st_ok. tauto.
  - exfalso. destruct (decode_total b) as [H _]. rewrite D in H. discriminate.
Qed.

(* ---- reading a successful step back stage by stage ----------------------------------------------- *)
Definition staged_of (st : pstate) (q : pkt) (tcp : bool) (t_ns t_ins id : N) (u : upstream) (eo : opts) (rt : routed)
  : outcome (pkt * DnsCache.cache * list (DnsCache.key * pkt) * list upq) :=
  match rt with
  | Refuse kind => Ok (in_error q kind eo, s_cache st, s_store st, [])
  | ToServer srv =>
    do x <- cache_stage st q tcp t_ns t_ins srv id u;
    match x with (r, c', store', qs) => Ok (reply_of q r eo, c', store', qs) end
  end.

Lemma dns_step_inv mac c st t_ns t_ins t_s client port local tcp b u id eo q st' out qs :
  decode b = Ok q ->
  dns_step mac c st t_ns t_ins t_s client port local tcp b u id eo = Ok (st', out, qs) ->
  exists rt reply c' store' bytes drop bs,
    front c client port q = Ok rt /\
    staged_of st q tcp t_ns t_ins id u eo rt = Ok (reply, c', store', qs) /\
    wire_bytes q tcp reply = Ok bytes /\
    limiter_stage mac c st client local tcp q reply (lenN b) (lenN bytes) t_s = Ok (drop, bs) /\
    st' = {| s_cache := c'; s_store := store'; s_buckets := bs; s_keys := s_keys st |} /\
    out = (if drop then None else Some bytes).
Proof.
  intros D H. unfold dns_step in H. rewrite D in H.
  destruct (front c client port q) as [rt| |] eqn:F; cbn [obind] in H; try discriminate.
  fold (staged_of st q tcp t_ns t_ins id u eo rt) in H.
  destruct (staged_of st q tcp t_ns t_ins id u eo rt) as [[[[reply c'] store'] qs']| |] eqn:S; cbn [obind] in H; try discriminate.
  destruct (wire_bytes q tcp reply) as [bytes| |] eqn:W; cbn [obind] in H; try discriminate.
  destruct (limiter_stage mac c st client local tcp q reply (lenN b) (lenN bytes) t_s) as [[drop bs]| |] eqn:L;
    cbn [obind fst snd] in H; try discriminate.
  inversion H; subst. eexists _, _, _, _, _, _, _. repeat split; eauto.
Qed.

(* nothing but the limiter's buckets changes, and no upstream query is emitted, when the query is
   refused before the cache *)
Lemma refused_step mac c st t_ns t_ins t_s client port local tcp b u id eo q st' out qs kind :
  decode b = Ok q -> front c client port q = Ok (Refuse kind) ->
  dns_step mac c st t_ns t_ins t_s client port local tcp b u id eo = Ok (st', out, qs) ->
  qs = [] /\ s_cache st' = s_cache st /\ s_store st' = s_store st /\
  exists bytes, wire_bytes q tcp (in_error q kind eo) = Ok bytes /\ (out = None \/ out = Some bytes) /\
                (tcp = true -> out = Some bytes).
Proof.
  intros D F H. destruct (dns_step_inv _ _ _ _ _ _ _ _ _ _ _ _ _ _ _ _ _ _ D H)
    as (rt & reply & c' & store' & bytes & drop & bs & F' & S & W & L & -> & ->).
  rewrite F in F'. inversion F'; subst rt. cbn [staged_of] in S. inversion S; subst. cbn [s_cache s_store].
  repeat split; auto. exists bytes. split; [assumption|]. split; [destruct drop; auto|].
  intros ->. unfold limiter_stage in L. inversion L. reflexivity.
Qed.

(* an error reply on the wire: strictly well-formed, within the limit, the client's id and
   question, the error's rcode, no records *)
Lemma error_on_wire q tcp kind eo bytes :
  wf_pkt q = true -> wf_opts eo = true -> wire_bytes q tcp (in_error q kind eo) = Ok bytes ->
  lenN bytes <= N.max (response_size_limit tcp (bufsize q)) 512 /\
  exists r, strict_decode bytes = Some r /\
    qid r = qid q /\ qname r = qname q /\ qtype r = qtype q /\ qclass r = qclass q /\ qr r = true /\
    rcode r = error_rcode kind /\ answer r = [] /\ nameserver r = [].
Proof.
  intros WQ WE H. unfold wire_bytes, prepare_to_send, encode_sized in H. rewrite in_error_encoding in H.
  destruct (encode_sized_t (error0 q kind eo) _) as [[e t]| |] eqn:E; try discriminate. inversion H; subst e.
  destruct (sized_wellformed _ _ _ _ (error0_wf q kind eo WQ WE) E) as (Hlen & ac & nc & dc & SD & _).
  split; [exact Hlen|]. eexists. split; [exact SD|].
  unfold sized_result. cbn [qid qname qtype qclass qr rcode answer nameserver error0].
  repeat split; try reflexivity; try (destruct (N.to_nat ac); reflexivity); try (destruct (N.to_nat nc); reflexivity).
  pose proof (error_rcode_small kind). destruct (opt_kept (error0 q kind eo) dc); [reflexivity|].
  apply N.mod_small. lia.
Qed.

(* ---- the cache stage, case by case ------------------------------------------------------------------ *)
Lemma out_query_transports tcp id u :
  let trs := snd (out_query tcp id u) in
  trs = [true] \/ trs = [false] \/ trs = [false; true].
Proof.
  unfold out_query. destruct tcp; simpl; [auto|].
  destruct (parse_up (u_udp u)) as [m|e]; simpl; [|auto].
  destruct ((qid m =? id) && negb (tc m)); simpl; auto.
Qed.

Definition is_hit (st : pstate) (q : pkt) (t_ns : N) (r : upres) : Prop :=
  qclass q = 1 /\
  exists e, DnsCache.lookup (key_of q) (s_cache st) = Some e /\
    t_ns <= DnsCache.e_birth e + DnsCache.e_life e /\
    match DnsCache.e_reply e with
    | DnsCache.ROk r0 =>
      DnsCache.e_life e = DnsCache.NS * DnsCache.min_ttl r0 /\
      exists m, store_lookup (key_of q) (s_store st) = Some m /\ abs_reply m = r0 /\ pkt_ok m /\
        let d := (t_ns - DnsCache.e_birth e) / DnsCache.NS in
        r = UOk (age_exact d m) /\ d <= DnsCache.min_ttl r0 /\
        (forall x, In x (answer m ++ nameserver m ++ additional m) -> d <= r_ttl x)
    | DnsCache.RErr er => r = UErr er
    end.

Lemma all_rrs_abs_conv m x : In x (answer m ++ nameserver m ++ additional m) ->
  exists p, In p (DnsCache.all_rrs (abs_reply m)) /\ fst p = r_ttl x.
Proof.
  assert (G : forall l i x, In x l -> exists p, In p (number_rrs i l) /\ fst p = r_ttl x).
  { induction l as [|r l IH]; intros i y H; [destruct H|]. simpl. destruct H as [->|H].
    - eexists. split; [left; reflexivity | reflexivity].
    - destruct (IH (i + 1) y H) as (p & ? & ?). exists p. auto. }
  unfold DnsCache.all_rrs, abs_reply, DnsCache.r_answer, DnsCache.r_ns, DnsCache.r_additional. cbn [fst snd].
  rewrite !in_app_iff. intros [H|[H|H]]; eapply G in H as (p & ? & ?); exists p; rewrite !in_app_iff; eauto.
Qed.

Lemma cache_stage_cases st q tcp t_ns t_ins srv id u r c' store' qs :
  DnsCache.cache_ok (s_cache st) -> store_ok (s_cache st) (s_store st) ->
  cache_stage st q tcp t_ns t_ins srv id u = Ok (r, c', store', qs) ->
  (qs = [] /\ c' = s_cache st /\ store' = s_store st /\ is_hit st q t_ns r)
  \/
  (exists qb, encode (outquery id q) = Ok qb /\
     qs = map (fun tr => (srv, tr, qb)) (snd (out_query tcp id u)) /\
     r = fst (out_query tcp id u) /\
     (qclass q <> 1 \/ DnsCache.get_entry (s_cache st) (key_of q) t_ns = None)).
Proof.
  intros CO SO H. unfold cache_stage in H. set (o := out_query tcp id u) in *.
  unfold DnsCache.handle in H.
  destruct (N.eqb_spec (qclass q) 1) as [QC|QC]; cbn [negb] in H.
  - destruct (DnsCache.get_entry (s_cache st) (key_of q) t_ns) as [o'|] eqn:G; cbn [fst snd] in H.
    + left.
      destruct (Proofs.DnsCache.hit_only_fresh_and_same_key _ _ _ _ CO G) as (e & L & Hin & F & Hlife & Eo).
      destruct (DnsCache.e_reply e) as [r0|er] eqn:ER.
      * destruct (Proofs.DnsCache.ttl_exact _ _ _ _ _ _ CO G L ER) as (Eo' & Hall & _ & Hmin).
        rewrite Eo' in H. destruct (SO _ _ _ L ER) as (m & SL & AB & PM). rewrite SL in H.
        inversion H; subst. split; [reflexivity|]. split; [reflexivity|]. split; [reflexivity|].
        split; [assumption|]. exists e. split; [assumption|]. split; [assumption|].
        rewrite ER. split; [apply Hlife; reflexivity|]. exists m.
        split; [assumption|]. split; [reflexivity|]. split; [assumption|]. cbv zeta.
        split; [reflexivity|]. split; [assumption|].
        intros x Hx. destruct (all_rrs_abs_conv m x Hx) as (p & Hp & <-). apply Hall. assumption.
      * subst o'. cbn [DnsCache.dec_result] in H. inversion H; subst.
        split; [reflexivity|]. split; [reflexivity|]. split; [reflexivity|].
        split; [assumption|]. exists e. rewrite ER. auto.
    + right. destruct (encode (outquery id q)) as [qb| |]; cbn [obind] in H; try discriminate.
      inversion H; subst. exists qb. auto.
  - right. cbn [fst snd] in H. destruct (encode (outquery id q)) as [qb| |]; cbn [obind] in H; try discriminate.
    inversion H; subst. exists qb. auto.
Qed.

(* ---- only REFUSED over UDP is ever withheld -------------------------------------------------------- *)
Lemma limiter_passes mac c st client local tcp q reply in_size out_size t_s drop bs :
  limiter_stage mac c st client local tcp q reply in_size out_size t_s = Ok (drop, bs) ->
  tcp = true \/ rcode reply <> 5 -> drop = false /\ bs = s_buckets st.
Proof.
  unfold limiter_stage. intros H [->|NR]; [inversion H; auto|].
  destruct tcp; [inversion H; auto|].
  destruct (N.eqb_spec (rcode reply) 5); [contradiction|]. cbn [negb] in H. inversion H; auto.
Qed.

Lemma in_reply_fields q m eo :
  let r := in_reply q m eo in
  qid r = qid q /\ qname r = qname q /\ qtype r = qtype q /\ qclass r = qclass q /\ qr r = true /\
  rcode r = rcode m /\ answer r = answer m /\ nameserver r = nameserver m /\ additional r = additional m.
Proof. cbv zeta. unfold in_reply. cbn. repeat split; reflexivity. Qed.

(* a relayed reply on the wire: within the limit, strictly well-formed, the client's id and question,
   the upstream's rcode (low 4 bits when the OPT record had to go), and in every section a prefix of
   the records handed to the serialiser -- all of them when nothing was dropped (TC clear) *)
Lemma reply_on_wire q tcp m eo bytes :
  wf_pkt q = true -> pkt_ok m -> wf_opts eo = true -> wire_bytes q tcp (in_reply q m eo) = Ok bytes ->
  lenN bytes <= N.max (response_size_limit tcp (bufsize q)) 512 /\
  exists r ac nc dc t, strict_decode bytes = Some r /\
    qid r = qid q /\ qname r = qname q /\ qtype r = qtype q /\ qclass r = qclass q /\ qr r = true /\
    rcode r mod 16 = rcode m mod 16 /\ tc r = (tc m || t) /\
    answer r = firstn (N.to_nat ac) (answer m) /\ nameserver r = firstn (N.to_nat nc) (nameserver m) /\
    additional r = firstn (N.to_nat dc) (additional m) /\
    (t = false -> answer r = answer m /\ nameserver r = nameserver m /\ additional r = additional m /\ rcode r = rcode m).
Proof.
  intros WQ [WM LM] WE H. unfold wire_bytes, prepare_to_send, encode_sized in H. rewrite in_reply_encoding in H.
  destruct (encode_sized_t (reply0 q m eo) _) as [[e t]| |] eqn:E; try discriminate. inversion H; subst e.
  destruct (sized_wellformed _ _ _ _ (reply0_wf q m eo WQ WM WE LM) E) as (Hlen & ac & nc & dc & SD & _ & _ & _ & Hf & _).
  split; [exact Hlen|]. exists (sized_result (reply0 q m eo) ac nc dc t), ac, nc, dc, t.
  split; [exact SD|]. unfold sized_result. cbn [qid qname qtype qclass qr rcode tc answer nameserver additional reply0].
  do 5 (split; [reflexivity|]).
  split; [destruct (opt_kept (reply0 q m eo) dc); [reflexivity|]; apply N.mod_mod; lia|].
  do 4 (split; [reflexivity|]).
  intros ->. destruct (Hf eq_refl) as (Ea & En & Ed). cbn [answer nameserver additional reply0] in Ea, En, Ed.
  rewrite Ea, En. rewrite !firstn_all. split; [reflexivity|]. split; [reflexivity|]. split.
  - apply firstn_all2. rewrite Ed, app_length. lia.
  - unfold opt_kept. cbn [reply0 edns additional].
    destruct (Nat.eqb_spec (N.to_nat dc) (length (additional m ++ opt_rr (reply0 q m eo)))); [reflexivity|contradiction].
Qed.

(* ---- D02: the ACL stands before everything ---------------------------------------------------------- *)
Definition refused_reply_for (q r : pkt) (rc : N) : Prop :=
  qid r = qid q /\ qname r = qname q /\ qtype r = qtype q /\ qclass r = qclass q /\ qr r = true /\
  rcode r = rc /\ answer r = [] /\ nameserver r = [].

Lemma d02_acl mac c st t_ns t_ins t_s client port local tcp b u id eo st' out qs :
  Acl.wf_rules (c_acls c) = true -> Acl.wf_addr client = true ->
  (~ exists r, Acl.first_match (c_acls c) client r /\ Acl.permits r Acl.OpDns = true) ->
  bytes_ok b = true -> wf_opts eo = true ->
  dns_step mac c st t_ns t_ins t_s client port local tcp b u id eo = Ok (st', out, qs) ->
  qs = [] /\ s_cache st' = s_cache st /\ s_store st' = s_store st /\
  (out = None /\ (tcp = true -> forall q, decode b <> Ok q) \/
   exists bytes q r, out = Some bytes /\ decode b = Ok q /\ strict_decode bytes = Some r /\ refused_reply_for q r 5).
Proof.
  intros WR WA NG HB WE H.
  destruct (decode b) as [q|e|p] eqn:D.
  - assert (F : front c client port q = Ok (Refuse 0)).
    { unfold front. apply (proj2 (Proofs.Acl.dns_gate_spec _ _ WR WA)) in NG. rewrite NG. reflexivity. }
    destruct (refused_step _ _ _ _ _ _ _ _ _ _ _ _ _ _ _ _ _ _ _ D F H) as (-> & EC & ES & bytes & W & O & T).
    split; [reflexivity|]. split; [assumption|]. split; [assumption|].
    destruct (error_on_wire q tcp 0 eo bytes (decode_wf b q HB D) WE W) as (_ & r & SD & R).
    destruct O as [->| ->].
    + destruct tcp; [specialize (T eq_refl); discriminate|]. left. split; [reflexivity | discriminate].
    + right. exists bytes, q, r. auto.
  - unfold dns_step in H. rewrite D in H. inversion H; subst.
    repeat split; auto. left. split; [reflexivity|]. intros _ q. discriminate.
  - unfold dns_step in H. rewrite D in H. discriminate.
Qed.

(* ---- D03: routing ------------------------------------------------------------------------------------- *)
Lemma d03_forge mac c st t_ns t_ins t_s client port local tcp b u id eo st' out qs q :
  decode b = Ok q -> bytes_ok b = true -> wf_opts eo = true ->
  Acl.dns_gate (c_acls c) client = Acl.DnsPassedOn -> qtype q <> 255 -> port <> 53 ->
  DnsRoute.decide (c_routes c) (qname q) (rd q) = DnsRoute.RBlocked ->
  dns_step mac c st t_ns t_ins t_s client port local tcp b u id eo = Ok (st', out, qs) ->
  qs = [] /\ s_cache st' = s_cache st /\ s_store st' = s_store st /\ s_buckets st' = s_buckets st /\
  exists bytes r, out = Some bytes /\ strict_decode bytes = Some r /\ refused_reply_for q r 3.
Proof.
  intros D HB WE G NA NP RB H.
  assert (F : front c client port q = Ok (Refuse 1)).
  { unfold front. rewrite G. destruct (N.eqb_spec (qtype q) 255); [contradiction|].
    destruct (N.eqb_spec port 53); [contradiction|]. rewrite RB. reflexivity. }
  destruct (dns_step_inv _ _ _ _ _ _ _ _ _ _ _ _ _ _ _ _ _ _ D H)
    as (rt & reply & c' & store' & bytes & drop & bs & F' & S & W & L & -> & ->).
  rewrite F in F'. inversion F'; subst rt. cbn [staged_of] in S. inversion S; subst.
  destruct (limiter_passes _ _ _ _ _ _ _ _ _ _ _ _ _ L) as [-> ->]; [right; cbn; discriminate|].
  cbn [s_cache s_store s_buckets]. repeat split; auto.
  destruct (error_on_wire q tcp 1 eo bytes (decode_wf b q HB D) WE W) as (_ & r & SD & R).
  exists bytes, r. auto.
Qed.

Lemma d03_forward mac c st t_ns t_ins t_s client port local tcp b u id eo st' out qs q :
  st_ok t_s st -> decode b = Ok q ->
  dns_step mac c st t_ns t_ins t_s client port local tcp b u id eo = Ok (st', out, qs) -> qs <> [] ->
  exists srv qb,
    Acl.dns_gate (c_acls c) client = Acl.DnsPassedOn /\ qtype q <> 255 /\ port <> 53 /\
    DnsRoute.decide (c_routes c) (qname q) (rd q) = DnsRoute.RForward srv /\ rd q = true /\
    encode (outquery id q) = Ok qb /\
    qs = map (fun tr => (srv, tr, qb)) (snd (out_query tcp id u)) /\
    (qs = [(srv, true, qb)] \/ qs = [(srv, false, qb)] \/ qs = [(srv, false, qb); (srv, true, qb)]) /\
    (qclass q <> 1 \/ DnsCache.get_entry (s_cache st) (key_of q) t_ns = None).
Proof.
  intros (CO & SO & _) D H NE.
  destruct (dns_step_inv _ _ _ _ _ _ _ _ _ _ _ _ _ _ _ _ _ _ D H)
    as (rt & reply & c' & store' & bytes & drop & bs & F & S & W & L & -> & ->).
  destruct rt as [srv|kind]; [|cbn [staged_of] in S; inversion S; subst; contradiction].
  unfold front in F.
  destruct (Acl.dns_gate (c_acls c) client) eqn:G; [discriminate|].
  destruct (N.eqb_spec (qtype q) 255); [discriminate|]. destruct (N.eqb_spec port 53); [discriminate|].
  destruct (DnsRoute.decide (c_routes c) (qname q) (rd q)) as [| | |srv'|] eqn:DE; try discriminate.
  inversion F; subst srv'.
  cbn [staged_of] in S.
  destruct (cache_stage st q tcp t_ns t_ins srv id u) as [[[[r cc] ss] qq]| |] eqn:CS; cbn [obind] in S; try discriminate.
  inversion S; subst.
  destruct (cache_stage_cases _ _ _ _ _ _ _ _ _ _ _ _ CO SO CS) as [(-> & _)|(qb & EQ & -> & _ & MISS)]; [contradiction|].
  exists srv, qb. repeat split; auto.
  - destruct (Proofs.DnsRoute.decide_actions (c_routes c) (qname q) (rd q)) as (_ & FW & _).
    destruct (FW srv DE) as [RD _]. exact RD.
  - destruct (out_query_transports tcp id u) as [E|[E|E]]; rewrite E; simpl; auto.
Qed.

(* ---- D05 / D04: what a relayed reply is made of ---------------------------------------------------------- *)
Lemma out_query_from_upstream tcp id u m : fst (out_query tcp id u) = UOk m ->
  exists bs, (u_udp u = UpReply bs \/ u_tcp u = UpReply bs) /\ decode bs = Ok m.
Proof.
  assert (P : forall a, parse_up a = UOk m -> exists bs, a = UpReply bs /\ decode bs = Ok m).
  { intros [bs| |e]; simpl; try discriminate. destruct (decode bs) eqn:E; try discriminate.
    intro H. inversion H; subst. eauto. }
  unfold out_query. destruct tcp; simpl.
  - intro H. destruct (P _ H) as (bs & ? & ?). eauto.
  - destruct (parse_up (u_udp u)) as [m1|e] eqn:E1; simpl; [|discriminate].
    destruct ((qid m1 =? id) && negb (tc m1)); simpl; intro H.
    + inversion H; subst. destruct (P _ E1) as (bs & ? & ?). eauto.
    + destruct (P _ H) as (bs & ? & ?). eauto.
Qed.

(* a query that got past the ACL, the screens and the router: it is answered either from the cache
   (no upstream query, cache and store untouched, entry under the identical key and still within
   its lifetime) or from the upstream's answer to the query sent for it *)
Lemma served_step mac c st t_ns t_ins t_s client port local tcp b u id eo st' out qs q srv :
  st_ok t_s st -> decode b = Ok q -> front c client port q = Ok (ToServer srv) ->
  dns_step mac c st t_ns t_ins t_s client port local tcp b u id eo = Ok (st', out, qs) ->
  exists r bytes,
    wire_bytes q tcp (reply_of q r eo) = Ok bytes /\ (out = None \/ out = Some bytes) /\
    ((qs = [] /\ s_cache st' = s_cache st /\ s_store st' = s_store st /\ is_hit st q t_ns r)
     \/
     (qs <> [] /\ r = fst (out_query tcp id u) /\
      (qclass q <> 1 \/ DnsCache.get_entry (s_cache st) (key_of q) t_ns = None))).
Proof.
  intros (CO & SO & _) D F H.
  destruct (dns_step_inv _ _ _ _ _ _ _ _ _ _ _ _ _ _ _ _ _ _ D H)
    as (rt & reply & c' & store' & bytes & drop & bs & F' & S & W & L & -> & ->).
  rewrite F in F'. inversion F'; subst rt. cbn [staged_of] in S.
  destruct (cache_stage st q tcp t_ns t_ins srv id u) as [[[[r cc] ss] qq]| |] eqn:CS; cbn [obind] in S; try discriminate.
  inversion S; subst. exists r, bytes. split; [assumption|]. split; [destruct drop; auto|].
  cbn [s_cache s_store].
  destruct (cache_stage_cases _ _ _ _ _ _ _ _ _ _ _ _ CO SO CS) as [(-> & -> & -> & HIT)|(qb & EQ & -> & -> & MISS)].
  - left. auto.
  - right. split; [|auto]. destruct (out_query_transports tcp id u) as [E|[E|E]]; rewrite E; discriminate.
Qed.

Lemma aged_zero l : Forall2 (aged 0) l l.
Proof. induction l; constructor; auto. split; [reflexivity | lia]. Qed.

(* where the packet relayed to the client comes from: the upstream's answer to this very query
   (age 0), or the packet stored under the identical key, [d] whole seconds old, [d] not beyond
   its smallest TTL *)
Definition relayed_from (st : pstate) (q : pkt) (t_ns : N) (u : upstream) (qs : list upq) (m0 : pkt) (d : N) : Prop :=
  (qs <> [] /\ d = 0 /\ exists bs, (u_udp u = UpReply bs \/ u_tcp u = UpReply bs) /\ decode bs = Ok m0)
  \/
  (qs = [] /\ qclass q = 1 /\ store_lookup (key_of q) (s_store st) = Some m0 /\
   exists e, DnsCache.lookup (key_of q) (s_cache st) = Some e /\
     DnsCache.e_reply e = DnsCache.ROk (abs_reply m0) /\
     d = (t_ns - DnsCache.e_birth e) / DnsCache.NS /\
     t_ns <= DnsCache.e_birth e + DnsCache.NS * DnsCache.min_ttl (abs_reply m0) /\
     d <= DnsCache.min_ttl (abs_reply m0)).

Lemma d04_faithful mac c st t_ns t_ins t_s client port local tcp b u id eo st' bytes qs q srv :
  st_ok t_s st -> up_ok u -> bytes_ok b = true -> wf_opts eo = true ->
  decode b = Ok q -> front c client port q = Ok (ToServer srv) ->
  dns_step mac c st t_ns t_ins t_s client port local tcp b u id eo = Ok (st', Some bytes, qs) ->
  lenN bytes <= N.max (response_size_limit tcp (bufsize q)) 512 /\
  ((* a resolver error: SERVFAIL *)
   (exists r, strict_decode bytes = Some r /\ refused_reply_for q r 2)
   \/
   (* a relayed reply *)
   exists m0 d m' r ac nc dc t,
     relayed_from st q t_ns u qs m0 d /\
     (forall x, In x (answer m0 ++ nameserver m0 ++ additional m0) -> d <= r_ttl x) /\
     Forall2 (aged d) (answer m') (answer m0) /\ Forall2 (aged d) (nameserver m') (nameserver m0) /\
     Forall2 (aged d) (additional m') (additional m0) /\
     strict_decode bytes = Some r /\
     qid r = qid q /\ qname r = qname q /\ qtype r = qtype q /\ qclass r = qclass q /\ qr r = true /\
     rcode r mod 16 = rcode m0 mod 16 /\
     answer r = firstn (N.to_nat ac) (answer m') /\ nameserver r = firstn (N.to_nat nc) (nameserver m') /\
     additional r = firstn (N.to_nat dc) (additional m') /\
     (t = false -> answer r = answer m' /\ nameserver r = nameserver m' /\ additional r = additional m' /\
                   rcode r = rcode m0)).
Proof.
  intros OK HU HB WE D F H. pose proof (decode_wf b q HB D) as WQ.
  destruct (served_step _ _ _ _ _ _ _ _ _ _ _ _ _ _ _ _ _ _ _ OK D F H) as (r & bytes' & W & O & CASES).
  destruct O as [O|O]; [discriminate|]. inversion O; subst bytes'. clear O.
  destruct r as [m'|er]; cbn [reply_of] in W.
  - assert (SRC : exists m0 d, relayed_from st q t_ns u qs m0 d /\ pkt_ok m' /\ rcode m' = rcode m0 /\
              (forall x, In x (answer m0 ++ nameserver m0 ++ additional m0) -> d <= r_ttl x) /\
              Forall2 (aged d) (answer m') (answer m0) /\ Forall2 (aged d) (nameserver m') (nameserver m0) /\
              Forall2 (aged d) (additional m') (additional m0)).
    { destruct CASES as [(-> & _ & _ & QC & e & L & FR & HE)|(NE & ER & MISS)].
      - destruct (DnsCache.e_reply e) as [r0|er] eqn:ER; [|discriminate].
        destruct HE as (LIFE & m & SL & AB & PM & EQ & DM & ALL). inversion EQ; subst m'. subst r0.
        exists m, ((t_ns - DnsCache.e_birth e) / DnsCache.NS).
        split; [right; split; [reflexivity|]; split; [assumption|]; split; [assumption|];
                exists e; rewrite <- LIFE; auto|].
        destruct PM as [WM LM]. split.
        { split; [apply age_exact_wf; assumption|].
          destruct (age_exact_sections ((t_ns - DnsCache.e_birth e) / DnsCache.NS) m) as (_ & _ & Ed).
          rewrite Ed, lenN_map. assumption. }
        split; [reflexivity|]. split; [assumption|]. apply age_exact_aged. assumption.
      - symmetry in ER. destruct (out_query_from_upstream _ _ _ _ ER) as (bs & SRC & DB).
        exists m', 0. split; [left; split; [assumption|]; split; [reflexivity|]; eauto|].
        split.
        { pose proof (out_query_ok tcp id u HU) as RO. rewrite ER in RO. exact RO. }
        split; [reflexivity|]. split; [intros; lia|]. repeat split; apply aged_zero. }
    destruct SRC as (m0 & d & RF & PM & RC & ALL & A1 & A2 & A3).
    destruct (reply_on_wire q tcp m' eo bytes WQ PM WE W) as (LEN & r & ac & nc & dc & t & SD & R).
    split; [assumption|]. right. exists m0, d, m', r, ac, nc, dc, t. rewrite <- RC.
    destruct R as (R1 & R2 & R3 & R4 & R5 & R6 & _ & R8 & R9 & R10 & R11).
    repeat split; auto; apply R11; assumption.
  - destruct (error_on_wire q tcp 4 eo bytes WQ WE W) as (LEN & r & SD & R).
    split; [assumption|]. left. exists r. auto.
Qed.

(* ======================================================================================
   D06: REFUSED volume per source, at the level of the pipeline
   ====================================================================================== *)
Definition P (z t : N) : N := Proofs.Bucket.pot Bucket.CAP Bucket.RATE z t.
Lemma rate_pos : 0 < Bucket.RATE. Proof. reflexivity. Qed.

Lemma nth_upd_same {A} i (v d : A) l : (i < length l)%nat -> nth i (upd i v l) d = v.
Proof.
  intro H. unfold upd. rewrite app_nth2; rewrite firstn_length_le by lia; [|lia].
  rewrite Nat.sub_diag. destruct (skipn i l) eqn:E; [|reflexivity].
  exfalso. assert (length (skipn i l) = 0%nat) by (rewrite E; reflexivity). rewrite skipn_length in H0. lia.
Qed.

Lemma nth_upd_other {A} i k (v d : A) l : k <> i -> nth k (upd i v l) d = nth k l d.
Proof.
  intro NE. unfold upd. destruct (Nat.lt_ge_cases i (length l)) as [L|G].
  - rewrite <- (firstn_skipn i l) at 3.
    destruct (Nat.lt_ge_cases k i) as [KL|KG].
    + rewrite !app_nth1 by (rewrite firstn_length_le; lia). reflexivity.
    + rewrite !app_nth2 by (rewrite firstn_length_le; lia). rewrite firstn_length_le by lia.
      destruct (skipn i l) as [|x r]; [reflexivity|].
      destruct (k - i)%nat eqn:E; [lia | reflexivity].
  - rewrite skipn_all2 by assumption. rewrite firstn_all2 by assumption. rewrite app_nil_r. reflexivity.
Qed.

(* each bucket's potential can only go down in a limiter call; the pair pays for what it grants *)
Lemma lim_check_each z1 z2 t n :
  Bucket.window Bucket.CAP Bucket.RATE <= t -> t < pow2 32 -> z1 <= t -> z2 <= t ->
  exists b y1 y2, Bucket.lim_check Bucket.CAP Bucket.RATE (z1, z2) t n = Ok (b, (y1, y2)) /\
    y1 <= t /\ y2 <= t /\ P y1 t <= P z1 t /\ P y2 t <= P z2 t /\
    (if b then n else 0) + P y1 t + P y2 t <= P z1 t + P z2 t.
Proof.
  intros HW HT H1 H2. unfold Bucket.lim_check. cbn [fst snd].
  destruct (Proofs.Bucket.take_pot _ _ rate_pos z1 t n HW HT H1) as (b1 & y1 & E1 & Y1 & P1 & B1).
  rewrite E1. cbn [obind fst snd]. destruct b1.
  - exists true, y1, z2. unfold P. repeat split; auto; lia.
  - rewrite (B1 eq_refl) in *.
    destruct (Proofs.Bucket.take_pot _ _ rate_pos z2 t n HW HT H2) as (b2 & y2 & E2 & Y2 & P2 & B2).
    rewrite E2. cbn [obind fst snd]. exists b2, z1, y2. unfold P. repeat split; auto; destruct b2; lia.
Qed.

Definition addr_eqb (a b : Acl.addr) : bool :=
  match a, b with
  | Acl.A4 x, Acl.A4 y => x =? y
  | Acl.A6 x, Acl.A6 y => x =? y
  | Acl.AUnix, Acl.AUnix => true
  | _, _ => false
  end.
Lemma addr_eqb_eq a b : addr_eqb a b = true -> a = b.
Proof. destruct a, b; simpl; try discriminate; try reflexivity; intro H; apply N.eqb_eq in H; congruence. Qed.

(* the inputs of one step *)
Record sin := { x_tns : N; x_tins : N; x_ts : N; x_client : Acl.addr; x_port : N; x_local : Acl.addr; x_tcp : bool;
                x_b : list N; x_u : upstream; x_id : N; x_eo : opts }.
Definition step mac c st (x : sin) :=
  dns_step mac c st (x_tns x) (x_tins x) (x_ts x) (x_client x) (x_port x) (x_local x) (x_tcp x) (x_b x) (x_u x) (x_id x) (x_eo x).

(* the reply the step assembles (before the size limit and the limiter) *)
Definition assembled c st (x : sin) : option pkt :=
  match decode (x_b x) with
  | Ok q =>
    match front c (x_client x) (x_port x) q with
    | Ok rt => match staged_of st q (x_tcp x) (x_tns x) (x_tins x) (x_id x) (x_u x) (x_eo x) rt with
               | Ok (reply, _, _, _) => Some reply
               | _ => None
               end
    | _ => None
    end
  | _ => None
  end.

Definition exempt_b mac st (x : sin) : bool :=
  match decode (x_b x) with
  | Ok q =>
    match cookie_opt q with
    | Some d =>
      if lenN d <? 8 then false
      else match addr_octets (x_local x), addr_octets (x_client x) with
           | Ok l, Ok r => Cookie.exempt mac (Some d) l r (fst (s_keys st)) (snd (s_keys st))
           | _, _ => false
           end
    | None => false
    end
  | _ => false
  end.

(* a REFUSED reply over UDP to a query without a valid server cookie: what the limiter is about *)
Definition limited_class mac c st (x : sin) : bool :=
  negb (x_tcp x) &&
  match assembled c st x with Some reply => rcode reply =? 5 | None => false end &&
  negb (exempt_b mac st x).

(* tokens charged / octets sent to source [a] by this step for such a reply *)
Definition step_tokens mac c st (x : sin) (a : Acl.addr) : N :=
  match step mac c st x with
  | Ok (_, Some bytes, _) =>
    if addr_eqb (x_client x) a && limited_class mac c st x
    then cast 32 (Bucket.cost (lenN (x_b x)) (lenN bytes)) else 0
  | _ => 0
  end.
Definition step_octets mac c st (x : sin) (a : Acl.addr) : N :=
  match step mac c st x with
  | Ok (_, Some bytes, _) => if addr_eqb (x_client x) a && limited_class mac c st x then lenN bytes else 0
  | _ => 0
  end.

Fixpoint run_tokens mac c st (xs : list sin) (a : Acl.addr) : N :=
  match xs with
  | [] => 0
  | x :: r => match step mac c st x with
              | Ok (st', _, _) => step_tokens mac c st x a + run_tokens mac c st' r a
              | _ => 0
              end
  end.
Fixpoint run_octets mac c st (xs : list sin) (a : Acl.addr) : N :=
  match xs with
  | [] => 0
  | x :: r => match step mac c st x with
              | Ok (st', _, _) => step_octets mac c st x a + run_octets mac c st' r a
              | _ => 0
              end
  end.

Definition phi (c : cfg) (a : Acl.addr) (st : pstate) (t : N) : N :=
  P (nth (fst (c_hash c a)) (s_buckets st) 0) t + P (nth (snd (c_hash c a)) (s_buckets st) 0) t.

Definition buckets_ok (t : N) (st : pstate) : Prop :=
  length (s_buckets st) = 256%nat /\ Forall (fun z => z <= t) (s_buckets st).

Lemma d06_step mac c st x a st' out qs :
  cfg_ok c -> buckets_ok (x_ts x) st ->
  Bucket.window Bucket.CAP Bucket.RATE <= x_ts x -> x_ts x < pow2 32 ->
  step mac c st x = Ok (st', out, qs) ->
  step_tokens mac c st x a + phi c a st' (x_ts x) <= phi c a st (x_ts x) /\ buckets_ok (x_ts x) st'.
Proof.
  intros HC [BL BF] HW HT H. unfold step_tokens. rewrite H. unfold step in H.
  destruct (decode (x_b x)) as [q|e|p] eqn:D.
  2: { unfold dns_step in H. rewrite D in H. inversion H; subst. split; [simpl; lia | split; assumption]. }
  2: { unfold dns_step in H. rewrite D in H. discriminate. }
  destruct (dns_step_inv _ _ _ _ _ _ _ _ _ _ _ _ _ _ _ _ _ _ D H)
    as (rt & reply & c' & store' & bytes & drop & bs & F & S & W & L & -> & ->).
  assert (AS : assembled c st x = Some reply) by (unfold assembled; rewrite D, F, S; reflexivity).
  unfold phi, buckets_ok. cbn [s_buckets].
  destruct HC as [_ HH]. destruct (HH (x_client x)) as (I1 & I2 & I12). destruct (HH a) as (A1 & A2 & A12).
  unfold limiter_stage in L.
  set (i := fst (c_hash c (x_client x))) in *. set (j := snd (c_hash c (x_client x))) in *.
  set (ia := fst (c_hash c a)) in *. set (ja := snd (c_hash c a)) in *.
  destruct (x_tcp x) eqn:TCP.
  { inversion L; subst. unfold limited_class. rewrite TCP. rewrite andb_false_r. simpl.
    split; [lia | split; assumption]. }
  destruct (N.eqb_spec (rcode reply) 5) as [RC|RC]; cbn [negb] in L.
  2: { inversion L; subst. unfold limited_class. rewrite AS. destruct (N.eqb_spec (rcode reply) 5); [contradiction|].
       rewrite andb_false_r, andb_false_r. simpl. split; [lia | split; assumption]. }
  assert (EXB : exists ex,
    match cookie_opt q with
    | Some d => if lenN d <? 8 then Ok false
                else do l <- addr_octets (x_local x); do r <- addr_octets (x_client x);
                     Ok (Cookie.exempt mac (Some d) l r (fst (s_keys st)) (snd (s_keys st)))
    | None => Ok false
    end = Ok ex /\ exempt_b mac st x = ex).
  { unfold exempt_b. rewrite D.
    destruct (cookie_opt q) as [d|]; [|eauto]. destruct (lenN d <? 8); [eauto|].
    destruct (addr_octets (x_local x)) as [l| |]; cbn [obind] in L; try discriminate.
    destruct (addr_octets (x_client x)) as [r| |]; cbn [obind] in L; try discriminate.
    cbn [obind]. eauto. }
  destruct EXB as (ex & EX & EXB). rewrite EX in L. cbn [obind] in L.
  assert (Z1 : nth i (s_buckets st) 0 <= x_ts x) by (apply nth_Forall; [assumption | lia]).
  assert (Z2 : nth j (s_buckets st) 0 <= x_ts x) by (apply nth_Forall; [assumption | lia]).
  unfold Bucket.should_ratelimit in L. rewrite RC in L. cbn [N.eqb Pos.eqb negb] in L.
  destruct ex.
  - (* a good cookie: nothing is charged, nothing changes *)
    cbn [obind fst snd] in L. inversion L; subst.
    unfold limited_class. rewrite EXB. rewrite andb_false_r, andb_false_r.
    assert (SAME : forall k, nth k (upd j (nth j (s_buckets st) 0) (upd i (nth i (s_buckets st) 0) (s_buckets st))) 0
                             = nth k (s_buckets st) 0).
    { intro k. destruct (Nat.eq_dec k j) as [->|NJ].
      - rewrite nth_upd_same by (rewrite upd_length; lia). reflexivity.
      - rewrite nth_upd_other by assumption. destruct (Nat.eq_dec k i) as [->|NI].
        + rewrite nth_upd_same by lia. reflexivity.
        + rewrite nth_upd_other by assumption. reflexivity. }
    rewrite !SAME. split; [simpl; lia|]. rewrite !upd_length. split; [assumption|].
    apply upd_Forall; [apply upd_Forall|]; assumption.
  - destruct (lim_check_each _ _ (x_ts x) (cast 32 (Bucket.cost (lenN (x_b x)) (lenN bytes))) HW HT Z1 Z2)
      as (b & y1 & y2 & E & Y1 & Y2 & P1 & P2 & PS).
    rewrite E in L. cbn [obind fst snd] in L. inversion L; subst. clear L.
    assert (NI : forall k, nth k (upd j y2 (upd i y1 (s_buckets st))) 0 =
                           if Nat.eq_dec k j then y2 else if Nat.eq_dec k i then y1 else nth k (s_buckets st) 0).
    { intro k. destruct (Nat.eq_dec k j) as [->|NJ].
      - rewrite nth_upd_same by (rewrite upd_length; lia). reflexivity.
      - rewrite nth_upd_other by assumption. destruct (Nat.eq_dec k i) as [->|NI].
        + rewrite nth_upd_same by lia. reflexivity.
        + rewrite nth_upd_other by assumption. reflexivity. }
    split.
    + rewrite !NI.
      assert (MONO : forall k, P (if Nat.eq_dec k j then y2 else if Nat.eq_dec k i then y1 else nth k (s_buckets st) 0) (x_ts x)
                               <= P (nth k (s_buckets st) 0) (x_ts x)).
      { intro k. destruct (Nat.eq_dec k j) as [->|]; [assumption|]. destruct (Nat.eq_dec k i) as [->|]; [assumption|lia]. }
      destruct (addr_eqb (x_client x) a) eqn:AE.
      * apply addr_eqb_eq in AE. subst a. fold i j in ia, ja. subst ia ja.
        destruct (Nat.eq_dec i j); [contradiction|]. destruct (Nat.eq_dec j j); [|contradiction].
        destruct (Nat.eq_dec i i); [|contradiction].
        destruct b; cbn [negb]; [|simpl; lia].
        destruct (limited_class mac c st x); cbn [andb]; lia.
      * cbn [andb]. pose proof (MONO ia). pose proof (MONO ja). destruct (negb b); simpl; lia.
    + rewrite !upd_length. split; [assumption|]. apply upd_Forall; [apply upd_Forall|]; assumption.
Qed.

Fixpoint xs_sorted (t1 t2 : N) (xs : list sin) : Prop :=
  match xs with
  | [] => t1 <= t2
  | x :: r => t1 <= x_ts x /\ xs_sorted (x_ts x) t2 r
  end.
Lemma xs_sorted_le xs : forall t1 t2, xs_sorted t1 t2 xs -> t1 <= t2.
Proof. induction xs as [|x r IH]; simpl; intros t1 t2 H; [assumption|]. destruct H as [A B]. apply IH in B. lia. Qed.

Lemma phi_time c a st t t' : t <= t' -> phi c a st t' <= phi c a st t + 2 * (Bucket.RATE * (t' - t)).
Proof.
  intro H. unfold phi, P.
  pose proof (Proofs.Bucket.pot_time Bucket.CAP Bucket.RATE rate_pos (nth (fst (c_hash c a)) (s_buckets st) 0) t t' H).
  pose proof (Proofs.Bucket.pot_time Bucket.CAP Bucket.RATE rate_pos (nth (snd (c_hash c a)) (s_buckets st) 0) t t' H). lia.
Qed.
Lemma phi_le c a st t : phi c a st t <= 2 * Bucket.CAP.
Proof.
  unfold phi, P.
  pose proof (Proofs.Bucket.pot_le_cap Bucket.CAP Bucket.RATE rate_pos (nth (fst (c_hash c a)) (s_buckets st) 0) t).
  pose proof (Proofs.Bucket.pot_le_cap Bucket.CAP Bucket.RATE rate_pos (nth (snd (c_hash c a)) (s_buckets st) 0) t). lia.
Qed.
Lemma buckets_ok_mono t t' st : t <= t' -> buckets_ok t st -> buckets_ok t' st.
Proof. intros H [A B]. split; [assumption | eapply Forall_le_mono; eassumption]. Qed.

Lemma d06_potential mac c a : cfg_ok c -> forall xs st t1 t2,
  buckets_ok t1 st -> Bucket.window Bucket.CAP Bucket.RATE <= t1 -> t2 < pow2 32 -> xs_sorted t1 t2 xs ->
  run_tokens mac c st xs a <= phi c a st t1 + 2 * (Bucket.RATE * (t2 - t1)).
Proof.
  intros HC. induction xs as [|x r IH]; intros st t1 t2 BO HW HT HS; cbn [run_tokens xs_sorted] in *; [apply N.le_0_l|].
  destruct HS as [H1 H2]. pose proof (xs_sorted_le _ _ _ H2) as H3.
  destruct (step mac c st x) as [[[st' out] qs]| |] eqn:E; try apply N.le_0_l.
  destruct (d06_step mac c st x a st' out qs HC (buckets_ok_mono _ _ _ H1 BO) ltac:(lia) ltac:(lia) E) as [S BO'].
  specialize (IH st' (x_ts x) t2 BO' ltac:(lia) HT H2).
  pose proof (phi_time c a st t1 (x_ts x) H1) as PT.
  assert (D : Bucket.RATE * (t2 - t1) = Bucket.RATE * (t2 - x_ts x) + Bucket.RATE * (x_ts x - t1)).
  { rewrite <- N.mul_add_distr_l. f_equal. lia. }
  lia.
Qed.

(* tokens charged to one source for rate-limited replies (REFUSED, over UDP, no valid server cookie)
   that were actually sent, over any history of the whole pipeline with wall-clock times in [t1,t2],
   whatever else the service does in between and whoever else shares its buckets *)
Lemma d06_tokens mac c a xs st t1 t2 :
  cfg_ok c -> buckets_ok t1 st -> Bucket.window Bucket.CAP Bucket.RATE <= t1 -> t2 < pow2 32 -> xs_sorted t1 t2 xs ->
  run_tokens mac c st xs a <= 2 * Bucket.CAP + 2 * (Bucket.RATE * (t2 - t1)).
Proof.
  intros HC BO HW HT HS. pose proof (d06_potential mac c a HC xs st t1 t2 BO HW HT HS).
  pose proof (phi_le c a st t1). lia.
Qed.

(* every such reply is covered by its charge *)
Fixpoint run_covered mac c st (xs : list sin) (a : Acl.addr) : Prop :=
  match xs with
  | [] => True
  | x :: r => match step mac c st x with
              | Ok (st', _, _) => step_octets mac c st x a <= step_tokens mac c st x a /\ run_covered mac c st' r a
              | _ => True
              end
  end.

Lemma d06_octets mac c a xs st t1 t2 :
  cfg_ok c -> buckets_ok t1 st -> Bucket.window Bucket.CAP Bucket.RATE <= t1 -> t2 < pow2 32 -> xs_sorted t1 t2 xs ->
  run_covered mac c st xs a ->
  run_octets mac c st xs a <= 2 * Bucket.CAP + 2 * (Bucket.RATE * (t2 - t1)).
Proof.
  intros HC BO HW HT HS RC. etransitivity; [|apply (d06_tokens mac c a xs st t1 t2); assumption].
  clear BO HS. revert st RC. induction xs as [|x r IH]; intros st RC; cbn [run_octets run_tokens run_covered] in *; [lia|].
  destruct (step mac c st x) as [[[st' out] qs]| |]; try lia.
  destruct RC as [A B]. specialize (IH st' B). lia.
Qed.

(* sufficient: the reply is at most 200 octets or not shorter than the query (and a datagram) *)
Lemma covered_step mac c st x a st' bytes qs :
  step mac c st x = Ok (st', Some bytes, qs) ->
  (lenN bytes <= Bucket.MIN_COST \/ lenN (x_b x) <= lenN bytes) -> lenN bytes < 2147483648 ->
  step_octets mac c st x a <= step_tokens mac c st x a.
Proof.
  intros E H L. unfold step_octets, step_tokens. rewrite E.
  destruct (addr_eqb (x_client x) a && limited_class mac c st x); [|lia].
  pose proof (Proofs.Bucket.cost_covers_reply (lenN (x_b x)) (lenN bytes) H) as C.
  unfold cast. rewrite N.mod_small; [assumption|].
  unfold Bucket.cost, Bucket.MIN_COST. change (pow2 32) with 4294967296. lia.
Qed.

(* ---- where the packets in the store come from (D04 over histories) ------------------------------- *)
(* step [x] asked the upstream for key [k] (class IN) and the answer it accepted was [m] *)
Definition fetched_in (x : sin) (k : DnsCache.key) (m : pkt) : Prop :=
  exists q, decode (x_b x) = Ok q /\ key_of q = k /\ qclass q = 1 /\
            fst (out_query (x_tcp x) (x_id x) (x_u x)) = UOk m.

Definition store_prov (pre : list sin) (st : pstate) : Prop :=
  forall k m, store_lookup k (s_store st) = Some m -> exists x, In x pre /\ fetched_in x k m.

Lemma cache_stage_store st q tcp t_ns t_ins srv id u r c' store' qs :
  cache_stage st q tcp t_ns t_ins srv id u = Ok (r, c', store', qs) ->
  store' = s_store st \/
  exists m, fst (out_query tcp id u) = UOk m /\ qclass q = 1 /\ store' = store_insert (key_of q) m (s_store st).
Proof.
  unfold cache_stage. set (o := out_query tcp id u).
  destruct (DnsCache.handle (s_cache st) (key_of q) (qclass q) t_ns t_ins (abs_result (fst o))) as [[res cc] asked].
  destruct asked.
  - destruct (encode (outquery id q)); cbn [obind]; try discriminate. intro H. inversion H; subst.
    destruct (fst o) as [m|e] eqn:FO; [|auto].
    destruct (N.eqb_spec (qclass q) 1) as [QC|]; cbn [andb]; [|auto].
    destruct (0 <? DnsCache.calculate_expiry (abs_result (UOk m))); [|auto].
    right. exists m. auto.
  - destruct res as [[r'|e]| |]; try discriminate.
    + destruct (store_lookup (key_of q) (s_store st)); try discriminate. intro H. inversion H; auto.
    + intro H. inversion H; auto.
Qed.

Lemma step_store_prov mac c st x st' out qs pre :
  store_prov pre st -> step mac c st x = Ok (st', out, qs) -> store_prov (pre ++ [x]) st'.
Proof.
  intros SP H. unfold step in H.
  assert (MONO : store_prov (pre ++ [x]) st).
  { intros k m L. destruct (SP k m L) as (x0 & I0 & F0). exists x0. split; [apply in_or_app; auto | assumption]. }
  destruct (decode (x_b x)) as [q|e|p] eqn:D.
  - destruct (dns_step_inv _ _ _ _ _ _ _ _ _ _ _ _ _ _ _ _ _ _ D H)
      as (rt & reply & c' & store' & bytes & drop & bs & F & S & W & L & -> & ->).
    destruct rt as [srv|kind]; cbn [staged_of] in S.
    + destruct (cache_stage st q (x_tcp x) (x_tns x) (x_tins x) srv (x_id x) (x_u x)) as [[[[r cc] ss] qq]| |] eqn:CS;
        cbn [obind] in S; try discriminate. inversion S; subst.
      destruct (cache_stage_store _ _ _ _ _ _ _ _ _ _ _ _ CS) as [->|(m & FO & QC & ->)].
      * exact MONO.
      * intros k m' L'. cbn [s_store] in L'. rewrite store_lookup_insert in L'.
        destruct (DnsCache.key_eqb k (key_of q)) eqn:KE.
        -- inversion L'; subst m'. apply Proofs.DnsCache.key_eqb_eq in KE. subst k.
           exists x. split; [apply in_or_app; right; left; reflexivity|]. exists q. auto.
        -- apply (MONO k m' L').
    + inversion S; subst. exact MONO.
  - unfold dns_step in H. rewrite D in H. inversion H; subst. exact MONO.
  - unfold dns_step in H. rewrite D in H. discriminate.
Qed.

(* the state reached by a history *)
Fixpoint reach mac c st (xs : list sin) : option pstate :=
  match xs with
  | [] => Some st
  | x :: r => match step mac c st x with Ok (st', _, _) => reach mac c st' r | _ => None end
  end.

Lemma reach_store_prov mac c : forall xs pre st st',
  store_prov pre st -> reach mac c st xs = Some st' -> store_prov (pre ++ xs) st'.
Proof.
  induction xs as [|x r IH]; intros pre st st' SP H; simpl in H.
  - inversion H; subst. rewrite app_nil_r. assumption.
  - destruct (step mac c st x) as [[[st1 out] qs]| |] eqn:E; try discriminate.
    replace (pre ++ x :: r) with ((pre ++ [x]) ++ r) by (rewrite <- app_assoc; reflexivity).
    eapply IH; [|eassumption]. eapply step_store_prov; eassumption.
Qed.

(* from a state with an empty store: every packet the cache stage can ever relay from the cache is
   what the upstream answered to an EARLIER query of the history with the identical key, class IN *)
Lemma store_provenance mac c st0 xs st k m :
  s_store st0 = [] -> reach mac c st0 xs = Some st ->
  store_lookup k (s_store st) = Some m -> exists x, In x xs /\ fetched_in x k m.
Proof.
  intros E R L. apply (reach_store_prov mac c xs [] st0 st) in R.
  - apply (R k m L).
  - intros k' m' L'. rewrite E in L'. discriminate.
Qed.


(* ---- D07: over TCP every query that decodes is answered --------------------------------- *)
Lemma tcp_always_answered mac c st t_ns t_ins t_s client port local b u id eo st' out qs q :
  decode b = Ok q ->
  dns_step mac c st t_ns t_ins t_s client port local true b u id eo = Ok (st', out, qs) ->
  exists bytes, out = Some bytes.
Proof.
  intros D H. unfold dns_step in H. rewrite D in H.
  destruct (front c client port q) as [rt|x|k]; cbn [obind] in H; try discriminate H.
  match type of H with
  | (do staged <- ?S ; _) = _ => destruct S as [[[[reply c'] store'] qs']|x|k]; cbn [obind] in H; try discriminate H
  end.
  destruct (wire_bytes q true reply) as [bytes|x|k]; cbn [obind] in H; try discriminate H.
  unfold limiter_stage in H. cbn [obind fst snd] in H.
  inversion H; subst. exists bytes. reflexivity.
Qed.

(* Lemmas about Model/DhcpPool.v: the step-wise facts the monitor uses (C01
   grant respects holder, C09 keeps address / refusal means exhausted, C10
   bounds / record), then the induction over histories with the ghost grant
   log (C01 no double allocation, C10 renewals stay bounded). *)
From Erbium Require Import Lib.Base Model.DhcpPool.

(* ---- small facts ------------------------------------------------------ *)
Lemma bytes_eqb_eq : forall a b, bytes_eqb a b = true <-> a = b.
Proof.
  unfold bytes_eqb. induction a as [|x a IH]; destruct b as [|y b]; simpl; split; intro H;
    try congruence; try discriminate.
  - apply andb_true_iff in H. destruct H as [H1 H2]. apply N.eqb_eq in H1. apply IH in H2. congruence.
  - inversion H; subst. apply andb_true_iff. split. apply N.eqb_refl. apply IH. reflexivity.
Qed.

Lemma bytes_eqb_neq : forall a b, bytes_eqb a b = false <-> a <> b.
Proof.
  intros a b. split; intro H.
  - intro E. apply bytes_eqb_eq in E. congruence.
  - destruct (bytes_eqb a b) eqn:E; [|reflexivity]. apply bytes_eqb_eq in E. contradiction.
Qed.

Lemma cast_small : forall t, t < pow2 32 -> cast 32 t = t.
Proof. intros. unfold cast. apply N.mod_small. assumption. Qed.

Lemma in_pool_spec : forall p x, in_pool p x = true <-> In x p.
Proof.
  intros p x. unfold in_pool. rewrite existsb_exists. split.
  - intros [y [Hy E]]. apply N.eqb_eq in E. subst. assumption.
  - intro H. exists x. split. assumption. apply N.eqb_refl.
Qed.

Lemma find_addr_some : forall x rs r, find_addr x rs = Some r -> In r rs /\ r_addr r = x.
Proof.
  intros x rs r H. unfold find_addr in H. apply find_some in H. destruct H as [H1 H2].
  apply N.eqb_eq in H2. auto.
Qed.

Lemma in_my_rows : forall d o r, In r (my_rows d o) <-> In r d /\ r_client r = o_client o.
Proof.
  intros. unfold my_rows, mine. rewrite filter_In. rewrite bytes_eqb_eq. tauto.
Qed.

Lemma in_cur_rows : forall d o t r,
  In r (cur_rows d o t) <-> In r d /\ r_client r = o_client o /\ t < r_expiry r.
Proof.
  intros. unfold cur_rows. rewrite filter_In. rewrite in_my_rows. rewrite N.ltb_lt. tauto.
Qed.

Lemma free_spec : forall d t x,
  free d t x = true <-> forall r, In r d -> r_addr r = x -> r_expiry r < t.
Proof.
  intros. unfold free. rewrite forallb_forall. split.
  - intros H r Hr E. specialize (H r Hr). apply orb_true_iff in H. destruct H as [H|H].
    + apply negb_true_iff in H. apply N.eqb_neq in H. contradiction.
    + apply N.ltb_lt. assumption.
  - intros H r Hr. destruct (r_addr r =? x) eqn:E; simpl; [|reflexivity].
    apply N.eqb_eq in E. apply N.ltb_lt. auto.
Qed.

Lemma free_false : forall d t x,
  free d t x = false -> exists r, In r d /\ r_addr r = x /\ t <= r_expiry r.
Proof.
  induction d as [|r d IH]; intros t x H; simpl in H; [discriminate|].
  apply andb_false_iff in H. destruct H as [H|H].
  - apply orb_false_iff in H. destruct H as [H1 H2].
    apply negb_false_iff in H1. apply N.eqb_eq in H1. apply N.ltb_ge in H2.
    exists r. simpl. auto.
  - destruct (IH _ _ H) as [r' [A [B C]]]. exists r'. simpl. auto.
Qed.

Lemma none_in_pool_spec : forall p rs,
  none_in_pool p rs = true <-> forall r, In r rs -> ~ In (r_addr r) p.
Proof.
  intros. unfold none_in_pool. rewrite forallb_forall. split; intros H r Hr.
  - specialize (H r Hr). apply negb_true_iff in H. intro I. apply in_pool_spec in I. congruence.
  - apply negb_true_iff. destruct (in_pool p (r_addr r)) eqn:E; [|reflexivity].
    apply in_pool_spec in E. exfalso. exact (H r Hr E).
Qed.

Lemma none_in_pool_sub : forall p rs rs',
  (forall r, In r rs' -> In r rs) -> none_in_pool p rs = true -> none_in_pool p rs' = true.
Proof.
  intros p rs rs' S H. apply none_in_pool_spec. intros r Hr. apply (proj1 (none_in_pool_spec p rs) H). auto.
Qed.

Lemma cur_sub_all : forall d o t r, In r (cur_rows d o t) -> In r (my_rows d o).
Proof. intros. unfold cur_rows in H. apply filter_In in H. tauto. Qed.

(* ---- the store invariant --------------------------------------------- *)
Definition Inv (d : db) : Prop := NoDup (map r_addr d).

Lemma nodup_unique : forall d r r',
  NoDup (map r_addr d) -> In r d -> In r' d -> r_addr r = r_addr r' -> r = r'.
Proof.
  induction d as [|a d IH]; intros r r' N H H' E; simpl in *; [contradiction|].
  inversion N as [|? ? Hn N']; subst.
  destruct H as [H|H]; destruct H' as [H'|H']; subst.
  - reflexivity.
  - exfalso. apply Hn. rewrite E. apply in_map. assumption.
  - exfalso. apply Hn. rewrite <- E. apply in_map. assumption.
  - apply IH; assumption.
Qed.

Lemma in_upsert : forall n d r,
  In r (upsert n d) <-> r = n \/ (In r d /\ r_addr r <> r_addr n).
Proof.
  intros. unfold upsert. simpl. rewrite filter_In. rewrite negb_true_iff. rewrite N.eqb_neq.
  split; intros [H|H]; auto.
Qed.

Lemma upsert_nodup : forall n d, NoDup (map r_addr d) -> NoDup (map r_addr (upsert n d)).
Proof.
  intros n d N. unfold upsert. simpl. constructor.
  - intro H. apply in_map_iff in H. destruct H as [r [E I]]. apply filter_In in I. destruct I as [_ I].
    apply negb_true_iff in I. apply N.eqb_neq in I. contradiction.
  - induction d as [|a d IH]; simpl; [constructor|].
    inversion N as [|? ? Hn N']; subst.
    destruct (negb (r_addr a =? r_addr n)); simpl.
    + constructor.
      * intro H. apply Hn. apply in_map_iff in H. destruct H as [r [E I]]. apply filter_In in I.
        apply in_map_iff. exists r. tauto.
      * apply IH. assumption.
    + apply IH. assumption.
Qed.

(* ---- what an accepted answer means ------------------------------------ *)
Ltac brk H :=
  repeat match type of H with
  | context [match ?x with _ => _ end] => destruct x eqn:?; try discriminate H
  end.

Lemma granted_store : forall d o t1 t2 ip s k d',
  alloc_ok d o t1 t2 (Granted ip s k) = Some d' -> d' = upsert (new_row o ip t2 s) d.
Proof.
  intros d o t1 t2 ip s k d' H. unfold alloc_ok in H. destruct k; brk H; congruence.
Qed.

Lemma refused_store : forall d o t1 t2 a d',
  alloc_ok d o t1 t2 a = Some d' -> (forall ip s k, a <> Granted ip s k) -> d' = d.
Proof.
  intros d o t1 t2 a d' H NG. destruct a as [ip s k| | | |].
  - exfalso. eapply NG. reflexivity.
  - unfold alloc_ok in H. brk H. congruence.
  - simpl in H. discriminate.
  - simpl in H. discriminate.
  - unfold alloc_ok in H. brk H. congruence.
Qed.

Lemma alloc_preserves_inv : forall d o t1 t2 a d', Inv d -> alloc_ok d o t1 t2 a = Some d' -> Inv d'.
Proof.
  intros d o t1 t2 a d' I H. destruct a as [ip s k| | | |].
  - apply granted_store in H. subst. apply upsert_nodup. assumption.
  - apply refused_store in H; [subst; assumption|congruence].
  - simpl in H. discriminate.
  - simpl in H. discriminate.
  - apply refused_store in H; [subst; assumption|congruence].
Qed.

(* the secs of any grant is a clamp *)
Lemma granted_clamp : forall d o t1 t2 ip s k d',
  alloc_ok d o t1 t2 (Granted ip s k) = Some d' -> exists v, s = clamp o v.
Proof.
  intros d o t1 t2 ip s k d' H. unfold alloc_ok in H.
  destruct k; brk H;
    repeat match goal with
    | E : (_ && _) = true |- _ => apply andb_true_iff in E; destruct E
    end;
    match goal with E : (s =? clamp o ?v) = true |- _ => apply N.eqb_eq in E; exists v; exact E end.
Qed.

(* ---- C01, step-wise ---------------------------------------------------- *)
Lemma grant_respects_holder : forall d o t1 t2 ip secs k d',
  Inv d -> t1 < pow2 32 ->
  alloc_ok d o t1 t2 (Granted ip secs k) = Some d' ->
  forall r, In r d -> r_addr r = ip -> r_client r <> o_client o -> r_expiry r < t1.
Proof.
  intros d o t1 t2 ip secs k d' I T H r Hr Ea Hc.
  unfold alloc_ok in H. rewrite (cast_small _ T) in H.
  destruct k; brk H;
    repeat match goal with
    | E : (_ && _) = true |- _ => apply andb_true_iff in E; destruct E
    end.
  - (* NewAddress *)
    match goal with E : free d t1 ip = true |- _ => exact (proj1 (free_spec _ _ _) E r Hr Ea) end.
  - (* ReusingLease: the row at ip is the client's own *)
    match goal with E : find_addr ip _ = Some ?r0 |- _ =>
      apply find_addr_some in E; destruct E as [E1 E2];
      apply in_cur_rows in E1; destruct E1 as [E1 [E3 _]];
      assert (r = r0) by (apply (nodup_unique d); [exact I|assumption|assumption|congruence]); subst r; contradiction
    end.
  - (* Requested *)
    match goal with E : req_ok d o t1 ip = true |- _ =>
      unfold req_ok in E; apply andb_true_iff in E; destruct E as [_ E];
      exact (proj1 (free_spec _ _ _) E r Hr Ea) end.
  - (* Revived *)
    match goal with E : find_addr ip _ = Some ?r0 |- _ =>
      apply find_addr_some in E; destruct E as [E1 E2];
      apply in_my_rows in E1; destruct E1 as [E1 E3];
      assert (r = r0) by (apply (nodup_unique d); [exact I|assumption|assumption|congruence]); subst r; contradiction
    end.
Qed.

(* ---- C09, step-wise ---------------------------------------------------- *)
Definition A_set (d : db) (o : op) (t x : N) : bool :=
  in_pool (o_pool o) x && held_by d (o_client o) x t.

Lemma A_set_spec : forall d o t x,
  A_set d o t x = true <-> In x (o_pool o) /\ exists r, In r (cur_rows d o t) /\ r_addr r = x.
Proof.
  intros. unfold A_set, held_by. rewrite andb_true_iff, in_pool_spec, existsb_exists. split.
  - intros [P [r [Hr E]]]. split; [assumption|]. exists r.
    apply andb_true_iff in E. destruct E as [E E3]. apply andb_true_iff in E. destruct E as [E1 E2].
    apply N.eqb_eq in E1. apply N.ltb_lt in E3. unfold mine in E2. apply bytes_eqb_eq in E2.
    split; [|assumption]. apply in_cur_rows. auto.
  - intros [P [r [Hr E]]]. split; [assumption|]. exists r. apply in_cur_rows in Hr.
    destruct Hr as [H1 [H2 H3]]. split; [assumption|].
    rewrite !andb_true_iff. unfold mine. rewrite N.eqb_eq, bytes_eqb_eq, N.ltb_lt. auto.
Qed.

Lemma keeps_address : forall d o t1 t2 ans d',
  Inv d -> t1 < pow2 32 ->
  alloc_ok d o t1 t2 ans = Some d' ->
  (exists x, A_set d o t1 x = true) ->
  exists ip s k, ans = Granted ip s k /\ A_set d o t1 ip = true /\
                 (forall q, o_req o = Some q -> A_set d o t1 q = true -> ip = q).
Proof.
  intros d o t1 t2 ans d' I T H [x Ax].
  apply A_set_spec in Ax. destruct Ax as [Px [rx [Hrx Erx]]].
  assert (NC : none_in_pool (o_pool o) (cur_rows d o t1) = false).
  { destruct (none_in_pool (o_pool o) (cur_rows d o t1)) eqn:E; [|reflexivity].
    exfalso. apply (proj1 (none_in_pool_spec _ _) E rx Hrx). rewrite Erx. assumption. }
  assert (NA : none_in_pool (o_pool o) (my_rows d o) = false).
  { destruct (none_in_pool (o_pool o) (my_rows d o)) eqn:E; [|reflexivity].
    exfalso. apply (proj1 (none_in_pool_spec _ _) E rx (cur_sub_all _ _ _ _ Hrx)). rewrite Erx. assumption. }
  unfold alloc_ok in H. rewrite (cast_small _ T) in H. rewrite NC, NA in H.
  destruct ans as [ip s k| | | |]; try discriminate H.
  destruct k; try discriminate H.
  (* only ReusingLease is left *)
  brk H.
  match goal with E : (_ && _) = true |- _ => apply andb_true_iff in E; destruct E as [B _] end.
  match goal with E : find_addr ip _ = Some ?r0 |- _ => rename r0 into r0'; apply find_addr_some in E; destruct E as [R1 R2] end.
  unfold best_in_pool in B. apply andb_true_iff in B. destruct B as [B1 B2].
  exists ip, s, ReusingLease. split; [reflexivity|]. split.
  - apply A_set_spec. split. apply in_pool_spec. rewrite <- R2. assumption. exists r0'. auto.
  - intros q Eq Aq. apply A_set_spec in Aq. destruct Aq as [Pq [rq [Hrq Erq]]].
    rewrite forallb_forall in B2. specialize (B2 rq Hrq).
    apply orb_true_iff in B2. destruct B2 as [B2|B2].
    + apply negb_true_iff in B2. rewrite Erq in B2. apply in_pool_spec in Pq. congruence.
    + unfold key_le in B2. rewrite Eq in B2. simpl in B2. rewrite Erq in B2. rewrite N.eqb_refl in B2.
      destruct (q =? r_addr r0') eqn:E; [|discriminate].
      apply N.eqb_eq in E. congruence.
Qed.

Lemma refusal_means_exhausted : forall d o t1 t2 d',
  t1 < pow2 32 ->
  alloc_ok d o t1 t2 NoAddress = Some d' ->
  d' = d /\
  forall x, In x (o_pool o) ->
    exists r, In r d /\ r_addr r = x /\ r_client r <> o_client o /\ t1 <= r_expiry r.
Proof.
  intros d o t1 t2 d' T H. split.
  { eapply refused_store; [exact H|congruence]. }
  unfold alloc_ok in H. rewrite (cast_small _ T) in H. brk H.
  repeat match goal with E : (_ && _) = true |- _ => apply andb_true_iff in E; destruct E end.
  intros x Px.
  match goal with E : forallb _ (o_pool o) = true |- _ => rewrite forallb_forall in E; specialize (E x Px);
    apply negb_true_iff in E; apply free_false in E; destruct E as [r [R1 [R2 R3]]] end.
  exists r. repeat split; try assumption.
  intro Ec.
  match goal with E : none_in_pool _ (my_rows d o) = true |- _ =>
    apply (proj1 (none_in_pool_spec _ _) E r) end.
  - apply in_my_rows. auto.
  - rewrite R2. assumption.
Qed.

(* ---- C10, step-wise ---------------------------------------------------- *)
Lemma clamp_bounds : forall o v, o_min o <= o_max o -> o_min o <= clamp o v <= o_max o.
Proof. intros. unfold clamp. lia. Qed.

Lemma lease_bounds : forall d o t1 t2 ip secs k d',
  alloc_ok d o t1 t2 (Granted ip secs k) = Some d' ->
  o_min o <= o_max o -> o_min o <= secs <= o_max o.
Proof.
  intros. destruct (granted_clamp _ _ _ _ _ _ _ _ H) as [v E]. subst. apply clamp_bounds. assumption.
Qed.

Lemma find_addr_upsert : forall n d, find_addr (r_addr n) (upsert n d) = Some n.
Proof. intros. unfold find_addr, upsert. simpl. rewrite N.eqb_refl. reflexivity. Qed.

Lemma record_covers : forall d o t1 t2 ip secs k d',
  alloc_ok d o t1 t2 (Granted ip secs k) = Some d' ->
  t2 + secs < pow2 32 ->
  exists r, find_addr ip d' = Some r /\ r_client r = o_client o /\
            r_start r = t2 /\ r_expiry r = t2 + secs.
Proof.
  intros d o t1 t2 ip secs k d' H W. apply granted_store in H. subst.
  exists (new_row o ip t2 secs). split.
  - exact (find_addr_upsert (new_row o ip t2 secs) d).
  - simpl. split; [reflexivity|]. split; apply cast_small; lia.
Qed.

Lemma reply_carries_lease_time : forall (is_request : bool) popts sid secs,
  secs < pow2 32 ->
  get_opt OPT_LEASETIME (reply_options is_request popts sid secs) = Some (be32 secs).
Proof.
  intros. unfold reply_options, get_opt, set_opt. simpl. rewrite (cast_small _ H). reflexivity.
Qed.

(* ---- histories ---------------------------------------------------------- *)
Lemma run_from_nodup : forall h d log d' log',
  Inv d -> run_from (d, log) h = Some (d', log') -> Inv d'.
Proof.
  induction h as [|e h IH]; intros d log d' log' I H; simpl in H.
  - inversion H; subst. assumption.
  - destruct e as [o t1 t2 a|dd|]; simpl in H.
    + destruct (alloc_ok d o t1 t2 a) as [d1|] eqn:E; [|discriminate].
      eapply IH; [|exact H]. eapply alloc_preserves_inv; eassumption.
    + eapply IH; eassumption.
    + eapply IH; eassumption.
Qed.

Lemma single_row_per_address : forall h d log, run h = Some (d, log) -> NoDup (map r_addr d).
Proof. intros h d log H. unfold run in H. eapply run_from_nodup; [|exact H]. constructor. Qed.

(* C10: every grant of a well-formed history is within its bounds *)
Definition grant_bounded (g : grant) : Prop := g_min g <= g_secs g <= g_max g.

Lemma run_from_bounded : forall h now d log d' log',
  wf_from now h = true -> Forall grant_bounded log ->
  run_from (d, log) h = Some (d', log') -> Forall grant_bounded log'.
Proof.
  induction h as [|e h IH]; intros now d log d' log' W B H; simpl in H.
  - inversion H; subst. assumption.
  - destruct e as [o t1 t2 a|dd|]; simpl in H, W.
    + destruct (alloc_ok d o t1 t2 a) as [d1|] eqn:E; [|discriminate].
      repeat (apply andb_true_iff in W; destruct W as [W ?]).
      eapply IH; [eassumption| |exact H].
      destruct a; try assumption. constructor; [|assumption].
      unfold grant_bounded, grant_of. simpl.
      eapply lease_bounds. exact E. apply N.leb_le. assumption.
    + eapply IH; eassumption.
    + eapply IH; eassumption.
Qed.

Lemma renewal_stays_bounded : forall h d log,
  wf_history h = true -> run h = Some (d, log) -> Forall grant_bounded log.
Proof. intros h d log W H. eapply run_from_bounded; [exact W| |exact H]. constructor. Qed.

(* C01: the invariant with the ghost grant log *)
Fixpoint newest_grant (log : list grant) (c : list N) (x : N) : option grant :=
  match log with
  | [] => None
  | g :: l => if bytes_eqb (g_client g) c && (g_addr g =? x) then Some g else newest_grant l c x
  end.

Lemma last_is_newest : forall log c x t,
  Forall (fun g => g_time g <= t) log -> last_grant_to log c x t = newest_grant log c x.
Proof.
  induction log as [|g l IH]; intros c x t F; simpl; [reflexivity|].
  inversion F; subst.
  assert (E : (g_time g <=? t) = true) by (apply N.leb_le; assumption).
  rewrite E. rewrite andb_true_r. rewrite IH by assumption. reflexivity.
Qed.

Definition NoDouble (log : list grant) : Prop :=
  forall a b x t, a <> b -> ~ (holds log a x t /\ holds log b x t).

Definition Covered (d : db) (log : list grant) : Prop :=
  forall c x g, newest_grant log c x = Some g ->
    (exists r, In r d /\ r_addr r = x /\ r_client r = c /\ r_expiry r = g_expiry g)
    \/ (exists g', In g' log /\ g_addr g' = x /\ g_client g' <> c /\ g_expiry g < g_time g').

Definition LogInv (now : N) (d : db) (log : list grant) : Prop :=
  Inv d /\ Forall (fun g => g_time g <= now) log /\ Covered d log /\ NoDouble log.

Lemma loginv_later : forall now now' d log, now <= now' -> LogInv now d log -> LogInv now' d log.
Proof.
  intros now now' d log L [I [F [C N]]]. repeat split; try assumption.
  eapply Forall_impl; [|exact F]. simpl. intros. lia.
Qed.

(* an older holder of ip cannot still hold it when ip is granted to somebody else *)
Lemma old_holder_expired : forall now d log o t1 t2 ip s k d' b t,
  LogInv now d log -> now <= t1 -> t1 <= t2 -> t2 < pow2 32 ->
  alloc_ok d o t1 t2 (Granted ip s k) = Some d' ->
  b <> o_client o -> t2 <= t -> holds log b ip t -> False.
Proof.
  intros now d log o t1 t2 ip s k d' b t [I [F [C N]]] L1 L2 L3 H NB LT [g [G E]].
  rewrite last_is_newest in G.
  2:{ eapply Forall_impl; [|exact F]. simpl. intros. lia. }
  destruct (C _ _ _ G) as [[r [R1 [R2 [R3 R4]]]]|[g' [G1 [G2 [G3 G4]]]]].
  - assert (r_expiry r < t1).
    { eapply grant_respects_holder; try eassumption. lia. congruence. }
    lia.
  - rewrite Forall_forall in F. specialize (F g' G1). simpl in F. lia.
Qed.

Lemma holds_cons : forall g log c x t,
  holds (g :: log) c x t ->
  (g_client g = c /\ g_addr g = x /\ g_time g <= t /\ t < g_expiry g) \/ holds log c x t.
Proof.
  intros g log c x t [g0 [G E]]. simpl in G.
  destruct (bytes_eqb (g_client g) c && (g_addr g =? x) && (g_time g <=? t)) eqn:B.
  - inversion G; subst. left.
    apply andb_true_iff in B. destruct B as [B B3]. apply andb_true_iff in B. destruct B as [B1 B2].
    apply bytes_eqb_eq in B1. apply N.eqb_eq in B2. apply N.leb_le in B3. auto.
  - right. exists g0. auto.
Qed.

Lemma grant_step : forall now d log o t1 t2 ip s k d',
  LogInv now d log -> now <= t1 -> t1 <= t2 -> t2 < pow2 32 ->
  alloc_ok d o t1 t2 (Granted ip s k) = Some d' ->
  LogInv t2 d' (grant_of o t2 ip s :: log).
Proof.
  intros now d log o t1 t2 ip s k d' LI L1 L2 L3 H.
  pose proof LI as [I [F [C N]]].
  pose proof (granted_store _ _ _ _ _ _ _ _ H) as ED.
  split; [|split; [|split]].
  - eapply alloc_preserves_inv; eassumption.
  - constructor. simpl. lia. eapply Forall_impl; [|exact F]. simpl. intros. lia.
  - (* Covered *)
    intros c x g G. simpl in G.
    destruct (bytes_eqb (o_client o) c && (ip =? x)) eqn:B.
    + inversion G; subst g. apply andb_true_iff in B. destruct B as [B1 B2].
      apply bytes_eqb_eq in B1. apply N.eqb_eq in B2. subst c x.
      left. exists (new_row o ip t2 s). subst d'. split.
      * apply in_upsert. left. reflexivity.
      * simpl. auto.
    + destruct (C _ _ _ G) as [[r [R1 [R2 [R3 R4]]]]|[g' [G1 [G2 [G3 G4]]]]].
      * destruct (N.eq_dec x ip) as [E|E].
        -- rewrite E in *. clear E. rewrite N.eqb_refl in B. rewrite andb_true_r in B. apply bytes_eqb_neq in B.
           right. exists (grant_of o t2 ip s). simpl. repeat split; auto.
           assert (r_expiry r < t1).
           { eapply grant_respects_holder; try eassumption. lia. congruence. }
           lia.
        -- left. exists r. subst d'. split.
           ++ apply in_upsert. right. split. assumption. simpl. congruence.
           ++ auto.
      * right. exists g'. simpl. auto.
  - (* NoDouble *)
    intros a b x t NE [Ha Hb].
    apply holds_cons in Ha. apply holds_cons in Hb. simpl in Ha, Hb.
    destruct Ha as [[A1 [A2 [A3 A4]]]|Ha]; destruct Hb as [[B1 [B2 [B3 B4]]]|Hb].
    + congruence.
    + subst x. eapply (old_holder_expired now d log o t1 t2 ip s k d' b t); eauto. congruence.
    + subst x. eapply (old_holder_expired now d log o t1 t2 ip s k d' a t); eauto. congruence.
    + exact (N a b x t NE (conj Ha Hb)).
Qed.

Lemma run_from_loginv : forall h now d log d' log',
  wf_from now h = true -> LogInv now d log ->
  run_from (d, log) h = Some (d', log') -> exists now', LogInv now' d' log'.
Proof.
  induction h as [|e h IH]; intros now d log d' log' W LI H; simpl in H.
  - inversion H; subst. exists now. assumption.
  - destruct e as [o t1 t2 a|dd|]; simpl in H, W.
    + destruct (alloc_ok d o t1 t2 a) as [d1|] eqn:E; [|discriminate].
      repeat (apply andb_true_iff in W; destruct W as [W ?]).
      repeat match goal with X : (_ <=? _) = true |- _ => apply N.leb_le in X end.
      repeat match goal with X : (_ <? _) = true |- _ => apply N.ltb_lt in X end.
      eapply (IH t2); [eassumption| |exact H].
      destruct a as [ip s k| | | |].
      * apply (grant_step now d log o t1 t2 ip s k d1); try assumption. unfold pow2. simpl. lia.
      * apply refused_store in E; [|congruence]. subst. apply (loginv_later now); [lia|assumption].
      * simpl in E. discriminate.
      * simpl in E. discriminate.
      * apply refused_store in E; [|congruence]. subst. apply (loginv_later now); [lia|assumption].
    + eapply (IH (now + dd)); [eassumption| |exact H]. apply (loginv_later now); [lia|assumption].
    + eapply (IH now); eassumption.
Qed.

Lemma loginv_init : LogInv 0 [] [].
Proof.
  repeat split.
  - constructor.
  - constructor.
  - intros c x g G. simpl in G. discriminate.
  - intros a b x t _ [[g [G _]] _]. simpl in G. discriminate.
Qed.

Lemma no_double_allocation : forall h, wf_history h = true ->
  forall d log, run h = Some (d, log) ->
  forall a b x t, a <> b -> ~ (holds log a x t /\ holds log b x t).
Proof.
  intros h W d log H. destruct (run_from_loginv h 0 [] [] d log W loginv_init H) as [now' [_ [_ [_ N]]]].
  exact N.
Qed.

(* ---- C09: the address acknowledged after an offer is the offered one ---- *)
Lemma granted_in_pool : forall d o t1 t2 ip s k d',
  alloc_ok d o t1 t2 (Granted ip s k) = Some d' -> In ip (o_pool o).
Proof.
  intros d o t1 t2 ip s k d' H. unfold alloc_ok in H.
  destruct k; brk H;
    repeat match goal with
    | E : (_ && _) = true |- _ => apply andb_true_iff in E; destruct E
    end.
  - apply in_pool_spec. assumption.
  - match goal with E : find_addr ip _ = Some ?r0 |- _ => apply find_addr_some in E; destruct E as [_ E2] end.
    match goal with E : best_in_pool _ _ _ _ = true |- _ =>
      unfold best_in_pool in E; apply andb_true_iff in E; destruct E as [E _]; apply in_pool_spec in E end.
    congruence.
  - match goal with E : req_ok _ _ _ _ = true |- _ =>
      unfold req_ok in E; apply andb_true_iff in E; destruct E as [E _];
      apply andb_true_iff in E; destruct E as [_ E]; apply in_pool_spec in E; assumption end.
  - match goal with E : find_addr ip _ = Some ?r0 |- _ => apply find_addr_some in E; destruct E as [_ E2] end.
    match goal with E : best_in_pool _ _ _ _ = true |- _ =>
      unfold best_in_pool in E; apply andb_true_iff in E; destruct E as [E _]; apply in_pool_spec in E end.
    congruence.
Qed.

Lemma ack_is_offer : forall d o t1 t2 ip s k d1 o' t1' t2' ans d2,
  Inv d ->
  alloc_ok d o t1 t2 (Granted ip s k) = Some d1 ->            (* the OFFER *)
  o_client o' = o_client o -> o_pool o' = o_pool o -> o_req o' = Some ip ->
  t2 + s < pow2 32 -> t1' < t2 + s ->                          (* within the offered lease *)
  alloc_ok d1 o' t1' t2' ans = Some d2 ->                      (* the REQUEST *)
  exists s' k', ans = Granted ip s' k'.
Proof.
  intros d o t1 t2 ip s k d1 o' t1' t2' ans d2 I H Ec Ep Er W L H'.
  pose proof (granted_in_pool _ _ _ _ _ _ _ _ H) as P.
  pose proof (alloc_preserves_inv _ _ _ _ _ _ I H) as I1.
  apply granted_store in H. subst d1.
  assert (A : A_set (upsert (new_row o ip t2 s) d) o' t1' ip = true).
  { apply A_set_spec. split. rewrite Ep. assumption.
    exists (new_row o ip t2 s). split; [|reflexivity].
    apply in_cur_rows. split. apply in_upsert. left. reflexivity.
    split. simpl. congruence. simpl. rewrite cast_small by assumption. assumption. }
  assert (T : t1' < pow2 32) by lia.
  destruct (keeps_address _ _ _ _ _ _ I1 T H' (ex_intro _ ip A)) as [ip' [s' [k' [E1 [_ E3]]]]].
  exists s', k'. rewrite E1. f_equal. apply (E3 ip Er A).
Qed.

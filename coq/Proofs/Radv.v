(* Lemmas about Model/Radv.v (the encoder as coded) against Model/RfcRaDecode.v
   (the decoder written from the RFCs) and Model/RaExpected.v. *)
From Erbium Require Import Lib.Base Model.Radv Model.RfcRaDecode Model.RaExpected.
Ltac Zify.zify_post_hook ::= Z.to_euclidean_division_equations.

(* ---- the two prefix length code tables agree --------------------------- *)
Lemma plc_table_agrees (len plc : N) : plc_of_len len = Some plc -> plc_len plc = Some len.
Proof.
  unfold plc_of_len.
  destruct (N.eqb_spec len 96) as [->|_]; [intros H; inversion H; reflexivity|].
  destruct (N.eqb_spec len 64) as [->|_]; [intros H; inversion H; reflexivity|].
  destruct (N.eqb_spec len 56) as [->|_]; [intros H; inversion H; reflexivity|].
  destruct (N.eqb_spec len 48) as [->|_]; [intros H; inversion H; reflexivity|].
  destruct (N.eqb_spec len 40) as [->|_]; [intros H; inversion H; reflexivity|].
  destruct (N.eqb_spec len 32) as [->|_]; [intros H; inversion H; reflexivity|].
  discriminate.
Qed.

Lemma plc_of_len_ok (len : N) :
  nat64_len_ok len = true -> exists plc, plc_of_len len = Some plc /\ plc < 6.
Proof.
  unfold nat64_len_ok, plc_of_len, existsb. intros H.
  destruct (len =? 96) eqn:E96; [exists 0; split; [reflexivity|lia]|].
  destruct (len =? 64) eqn:E64; [exists 1; split; [reflexivity|lia]|].
  destruct (len =? 56) eqn:E56; [exists 2; split; [reflexivity|lia]|].
  destruct (len =? 48) eqn:E48; [exists 3; split; [reflexivity|lia]|].
  destruct (len =? 40) eqn:E40; [exists 4; split; [reflexivity|lia]|].
  destruct (len =? 32) eqn:E32; [exists 5; split; [reflexivity|lia]|].
  discriminate H.
Qed.

Lemma plc_of_len_none (len : N) : nat64_len_ok len = false -> plc_of_len len = None.
Proof.
  unfold nat64_len_ok, plc_of_len, existsb. intros H.
  repeat rewrite orb_false_iff in H. destruct H as (H32 & H40 & H48 & H56 & H64 & H96 & _).
  rewrite H96, H64, H56, H48, H40, H32. reflexivity.
Qed.

(* ---- lists -------------------------------------------------------------- *)
Lemma lenN_app {A} (a b : list A) : lenN (a ++ b) = lenN a + lenN b.
Proof. unfold lenN. rewrite app_length. lia. Qed.
Lemma lenN_cons {A} (x : A) (l : list A) : lenN (x :: l) = 1 + lenN l.
Proof. unfold lenN. simpl length. lia. Qed.
Lemma lenN_nil {A} : lenN (@nil A) = 0.
Proof. reflexivity. Qed.
Lemma lenN_repeatN {A} (x : A) (n : N) : lenN (repeatN x n) = n.
Proof. unfold lenN, repeatN. rewrite repeat_length. apply N2Nat.id. Qed.
Lemma takeN_app_exact {A} (n : N) (a b : list A) : lenN a = n -> takeN n (a ++ b) = a.
Proof.
  intros <-. unfold takeN, lenN. rewrite Nat2N.id, firstn_app, Nat.sub_diag, firstn_all.
  simpl. apply app_nil_r.
Qed.
Lemma dropN_app_exact {A} (n : N) (a b : list A) : lenN a = n -> dropN n (a ++ b) = b.
Proof.
  intros <-. unfold dropN, lenN. rewrite Nat2N.id, skipn_app, Nat.sub_diag, skipn_all. reflexivity.
Qed.
Lemma takeN_all {A} (n : N) (a : list A) : lenN a = n -> takeN n a = a.
Proof. intros H. rewrite <- (app_nil_r a) at 1. apply takeN_app_exact, H. Qed.
Lemma dropN_all {A} (n : N) (a : list A) : lenN a = n -> dropN n a = [].
Proof. intros H. rewrite <- (app_nil_r a) at 1. apply dropN_app_exact, H. Qed.
Lemma lenN_length_le {A} (a : list A) (k : nat) : (length a <= k)%nat <-> lenN a <= N.of_nat k.
Proof. unfold lenN. lia. Qed.

Lemma bytes_ok_app (a b : list N) : bytes_ok (a ++ b) = bytes_ok a && bytes_ok b.
Proof. apply forallb_app. Qed.
Lemma bytes_ok_cons (x : N) (l : list N) : bytes_ok (x :: l) = (x <? 256) && bytes_ok l.
Proof. reflexivity. Qed.
Lemma bytes_ok_repeat0 (n : N) : bytes_ok (repeatN 0 n) = true.
Proof. unfold repeatN. induction (N.to_nat n); simpl; auto. Qed.
Lemma all_zero_repeat0 (n : N) : all_zero (repeatN 0 n) = true.
Proof. unfold repeatN. induction (N.to_nat n); simpl; auto. Qed.
Lemma bytes_ok_concat (l : list (list N)) : forallb bytes_ok l = true -> bytes_ok (concat l) = true.
Proof.
  induction l as [|a l IH]; simpl; [reflexivity|]. rewrite andb_true_iff. intros [Ha Hl].
  rewrite bytes_ok_app, Ha, IH; auto.
Qed.

(* ---- numbers ------------------------------------------------------------ *)
Lemma ltb_mod256 (v : N) : (v mod 256 <? 256) = true.
Proof. apply N.ltb_lt. lia. Qed.
Lemma bytes_ok_be16 (v : N) : bytes_ok (be16 v) = true.
Proof. unfold be16, bytes_ok, forallb, byte_ok. rewrite !ltb_mod256. reflexivity. Qed.
Lemma bytes_ok_be32 (v : N) : bytes_ok (be32 v) = true.
Proof. unfold be32, bytes_ok, forallb, byte_ok. rewrite !ltb_mod256. reflexivity. Qed.
Lemma u16_at_be16 (v : N) (r : list N) : v < 65536 -> u16_at (be16 v ++ r) = v.
Proof. intros H. cbv [be16 u16_at app]. lia. Qed.
Lemma u32_at_be32 (v : N) (r : list N) : v < 4294967296 -> u32_at (be32 v ++ r) = v.
Proof. intros H. cbv [be32 u32_at app]. lia. Qed.
Lemma lenN_be32 (v : N) : lenN (be32 v) = 4.
Proof. reflexivity. Qed.
Lemma lenN_be16 (v : N) : lenN (be16 v) = 2.
Proof. reflexivity. Qed.

Lemma clamp32_sat (v : N) : clamp 32 v = sat 4294967295 v.
Proof. unfold clamp, sat. change (pow2 32 - 1) with 4294967295. destruct (N.leb_spec v 4294967295); lia. Qed.
Lemma clamp16_sat (v : N) : clamp 16 v = sat 65535 v.
Proof. unfold clamp, sat. change (pow2 16 - 1) with 65535. destruct (N.leb_spec v 65535); lia. Qed.
Lemma sat_le (m v : N) : sat m v <= m.
Proof. unfold sat. destruct (N.leb_spec v m); lia. Qed.
Lemma pad8_spec (n : N) : (n + pad8 n) mod 8 = 0.
Proof. unfold pad8. lia. Qed.

(* ---- prefixes ------------------------------------------------------------ *)
Lemma pow2_nz (k : N) : 2 ^ k <> 0.
Proof. apply N.pow_nonzero. lia. Qed.
Lemma mask_byte_eq (k b : N) : mask_byte k b = b - b mod 2 ^ (8 - k).
Proof.
  unfold mask_byte. cbv zeta. pose proof (pow2_nz (8 - k)) as H.
  pose proof (N.div_mod b (2 ^ (8 - k)) H) as E.
  remember (2 ^ (8 - k)) as m eqn:Hm. clear Hm. remember (b / m) as q eqn:Hq. remember (b mod m) as r eqn:Hr.
  clear - E. rewrite (N.mul_comm q m). symmetry. apply N.add_sub_eq_r. symmetry. exact E.
Qed.
Lemma byte_tail_zero (k b : N) : (b - b mod 2 ^ (8 - k)) mod 2 ^ (8 - k) = 0.
Proof.
  rewrite <- mask_byte_eq. unfold mask_byte. cbv zeta. apply N.mod_mul, pow2_nz.
Qed.
Lemma mask_bytes_network (a : list N) : forall len, mask_bytes len a = network len a.
Proof.
  induction a as [|b a IH]; intros len; [reflexivity|].
  change (mask_byte (N.min len 8) b :: mask_bytes (len - 8) a
          = (b - b mod 2 ^ (8 - N.min len 8)) :: network (len - 8) a).
  rewrite IH. f_equal. apply mask_byte_eq.
Qed.
Lemma network_tail_zero (a : list N) : forall len, tail_bits_zero len (network len a) = true.
Proof.
  induction a as [|b a IH]; intros len; [reflexivity|].
  change (((b - b mod 2 ^ (8 - N.min len 8)) mod 2 ^ (8 - N.min len 8) =? 0)
          && tail_bits_zero (len - 8) (network (len - 8) a) = true).
  rewrite IH, andb_true_r. apply N.eqb_eq, byte_tail_zero.
Qed.
Lemma network_bytes_ok (a : list N) : forall len, bytes_ok a = true -> bytes_ok (network len a) = true.
Proof.
  induction a as [|b a IH]; intros len; [reflexivity|].
  change (bytes_ok (b :: a) = true -> byte_ok (b - b mod 2 ^ (8 - N.min len 8)) && bytes_ok (network (len - 8) a) = true).
  rewrite bytes_ok_cons, !andb_true_iff. intros [Hb Ha].
  split; [|apply IH, Ha]. unfold byte_ok in *. apply N.ltb_lt in Hb. apply N.ltb_lt.
  pose proof (N.le_sub_l b (b mod 2 ^ (8 - N.min len 8))). lia.
Qed.
Lemma network_length (a : list N) : forall len, length (network len a) = length a.
Proof. induction a; intros; simpl; auto. Qed.
Lemma tail_zero_firstn (n : nat) : forall a len, tail_bits_zero len a = true -> tail_bits_zero len (firstn n a) = true.
Proof.
  induction n; intros a len; [reflexivity|]. destruct a as [|b a]; [reflexivity|]. simpl.
  rewrite !andb_true_iff. intros [H1 H2]. split; auto.
Qed.
Lemma bytes_ok_firstn (n : nat) (a : list N) : bytes_ok a = true -> bytes_ok (firstn n a) = true.
Proof.
  revert a. induction n; intros a; [reflexivity|]. destruct a; [reflexivity|]. simpl.
  rewrite !andb_true_iff. intros [H1 H2]. split; auto.
Qed.

(* ---- pieces of the RFC decoder run on what the encoder writes ------------ *)
Lemma chunks16_step (k : nat) (b : list N) : b <> [] ->
  chunks16 (S k) b = if lenN b <? 16 then None
                     else match chunks16 k (dropN 16 b) with
                          | Some cs => Some (takeN 16 b :: cs) | None => None end.
Proof. destruct b; [congruence|reflexivity]. Qed.

Lemma chunks16_concat (ss : list (list N)) : forall fuel,
  (length ss <= fuel)%nat -> forallb addr_ok ss = true -> chunks16 fuel (concat ss) = Some ss.
Proof.
  induction ss as [|s ss IH]; intros fuel Hf Hok.
  - destruct fuel; reflexivity.
  - destruct fuel as [|k]; [simpl in Hf; lia|].
    simpl in Hok. apply andb_true_iff in Hok as [Hs Hss].
    unfold addr_ok in Hs. apply andb_true_iff in Hs as [Hl _]. apply N.eqb_eq in Hl.
    simpl concat. rewrite chunks16_step.
    + rewrite lenN_app, Hl. replace (16 + lenN (concat ss) <? 16) with false by (symmetry; apply N.ltb_ge; lia).
      rewrite (dropN_app_exact 16 s _ Hl), (takeN_app_exact 16 s _ Hl), IH; auto. simpl in Hf. lia.
    + destruct s; [discriminate Hl|discriminate].
Qed.

Lemma name_labels_step (k : nat) (n : N) (r : list N) :
  name_labels (S k) (n :: r) =
  if n =? 0 then Some ([], r)
  else if (63 <? n) || (lenN r <? n) then None
       else match name_labels k (dropN n r) with
            | Some (ls, rest) => Some (takeN n r :: ls, rest) | None => None end.
Proof. reflexivity. Qed.

Lemma label_len (l : list N) : label_ok l = true -> 1 <= lenN l <= 63.
Proof.
  unfold label_ok. rewrite !andb_true_iff. intros [[H1 H2] _].
  apply N.leb_le in H1. apply N.leb_le in H2. lia.
Qed.
Lemma cast8_small (n : N) : n < 256 -> cast 8 n = n.
Proof. intros H. unfold cast. change (pow2 8) with 256. apply N.mod_small, H. Qed.

Lemma name_labels_enc (ls : list (list N)) : forall fuel rest,
  (length ls < fuel)%nat -> forallb label_ok ls = true ->
  name_labels fuel (flat_map enc_label ls ++ 0 :: rest) = Some (ls, rest).
Proof.
  induction ls as [|l ls IH]; intros fuel rest Hf Hok.
  - destruct fuel; [lia|reflexivity].
  - destruct fuel as [|k]; [lia|].
    simpl in Hok. apply andb_true_iff in Hok as [Hl Hls]. pose proof (label_len l Hl) as Hn.
    change (flat_map enc_label (l :: ls)) with ((cast 8 (lenN l) :: l) ++ flat_map enc_label ls).
    rewrite cast8_small by lia.
    rewrite <- app_assoc, <- app_comm_cons. rewrite name_labels_step.
    replace (lenN l =? 0) with false by (symmetry; apply N.eqb_neq; lia).
    replace (63 <? lenN l) with false by (symmetry; apply N.ltb_ge; lia).
    rewrite lenN_app.
    replace (lenN l + lenN (flat_map enc_label ls ++ 0 :: rest) <? lenN l) with false
      by (symmetry; apply N.ltb_ge; lia).
    simpl orb. rewrite (dropN_app_exact _ l _ eq_refl), (takeN_app_exact _ l _ eq_refl), IH; auto.
    simpl in Hf. lia.
Qed.

Lemma enc_labels_length (ls : list (list N)) : (length ls <= length (flat_map enc_label ls))%nat.
Proof.
  induction ls as [|l ls IH]; simpl; [lia|]. rewrite app_length. simpl. lia.
Qed.

Lemma all_zero_repeat (n : nat) : all_zero (repeat 0 n) = true.
Proof. induction n; simpl; auto. Qed.

Lemma dnssl_names_step (k : nat) (n : N) (r : list N) : n <> 0 ->
  dnssl_names (S k) (n :: r) =
  match name_labels (S (length (n :: r))) (n :: r) with
  | Some (ls, rest) => match dnssl_names k rest with Some ds => Some (ls :: ds) | None => None end
  | None => None
  end.
Proof.
  intros H. cbn [dnssl_names]. replace (n =? 0) with false by (symmetry; apply N.eqb_neq, H). reflexivity.
Qed.

Lemma split_on_nonnil (sep : N) (s : list N) : split_on sep s <> [].
Proof.
  induction s as [|c r IH]; simpl; [discriminate|].
  destruct (c =? sep); [discriminate|]. destruct (split_on sep r); discriminate.
Qed.

Lemma dnssl_names_enc (ds : list (list N)) : forall fuel z,
  (length ds < fuel)%nat -> forallb domain_ok ds = true ->
  dnssl_names fuel (flat_map enc_domain ds ++ repeatN 0 z) = Some (map (split_on 46) ds).
Proof.
  induction ds as [|d ds IH]; intros fuel z Hf Hok.
  - destruct fuel as [|k]; [lia|]. simpl flat_map. simpl app. unfold repeatN.
    destruct (N.to_nat z) as [|m]; [reflexivity|].
    change (repeat 0 (S m)) with (0 :: repeat 0 m). cbn [dnssl_names]. simpl (0 =? 0).
    change (all_zero (0 :: repeat 0 m)) with (all_zero (repeat 0 m)). rewrite all_zero_repeat. reflexivity.
  - destruct fuel as [|k]; [lia|].
    simpl in Hok. apply andb_true_iff in Hok as [Hd Hds]. unfold domain_ok in Hd.
    change (flat_map enc_domain (d :: ds)) with ((flat_map enc_label (split_on 46 d) ++ [0]) ++ flat_map enc_domain ds).
    pose proof (split_on_nonnil 46 d) as Hnn.
    remember (split_on 46 d) as ls eqn:Els.
    destruct ls as [|l0 ls']; [congruence|].
    assert (Hl0 : 1 <= lenN l0 <= 63) by (apply label_len; simpl in Hd; apply andb_true_iff in Hd; tauto).
    rewrite <- !app_assoc.
    change ([0] ++ flat_map enc_domain ds ++ repeatN 0 z) with (0 :: flat_map enc_domain ds ++ repeatN 0 z).
    (* expose the first octet *)
    assert (Hb : exists r, flat_map enc_label (l0 :: ls') ++ 0 :: flat_map enc_domain ds ++ repeatN 0 z
                           = lenN l0 :: r).
    { change (flat_map enc_label (l0 :: ls')) with ((cast 8 (lenN l0) :: l0) ++ flat_map enc_label ls').
      rewrite cast8_small by lia. rewrite <- app_assoc, <- app_comm_cons. eauto. }
    destruct Hb as [r Hb].
    pose proof (name_labels_enc (l0 :: ls') (S (length (lenN l0 :: r)))
                  (flat_map enc_domain ds ++ repeatN 0 z)) as HN.
    rewrite Hb in HN |- *. rewrite dnssl_names_step by lia. rewrite HN; auto.
    + rewrite IH; auto. simpl map. rewrite <- Els. reflexivity. simpl in Hf. lia.
    + rewrite <- Hb. rewrite app_length. pose proof (enc_labels_length (l0 :: ls')). lia.
Qed.

Lemma rev_repeat {A} (x : A) (n : nat) : rev (repeat x n) = repeat x n.
Proof.
  induction n; [reflexivity|]. simpl. rewrite IHn. symmetry. apply repeat_cons.
Qed.
Lemma strip_zeros_rev_repeat (n : nat) (l : list N) : strip_zeros_rev (repeat 0 n ++ l) = strip_zeros_rev l.
Proof. induction n; simpl; auto. Qed.
Lemma strip_trailing_zeros_pad (u : list N) (z : N) :
  forallb (fun x => (1 <=? x) && (x <? 256)) u = true -> strip_trailing_zeros (u ++ repeatN 0 z) = u.
Proof.
  intros H. unfold strip_trailing_zeros, repeatN. rewrite rev_app_distr, rev_repeat, strip_zeros_rev_repeat.
  assert (E : strip_zeros_rev (rev u) = rev u).
  { destruct (rev u) as [|x r] eqn:Er; [reflexivity|]. simpl.
    assert (Hin : In x u) by (apply in_rev; rewrite Er; left; reflexivity).
    rewrite forallb_forall in H. specialize (H x Hin). apply andb_true_iff in H as [H1 _].
    apply N.leb_le in H1. replace (x =? 0) with false by (symmetry; apply N.eqb_neq; lia). reflexivity. }
  rewrite E. apply rev_involutive.
Qed.

(* ---- one option: what the encoder writes is what the decoder reads -------- *)
Definition wf_opt (o : ndopt) : Prop :=
  match o with
  | OSourceLL b => lenN b = 6 /\ bytes_ok b = true
  | OMtu m => m < 4294967296
  | OPrefix len _ _ _ _ addr => len <= 128 /\ addr_ok addr = true
  | ORdnss _ ss => ss <> [] /\ forallb addr_ok ss = true /\ lenN ss <= 127
  | ODnssl _ ds => ds <> [] /\ forallb domain_ok ds = true /\ dnssl_fits ds = true
  | OPref64 _ _ addr => addr_ok addr = true
  | OCaptive u => url_ok u = true
  end.

Definition spec_of (o : ndopt) : list rfc_opt :=
  match o with
  | OSourceLL b => [RSll b]
  | OMtu m => [RMtu m]
  | OPrefix len l a v p addr =>
    [RPrefix {| rp_len := len; rp_onlink := l; rp_auto := a;
                rp_valid := sat 4294967295 (d_secs v); rp_preferred := sat 4294967295 (d_secs p);
                rp_prefix := network len addr |}]
  | ORdnss lt ss => [RRdnss (sat 4294967295 (d_secs lt)) ss]
  | ODnssl lt ds =>
    match filter name_ok ds with
    | d :: ds' => [RDnssl (sat 4294967295 (d_secs lt)) (map (split_on 46) (d :: ds'))]
    | [] => []
    end
  | OPref64 lt len addr =>
    if nat64_len_ok len then [RPref64 (pref64_lifetime (d_secs lt)) len (takeN 12 (network len addr))] else []
  | OCaptive u => [RCaptive u]
  end.

Definition enc_as (o : ndopt) (s : list rfc_opt) : Prop :=
  (enc_opt o = [] /\ s = []) \/
  exists ty len body x,
    enc_opt o = ty :: len :: body /\ s = [x] /\ ty < 256 /\ 0 < len < 256 /\
    lenN body = len * 8 - 2 /\ bytes_ok body = true /\
    reserved_body ty body = true /\ rfc_opt_body ty len body = Some (Some x).

Lemma addr_ok_len (a : list N) : addr_ok a = true -> lenN a = 16 /\ bytes_ok a = true.
Proof. unfold addr_ok. rewrite andb_true_iff, N.eqb_eq. tauto. Qed.

Lemma enc_as_sll (b : list N) : wf_opt (OSourceLL b) -> enc_as (OSourceLL b) (spec_of (OSourceLL b)).
Proof.
  intros [Hl Hb]. right. exists 1, 1, b, (RSll b). simpl enc_opt. rewrite Hl.
  repeat split; auto; try lia.
Qed.

Lemma enc_as_mtu (m : N) : wf_opt (OMtu m) -> enc_as (OMtu m) (spec_of (OMtu m)).
Proof.
  intros Hm. simpl in Hm. right. exists 5, 1, (0 :: 0 :: be32 m), (RMtu m).
  repeat split; auto; try lia.
  - rewrite !bytes_ok_cons, bytes_ok_be32. reflexivity.
  - change (rfc_opt_body 5 1 (0 :: 0 :: be32 m)) with (Some (Some (RMtu (u32_at (be32 m))))).
    rewrite <- (app_nil_r (be32 m)), u32_at_be32 by exact Hm. reflexivity.
Qed.

Lemma flags_lt (l a : bool) : (if l then 128 else 0) + (if a then 64 else 0) < 256.
Proof. destruct l, a; reflexivity. Qed.
Lemma flags_mod64 (l a : bool) : ((if l then 128 else 0) + (if a then 64 else 0)) mod 64 =? 0 = true.
Proof. destruct l, a; reflexivity. Qed.
Lemma flags_l (l a : bool) : (128 <=? (if l then 128 else 0) + (if a then 64 else 0)) = l.
Proof. destruct l, a; reflexivity. Qed.
Lemma flags_a (l a : bool) : (64 <=? ((if l then 128 else 0) + (if a then 64 else 0)) mod 128) = a.
Proof. destruct l, a; reflexivity. Qed.

Lemma enc_as_prefix len l a v p addr :
  wf_opt (OPrefix len l a v p addr) -> enc_as (OPrefix len l a v p addr) (spec_of (OPrefix len l a v p addr)).
Proof.
  intros [Hlen Haddr]. apply addr_ok_len in Haddr as [Hal Hab]. right.
  set (fl := (if l then 128 else 0) + (if a then 64 else 0)).
  set (vv := clamp 32 (as_secs v)). set (pp := clamp 32 (as_secs p)).
  exists 3, 4, (len :: fl :: be32 vv ++ be32 pp ++ [0; 0; 0; 0] ++ mask_bytes len addr).
  eexists. 
  assert (Hdrop : forall (X : list N), dropN 12 (be32 vv ++ be32 pp ++ [0; 0; 0; 0] ++ X) = X) by reflexivity.
  assert (Hmid : forall (X : list N), takeN 4 (dropN 8 (be32 vv ++ be32 pp ++ [0; 0; 0; 0] ++ X)) = [0;0;0;0]) by reflexivity.
  assert (Hd4 : forall (X : list N), dropN 4 (be32 vv ++ X) = X) by reflexivity.
  assert (Hvv : vv < 4294967296) by (unfold vv; rewrite clamp32_sat; pose proof (sat_le 4294967295 (as_secs v)); lia).
  assert (Hpp : pp < 4294967296) by (unfold pp; rewrite clamp32_sat; pose proof (sat_le 4294967295 (as_secs p)); lia).
  split; [reflexivity|]. split; [reflexivity|]. split; [lia|]. split; [lia|].
  split; [|split; [|split]].
  - rewrite !lenN_cons, !lenN_app, !lenN_be32, mask_bytes_network. unfold lenN at 2. rewrite network_length.
    fold (lenN addr). rewrite Hal. reflexivity.
  - rewrite !bytes_ok_cons, !bytes_ok_app, !bytes_ok_be32, mask_bytes_network, network_bytes_ok by exact Hab.
    replace (len <? 256) with true by (symmetry; apply N.ltb_lt; lia).
    replace (fl <? 256) with true by (symmetry; apply N.ltb_lt, flags_lt). reflexivity.
  - unfold reserved_body. rewrite Hmid, Hdrop, mask_bytes_network, network_tail_zero.
    unfold fl. rewrite flags_mod64. reflexivity.
  - unfold rfc_opt_body. simpl (negb (4 =? 4)). cbv iota.
    replace (len <=? 128) with true by (symmetry; apply N.leb_le, Hlen).
    rewrite Hdrop, Hd4, !u32_at_be32 by assumption.
    unfold fl. rewrite flags_l, flags_a, mask_bytes_network. unfold vv, pp. rewrite !clamp32_sat. reflexivity.
Qed.

Lemma lenN_concat16 (ss : list (list N)) : forallb addr_ok ss = true -> lenN (concat ss) = 16 * lenN ss.
Proof.
  induction ss as [|s ss IH]; [reflexivity|]. simpl forallb. rewrite andb_true_iff. intros [Hs Hss].
  apply addr_ok_len in Hs as [Hl _]. simpl concat. rewrite lenN_app, lenN_cons, Hl, IH by exact Hss. lia.
Qed.
Lemma bytes_ok_concat_addrs (ss : list (list N)) : forallb addr_ok ss = true -> bytes_ok (concat ss) = true.
Proof.
  intros H. apply bytes_ok_concat. rewrite forallb_forall in *. intros x Hx.
  specialize (H x Hx). apply addr_ok_len in H. tauto.
Qed.

Lemma enc_as_rdnss lt ss : wf_opt (ORdnss lt ss) -> enc_as (ORdnss lt ss) (spec_of (ORdnss lt ss)).
Proof.
  intros (Hne & Hok & Hn). right.
  set (ll := clamp 32 (as_secs lt)).
  assert (Hll : ll < 4294967296) by (unfold ll; rewrite clamp32_sat; pose proof (sat_le 4294967295 (as_secs lt)); lia).
  assert (Hn1 : 1 <= lenN ss) by (destruct ss; [congruence|rewrite lenN_cons; lia]).
  exists 25, (1 + 2 * lenN ss), (0 :: 0 :: be32 ll ++ concat ss). eexists.
  assert (Hd6 : forall X : list N, dropN 6 (0 :: 0 :: be32 ll ++ X) = X) by reflexivity.
  assert (Hd2 : forall X : list N, dropN 2 (0 :: 0 :: be32 ll ++ X) = be32 ll ++ X) by reflexivity.
  assert (Hlen : lenN (0 :: 0 :: be32 ll ++ concat ss) = (1 + 2 * lenN ss) * 8 - 2).
  { rewrite !lenN_cons, lenN_app, lenN_be32, lenN_concat16 by exact Hok. lia. }
  split; [unfold enc_opt; rewrite cast8_small by lia; reflexivity|].
  split; [reflexivity|]. split; [lia|]. split; [lia|]. split; [exact Hlen|]. split; [|split].
  - rewrite !bytes_ok_cons, bytes_ok_app, bytes_ok_be32, bytes_ok_concat_addrs by exact Hok. reflexivity.
  - reflexivity.
  - unfold rfc_opt_body.
    replace (1 + 2 * lenN ss <? 3) with false by (symmetry; apply N.ltb_ge; lia).
    replace ((1 + 2 * lenN ss) mod 2 =? 0) with false by (symmetry; apply N.eqb_neq; lia).
    simpl orb. cbv iota. rewrite Hd6, Hd2, chunks16_concat, u32_at_be32; auto.
    + unfold ll. rewrite clamp32_sat. reflexivity.
    + apply lenN_length_le. fold (lenN (0 :: 0 :: be32 ll ++ concat ss)). rewrite Hlen.
      unfold lenN. lia.
Qed.

Lemma bytes_ok_enc_labels (ls : list (list N)) :
  forallb label_ok ls = true -> bytes_ok (flat_map enc_label ls) = true.
Proof.
  induction ls as [|l ls IH]; [reflexivity|]. simpl forallb. rewrite andb_true_iff. intros [Hl Hls].
  change (flat_map enc_label (l :: ls)) with (enc_label l ++ flat_map enc_label ls).
  rewrite bytes_ok_app, IH by exact Hls. unfold enc_label. rewrite bytes_ok_cons.
  unfold label_ok in Hl. rewrite !andb_true_iff in Hl. destruct Hl as [_ Hb]. rewrite Hb.
  unfold cast. change (pow2 8) with 256. rewrite ltb_mod256. reflexivity.
Qed.
Lemma bytes_ok_enc_domains (ds : list (list N)) :
  forallb domain_ok ds = true -> bytes_ok (flat_map enc_domain ds) = true.
Proof.
  induction ds as [|d ds IH]; [reflexivity|]. simpl forallb. rewrite andb_true_iff. intros [Hd Hds].
  change (flat_map enc_domain (d :: ds)) with (enc_domain d ++ flat_map enc_domain ds).
  rewrite bytes_ok_app, IH by exact Hds. unfold enc_domain.
  rewrite bytes_ok_app, bytes_ok_enc_labels by exact Hd. reflexivity.
Qed.
Lemma enc_domains_length (ds : list (list N)) : (length ds <= length (flat_map enc_domain ds))%nat.
Proof.
  induction ds as [|d ds IH]; simpl; [lia|]. unfold enc_domain at 1. rewrite !app_length. simpl. lia.
Qed.

Lemma domain_ok_encodable (d : list N) : domain_ok d = true -> domain_encodable d = true.
Proof.
  unfold domain_ok, domain_encodable. intros H. rewrite forallb_forall in *. intros l Hl.
  specialize (H l Hl). unfold label_ok in H. unfold label_encodable. rewrite !andb_true_iff in *. tauto.
Qed.
Lemma filter_id {A} (f : A -> bool) (l : list A) : forallb f l = true -> filter f l = l.
Proof.
  induction l as [|a l IH]; [reflexivity|]. simpl. rewrite andb_true_iff. intros [Ha Hl].
  rewrite Ha, IH by exact Hl. reflexivity.
Qed.
Lemma filter_encodable_id (ds : list (list N)) : forallb domain_ok ds = true -> filter domain_encodable ds = ds.
Proof.
  intros H. apply filter_id. rewrite forallb_forall in *. intros d Hd. apply domain_ok_encodable, H, Hd.
Qed.

Lemma enc_as_dnssl lt ds : wf_opt (ODnssl lt ds) -> enc_as (ODnssl lt ds) (spec_of (ODnssl lt ds)).
Proof.
  intros (Hne & Hok & Hfit).
  pose proof (filter_encodable_id ds Hok) as Hfid.
  assert (Hfid2 : filter name_ok ds = ds) by exact Hfid.
  unfold enc_as, spec_of, enc_opt. cbv zeta. rewrite Hfid, Hfid2.
  destruct ds as [|d0 ds0] eqn:Eds; [congruence|]. simpl is_nil. cbv iota. rewrite <- Eds in *. clear Eds.
  right.
  set (ll := clamp 32 (as_secs lt)).
  assert (Hll : ll < 4294967296) by (unfold ll; rewrite clamp32_sat; pose proof (sat_le 4294967295 (as_secs lt)); lia).
  set (raw := flat_map enc_domain ds).
  set (b := enc_domains ds).
  assert (Hb : b = raw ++ repeatN 0 (pad8 (lenN raw))) by reflexivity.
  assert (Hraw1 : 1 <= lenN raw).
  { pose proof (enc_domains_length ds). fold raw in H. destruct ds; [congruence|]. unfold lenN. simpl in H. lia. }
  assert (Hraw2 : lenN raw <= 2032) by (apply N.leb_le; exact Hfit).
  assert (Hbl : lenN b = lenN raw + pad8 (lenN raw)) by (rewrite Hb, lenN_app, lenN_repeatN; reflexivity).
  assert (Hb8 : lenN b mod 8 = 0) by (rewrite Hbl; apply pad8_spec).
  assert (Hb2 : 8 <= lenN b <= 2032) by (unfold pad8 in Hbl; lia).
  exists 31, (1 + lenN b / 8), (0 :: 0 :: be32 ll ++ b). eexists.
  assert (Hd6 : forall X : list N, dropN 6 (0 :: 0 :: be32 ll ++ X) = X) by reflexivity.
  assert (Hd2 : forall X : list N, dropN 2 (0 :: 0 :: be32 ll ++ X) = be32 ll ++ X) by reflexivity.
  assert (Hlen : lenN (0 :: 0 :: be32 ll ++ b) = (1 + lenN b / 8) * 8 - 2).
  { rewrite !lenN_cons, lenN_app, lenN_be32. lia. }
  split; [unfold enc_opt; cbv zeta; fold b; rewrite cast8_small by lia; reflexivity|].
  split; [reflexivity|]. split; [lia|]. split; [lia|]. split; [exact Hlen|]. split; [|split].
  - rewrite !bytes_ok_cons, bytes_ok_app, bytes_ok_be32, Hb, bytes_ok_app, bytes_ok_repeat0.
    unfold raw. rewrite bytes_ok_enc_domains by exact Hok. reflexivity.
  - reflexivity.
  - unfold rfc_opt_body.
    replace (1 + lenN b / 8 <? 2) with false by (symmetry; apply N.ltb_ge; lia).
    assert (HD : forall f, (length ds < f)%nat -> dnssl_names f b = Some (map (split_on 46) ds)).
    { intros f Hf. rewrite Hb. unfold raw. apply dnssl_names_enc; auto. }
    cbv iota. rewrite Hd6, Hd2, u32_at_be32 by exact Hll.
    rewrite HD.
    + destruct ds; [congruence|]. unfold ll. rewrite clamp32_sat. reflexivity.
    + pose proof (enc_domains_length ds) as HL. fold raw in HL.
      assert (lenN raw <= lenN (0 :: 0 :: be32 ll ++ b)) by (rewrite !lenN_cons, lenN_app, lenN_be32; lia).
      unfold lenN in H. lia.
Qed.

Lemma firstn12_len (a : list N) : lenN a = 16 -> lenN (takeN 12 a) = 12.
Proof. unfold lenN, takeN. intros H. rewrite firstn_length. lia. Qed.

Lemma enc_as_pref64 lt len addr : wf_opt (OPref64 lt len addr) -> enc_as (OPref64 lt len addr) (spec_of (OPref64 lt len addr)).
Proof.
  intros Haddr. simpl in Haddr. apply addr_ok_len in Haddr as [Hal Hab].
  unfold spec_of. destruct (nat64_len_ok len) eqn:Hlen.
  - right. destruct (plc_of_len_ok len Hlen) as (plc & Hplc & Hp6).
    set (x := N.min (div_ceil (as_secs lt) 8) 8191).
    set (w := x * 8 + plc).
    assert (Hw : w < 65536) by (unfold w, x; lia).
    set (pfx := takeN 12 (mask_bytes len addr)).
    exists 38, 2, (be16 w ++ pfx). eexists.
    assert (Hd2 : forall X : list N, dropN 2 (be16 w ++ X) = X) by reflexivity.
    assert (Hwm : w mod 8 = plc) by (unfold w; lia).
    split; [unfold enc_opt; rewrite Hplc; reflexivity|].
    split; [reflexivity|]. split; [lia|]. split; [lia|]. split; [|split; [|split]].
    + rewrite lenN_app, lenN_be16. unfold pfx. rewrite firstn12_len; [reflexivity|].
      rewrite mask_bytes_network. unfold lenN. rewrite network_length. exact Hal.
    + rewrite bytes_ok_app, bytes_ok_be16. unfold pfx, takeN. rewrite bytes_ok_firstn; [reflexivity|].
      rewrite mask_bytes_network. apply network_bytes_ok, Hab.
    + unfold reserved_body. rewrite u16_at_be16, Hwm, (plc_table_agrees _ _ Hplc), Hd2 by exact Hw.
      unfold pfx, takeN. apply tail_zero_firstn. rewrite mask_bytes_network. apply network_tail_zero.
    + unfold rfc_opt_body. simpl (negb (2 =? 2)). cbv iota zeta.
      rewrite u16_at_be16, Hwm, (plc_table_agrees _ _ Hplc), Hd2 by exact Hw.
      unfold pfx. rewrite mask_bytes_network.
      replace (w / 8 * 8) with (pref64_lifetime (d_secs lt)); [reflexivity|].
      unfold pref64_lifetime, sat, w, x, div_ceil, as_secs.
      destruct (N.leb_spec ((d_secs lt + 7) / 8 * 8) 65528); lia.
  - left. split; [|reflexivity]. unfold enc_opt. rewrite plc_of_len_none by exact Hlen. reflexivity.
Qed.

Lemma url_ok_spec (u : list N) : url_ok u = true ->
  forallb (fun x => (1 <=? x) && (x <? 256)) u = true /\ lenN u <= 2030 /\ bytes_ok u = true.
Proof.
  unfold url_ok. rewrite andb_true_iff, N.leb_le. intros [H1 H2]. repeat split; auto.
  unfold bytes_ok, byte_ok. rewrite forallb_forall in *. intros x Hx. specialize (H1 x Hx).
  apply andb_true_iff in H1. tauto.
Qed.

Lemma enc_as_captive u : wf_opt (OCaptive u) -> enc_as (OCaptive u) (spec_of (OCaptive u)).
Proof.
  intros H. simpl in H. apply url_ok_spec in H as (Hnz & Hlen & Hb). right.
  set (b := enc_url u).
  assert (Hbl : lenN b = lenN u + pad8 (lenN u + 2)) by (unfold b, enc_url; rewrite lenN_app, lenN_repeatN; reflexivity).
  assert (Hb8 : (lenN b + 2) mod 8 = 0).
  { rewrite Hbl. replace (lenN u + pad8 (lenN u + 2) + 2) with ((lenN u + 2) + pad8 (lenN u + 2)) by lia. apply pad8_spec. }
  assert (Hb2 : lenN b <= 2038) by (unfold pad8 in Hbl; lia).
  exists 37, (1 + lenN b / 8), b. eexists.
  split; [unfold enc_opt; cbv zeta; fold b; rewrite cast8_small by lia; reflexivity|].
  split; [reflexivity|]. split; [lia|]. split; [lia|]. split; [lia|]. split; [|split].
  - unfold b, enc_url. rewrite bytes_ok_app, Hb, bytes_ok_repeat0. reflexivity.
  - reflexivity.
  - unfold rfc_opt_body. cbv iota. unfold b, enc_url. rewrite strip_trailing_zeros_pad by exact Hnz. reflexivity.
Qed.

Lemma enc_as_spec (o : ndopt) : wf_opt o -> enc_as o (spec_of o).
Proof.
  destruct o.
  - apply enc_as_sll.
  - apply enc_as_mtu.
  - apply enc_as_prefix.
  - apply enc_as_rdnss.
  - apply enc_as_dnssl.
  - apply enc_as_pref64.
  - apply enc_as_captive.
Qed.

(* ---- the option area ------------------------------------------------------ *)
Lemma rfc_options_step k ty len body rest :
  len <> 0 -> lenN body = len * 8 - 2 -> reserved_body ty body = true ->
  rfc_options (S k) (ty :: len :: body ++ rest) =
  match rfc_opt_body ty len body, rfc_options k rest with
  | Some (Some o), Some os => Some (o :: os)
  | Some None, Some os => Some os
  | _, _ => None
  end.
Proof.
  intros Hl Hb Hr. cbn [rfc_options].
  replace (len =? 0) with false by (symmetry; apply N.eqb_neq, Hl).
  rewrite lenN_app, Hb.
  replace (len * 8 - 2 + lenN rest <? len * 8 - 2) with false by (symmetry; apply N.ltb_ge; lia).
  rewrite (takeN_app_exact _ body rest Hb), (dropN_app_exact _ body rest Hb), Hr. reflexivity.
Qed.

Lemma decode_options (os : list ndopt) : Forall wf_opt os -> forall k,
  (length (flat_map enc_opt os) <= k)%nat ->
  rfc_options k (flat_map enc_opt os) = Some (flat_map spec_of os).
Proof.
  induction 1 as [|o os Ho Hos IH]; intros k Hk.
  - destruct k; reflexivity.
  - change (flat_map enc_opt (o :: os)) with (enc_opt o ++ flat_map enc_opt os) in *.
    change (flat_map spec_of (o :: os)) with (spec_of o ++ flat_map spec_of os).
    destruct (enc_as_spec o Ho) as [[E S]|(ty & len & body & x & E & S & Hty & Hlen & Hbl & Hbok & Hres & Hdec)].
    + rewrite E, S in *. apply IH, Hk.
    + rewrite E, S in *. rewrite <- !app_comm_cons in *.
      destruct k as [|k]; [simpl in Hk; lia|].
      rewrite rfc_options_step by (auto; lia). rewrite Hdec, IH; [reflexivity|].
      simpl in Hk. rewrite app_length in Hk. lia.
Qed.

Lemma enc_options_bytes (os : list ndopt) : Forall wf_opt os ->
  bytes_ok (flat_map enc_opt os) = true /\ lenN (flat_map enc_opt os) mod 8 = 0.
Proof.
  induction 1 as [|o os Ho Hos [IH1 IH2]]; [split; reflexivity|].
  change (flat_map enc_opt (o :: os)) with (enc_opt o ++ flat_map enc_opt os).
  rewrite bytes_ok_app, lenN_app, IH1.
  destruct (enc_as_spec o Ho) as [[E S]|(ty & len & body & x & E & S & Hty & Hlen & Hbl & Hbok & Hres & Hdec)].
  - rewrite E. split; [reflexivity|]. rewrite lenN_nil. exact IH2.
  - rewrite E, !bytes_ok_cons, Hbok, !lenN_cons, Hbl.
    replace (ty <? 256) with true by (symmetry; apply N.ltb_lt; lia).
    replace (len <? 256) with true by (symmetry; apply N.ltb_lt; lia).
    split; [reflexivity|]. lia.
Qed.

Lemma enc_domains_len (ds : list (list N)) : ds <> [] -> dnssl_fits ds = true ->
  8 <= lenN (enc_domains ds) <= 2032 /\ lenN (enc_domains ds) mod 8 = 0.
Proof.
  intros Hne Hfit. unfold enc_domains. cbv zeta. set (raw := flat_map enc_domain ds).
  assert (Hraw1 : 1 <= lenN raw).
  { pose proof (enc_domains_length ds). fold raw in H. destruct ds; [congruence|]. unfold lenN. simpl in H. lia. }
  assert (Hraw2 : lenN raw <= 2032) by (apply N.leb_le; exact Hfit).
  rewrite lenN_app, lenN_repeatN. unfold pad8. lia.
Qed.

Lemma wf_no_panic (os : list ndopt) : Forall wf_opt os -> first_panic os = None.
Proof.
  induction 1 as [|o os Ho Hos IH]; [reflexivity|]. simpl first_panic.
  replace (opt_panics o) with (@None panic_kind); [exact IH|].
  destruct o; try reflexivity; unfold opt_panics; simpl in Ho.
  - destruct Ho as [Hl _]. rewrite Hl. reflexivity.
  - destruct Ho as (_ & _ & Hn). replace (1 + 2 * lenN servers <? 256) with true; [reflexivity|].
    symmetry. apply N.ltb_lt. lia.
  - destruct Ho as (Hne & Hok & Hfit). rewrite (filter_encodable_id domains Hok).
    destruct (enc_domains_len domains Hne Hfit) as [Hb _].
    rewrite cast8_small by lia.
    replace (lenN (enc_domains domains) / 8 =? 255) with false; [reflexivity|].
    symmetry. apply N.eqb_neq. lia.
Qed.

Lemma serialise_ok (a : radv) : Forall wf_opt (a_options a) -> serialise a = Ok (enc_radv a).
Proof.
  intros H. unfold serialise. rewrite wf_no_panic by exact H.
  destruct (enc_options_bytes _ H) as [_ H8].
  unfold enc_radv. rewrite lenN_app.
  replace (lenN (enc_header a)) with 16 by reflexivity.
  replace ((16 + lenN (flat_map enc_opt (a_options a))) mod 8 =? 0) with true; [reflexivity|].
  symmetry. apply N.eqb_eq. lia.
Qed.

(* ---- the whole message ------------------------------------------------------ *)
Definition header_of (a : radv) (os : list rfc_opt) : rfc_ra :=
  collect (a_hop a) (a_managed a) (a_other a)
          (sat 65535 (as_secs (a_lifetime a)))
          (sat 4294967295 (as_millis (a_reachable a)))
          (sat 4294967295 (as_millis (a_retrans a))) os.

Lemma decode_radv (a : radv) : Forall wf_opt (a_options a) -> a_hop a < 256 ->
  rfc_decode (enc_radv a) = Some (header_of a (flat_map spec_of (a_options a))).
Proof.
  intros Hwf Hhop.
  set (fl := (if a_managed a then 128 else 0) + (if a_other a then 64 else 0)).
  set (L := clamp 16 (as_secs (a_lifetime a))).
  set (R := clamp 32 (as_millis (a_reachable a))).
  set (T := clamp 32 (as_millis (a_retrans a))).
  set (opts := flat_map enc_opt (a_options a)).
  assert (HL : L < 65536) by (unfold L; rewrite clamp16_sat; pose proof (sat_le 65535 (as_secs (a_lifetime a))); lia).
  assert (HR : R < 4294967296) by (unfold R; rewrite clamp32_sat; pose proof (sat_le 4294967295 (as_millis (a_reachable a))); lia).
  assert (HT : T < 4294967296) by (unfold T; rewrite clamp32_sat; pose proof (sat_le 4294967295 (as_millis (a_retrans a))); lia).
  destruct (enc_options_bytes _ Hwf) as [Hob _]. fold opts in Hob.
  change (enc_radv a) with (134 :: 0 :: 0 :: 0 :: a_hop a :: fl :: (be16 L ++ be32 R ++ be32 T ++ opts)).
  set (r := be16 L ++ be32 R ++ be32 T ++ opts).
  assert (Hd10 : dropN 10 r = opts) by reflexivity.
  assert (Hd2 : dropN 2 r = be32 R ++ be32 T ++ opts) by reflexivity.
  assert (Hd6 : dropN 6 r = be32 T ++ opts) by reflexivity.
  assert (Hrl : lenN r = 10 + lenN opts).
  { unfold r. rewrite !lenN_app, lenN_be16, !lenN_be32. lia. }
  unfold rfc_decode.
  assert (Hbok : bytes_ok (134 :: 0 :: 0 :: 0 :: a_hop a :: fl :: r) = true).
  { rewrite !bytes_ok_cons. unfold r. rewrite !bytes_ok_app, bytes_ok_be16, !bytes_ok_be32, Hob.
    replace (a_hop a <? 256) with true by (symmetry; apply N.ltb_lt, Hhop).
    replace (fl <? 256) with true by (symmetry; apply N.ltb_lt, flags_lt). reflexivity. }
  rewrite Hbok. simpl (negb true). simpl (negb (134 =? 134)). simpl (negb (0 =? 0)).
  unfold fl at 1. rewrite flags_mod64. simpl (negb true). simpl orb.
  replace (lenN r <? 10) with false by (symmetry; apply N.ltb_ge; lia).
  rewrite Hd10, Hd2, Hd6.
  unfold opts at 1. rewrite decode_options; auto.
  - unfold r at 1. rewrite u16_at_be16, !u32_at_be32 by assumption.
    unfold fl. rewrite flags_l, flags_a. unfold header_of, L, R, T.
    rewrite clamp16_sat, !clamp32_sat. reflexivity.
  - fold opts. apply lenN_length_le. fold (lenN r). rewrite Hrl. unfold lenN. lia.
Qed.

(* ---- from the configuration to the options ---------------------------------- *)
Lemma top_rdnss_v6 (t : top) : top_rdnss t = v6_servers t.
Proof.
  unfold top_rdnss, v6_servers. induction (t_dns_servers t) as [|s l IH]; [reflexivity|].
  simpl. destruct (fst s =? 6); simpl; rewrite IH; reflexivity.
Qed.
Lemma list_eqb_repeat0 (a : list N) : forall n,
  list_eqb N.eqb a (repeat 0 n) = (length a =? n)%nat && forallb (fun x => x =? 0) a.
Proof.
  induction a as [|x a IH]; intros [|n]; simpl; try reflexivity.
  rewrite IH. destruct (x =? 0); simpl; [reflexivity|]. rewrite andb_false_r. reflexivity.
Qed.
Lemma subst_self6_eq (self6 a : list N) : addr_ok a = true -> subst_self6 self6 a = self6_subst self6 a.
Proof.
  intros H. apply addr_ok_len in H as [Hl _]. unfold subst_self6, self6_subst, is_unspecified, bytes_eqb, unspecified6, repeatN.
  rewrite list_eqb_repeat0. replace (length a =? N.to_nat 16)%nat with true; [reflexivity|].
  symmetry. apply Nat.eqb_eq. unfold lenN in Hl. lia.
Qed.
Lemma subst_self6_ok (self6 a : list N) : addr_ok self6 = true -> addr_ok a = true -> addr_ok (subst_self6 self6 a) = true.
Proof. intros H1 H2. unfold subst_self6. destruct (is_unspecified a); assumption. Qed.

Lemma cv_unwrap_tri {A} (c : cv A) (d : A) : cv_unwrap_or c d = tri c (Some d).
Proof. destruct c; reflexivity. Qed.
Lemma cv_or_tri {A} (c : cv A) (d : option A) : cv_or c d = tri c d.
Proof. destruct c; reflexivity. Qed.
Lemma cv_always_tri {A} (c : cv A) (d : A) : cv_always_unwrap_or c d = tri_or c d.
Proof. destruct c; reflexivity. Qed.

(* the options [expected] speaks of, as a list in the encoder's order *)
Definition exp_opts (t : top) (i : intf) (e : env) : list rfc_opt :=
  (match e_ll e with Some a => [RSll a] | None => [] end)
  ++ (match e_mtu e with Some m => [RMtu m] | None => [] end)
  ++ map (fun p => RPrefix (exp_prefix p)) (i_prefixes i)
  ++ (match tri (i_rdnss i) (Some (v6_servers t)) with
      | Some (s :: ss) =>
        [RRdnss (sat 4294967295 (d_secs (tri_or (i_rdnss_lifetime i) (secs 1800))))
                (map (self6_subst (e_self6 e)) (s :: ss))]
      | _ => [] end)
  ++ (match tri (i_dnssl i) (Some (t_dns_search t)) with
      | Some l =>
        match filter name_ok l with
        | d :: ds =>
          [RDnssl (sat 4294967295 (d_secs (tri_or (i_dnssl_lifetime i) (secs 1800)))) (map (split_on 46) (d :: ds))]
        | [] => []
        end
      | None => [] end)
  ++ (match i_pref64 i with
      | Some p =>
        if nat64_len_ok (n_len p)
        then [RPref64 (pref64_lifetime (d_secs (n_lifetime p))) (n_len p) (takeN 12 (network (n_len p) (n_prefix p)))]
        else []
      | None => [] end)
  ++ (match tri (i_captive i) (t_captive t) with Some u => [RCaptive u] | None => [] end).

Lemma filter_length_le' {A} (f : A -> bool) (l : list A) : (length (filter f l) <= length l)%nat.
Proof. induction l; simpl; [lia|]. destruct (f a); simpl; lia. Qed.
Lemma wf_top_rdnss (t : top) : wf_top t = true ->
  forallb addr_ok (v6_servers t) = true /\ lenN (v6_servers t) <= 127.
Proof.
  unfold wf_top. rewrite !andb_true_iff. intros ((((H1 & H2) & _) & _) & _). apply N.leb_le in H2.
  unfold v6_servers. split.
  - clear H2. induction (t_dns_servers t) as [|s l IH]; [reflexivity|].
    simpl in H1. apply andb_true_iff in H1 as [Hs Hl]. simpl filter.
    destruct (fst s =? 6) eqn:E; simpl in *; [rewrite Hs, IH by exact Hl; reflexivity|apply IH, Hl].
  - unfold lenN in *. rewrite map_length.
    pose proof (filter_length_le' (fun s => fst s =? 6) (t_dns_servers t)). lia.
Qed.

Lemma build_wf (t : top) (i : intf) (e : env) : wf_cfg t i e = true -> Forall wf_opt (build_options t i e).
Proof.
  unfold wf_cfg. rewrite !andb_true_iff. intros [[Ht Hi] He].
  pose proof (wf_top_rdnss t Ht) as [Hr1 Hr2].
  unfold wf_top in Ht. rewrite !andb_true_iff in Ht. destruct Ht as ((((_ & _) & Hts) & Htf) & Htc).
  unfold wf_intf in Hi. rewrite !andb_true_iff in Hi. destruct Hi as (((((Hhop & Hps) & Hrd) & Hds) & Hcp) & Hn64).
  unfold wf_env in He. rewrite !andb_true_iff in He. destruct He as ((Hll & Hmtu) & Hself).
  unfold build_options.
  apply Forall_app; split; [|apply Forall_app; split; [|apply Forall_app; split; [|apply Forall_app; split; [|apply Forall_app; split; [|apply Forall_app; split]]]]].
  - destruct (e_ll e) as [a|]; [|constructor]. simpl in Hll. apply andb_true_iff in Hll as [H1 H2].
    constructor; [|constructor]. split; [apply N.eqb_eq, H1|exact H2].
  - destruct (e_mtu e) as [m|]; [|constructor]. simpl in Hmtu. constructor; [|constructor]. apply N.ltb_lt, Hmtu.
  - apply Forall_forall. intros o Ho. apply in_map_iff in Ho as (p & <- & Hp).
    rewrite forallb_forall in Hps. specialize (Hps p Hp). unfold prefix_ok in Hps.
    apply andb_true_iff in Hps as [H1 H2]. split; [apply N.leb_le, H2|exact H1].
  - rewrite top_rdnss_v6.
    assert (Hv : forall v, forallb addr_ok v = true -> lenN v <= 127 ->
                 Forall wf_opt (let v0 := map (subst_self6 (e_self6 e)) v in
                                if is_nil v0 then [] else [ORdnss (cv_always_unwrap_or (i_rdnss_lifetime i) default_dns_lifetime) v0])).
    { intros v Hv1 Hv2. cbv zeta. destruct v as [|s ss]; [constructor|]. simpl is_nil. cbv iota.
      constructor; [|constructor]. split; [discriminate|]. split.
      - rewrite forallb_forall in *. intros x Hx. apply in_map_iff in Hx as (y & <- & Hy).
        apply subst_self6_ok; auto.
      - unfold lenN in *. rewrite map_length. exact Hv2. }
    destruct (i_rdnss i) as [| |l]; simpl cv_unwrap_or.
    + apply Hv; assumption.
    + constructor.
    + simpl in Hrd. apply andb_true_iff in Hrd as [H1 H2]. apply Hv; [exact H1|apply N.leb_le, H2].
  - assert (Hv : forall v, forallb domain_ok v = true -> dnssl_fits v = true ->
                 Forall wf_opt (if is_nil v then [] else [ODnssl (cv_always_unwrap_or (i_dnssl_lifetime i) default_dns_lifetime) v])).
    { intros v Hv1 Hv2. destruct v as [|d ds]; [constructor|]. simpl is_nil. cbv iota.
      constructor; [|constructor]. split; [discriminate|]. split; assumption. }
    destruct (i_dnssl i) as [| |l]; simpl cv_unwrap_or.
    + apply Hv; assumption.
    + constructor.
    + simpl in Hds. apply andb_true_iff in Hds as [H1 H2]. apply Hv; assumption.
  - destruct (i_pref64 i) as [p|]; [|constructor]. simpl in Hn64. constructor; [|constructor]. exact Hn64.
  - destruct (i_captive i) as [| |u]; simpl cv_or.
    + destruct (t_captive t) as [u|]; [|constructor]. simpl in Htc. constructor; [|constructor]. exact Htc.
    + constructor.
    + simpl in Hcp. constructor; [|constructor]. exact Hcp.
Qed.

Lemma build_spec (t : top) (i : intf) (e : env) : wf_cfg t i e = true ->
  flat_map spec_of (build_options t i e) = exp_opts t i e.
Proof.
  unfold wf_cfg. rewrite !andb_true_iff. intros [[Ht Hi] He].
  pose proof (wf_top_rdnss t Ht) as [Hr1 _].
  unfold wf_intf in Hi. rewrite !andb_true_iff in Hi. destruct Hi as (((((_ & _) & Hrd) & _) & _) & _).
  unfold build_options, exp_opts. rewrite !flat_map_app.
  f_equal; [destruct (e_ll e); reflexivity|].
  f_equal; [destruct (e_mtu e); reflexivity|].
  f_equal; [induction (i_prefixes i) as [|p ps IH]; [reflexivity|]; simpl; rewrite IH; reflexivity|].
  f_equal.
  { rewrite cv_unwrap_tri, top_rdnss_v6, cv_always_tri.
    assert (Hok : forall v, tri (i_rdnss i) (Some (v6_servers t)) = Some v -> forallb addr_ok v = true).
    { destruct (i_rdnss i) as [| |l]; simpl; intros v Hv; inversion Hv; subst; auto.
      simpl in Hrd. apply andb_true_iff in Hrd. tauto. }
    destruct (tri (i_rdnss i) (Some (v6_servers t))) as [[|s ss]|]; try reflexivity.
    cbv zeta. simpl is_nil. cbv iota. simpl flat_map. unfold default_dns_lifetime.
    f_equal. f_equal. change (map (subst_self6 (e_self6 e)) (s :: ss) = map (self6_subst (e_self6 e)) (s :: ss)). apply map_ext_in. intros a Ha. apply subst_self6_eq.
    specialize (Hok _ eq_refl). rewrite forallb_forall in Hok. apply Hok, Ha. }
  f_equal.
  { rewrite cv_unwrap_tri, cv_always_tri.
    destruct (tri (i_dnssl i) (Some (t_dns_search t))) as [[|d ds]|]; try reflexivity.
    simpl is_nil. cbv iota. change (flat_map spec_of [?x]) with (spec_of x ++ []).
    unfold default_dns_lifetime. simpl flat_map. rewrite app_nil_r. reflexivity. }
  f_equal.
  { destruct (i_pref64 i) as [p|]; [|reflexivity]. simpl flat_map. rewrite app_nil_r. reflexivity. }
  rewrite cv_or_tri. destruct (tri (i_captive i) (t_captive t)); reflexivity.
Qed.

Lemma fm_map_nil {A B C} (F : B -> list C) (g : A -> B) (l : list A) :
  (forall x, F (g x) = []) -> flat_map F (map g l) = [].
Proof. intros H. induction l; simpl; [reflexivity|]. rewrite H, IHl. reflexivity. Qed.
Lemma fm_map_single {A B C} (F : B -> list C) (g : A -> B) (h : A -> C) (l : list A) :
  (forall x, F (g x) = [h x]) -> flat_map F (map g l) = map h l.
Proof. intros H. induction l; simpl; [reflexivity|]. rewrite H, IHl. reflexivity. Qed.

Ltac kill_matches :=
  repeat match goal with
         | |- context [match ?x with _ => _ end] => destruct x
         end; simpl; rewrite ?app_nil_r; reflexivity.

Lemma collect_exp (t : top) (i : intf) (e : env) :
  header_of (build t i e) (exp_opts t i e) = expected t i e.
Proof.
  unfold header_of, collect, expected, exp_opts, build. simpl a_hop. simpl a_managed. simpl a_other.
  simpl a_lifetime. simpl a_reachable. simpl a_retrans. rewrite cv_always_tri. unfold as_secs.
  f_equal; rewrite !flat_map_app;
    try (rewrite (fm_map_nil _ (fun p => RPrefix (exp_prefix p))) by reflexivity);
    try (rewrite (fm_map_single _ (fun p => RPrefix (exp_prefix p)) exp_prefix) by reflexivity).
  all: kill_matches.
Qed.

(* ---- the theorems of property C17 ------------------------------------------- *)
Lemma wf_hop (t : top) (i : intf) (e : env) : wf_cfg t i e = true -> i_hoplimit i < 256.
Proof.
  unfold wf_cfg, wf_intf. rewrite !andb_true_iff. intros [[_ (((((H & _) & _) & _) & _) & _)] _].
  apply N.ltb_lt, H.
Qed.

Lemma decodes_to_config (t : top) (i : intf) (e : env) : wf_cfg t i e = true ->
  exists b, serialise (build t i e) = Ok b /\ rfc_decode b = Some (expected t i e).
Proof.
  intros H. exists (enc_radv (build t i e)). pose proof (build_wf t i e H) as Hw.
  split; [apply serialise_ok; exact Hw|].
  rewrite decode_radv; [|exact Hw|exact (wf_hop t i e H)].
  change (a_options (build t i e)) with (build_options t i e).
  rewrite build_spec by exact H. rewrite collect_exp. reflexivity.
Qed.

(* a message the decoder accepts has well-formed lengths and zero reserved fields *)
Lemma options_tile_of_decode : forall k b os, rfc_options k b = Some os -> options_tile k b = true.
Proof.
  induction k; intros b os H.
  - destruct b; [reflexivity|discriminate].
  - destruct b as [|ty [|len r]]; [reflexivity|discriminate|].
    cbn [rfc_options] in H. cbn [options_tile].
    destruct (len =? 0); [discriminate|].
    destruct (lenN r <? len * 8 - 2) eqn:E; [discriminate|].
    destruct (reserved_body ty (takeN (len * 8 - 2) r)); [|discriminate]. simpl in H.
    destruct (rfc_options k (dropN (len * 8 - 2) r)) eqn:E2.
    + rewrite (IHk _ _ E2). apply N.ltb_ge in E. replace (len * 8 - 2 <=? lenN r) with true; [reflexivity|].
      symmetry. apply N.leb_le, E.
    + destruct (rfc_opt_body ty len (takeN (len * 8 - 2) r)) as [[o|]|]; discriminate.
Qed.
Lemma reserved_of_decode : forall k b os, rfc_options k b = Some os -> reserved_opts k b = true.
Proof.
  induction k; intros b os H; [reflexivity|].
  destruct b as [|ty [|len r]]; [reflexivity|reflexivity|].
  cbn [rfc_options] in H. cbn [reserved_opts].
  destruct (len =? 0); [discriminate|].
  destruct (lenN r <? len * 8 - 2) eqn:E; [discriminate|].
  destruct (reserved_body ty (takeN (len * 8 - 2) r)); [|discriminate]. simpl in H.
  destruct (rfc_options k (dropN (len * 8 - 2) r)) eqn:E2.
  - rewrite (IHk _ _ E2). reflexivity.
  - destruct (rfc_opt_body ty len (takeN (len * 8 - 2) r)) as [[o|]|]; discriminate.
Qed.

Lemma lengths_reserved_enc (a : radv) : Forall wf_opt (a_options a) ->
  lengths_ok (enc_radv a) = true /\ reserved_zero (enc_radv a) = true.
Proof.
  intros Hwf.
  set (fl := (if a_managed a then 128 else 0) + (if a_other a then 64 else 0)).
  set (L := clamp 16 (as_secs (a_lifetime a))).
  set (R := clamp 32 (as_millis (a_reachable a))).
  set (T := clamp 32 (as_millis (a_retrans a))).
  set (opts := flat_map enc_opt (a_options a)).
  destruct (enc_options_bytes _ Hwf) as [_ H8]. fold opts in H8.
  change (enc_radv a) with (134 :: 0 :: 0 :: 0 :: a_hop a :: fl :: (be16 L ++ be32 R ++ be32 T ++ opts)).
  set (r := be16 L ++ be32 R ++ be32 T ++ opts).
  assert (Hd10 : dropN 10 r = opts) by reflexivity.
  assert (Hd16 : dropN 16 (134 :: 0 :: 0 :: 0 :: a_hop a :: fl :: r) = opts) by reflexivity.
  assert (Hrl : lenN r = 10 + lenN opts).
  { unfold r. rewrite !lenN_app, lenN_be16, !lenN_be32. lia. }
  assert (Hdec : forall k, (length opts <= k)%nat -> rfc_options k opts = Some (flat_map spec_of (a_options a)))
    by (intros k Hk; apply decode_options; assumption).
  set (msg := 134 :: 0 :: 0 :: 0 :: a_hop a :: fl :: r) in *.
  assert (Hml : lenN msg = 16 + lenN opts) by (unfold msg; rewrite !lenN_cons, Hrl; lia).
  assert (Hk : (length opts <= length msg)%nat) by (unfold lenN in Hml; lia).
  assert (Hk2 : (length opts <= length r)%nat) by (unfold lenN in Hrl; lia).
  split.
  - unfold lengths_ok. rewrite Hd16, Hml.
    replace ((16 + lenN opts) mod 8 =? 0) with true by (symmetry; apply N.eqb_eq; lia).
    replace (16 <=? 16 + lenN opts) with true by (symmetry; apply N.leb_le; lia).
    rewrite !andb_true_l. generalize dependent (length msg). intros k Hk. eapply options_tile_of_decode, Hdec, Hk.
  - unfold reserved_zero, msg. unfold fl at 1. rewrite flags_mod64, Hd10. rewrite !andb_true_l.
    generalize dependent (length r). intros k Hk2. eapply reserved_of_decode, Hdec, Hk2.
Qed.

Lemma lengths_thm (t : top) (i : intf) (e : env) (b : list N) : wf_cfg t i e = true ->
  serialise (build t i e) = Ok b -> lengths_ok b = true.
Proof.
  intros H Hs. pose proof (build_wf t i e H) as Hw.
  rewrite (serialise_ok (build t i e) Hw) in Hs. inversion Hs; subst.
  apply lengths_reserved_enc, Hw.
Qed.
Lemma reserved_thm (t : top) (i : intf) (e : env) (b : list N) : wf_cfg t i e = true ->
  serialise (build t i e) = Ok b -> reserved_zero b = true.
Proof.
  intros H Hs. pose proof (build_wf t i e H) as Hw.
  rewrite (serialise_ok (build t i e) Hw) in Hs. inversion Hs; subst.
  apply lengths_reserved_enc, Hw.
Qed.

Lemma sat_min (m v : N) : sat m v = N.min v m.
Proof. unfold sat. destruct (N.leb_spec v m); lia. Qed.

Lemma clamped_thm (t : top) (i : intf) (e : env) (b : list N) (x : rfc_ra) : wf_cfg t i e = true ->
  serialise (build t i e) = Ok b -> rfc_decode b = Some x ->
  r_lifetime x = N.min (d_secs (tri_or (i_lifetime i) (e_lifetime e))) 65535 /\
  r_reachable x = N.min (as_millis (i_reachable i)) 4294967295 /\
  r_retrans x = N.min (as_millis (i_retrans i)) 4294967295 /\
  map rp_valid (r_prefixes x) = map (fun p => N.min (d_secs (p_valid p)) 4294967295) (i_prefixes i) /\
  map rp_preferred (r_prefixes x) = map (fun p => N.min (d_secs (p_preferred p)) 4294967295) (i_prefixes i) /\
  (forall l s, In (l, s) (r_rdnss x) -> l = N.min (d_secs (tri_or (i_rdnss_lifetime i) (secs 1800))) 4294967295) /\
  (forall l d, In (l, d) (r_dnssl x) -> l = N.min (d_secs (tri_or (i_dnssl_lifetime i) (secs 1800))) 4294967295) /\
  (forall l n p, In (l, n, p) (r_pref64 x) ->
     exists p64, i_pref64 i = Some p64 /\ l = N.min ((d_secs (n_lifetime p64) + 7) / 8 * 8) 65528).
Proof.
  intros H Hs Hd. destruct (decodes_to_config t i e H) as (b' & Hs' & Hd').
  rewrite Hs in Hs'. inversion Hs'; subst b'. rewrite Hd in Hd'. inversion Hd'; subst x. clear Hd' Hs'.
  unfold expected. simpl. rewrite !sat_min. repeat split.
  - rewrite map_map. apply map_ext. intros p. simpl. apply sat_min.
  - rewrite map_map. apply map_ext. intros p. simpl. apply sat_min.
  - intros l s. destruct (tri (i_rdnss i) (Some (v6_servers t))) as [[|a l0]|]; simpl; try tauto.
    intros [E|[]]. inversion E. reflexivity.
  - intros l d. destruct (tri (i_dnssl i) (Some (t_dns_search t))) as [l1|]; simpl; [|tauto].
    destruct (filter name_ok l1) as [|a l0]; simpl; [tauto|].
    intros [E|[]]. inversion E. reflexivity.
  - intros l n p. destruct (i_pref64 i) as [p64|]; simpl; [|tauto].
    destruct (nat64_len_ok (n_len p64)); simpl; [|tauto].
    intros [E|[]]. inversion E. exists p64. split; [reflexivity|]. unfold pref64_lifetime. apply sat_min.
Qed.

(* Lemmas about Model/Radv.v (the encoder as coded) against Model/RfcRaDecode.v
   (the decoder written from the RFCs). *)
From Erbium Require Import Lib.Base Model.Radv Model.RfcRaDecode Model.RaExpected.

Lemma plc_table_agrees (len plc : N) : plc_of_len len = Some plc -> plc_len plc = Some len.
Proof.
  unfold plc_of_len.
  destruct (N.eqb_spec len 96) as [->|_]; [intros H; inversion H; reflexivity|].
  destruct (N.eqb_spec len 64) as [->|_]; [intros H; inversion H; reflexivity|].
  destruct (N.eqb_spec len 56) as [->|_]; [intros H; inversion H; reflexivity|].
  destruct (N.eqb_spec len 48) as [->|_]; [intros H; inversion H; reflexivity|].
  destruct (N.eqb_spec len 40) as [->|_]; [intros H; inversion H; reflexivity|].
  destruct (N.eqb_spec len 32) as [->|_]; [intros H; inversion H; reflexivity|].
  discriminate.
Qed.

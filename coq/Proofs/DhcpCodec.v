From Erbium Require Import Lib.Base Model.DhcpCodec Proofs.Bits.

Lemma broadcast_flag_is_bit15 (f : N) : broadcast_flag f = N.testbit f 15.
Proof.
  unfold broadcast_flag, BROADCAST_MASK.
  change 32768 with (2 ^ 15). rewrite land_pow2_eq0. apply negb_involutive.
Qed.

Lemma reply_dest_spec (f y : N) :
  reply_dest f y = if N.testbit f 15 then 4294967295 else y.
Proof. unfold reply_dest. rewrite broadcast_flag_is_bit15. reflexivity. Qed.

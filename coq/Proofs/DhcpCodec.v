From Erbium Require Import Lib.Base Model.DhcpCodec Proofs.Bits.
From Coq Require Import ZifyN ZifyBool ZifyNat.
Ltac Zify.zify_post_hook ::= Z.div_mod_to_equations.

Lemma broadcast_flag_is_bit15 (f : N) : broadcast_flag f = N.testbit f 15.
Proof.
  unfold broadcast_flag, BROADCAST_MASK.
  change 32768 with (2 ^ 15). rewrite land_pow2_eq0. apply negb_involutive.
Qed.

Lemma reply_dest_spec (f y : N) :
  reply_dest f y = if N.testbit f 15 then 4294967295 else y.
Proof. unfold reply_dest. rewrite broadcast_flag_is_bit15. reflexivity. Qed.

(* ---- decode (encode m) = m -------------------------------------------- *)

Lemma lenN_app {A} (a b : list A) : lenN (a ++ b) = lenN a + lenN b.
Proof. unfold lenN. rewrite app_length. lia. Qed.

Lemma takeN_app_exact {A} (x r : list A) n : lenN x = n -> takeN n (x ++ r) = x.
Proof.
  intros <-. unfold takeN, lenN. rewrite Nat2N.id.
  rewrite firstn_app, Nat.sub_diag, firstn_all. cbn [firstn]. apply app_nil_r.
Qed.
Lemma dropN_app_exact {A} (x r : list A) n : lenN x = n -> dropN n (x ++ r) = r.
Proof.
  intros <-. unfold dropN, lenN. rewrite Nat2N.id.
  rewrite skipn_app, Nat.sub_diag, skipn_all. reflexivity.
Qed.

Lemma get_bytes_app x r n : lenN x = n -> get_bytes n (x ++ r) = Ok (x, r).
Proof.
  intro H. unfold get_bytes. rewrite lenN_app.
  destruct (n <=? lenN x + lenN r) eqn:E; [|lia].
  rewrite (takeN_app_exact x r n H), (dropN_app_exact x r n H). reflexivity.
Qed.

Lemma be32_decode v : v < 4294967296 -> be_decode (be32 v) = v.
Proof. intro H. unfold be_decode, be32. cbn [fold_left]. lia. Qed.
Lemma be16_decode' v : v < 65536 -> be_decode (be16 v) = v.
Proof. intro H. unfold be_decode, be16. cbn [fold_left]. lia. Qed.

Lemma get_be32_app v r : v < 4294967296 -> get_be 4 (be32 v ++ r) = Ok (v, r).
Proof. intro H. unfold get_be. rewrite get_bytes_app by reflexivity. cbn [obind]. now rewrite be32_decode. Qed.
Lemma get_be16_app v r : v < 65536 -> get_be 2 (be16 v ++ r) = Ok (v, r).
Proof. intro H. unfold get_be. rewrite get_bytes_app by reflexivity. cbn [obind]. now rewrite be16_decode'. Qed.

Lemma lenN_repeatN {A} (a : A) n : lenN (repeatN a n) = n.
Proof. unfold lenN, repeatN. rewrite repeat_length. lia. Qed.

Lemma fixed_short l out : lenN out <= l -> fixed l out = out ++ repeatN 0 (l - lenN out).
Proof.
  intro H. unfold fixed. f_equal. unfold takeN. apply firstn_all2. unfold lenN in H. lia.
Qed.
Lemma lenN_fixed l out : lenN out <= l -> lenN (fixed l out) = l.
Proof. intro H. rewrite fixed_short by exact H. rewrite lenN_app, lenN_repeatN. lia. Qed.

Lemma null_terminated_zeros k : null_terminated (repeat 0 k) = [].
Proof. destruct k; reflexivity. Qed.
Lemma null_terminated_pad v k : no_nul v = true -> null_terminated (v ++ repeat 0 k) = v.
Proof.
  induction v as [|b v IH]; cbn [app no_nul forallb].
  - intros _. apply null_terminated_zeros.
  - intro H. apply andb_true_iff in H. destruct H as [Hb Hv].
    cbn [null_terminated]. destruct (b =? 0) eqn:E; [discriminate|]. f_equal. apply IH. exact Hv.
Qed.

(* ---- options ---------------------------------------------------------- *)
Lemma opt_extend_twice acc c v1 v2 :
  opt_extend (opt_extend acc c v1) c v2 = opt_extend acc c (v1 ++ v2).
Proof.
  induction acc as [|[c' w] acc IH]; cbn [opt_extend].
  - rewrite N.eqb_refl. reflexivity.
  - destruct (c' =? c) eqn:E; cbn [opt_extend]; rewrite E.
    + now rewrite app_assoc.
    + now rewrite IH.
Qed.

Lemma parse_options_step f code r acc :
  code <> 0 -> code <> 255 ->
  parse_options (S f) (code :: r) acc =
  (do (len, r1) <- get_u8 r ; do (v, r2) <- get_bytes len r1 ; parse_options f r2 (opt_extend acc code v)).
Proof.
  intros H0 H255. cbn [parse_options].
  destruct (code =? 0) eqn:E0; [lia|]. destruct (code =? 255) eqn:E1; [lia|]. reflexivity.
Qed.

(* parsing the chunks of one option *)
Lemma lenN_takeN_le {A} (l : list A) n : n <= lenN l -> lenN (takeN n l) = n.
Proof. unfold lenN, takeN. intro H. rewrite firstn_length. lia. Qed.
Lemma length_dropN {A} (l : list A) n : length (dropN n l) = (length l - N.to_nat n)%nat.
Proof. unfold dropN. apply skipn_length. Qed.
Lemma take_drop {A} (l : list A) n : takeN n l ++ dropN n l = l.
Proof. apply firstn_skipn. Qed.

Lemma parse_chunks g code : code <> 0 -> code <> 255 ->
  forall v rest acc fuel,
  (length v < g)%nat ->
  (length (enc_chunks g code v ++ rest) < fuel)%nat ->
  exists fuel', (length rest < fuel')%nat /\
    parse_options fuel (enc_chunks g code v ++ rest) acc = parse_options fuel' rest (opt_extend acc code v).
Proof.
  intros H0 H255. induction g as [|f IH]; intros v rest acc fuel Hg Hfuel; [lia|].
  cbn [enc_chunks] in *. destruct (lenN v <=? 255) eqn:Hl.
  - destruct fuel as [|fuel0]; [lia|]. cbn [app] in *.
    rewrite parse_options_step by assumption.
    cbn [get_u8 obind]. rewrite get_bytes_app by reflexivity. cbn [obind].
    exists fuel0. split; [|reflexivity]. cbn [length] in Hfuel. rewrite app_length in Hfuel. lia.
  - destruct fuel as [|fuel0]; [lia|]. cbn [app] in *.
    rewrite parse_options_step by assumption.
    cbn [get_u8 obind]. rewrite <- app_assoc.
    rewrite get_bytes_app by (apply lenN_takeN_le; lia). cbn [obind].
    destruct (IH (dropN 255 v) rest (opt_extend acc code (takeN 255 v)) fuel0) as [fuel' [Hf' Heq]].
    + rewrite length_dropN. unfold lenN in Hl. lia.
    + cbn [length] in Hfuel. rewrite <- app_assoc, app_length in Hfuel. lia.
    + exists fuel'. split; [exact Hf'|]. rewrite Heq, opt_extend_twice, take_drop. reflexivity.
Qed.

Definition extend_all (os : list (N * list N)) (acc : list (N * list N)) :=
  fold_left (fun a o => opt_extend a (fst o) (snd o)) os acc.

Lemma parse_options_list os : forallb wf_option os = true ->
  forall acc fuel, (length (flat_map enc_option os ++ [255%N]) < fuel)%nat ->
  parse_options fuel (flat_map enc_option os ++ [255]) acc = Ok (extend_all os acc).
Proof.
  induction os as [|o os IH]; intros Hwf acc fuel Hfuel.
  - cbn [flat_map app] in *. destruct fuel as [|f]; [cbn in Hfuel; lia|]. reflexivity.
  - cbn [forallb] in Hwf. apply andb_true_iff in Hwf. destruct Hwf as [Ho Hos].
    unfold wf_option in Ho. apply andb_true_iff in Ho. destruct Ho as [Ho _].
    apply andb_true_iff in Ho. destruct Ho as [Hc0 Hc255].
    cbn [flat_map] in *. rewrite <- app_assoc in *.
    change (enc_option o) with (enc_chunks (S (length (snd o))) (fst o) (snd o)) in *.
    destruct (parse_chunks (S (length (snd o))) (fst o) ltac:(lia) ltac:(lia) (snd o)
                (flat_map enc_option os ++ [255]) acc fuel ltac:(lia) Hfuel) as [fuel' [Hf' Heq]].
    rewrite Heq. rewrite IH by assumption. reflexivity.
Qed.

Lemma extend_fresh acc c v : (forall o, In o acc -> fst o <> c) -> opt_extend acc c v = acc ++ [(c, v)].
Proof.
  induction acc as [|[c' w] acc IH]; intro H; cbn [opt_extend app]; [reflexivity|].
  destruct (c' =? c) eqn:E.
  - exfalso. apply (H (c', w)); [left; reflexivity|]. cbn. lia.
  - f_equal. apply IH. intros o Ho. apply H. right. exact Ho.
Qed.

Lemma extend_all_fresh os : keys_distinct os = true ->
  forall acc, (forall o o', In o acc -> In o' os -> fst o <> fst o') -> extend_all os acc = acc ++ os.
Proof.
  induction os as [|[c v] os IH]; intros Hd acc Hdisj.
  - cbn. now rewrite app_nil_r.
  - cbn [keys_distinct] in Hd. apply andb_true_iff in Hd. destruct Hd as [Hnot Hd].
    unfold extend_all. cbn [fold_left fst snd]. fold (extend_all os (opt_extend acc c v)).
    rewrite extend_fresh.
    + rewrite IH; [now rewrite <- app_assoc | exact Hd |].
      intros o o' Ho Ho'. apply in_app_or in Ho. destruct Ho as [Ho|[<-|[]]].
      * apply Hdisj; [exact Ho | right; exact Ho'].
      * cbn [fst]. intro Heq. apply negb_true_iff in Hnot.
        assert (existsb (fun o => fst o =? c) os = true); [|congruence].
        apply existsb_exists. exists o'. split; [exact Ho'|]. lia.
    + intros o Ho. apply (Hdisj o (c, v) Ho). left. reflexivity.
Qed.

Lemma parse_enc_options os fuel :
  forallb wf_option os = true -> keys_distinct os = true ->
  (length (enc_options os) < fuel)%nat ->
  parse_options fuel (enc_options os) [] = Ok os.
Proof.
  intros Hwf Hd Hf. unfold enc_options in *. rewrite parse_options_list by assumption.
  rewrite extend_all_fresh; [reflexivity | exact Hd |]. intros o o' [].
Qed.

(* ---- whole message ---------------------------------------------------- *)
Lemma decode_encode m : wf_dhcp m = true -> decode (encode m) = Ok m.
Proof.
  destruct m as [op htype hlen hops xid secs flags ci yi si gi ch sn fl os].
  unfold wf_dhcp. cbn [d_op d_htype d_hlen d_hops d_xid d_secs d_flags d_ciaddr d_yiaddr d_siaddr d_giaddr
                       d_chaddr d_sname d_file d_options].
  intro H.
  repeat (apply andb_true_iff in H; let W := fresh "W" in destruct H as [H W]).
  unfold byte_ok in *.
  unfold encode, decode.
  cbn [d_op d_htype d_hlen d_hops d_xid d_secs d_flags d_ciaddr d_yiaddr d_siaddr d_giaddr
       d_chaddr d_sname d_file d_options app get_u8 obind].
  rewrite get_be32_app by lia. cbn [obind].
  rewrite get_be16_app by lia. cbn [obind].
  rewrite get_be16_app by lia. cbn [obind].
  rewrite !get_be32_app by lia. cbn [obind].
  rewrite get_be32_app by lia. cbn [obind].
  rewrite get_be32_app by lia. cbn [obind].
  rewrite get_be32_app by lia. cbn [obind].
  rewrite (get_bytes_app (fixed 16 ch)) by (apply lenN_fixed; lia). cbn [obind].
  destruct (16 <? hlen) eqn:Eh; [lia|].
  rewrite (get_bytes_app (fixed 64 sn)) by (apply lenN_fixed; lia). cbn [obind].
  rewrite (get_bytes_app (fixed 128 fl)) by (apply lenN_fixed; lia). cbn [obind].
  change magic with (be32 1669485411). rewrite get_be32_app by lia. cbn [obind].
  rewrite N.eqb_refl. cbn [negb].
  rewrite parse_enc_options by (try assumption; lia). cbn [obind].
  f_equal. f_equal.
  - rewrite fixed_short by lia. apply takeN_app_exact. lia.
  - rewrite fixed_short by lia. unfold repeatN. apply null_terminated_pad. assumption.
  - rewrite fixed_short by lia. unfold repeatN. apply null_terminated_pad. assumption.
Qed.

(* ---- the decoder is total: it never panics, on any input ---------------- *)
Lemma np_bind {A B} (o : outcome A) (f : A -> outcome B) :
  is_panic o = false -> (forall a, is_panic (f a) = false) -> is_panic (obind o f) = false.
Proof. destruct o; cbn; auto. Qed.

Lemma np_get_u8 l : is_panic (get_u8 l) = false.
Proof. destruct l; reflexivity. Qed.
Lemma np_get_bytes n l : is_panic (get_bytes n l) = false.
Proof. unfold get_bytes. destruct (n <=? lenN l); reflexivity. Qed.
Lemma np_get_be n l : is_panic (get_be n l) = false.
Proof. unfold get_be. apply np_bind; [apply np_get_bytes|]. intros [b r]. reflexivity. Qed.

Lemma np_parse_options fuel : forall l acc, is_panic (parse_options fuel l acc) = false.
Proof.
  induction fuel as [|f IH]; intros l acc; [reflexivity|].
  cbn [parse_options]. destruct l as [|x r]; [reflexivity|].
  destruct (x =? 0); [apply IH|]. destruct (x =? 255); [reflexivity|].
  apply np_bind; [apply np_get_u8|]. intros [len r1].
  apply np_bind; [apply np_get_bytes|]. intros [v r2]. apply IH.
Qed.

Lemma decode_total b : is_panic (decode b) = false.
Proof.
  unfold decode.
  repeat (apply np_bind; [first [apply np_get_u8 | apply np_get_be | apply np_get_bytes]|]; intros [? ?]).
  destruct (16 <? _); [reflexivity|].
  repeat (apply np_bind; [first [apply np_get_u8 | apply np_get_be | apply np_get_bytes]|]; intros [? ?]).
  destruct (negb _); [reflexivity|].
  apply np_bind; [apply np_parse_options|]. intro. reflexivity.
Qed.

(* the fuel given to parse_options by decode is never exhausted: the only way
   to return Err E_EOF is a genuinely truncated option area *)
Lemma parse_options_fuel_irrelevant f1 f2 l acc :
  (length l < f1)%nat -> (length l < f2)%nat -> parse_options f1 l acc = parse_options f2 l acc.
Proof.
  revert f2 l acc. induction f1 as [|f1 IH]; intros f2 l acc H1 H2; [lia|].
  destruct f2 as [|f2]; [lia|]. cbn [parse_options].
  destruct l as [|x r]; [reflexivity|]. cbn [length] in *.
  destruct (x =? 0); [apply IH; lia|]. destruct (x =? 255); [reflexivity|].
  destruct r as [|len r1]; [reflexivity|]. cbn [get_u8 obind length] in *.
  unfold get_bytes. destruct (len <=? lenN r1) eqn:E; [|reflexivity]. cbn [obind].
  apply IH; unfold dropN; rewrite skipn_length; lia.
Qed.

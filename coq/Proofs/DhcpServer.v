(* Lemmas about the composed server step (Model/DhcpServer.v): inversion of a
   step, then the per-property results (C13 gate, C02 address set via the pool
   bridge, C10 lease time, C12 destination/frame, C01 over histories) lifted
   to it. *)
From Erbium Require Import Lib.Base Model.DhcpCodec Model.DhcpOptVal Model.DhcpPolicy Model.DhcpPolicySpec
  Model.DhcpAddrs Model.DhcpPool Model.DhcpHandler Model.Frame Model.DhcpServer.
From Erbium Require Import Proofs.DhcpPool Proofs.DhcpPoolCrash Proofs.DhcpHandler Proofs.DhcpPolicy Proofs.DhcpAddrs.
From Erbium Require Proofs.DhcpCodec Proofs.Frame.

(* ---- conversions commute ---------------------------------------------------- *)
Lemma leases_upsert : forall r d,
  leases_of (DhcpPool.upsert r d) = DhcpHandler.upsert (lease_of_row r) (leases_of d).
Proof.
  intros r d. unfold leases_of, DhcpPool.upsert, DhcpHandler.upsert. simpl. f_equal.
  induction d as [|x d IH]; simpl; [reflexivity|].
  destruct (negb (r_addr x =? r_addr r)); simpl; rewrite IH; reflexivity.
Qed.

(* ---- inversion of a step ------------------------------------------------------ *)
Local Opaque too_big.

Record granted_step (cfg : scfg) (st : sstate) (t1 t2 : N) (e : env) (b : list N) (ans : answer)
                    (st' : sstate) (m r : dhcp) (ip secs : N) (k : kind) : Prop := {
  gs_decode : decode b = Ok m;
  gs_ans : ans = Granted ip secs k;
  gs_alloc : alloc_ok (fst st) (op_of cfg (walk_of cfg (request_of e m)) m) t1 t2 ans = Some (fst st');
  gs_handle : exists ldb, handle (step_in_of (snd st) e (walk_of cfg (request_of e m)) t2 (Some (ip, secs)))
                                 (leases_of (fst st)) m = (Reply r, ldb);
  gs_ids : snd st' = match serverid r with Some s => s :: snd st | None => snd st end
}.

Lemma step_frame_inv : forall cfg st t1 t2 e b ans st' f,
  server_step cfg st t1 t2 e b ans = Ok (st', Some f) ->
  exists m r ip secs k mac,
    granted_step cfg st t1 t2 e b ans st' m r ip secs k /\
    to_array (d_chaddr r) = Ok (Some mac) /\ udp4_build (frame_args e m r mac) = Ok f.
Proof.
  intros cfg st t1 t2 e b ans st' f H. unfold server_step in H.
  destruct (decode b) as [m|x|kk] eqn:D; try discriminate.
  destruct (handle (step_in_of (snd st) e (walk_of cfg (request_of e m)) t2 None) (leases_of (fst st)) m)
    as [[r0|[]] ldb0] eqn:H0; try discriminate.
  destruct (alloc_ok (fst st) (op_of cfg (walk_of cfg (request_of e m)) m) t1 t2 ans) as [d'|] eqn:A; [|discriminate].
  destruct ans as [ip secs k| | | |]; try discriminate.
  destruct (handle (step_in_of (snd st) e (walk_of cfg (request_of e m)) t2 (Some (ip, secs))) (leases_of (fst st)) m)
    as [[r|er] ldb] eqn:H1; [|discriminate].
  destruct (to_array (d_chaddr r)) as [[mac|]|x|kk] eqn:TA; try discriminate.
  destruct (too_big r) eqn:BIG; [discriminate|].
  destruct (udp4_build (frame_args e m r mac)) as [f0|x|kk] eqn:UB; simpl in H; try discriminate.
  inversion H; subst. exists m, r, ip, secs, k, mac. split; [|split; [exact TA|exact UB]].
  constructor; simpl; auto. exists ldb. exact H1.
Qed.

(* a frame is only built for a reply that fits one UDP datagram *)
Lemma frame_fits : forall cfg st t1 t2 e b ans st' f r,
  server_step cfg st t1 t2 e b ans = Ok (st', Some f) ->
  reply_of cfg st t2 e b ans = Some r -> lenN (encode r) <= 65507.
Proof.
  intros cfg st t1 t2 e b ans st' f r0 H R. unfold server_step in H. unfold reply_of in R.
  destruct (decode b) as [m|x|kk] eqn:D; try discriminate.
  destruct (handle (step_in_of (snd st) e (walk_of cfg (request_of e m)) t2 None) (leases_of (fst st)) m)
    as [[r1|[]] ldb0] eqn:H0; try discriminate.
  destruct (alloc_ok (fst st) (op_of cfg (walk_of cfg (request_of e m)) m) t1 t2 ans) as [d'|] eqn:A; [|discriminate].
  destruct ans as [ip secs k| | | |]; try discriminate.
  destruct (handle (step_in_of (snd st) e (walk_of cfg (request_of e m)) t2 (Some (ip, secs))) (leases_of (fst st)) m)
    as [[r|er] ldb] eqn:H1; [|discriminate].
  inversion R; subst r0.
  destruct (to_array (d_chaddr r)) as [[mac|]|x|kk] eqn:TA; try discriminate.
  destruct (too_big r) eqn:BIG; [discriminate|].
  Local Transparent too_big. unfold too_big, MAX_UDP4_PAYLOAD in BIG. Local Opaque too_big.
  apply N.ltb_ge in BIG. exact BIG.
Qed.

Lemma step_silent_inv : forall cfg st t1 t2 e b ans st',
  server_step cfg st t1 t2 e b ans = Ok (st', None) ->
  st' = st \/
  exists m r ip secs k, granted_step cfg st t1 t2 e b ans st' m r ip secs k /\
                        (to_array (d_chaddr r) = Ok None \/ too_big r = true).
Proof.
  intros cfg st t1 t2 e b ans st' H. unfold server_step in H.
  destruct (decode b) as [m|x|kk] eqn:D; try discriminate.
  2:{ left. inversion H. reflexivity. }
  destruct (handle (step_in_of (snd st) e (walk_of cfg (request_of e m)) t2 None) (leases_of (fst st)) m)
    as [[r0|er] ldb0] eqn:H0; [discriminate H|].
  destruct er;
    [left; inversion H; reflexivity|left; inversion H; reflexivity|left; inversion H; reflexivity
    |left; inversion H; reflexivity|left; inversion H; reflexivity|].
  destruct (alloc_ok (fst st) (op_of cfg (walk_of cfg (request_of e m)) m) t1 t2 ans) as [d'|] eqn:A; [|discriminate H].
  destruct ans as [ip secs k| | | |]; [| |simpl in A; discriminate A|simpl in A; discriminate A|discriminate H].
  - destruct (handle (step_in_of (snd st) e (walk_of cfg (request_of e m)) t2 (Some (ip, secs))) (leases_of (fst st)) m)
      as [[r|er] ldb] eqn:H1; [|discriminate].
    destruct (to_array (d_chaddr r)) as [[mac|]|x|kk] eqn:TA; try discriminate.
    + destruct (too_big r) eqn:BIG.
      * inversion H; subst. right. exists m, r, ip, secs, k. split; [|right; exact BIG].
        constructor; simpl; auto. exists ldb. exact H1.
      * destruct (udp4_build (frame_args e m r mac)) as [f0|x|kk]; simpl in H; discriminate.
    + inversion H; subst. right. exists m, r, ip, secs, k. split; [|left; exact TA].
      constructor; simpl; auto. exists ldb. exact H1.
  - (* NoAddress: the store is unchanged *)
    left. inversion H; subst. apply refused_store in A; [|congruence]. subst d'. destruct st; reflexivity.
Qed.

(* ---- S02: who gets a frame (lifts C13) ---------------------------------------- *)
Definition answerable (ids : list N) (serverip : N) (m : dhcp) : Prop :=
  msgtype m = Some 1 \/
  (msgtype m = Some 3 /\
   (serverid m = None \/ exists s, serverid m = Some s /\ (In s ids \/ s = serverip))).

Lemma frame_only_when_answerable : forall cfg st t1 t2 e b ans st' f,
  server_step cfg st t1 t2 e b ans = Ok (st', Some f) ->
  exists m, decode b = Ok m /\ answerable (snd st) (e_serverip e) m.
Proof.
  intros. destruct (step_frame_inv _ _ _ _ _ _ _ _ _ H) as [m [r [ip [secs [k [mac [G _]]]]]]].
  exists m. split. exact (gs_decode _ _ _ _ _ _ _ _ _ _ _ _ _ G).
  destruct (gs_handle _ _ _ _ _ _ _ _ _ _ _ _ _ G) as [ldb HH].
  exact (who_is_answered _ _ _ _ _ HH).
Qed.

Lemma silent_step_inert : forall cfg st t1 t2 e b ans st',
  server_step cfg st t1 t2 e b ans = Ok (st', None) ->
  st' = st \/ exists m, decode b = Ok m /\ answerable (snd st) (e_serverip e) m /\
                        (lenN (d_chaddr m) < 6 \/
                         exists r, reply_of cfg st t2 e b ans = Some r /\ MAX_UDP4_PAYLOAD < lenN (encode r)).
Proof.
  intros. destruct (step_silent_inv _ _ _ _ _ _ _ _ H) as [E|[m [r [ip [secs [k [G TA]]]]]]]; [left; exact E|].
  right. exists m. split. exact (gs_decode _ _ _ _ _ _ _ _ _ _ _ _ _ G).
  destruct (gs_handle _ _ _ _ _ _ _ _ _ _ _ _ _ G) as [ldb HH].
  split. exact (who_is_answered _ _ _ _ _ HH).
  destruct TA as [TA|BIG].
  - left. pose proof (reply_echoes _ _ _ _ _ HH) as [_ [_ [Ech _]]]. rewrite <- Ech.
    unfold to_array in TA. destruct (6 <=? lenN (d_chaddr r)) eqn:L; [discriminate|].
    apply N.leb_gt in L. exact L.
  - right. exists r. split.
    + unfold reply_of. rewrite (gs_decode _ _ _ _ _ _ _ _ _ _ _ _ _ G), (gs_ans _ _ _ _ _ _ _ _ _ _ _ _ _ G), HH. reflexivity.
    + Local Transparent too_big. unfold too_big in BIG. Local Opaque too_big. apply N.ltb_lt in BIG. exact BIG.
Qed.

(* ---- the address set does not depend on the initial option table ---------------- *)
Lemma apply_policies_addr : forall req ps resp,
  rs_addr (snd (apply_policies req ps resp)) =
  match selected req ps with Some ch => last_addr ch (rs_addr resp) | None => rs_addr resp end.
Proof.
  intros. rewrite walk_is_spec. destruct (selected req ps); simpl; [apply chain_addr|reflexivity].
Qed.

Lemma walk_addr_init : forall g req t t',
  rs_addr (snd (policy_walk g req t)) = rs_addr (snd (policy_walk g req t')).
Proof.
  intros. unfold policy_walk.
  destruct (apply_policies req [build_default g req (conf_policies g)] {| rs_opts := t; rs_addr := None |}) as [b1 r1] eqn:E1.
  destruct (apply_policies req [build_default g req (conf_policies g)] {| rs_opts := t'; rs_addr := None |}) as [b1' r1'] eqn:E1'.
  destruct (apply_policies req (conf_policies g) r1) as [b2 r2] eqn:E2.
  destruct (apply_policies req (conf_policies g) r1') as [b2' r2'] eqn:E2'.
  simpl.
  pose proof (apply_policies_addr req (conf_policies g) r1) as A. rewrite E2 in A. simpl in A.
  pose proof (apply_policies_addr req (conf_policies g) r1') as A'. rewrite E2' in A'. simpl in A'.
  pose proof (apply_policies_addr req [build_default g req (conf_policies g)] {| rs_opts := t; rs_addr := None |}) as B.
  rewrite E1 in B. simpl in B.
  pose proof (apply_policies_addr req [build_default g req (conf_policies g)] {| rs_opts := t'; rs_addr := None |}) as B'.
  rewrite E1' in B'. simpl in B'.
  rewrite A, A', B, B'. reflexivity.
Qed.

Lemma pool_list_allowed : forall cfg req x,
  In x (pool_list cfg (walk_of cfg req)) -> allowed (sc_conf cfg) req x = true.
Proof.
  intros cfg req x H. unfold pool_list, walk_of in H. unfold allowed, allowed_set.
  rewrite (walk_addr_init (sc_conf cfg) req [] (init_table req)).
  destruct (rs_addr (snd (policy_walk (sc_conf cfg) req (init_table req)))) as [f|]; [|destruct H].
  apply filter_In in H. tauto.
Qed.

(* ---- S03: what a produced reply is ------------------------------------------------ *)
Lemma opt_get_set3 : forall os a b c (va vb vc : list N),
  c <> b -> c <> a ->
  opt_get (set_opt (set_opt (set_opt os c vc) b vb) a va) c = Some vc.
Proof.
  intros. rewrite opt_get_set_other by assumption. rewrite opt_get_set_other by assumption. apply opt_get_set.
Qed.

Lemma reply_facts : forall cfg st t1 t2 e b ans st' m r ip secs k,
  granted_step cfg st t1 t2 e b ans st' m r ip secs k ->
  sc_min cfg <= sc_max cfg -> t2 + sc_max cfg < pow2 32 ->
  (* C02 via the pool bridge: the address is one the configuration allows for this request *)
  d_yiaddr r = ip /\ allowed (sc_conf cfg) (request_of e m) ip = true /\
  (* C10: the lease time is inside the bounds, option 51 carries it, the record covers it *)
  sc_min cfg <= secs <= sc_max cfg /\ opt_get (d_options r) 51 = Some (be32 secs) /\
  (exists row, find_addr ip (fst st') = Some row /\ r_client row = client_id m /\
               r_start row = t2 /\ r_expiry row = t2 + secs) /\
  (* C13: echo *)
  d_op r = 2 /\ d_xid r = d_xid m /\ d_chaddr r = d_chaddr m /\ d_htype r = d_htype m /\
  d_hlen r = d_hlen m /\ d_giaddr r = d_giaddr m /\ d_flags r = d_flags m.
Proof.
  intros cfg st t1 t2 e b ans st' m r ip secs k G Lm W.
  destruct (gs_handle _ _ _ _ _ _ _ _ _ _ _ _ _ G) as [ldb HH].
  pose proof (gs_alloc _ _ _ _ _ _ _ _ _ _ _ _ _ G) as A. rewrite (gs_ans _ _ _ _ _ _ _ _ _ _ _ _ _ G) in A.
  destruct (reply_shape _ _ _ _ _ HH) as [t [ip' [secs' [MT [AL [ER _]]]]]].
  simpl in AL. inversion AL; subst ip' secs'.
  pose proof (lease_bounds _ _ _ _ _ _ _ _ A Lm) as SB. simpl in SB.
  split. { subst r. reflexivity. }
  split. { apply pool_list_allowed. exact (granted_in_pool _ _ _ _ _ _ _ _ A). }
  split. { exact SB. }
  split. { subst r. unfold mk_reply. cbn [d_options]. rewrite opt_get_set. rewrite cast_small by lia. reflexivity. }
  split.
  { assert (W2 : t2 + secs < pow2 32) by lia.
    destruct (record_covers _ _ _ _ _ _ _ _ A W2) as [row [F [C [S E]]]].
    exists row. simpl in C. auto. }
  pose proof (reply_echoes _ _ _ _ _ HH) as [E1 [E2 [E3 [E4 [E5 [E6 [E7 _]]]]]]]. auto 10.
Qed.

(* C12: where the frame goes and what it is *)
Lemma built_frame : forall a f, udp4_build a = Ok f -> f = udp4_frame a.
Proof.
  intros a f H. unfold udp4_build in H.
  destruct (add_chk 16 8 (cast 16 (lenN (u_payload a)))) as [x|x|x]; cbn [obind] in H; try discriminate H.
  destruct (add_chk 16 20 (cast 16 (8 + lenN (u_payload a)))) as [y|y|y]; cbn [obind] in H; try discriminate H.
  inversion H. reflexivity.
Qed.

Lemma frame_facts : forall cfg st t1 t2 e b ans st' f,
  server_step cfg st t1 t2 e b ans = Ok (st', Some f) ->
  exists m r ip secs k mac,
    granted_step cfg st t1 t2 e b ans st' m r ip secs k /\
    mac = takeN 6 (d_chaddr m) /\ 6 <= lenN (d_chaddr m) /\
    f = udp4_frame (frame_args e m r mac) /\
    u_payload (frame_args e m r mac) = encode r /\
    u_dst_ip (frame_args e m r mac) =
      be32 (if N.testbit (d_flags m) 15 then 4294967295 else d_yiaddr r).
Proof.
  intros. destruct (step_frame_inv _ _ _ _ _ _ _ _ _ H) as [m [r [ip [secs [k [mac [G [TA UB]]]]]]]].
  exists m, r, ip, secs, k, mac. split; [exact G|].
  destruct (gs_handle _ _ _ _ _ _ _ _ _ _ _ _ _ G) as [ldb HH].
  pose proof (reply_echoes _ _ _ _ _ HH) as [_ [_ [Ech _]]].
  unfold to_array in TA. destruct (6 <=? lenN (d_chaddr r)) eqn:L; [|discriminate].
  inversion TA. apply N.leb_le in L. rewrite Ech in *.
  split; [reflexivity|]. split; [exact L|]. split; [apply built_frame; subst mac; exact UB|].
  split; [reflexivity|]. simpl. rewrite Proofs.DhcpCodec.reply_dest_spec. reflexivity.
Qed.

(* ---- S01: totality ---------------------------------------------------------------- *)
Definition rows_wf (d : db) : Prop := forall r, In r d -> r_start r <= r_expiry r.

Lemma build_no_panic : forall a, lenN (u_payload a) <= 65507 -> is_panic (udp4_build a) = false.
Proof.
  intros a L. unfold udp4_build.
  assert (C1 : cast 16 (lenN (u_payload a)) = lenN (u_payload a)).
  { unfold cast. change (pow2 16) with 65536. apply N.mod_small. lia. }
  assert (C2 : cast 16 (8 + lenN (u_payload a)) = 8 + lenN (u_payload a)).
  { unfold cast. change (pow2 16) with 65536. apply N.mod_small. lia. }
  rewrite C1, C2. unfold add_chk.
  assert (A : (8 + lenN (u_payload a) <? pow2 16) = true) by (apply N.ltb_lt; change (pow2 16) with 65536; lia).
  assert (B : (20 + (8 + lenN (u_payload a)) <? pow2 16) = true) by (apply N.ltb_lt; change (pow2 16) with 65536; lia).
  rewrite A. cbn [obind]. rewrite B. reflexivity.
Qed.

Lemma panicked_needs_bad_row : forall d o t1 t2 d',
  rows_wf d -> alloc_ok d o t1 t2 Panicked = Some d' -> False.
Proof.
  intros d o t1 t2 d' W H. unfold alloc_ok in H.
  destruct (none_in_pool (o_pool o) (cur_rows d o (cast 32 t1))); [|discriminate H].
  destruct (existsb _ (my_rows d o)) eqn:E; [|discriminate H].
  apply existsb_exists in E. destruct E as [r [R1 R2]]. apply andb_true_iff in R2. destruct R2 as [_ R2].
  apply N.ltb_lt in R2. apply in_my_rows in R1. destruct R1 as [R1 _]. specialize (W r R1). lia.
Qed.

Lemma step_no_panic : forall cfg st t1 t2 e b ans,
  rows_wf (fst st) ->
  is_panic (server_step cfg st t1 t2 e b ans) = false.
Proof.
  intros cfg st t1 t2 e b ans W. unfold server_step.
  pose proof (Proofs.DhcpCodec.decode_total b) as DT.
  destruct (decode b) as [m|x|kk]; [|reflexivity|discriminate DT].
  destruct (handle (step_in_of (snd st) e (walk_of cfg (request_of e m)) t2 None) (leases_of (fst st)) m)
    as [[r0|er] ldb0]; [reflexivity|].
  destruct er; [reflexivity|reflexivity|reflexivity|reflexivity|reflexivity|].
  destruct (alloc_ok (fst st) (op_of cfg (walk_of cfg (request_of e m)) m) t1 t2 ans) as [d'|] eqn:A; [|reflexivity].
  destruct ans as [ip secs k| | | |]; [|reflexivity|reflexivity|reflexivity|].
  - destruct (handle (step_in_of (snd st) e (walk_of cfg (request_of e m)) t2 (Some (ip, secs))) (leases_of (fst st)) m)
      as [[r|er] ldb]; [|reflexivity].
    unfold to_array. destruct (6 <=? lenN (d_chaddr r)); [|reflexivity].
    destruct (too_big r) eqn:BIG; [reflexivity|].
    assert (L : lenN (encode r) <= 65507).
    { Local Transparent too_big. unfold too_big, MAX_UDP4_PAYLOAD in BIG. Local Opaque too_big.
      apply N.ltb_ge in BIG. exact BIG. }
    pose proof (build_no_panic (frame_args e m r (takeN 6 (d_chaddr r))) L) as NP.
    destruct (udp4_build (frame_args e m r (takeN 6 (d_chaddr r)))) as [f0|x|kk]; [reflexivity|reflexivity|discriminate NP].
  - exfalso. exact (panicked_needs_bad_row _ _ _ _ _ W A).
Qed.

(* ---- S04: histories; the lease-store view --------------------------------------- *)
Lemma step_pool : forall cfg st ev st' fo,
  server_step cfg st (se_t1 ev) (se_t2 ev) (se_env ev) (se_bytes ev) (se_ans ev) = Ok (st', fo) ->
  match pool_event cfg st ev with
  | None => fst st' = fst st
  | Some (EAlloc o a1 a2 a, lost) =>
      alloc_ok (fst st) o a1 a2 a = Some (fst st') /\ a1 = se_t1 ev /\ a2 = se_t2 ev /\
      o_max o = sc_max cfg /\ o_min o = sc_min cfg /\
      lost = match fo with Some _ => false | None => true end
  | Some _ => False
  end.
Proof.
  intros cfg st ev st' fo H. unfold pool_event. rewrite H. unfold server_step in H.
  destruct (decode (se_bytes ev)) as [m|x|kk]; [|inversion H; reflexivity|discriminate H].
  destruct (handle (step_in_of (snd st) (se_env ev) (walk_of cfg (request_of (se_env ev) m)) (se_t2 ev) None)
                   (leases_of (fst st)) m) as [[r0|er] ldb0]; [discriminate H|].
  destruct er; [inversion H; reflexivity|inversion H; reflexivity|inversion H; reflexivity
               |inversion H; reflexivity|inversion H; reflexivity|].
  destruct (alloc_ok (fst st) (op_of cfg (walk_of cfg (request_of (se_env ev) m)) m) (se_t1 ev) (se_t2 ev) (se_ans ev))
    as [d'|] eqn:A; [|discriminate H].
  assert (S : fst st' = d').
  { destruct (se_ans ev) as [ip secs k| | | |];
      [|inversion H; reflexivity|inversion H; reflexivity|inversion H; reflexivity|discriminate H].
    destruct (handle (step_in_of (snd st) (se_env ev) (walk_of cfg (request_of (se_env ev) m)) (se_t2 ev) (Some (ip, secs)))
                     (leases_of (fst st)) m) as [[r|er] ldb]; [|discriminate H].
    destruct (to_array (d_chaddr r)) as [[mac|]|x|kk]; try discriminate H; [|inversion H; reflexivity].
    destruct (too_big r); [inversion H; reflexivity|].
    destruct (udp4_build (frame_args (se_env ev) m r mac)); cbn [obind] in H; try discriminate H.
    inversion H. reflexivity. }
  rewrite S. repeat split; destruct fo; reflexivity.
Qed.

Lemma wf_lossy_mono : forall M h now now',
  wf_lossy_from M now h = true -> now' <= now -> wf_lossy_from M now' h = true.
Proof.
  induction h as [|[e l] h IH]; intros now now' W L; [reflexivity|].
  destruct e as [o t1 t2 a|dd|]; simpl in *.
  - repeat (apply andb_true_iff in W; destruct W as [W ?]).
    apply N.leb_le in W. assert (X : (now' <=? t1) = true) by (apply N.leb_le; lia).
    rewrite X. repeat (apply andb_true_iff; split); try assumption; reflexivity.
  - apply (IH (now + dd)); [assumption|lia].
  - apply (IH now); assumption.
Qed.

Lemma server_run_pool : forall cfg M h st now st' fs log,
  sc_max cfg = M -> sc_min cfg <= sc_max cfg ->
  wf_times M now h = true ->
  server_run cfg st h = Some (st', fs) ->
  wf_lossy_from M now (pool_history cfg st h) = true /\
  exists log', run_lossy_from (fst st, log) (pool_history cfg st h) = Some (fst st', log').
Proof.
  intros cfg M h. induction h as [|ev h IH]; intros st now st' fs log EM Lm W H; simpl in *.
  - inversion H; subst. split; [reflexivity|]. exists log. reflexivity.
  - repeat (apply andb_true_iff in W; destruct W as [W ?]).
    destruct (server_step cfg st (se_t1 ev) (se_t2 ev) (se_env ev) (se_bytes ev) (se_ans ev)) as [[st1 fo]|x|kk] eqn:S;
      [|discriminate H|].
    + destruct (server_run cfg st1 h) as [[st2 fs2]|] eqn:R; [|discriminate H]. inversion H; subst st2.
      pose proof (step_pool _ _ _ _ _ S) as P.
      destruct (pool_event cfg st ev) as [[pe lost]|].
      * destruct pe as [o a1 a2 a| |]; try contradiction.
        destruct P as [A [E1 [E2 [E3 [E4 E5]]]]]. subst a1 a2.
        destruct (IH st1 (se_t2 ev) st' fs2
                     (if lost then log else match a with Granted ip secs _ => grant_of o (se_t2 ev) ip secs :: log | _ => log end)
                     EM Lm H0 R) as [W1 [log' R1]].
        split.
        -- simpl. rewrite W, H2, H1, W1. rewrite E3, E4, EM.
           assert (X : (sc_min cfg <=? M) = true) by (apply N.leb_le; lia).
           rewrite X, N.eqb_refl. reflexivity.
        -- exists log'. simpl. rewrite A. destruct lost; simpl; exact R1.
      * destruct (IH st1 (se_t2 ev) st' fs2 log EM Lm H0 R) as [W1 [log' R1]].
        simpl. split.
        -- apply (wf_lossy_mono M _ (se_t2 ev)); [exact W1|]. apply N.leb_le in W. apply N.leb_le in H2. lia.
        -- exists log'. rewrite <- P. exact R1.
    + destruct (IH st (se_t2 ev) st' fs log EM Lm H0 H) as [W1 R1]. split; [|exact R1].
      apply (wf_lossy_mono M _ (se_t2 ev)); [exact W1|]. apply N.leb_le in W. apply N.leb_le in H2. lia.
Qed.

Lemma server_no_double : forall cfg M h st now st' fs,
  sc_max cfg = M -> sc_min cfg <= sc_max cfg ->
  Inv (fst st) -> RowsOK M now (fst st) ->
  wf_times M now h = true ->
  server_run cfg st h = Some (st', fs) ->
  exists log, run_lossy_from (fst st, []) (pool_history cfg st h) = Some (fst st', log) /\
              forall a b x t, a <> b -> ~ (holds log a x t /\ holds log b x t).
Proof.
  intros cfg M h st now st' fs EM Lm I R W H.
  destruct (server_run_pool cfg M h st now st' fs [] EM Lm W H) as [WL [log RL]].
  exists log. split; [exact RL|].
  assert (LI : LInv M now (fst st) []).
  { repeat split; try assumption.
    - constructor.
    - destruct (R r H0). assumption.
    - destruct (R r H0). assumption.
    - intros c x g G. simpl in G. discriminate.
    - intros a b x t _ [[g [G _]] _]. simpl in G. discriminate. }
  destruct (run_lossy_linv M _ now (fst st) [] (fst st') log WL LI RL) as [now' [_ [_ [_ [_ N]]]]].
  exact N.
Qed.

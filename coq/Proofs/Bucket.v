(* Lemmas about Model/Bucket.v (property C16): the potential argument.
   pot z t = the tokens available at time t in a bucket whose stored timestamp
   is z <= t.  It never exceeds the capacity, a grant of n lowers it by at
   least n, and d seconds raise it by at most rate * d. *)
From Erbium Require Import Lib.Base Model.Bucket.

Lemma min_cost_fits : MIN_COST <= CAP.
Proof. vm_compute. discriminate. Qed.

Lemma rate_divides_cap : RATE * window CAP RATE = CAP.
Proof. reflexivity. Qed.

(* the reply is covered by its charge when it is small or not shorter than the query *)
Lemma cost_covers_reply : forall q r, r <= MIN_COST \/ q <= r -> r <= cost q r.
Proof. intros q r H. unfold cost. lia. Qed.

Lemma cost_at_least_min : forall q r, MIN_COST <= cost q r.
Proof. intros. unfold cost. lia. Qed.

(* [pow2 32] stays a symbol in these proofs (simpl would turn it into a numeral in some places only) *)
Opaque pow2.

Section BucketFacts.
  Variables cap rate : N.
  Hypothesis Hrate : 0 < rate.
  Let W := window cap rate.

  Definition pot (z t : N) : N := rate * (t - N.max z (t - W)).

  Lemma rate_window_le_cap : rate * W <= cap.
  Proof. unfold W, window. apply N.mul_div_le. lia. Qed.

  Lemma pot_le_cap : forall z t, pot z t <= cap.
  Proof.
    intros. unfold pot. etransitivity; [|apply rate_window_le_cap].
    apply N.mul_le_mono_l. lia.
  Qed.

  Lemma pot_time : forall z t t', t <= t' -> pot z t' <= pot z t + rate * (t' - t).
  Proof.
    intros z t t' H. unfold pot. rewrite <- N.mul_add_distr_l. apply N.mul_le_mono_l. lia.
  Qed.

  Lemma pot_full : forall z t, W <= t -> z + W <= t -> pot z t = rate * W.
  Proof. intros z t H1 H2. unfold pot. f_equal. lia. Qed.

  Lemma div_ceil_covers : forall n, n <= rate * div_ceil n rate.
  Proof.
    intro n. unfold div_ceil. pose proof (N.div_mod n rate ltac:(lia)) as E.
    pose proof (N.mod_lt n rate ltac:(lia)) as L.
    generalize dependent (n / rate). generalize dependent (n mod rate). intros m L d E.
    destruct (N.eqb_spec m 0) as [Z|NZ]; nia.
  Qed.

  Lemma div_ceil_least : forall n k, n <= rate * k -> div_ceil n rate <= k.
  Proof.
    intros n k H. unfold div_ceil. pose proof (N.div_mod n rate ltac:(lia)) as E.
    pose proof (N.mod_lt n rate ltac:(lia)) as L.
    generalize dependent (n / rate). generalize dependent (n mod rate). intros m L d E.
    destruct (N.eqb_spec m 0) as [Z|NZ]; nia.
  Qed.

  Lemma cur_tokens_ok : forall z t, W <= t -> cur_tokens cap rate z t = Ok (N.max z (t - W)).
  Proof.
    intros z t H. unfold cur_tokens, sub_chk. fold W.
    destruct (N.leb_spec W t) as [_|]; [reflexivity | lia].
  Qed.

  Lemma check_ok : forall z t n, W <= t ->
    check cap rate z t n = Ok (Z.of_N n <=? (Z.of_N t - Z.of_N (N.max z (t - W))) * Z.of_N rate)%Z.
  Proof. intros. unfold check, avail. rewrite cur_tokens_ok by assumption. reflexivity. Qed.

  Lemma deplete_ok : forall z t n, W <= t -> N.max z (t - W) + div_ceil n rate < pow2 32 ->
    deplete cap rate z t n = Ok (N.max z (t - W) + div_ceil n rate).
  Proof.
    intros z t n H L. unfold deplete. rewrite cur_tokens_ok by assumption.
    unfold obind, add_chk. destruct (N.ltb_spec (N.max z (t - W) + div_ceil n rate) (pow2 32)); [reflexivity | lia].
  Qed.

  (* one check-then-deplete step: never aborts, keeps the timestamp in the
     past, pays for what it grants out of the potential *)
  Lemma take_pot : forall z t n, W <= t -> t < pow2 32 -> z <= t ->
    exists b z', take cap rate z t n = Ok (b, z') /\ z' <= t /\
                 (if b then n else 0) + pot z' t <= pot z t /\ (b = false -> z' = z).
  Proof.
    intros z t n HW HT HZ.
    unfold take. rewrite check_ok by assumption. unfold obind at 1.
    set (c := N.max z (t - W)).
    assert (Hc : c <= t) by (unfold c; lia).
    assert (Hc2 : t - W <= c) by (unfold c; lia).
    destruct (Z.leb_spec (Z.of_N n) ((Z.of_N t - Z.of_N c) * Z.of_N rate)) as [G|G].
    - assert (Gn : n <= rate * (t - c)) by nia.
      pose proof (div_ceil_least n (t - c) Gn) as Hd.
      pose proof (div_ceil_covers n) as Hn.
      rewrite deplete_ok by (fold c; lia). fold c. unfold obind.
      exists true, (c + div_ceil n rate). split; [reflexivity|]. split; [lia|]. split; [|discriminate].
      unfold pot. fold c.
      replace (N.max (c + div_ceil n rate) (t - W)) with (c + div_ceil n rate) by lia.
      replace (t - c) with ((t - (c + div_ceil n rate)) + div_ceil n rate) by lia.
      rewrite N.mul_add_distr_l. lia.
    - exists false, z. split; [reflexivity|]. split; [assumption|]. split; [lia | reflexivity].
  Qed.

  (* ---- one bucket, any history ------------------------------------------- *)
  (* times are non-decreasing, start at or after t1, end at or before t2 *)
  Fixpoint sorted_within (t1 t2 : N) (evs : list (N * N)) : Prop :=
    match evs with
    | [] => t1 <= t2
    | (t, _) :: r => t1 <= t /\ sorted_within t t2 r
    end.

  Lemma sorted_within_le : forall evs t1 t2, sorted_within t1 t2 evs -> t1 <= t2.
  Proof.
    induction evs as [|[t n] r IH]; simpl; intros t1 t2 H; [assumption|].
    destruct H as [H1 H2]. apply IH in H2. lia.
  Qed.

  Lemma bucket_potential : forall evs z t1 t2,
    W <= t1 -> t2 < pow2 32 -> z <= t1 -> sorted_within t1 t2 evs ->
    fst (run_bucket cap rate z evs) + pot (snd (run_bucket cap rate z evs)) t2
      <= pot z t1 + rate * (t2 - t1)
    /\ snd (run_bucket cap rate z evs) <= t2.
  Proof.
    induction evs as [|[t n] r IH]; intros z t1 t2 HW HT HZ HS; simpl in *.
    - split; [apply pot_time; assumption | lia].
    - destruct HS as [H1 H2]. pose proof (sorted_within_le _ _ _ H2) as H3.
      destruct (take_pot z t n ltac:(lia) ltac:(lia) ltac:(lia)) as (b & z' & E & Hz' & Hp & Hb).
      pose proof (pot_time z t1 t H1) as Ht.
      rewrite E. destruct b.
      + specialize (IH z' t t2 ltac:(lia) HT Hz' H2).
        destruct (run_bucket cap rate z' r) as [g zf]. simpl in *. destruct IH as [IH1 IH2].
        split; [|assumption].
        replace (t2 - t1) with ((t2 - t) + (t - t1)) by lia. rewrite N.mul_add_distr_l. lia.
      + rewrite (Hb eq_refl) in *.
        specialize (IH z t t2 ltac:(lia) HT ltac:(lia) H2). destruct IH as [IH1 IH2].
        split; [|assumption].
        replace (t2 - t1) with ((t2 - t) + (t - t1)) by lia. rewrite N.mul_add_distr_l. lia.
  Qed.

  (* tokens granted in [t1,t2] <= capacity + rate * (t2 - t1) *)
  Lemma bucket_bound : forall evs z t1 t2,
    W <= t1 -> t2 < pow2 32 -> z <= t1 -> sorted_within t1 t2 evs ->
    fst (run_bucket cap rate z evs) <= cap + rate * (t2 - t1).
  Proof.
    intros evs z t1 t2 HW HT HZ HS.
    destruct (bucket_potential evs z t1 t2 HW HT HZ HS) as [H _].
    pose proof (pot_le_cap z t1). lia.
  Qed.

  (* the same for a window of a longer history: whatever happened before t1 *)
  Lemma bucket_bound_window : forall pre win z0 t0 t1 t2,
    W <= t0 -> t2 < pow2 32 -> z0 <= t0 -> sorted_within t0 t1 pre -> sorted_within t1 t2 win ->
    fst (run_bucket cap rate (snd (run_bucket cap rate z0 pre)) win) <= cap + rate * (t2 - t1).
  Proof.
    intros pre win z0 t0 t1 t2 HW HT HZ HP HS.
    pose proof (sorted_within_le _ _ _ HP). pose proof (sorted_within_le _ _ _ HS).
    destruct (bucket_potential pre z0 t0 t1 HW ltac:(lia) HZ HP) as [_ Hz1].
    apply bucket_bound; try assumption; lia.
  Qed.

  (* a quiet period of W seconds refills the bucket: a request that fits is granted *)
  Lemma quiet_served : forall z now n,
    W <= now -> now < pow2 32 -> z + W <= now -> n <= rate * W ->
    check cap rate z now n = Ok true /\ exists z', take cap rate z now n = Ok (true, z').
  Proof.
    intros z now n HW HT HQ Hn.
    assert (C : check cap rate z now n = Ok true).
    { rewrite check_ok by assumption.
      replace (N.max z (now - W)) with (now - W) by lia. f_equal.
      apply Z.leb_le. nia. }
    split; [assumption|].
    destruct (take_pot z now n HW HT ltac:(lia)) as (b & z' & E & _ & _ & _).
    unfold take in *. rewrite C in *. simpl in *.
    destruct (deplete cap rate z now n); simpl in *; try discriminate.
    exists a. reflexivity.
  Qed.

  Lemma quiet_after_history : forall evs z t1 t2 now n,
    W <= t1 -> now < pow2 32 -> z <= t1 -> sorted_within t1 t2 evs ->
    t2 + W <= now -> n <= rate * W ->
    check cap rate (snd (run_bucket cap rate z evs)) now n = Ok true.
  Proof.
    intros evs z t1 t2 now n HW HT HZ HS HQ Hn.
    pose proof (sorted_within_le _ _ _ HS).
    destruct (bucket_potential evs z t1 t2 HW ltac:(lia) HZ HS) as [_ Hz].
    apply quiet_served; lia.
  Qed.

  (* ---- one source, its two buckets, and everybody else ------------------- *)
  Fixpoint lsorted_within (t1 t2 : N) (evs : list lev) : Prop :=
    match evs with
    | [] => t1 <= t2
    | e :: r => t1 <= lev_time e /\ lsorted_within (lev_time e) t2 r
    end.

  Lemma lsorted_within_le : forall evs t1 t2, lsorted_within t1 t2 evs -> t1 <= t2.
  Proof.
    induction evs as [|e r IH]; simpl; intros t1 t2 H; [assumption|].
    destruct H as [H1 H2]. apply IH in H2. lia.
  Qed.

  Definition tokens_of (x : N * N * (N * N)) : N := fst (fst x).
  Definition octets_of (x : N * N * (N * N)) : N := snd (fst x).
  Definition state_of (x : N * N * (N * N)) : N * N := snd x.

  Lemma lim_check_pot : forall z1 z2 t n, W <= t -> t < pow2 32 -> z1 <= t -> z2 <= t ->
    exists b z1' z2', lim_check cap rate (z1, z2) t n = Ok (b, (z1', z2')) /\ z1' <= t /\ z2' <= t /\
      (if b then n else 0) + pot z1' t + pot z2' t <= pot z1 t + pot z2 t.
  Proof.
    intros z1 z2 t n HW HT H1 H2. unfold lim_check. simpl.
    destruct (take_pot z1 t n HW HT H1) as (b1 & y1 & E1 & Hy1 & Hp1 & Hb1). rewrite E1. simpl.
    destruct b1.
    - exists true, y1, z2. repeat split; try assumption. lia.
    - rewrite (Hb1 eq_refl) in *.
      destruct (take_pot z2 t n HW HT H2) as (b2 & y2 & E2 & Hy2 & Hp2 & Hb2). rewrite E2. simpl.
      exists b2, z1, y2. repeat split; try assumption. lia.
  Qed.

  Lemma limiter_potential : forall evs z1 z2 t1 t2,
    W <= t1 -> t2 < pow2 32 -> z1 <= t1 -> z2 <= t1 -> lsorted_within t1 t2 evs ->
    tokens_of (run_limiter cap rate (z1, z2) evs)
      + pot (fst (state_of (run_limiter cap rate (z1, z2) evs))) t2
      + pot (snd (state_of (run_limiter cap rate (z1, z2) evs))) t2
      <= pot z1 t1 + pot z2 t1 + 2 * (rate * (t2 - t1)).
  Proof.
    induction evs as [|e r IH]; intros z1 z2 t1 t2 HW HT H1 H2 HS;
      cbn [run_limiter lsorted_within] in *.
    - unfold tokens_of, state_of. cbn [fst snd].
      pose proof (pot_time z1 t1 t2 HS). pose proof (pot_time z2 t1 t2 HS). lia.
    - destruct HS as [Ha Hb]. pose proof (lsorted_within_le _ _ _ Hb) as Hc.
      pose proof (pot_time z1 t1 _ Ha) as P1. pose proof (pot_time z2 t1 _ Ha) as P2.
      assert (D : rate * (t2 - t1) = rate * (t2 - lev_time e) + rate * (lev_time e - t1)).
      { rewrite <- N.mul_add_distr_l. f_equal. lia. }
      destruct e as [te n b|te n|te n]; cbn [lev_time fst snd] in *.
      + destruct (lim_check_pot z1 z2 te n ltac:(lia) ltac:(lia) ltac:(lia) ltac:(lia))
          as (g & y1 & y2 & E & Hy1 & Hy2 & Hp). rewrite E.
        specialize (IH y1 y2 te t2 ltac:(lia) HT Hy1 Hy2 Hb).
        destruct g.
        * destruct (run_limiter cap rate (y1, y2) r) as [[g' s'] sf].
          unfold tokens_of, state_of in *. cbn [fst snd] in *. lia.
        * lia.
      + destruct (take_pot z1 te n ltac:(lia) ltac:(lia) ltac:(lia)) as (g & y1 & E & Hy1 & Hp & _).
        rewrite E.
        specialize (IH y1 z2 te t2 ltac:(lia) HT Hy1 ltac:(lia) Hb).
        destruct g; lia.
      + destruct (take_pot z2 te n ltac:(lia) ltac:(lia) ltac:(lia)) as (g & y2 & E & Hy2 & Hp & _).
        rewrite E.
        specialize (IH z1 y2 te t2 ltac:(lia) HT ltac:(lia) Hy2 Hb).
        destruct g; lia.
  Qed.

  (* tokens charged to one source in [t1,t2] <= 2*cap + 2*rate*(t2-t1), whatever
     the other sources sharing its two buckets do *)
  Lemma source_bound : forall evs z1 z2 t1 t2,
    W <= t1 -> t2 < pow2 32 -> z1 <= t1 -> z2 <= t1 -> lsorted_within t1 t2 evs ->
    tokens_of (run_limiter cap rate (z1, z2) evs) <= 2 * cap + 2 * (rate * (t2 - t1)).
  Proof.
    intros evs z1 z2 t1 t2 HW HT H1 H2 HS.
    pose proof (limiter_potential evs z1 z2 t1 t2 HW HT H1 H2 HS) as H.
    pose proof (pot_le_cap z1 t1). pose proof (pot_le_cap z2 t1). lia.
  Qed.

  (* octets sent <= tokens charged when every reply is covered by its charge *)
  Definition covered (e : lev) : Prop := match e with Mine _ n b => b <= n | _ => True end.

  Lemma octets_le_tokens : forall evs st, Forall covered evs ->
    octets_of (run_limiter cap rate st evs) <= tokens_of (run_limiter cap rate st evs).
  Proof.
    induction evs as [|e r IH]; intros st HF; simpl.
    - unfold octets_of, tokens_of. simpl. lia.
    - inversion HF as [|? ? Hc Hr]; subst.
      destruct e as [te n b|te n|te n]; simpl in *.
      + destruct (lim_check cap rate st te n) as [[[|] st']| |]; try (apply IH; assumption).
        specialize (IH st' Hr). destruct (run_limiter cap rate st' r) as [[g s] sf].
        unfold octets_of, tokens_of in *. simpl in *. lia.
      + destruct (take cap rate (fst st) te n) as [[? ?]| |]; apply IH; assumption.
      + destruct (take cap rate (snd st) te n) as [[? ?]| |]; apply IH; assumption.
  Qed.

  Lemma source_octets_bound : forall evs z1 z2 t1 t2,
    W <= t1 -> t2 < pow2 32 -> z1 <= t1 -> z2 <= t1 -> lsorted_within t1 t2 evs ->
    Forall covered evs ->
    octets_of (run_limiter cap rate (z1, z2) evs) <= 2 * cap + 2 * (rate * (t2 - t1)).
  Proof.
    intros. etransitivity; [apply octets_le_tokens; assumption | apply source_bound; assumption].
  Qed.
End BucketFacts.

Lemma source_bounds : forall cap rate, 0 < rate ->
  forall evs z1 z2 t1 t2,
  window cap rate <= t1 -> t2 < pow2 32 -> z1 <= t1 -> z2 <= t1 -> lsorted_within t1 t2 evs ->
  tokens_of (run_limiter cap rate (z1, z2) evs) <= 2 * cap + 2 * (rate * (t2 - t1)) /\
  (Forall covered evs ->
   octets_of (run_limiter cap rate (z1, z2) evs) <= 2 * cap + 2 * (rate * (t2 - t1))).
Proof.
  intros cap rate Hr evs z1 z2 t1 t2 HW HT H1 H2 HS. split.
  - exact (source_bound cap rate Hr evs z1 z2 t1 t2 HW HT H1 H2 HS).
  - exact (source_octets_bound cap rate Hr evs z1 z2 t1 t2 HW HT H1 H2 HS).
Qed.

(* with the clock in range and both timestamps in the past the limiter never aborts, and the
   timestamps stay in the past (so this holds along every history) *)
Lemma limiter_never_aborts : forall cap rate, 0 < rate ->
  forall z1 z2 t n, window cap rate <= t -> t < pow2 32 -> z1 <= t -> z2 <= t ->
  exists b z1' z2', lim_check cap rate (z1, z2) t n = Ok (b, (z1', z2')) /\ z1' <= t /\ z2' <= t.
Proof.
  intros cap rate Hr z1 z2 t n HW HT H1 H2.
  destruct (lim_check_pot cap rate Hr z1 z2 t n HW HT H1 H2) as (b & y1 & y2 & E & A & B & _).
  exists b, y1, y2. auto.
Qed.

Transparent pow2.

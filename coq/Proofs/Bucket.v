(* Lemmas about Model/Bucket.v (property C16). *)
From Erbium Require Import Lib.Base Model.Bucket.

Lemma min_cost_fits : MIN_COST <= CAP.
Proof. vm_compute. discriminate. Qed.

(* Record-level round trip (C14): octet-level decoding lemmas for the fixed fields and the
   record kinds whose data is a single name. *)
From Erbium Require Import Lib.Base Model.DnsName Model.DnsCodec Proofs.DnsName Proofs.DnsCodec.

Lemma get_u16_be16 v r off : v < 65536 -> get_u16 (be16 v ++ r, off) = Ok (v, (r, off + 2)).
Proof.
  intros H. unfold get_u16, be16. simpl. do 2 f_equal.
  pose proof (N.div_mod v 256 ltac:(lia)) as D.
  assert (v / 256 < 256) by (apply N.div_lt_upper_bound; lia).
  rewrite (N.mod_small (v / 256) 256) by lia.
  remember (v / 256) as d. remember (v mod 256) as m. lia.
Qed.

Lemma get_u32_be32 v r off : v < 4294967296 -> get_u32 (be32 v ++ r, off) = Ok (v, (r, off + 4)).
Proof.
  intros H. unfold get_u32, be32. simpl. f_equal. f_equal.
  pose proof (N.div_mod v 16777216 ltac:(lia)) as D1.
  assert (H1 : v / 16777216 < 256) by (apply N.div_lt_upper_bound; lia).
  rewrite (N.mod_small (v / 16777216) 256) by lia.
  (* v mod 2^24 = (v/65536 mod 256)*65536 + (v/256 mod 256)*256 + v mod 256 *)
  assert (E2 : v mod 16777216 = (v / 65536) mod 256 * 65536 + (v / 256) mod 256 * 256 + v mod 256).
  { pose proof (N.div_mod v 256 ltac:(lia)) as Da.
    pose proof (N.div_mod (v / 256) 256 ltac:(lia)) as Db.
    pose proof (N.div_mod (v / 256 / 256) 256 ltac:(lia)) as Dc.
    rewrite !N.div_div in * by lia. change (256 * 256) with 65536 in *. change (65536 * 256) with 16777216 in *.
    pose proof (N.div_mod v 16777216 ltac:(lia)) as Dd.
    pose proof (N.mod_lt v 256 ltac:(lia)). pose proof (N.mod_lt (v / 256) 256 ltac:(lia)).
    pose proof (N.mod_lt (v / 65536) 256 ltac:(lia)). pose proof (N.mod_lt v 16777216 ltac:(lia)).
    remember (v / 16777216) as q3. remember (v / 65536) as q2. remember (v / 256) as q1.
    remember (v mod 256) as r0. remember (q1 mod 256) as r1. remember (q2 mod 256) as r2.
    remember (v mod 16777216) as rr. lia. }
  remember (v / 16777216) as q3. remember (v mod 16777216) as rr.
  remember ((v / 65536) mod 256) as r2. remember ((v / 256) mod 256) as r1. remember (v mod 256) as r0. lia.
Qed.

(* a name written at the end of [pre] is read back by the cursor-level reader,
   whatever follows it *)
Lemma get_name_written pre kids n :
  0 < lenN pre -> Forall (tree_ok pre []) kids -> wf_name n = true ->
  exists b kids', push_name (lenN pre) kids n = Ok (b, kids') /\
    Forall (tree_ok (pre ++ b) []) kids' /\
    forall post, get_name (pre ++ b ++ post) (b ++ post, lenN pre) = Ok (n, (post, lenN pre + lenN b)).
Proof.
  intros Hpos Hk Hwf. apply wf_name_labels in Hwf as [Hl Hw].
  pose proof (push_name_spec pre kids n Hpos Hk Hl) as H.
  pose proof (wire_len_labels n Hl) as Hn.
  destruct (push_name (lenN pre) kids n) as [[b kids']| |]; try contradiction.
  destruct H as (Hk' & h & Hna & Hh). exists b, kids'. split; auto. split; auto.
  intros post. unfold get_name. cbn [fst snd].
  assert (Hg : get_domain_into NAME_FUEL (pre ++ b ++ post) (dropN (lenN pre) (pre ++ b ++ post)) (lenN pre) 1 0
               = Ok (n, lenN pre + lenN b)).
  { apply decode_complete with (h := h); unfold NAME_FUEL, LIMIT, MAXNAME; try lia.
    rewrite app_assoc. now apply name_at_app. }
  rewrite dropN_app_exact in Hg.
  rewrite Hg. cbn [obind].
  replace (lenN pre + lenN b - lenN pre) with (lenN b) by lia.
  rewrite dropN_app_exact. reflexivity.
Qed.

(* C14 at the record level, for the record kinds whose data is one name
   (CNAME, NS, PTR): written after [buf] with a valid dictionary, the record is
   read back by get_rr from the final buffer, and the dictionary stays valid. *)
Lemma rr_one_name_roundtrip buf kids r d :
  0 < lenN buf -> Forall (tree_ok buf []) kids ->
  wf_name (r_name r) = true -> wf_name d = true ->
  r_class r < 65536 -> r_ttl r < 4294967296 ->
  (r_type r = T_CNAME /\ r_data r = RCName d \/ r_type r = T_NS /\ r_data r = RNs d \/
   r_type r = T_PTR /\ r_data r = RPtr d) ->
  exists b kids', push_rr (lenN buf) kids r = Ok (b, kids') /\
    Forall (tree_ok (buf ++ b) []) kids' /\
    get_rr (buf ++ b) (b, lenN buf) = Ok (r, ([], lenN buf + lenN b)).
Proof.
  intros Hpos Hk Hn Hd Hc Ht Hty.
  destruct (get_name_written buf kids (r_name r) Hpos Hk Hn) as (nb & k1 & En & Hk1 & Gn).
  set (fixed := be16 (r_type r) ++ be16 (r_class r) ++ be32 (r_ttl r)).
  assert (Hfl : lenN fixed = 8) by reflexivity.
  (* the data octets do not depend on the octets before them *)
  set (pre0 := buf ++ nb ++ fixed ++ be16 0).
  assert (Hl0 : lenN pre0 = lenN buf + lenN nb + 10).
  { unfold pre0. rewrite !lenN_app, Hfl. change (lenN (be16 0)) with 2. lia. }
  assert (Hp0 : 0 < lenN pre0) by lia.
  assert (Hk0 : Forall (tree_ok pre0 []) k1).
  { unfold pre0. rewrite app_assoc. now apply forall_tree_ok_app. }
  destruct (get_name_written pre0 k1 d Hp0 Hk0 Hd) as (db & k2 & Ed & _ & _).
  rewrite Hl0 in Ed.
  set (pre := buf ++ nb ++ fixed ++ be16 (lenN db)).
  assert (Hl1 : lenN pre = lenN buf + lenN nb + 10).
  { unfold pre. rewrite !lenN_app, Hfl. change (lenN (be16 (lenN db))) with 2. lia. }
  assert (Hp1 : 0 < lenN pre) by lia.
  assert (Hkp : Forall (tree_ok pre []) k1).
  { unfold pre. rewrite app_assoc. now apply forall_tree_ok_app. }
  destruct (get_name_written pre k1 d Hp1 Hkp Hd) as (db' & k2' & Ed' & Hk2 & Gd).
  rewrite Hl1, Ed in Ed'. inversion Ed'; subst db' k2'. clear Ed'.
  assert (Hdl : lenN db < 65536).
  { apply wf_name_labels in Hd as [Hl Hw]. pose proof (push_name_len _ _ _ _ _ Hl Ed). lia. }
  assert (Hpd : push_rdata (lenN buf + lenN nb + 10) k1 (r_type r) (r_data r) = Ok (db, k2)).
  { destruct Hty as [[_ ->]|[[_ ->]|[_ ->]]]; exact Ed. }
  exists (nb ++ fixed ++ be16 (lenN db) ++ db), k2.
  split; [|split].
  - unfold push_rr. rewrite En. cbn [obind]. rewrite Hpd. reflexivity.
  - replace (buf ++ nb ++ fixed ++ be16 (lenN db) ++ db) with (pre ++ db)
      by (unfold pre; now rewrite <- !app_assoc).
    exact Hk2.
  - unfold get_rr. rewrite Gn. cbn [obind]. unfold fixed. rewrite <- !app_assoc.
    assert (Hty16 : r_type r < 65536) by (destruct Hty as [[-> _]|[[-> _]|[-> _]]]; reflexivity).
    rewrite get_u16_be16 by exact Hty16. cbn [obind].
    rewrite get_u16_be16 by exact Hc. cbn [obind].
    rewrite get_u32_be32 by exact Ht. cbn [obind].
    unfold get_rdata. rewrite get_u16_be16 by exact Hdl. cbn [obind].
    specialize (Gd []). rewrite app_nil_r in Gd.
    replace (buf ++ nb ++ be16 (r_type r) ++ be16 (r_class r) ++ be32 (r_ttl r) ++ be16 (lenN db) ++ db)
      with (pre ++ db) by (unfold pre, fixed; now rewrite <- !app_assoc).
    replace (lenN buf + lenN nb + 2 + 2 + 4 + 2) with (lenN pre) by lia.
    assert (Hfin : lenN pre + lenN db = lenN buf + lenN (nb ++ (be16 (r_type r) ++ be16 (r_class r) ++ be32 (r_ttl r)) ++ be16 (lenN db) ++ db)).
    { rewrite Hl1, !lenN_app. change (lenN (be16 (r_type r))) with 2. change (lenN (be16 (r_class r))) with 2.
      change (lenN (be32 (r_ttl r))) with 4. change (lenN (be16 (lenN db))) with 2. lia. }
    destruct Hty as [[E1 E2]|[[E1 E2]|[E1 E2]]]; rewrite E1; cbn; rewrite Gd; cbn [obind];
      rewrite Hfin; destruct r; simpl in *; subst; reflexivity.
Qed.

(* Record-level round trip (C14): octet-level decoding lemmas for the fixed fields and the
   record kinds whose data is a single name. *)
From Erbium Require Import Lib.Base Model.DnsName Model.DnsCodec Model.DnsStrict Proofs.DnsName Proofs.DnsCodec.

Lemma get_u16_be16 v r off : v < 65536 -> get_u16 (be16 v ++ r, off) = Ok (v, (r, off + 2)).
Proof.
  intros H. unfold get_u16, be16. simpl. do 2 f_equal.
  pose proof (N.div_mod v 256 ltac:(lia)) as D.
  assert (v / 256 < 256) by (apply N.div_lt_upper_bound; lia).
  rewrite (N.mod_small (v / 256) 256) by lia.
  remember (v / 256) as d. remember (v mod 256) as m. lia.
Qed.

Lemma get_u32_be32 v r off : v < 4294967296 -> get_u32 (be32 v ++ r, off) = Ok (v, (r, off + 4)).
Proof.
  intros H. unfold get_u32, be32. simpl. f_equal. f_equal.
  pose proof (N.div_mod v 16777216 ltac:(lia)) as D1.
  assert (H1 : v / 16777216 < 256) by (apply N.div_lt_upper_bound; lia).
  rewrite (N.mod_small (v / 16777216) 256) by lia.
  (* v mod 2^24 = (v/65536 mod 256)*65536 + (v/256 mod 256)*256 + v mod 256 *)
  assert (E2 : v mod 16777216 = (v / 65536) mod 256 * 65536 + (v / 256) mod 256 * 256 + v mod 256).
  { pose proof (N.div_mod v 256 ltac:(lia)) as Da.
    pose proof (N.div_mod (v / 256) 256 ltac:(lia)) as Db.
    pose proof (N.div_mod (v / 256 / 256) 256 ltac:(lia)) as Dc.
    rewrite !N.div_div in * by lia. change (256 * 256) with 65536 in *. change (65536 * 256) with 16777216 in *.
    pose proof (N.div_mod v 16777216 ltac:(lia)) as Dd.
    pose proof (N.mod_lt v 256 ltac:(lia)). pose proof (N.mod_lt (v / 256) 256 ltac:(lia)).
    pose proof (N.mod_lt (v / 65536) 256 ltac:(lia)). pose proof (N.mod_lt v 16777216 ltac:(lia)).
    remember (v / 16777216) as q3. remember (v / 65536) as q2. remember (v / 256) as q1.
    remember (v mod 256) as r0. remember (q1 mod 256) as r1. remember (q2 mod 256) as r2.
    remember (v mod 16777216) as rr. lia. }
  remember (v / 16777216) as q3. remember (v mod 16777216) as rr.
  remember ((v / 65536) mod 256) as r2. remember ((v / 256) mod 256) as r1. remember (v mod 256) as r0. lia.
Qed.


(* both decoders (the model of the implementation's and the strict one of the
   specification side) read name n at cursor c and move to c' *)
Definition name_read (B : list N) (c : cur) (n : name) (c' : cur) : Prop :=
  get_name B c = Ok (n, c') /\ s_name B c = Some (n, c').

(* a name written at the end of [pre] is read back by the cursor-level readers,
   whatever follows it *)
Lemma get_name_written pre kids n :
  0 < lenN pre -> Forall (tree_ok pre []) kids -> wf_name n = true ->
  exists b kids', push_name (lenN pre) kids n = Ok (b, kids') /\
    Forall (tree_ok (pre ++ b) []) kids' /\ lenN b <= wire_len n /\ 0 < lenN b /\
    forall post, name_read (pre ++ b ++ post) (b ++ post, lenN pre) n (post, lenN pre + lenN b).
Proof.
  intros Hpos Hk Hwf. apply wf_name_labels in Hwf as [Hl Hw].
  pose proof (push_name_spec pre kids n Hpos Hk Hl) as H.
  pose proof (wire_len_labels n Hl) as Hn.
  destruct (push_name (lenN pre) kids n) as [[b kids']| |] eqn:Ep; try contradiction.
  destruct H as (Hk' & h & Hna & Hh). exists b, kids'. split; auto. split; auto.
  split; [eapply push_name_len; eauto|].
  assert (Hb0 : 0 < lenN b).
  { apply name_at_lt in Hna. rewrite lenN_app in Hna. lia. }
  split; auto.
  intros post. split.
  - unfold get_name. cbn [fst snd].
    assert (Hg : get_domain_into NAME_FUEL (pre ++ b ++ post) (dropN (lenN pre) (pre ++ b ++ post)) (lenN pre) 1 0
                 = Ok (n, lenN pre + lenN b)).
    { apply decode_complete with (h := h); unfold NAME_FUEL, LIMIT, MAXNAME; try lia.
      rewrite app_assoc. now apply name_at_app. }
    rewrite dropN_app_exact in Hg.
    rewrite Hg. cbn [obind].
    replace (lenN pre + lenN b - lenN pre) with (lenN b) by lia.
    rewrite dropN_app_exact. reflexivity.
  - unfold s_name. cbn [fst snd].
    assert (Hg : strict_name NAME_FUEL (pre ++ b ++ post) (dropN (lenN pre) (pre ++ b ++ post)) (lenN pre) 0
                 = Some (n, lenN pre + lenN b)).
    { apply strict_complete with (h := h); unfold NAME_FUEL; try lia.
      rewrite app_assoc. now apply name_at_app. }
    rewrite dropN_app_exact in Hg.
    rewrite Hg.
    replace (lenN pre + lenN b - lenN pre) with (lenN b) by lia.
    rewrite dropN_app_exact. reflexivity.
Qed.

Global Opaque get_name s_name.

Lemma lenN_repeat {A} (x : A) n : lenN (repeatN x n) = n.
Proof. unfold lenN, repeatN. rewrite repeat_length. lia. Qed.

(* the same after a gap of g octets whose content is written later (the fixed
   fields and RDLENGTH of a record): the octets and the dictionary do not
   depend on the content of the gap *)
Lemma name_after_gap buf kids n g :
  0 < lenN buf -> Forall (tree_ok buf []) kids -> wf_name n = true ->
  exists b kids', push_name (lenN buf + g) kids n = Ok (b, kids') /\ lenN b <= wire_len n /\ 0 < lenN b /\
    forall gap, lenN gap = g ->
      Forall (tree_ok (buf ++ gap ++ b) []) kids' /\
      forall post, name_read (buf ++ gap ++ b ++ post) (b ++ post, lenN buf + g) n (post, lenN buf + g + lenN b).
Proof.
  intros Hpos Hk Hwf.
  assert (Hgen : forall gap, lenN gap = g ->
            exists b kids', push_name (lenN buf + g) kids n = Ok (b, kids') /\
              Forall (tree_ok (buf ++ gap ++ b) []) kids' /\ lenN b <= wire_len n /\ 0 < lenN b /\
              forall post, name_read (buf ++ gap ++ b ++ post) (b ++ post, lenN buf + g) n (post, lenN buf + g + lenN b)).
  { intros gap Hg.
    assert (Hp : 0 < lenN (buf ++ gap)) by (rewrite lenN_app; lia).
    assert (Hk2 : Forall (tree_ok (buf ++ gap) []) kids) by now apply forall_tree_ok_app.
    destruct (get_name_written (buf ++ gap) kids n Hp Hk2 Hwf) as (b & k' & E & T & L & L0 & R).
    rewrite lenN_app, Hg in E, R. exists b, k'. rewrite <- app_assoc in T.
    split; [exact E|]. split; [exact T|]. split; [exact L|]. split; [exact L0|].
    intros post. specialize (R post). rewrite <- app_assoc in R. exact R. }
  destruct (Hgen (repeatN 0 g) (lenN_repeat 0 g)) as (b & k' & E & _ & L & L0 & _).
  exists b, k'. split; [exact E|]. split; [exact L|]. split; [exact L0|].
  intros gap Hg. destruct (Hgen gap Hg) as (b2 & k2 & E2 & T2 & _ & _ & R2).
  rewrite E in E2. inversion E2; subst b2 k2. split; [exact T2|exact R2].
Qed.


(* ---- record data as a sequence of fields ------------------------------------ *)
Inductive field := FName (n : name) | FRaw (bs : list N).

Fixpoint enc_fields (pos : N) (kids : list tree) (fs : list field) : outcome (list (list N) * list tree) :=
  match fs with
  | [] => Ok ([], kids)
  | FName n :: r =>
    do (b, k) <- push_name pos kids n;
    do (cs, k2) <- enc_fields (pos + lenN b) k r;
    Ok (b :: cs, k2)
  | FRaw bs :: r =>
    do (cs, k2) <- enc_fields (pos + lenN bs) kids r;
    Ok (bs :: cs, k2)
  end.

Definition field_ok (f : field) : Prop := match f with FName n => wf_name n = true | FRaw _ => True end.
Definition field_len (f : field) : N := match f with FName n => wire_len n | FRaw bs => lenN bs end.

(* reading the chunks back, field by field *)
Fixpoint reads (B : list N) (off : N) (cs : list (list N)) (fs : list field) (post : list N) : Prop :=
  match fs, cs with
  | [], [] => True
  | FName n :: fs', c :: cs' =>
    name_read B (c ++ concat cs' ++ post, off) n (concat cs' ++ post, off + lenN c) /\
    reads B (off + lenN c) cs' fs' post
  | FRaw bs :: fs', c :: cs' => c = bs /\ reads B (off + lenN c) cs' fs' post
  | _, _ => False
  end.

Lemma fields_written : forall fs buf kids g,
  0 < lenN buf -> Forall (tree_ok buf []) kids -> Forall field_ok fs ->
  exists cs kids', enc_fields (lenN buf + g) kids fs = Ok (cs, kids') /\
    lenN (concat cs) <= fold_right (fun f a => field_len f + a) 0 fs /\
    forall gap, lenN gap = g ->
      Forall (tree_ok (buf ++ gap ++ concat cs) []) kids' /\
      forall post, reads (buf ++ gap ++ concat cs ++ post) (lenN buf + g) cs fs post.
Proof.
  induction fs as [|f fs IH]; intros buf kids g Hpos Hk Hf.
  - exists [], kids. split; [reflexivity|]. split; [unfold lenN; simpl; lia|].
    intros gap Hg. simpl. rewrite app_nil_r. split; [now apply forall_tree_ok_app|auto].
  - inversion Hf as [|? ? Hf1 Hf2]; subst. destruct f as [n|bs].
    + simpl in Hf1.
      destruct (name_after_gap buf kids n g Hpos Hk Hf1) as (b & k1 & E & L & L0 & Hb).
      (* existence, with some gap *)
      assert (Hgen : forall gap, lenN gap = g ->
                exists cs k2, enc_fields (lenN buf + g + lenN b) k1 fs = Ok (cs, k2) /\
                  lenN (concat cs) <= fold_right (fun f a => field_len f + a) 0 fs /\
                  Forall (tree_ok (buf ++ gap ++ b ++ concat cs) []) k2 /\
                  forall post, reads (buf ++ gap ++ b ++ concat cs ++ post) (lenN buf + g + lenN b) cs fs post).
      { intros gap Hg. destruct (Hb gap Hg) as [T _].
        assert (Hp1 : 0 < lenN (buf ++ gap ++ b)) by (rewrite !lenN_app; lia).
        destruct (IH (buf ++ gap ++ b) k1 0 Hp1 T Hf2) as (cs & k2 & E2 & L2 & H2).
        rewrite !lenN_app, Hg in E2.
        replace (lenN buf + (g + lenN b) + 0) with (lenN buf + g + lenN b) in E2 by lia.
        exists cs, k2. split; auto. split; auto.
        destruct (H2 [] eq_refl) as [T2 R2]. simpl in T2, R2.
        rewrite <- !app_assoc in T2. split; auto.
        intros post. specialize (R2 post). rewrite <- !app_assoc in R2.
        rewrite !lenN_app, Hg in R2.
        replace (lenN buf + (g + lenN b) + 0) with (lenN buf + g + lenN b) in R2 by lia. exact R2. }
      destruct (Hgen (repeatN 0 g) (lenN_repeat 0 g)) as (cs & k2 & E2 & L2 & _).
      exists (b :: cs), k2. split; [|split].
      * simpl. rewrite E. cbn [obind]. rewrite E2. reflexivity.
      * simpl. rewrite lenN_app. lia.
      * intros gap Hg. destruct (Hgen gap Hg) as (cs' & k2' & E2' & _ & T2 & R2).
        rewrite E2 in E2'. inversion E2'; subst cs' k2'.
        destruct (Hb gap Hg) as [_ Rn]. simpl concat. split; auto.
        intros post. simpl. split.
        -- specialize (Rn (concat cs ++ post)). rewrite <- app_assoc. exact Rn.
        -- rewrite <- app_assoc. apply R2.
    + destruct (IH buf kids (g + lenN bs) Hpos Hk Hf2) as (cs & k2 & E2 & L2 & H2).
      replace (lenN buf + (g + lenN bs)) with (lenN buf + g + lenN bs) in E2 by lia.
      exists (bs :: cs), k2. split; [|split].
      * simpl. rewrite E2. reflexivity.
      * simpl. rewrite lenN_app. lia.
      * intros gap Hg.
        assert (Hg2 : lenN (gap ++ bs) = g + lenN bs) by (rewrite lenN_app; lia).
        destruct (H2 (gap ++ bs) Hg2) as [T2 R2]. simpl concat. rewrite <- !app_assoc in T2. split; auto.
        intros post. simpl. split; auto. specialize (R2 post). rewrite <- !app_assoc in R2.
        replace (lenN buf + (g + lenN bs)) with (lenN buf + g + lenN bs) in R2 by lia.
        rewrite <- app_assoc. exact R2.
Qed.

(* ---- EDNS options ------------------------------------------------------------ *)
Lemma be16_split v : v < 65536 -> (v / 256) mod 256 * 256 + v mod 256 = v.
Proof.
  intros H. pose proof (N.div_mod v 256 ltac:(lia)) as D.
  assert (v / 256 < 256) by (apply N.div_lt_upper_bound; lia).
  rewrite (N.mod_small (v / 256) 256) by lia.
  remember (v / 256) as d. remember (v mod 256) as m. lia.
Qed.

Lemma take_exact_lenN {A} (d r : list A) : take_exact (N.to_nat (lenN d)) (d ++ r) = Some (d, r).
Proof. unfold lenN. rewrite Nat2N.id. apply take_exact_app. Qed.

Definition opt_ok (c : N * list N) : Prop := fst c < 65536 /\ lenN (snd c) < 65536.

Lemma wf_opts_ok o : wf_opts o = true -> Forall opt_ok o /\ lenN (enc_opts o) < 65536.
Proof.
  unfold wf_opts. intros H. apply andb_true_iff in H as [H1 H2]. apply N.ltb_lt in H2. split; auto.
  rewrite forallb_forall in H1. apply Forall_forall. intros c Hc. specialize (H1 c Hc).
  apply andb_true_iff in H1 as [H1 _]. apply andb_true_iff in H1 as [H3 H4].
  apply N.ltb_lt in H3, H4. split; auto.
Qed.

Lemma options_roundtrip : forall o fuel, Forall opt_ok o -> (length (enc_opts o) < fuel)%nat ->
  get_options fuel (enc_opts o) = Ok o /\ s_options fuel (enc_opts o) = Some o.
Proof.
  induction o as [|[c d] o IH]; intros fuel Ho Hf.
  - destruct fuel; [simpl in Hf; lia|]. split; reflexivity.
  - inversion Ho as [|? ? [H1 H2] Ho']; subst. simpl in H1, H2.
    destruct fuel; [simpl in Hf; lia|].
    change (enc_opts ((c, d) :: o)) with ((be16 c ++ be16 (lenN d) ++ d) ++ enc_opts o) in *.
    unfold be16 in *. cbn [app] in *. cbn [get_options s_options].
    rewrite (be16_split c H1), (be16_split (lenN d) H2).
    rewrite !take_exact_lenN.
    assert (Hf' : (length (enc_opts o) < fuel)%nat).
    { simpl in Hf. rewrite app_length in Hf. lia. }
    destruct (IH fuel Ho' Hf') as [-> ->]. split; reflexivity.
Qed.

(* ---- the eleven kinds of record data as field sequences ------------------------ *)
Definition fields_of (d : rdata) : list field :=
  match d with
  | RCName n | RNs n | RPtr n => [FName n]
  | RMx p n | RRt p n | RAfsDb p n => [FRaw (be16 p); FName n]
  | RNaPtr o p f s r n =>
    [FRaw (be16 o ++ be16 p ++ (lenN f :: f) ++ (lenN s :: s) ++ (lenN r :: r)); FName n]
  | RRp m t => [FName m; FName t]
  | RSoa m r s rf rt e mi => [FName m; FName r; FRaw (be32 s ++ be32 rf ++ be32 rt ++ be32 e ++ be32 mi)]
  | ROpt o => [FRaw (enc_opts o)]
  | ROther x => [FRaw x]
  end.

Ltac btrue H :=
  repeat match goal with
         | Hx : (_ && _) = true |- _ => apply andb_true_iff in Hx as [? ?]
         end.

Lemma wf_rdata_fields d : wf_rdata d = true -> Forall field_ok (fields_of d).
Proof.
  destruct d; simpl; intros H; btrue H; repeat (apply Forall_cons || apply Forall_nil); simpl; auto.
Qed.

Lemma wf_str_ok s : wf_str s = true -> lenN s < 256.
Proof. unfold wf_str. intros H. apply andb_true_iff in H as [H _]. now apply N.ltb_lt. Qed.

Lemma push_rdata_fields base kids ty d cs k :
  wf_rdata d = true -> kind_type_ok ty d = true ->
  enc_fields base kids (fields_of d) = Ok (cs, k) -> push_rdata base kids ty d = Ok (concat cs, k).
Proof.
  intros Hw Hk H. destruct d; simpl in H, Hk, Hw |- *.
  - apply obind_ok in H as ([b k1] & E & H). inversion H; subst. rewrite E. simpl. rewrite ?app_nil_r; reflexivity.
  - apply obind_ok in H as ([cs1 k1] & E & H). apply obind_ok in E as ([b k1'] & E & E').
    inversion E'; subst. inversion H; subst.
    change (lenN (be16 pref)) with 2 in E. rewrite E. simpl. rewrite ?app_nil_r; reflexivity.
  - apply obind_ok in H as ([b k1] & E & H). inversion H; subst. rewrite E. simpl. rewrite ?app_nil_r; reflexivity.
  - apply obind_ok in H as ([b k1] & E & H). inversion H; subst. rewrite E. simpl. rewrite ?app_nil_r; reflexivity.
  - apply N.eqb_eq in Hk. subst ty. cbn [negb N.eqb T_SOA Pos.eqb].
    apply obind_ok in H as ([b1 k1] & E1 & H). apply obind_ok in H as ([cs2 k2] & E2 & H).
    apply obind_ok in E2 as ([b2' k2'] & E2 & E3). simpl in E3. inversion E3; subst. inversion H; subst.
    rewrite E1. cbn [obind]. rewrite E2. cbn [obind]. simpl. rewrite ?app_nil_r; reflexivity.
  - apply N.eqb_eq in Hk. subst ty. inversion H; subst. simpl. rewrite ?app_nil_r; reflexivity.
  - apply obind_ok in H as ([cs1 k1] & E & H). apply obind_ok in E as ([b k1'] & E & E').
    inversion E'; subst. inversion H; subst.
    change (lenN (be16 subtype)) with 2 in E. rewrite E. simpl. rewrite ?app_nil_r; reflexivity.
  - apply obind_ok in H as ([b1 k1] & E1 & H). apply obind_ok in H as ([cs2 k2] & E2 & H).
    apply obind_ok in E2 as ([b2' k2'] & E2 & E3). simpl in E3. inversion E3; subst. inversion H; subst.
    rewrite E1. cbn [obind]. rewrite E2. cbn [obind]. simpl. rewrite ?app_nil_r; reflexivity.
  - apply obind_ok in H as ([cs1 k1] & E & H). apply obind_ok in E as ([b k1'] & E & E').
    inversion E'; subst. inversion H; subst.
    change (lenN (be16 pref)) with 2 in E. rewrite E. simpl. rewrite ?app_nil_r; reflexivity.
  - btrue Hw. unfold push_str.
    assert (S1 : (lenN flags <? 256) = true) by (apply N.ltb_lt, wf_str_ok; assumption).
    assert (S2 : (lenN services <? 256) = true) by (apply N.ltb_lt, wf_str_ok; assumption).
    assert (S3 : (lenN regexp <? 256) = true) by (apply N.ltb_lt, wf_str_ok; assumption).
    rewrite S1, S2, S3. cbn [obind].
    apply obind_ok in H as ([cs1 k1] & E & H). apply obind_ok in E as ([b k1'] & E & E').
    inversion E'; subst. inversion H; subst.
    match type of E with push_name ?p _ _ = _ => match goal with |- context [push_name ?q _ _] => replace q with p end end.
    2:{ reflexivity. }
    rewrite E. simpl. rewrite <- !app_assoc. simpl. rewrite ?app_nil_r; reflexivity.
  - assert (Hn : (ty =? T_OPT) || (ty =? T_SOA) = false).
    { apply negb_true_iff in Hk. simpl in Hk. unfold T_OPT, T_SOA in *.
      destruct (ty =? 41); destruct (ty =? 6); simpl in *; auto;
        repeat (rewrite ?orb_true_r in Hk; simpl in Hk); try discriminate. }
    rewrite Hn. btrue Hw.
    assert (Hd : lenN data < 65536) by (apply N.ltb_lt; assumption).
    destruct (65535 <? lenN data) eqn:E; [apply N.ltb_lt in E; lia|].
    inversion H; subst. simpl. rewrite ?app_nil_r; reflexivity.
Qed.

(* ---- reading record data back (model of the implementation's decoder) ------------ *)
Lemma get_bytes_app (d r : list N) off : get_bytes (lenN d) (d ++ r, off) = Ok (d, (r, off + lenN d)).
Proof. unfold get_bytes. cbn [fst snd]. rewrite take_exact_lenN. reflexivity. Qed.

Lemma get_string_app (s r : list N) off : lenN s < 256 ->
  get_string (lenN s :: s ++ r, off) = Ok (s, (r, off + 1 + lenN s)).
Proof.
  intros H. unfold get_string, get_u8. cbn [fst snd app obind]. rewrite get_bytes_app. reflexivity.
Qed.

Lemma other_type ty x : kind_type_ok ty (ROther x) = true ->
  (ty =? T_CNAME) = false /\ (ty =? T_MX) = false /\ (ty =? T_NS) = false /\ (ty =? T_PTR) = false /\
  (ty =? T_SOA) = false /\ (ty =? T_OPT) = false /\ (ty =? T_AFSDB) = false /\ (ty =? T_RP) = false /\
  (ty =? T_RT) = false /\ (ty =? T_NAPTR) = false.
Proof.
  unfold kind_type_ok. intros H. apply negb_true_iff in H. cbn [existsb] in H.
  repeat (apply orb_false_iff in H; destruct H as [? H]). repeat split; assumption.
Qed.

Ltac w16 H := match type of H with w16 _ = true => unfold w16 in H; apply N.ltb_lt in H end.
Ltac w32 H := match type of H with w32 _ = true => unfold w32 in H; apply N.ltb_lt in H end.
Ltac wnum := repeat match goal with
                    | H : w16 _ = true |- _ => unfold w16 in H; apply N.ltb_lt in H
                    | H : w32 _ = true |- _ => unfold w32 in H; apply N.ltb_lt in H
                    end.

Lemma rdata_read B off0 ty d cs post :
  wf_rdata d = true -> kind_type_ok ty d = true -> lenN (concat cs) < 65536 ->
  reads B (off0 + 2) cs (fields_of d) post ->
  get_rdata B ty (be16 (lenN (concat cs)) ++ concat cs ++ post, off0)
  = Ok (d, (post, off0 + 2 + lenN (concat cs))).
Proof.
  intros Hw Hk HL HR. unfold get_rdata. rewrite (get_u16_be16 _ _ _ HL). cbn [obind].
  destruct d; cbn [fields_of] in HR; cbn [wf_rdata] in Hw; btrue Hw; wnum;
    try (apply N.eqb_eq in Hk; subst ty).
  - (* CNAME *) destruct cs as [|c [|? ?]]; cbn [reads] in HR; try (exfalso; tauto). destruct HR as [[G _] _].
    cbn [concat app] in *. rewrite app_nil_r in *. cbn. rewrite G. cbn [obind]. reflexivity.
  - (* MX *) destruct cs as [|c1 [|c2 [|? ?]]]; cbn [reads] in HR; try (exfalso; tauto). destruct HR as [-> [[G _] _]].
    cbn [concat app] in *. rewrite app_nil_r in *. rewrite <- app_assoc. cbn [N.eqb Pos.eqb T_CNAME T_NS T_PTR T_AFSDB T_RP T_RT T_MX].
    rewrite get_u16_be16 by assumption. cbn [obind].
    change (lenN (be16 pref)) with 2 in G. rewrite G. cbn [obind].
    rewrite lenN_app. change (lenN (be16 pref)) with 2.
    replace (off0 + 2 + 2 + lenN c2) with (off0 + 2 + (2 + lenN c2)) by lia. reflexivity.
  - (* NS *) destruct cs as [|c [|? ?]]; cbn [reads] in HR; try (exfalso; tauto). destruct HR as [[G _] _].
    cbn [concat app] in *. rewrite app_nil_r in *. cbn. rewrite G. cbn [obind]. reflexivity.
  - (* PTR *) destruct cs as [|c [|? ?]]; cbn [reads] in HR; try (exfalso; tauto). destruct HR as [[G _] _].
    cbn [concat app] in *. rewrite app_nil_r in *. cbn. rewrite G. cbn [obind]. reflexivity.
  - (* SOA *) destruct cs as [|c1 [|c2 [|c3 [|? ?]]]]; cbn [reads] in HR; try (exfalso; tauto).
    destruct HR as [[G1 _] [[G2 _] [-> _]]].
    cbn [concat app] in *. rewrite app_nil_r in *. cbn [N.eqb Pos.eqb T_CNAME T_NS T_PTR T_AFSDB T_RP T_RT T_MX T_NAPTR T_OPT T_SOA].
    rewrite <- !app_assoc in *. rewrite G1. cbn [obind]. rewrite G2. cbn [obind].
    repeat (rewrite get_u32_be32 by assumption; cbn [obind]).
    rewrite !lenN_app. do 5 change (lenN (be32 _)) with 4 at 1.
    match goal with |- Ok (_, (_, ?a)) = Ok (_, (_, ?b)) => replace a with b by lia end. reflexivity.
  - (* OPT *) destruct cs as [|c1 [|? ?]]; cbn [reads] in HR; try (exfalso; tauto). destruct HR as [-> _].
    cbn [concat app] in *. rewrite app_nil_r in *. cbn [N.eqb Pos.eqb T_CNAME T_NS T_PTR T_AFSDB T_RP T_RT T_MX T_NAPTR T_OPT T_SOA].
    rewrite get_bytes_app. cbn [obind].
    match goal with H : wf_opts _ = true |- _ => apply wf_opts_ok in H as [Ho _] end.
    destruct (options_roundtrip o (S (length (enc_opts o))) Ho ltac:(lia)) as [-> _]. cbn [obind]. reflexivity.
  - (* AFSDB *) destruct cs as [|c1 [|c2 [|? ?]]]; cbn [reads] in HR; try (exfalso; tauto). destruct HR as [-> [[G _] _]].
    cbn [concat app] in *. rewrite app_nil_r in *. rewrite <- app_assoc. cbn [N.eqb Pos.eqb T_CNAME T_NS T_PTR T_AFSDB T_RP T_RT T_MX].
    rewrite get_u16_be16 by assumption. cbn [obind].
    change (lenN (be16 subtype)) with 2 in G. rewrite G. cbn [obind].
    rewrite lenN_app. change (lenN (be16 subtype)) with 2.
    replace (off0 + 2 + 2 + lenN c2) with (off0 + 2 + (2 + lenN c2)) by lia. reflexivity.
  - (* RP *) destruct cs as [|c1 [|c2 [|? ?]]]; cbn [reads] in HR; try (exfalso; tauto). destruct HR as [[G1 _] [[G2 _] _]].
    cbn [concat app] in *. rewrite app_nil_r in *. cbn [N.eqb Pos.eqb T_CNAME T_NS T_PTR T_AFSDB T_RP T_RT T_MX].
    rewrite <- !app_assoc in *. rewrite G1. cbn [obind]. rewrite G2. cbn [obind].
    rewrite lenN_app. replace (off0 + 2 + lenN c1 + lenN c2) with (off0 + 2 + (lenN c1 + lenN c2)) by lia. reflexivity.
  - (* RT *) destruct cs as [|c1 [|c2 [|? ?]]]; cbn [reads] in HR; try (exfalso; tauto). destruct HR as [-> [[G _] _]].
    cbn [concat app] in *. rewrite app_nil_r in *. rewrite <- app_assoc. cbn [N.eqb Pos.eqb T_CNAME T_NS T_PTR T_AFSDB T_RP T_RT T_MX].
    rewrite get_u16_be16 by assumption. cbn [obind].
    change (lenN (be16 pref)) with 2 in G. rewrite G. cbn [obind].
    rewrite lenN_app. change (lenN (be16 pref)) with 2.
    replace (off0 + 2 + 2 + lenN c2) with (off0 + 2 + (2 + lenN c2)) by lia. reflexivity.
  - (* NAPTR *) destruct cs as [|c1 [|c2 [|? ?]]]; cbn [reads] in HR; try (exfalso; tauto). destruct HR as [-> [[G _] _]].
    cbn [concat app] in *. rewrite app_nil_r in *. cbn [N.eqb Pos.eqb T_CNAME T_NS T_PTR T_AFSDB T_RP T_RT T_MX T_NAPTR].
    rewrite <- !app_assoc in *.
    rewrite get_u16_be16 by assumption. cbn [obind]. rewrite get_u16_be16 by assumption. cbn [obind].
    repeat (rewrite <- app_comm_cons || rewrite <- app_assoc).
    repeat (rewrite get_string_app by (apply wf_str_ok; assumption); cbn [obind]).
    repeat (rewrite lenN_app in G || rewrite lenN_cons in G). change (lenN (be16 order)) with 2 in G. change (lenN (be16 pref)) with 2 in G.
    match type of G with get_name _ (_, ?a) = _ => match goal with |- context [get_name _ (_, ?b)] => replace b with a by lia end end.
    rewrite G. cbn [obind].
    repeat (rewrite lenN_app || rewrite lenN_cons). change (lenN (be16 order)) with 2. change (lenN (be16 pref)) with 2.
    match goal with |- Ok (_, (_, ?a)) = Ok (_, (_, ?b)) => replace a with b by lia end. reflexivity.
  - (* other *) destruct cs as [|c1 [|? ?]]; cbn [reads] in HR; try (exfalso; tauto). destruct HR as [-> _].
    cbn [concat app] in *. rewrite app_nil_r in *.
    destruct (other_type _ _ Hk) as (E1 & E2 & E3 & E4 & E5 & E6 & E7 & E8 & E9 & E10).
    rewrite E1, E2, E3, E4, E5, E6, E7, E8, E9, E10. rewrite get_bytes_app. cbn [obind]. reflexivity.
Qed.

(* ---- a whole record ------------------------------------------------------------ *)
Lemma wf_rr_parts r : wf_rr r = true ->
  wf_name (r_name r) = true /\ r_class r < 65536 /\ r_type r < 65536 /\ r_ttl r < 4294967296 /\
  kind_type_ok (r_type r) (r_data r) = true /\ wf_rdata (r_data r) = true.
Proof. unfold wf_rr. intros H. btrue H. wnum. repeat split; assumption. Qed.

Lemma fields_bound d : wf_rdata d = true ->
  fold_right (fun f a => field_len f + a) 0 (fields_of d) < 65536.
Proof.
  intros H.
  destruct d; cbn [fields_of fold_right field_len]; cbn [wf_rdata] in H; btrue H;
    repeat match goal with Hn : wf_name _ = true |- _ => apply wf_name_labels in Hn as [_ ?] end;
    repeat match goal with Hs : wf_str _ = true |- _ => apply wf_str_ok in Hs end;
    try lia.
  - change (lenN (be16 pref)) with 2. lia.
  - repeat rewrite lenN_app. repeat change (lenN (be32 _)) with 4. lia.
  - match goal with Ho : wf_opts _ = true |- _ => apply wf_opts_ok in Ho as [_ ?] end. lia.
  - change (lenN (be16 subtype)) with 2. lia.
  - change (lenN (be16 pref)) with 2. lia.
  - repeat (rewrite lenN_app || rewrite lenN_cons). change (lenN (be16 order)) with 2. change (lenN (be16 pref)) with 2. lia.
  - match goal with Hx : (lenN data <? 65536) = true |- _ => apply N.ltb_lt in Hx end. lia.
Qed.

Definition rr_read (B : list N) (c : cur) (r : rr) (c' : cur) : Prop := get_rr B c = Ok (r, c').

Lemma rr_written buf kids r :
  0 < lenN buf -> Forall (tree_ok buf []) kids -> wf_rr r = true ->
  exists b kids', push_rr (lenN buf) kids r = Ok (b, kids') /\
    Forall (tree_ok (buf ++ b) []) kids' /\ 0 < lenN b /\
    forall post, get_rr (buf ++ b ++ post) (b ++ post, lenN buf) = Ok (r, (post, lenN buf + lenN b)).
Proof.
  intros Hpos Hk Hwf. apply wf_rr_parts in Hwf as (Hn & Hc & Ht & Hl & Hkt & Hd).
  destruct (get_name_written buf kids (r_name r) Hpos Hk Hn) as (nb & k1 & En & T1 & _ & Lnb & Rn).
  assert (Hp1 : 0 < lenN (buf ++ nb)) by (rewrite lenN_app; lia).
  destruct (fields_written (fields_of (r_data r)) (buf ++ nb) k1 10 Hp1 T1 (wf_rdata_fields _ Hd))
    as (cs & k2 & Ef & Lf & Hf).
  pose proof (fields_bound _ Hd) as Lb.
  assert (HL : lenN (concat cs) < 65536) by lia.
  rewrite lenN_app in Ef.
  pose proof (push_rdata_fields _ _ _ _ _ _ Hd Hkt Ef) as Epd.
  set (fixed := be16 (r_type r) ++ be16 (r_class r) ++ be32 (r_ttl r)).
  set (gap := fixed ++ be16 (lenN (concat cs))).
  assert (Hg : lenN gap = 10) by reflexivity.
  destruct (Hf gap Hg) as [T2 R2].
  exists (nb ++ fixed ++ be16 (lenN (concat cs)) ++ concat cs), k2.
  split; [|split; [|split]].
  - unfold push_rr. rewrite En. cbn [obind]. rewrite Epd. reflexivity.
  - unfold gap in T2. rewrite <- !app_assoc in T2. exact T2.
  - rewrite lenN_app. lia.
  - intros post. unfold get_rr.
    destruct (Rn ((fixed ++ be16 (lenN (concat cs)) ++ concat cs) ++ post)) as [Gn _].
    rewrite <- !app_assoc in Gn. rewrite <- !app_assoc. rewrite Gn. cbn [obind].
    unfold fixed. rewrite <- !app_assoc.
    rewrite get_u16_be16 by exact Ht. cbn [obind].
    rewrite get_u16_be16 by exact Hc. cbn [obind].
    rewrite get_u32_be32 by exact Hl. cbn [obind].
    specialize (R2 post). unfold gap, fixed in R2. rewrite <- !app_assoc in R2. rewrite lenN_app in R2.
    replace (lenN buf + lenN nb + 10) with (lenN buf + lenN nb + 2 + 2 + 4 + 2) in R2 by lia.
    rewrite (rdata_read _ _ _ _ _ _ Hd Hkt HL R2). cbn [obind].
    replace (lenN buf + lenN nb + 2 + 2 + 4 + 2 + lenN (concat cs))
      with (lenN buf + lenN (nb ++ be16 (r_type r) ++ be16 (r_class r) ++ be32 (r_ttl r) ++ be16 (lenN (concat cs)) ++ concat cs)).
    2:{ rewrite !lenN_app. change (lenN (be16 (r_type r))) with 2. change (lenN (be16 (r_class r))) with 2.
        change (lenN (be32 (r_ttl r))) with 4. change (lenN (be16 (lenN (concat cs)))) with 2. lia. }
    destruct r; reflexivity.
Qed.

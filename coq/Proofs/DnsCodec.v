(* Proofs about the DNS message codec (C04 / C14 at the packet level). *)
From Erbium Require Import Lib.Base Model.DnsName Model.DnsCodec Model.DnsEncodeSized Proofs.DnsName.

Lemma obind_ok {A B} (o : outcome A) (f : A -> outcome B) r :
  obind o f = Ok r -> exists a, o = Ok a /\ f a = Ok r.
Proof. destruct o; simpl; intros; try discriminate; eauto. Qed.

Ltac inv_bind H :=
  let a := fresh "a" in let E := fresh "E" in
  apply obind_ok in H as (a & E & H); try (destruct a as [? ?]).

(* parse.rs:352 -- the advertised size handed to the serialiser is never below 512 *)
Lemma decode_bufsize_floor b q : decode b = Ok q -> 512 <= bufsize q.
Proof.
  unfold decode. intros H.
  do 4 inv_bind H.
  match type of H with (if ?c then _ else _) = _ => destruct c; [discriminate|] end.
  do 9 inv_bind H.
  inversion H; subst; cbn [bufsize]. lia.
Qed.
(* ---- push_rrs: what a size-limited section looks like --------------------- *)
(* the unlimited, threaded encoding of a list of records *)
Fixpoint enc_rrs (pos : N) (kids : list tree) (rs : list rr) : outcome (list N * list tree) :=
  match rs with
  | [] => Ok ([], kids)
  | r :: rest =>
    do (b, k) <- push_rr pos kids r;
    do (bs, k2) <- enc_rrs (pos + lenN b) k rest;
    Ok (b ++ bs, k2)
  end.

Lemma push_rrs_len size : forall rs pos kids bs k c t,
  push_rrs size pos kids rs = Ok (bs, k, c, t) -> pos <= size -> pos + lenN bs <= size.
Proof.
  induction rs as [|r rest IH]; simpl; intros pos kids bs k c t H Hp.
  - inversion H; subst. rewrite lenN_nil. lia.
  - apply obind_ok in H as ([b k1] & E1 & H).
    destruct (size <? pos + lenN b) eqn:Es.
    + inversion H; subst. rewrite lenN_nil. lia.
    + apply N.ltb_ge in Es.
      destruct (push_rrs size (pos + lenN b) k1 rest) as [[[[bs' k2] c'] t']| |] eqn:E2; try discriminate.
      inversion H; subst. specialize (IH _ _ _ _ _ _ E2 Es). rewrite lenN_app. lia.
Qed.

(* whole records from the front, as many as fit: c records were written, they
   are exactly the unlimited encoding of the first c records; t says that the
   next record exists and did not fit *)
Lemma push_rrs_prefix size : forall rs pos kids bs k c t,
  push_rrs size pos kids rs = Ok (bs, k, c, t) ->
  (N.to_nat c <= length rs)%nat /\
  (exists k', enc_rrs pos kids (firstn (N.to_nat c) rs) = Ok (bs, k') /\ (t = false -> k' = k)) /\
  (t = false -> N.to_nat c = length rs) /\
  (t = true -> exists r b k', nth_error rs (N.to_nat c) = Some r /\
                 (exists kk, enc_rrs pos kids (firstn (N.to_nat c) rs) = Ok (bs, kk) /\
                             push_rr (pos + lenN bs) kk r = Ok (b, k')) /\
                 size < pos + lenN bs + lenN b).
Proof.
  induction rs as [|r rest IH]; simpl; intros pos kids bs k c t H.
  - inversion H; subst. simpl. repeat split; eauto; discriminate.
  - apply obind_ok in H as ([b k1] & E1 & H).
    destruct (size <? pos + lenN b) eqn:Es.
    + inversion H; subst. simpl. apply N.ltb_lt in Es.
      split; [lia|]. split; [exists kids; split; [reflexivity|discriminate]|]. split; [discriminate|].
      intros _. exists r, b, k. split; auto. split; [exists kids; rewrite lenN_nil, N.add_0_r; auto|].
      rewrite lenN_nil. lia.
    + destruct (push_rrs size (pos + lenN b) k1 rest) as [[[[bs' k2] c'] t']| |] eqn:E2; try discriminate.
      inversion H; subst. destruct (IH _ _ _ _ _ _ E2) as (Hc & (k' & He & Hek) & Hf & Ht).
      replace (N.to_nat (c' + 1)) with (S (N.to_nat c')) by lia.
      cbn [firstn nth_error enc_rrs length]. rewrite E1. cbn [obind]. rewrite He. cbn [obind].
      split; [lia|]. split; [exists k'; split; auto|]. split.
      * intros Hf'. rewrite (Hf Hf'). reflexivity.
      * intros Ht'. destruct (Ht Ht') as (r' & b' & k'' & Hn & (kk & Hk1 & Hk2) & Hs).
        rewrite He in Hk1. inversion Hk1; subst kk.
        exists r', b', k''. split; auto. rewrite lenN_app. split.
        -- exists k'. split; auto.
           replace (pos + (lenN b + lenN bs')) with (pos + lenN b + lenN bs') by lia. exact Hk2.
        -- lia.
Qed.

(* lowering the limit to anything the result still fits in does not change the result *)
Lemma push_rrs_mono size size' : forall rs pos kids bs k c t,
  push_rrs size pos kids rs = Ok (bs, k, c, t) -> size' <= size -> pos + lenN bs <= size' ->
  push_rrs size' pos kids rs = Ok (bs, k, c, t).
Proof.
  induction rs as [|r rest IH]; simpl; intros pos kids bs k c t H Hs Hf; auto.
  apply obind_ok in H as ([b k1] & E1 & H). rewrite E1. simpl.
  destruct (size <? pos + lenN b) eqn:Es.
  - inversion H; subst. apply N.ltb_lt in Es.
    destruct (size' <? pos + lenN b) eqn:Es'; auto. apply N.ltb_ge in Es'. lia.
  - destruct (push_rrs size (pos + lenN b) k1 rest) as [[[[bs' k2] c'] t']| |] eqn:E2; try discriminate.
    inversion H; subst. rewrite lenN_app in Hf.
    destruct (size' <? pos + lenN b) eqn:Es'; [apply N.ltb_lt in Es'; lia|].
    rewrite (IH _ _ _ _ _ _ E2 Hs); auto. lia.
Qed.

(* ---- lengths of names ------------------------------------------------------- *)
Lemma wire_len_lits n : wire_len n = lenN (lits n) + 1.
Proof.
  induction n as [|l n IH]; [reflexivity|].
  rewrite wire_len_cons, IH. change (lits (l :: n)) with ((lenN l :: l) ++ lits n).
  rewrite lenN_app, lenN_cons. lia.
Qed.

Lemma push_prefix_len : forall rl pos ok b ret ok',
  Forall label_ok rl -> push_prefix pos rl ok = Ok (b, ret, ok') -> lenN b <= lenN (lits (rev rl)).
Proof.
  induction rl as [|l rp IH]; intros pos ok b ret ok' Hl H; [discriminate|].
  inversion Hl as [|? ? [Hl1 Hl2] Hl']; subst.
  destruct rp as [|l2 rp'].
  - simpl in H. simpl. rewrite app_nil_r, lenN_cons.
    destruct (match ok with Some ks => find_last l ks | None => None end) as [[[a c] bb]|].
    + inversion H; subst. unfold enc_ptr. rewrite !lenN_cons, lenN_nil. lia.
    + unfold enc_label in H. destruct ((0 <? lenN l) && (lenN l <? 64)); simpl in H; [|discriminate].
      inversion H; subst. rewrite lenN_cons. lia.
  - remember (l2 :: rp') as rp eqn:Erp. assert (Hrp : rp <> []) by (subst; discriminate).
    rewrite (push_prefix_cons l rp pos ok Hrp) in H. cbv zeta in H.
    simpl rev. rewrite lits_app, lenN_app. simpl. rewrite app_nil_r, lenN_cons.
    destruct (push_prefix pos rp (found_kids (match ok with Some ks => find_last l ks | None => None end)))
      as [[[b1 ret1] ck]| |] eqn:E1; try discriminate.
    specialize (IH _ _ _ _ _ Hl' E1).
    destruct ret1 as [r|]; destruct (match ok with Some ks => find_last l ks | None => None end) as [[[a c] bb]|];
      try discriminate.
    + destruct (t_off c =? 0); [discriminate|]. inversion H; subst.
      rewrite lenN_app. unfold enc_ptr. rewrite !lenN_cons, lenN_nil. lia.
    + unfold enc_label in H. destruct ((0 <? lenN l) && (lenN l <? 64)); simpl in H; [|discriminate].
      inversion H; subst. rewrite lenN_app, lenN_cons. lia.
    + inversion H; subst. lia.
Qed.

Lemma push_name_len pos kids n b k :
  Forall label_ok n -> push_name pos kids n = Ok (b, k) -> lenN b <= wire_len n.
Proof.
  intros Hl H. rewrite wire_len_lits. destruct n as [|l n'].
  - inversion H; subst. simpl. rewrite lenN_cons, lenN_nil. lia.
  - remember (l :: n') as n eqn:En. assert (Hn : n <> []) by (subst; discriminate).
    rewrite (push_name_cons _ _ _ Hn) in H.
    destruct (push_prefix pos (rev n) (Some kids)) as [[[b1 [r|]] [ks|]]| |] eqn:E; try discriminate;
      pose proof (push_prefix_len _ _ _ _ _ _ (Forall_rev Hl) E) as Hb; rewrite rev_involutive in Hb;
      inversion H; subst; rewrite ?lenN_app, ?lenN_cons, ?lenN_nil; lia.
Qed.

(* ---- the whole message ------------------------------------------------------ *)
Lemma qbytes_len (qb : list N) a b : lenN (qb ++ be16 a ++ be16 b) = lenN qb + 4.
Proof. rewrite lenN_app. reflexivity. Qed.

Lemma head12_len a f1 f2 b c d e (X : list N) :
  lenN (be16 a ++ [f1; f2] ++ be16 b ++ be16 c ++ be16 d ++ be16 e ++ X) = 12 + lenN X.
Proof. unfold be16. cbn [app]. rewrite !lenN_cons. lia. Qed.

Definition sect (size : N) (t : bool) (pos : N) (k : list tree) (rs : list rr) :=
  if t then Ok ([], k, 0, true) else push_rrs size pos k rs.

Lemma sect_len size t rs pos kids bs k c t' :
  sect size t pos kids rs = Ok (bs, k, c, t') -> pos <= size -> pos + lenN bs <= size.
Proof.
  unfold sect. destruct t; [intros H; inversion H; subst; rewrite lenN_nil; lia|apply push_rrs_len].
Qed.

Lemma sect_mono size size' t rs pos kids bs k c t' :
  sect size t pos kids rs = Ok (bs, k, c, t') -> size' <= size -> pos + lenN bs <= size' ->
  sect size' t pos kids rs = Ok (bs, k, c, t').
Proof. unfold sect. destruct t; auto. apply push_rrs_mono. Qed.

(* octets of header + question *)
Definition head_len (m : pkt) : N :=
  match push_name 12 [] (qname m) with Ok (qb, _) => 12 + (lenN qb + 4) | _ => 12 end.

Lemma encode_sized_t_inv m size e t3 : encode_sized_t m size = Ok (e, t3) ->
  512 <= size /\ rcode m <= 4095 /\
  exists qb k0 ab k1 ac t1 nb k2 nc t2 db k3 dc,
    push_name 12 [] (qname m) = Ok (qb, k0) /\
    let qbytes := qb ++ be16 (qtype m) ++ be16 (qclass m) in
    let p0 := 12 + lenN qbytes in
    push_rrs size p0 k0 (answer m) = Ok (ab, k1, ac, t1) /\
    sect size t1 (p0 + lenN ab) k1 (nameserver m) = Ok (nb, k2, nc, t2) /\
    sect size t2 (p0 + lenN ab + lenN nb) k2 (additional m ++ opt_rr m) = Ok (db, k3, dc, t3) /\
    e = be16 (qid m) ++ [flag1 m t3; flag2 m] ++ be16 1 ++ be16 ac ++ be16 nc ++ be16 dc
        ++ qbytes ++ ab ++ nb ++ db.
Proof.
  unfold encode_sized_t. intros H.
  destruct (size <? 512) eqn:E1; [discriminate|]. apply N.ltb_ge in E1.
  destruct (4095 <? rcode m) eqn:E2; [discriminate|]. apply N.ltb_ge in E2.
  apply obind_ok in H as ([qb k0] & Eq & H).
  split; auto. split; auto. exists qb, k0.
  destruct (push_rrs size _ k0 (answer m)) as [[[[ab k1] ac] t1]| |] eqn:Ea; try discriminate.
  exists ab, k1, ac, t1.
  match type of H with match ?x with _ => _ end = _ => destruct x as [[[[nb k2] nc] t2]| |] eqn:En; try discriminate end.
  exists nb, k2, nc, t2.
  match type of H with match ?x with _ => _ end = _ => destruct x as [[[[db k3] dc] t3']| |] eqn:Ed; try discriminate end.
  exists db, k3, dc. inversion H; subst. cbv zeta. unfold sect. auto.
Qed.

Lemma encode_sized_t_build m size qb k0 ab k1 ac t1 nb k2 nc t2 db k3 dc t3 :
  512 <= size -> rcode m <= 4095 ->
  push_name 12 [] (qname m) = Ok (qb, k0) ->
  let qbytes := qb ++ be16 (qtype m) ++ be16 (qclass m) in
  let p0 := 12 + lenN qbytes in
  push_rrs size p0 k0 (answer m) = Ok (ab, k1, ac, t1) ->
  sect size t1 (p0 + lenN ab) k1 (nameserver m) = Ok (nb, k2, nc, t2) ->
  sect size t2 (p0 + lenN ab + lenN nb) k2 (additional m ++ opt_rr m) = Ok (db, k3, dc, t3) ->
  encode_sized_t m size = Ok (be16 (qid m) ++ [flag1 m t3; flag2 m] ++ be16 1 ++ be16 ac ++ be16 nc ++ be16 dc
        ++ qbytes ++ ab ++ nb ++ db, t3).
Proof.
  intros H1 H2 Eq. cbv zeta. intros Ea En Ed. unfold encode_sized_t.
  destruct (size <? 512) eqn:E1; [apply N.ltb_lt in E1; lia|].
  destruct (4095 <? rcode m) eqn:E2; [apply N.ltb_lt in E2; lia|].
  rewrite Eq. cbn [obind]. rewrite Ea. unfold sect in En, Ed. rewrite En, Ed. reflexivity.
Qed.

Lemma encode_sized_t_of m size e : encode_sized m size = Ok e -> exists t, encode_sized_t m size = Ok (e, t).
Proof.
  unfold encode_sized. destruct (encode_sized_t m size) as [[b t]| |]; intros H; inversion H; subst; eauto.
Qed.

Lemma encode_sized_of_t m size e t : encode_sized_t m size = Ok (e, t) -> encode_sized m size = Ok e.
Proof. unfold encode_sized. intros ->. reflexivity. Qed.

Lemma encode_sized_inv m size e : encode_sized m size = Ok e ->
  512 <= size /\ rcode m <= 4095 /\
  exists qb k0 ab k1 ac t1 nb k2 nc t2 db k3 dc t3,
    push_name 12 [] (qname m) = Ok (qb, k0) /\
    let qbytes := qb ++ be16 (qtype m) ++ be16 (qclass m) in
    let p0 := 12 + lenN qbytes in
    push_rrs size p0 k0 (answer m) = Ok (ab, k1, ac, t1) /\
    sect size t1 (p0 + lenN ab) k1 (nameserver m) = Ok (nb, k2, nc, t2) /\
    sect size t2 (p0 + lenN ab + lenN nb) k2 (additional m ++ opt_rr m) = Ok (db, k3, dc, t3) /\
    e = be16 (qid m) ++ [flag1 m t3; flag2 m] ++ be16 1 ++ be16 ac ++ be16 nc ++ be16 dc
        ++ qbytes ++ ab ++ nb ++ db.
Proof.
  intros H. apply encode_sized_t_of in H as [t3 H].
  apply encode_sized_t_inv in H as (H1 & H2 & qb & k0 & ab & k1 & ac & t1 & nb & k2 & nc & t2 & db & k3 & dc & H).
  split; auto. split; auto. exists qb, k0, ab, k1, ac, t1, nb, k2, nc, t2, db, k3, dc, t3. exact H.
Qed.

Lemma encode_sized_build m size qb k0 ab k1 ac t1 nb k2 nc t2 db k3 dc t3 :
  512 <= size -> rcode m <= 4095 ->
  push_name 12 [] (qname m) = Ok (qb, k0) ->
  let qbytes := qb ++ be16 (qtype m) ++ be16 (qclass m) in
  let p0 := 12 + lenN qbytes in
  push_rrs size p0 k0 (answer m) = Ok (ab, k1, ac, t1) ->
  sect size t1 (p0 + lenN ab) k1 (nameserver m) = Ok (nb, k2, nc, t2) ->
  sect size t2 (p0 + lenN ab + lenN nb) k2 (additional m ++ opt_rr m) = Ok (db, k3, dc, t3) ->
  encode_sized m size = Ok (be16 (qid m) ++ [flag1 m t3; flag2 m] ++ be16 1 ++ be16 ac ++ be16 nc ++ be16 dc
        ++ qbytes ++ ab ++ nb ++ db).
Proof.
  intros H1 H2 Eq. cbv zeta. intros Ea En Ed.
  eapply encode_sized_of_t. eapply encode_sized_t_build; eauto.
Qed.

Lemma push_rrs_over size rs pos kids bs k c t :
  push_rrs size pos kids rs = Ok (bs, k, c, t) -> size < pos -> bs = [].
Proof.
  destruct rs as [|r rest]; simpl; intros H Hp.
  - now inversion H.
  - apply obind_ok in H as ([b k1] & E1 & H).
    destruct (size <? pos + lenN b) eqn:Es; [now inversion H|]. apply N.ltb_ge in Es. lia.
Qed.

Lemma sect_over size t rs pos kids bs k c t' :
  sect size t pos kids rs = Ok (bs, k, c, t') -> size < pos -> bs = [].
Proof. unfold sect. destruct t; [intros H; now inversion H|apply push_rrs_over]. Qed.

Lemma encode_sized_length m size e : encode_sized m size = Ok e -> lenN e <= N.max size (head_len m).
Proof.
  intros H. apply encode_sized_inv in H as (Hs & _ & qb & k0 & ab & k1 & ac & t1 & nb & k2 & nc & t2 & db & k3 & dc & t3 & Eq & H).
  cbv zeta in H. destruct H as (Ea & En & Ed & ->).
  unfold head_len. rewrite Eq.
  rewrite head12_len, lenN_app, qbytes_len, !lenN_app.
  rewrite qbytes_len in Ea, En, Ed.
  destruct (N.le_gt_cases (12 + (lenN qb + 4)) size) as [Hfit|Hno].
  - pose proof (push_rrs_len _ _ _ _ _ _ _ _ Ea Hfit) as L1.
    pose proof (sect_len _ _ _ _ _ _ _ _ _ En L1) as L2.
    pose proof (sect_len _ _ _ _ _ _ _ _ _ Ed L2) as L3. lia.
  - (* the question alone exceeds the limit: every record is dropped *)
    pose proof (push_rrs_over _ _ _ _ _ _ _ _ Ea Hno) as ->. rewrite ?(@lenN_nil N), ?N.add_0_r in En, Ed.
    pose proof (sect_over _ _ _ _ _ _ _ _ _ En Hno) as ->. rewrite ?(@lenN_nil N), ?N.add_0_r in Ed.
    pose proof (sect_over _ _ _ _ _ _ _ _ _ Ed Hno) as ->. rewrite ?(@lenN_nil N). lia.
Qed.

(* C04: a response never exceeds the limit (the question of a well-formed
   query always fits: 12 + 255 + 4 <= 512) *)
Lemma encode_sized_within m size e :
  wf_name (qname m) = true -> encode_sized m size = Ok e -> lenN e <= size.
Proof.
  intros Hq H. pose proof (encode_sized_length _ _ _ H) as L.
  pose proof H as H'. apply encode_sized_inv in H' as (Hs & _ & qb & k0 & _ & _ & _ & _ & _ & _ & _ & _ & _ & _ & _ & _ & Eq & _).
  unfold head_len in L. rewrite Eq in L.
  apply wf_name_labels in Hq as [Hl Hw]. pose proof (push_name_len _ _ _ _ _ Hl Eq). lia.
Qed.

(* lowering the limit to anything the result still fits in does not change the result *)
Lemma encode_sized_mono m size size' e :
  encode_sized m size = Ok e -> 512 <= size' -> size' <= size -> lenN e <= size' ->
  encode_sized m size' = Ok e.
Proof.
  intros H Hs1 Hs2 Hlen.
  apply encode_sized_inv in H as (Hs & Hr & qb & k0 & ab & k1 & ac & t1 & nb & k2 & nc & t2 & db & k3 & dc & t3 & Eq & H).
  cbv zeta in H. destruct H as (Ea & En & Ed & ->).
  rewrite head12_len, lenN_app, qbytes_len, !lenN_app in Hlen.
  apply encode_sized_build with (k0 := k0) (k1 := k1) (t1 := t1) (k2 := k2) (t2 := t2) (k3 := k3); auto;
    cbv zeta; rewrite qbytes_len in *.
  - eapply push_rrs_mono; eauto. lia.
  - eapply sect_mono; eauto. lia.
  - eapply sect_mono; eauto. lia.
Qed.

Lemma udp_limit q r e : wf_name (qname r) = true -> udp_bytes q r = Ok e -> lenN e <= N.max 512 (bufsize q).
Proof.
  unfold udp_bytes, wire_bytes, prepare_to_send, response_size_limit. intros Hq H.
  apply encode_sized_within in H; auto. lia.
Qed.

Lemma tcp_complete q r size e :
  65535 <= size -> encode_sized r size = Ok e -> lenN e <= 65535 -> tcp_bytes q r = Ok e.
Proof.
  unfold tcp_bytes, wire_bytes, prepare_to_send, response_size_limit. intros Hs H Hl.
  replace (N.max 65535 512) with 65535 by reflexivity.
  eapply encode_sized_mono; eauto. lia.
Qed.

Lemma sect_prefix size t rs pos kids bs k c t' :
  sect size t pos kids rs = Ok (bs, k, c, t') ->
  (N.to_nat c <= length rs)%nat /\
  (exists k', enc_rrs pos kids (firstn (N.to_nat c) rs) = Ok (bs, k') /\ (t' = false -> k' = k)) /\
  (t' = false -> t = false /\ N.to_nat c = length rs) /\
  (t = true -> c = 0 /\ t' = true).
Proof.
  unfold sect. destruct t.
  - intros H. inversion H; subst. simpl. split; [lia|]. split; [exists k; split; auto|].
    split; [discriminate|auto].
  - intros H. destruct (push_rrs_prefix _ _ _ _ _ _ _ _ H) as (H1 & H2 & H3 & _).
    split; auto. split; auto. split; [auto|discriminate].
Qed.

(* C04: what a size-limited message consists of.  Each section holds the
   first ac / nc / dc records of the reply's section (unlimited encoding of
   exactly those, in order); the header carries these counts; TC is set iff
   it was set already or a record was dropped; after the first dropped record
   nothing else is written. *)
Lemma enc_rrs_app : forall a b pos k x k1 y k2,
  enc_rrs pos k a = Ok (x, k1) -> enc_rrs (pos + lenN x) k1 b = Ok (y, k2) ->
  enc_rrs pos k (a ++ b) = Ok (x ++ y, k2).
Proof.
  induction a as [|r a IH]; simpl; intros b pos k x k1 y k2 Ha Hb.
  - inversion Ha; subst. rewrite (@lenN_nil N), N.add_0_r in Hb. exact Hb.
  - apply obind_ok in Ha as ([rb kr] & Er & Ha). rewrite Er. simpl.
    apply obind_ok in Ha as ([xs kx] & Ex & Ha). inversion Ha; subst.
    rewrite lenN_app in Hb. replace (pos + (lenN rb + lenN xs)) with (pos + lenN rb + lenN xs) in Hb by lia.
    rewrite (IH _ _ _ _ _ _ _ Ex Hb). simpl. now rewrite app_assoc.
Qed.

(* C04: what a size-limited message consists of: the header with the counts of
   the records actually written, the question, and then exactly the unlimited
   encoding of the records kept -- the first ac answers, nc authority records
   and dc additional records (OPT last); once a record has been dropped nothing
   else follows; TC is set if it was set already or something was dropped, and
   only then. *)
Lemma encode_sized_shape m size e : encode_sized m size = Ok e ->
  exists qb k0 recs k ac nc dc t,
    push_name 12 [] (qname m) = Ok (qb, k0) /\
    let qbytes := qb ++ be16 (qtype m) ++ be16 (qclass m) in
    let adds := additional m ++ opt_rr m in
    e = be16 (qid m) ++ [flag1 m t; flag2 m] ++ be16 1 ++ be16 ac ++ be16 nc ++ be16 dc ++ qbytes ++ recs /\
    enc_rrs (12 + lenN qbytes) k0
      (firstn (N.to_nat ac) (answer m) ++ firstn (N.to_nat nc) (nameserver m) ++ firstn (N.to_nat dc) adds)
      = Ok (recs, k) /\
    (N.to_nat ac <= length (answer m))%nat /\ (N.to_nat nc <= length (nameserver m))%nat /\
    (N.to_nat dc <= length adds)%nat /\
    (t = false -> N.to_nat ac = length (answer m) /\ N.to_nat nc = length (nameserver m) /\
                  N.to_nat dc = length adds) /\
    ((N.to_nat ac < length (answer m))%nat -> nc = 0 /\ dc = 0) /\
    ((N.to_nat nc < length (nameserver m))%nat -> dc = 0).
Proof.
  intros H. apply encode_sized_inv in H as (Hs & _ & qb & k0 & ab & k1 & ac & t1 & nb & k2 & nc & t2 & db & k3 & dc & t3 & Eq & H).
  cbv zeta in H. destruct H as (Ea & En & Ed & ->).
  destruct (push_rrs_prefix _ _ _ _ _ _ _ _ Ea) as (A1 & (ka & A2 & A2k) & A3 & _).
  destruct (sect_prefix _ _ _ _ _ _ _ _ _ En) as (N1 & (kn & N2 & N2k) & N3 & N4).
  destruct (sect_prefix _ _ _ _ _ _ _ _ _ Ed) as (D1 & (kd & D2 & D2k) & D3 & D4).
  assert (N2' : enc_rrs (12 + lenN (qb ++ be16 (qtype m) ++ be16 (qclass m)) + lenN ab) ka
                  (firstn (N.to_nat nc) (nameserver m)) = Ok (nb, if t1 then ka else kn)).
  { destruct t1.
    - destruct (N4 eq_refl) as [-> ->]. simpl in N2 |- *. inversion N2; subst. reflexivity.
    - rewrite (A2k eq_refl). exact N2. }
  assert (D2' : enc_rrs (12 + lenN (qb ++ be16 (qtype m) ++ be16 (qclass m)) + lenN ab + lenN nb)
                  (if t1 then ka else kn) (firstn (N.to_nat dc) (additional m ++ opt_rr m))
                = Ok (db, if t2 then (if t1 then ka else kn) else kd)).
  { destruct t2.
    - destruct (D4 eq_refl) as [-> ->]. simpl in D2 |- *. inversion D2; subst. reflexivity.
    - destruct (N3 eq_refl) as [-> _]. rewrite (N2k eq_refl). exact D2. }
  exists qb, k0, (ab ++ nb ++ db), (if t2 then (if t1 then ka else kn) else kd), ac, nc, dc, t3.
  split; auto. cbv zeta. split; [reflexivity|]. split.
  - eapply enc_rrs_app; [exact A2|]. eapply enc_rrs_app; [exact N2'|]. exact D2'.
  - split; auto. split; auto. split; auto. split; [|split].
    + intros ->. destruct (D3 eq_refl) as [-> Hd]. destruct (N3 eq_refl) as [-> Hn]. auto.
    + intros Hlt. destruct t1; [|specialize (A3 eq_refl); lia].
      destruct (N4 eq_refl) as [-> ->]. destruct (D4 eq_refl) as [-> _]. auto.
    + intros Hlt. destruct t2; [|destruct (N3 eq_refl); lia].
      destruct (D4 eq_refl) as [-> _]. auto.
Qed.

Lemma sized_wellformed_partial m size e :
  wf_name (qname m) = true -> encode_sized m size = Ok e ->
  lenN e <= size /\
  exists qb k0 recs k ac nc dc t,
    push_name 12 [] (qname m) = Ok (qb, k0) /\
    let qbytes := qb ++ be16 (qtype m) ++ be16 (qclass m) in
    let adds := additional m ++ opt_rr m in
    e = be16 (qid m) ++ [flag1 m t; flag2 m] ++ be16 1 ++ be16 ac ++ be16 nc ++ be16 dc ++ qbytes ++ recs /\
    enc_rrs (12 + lenN qbytes) k0
      (firstn (N.to_nat ac) (answer m) ++ firstn (N.to_nat nc) (nameserver m) ++ firstn (N.to_nat dc) adds)
      = Ok (recs, k) /\
    (N.to_nat ac <= length (answer m))%nat /\ (N.to_nat nc <= length (nameserver m))%nat /\
    (N.to_nat dc <= length adds)%nat /\
    (t = false -> N.to_nat ac = length (answer m) /\ N.to_nat nc = length (nameserver m) /\
                  N.to_nat dc = length adds) /\
    ((N.to_nat ac < length (answer m))%nat -> nc = 0 /\ dc = 0) /\
    ((N.to_nat nc < length (nameserver m))%nat -> dc = 0).
Proof. intros Hq H. split; [eapply encode_sized_within; eauto|now apply (encode_sized_shape m size e)]. Qed.

(* Proofs about the DNS message codec (C04 / C14 at the packet level). *)
From Erbium Require Import Lib.Base Model.DnsName Model.DnsCodec Model.DnsEncodeSized Proofs.DnsName.

Lemma obind_ok {A B} (o : outcome A) (f : A -> outcome B) r :
  obind o f = Ok r -> exists a, o = Ok a /\ f a = Ok r.
Proof. destruct o; simpl; intros; try discriminate; eauto. Qed.

Ltac inv_bind H :=
  let a := fresh "a" in let E := fresh "E" in
  apply obind_ok in H as (a & E & H); try (destruct a as [? ?]).

(* parse.rs:352 -- the advertised size handed to the serialiser is never below 512 *)
Lemma decode_bufsize_floor b q : decode b = Ok q -> 512 <= bufsize q.
Proof.
  unfold decode. intros H.
  do 4 inv_bind H.
  match type of H with (if ?c then _ else _) = _ => destruct c; [discriminate|] end.
  do 9 inv_bind H.
  inversion H; subst; cbn [bufsize]. lia.
Qed.

From Erbium Require Import Lib.Base Model.DhcpPolicy Model.DhcpPolicySpec Model.DhcpAddrs Model.DhcpAddrsSpec Proofs.DhcpPolicy.

Lemma hosts_spec net len x :
  hosts net len x = ((net <? x) && (x <? net + 2 ^ (32 - len) - 1)).
Proof.
  unfold hosts. apply Bool.eq_true_iff_eq. rewrite !Bool.andb_true_iff, !N.leb_le, !N.ltb_lt.
  assert (0 < 2 ^ (32 - len)) by (apply N.neq_0_lt_0, N.pow_nonzero; discriminate). lia.
Qed.

(* Proofs about Model/DhcpAddrs.v (loader, built-in base policy, walk) against
   Model/DhcpAddrsSpec.v (the documented address set). *)
From Erbium Require Import Lib.Base Model.DhcpPolicy Model.DhcpPolicySpec Model.DhcpAddrs Model.DhcpAddrsSpec
  Proofs.DhcpPolicy.

(* ---- induction over abstract policy trees -------------------------------- *)
Section CPolicyInd.
  Variable P : cpolicy -> Prop.
  Hypothesis H : forall sn ch mo ao ad kids, Forall P kids -> P (CPolicy sn ch mo ao ad kids).
  Fixpoint cpolicy_ind' (c : cpolicy) : P c :=
    match c with
    | CPolicy sn ch mo ao ad kids =>
      H sn ch mo ao ad kids
        ((fix go (l : list cpolicy) : Forall P l :=
            match l with
            | [] => Forall_nil P
            | q :: r => Forall_cons q (cpolicy_ind' q) (go r)
            end) kids)
    end.
End CPolicyInd.

(* ---- host range ----------------------------------------------------------- *)
Lemma hosts_spec net len x :
  hosts net len x = ((net <? x) && (x <? net + 2 ^ (32 - len) - 1)).
Proof.
  unfold hosts. apply Bool.eq_true_iff_eq. rewrite !Bool.andb_true_iff, !N.leb_le, !N.ltb_lt.
  assert (0 < 2 ^ (32 - len)) by (apply N.neq_0_lt_0, N.pow_nonzero; discriminate). lia.
Qed.

Lemma item_mem_doc x i : item_mem x i = doc_item x i.
Proof. destruct i; simpl; try reflexivity. apply hosts_spec. Qed.

Lemma items_doc x l : existsb (item_mem x) l = existsb (doc_item x) l.
Proof. induction l as [|j l IHl]; [reflexivity|]. simpl. rewrite item_mem_doc, IHl. reflexivity. Qed.

Lemma named_names c x : existsb (item_mem x) (c_addrs c) = names c x.
Proof.
  unfold names. induction (c_addrs c) as [|i r IH]; [reflexivity|]. simpl. rewrite item_mem_doc, IH. reflexivity.
Qed.

(* ---- unfolding equations --------------------------------------------------- *)
Lemma load_unfold c :
  load c =
  Policy false (c_subnet c) (c_chaddr c) (load_opts (c_match c)) (load_opts (c_apply c))
    (match c_addrs c with
     | [] => None
     | items => Some (fun x => existsb (item_mem x) items && negb (used_all (map load (c_kids c)) x))
     end)
    (map load (c_kids c)).
Proof.
  destruct c as [sn ch mo ao ad kids]. simpl.
  assert (E : (fix go (cs : list cpolicy) : list policy :=
                 match cs with [] => [] | d :: r => load d :: go r end) kids = map load kids).
  { induction kids as [|d r IH]; [reflexivity|]. simpl. rewrite IH. reflexivity. }
  rewrite E. reflexivity.
Qed.

Lemma cmatches_unfold req c :
  cmatches req c =
  match cconds c with
  | [] => existsb (cmatches req) (c_kids c)
  | cs => forallb (holds req) cs
  end.
Proof.
  destruct c as [sn ch mo ao ad kids]. simpl.
  destruct (cconds (CPolicy sn ch mo ao ad kids)); [|reflexivity].
  induction kids as [|q r IH]; [reflexivity|]. simpl. rewrite <- IH. reflexivity.
Qed.

Lemma cselected_in_unfold req c :
  cselected_in req c = c :: cselected req (c_kids c).
Proof.
  destruct c as [sn ch mo ao ad kids]. simpl. f_equal.
  induction kids as [|q r IH]; [reflexivity|]. simpl.
  destruct (cmatches req q); [reflexivity|]. exact IH.
Qed.

Lemma names_deep_unfold c x :
  names_deep c x = names c x || existsb (fun d => names_deep d x) (c_kids c).
Proof.
  destruct c as [sn ch mo ao ad kids]. cbn [names_deep c_kids]. reflexivity.
Qed.

Lemma used_rt_unfold p x :
  used_rt p x = (match p_addr p with Some f => f x | None => false end) || used_all (p_kids p) x.
Proof.
  destruct p as [a sn ch mo ao ad kids]. cbn [used_rt p_kids p_addr]. reflexivity.
Qed.

(* ---- the loader preserves conditions and selection ------------------------- *)
Lemma conds_load c : conds (load c) = cconds c.
Proof.
  rewrite load_unfold. unfold conds, cconds. simpl. do 2 f_equal.
  unfold load_opts. rewrite map_map. apply map_ext. intros [k [v|]]; reflexivity.
Qed.

Lemma matches_load req : forall c, matches req (load c) = cmatches req c.
Proof.
  induction c as [sn ch mo ao ad kids IH] using cpolicy_ind'.
  rewrite matches_unfold, cmatches_unfold, conds_load.
  destruct (cconds (CPolicy sn ch mo ao ad kids)); [|reflexivity].
  rewrite load_unfold. simpl p_kids. simpl c_kids.
  induction IH as [|q r Hq _ IHr]; [reflexivity|]. simpl. rewrite Hq, IHr. reflexivity.
Qed.

Lemma selected_load req : forall c, selected_in req (load c) = map load (cselected_in req c).
Proof.
  induction c as [sn ch mo ao ad kids IH] using cpolicy_ind'.
  rewrite selected_in_unfold, cselected_in_unfold. simpl map. f_equal.
  rewrite load_unfold. simpl p_kids. simpl c_kids. unfold first_chain.
  induction IH as [|q r Hq _ IHr]; [reflexivity|]. simpl.
  rewrite matches_load. destruct (cmatches req q); [exact Hq|exact IHr].
Qed.

Lemma first_chain_load req cs : first_chain req (map load cs) = map load (cselected req cs).
Proof.
  unfold first_chain. induction cs as [|q r IH]; [reflexivity|]. simpl.
  rewrite matches_load. destruct (cmatches req q); [apply selected_load|exact IH].
Qed.

(* ---- get_all_used_addresses = every address named in the subtree ----------- *)
Lemma used_load x : forall c, used_rt (load c) x = names_deep c x.
Proof.
  induction c as [sn ch mo ao ad kids IH] using cpolicy_ind'.
  rewrite used_rt_unfold, names_deep_unfold, load_unfold. simpl p_addr. simpl p_kids. simpl c_kids.
  assert (U : used_all (map load kids) x = existsb (fun d => names_deep d x) kids).
  { unfold used_all. induction IH as [|q r Hq _ IHr]; [reflexivity|]. simpl. rewrite Hq, IHr. reflexivity. }
  rewrite U. unfold names. simpl c_addrs.
  destruct ad as [|i r]; [reflexivity|].
  rewrite ?U. rewrite <- (items_doc x (i :: r)). simpl.
  destruct (item_mem x i), (existsb (item_mem x) r), (existsb (fun d => names_deep d x) kids); reflexivity.
Qed.

Lemma used_all_load x cs : used_all (map load cs) x = existsb (fun d => names_deep d x) cs.
Proof.
  unfold used_all. induction cs as [|q r IH]; [reflexivity|]. simpl. rewrite used_load, IH. reflexivity.
Qed.

Lemma addr_load c x :
  match p_addr (load c) with
  | Some f => f x
  | None => false
  end = names c x && negb (existsb (fun d => names_deep d x) (c_kids c)).
Proof.
  rewrite load_unfold. simpl p_addr. unfold names.
  destruct (c_addrs c) as [|i r] eqn:E; [reflexivity|].
  rewrite used_all_load. rewrite <- (items_doc x (i :: r)). reflexivity.
Qed.

Lemma addr_load_none c : (p_addr (load c) = None) <-> c_addrs c = [].
Proof.
  rewrite load_unfold. simpl p_addr. destruct (c_addrs c); split; congruence.
Qed.

(* ---- the address set a chain leaves ---------------------------------------- *)
Definition last_addr (ch : list policy) (a : option (N -> bool)) : option (N -> bool) :=
  fold_left (fun acc p => match p_addr p with Some f => Some f | None => acc end) ch a.

Lemma chain_addr req ch : forall resp, rs_addr (apply_chain req ch resp) = last_addr ch (rs_addr resp).
Proof.
  induction ch as [|p rest IH]; intros resp; [reflexivity|]. simpl. rewrite IH. simpl.
  unfold own_addr. destruct (p_addr p); reflexivity.
Qed.

Lemma last_addr_load req cs a x :
  match last_addr (map load (cselected req cs)) a with Some f => f x | None => false end =
  match deciding req cs with
  | Some c => names c x && negb (existsb (fun d => names_deep d x) (c_kids c))
  | None => match a with Some f => f x | None => false end
  end.
Proof.
  unfold deciding, last_addr. generalize (cselected req cs) as ch. intros ch.
  assert (G : forall (acc : option cpolicy) (a' : option (N -> bool)),
            (match a' with Some f => f x | None => false end =
             match acc with
             | Some c => names c x && negb (existsb (fun d => names_deep d x) (c_kids c))
             | None => match a with Some f => f x | None => false end
             end) ->
            match fold_left (fun acc p => match p_addr p with Some f => Some f | None => acc end) (map load ch) a'
            with Some f => f x | None => false end =
            match fold_left (fun acc c => match c_addrs c with [] => acc | _ => Some c end) ch acc with
            | Some c => names c x && negb (existsb (fun d => names_deep d x) (c_kids c))
            | None => match a with Some f => f x | None => false end
            end).
  { induction ch as [|c r IH]; intros acc a' Hinv; [exact Hinv|]. simpl. apply IH.
    pose proof (addr_load c x) as A. pose proof (addr_load_none c) as Nn.
    destruct (p_addr (load c)) as [f|].
    - destruct (c_addrs c); [destruct Nn as [_ Nn]; discriminate (Nn eq_refl)|]. exact A.
    - destruct Nn as [Nn _]. rewrite (Nn eq_refl). exact Hinv. }
  apply G. reflexivity.
Qed.

(* ---- the built-in base policy ----------------------------------------------- *)
Definition prefixes_ok (l : list prefix_item) : bool :=
  forallb (fun p => match p with P4 n len => prefix_ok n len | P6 => true end) l.

Lemma base_pool g req conf x l :
  prefixes_ok l = true ->
  match last_addr (first_chain req (flat_map (default_subpolicy g req conf) l)) None with
  | Some f => f x
  | None => false
  end =
  match receiving_prefix (r_serverip req) l with
  | Some (net, len) => hosts net len x && negb (x =? r_serverip req) && negb (used_all conf x)
  | None => false
  end.
Proof.
  unfold first_chain. induction l as [|[net len|] r IH]; intros Hok; [reflexivity| |].
  - simpl in Hok. apply Bool.andb_true_iff in Hok. destruct Hok as [Hp Hr].
    unfold prefix_ok in Hp. apply Bool.andb_true_iff in Hp. destruct Hp as [Hp _].
    apply Bool.andb_true_iff in Hp. destruct Hp as [_ Hal]. apply N.eqb_eq in Hal.
    simpl flat_map. simpl receiving_prefix. cbn [app selected].
    rewrite matches_unfold. cbn [conds p_all p_chaddr p_subnet p_match app map forallb holds snd fst].
    rewrite Hal, Bool.andb_true_r.
    destruct (N.land (r_serverip req) (netmask len) =? net).
    + rewrite selected_in_unfold. cbn [p_kids first_chain selected last_addr fold_left p_addr]. reflexivity.
    + apply IH. exact Hr.
  - simpl in Hok. simpl flat_map. simpl receiving_prefix. apply IH. exact Hok.
Qed.

Lemma base_matches g req conf : matches req (build_default g req conf) = true.
Proof. rewrite matches_unfold. reflexivity. Qed.

Lemma walk_addr g req init :
  rs_addr (snd (policy_walk g req init)) =
  last_addr (first_chain req (conf_policies g))
    (last_addr (first_chain req (flat_map (default_subpolicy g req (conf_policies g)) (g_addresses g))) None).
Proof.
  unfold policy_walk. rewrite (walk_is_spec req [build_default g req (conf_policies g)]).
  cbn [selected]. rewrite base_matches.
  rewrite selected_in_unfold.
  rewrite walk_is_spec. unfold first_chain.
  destruct (selected req (conf_policies g)) as [ch|]; cbn [snd].
  - rewrite !chain_addr. reflexivity.
  - rewrite chain_addr. reflexivity.
Qed.

(* ---- the set the walk ends with is the documented set ----------------------- *)
Theorem allowed_is_documented g req x :
  wf_cfg g = true ->
  allowed g req x = documented g req x || ((x =? r_serverip req) && known_F20 g req).
Proof.
  intros Hwf. unfold wf_cfg in Hwf. apply Bool.andb_true_iff in Hwf. destruct Hwf as [Hpre _].
  unfold allowed, allowed_set. rewrite walk_addr. unfold conf_policies at 1.
  rewrite first_chain_load, last_addr_load.
  unfold documented, known_F20.
  destruct (deciding req (g_policies g)) as [c|].
  - destruct (N.eqb_spec x (r_serverip req)) as [->|Hne]; simpl.
    + reflexivity.
    + rewrite Bool.orb_false_r. reflexivity.
  - rewrite Bool.andb_false_r, Bool.orb_false_r.
    rewrite (base_pool g req (conf_policies g) x (g_addresses g) Hpre).
    destruct (receiving_prefix (r_serverip req) (g_addresses g)) as [[net len]|]; [|rewrite Bool.andb_false_r; reflexivity].
    rewrite hosts_spec. unfold conf_policies. rewrite used_all_load.
    destruct (net <? x), (x <? net + 2 ^ (32 - len) - 1), (x =? r_serverip req),
      (existsb (fun p => names_deep p x) (g_policies g)); reflexivity.
Qed.

(* the same, case by case: which pool decides *)
Lemma allowed_eq g req x :
  wf_cfg g = true ->
  allowed g req x =
  match deciding req (g_policies g) with
  | Some c => names c x && negb (existsb (fun d => names_deep d x) (c_kids c))
  | None =>
    match receiving_prefix (r_serverip req) (g_addresses g) with
    | Some (net, len) =>
      (net <? x) && (x <? net + 2 ^ (32 - len) - 1) && negb (x =? r_serverip req)
      && negb (existsb (fun p => names_deep p x) (g_policies g))
    | None => false
    end
  end.
Proof.
  intros Hwf. unfold wf_cfg in Hwf. apply Bool.andb_true_iff in Hwf. destruct Hwf as [Hpre _].
  unfold allowed, allowed_set. rewrite walk_addr. unfold conf_policies at 1.
  rewrite first_chain_load, last_addr_load.
  destruct (deciding req (g_policies g)) as [c|]; [reflexivity|].
  rewrite (base_pool g req (conf_policies g) x (g_addresses g) Hpre).
  destruct (receiving_prefix (r_serverip req) (g_addresses g)) as [[net len]|]; [|reflexivity].
  rewrite hosts_spec. unfold conf_policies. rewrite used_all_load. reflexivity.
Qed.

Lemma never_special g req x :
  wf_cfg g = true -> allowed g req x = true ->
  (x = r_serverip req -> known_F20 g req = true)
  /\ (deciding req (g_policies g) = None ->
      forall net len, receiving_prefix (r_serverip req) (g_addresses g) = Some (net, len) ->
      x <> r_serverip req /\ x <> net /\ x <> net + 2 ^ (32 - len) - 1).
Proof.
  intros Hwf Ha. split.
  - intros ->. rewrite (allowed_is_documented g req _ Hwf) in Ha.
    unfold documented in Ha. rewrite N.eqb_refl in Ha. simpl in Ha. exact Ha.
  - intros Hd net len Hp. rewrite (allowed_eq g req x Hwf), Hd, Hp in Ha.
    rewrite !Bool.andb_true_iff in Ha. destruct Ha as [[[A B] C] _].
    apply N.ltb_lt in A. apply N.ltb_lt in B. apply Bool.negb_true_iff, N.eqb_neq in C.
    repeat split; [exact C|lia|lia].
Qed.

Lemma subnet_item_never_special net len x :
  doc_item x (ASubnet net len) = true -> x <> net /\ x <> net + 2 ^ (32 - len) - 1.
Proof.
  simpl. rewrite Bool.andb_true_iff, !N.ltb_lt. lia.
Qed.

(* a single-address reservation: that address and no other *)
Lemma reservation_only g req c a x :
  wf_cfg g = true ->
  deciding req (g_policies g) = Some c -> c_addrs c = [AAddr a] ->
  allowed g req x = true -> x = a.
Proof.
  intros Hwf Hd Hc Ha. rewrite (allowed_eq g req x Hwf), Hd in Ha.
  apply Bool.andb_true_iff in Ha. destruct Ha as [Hn _]. unfold names in Hn. rewrite Hc in Hn.
  simpl in Hn. rewrite Bool.orb_false_r in Hn. apply N.eqb_eq. exact Hn.
Qed.

(* an address named by a more specific policy is not available to the clients
   of the enclosing policy; an address named by any policy is not available
   from the built-in pool *)
Lemma reservation_exclusive g req x :
  wf_cfg g = true ->
  (forall c d, deciding req (g_policies g) = Some c -> In d (c_kids c) -> names_deep d x = true ->
               allowed g req x = false)
  /\ (forall p, deciding req (g_policies g) = None -> In p (g_policies g) -> names_deep p x = true ->
                allowed g req x = false).
Proof.
  intros Hwf. split.
  - intros c d Hd Hin Hn. rewrite (allowed_eq g req x Hwf), Hd.
    assert (E : existsb (fun d => names_deep d x) (c_kids c) = true)
      by (apply existsb_exists; exists d; split; assumption).
    rewrite E. apply Bool.andb_false_r.
  - intros p Hd Hin Hn. rewrite (allowed_eq g req x Hwf), Hd.
    destruct (receiving_prefix _ _) as [[net len]|]; [|reflexivity].
    assert (E : existsb (fun p => names_deep p x) (g_policies g) = true)
      by (apply existsb_exists; exists p; split; assumption).
    rewrite E. apply Bool.andb_false_r.
Qed.

(* F20: the receiving address can be in the set (the code as it is) *)
Definition f20_cfg : config :=
  {| g_dns := None; g_search := []; g_portal := None; g_addresses := [];
     g_policies := [CPolicy (Some (167772160, 24)) None [] [] [ASubnet 167772160 24] []] |}.
Definition f20_req : request :=
  {| r_serverip := 167772161; r_mtu := None; r_router := None; r_chaddr := []; r_opts := [] |}.
Lemma server_ip_refuted :
  exists g req, wf_cfg g = true /\ known_F20 g req = true /\ allowed g req (r_serverip req) = true.
Proof. exists f20_cfg, f20_req. vm_compute. repeat split. Qed.

(* ---- top-level defaults apply unless a policy of the chain overrides them --- *)
Lemma dns_v4_doc sip l : dns_v4 sip l = doc_dns sip l.
Proof.
  unfold dns_v4, doc_dns. induction l as [|d r IH]; [reflexivity|]. simpl. rewrite IH.
  destruct d; try reflexivity. destruct (x =? 0); reflexivity.
Qed.

Lemma last_for_none k (l : list (N * option (list N))) :
  (forall e, In e l -> fst e <> k) -> last_for k l = None.
Proof.
  intros Hn. unfold last_for. destruct (find _ (rev l)) as [e|] eqn:F; [|reflexivity].
  apply find_some in F. destruct F as [Hin He]. apply in_rev in Hin. apply N.eqb_eq in He.
  exfalso. exact (Hn e Hin He).
Qed.

Lemma base_sub_chain_value g req conf k l v :
  k <> 26 -> k <> 3 ->
  chain_value k (first_chain req (flat_map (default_subpolicy g req conf) l)) v = v.
Proof.
  intros H26 H3. unfold first_chain. induction l as [|[net len|] r IH]; [reflexivity| |exact IH].
  simpl flat_map. cbn [app selected].
  destruct (matches req _); [|exact IH].
  rewrite selected_in_unfold. cbn [p_kids first_chain selected chain_value p_apply].
  rewrite last_for_none; [reflexivity|].
  unfold OPTION_MTUIF, OPTION_ROUTERADDR.
  intros e Hin. destruct (prefix_contains net len (r_serverip req)), (r_mtu req), (r_router req);
    simpl in Hin;
    repeat (destruct Hin as [Hin|Hin]; [subst e; simpl; intros Hx; symmetry in Hx; contradiction|]);
    contradiction.
Qed.

Lemma defaults_unless_overridden g req init k :
  requested req k = true -> k = 6 \/ k = 119 \/ k = 114 ->
  tget k (rs_opts (snd (policy_walk g req init))) =
  chain_value k (match selected req (conf_policies g) with Some ch => ch | None => [] end)
    (top_level_default g req k).
Proof.
  intros Hr Hk.
  assert (Hn : k <> 1 /\ k <> 28 /\ k <> 26 /\ k <> 3) by (destruct Hk as [->|[->| ->]]; repeat split; discriminate).
  destruct Hn as [H1 [H28 [H26 H3]]].
  unfold policy_walk. rewrite (walk_is_spec req [build_default g req (conf_policies g)]).
  cbn [selected]. rewrite base_matches, selected_in_unfold, walk_is_spec.
  assert (B : tget k (rs_opts (apply_chain req
               (build_default g req (conf_policies g) :: first_chain req (p_kids (build_default g req (conf_policies g))))
               {| rs_opts := init; rs_addr := None |})) = top_level_default g req k).
  { rewrite chain_value_get by assumption. cbn [chain_value p_kids build_default].
    rewrite base_sub_chain_value by assumption.
    unfold top_level_default. rewrite <- dns_v4_doc.
    destruct Hk as [->|[->| ->]]; reflexivity. }
  destruct (selected req (conf_policies g)) as [ch|]; cbn [snd].
  - rewrite chain_value_get by assumption. rewrite B. reflexivity.
  - exact B.
Qed.

(* ---- defaults derived from the receiving interface ------------------------- *)
Lemma base_sub_chain g req conf l :
  prefixes_ok l = true ->
  first_chain req (flat_map (default_subpolicy g req conf) l) =
  match receiving_prefix (r_serverip req) l with
  | Some (net, len) => default_subpolicy g req conf (P4 net len)
  | None => []
  end
  /\ match receiving_prefix (r_serverip req) l with
     | Some (net, len) => N.land net (netmask len) = net /\ prefix_contains net len (r_serverip req) = true
     | None => True
     end.
Proof.
  unfold first_chain. induction l as [|[net len|] r IH]; intros Hok; [split; [reflexivity|exact I]| |].
  - simpl in Hok. apply Bool.andb_true_iff in Hok. destruct Hok as [Hp Hr].
    unfold prefix_ok in Hp. apply Bool.andb_true_iff in Hp. destruct Hp as [Hp _].
    apply Bool.andb_true_iff in Hp. destruct Hp as [_ Hal]. apply N.eqb_eq in Hal.
    simpl flat_map. simpl receiving_prefix. cbn [app selected].
    rewrite matches_unfold. cbn [conds p_all p_chaddr p_subnet p_match app map forallb holds snd fst].
    rewrite Hal, Bool.andb_true_r.
    destruct (N.land (r_serverip req) (netmask len) =? net) eqn:E.
    + rewrite selected_in_unfold. cbn [p_kids first_chain selected]. unfold default_subpolicy.
      split; [rewrite Hal; reflexivity|]. split; [exact Hal|]. unfold prefix_contains. exact E.
    + apply IH. exact Hr.
  - simpl in Hok. simpl flat_map. simpl receiving_prefix. apply IH. exact Hok.
Qed.

Lemma interface_defaults g req init k :
  wf_cfg g = true -> requested req k = true -> tget k init = None ->
  k = 26 \/ k = 3 \/ ((k = 1 \/ k = 28) /\ receiving_prefix (r_serverip req) (g_addresses g) <> None) ->
  tget k (rs_opts (snd (policy_walk g req init))) =
  chain_value k (match selected req (conf_policies g) with Some ch => ch | None => [] end)
    (interface_default g req k).
Proof.
  intros Hwf Hr Hi Hk. unfold wf_cfg in Hwf. apply Bool.andb_true_iff in Hwf. destruct Hwf as [Hpre _].
  unfold policy_walk. rewrite (walk_is_spec req [build_default g req (conf_policies g)]).
  cbn [selected]. rewrite base_matches, selected_in_unfold, walk_is_spec.
  cbn [p_kids build_default].
  destruct (base_sub_chain g req (conf_policies g) (g_addresses g) Hpre) as [Hsub Hal].
  rewrite Hsub. unfold interface_default.
  set (r0 := {| rs_opts := init; rs_addr := None |}).
  set (base := build_default g req (conf_policies g)).
  assert (Hbase : forall k', k' <> 6 -> k' <> 119 -> k' <> 114 -> last_for k' (p_apply base) = None).
  { intros k' A B C. apply last_for_none. subst base. unfold build_default, OPTION_DOMAINSERVER, OPTION_DOMAINSEARCH, OPTION_CAPTIVEPORTAL.
    cbn [p_apply]. intros e Hin. simpl in Hin.
    repeat (destruct Hin as [Hin|Hin]; [subst e; simpl; intros Hx; symmetry in Hx; contradiction|]); contradiction. }
  assert (Hk6 : k <> 6 /\ k <> 119 /\ k <> 114).
  { destruct Hk as [->|[->|[[->| ->] _]]]; repeat split; discriminate. }
  destruct Hk6 as [K6 [K119 K114]].
  (* value after the base chain *)
  assert (B : tget k (rs_opts (apply_chain req
                (base :: match receiving_prefix (r_serverip req) (g_addresses g) with
                         | Some (net, len) => default_subpolicy g req (conf_policies g) (P4 net len)
                         | None => [] end) r0)) =
              match receiving_prefix (r_serverip req) (g_addresses g) with
              | Some (net, len) =>
                if k =? 1 then Some (Some (be32 (netmask len)))
                else if k =? 28 then Some (Some (be32 (N.lor net (U32MAX - netmask len))))
                else if k =? 26 then option_map (fun m => Some (be16 (m mod 65536))) (r_mtu req)
                else if k =? 3 then option_map (fun r => Some (be32 r)) (r_router req)
                else None
              | None => None
              end).
  { destruct (receiving_prefix (r_serverip req) (g_addresses g)) as [[net len]|].
    - destruct Hal as [Hal Hc].
      destruct Hk as [->|[->|[[->| ->] _]]].
      + (* 26 *) rewrite chain_value_get by (assumption || discriminate).
        cbn [chain_value]. rewrite Hbase by discriminate. subst r0. cbn [rs_opts]. rewrite Hi.
        unfold default_subpolicy. cbn [chain_value p_apply]. rewrite Hc.
        unfold last_for, OPTION_MTUIF, OPTION_ROUTERADDR. destruct (r_mtu req), (r_router req); reflexivity.
      + (* 3 *) rewrite chain_value_get by (assumption || discriminate).
        cbn [chain_value]. rewrite Hbase by discriminate. subst r0. cbn [rs_opts]. rewrite Hi.
        unfold default_subpolicy. cbn [chain_value p_apply]. rewrite Hc.
        unfold last_for, OPTION_MTUIF, OPTION_ROUTERADDR. destruct (r_mtu req), (r_router req); reflexivity.
      + (* 1 *) unfold default_subpolicy. cbn [apply_chain rs_opts rs_addr].
        assert (S0 : forall t, subnet_opts req base t = t) by (intros t; reflexivity).
        rewrite S0.
        rewrite (subnet_opts_sets_netmask req _ (N.land net (netmask len), len)); [reflexivity|reflexivity|exact Hr|].
        rewrite apply_own_get, Hr. rewrite last_for_none.
        * rewrite apply_own_get, Hr, Hbase by discriminate. exact Hi.
        * cbn [p_apply]. unfold OPTION_MTUIF, OPTION_ROUTERADDR. intros e Hin.
          destruct (prefix_contains net len (r_serverip req)), (r_mtu req), (r_router req); simpl in Hin;
            repeat (destruct Hin as [Hin|Hin]; [subst e; simpl; discriminate|]); contradiction.
      + (* 28 *) unfold default_subpolicy. cbn [apply_chain rs_opts rs_addr].
        assert (S0 : forall t, subnet_opts req base t = t) by (intros t; reflexivity).
        rewrite S0.
        rewrite (subnet_opts_sets_broadcast req _ (N.land net (netmask len), len)); [|reflexivity|exact Hr|].
        * unfold subnet_broadcast, subnet_network. cbn [fst snd]. rewrite !Hal. reflexivity.
        * rewrite apply_own_get, Hr. rewrite last_for_none.
          -- rewrite apply_own_get, Hr, Hbase by discriminate. exact Hi.
          -- cbn [p_apply]. unfold OPTION_MTUIF, OPTION_ROUTERADDR. intros e Hin.
             destruct (prefix_contains net len (r_serverip req)), (r_mtu req), (r_router req); simpl in Hin;
               repeat (destruct Hin as [Hin|Hin]; [subst e; simpl; discriminate|]); contradiction.
    - destruct Hk as [->|[->|[_ Hx]]]; [| |congruence].
      + rewrite chain_value_get by (assumption || discriminate). cbn [chain_value].
        rewrite Hbase by discriminate. exact Hi.
      + rewrite chain_value_get by (assumption || discriminate). cbn [chain_value].
        rewrite Hbase by discriminate. exact Hi. }
  (* the dhcp-policies chain on top of it *)
  set (r1 := apply_chain req _ r0) in *.
  destruct (selected req (conf_policies g)) as [ch|]; cbn [snd]; [|exact B].
  destruct (tget k (rs_opts r1)) as [v|] eqn:T.
  - rewrite (chain_value_get_present req k ch Hr r1 v T). rewrite <- B. reflexivity.
  - (* nothing there yet: only possible for 26 / 3 *)
    destruct Hk as [->|[->|[[->| ->] Hx]]].
    + rewrite chain_value_get by (assumption || discriminate). rewrite T, <- B. reflexivity.
    + rewrite chain_value_get by (assumption || discriminate). rewrite T, <- B. reflexivity.
    + destruct (receiving_prefix (r_serverip req) (g_addresses g)) as [[net len]|]; [discriminate B|congruence].
    + destruct (receiving_prefix (r_serverip req) (g_addresses g)) as [[net len]|]; [discriminate B|congruence].
Qed.

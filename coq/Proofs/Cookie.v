(* Lemmas about Model/Cookie.v (property C16, cookie exemption). *)
From Erbium Require Import Lib.Base Lib.ListEqbFacts Model.Cookie.

Lemma bytes_eqb_spec : forall a b, bytes_eqb a b = true <-> a = b.
Proof. intros. unfold bytes_eqb. apply bytes_eqb_eq. Qed.

Section CookieFacts.
  Variable mac : list N -> list N -> list N.

  Lemma validate_key_good : forall opt local remote key,
    validate_key mac opt local remote key = Ok Good <->
    exists d, opt = Some d /\ 8 <= lenN d /\
              dropN 8 d = server_cookie mac key (takeN 8 d) local remote.
  Proof.
    intros opt local remote key. unfold validate_key. destruct opt as [d|].
    - destruct (N.ltb_spec (lenN d) 8) as [L|L].
      + split; [discriminate | intros (d' & E & H & _); inversion E; subst; lia].
      + destruct (bytes_eqb (dropN 8 d) (server_cookie mac key (takeN 8 d) local remote)) eqn:B.
        * apply bytes_eqb_spec in B. split; [intros _; exists d; auto | reflexivity].
        * split; [discriminate|]. intros (d' & E & _ & H). inversion E; subst.
          apply bytes_eqb_spec in H. congruence.
    - split; [discriminate | intros (d & E & _); discriminate].
  Qed.

  (* exempt iff the server part is the MAC, under the current or the previous key, of
     (client cookie, server address, client address) *)
  Lemma exempt_iff : forall opt local remote cur prev,
    exempt mac opt local remote cur prev = true <->
    exists d, opt = Some d /\ 8 <= lenN d /\
      (dropN 8 d = server_cookie mac cur (takeN 8 d) local remote \/
       dropN 8 d = server_cookie mac prev (takeN 8 d) local remote).
  Proof.
    intros opt local remote cur prev. unfold exempt, validate_keys.
    destruct (validate_key mac opt local remote cur) as [s| |] eqn:E1; simpl.
    - destruct s.
      + split; [discriminate|]. intros (d & -> & L & _). unfold validate_key in E1.
        destruct (N.ltb_spec (lenN d) 8); [lia|]. destruct (bytes_eqb _ _); discriminate.
      + destruct (validate_key mac opt local remote prev) as [s2| |] eqn:E2.
        * destruct s2; (split; [try discriminate | ]).
          -- intros (d & -> & L & [H|H]).
             ++ assert (validate_key mac (Some d) local remote cur = Ok Good) by (apply validate_key_good; eauto).
                congruence.
             ++ assert (validate_key mac (Some d) local remote prev = Ok Good) by (apply validate_key_good; eauto).
                congruence.
          -- intros (d & -> & L & [H|H]).
             ++ assert (validate_key mac (Some d) local remote cur = Ok Good) by (apply validate_key_good; eauto).
                congruence.
             ++ assert (validate_key mac (Some d) local remote prev = Ok Good) by (apply validate_key_good; eauto).
                congruence.
          -- intros _. apply validate_key_good in E2. destruct E2 as (d & -> & L & H). eauto.
          -- reflexivity.
        * split; [discriminate|]. intros (d & -> & L & [H|H]).
          -- assert (validate_key mac (Some d) local remote cur = Ok Good) by (apply validate_key_good; eauto).
             congruence.
          -- assert (validate_key mac (Some d) local remote prev = Ok Good) by (apply validate_key_good; eauto).
             congruence.
        * split; [discriminate|]. intros (d & -> & L & [H|H]).
          -- assert (validate_key mac (Some d) local remote cur = Ok Good) by (apply validate_key_good; eauto).
             congruence.
          -- assert (validate_key mac (Some d) local remote prev = Ok Good) by (apply validate_key_good; eauto).
             congruence.
      + split; [intros _ | reflexivity].
        apply validate_key_good in E1. destruct E1 as (d & -> & L & H). eauto.
    - split; [discriminate|]. intros (d & -> & L & _). unfold validate_key in E1.
      destruct (N.ltb_spec (lenN d) 8); [lia|]. destruct (bytes_eqb _ _); discriminate.
    - split; [discriminate|]. intros (d & -> & L & _). unfold validate_key in E1.
      destruct (N.ltb_spec (lenN d) 8); [lia|]. destruct (bytes_eqb _ _); discriminate.
  Qed.

  Lemma no_cookie_not_exempt : forall local remote cur prev,
    exempt mac None local remote cur prev = false.
  Proof. reflexivity. Qed.
End CookieFacts.

(* ---- the MAC input determines client cookie and both addresses -------------- *)
Lemma app_inj_length_l : forall {A} (a b c d : list A),
  a ++ b = c ++ d -> length a = length c -> a = c /\ b = d.
Proof.
  intros A a. induction a as [|x a IH]; intros b c d E L; destruct c as [|y c]; simpl in *; try discriminate.
  - auto.
  - inversion E; subst. destruct (IH _ _ _ H1 ltac:(lia)). subst. auto.
Qed.

Lemma cookie_data_inj : forall c l r c' l' r',
  length c = length c' -> length l = length l' ->
  cookie_data c l r = cookie_data c' l' r' -> c = c' /\ l = l' /\ r = r'.
Proof.
  intros c l r c' l' r' Lc Ll E. unfold cookie_data in E.
  destruct (app_inj_length_l _ _ _ _ E Lc) as [-> E2].
  destruct (app_inj_length_l _ _ _ _ E2 Ll) as [-> ->]. auto.
Qed.

(* with a collision-free MAC: a cookie issued under key k for (c', l', r') exempts a
   query with client cookie c arriving from r at l only if k is the current or previous
   key and c = c', l = l', r = r' (addresses of one family, client cookies of 8 octets) *)
Section Bound.
  Variable mac : list N -> list N -> list N.
  Hypothesis mac_inj : forall k d k' d', mac k d = mac k' d' -> k = k' /\ d = d'.

  Lemma cookie_bound_to_addresses : forall k c c' l l' r r' cur prev,
    lenN c = 8 -> lenN c' = 8 -> length l = length l' ->
    exempt mac (Some (c ++ server_cookie mac k c' l' r')) l r cur prev = true ->
    (k = cur \/ k = prev) /\ c = c' /\ l = l' /\ r = r'.
  Proof.
    intros k c c' l l' r r' cur prev Hc Hc' Hl H.
    apply exempt_iff in H. destruct H as (d & E & _ & H). inversion E; subst d. clear E.
    assert (Lc : length c = 8%nat) by (unfold lenN in Hc; lia).
    assert (Lc' : length c' = 8%nat) by (unfold lenN in Hc'; lia).
    assert (T : takeN 8 (c ++ server_cookie mac k c' l' r') = c).
    { unfold takeN. change (N.to_nat 8) with 8%nat. rewrite <- Lc.
      rewrite firstn_app, firstn_all, Nat.sub_diag. simpl. apply app_nil_r. }
    assert (D : dropN 8 (c ++ server_cookie mac k c' l' r') = server_cookie mac k c' l' r').
    { unfold dropN. change (N.to_nat 8) with 8%nat. rewrite <- Lc.
      rewrite skipn_app, skipn_all, Nat.sub_diag. reflexivity. }
    rewrite T, D in H. unfold server_cookie in H.
    destruct H as [H|H]; apply mac_inj in H; destruct H as [-> H];
      apply cookie_data_inj in H; try lia; destruct H as (-> & -> & ->); auto.
  Qed.
End Bound.

(* the hypothesis on the MAC is satisfiable: the stand-in used to run the model *)
Lemma free_mac_inj : forall k d k' d', free_mac k d = free_mac k' d' -> k = k' /\ d = d'.
Proof.
  intros k d k' d' E. unfold free_mac in E. inversion E as [[L E2]].
  apply app_inj_length_l in E2; [assumption|].
  unfold lenN in L. lia.
Qed.

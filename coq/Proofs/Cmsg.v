(* Proofs about Model/Cmsg.v *)
From Erbium Require Import Lib.Base Model.Cmsg.

Lemma ip4_ok_inv : forall o, ip4_ok o = true ->
  exists a b c d, o = [a; b; c; d] /\ a < 256 /\ b < 256 /\ c < 256 /\ d < 256.
Proof.
  intros o H. unfold ip4_ok in H. apply andb_true_iff in H. destruct H as [Hl Hb].
  apply N.eqb_eq in Hl. unfold lenN in Hl.
  destruct o as [|a [|b [|c [|d [|e r]]]]]; simpl in Hl; try lia.
  exists a, b, c, d. unfold bytes_ok in Hb. simpl in Hb. unfold byte_ok in Hb.
  repeat (apply andb_true_iff in Hb; destruct Hb as [? Hb]).
  repeat match goal with H : (_ <? _) = true |- _ => apply N.ltb_lt in H end.
  repeat split; assumption.
Qed.

Lemma mem_from_ne : forall a b c d, a < 256 -> b < 256 -> c < 256 -> d < 256 ->
  mem_bytes_le (from_ne_bytes_le [a; b; c; d]) = [a; b; c; d].
Proof.
  intros a b c d Ha Hb Hc Hd. unfold mem_bytes_le, from_ne_bytes_le.
  set (v := a + 256 * b + 65536 * c + 16777216 * d).
  assert (E0 : v mod 256 = a).
  { unfold v. replace (a + 256 * b + 65536 * c + 16777216 * d) with (a + (b + 256 * c + 65536 * d) * 256) by lia.
    rewrite N.mod_add by lia. apply N.mod_small; lia. }
  assert (D1 : v / 256 = b + 256 * c + 65536 * d).
  { unfold v. replace (a + 256 * b + 65536 * c + 16777216 * d) with (a + (b + 256 * c + 65536 * d) * 256) by lia.
    rewrite N.div_add by lia. rewrite N.div_small by lia. lia. }
  assert (E1 : (v / 256) mod 256 = b).
  { rewrite D1. replace (b + 256 * c + 65536 * d) with (b + (c + 256 * d) * 256) by lia.
    rewrite N.mod_add by lia. apply N.mod_small; lia. }
  assert (D2 : v / 65536 = c + 256 * d).
  { replace 65536 with (256 * 256) by reflexivity. rewrite <- N.div_div by lia. rewrite D1.
    replace (b + 256 * c + 65536 * d) with (b + (c + 256 * d) * 256) by lia.
    rewrite N.div_add by lia. rewrite N.div_small by lia. lia. }
  assert (E2 : (v / 65536) mod 256 = c).
  { rewrite D2. replace (c + 256 * d) with (c + d * 256) by lia.
    rewrite N.mod_add by lia. apply N.mod_small; lia. }
  assert (D3 : v / 16777216 = d).
  { replace 16777216 with (65536 * 256) by reflexivity. rewrite <- N.div_div by lia. rewrite D2.
    replace (c + 256 * d) with (c + d * 256) by lia.
    rewrite N.div_add by lia. rewrite N.div_small by lia. lia. }
  rewrite E0, E1, E2, D3. rewrite (N.mod_small d) by lia. reflexivity.
Qed.

Lemma source_address_roundtrip : forall ip, ip4_ok ip = true -> local_ip_of (pktinfo_for ip) = ip.
Proof.
  intros ip H. destruct (ip4_ok_inv ip H) as (a & b & c & d & -> & Ha & Hb & Hc & Hd).
  unfold local_ip_of, pktinfo_for, s_addr_of. apply mem_from_ne; assumption.
Qed.

Lemma source_address_orig_refuted :
  exists ip, ip4_ok ip = true /\ local_ip_of (pktinfo_orig ip) <> ip
             /\ ip = [127; 0; 0; 1] /\ local_ip_of (pktinfo_orig ip) = [1; 0; 0; 127].
Proof. exists [127; 0; 0; 1]. vm_compute. repeat split; congruence. Qed.

(* the unrepaired function reverses the octets of every address *)
Lemma s_addr_orig_be : forall a b c d, a < 256 -> b < 256 -> c < 256 -> d < 256 ->
  s_addr_orig [a; b; c; d] = d + 256 * c + 65536 * b + 16777216 * a.
Proof.
  intros a b c d Ha Hb Hc Hd. unfold s_addr_orig. cbn [fold_left].
  change ((0 * 256) mod 4294967296) with 0. rewrite N.lor_0_l.
  assert (L : forall x y, y < 256 -> N.lor (x * 256) y = x * 256 + y).
  { intros x y Hy.
    assert (Z : N.land (x * 256) y = 0).
    { replace (x * 256) with (N.shiftl x 8) by (rewrite N.shiftl_mul_pow2; reflexivity).
      apply N.bits_inj. intro n. rewrite N.land_spec, N.bits_0.
      destruct (N.ltb_spec n 8).
      + rewrite N.shiftl_spec_low by assumption. reflexivity.
      + replace (N.testbit y n) with false; [apply andb_false_r|]. symmetry.
        destruct (N.eq_dec y 0) as [->|Hy0]; [apply N.bits_0|].
        apply N.bits_above_log2. apply N.log2_lt_pow2; [lia|].
        apply N.lt_le_trans with (2 ^ 8); [exact Hy | apply N.pow_le_mono_r; lia]. }
    rewrite <- (N.lxor_lor _ _ Z). symmetry. apply N.add_nocarry_lxor. exact Z. }
  rewrite (N.mod_small (a * 256)) by lia. rewrite L by assumption.
  rewrite (N.mod_small ((a * 256 + b) * 256)) by lia. rewrite L by assumption.
  rewrite (N.mod_small (((a * 256 + b) * 256 + c) * 256)) by lia. rewrite L by assumption.
  lia.
Qed.

Lemma source_address_orig_reversed : forall ip, ip4_ok ip = true ->
  local_ip_of (pktinfo_orig ip) = rev ip.
Proof.
  intros ip H. destruct (ip4_ok_inv ip H) as (a & b & c & d & -> & Ha & Hb & Hc & Hd).
  unfold local_ip_of, pktinfo_orig. rewrite s_addr_orig_be by assumption.
  change (rev [a; b; c; d]) with [d; c; b; a].
  change (d + 256 * c + 65536 * b + 16777216 * a) with (from_ne_bytes_le [d; c; b; a]).
  apply mem_from_ne; assumption.
Qed.

(* (v) with (iv): the reply leaves from the address and port the query was sent to *)
Lemma reply_from_query_destination : forall q,
  (g_v6 q = false -> ip4_ok (g_dst_ip q) = true) ->
  g_src_ip (reply_dgram q) = g_dst_ip q /\ g_src_port (reply_dgram q) = g_dst_port q /\
  g_dst_ip (reply_dgram q) = g_src_ip q /\ g_dst_port (reply_dgram q) = g_src_port q.
Proof.
  intros q H. unfold reply_dgram. simpl. repeat split.
  destruct (g_v6 q) eqn:E; [reflexivity|]. apply source_address_roundtrip. auto.
Qed.

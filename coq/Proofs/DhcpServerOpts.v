(* The options the policy walk hands to the reply have distinct codes (so the only
   thing S03_wire still has to assume about them is that their values are octets
   and their codes are in 1..254). *)
From Erbium Require Import Lib.Base Model.DhcpCodec Model.DhcpPolicy Model.DhcpPolicySpec Model.DhcpAddrs
  Model.DhcpServer.
From Erbium Require Import Proofs.DhcpPolicy.

Lemma apply_policies_nodup : forall req ps resp,
  NoDup (tkeys (rs_opts resp)) -> NoDup (tkeys (rs_opts (snd (apply_policies req ps resp)))).
Proof.
  intros req ps resp H. rewrite walk_is_spec. destruct (selected req ps); simpl; [|exact H].
  apply apply_chain_nodup. exact H.
Qed.

Lemma init_table_nodup : forall req, NoDup (tkeys (init_table req)).
Proof. intros. unfold init_table. apply tset_nodup. apply tset_nodup. constructor. Qed.

Lemma walk_nodup : forall cfg req, NoDup (tkeys (rs_opts (snd (walk_of cfg req)))).
Proof.
  intros. unfold walk_of, policy_walk.
  destruct (apply_policies req [build_default (sc_conf cfg) req (conf_policies (sc_conf cfg))]
              {| rs_opts := init_table req; rs_addr := None |}) as [b1 r1] eqn:E1.
  destruct (apply_policies req (conf_policies (sc_conf cfg)) r1) as [b2 r2] eqn:E2. simpl.
  assert (N1 : NoDup (tkeys (rs_opts r1))).
  { pose proof (apply_policies_nodup req [build_default (sc_conf cfg) req (conf_policies (sc_conf cfg))]
                  {| rs_opts := init_table req; rs_addr := None |} (init_table_nodup req)) as X.
    rewrite E1 in X. exact X. }
  pose proof (apply_policies_nodup req (conf_policies (sc_conf cfg)) r1 N1) as X. rewrite E2 in X. exact X.
Qed.

Lemma to_options_keys : forall (t : table) k,
  existsb (fun o : N * list N => fst o =? k) (to_options t) = true -> In k (tkeys t).
Proof.
  induction t as [|[c v] t IH]; intros k H; simpl in *; [discriminate|].
  unfold to_options in H. simpl in H. destruct v as [v|]; simpl in H.
  - apply orb_true_iff in H. destruct H as [H|H]; [left; apply N.eqb_eq in H; exact H|right; apply IH; exact H].
  - right. apply IH. exact H.
Qed.

Lemma to_options_distinct : forall t : table, NoDup (tkeys t) -> keys_distinct (to_options t) = true.
Proof.
  induction t as [|[c v] t IH]; intro H; [reflexivity|].
  simpl in H. inversion H as [|? ? NI ND]; subst.
  unfold to_options. simpl. destruct v as [v|]; simpl; [|apply IH; exact ND].
  fold (to_options t). rewrite (IH ND). rewrite andb_true_r. apply negb_true_iff.
  destruct (existsb (fun o : N * list N => fst o =? c) (to_options t)) eqn:E; [|reflexivity].
  exfalso. apply NI. apply to_options_keys. exact E.
Qed.

Lemma walk_opts_distinct : forall cfg req,
  keys_distinct (to_options (rs_opts (snd (walk_of cfg req)))) = true.
Proof. intros. apply to_options_distinct. apply walk_nodup. Qed.

From Erbium Require Import Model.DhcpOptVal Model.DhcpPool Model.DhcpHandler Model.Frame Proofs.DhcpServer Proofs.DhcpServerWf.

Lemma wire_facts2 : forall cfg st t1 t2 e b ans st' f,
  server_step cfg st t1 t2 e b ans = Ok (st', Some f) ->
  bytes_ok b = true -> wf_env e ->
  (forall x, In x (sc_universe cfg) -> x < 4294967296) ->
  (forall m, decode b = Ok m ->
     forallb wf_option (to_options (rs_opts (snd (walk_of cfg (request_of e m))))) = true) ->
  exists m r mac,
    decode b = Ok m /\ reply_of cfg st t2 e b ans = Some r /\ mac = takeN 6 (d_chaddr m) /\
    f = udp4_frame (frame_args e m r mac) /\
    wf_dhcp r = true /\ decode (encode r) = Ok r /\
    (lenN (encode r) <= 65507 -> valid_frame (frame_args e m r mac) f = true).
Proof.
  intros cfg st t1 t2 e b ans st' f H B WE U PO.
  apply (wire_facts cfg st t1 t2 e b ans st' f H B WE U).
  intros m D. split; [exact (PO m D)|apply walk_opts_distinct].
Qed.

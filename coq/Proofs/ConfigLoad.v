(* Lemmas about Model/ConfigLoad.v: the whole loader never panics; an accepted
   document gives a cfg_safe configuration (property C19). *)
From Erbium Require Import Lib.Base Model.ConfigAst Model.DhcpOptTable Model.ConfigLoad Proofs.ConfigAst.
From Coq Require Import String.

Create HintDb np.
#[export] Hint Resolve np_ok np_err type_error_total parse_string_total parse_boolean_total
  parse_duration_total parse_array_total parse_string_prefix_total str_prefix_total
  acl_total dns_route_total pref64_total ra_prefix_total apply_subnet_total match_subnet_total
  route_prefix_total omap_total parse_string_ip_total : np.

(* decompose a goal [np e] along binds, ifs and matches; [IH] closes recursive calls *)
Ltac np_go IH :=
  repeat first
   [ apply np_ok | apply np_err | apply type_error_total | IH
   | solve [eauto with np]
   | (apply np_bind; [ | intros ? ? ])
   | match goal with
     | |- np (if ?b then _ else _) => destruct b
     | |- np (match ?x with _ => _ end) => destruct x
     end ].

Section Loader.
Variable ip_parse : list N -> option ip.
Variable ip4_parse : list N -> option N.
Variable sock_ok : list N -> bool.

Lemma req_total : forall A (o : outcome (option A)), np o -> np (req o).
Proof. intros A o H. unfold req. np_go fail. Qed.

Lemma parse_i64_total : forall y, np (parse_i64 y).
Proof. intros y; destruct y; simpl; np_go fail. Qed.
Lemma parse_num_total : forall hi y, np (parse_num hi y).
Proof. intros hi y. unfold parse_num. apply np_bind; [apply parse_i64_total|intros [i|] _]; np_go fail. Qed.
Lemma parse_string_hwaddr_total : forall y, np (parse_string_hwaddr y).
Proof. intros y. unfold parse_string_hwaddr. np_go fail. Qed.
Lemma str_ip4_total : forall s, np (str_ip4 ip_parse s).
Proof. intros s. unfold str_ip4. np_go fail. Qed.
Lemma str_ip6_total : forall s, np (str_ip6 ip_parse s).
Proof. intros s. unfold str_ip6. np_go fail. Qed.
Lemma parse_string_ip4_total : forall y, np (parse_string_ip4 ip_parse y).
Proof. intros y. unfold parse_string_ip4. np_go ltac:(apply str_ip4_total). Qed.
Lemma parse_string_ip6_total : forall y, np (parse_string_ip6 ip_parse y).
Proof. intros y. unfold parse_string_ip6. np_go ltac:(apply str_ip6_total). Qed.
Lemma parse_string_sockaddr_total : forall y, np (parse_string_sockaddr sock_ok y).
Proof. intros y. unfold parse_string_sockaddr. np_go fail. Qed.
Hint Resolve req_total parse_i64_total parse_num_total parse_string_hwaddr_total parse_string_ip4_total
  parse_string_ip6_total parse_string_sockaddr_total : np.

Lemma acl_full_total : forall y, np (acl_full ip_parse y).
Proof. intros y. unfold acl_full. np_go fail. Qed.
Lemma dns_route_full_total : forall y, np (dns_route_full ip_parse y).
Proof. intros y. unfold dns_route_full. np_go fail. Qed.
Hint Resolve acl_full_total dns_route_full_total : np.

Lemma rdnss_keys_total : forall h c, np (rdnss_keys ip_parse h c).
Proof.
  induction h as [|[k v] h IH]; intros c; cbn [rdnss_keys]; [apply np_ok|].
  np_go ltac:(apply IH).
Qed.
Lemma dnssl_keys_total : forall h c, np (dnssl_keys h c).
Proof.
  induction h as [|[k v] h IH]; intros c; cbn [dnssl_keys]; [apply np_ok|].
  unfold parse_domain. np_go ltac:(apply IH).
Qed.
Lemma parse_rdnss_total : forall y, np (parse_rdnss ip_parse y).
Proof. intros y; destruct y; simpl; np_go ltac:(apply rdnss_keys_total). Qed.
Lemma parse_dnssl_total : forall y, np (parse_dnssl y).
Proof. intros y; destruct y; simpl; np_go ltac:(apply dnssl_keys_total). Qed.
Lemma ra_prefix_opt_total : forall y, np (ra_prefix_opt ip_parse y).
Proof. intros y. unfold ra_prefix_opt. np_go fail. Qed.
Hint Resolve parse_rdnss_total parse_dnssl_total ra_prefix_opt_total : np.

Lemma interface_keys_total : forall h i, np (interface_keys ip_parse h i).
Proof.
  induction h as [|[k v] h IH]; intros i; cbn [interface_keys]; [apply np_ok|].
  np_go ltac:(apply IH).
Qed.

(* the maximum interval an interface keeps is within RFC 4861's range *)
Definition imax_ok (i : iface) : Prop := match i_max i with Some s => s <= 1800 | None => True end.
Lemma interface_keys_imax : forall h i i', imax_ok i -> interface_keys ip_parse h i = Ok i' -> imax_ok i'.
Proof.
  induction h as [|[k v] h IH]; intros i i' Hi; cbn [interface_keys]; intros H.
  { inversion H; subst; exact Hi. }
  destruct (key_str k) as [ks|]; [|exfalso; eapply type_error_not_ok; eassumption].
  repeat match type of H with
  | (if ?b then _ else _) = Ok _ => destruct b eqn:?
  end; try discriminate;
  try (apply obind_ok in H as [? [? H]]);
  try (eapply IH; [|exact H]; exact Hi).
  - (* max interval *)
    destruct x as [s|].
    + destruct ((s <? 4) || (1800 <? s))%bool eqn:E; [discriminate|].
      eapply IH; [|exact H]. unfold imax_ok; simpl. apply orb_false_iff in E as [_ E]. apply N.ltb_ge in E. exact E.
    + eapply IH; [|exact H]. exact I.
  - (* min interval *)
    destruct x as [s|].
    + destruct ((s <? 3) || (s <? 1350))%bool; [discriminate|]. eapply IH; [|exact H]. exact Hi.
    + eapply IH; [|exact H]. exact Hi.
Qed.

Lemma interval_crosscheck_total : forall i, imax_ok i -> np (interval_crosscheck i).
Proof.
  intros i Hi. unfold interval_crosscheck, imax_ok in *.
  destruct (i_min i) as [mn|]; [|apply np_ok]. destruct (i_max i) as [mx|]; [|apply np_ok].
  unfold mul_chk. change (pow2 64) with 18446744073709551616.
  rewrite (proj2 (N.ltb_lt (3 * mx) 18446744073709551616)) by lia. cbn [obind].
  destruct (3 * mx <? 4 * mn); [apply np_err|apply np_ok].
Qed.

Lemma parse_interface_total : forall y, np (parse_interface ip_parse y).
Proof.
  intros y; destruct y; simpl; try apply type_error_total.
  apply np_bind; [apply interface_keys_total|intros i Hi].
  apply interval_crosscheck_total. eapply interface_keys_imax; [|exact Hi]. exact I.
Qed.
Lemma ra_interfaces_total : forall h, np (ra_interfaces ip_parse h).
Proof.
  induction h as [|[k v] h IH]; cbn [ra_interfaces]; [apply np_ok|].
  destruct (key_str k); [|apply type_error_total].
  apply np_bind; [destruct v; apply parse_interface_total|intros i _].
  apply np_bind; [apply IH|intros; apply np_ok].
Qed.
Lemma parse_ra_total : forall y, np (parse_ra ip_parse y).
Proof. intros y; destruct y; simpl; try apply type_error_total; [apply np_err|apply ra_interfaces_total]. Qed.

(* ---- DHCP policies -------------------------------------------------------------- *)
Lemma parse_number_total : forall y, np (parse_number y).
Proof. intros y; destruct y; simpl; np_go fail. Qed.
Lemma in_range_total : forall lo hi o, np o -> np (in_range lo hi o).
Proof. intros lo hi o H. unfold in_range. apply np_bind; [exact H|intros [i|] _]; np_go fail. Qed.
Lemma dur_within_total : forall hi y, np (dur_within hi y).
Proof. intros hi y. unfold dur_within. np_go fail. Qed.
Lemma route_entry_keys_total : forall h p hop, np (route_entry_keys ip_parse ip4_parse h p hop).
Proof.
  induction h as [|[k v] h IH]; intros p hop; cbn [route_entry_keys]; [apply np_ok|].
  destruct k; try apply np_err. np_go ltac:(apply IH).
Qed.
Lemma route_entry_total : forall y, np (route_entry ip_parse ip4_parse y).
Proof.
  intros y; destruct y; simpl; try apply np_err.
  apply np_bind; [apply route_entry_keys_total|intros [p hop] _]. np_go fail.
Qed.
Lemma parse_routes_total : forall y, np (parse_routes ip_parse ip4_parse y).
Proof. intros y; destruct y; simpl; try apply np_err; [|apply np_ok]. apply omap_total. apply route_entry_total. Qed.
Hint Resolve parse_number_total in_range_total dur_within_total parse_routes_total : np.

Lemma parse_generic_total : forall name v, np (parse_generic ip_parse ip4_parse name v).
Proof.
  intros name v. unfold parse_generic. destruct (opt_lookup opt_table name) as [[code ty]|]; [|apply np_err].
  np_go fail.
Qed.
Lemma range_keys_total : forall h st en, np (range_keys ip_parse h st en).
Proof.
  induction h as [|[k v] h IH]; intros st en; cbn [range_keys]; [apply np_ok|].
  np_go ltac:(apply IH).
Qed.
Hint Resolve parse_generic_total range_keys_total : np.

Lemma policy_keys_total : forall (pp : yaml -> outcome (list pol)), (forall y, np (pp y)) ->
  forall h p, np (policy_keys ip_parse ip4_parse pp h p).
Proof.
  intros pp Hpp. induction h as [|[k v] h IH]; intros p; cbn [policy_keys]; [apply np_ok|].
  destruct (key_str k) as [ks|]; [|apply np_err].
  np_go ltac:(first [apply IH | apply Hpp]).
Qed.
Lemma parse_policies_total : forall fuel y, np (parse_policies ip_parse ip4_parse fuel y).
Proof.
  induction fuel as [|f IH]; intros y; cbn [parse_policies]; [apply np_err|].
  destruct y; try apply np_err. apply omap_total. intros x. destruct x; try apply np_err.
  apply policy_keys_total. exact IH.
Qed.

(* ---- the top level ------------------------------------------------------------------ *)
Lemma top_keys_total : forall fuel h t, np (top_keys ip_parse ip4_parse sock_ok fuel h t).
Proof.
  intros fuel. induction h as [|[k v] h IH]; intros t; cbn [top_keys]; [apply np_ok|].
  destruct (key_str k) as [ks|]; [|apply type_error_total].
  np_go ltac:(first [apply IH | apply parse_policies_total | apply parse_ra_total]).
Qed.

Lemma load_total : forall fuel ndocs y, np (load ip_parse ip4_parse sock_ok fuel ndocs y).
Proof.
  intros fuel ndocs y. unfold load. destruct (negb (ndocs =? 1)); [apply np_err|].
  destruct y; try apply np_err. apply top_keys_total.
Qed.

End Loader.

(* ================= an accepted document gives a safe configuration ================= *)
Ltac inv_step H :=
  match type of H with
  | Err _ = Ok _ => discriminate H
  | Panic _ = Ok _ => discriminate H
  | obind _ _ = Ok _ => let a := fresh "a" in let Ha := fresh "Ha" in apply obind_ok in H as [a [Ha H]]
  | (if ?b then _ else _) = Ok _ => destruct b eqn:?
  | match ?x with _ => _ end = Ok _ => destruct x eqn:?
  end.
Ltac inv_all H := repeat inv_step H.

Lemma Forall_flat_map' : forall A B (f : A -> list B) (Q : B -> Prop) l,
  Forall (fun x => Forall Q (f x)) l -> Forall Q (flat_map f l).
Proof. induction 1; simpl; [constructor|]. apply Forall_app; split; assumption. Qed.

Definition plen_ok (p : ipprefix) : Prop := prefix_len_ok p = true.
Definition iface_ok (i : iface) : Prop :=
  Forall (fun p => p_len p <= 128) (i_prefixes i) /\
  match i_pref64 i with Some p => pref64_len_ok (p_len p) = true | None => True end.
Definition pol_ok (p : pol) : Prop := Forall (fun l => l <= 32) (pl_subnets p).
Definition top_ok (t : top) : Prop :=
  match t_addresses t with Some l => Forall plen_ok l | None => True end /\
  match t_acls t with Some ll => Forall (Forall plen_ok) ll | None => True end /\
  Forall (fun r => route_ok r = true) (t_routes t) /\
  Forall iface_ok (t_ifaces t) /\ Forall pol_ok (t_policies t).

Section LoaderSafe.
Variable ip_parse : list N -> option ip.
Variable ip4_parse : list N -> option N.
Variable sock_ok : list N -> bool.

Lemma req_ok : forall A (o : outcome (option A)) x, req o = Ok x -> o = Ok (Some x).
Proof. intros A o x H. unfold req in H. apply obind_ok in H as [v [Hv H]]. destruct v; inversion H; subst; first [exact Hv | reflexivity]. Qed.

Lemma ra_prefix_opt_ok : forall y p, ra_prefix_opt ip_parse y = Ok (Some p) -> p_len p <= 128.
Proof.
  intros y p H. unfold ra_prefix_opt in H. apply obind_ok in H as [q [Hq H]].
  destruct (128 <? p_len q); [discriminate|]. inversion H; subst. eapply ra_prefix_safe; eassumption.
Qed.

Lemma interface_keys_ok : forall h i i', iface_ok i -> interface_keys ip_parse h i = Ok i' -> iface_ok i'.
Proof.
  induction h as [|[k v] h IH]; intros i i' Hi; cbn [interface_keys]; intros H.
  { inversion H; subst; exact Hi. }
  destruct (key_str k) as [ks|]; [|exfalso; eapply type_error_not_ok; eassumption].
  inv_all H; try (eapply IH; [|exact H]; exact Hi).
  - (* pref64 *)
    eapply IH; [|exact H]. destruct Hi as [Hp _]. split; [exact Hp|]. cbn [i_pref64].
    destruct a as [p|]; [eapply pref64_safe; eassumption|exact I].
  - (* prefixes *)
    eapply IH; [|exact H]. destruct Hi as [_ H64]. split; [|exact H64]. cbn [i_prefixes].
    apply req_ok in Ha. eapply parse_array_forall; [|exact Ha]. apply ra_prefix_opt_ok.
Qed.

Lemma parse_interface_ok : forall y i, parse_interface ip_parse y = Ok i -> iface_ok i.
Proof.
  intros y i H. destruct y; simpl in H; try (exfalso; eapply type_error_not_ok; eassumption).
  apply obind_ok in H as [j [Hj H]].
  assert (Hok : iface_ok j) by (eapply interface_keys_ok; [|exact Hj]; split; [constructor|exact I]).
  unfold interval_crosscheck in H. inv_all H; inversion H; subst; exact Hok.
Qed.
Lemma ra_interfaces_ok : forall h l, ra_interfaces ip_parse h = Ok l -> Forall iface_ok l.
Proof.
  induction h as [|[k v] h IH]; cbn [ra_interfaces]; intros l H.
  { inversion H; constructor. }
  destruct (key_str k); [|exfalso; eapply type_error_not_ok; eassumption].
  apply obind_ok in H as [i [Hi H]]. apply obind_ok in H as [r [Hr H]]. inversion H; subst.
  constructor; [|apply IH; exact Hr]. destruct v; eapply parse_interface_ok; eassumption.
Qed.
Lemma parse_ra_ok : forall y l, parse_ra ip_parse y = Ok l -> Forall iface_ok l.
Proof.
  intros y l H. destruct y; simpl in H; try discriminate; try (exfalso; eapply type_error_not_ok; eassumption).
  eapply ra_interfaces_ok; eassumption.
Qed.

(* DHCP: every Ipv4Subnet length is at most 32 *)
Lemma route_entry_keys_ok : forall h p hop p' hop',
  match p with Some l => l <= 32 | None => True end ->
  route_entry_keys ip_parse ip4_parse h p hop = Ok (p', hop') -> match p' with Some l => l <= 32 | None => True end.
Proof.
  induction h as [|[k v] h IH]; intros p hop p' hop' Hp; cbn [route_entry_keys]; intros H.
  { inversion H; subst; exact Hp. }
  destruct k; try discriminate.
  inv_all H; try (eapply IH; [|exact H]; exact Hp).
  eapply IH; [|exact H]. eapply route_prefix_len; eassumption.
Qed.
Lemma route_entry_ok : forall y l, route_entry ip_parse ip4_parse y = Ok l -> l <= 32.
Proof.
  intros y l H. destruct y; simpl in H; try discriminate.
  apply obind_ok in H as [[p hop] [Hk H]]. pose proof (route_entry_keys_ok _ None false p hop I Hk) as X.
  destruct p; [|discriminate]. destruct hop; [|discriminate]. inversion H; subst; exact X.
Qed.
Lemma parse_routes_ok : forall y l, parse_routes ip_parse ip4_parse y = Ok l -> Forall (fun x => x <= 32) l.
Proof.
  intros y l H. destruct y; simpl in H; try discriminate.
  - eapply omap_forall; [|exact H]. apply route_entry_ok.
  - inversion H; constructor.
Qed.
Lemma parse_generic_ok : forall name v g, parse_generic ip_parse ip4_parse name v = Ok g -> Forall (fun x => x <= 32) (snd g).
Proof.
  intros name v g H. unfold parse_generic in H.
  destruct (opt_lookup opt_table name) as [[code ty]|]; [|discriminate].
  inv_all H; inversion H; subst; cbn [snd]; try constructor.
  eapply parse_routes_ok; eassumption.
Qed.

Lemma policy_keys_ok : forall (pp : yaml -> outcome (list pol)),
  (forall y l, pp y = Ok l -> Forall pol_ok l) ->
  forall h p p', pol_ok p -> policy_keys ip_parse ip4_parse pp h p = Ok p' -> pol_ok p'.
Proof.
  intros pp Hpp. induction h as [|[k v] h IH]; intros p p' Hp; cbn [policy_keys]; intros H.
  { inversion H; subst; exact Hp. }
  destruct (key_str k) as [ks|]; [|discriminate].
  inv_all H; try (eapply IH; [|exact H]; exact Hp);
    (eapply IH; [|exact H]); unfold pol_ok in *; cbn [pl_subnets] in *.
  - (* match-subnet *) constructor; [eapply match_subnet_len; eassumption|exact Hp].
  - (* match-<option> *) apply Forall_app; split; [eapply parse_generic_ok; eassumption|exact Hp].
  - (* apply-<option> *) apply Forall_app; split; [eapply parse_generic_ok; eassumption|exact Hp].
  - (* policies *) apply Forall_app; split; [|exact Hp]. apply Forall_flat_map'. eapply Hpp; eassumption.
Qed.
Lemma parse_policies_ok : forall fuel y l, parse_policies ip_parse ip4_parse fuel y = Ok l -> Forall pol_ok l.
Proof.
  induction fuel as [|f IH]; intros y l; cbn [parse_policies]; intros H; [discriminate|].
  destruct y; try discriminate. eapply omap_forall; [|exact H].
  intros x p Hx. destruct x; try discriminate.
  eapply policy_keys_ok; [exact IH| |exact Hx]. constructor.
Qed.

Lemma acl_full_ok : forall y l, acl_full ip_parse y = Ok (Some l) -> Forall plen_ok l.
Proof.
  intros y l H. unfold acl_full in H. apply obind_ok in H as [l0 [Hl H]].
  assert (X : Forall plen_ok l0) by (eapply acl_safe; eassumption).
  inv_all H; inversion H; subst; exact X.
Qed.
Lemma dns_route_full_ok : forall y r, dns_route_full ip_parse y = Ok (Some r) -> route_ok r = true.
Proof.
  intros y r H. unfold dns_route_full in H. apply obind_ok in H as [r0 [Hr H]].
  assert (X : forall q, r0 = Some q -> route_ok q = true) by (intros q E; subst; eapply dns_route_safe; eassumption).
  inv_all H; inversion H; subst; apply X; reflexivity.
Qed.

Lemma top_keys_ok : forall fuel h t t', top_ok t -> top_keys ip_parse ip4_parse sock_ok fuel h t = Ok t' -> top_ok t'.
Proof.
  intros fuel. induction h as [|[k v] h IH]; intros t t' Ht; cbn [top_keys]; intros H.
  { inversion H; subst; exact Ht. }
  destruct (key_str k) as [ks|]; [|exfalso; eapply type_error_not_ok; eassumption].
  destruct Ht as [Ha [Hacl [Hr [Hi Hp]]]].
  inv_all H; try (exfalso; eapply type_error_not_ok; eassumption);
    try (eapply IH; [|exact H]; repeat split; assumption);
    (eapply IH; [|exact H]); unfold top_ok;
    cbn [t_addresses t_acls t_routes t_ifaces t_policies]; repeat split; try assumption.
  - (* dhcp-policies *) eapply parse_policies_ok; eassumption.
  - (* router-advertisements *) eapply parse_ra_ok; eassumption.
  - (* addresses *)
    destruct a as [l|]; [|exact I]. eapply parse_array_forall; [|eassumption].
    intros; eapply parse_string_prefix_safe; eassumption.
  - (* acls *)
    destruct a as [l|]; [|exact I]. eapply parse_array_forall; [|eassumption]. apply acl_full_ok.
  - (* dns-routes *)
    destruct a as [l|]; [|constructor]. eapply parse_array_forall; [|eassumption]. apply dns_route_full_ok.
Qed.

Lemma top0_ok : top_ok top0.
Proof. unfold top_ok, top0; simpl. repeat split; try exact I; constructor. Qed.

Lemma top_ok_safe : forall t, top_ok t -> cfg_safe (cfg_of_top t) = true.
Proof.
  intros t [Ha [Hacl [Hr [Hi Hp]]]]. unfold cfg_safe, cfg_of_top.
  cbn [c_addresses c_acl c_routes c_pref64 c_raprefix c_subnets].
  assert (Haddr : Forall plen_ok match t_addresses t with Some l => l | None => [] end)
    by (destruct (t_addresses t); [exact Ha|constructor]).
  repeat (apply andb_true_iff; split).
  - apply Forall_forallb. exact Haddr.
  - apply Forall_forallb. destruct (t_acls t) as [ll|].
    + apply Forall_concat'. exact Hacl.
    + unfold default_acl_prefixes. apply Forall_app; split; [exact Haddr|].
      repeat constructor.
  - apply Forall_forallb. exact Hr.
  - apply Forall_forallb. apply Forall_map'. apply Forall_somes.
    induction Hi as [|i l [_ H64] _ IH]; simpl; constructor; [|exact IH].
    destruct (i_pref64 i); [exact H64|exact I].
  - apply Forall_forallb. apply Forall_map'. apply Forall_flat_map'.
    induction Hi as [|i l [Hpre _] _ IH]; constructor; [|exact IH].
    eapply Forall_impl; [|exact Hpre]. intros p L. apply N.leb_le; exact L.
  - apply Forall_forallb. apply Forall_flat_map'.
    induction Hp as [|p l Hp0 _ IH]; constructor; [|exact IH].
    eapply Forall_impl; [|exact Hp0]. intros x L. apply N.leb_le; exact L.
Qed.

Lemma load_safe : forall fuel ndocs y t,
  load ip_parse ip4_parse sock_ok fuel ndocs y = Ok t -> cfg_safe (cfg_of_top t) = true.
Proof.
  intros fuel ndocs y t H. unfold load in H. destruct (negb (ndocs =? 1)); [discriminate|].
  destruct y; try discriminate. apply top_ok_safe. eapply top_keys_ok; [apply top0_ok|exact H].
Qed.

End LoaderSafe.

(* ================= the RDNSS / DNSSL lists of an accepted document fit their options ================= *)
Definition iface_fits (i : iface) : Prop := i_rdnss i <= 127 /\ i_dnssl i <= 2032.
Definition top_fits (t : top) : Prop := t_dns6 t <= 127 /\ t_dnssl t <= 2032 /\ Forall iface_fits (t_ifaces t).

Section LoaderFits.
Variable ip_parse : list N -> option ip.
Variable ip4_parse : list N -> option N.
Variable sock_ok : list N -> bool.

Lemma rdnss_keys_le : forall h c n, c <= 127 -> rdnss_keys ip_parse h c = Ok n -> n <= 127.
Proof.
  induction h as [|[k v] h IH]; intros c n Hc; cbn [rdnss_keys]; intros H.
  { inversion H; subst; exact Hc. }
  destruct (key_str k) as [ks|]; [|exfalso; eapply type_error_not_ok; eassumption].
  inv_all H; try (eapply IH; [|exact H]; first [exact Hc | lia]).
  eapply IH; [|exact H]. match goal with E : (127 <? _) = false |- _ => apply N.ltb_ge in E; exact E end.
Qed.
Lemma dnssl_keys_le : forall h c n, c <= 2032 -> dnssl_keys h c = Ok n -> n <= 2032.
Proof.
  induction h as [|[k v] h IH]; intros c n Hc; cbn [dnssl_keys]; intros H.
  { inversion H; subst; exact Hc. }
  destruct (key_str k) as [ks|]; [|exfalso; eapply type_error_not_ok; eassumption].
  inv_all H; try (eapply IH; [|exact H]; first [exact Hc | lia]).
  eapply IH; [|exact H]. match goal with E : (2032 <? _) = false |- _ => apply N.ltb_ge in E; exact E end.
Qed.

Lemma interface_keys_fits : forall h i i', iface_fits i -> interface_keys ip_parse h i = Ok i' -> iface_fits i'.
Proof.
  induction h as [|[k v] h IH]; intros i i' Hi; cbn [interface_keys]; intros H.
  { inversion H; subst; exact Hi. }
  destruct (key_str k) as [ks|]; [|exfalso; eapply type_error_not_ok; eassumption].
  inv_all H; try (eapply IH; [|exact H]; exact Hi); (eapply IH; [|exact H]); destruct Hi as [H1 H2]; split; cbn [i_rdnss i_dnssl]; try assumption.
  - (* dns-servers *)
    destruct v; simpl in Ha; try (exfalso; eapply type_error_not_ok; eassumption).
    eapply rdnss_keys_le; [|exact Ha]. lia.
  - (* dns-search *)
    destruct v; simpl in Ha; try (exfalso; eapply type_error_not_ok; eassumption).
    eapply dnssl_keys_le; [|exact Ha]. lia.
Qed.
Lemma parse_interface_fits : forall y i, parse_interface ip_parse y = Ok i -> iface_fits i.
Proof.
  intros y i H. destruct y; simpl in H; try (exfalso; eapply type_error_not_ok; eassumption).
  apply obind_ok in H as [j [Hj H]].
  assert (Hok : iface_fits j) by (eapply interface_keys_fits; [|exact Hj]; split; simpl; lia).
  unfold interval_crosscheck in H. inv_all H; inversion H; subst; exact Hok.
Qed.
Lemma ra_interfaces_fits : forall h l, ra_interfaces ip_parse h = Ok l -> Forall iface_fits l.
Proof.
  induction h as [|[k v] h IH]; cbn [ra_interfaces]; intros l H.
  { inversion H; constructor. }
  destruct (key_str k); [|exfalso; eapply type_error_not_ok; eassumption].
  apply obind_ok in H as [i [Hi H]]. apply obind_ok in H as [r [Hr H]]. inversion H; subst.
  constructor; [|apply IH; exact Hr]. destruct v; eapply parse_interface_fits; eassumption.
Qed.
Lemma parse_ra_fits : forall y l, parse_ra ip_parse y = Ok l -> Forall iface_fits l.
Proof.
  intros y l H. destruct y; simpl in H; try discriminate; try (exfalso; eapply type_error_not_ok; eassumption).
  eapply ra_interfaces_fits; eassumption.
Qed.

Lemma top_keys_fits : forall fuel h t t', top_fits t -> top_keys ip_parse ip4_parse sock_ok fuel h t = Ok t' -> top_fits t'.
Proof.
  intros fuel. induction h as [|[k v] h IH]; intros t t' Ht; cbn [top_keys]; intros H.
  { inversion H; subst; exact Ht. }
  destruct (key_str k) as [ks|]; [|exfalso; eapply type_error_not_ok; eassumption].
  destruct Ht as [H6 [Hs Hi]].
  inv_all H; try (exfalso; eapply type_error_not_ok; eassumption);
    try (eapply IH; [|exact H]; repeat split; assumption);
    (eapply IH; [|exact H]); unfold top_fits; cbn [t_dns6 t_dnssl t_ifaces]; repeat split; try assumption.
  - (* router-advertisements *) eapply parse_ra_fits; eassumption.
  - (* dns-servers *) match goal with E : (127 <? _) = false |- _ => apply N.ltb_ge in E; exact E end.
  - (* dns-search *) match goal with E : (2032 <? _) = false |- _ => apply N.ltb_ge in E; exact E end.
Qed.

Lemma load_fits : forall fuel ndocs y t, load ip_parse ip4_parse sock_ok fuel ndocs y = Ok t -> top_fits t.
Proof.
  intros fuel ndocs y t H. unfold load in H. destruct (negb (ndocs =? 1)); [discriminate|].
  destruct y; try discriminate. eapply top_keys_fits; [|exact H].
  unfold top_fits, top0; simpl. repeat split; try lia. constructor.
Qed.
End LoaderFits.

Lemma rdnss_optlen_total : forall n, n <= 127 -> np (rdnss_optlen n).
Proof. intros n H. unfold rdnss_optlen. rewrite (proj2 (N.ltb_lt (1 + 2 * n) 256)) by lia. apply np_ok. Qed.
Lemma dnssl_optlen_total : forall o, o <= 2032 -> np (dnssl_optlen o).
Proof.
  intros o H. unfold dnssl_optlen, add_chk, cast. change (pow2 8) with 256.
  assert (Q : (o + 7) / 8 <= 254) by (apply N.lt_succ_r; apply N.div_lt_upper_bound; lia).
  rewrite N.div_mul by lia. rewrite (N.mod_small ((o + 7) / 8) 256) by lia.
  rewrite (proj2 (N.ltb_lt (1 + (o + 7) / 8) 256)) by lia. apply np_ok.
Qed.
Lemma fits_no_panic : forall t, top_fits t -> ra_lens_no_panic t = true.
Proof.
  intros t [H6 [Hs Hi]]. unfold ra_lens_no_panic. repeat (apply andb_true_iff; split).
  - apply forallb_forall. intros i Hin. rewrite Forall_forall in Hi. destruct (Hi i Hin) as [A B].
    rewrite (np_is_panic _ _ (rdnss_optlen_total _ A)), (np_is_panic _ _ (dnssl_optlen_total _ B)). reflexivity.
  - rewrite (np_is_panic _ _ (rdnss_optlen_total _ H6)). reflexivity.
  - rewrite (np_is_panic _ _ (dnssl_optlen_total _ Hs)). reflexivity.
Qed.

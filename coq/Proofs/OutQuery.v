(* Proofs about Model/OutQuery.v *)
From Erbium Require Import Lib.Base Model.OutQuery.

(* ===================================================================== *)
(* (ii) Retry                                                            *)
(* ===================================================================== *)
Definition Cb (f : nat) : N :=
  match f with O => 0 | 1%nat => 8 | 2%nat => 28 | 3%nat => 78 | _ => 203 end.

Lemma next_timeout_bounds : forall t j, 0 < t ->
  t <= next_timeout t j /\ 2 * next_timeout t j <= 5 * t.
Proof.
  intros t j Ht. unfold next_timeout.
  assert (H1 : j mod t < t) by (apply N.mod_lt; lia).
  assert (H2 : 2 * (t / 2) <= t) by (apply N.mul_div_le; lia).
  generalize dependent (t / 2). generalize dependent (j mod t). intros. lia.
Qed.

Lemma small_n : forall n : N, n < 4 -> n = 0 \/ n = 1 \/ n = 2 \/ n = 3.
Proof. intros n H. lia. Qed.

Lemma retry_loop_bounded : forall f fates jit now timeout n pend,
  n + N.of_nat f = 4 -> 0 < timeout ->
  let r := retry_loop f fates jit now timeout n pend in
  8 * elapsed r <= 8 * now + Cb f * timeout /\ n <= transmissions r <= 4 /\
  (is_timeout r = true -> transmissions r = 4).
Proof.
  induction f as [|f IH]; intros fates jit now timeout n pend Hn Ht.
  - simpl. simpl in Hn. split; [lia|]. split; [lia|]. intros _. lia.
  - assert (Hn3 : n <= 3) by lia.
    assert (HC : 8 * timeout <= Cb (S f) * timeout).
    { apply N.mul_le_mono_r. destruct f as [|[|[|f]]]; simpl; lia. }
    cbn [retry_loop].
    set (pend' := match nth_error fates (N.to_nat n) with
                  | Some (Reply d) => pend ++ [(n + 1, now + d, true)]
                  | Some (SockErr d) => pend ++ [(n + 1, now + d, false)]
                  | _ => pend end).
    assert (Timer : forall r,
      r = (if 3 <? n + 1 then UTimeout (now + timeout) (n + 1)
           else retry_loop f fates (tl jit) (now + timeout) (next_timeout timeout (hd 0 jit)) (n + 1) pend') ->
      8 * elapsed r <= 8 * now + Cb (S f) * timeout /\ n <= transmissions r <= 4 /\
      (is_timeout r = true -> transmissions r = 4)).
    { intros r ->. destruct (3 <? n + 1) eqn:E.
      - apply N.ltb_lt in E. cbn [elapsed transmissions is_timeout]. split; [lia|]. split; [lia|]. intros _. lia.
      - apply N.ltb_ge in E.
        destruct (next_timeout_bounds timeout (hd 0 jit) Ht) as [B1 B2].
        assert (Hf : (1 <= f)%nat) by lia.
        specialize (IH fates (tl jit) (now + timeout) (next_timeout timeout (hd 0 jit)) (n + 1) pend').
        destruct IH as (I1 & I2 & I3); [lia | lia |].
        split; [|split; [lia | exact I3]].
        destruct f as [|[|[|[|f]]]]; simpl Cb in *; try lia. }
    destruct (earliest pend') as [[[i a] k]|].
    + destruct (a <=? now + timeout) eqn:Ea.
      * apply N.leb_le in Ea.
        destruct k; cbn [elapsed transmissions is_timeout]; (split; [lia|]; split; [lia|]; intros H; discriminate H).
      * apply Timer. reflexivity.
    + apply Timer. reflexivity.
Qed.

Lemma retry_bounded : forall fates jit t0, 0 < t0 ->
  transmissions (retry fates jit t0) <= 4 /\ 8 * elapsed (retry fates jit t0) <= 203 * t0 /\
  (is_timeout (retry fates jit t0) = true -> transmissions (retry fates jit t0) = 4).
Proof.
  intros fates jit t0 Ht. unfold retry.
  destruct (retry_loop_bounded 4 fates jit 0 t0 0 [] eq_refl Ht) as (A & B & C).
  simpl Cb in A. split; [lia|]. split; [lia|exact C].
Qed.

Lemma all_lost_nth : forall fates n, all_lost fates = true -> n < 4 ->
  nth_error fates (N.to_nat n) = None \/ nth_error fates (N.to_nat n) = Some Lost.
Proof.
  intros fates n H Hn. unfold all_lost in H. cbn [forallb] in H.
  repeat (apply andb_true_iff in H; destruct H as [? H]).
  destruct (small_n n Hn) as [ -> | [ -> | [ -> | -> ] ] ];
  [ change (N.to_nat 0) with 0%nat | change (N.to_nat 1) with 1%nat
  | change (N.to_nat 2) with 2%nat | change (N.to_nat 3) with 3%nat ];
  match goal with |- nth_error _ ?k = _ \/ _ =>
    destruct (nth_error fates k) as [[| |]|]; try discriminate; auto end.
Qed.

Lemma retry_loop_all_lost : forall f fates jit now timeout n,
  n + N.of_nat f = 4 -> (1 <= f)%nat -> all_lost fates = true ->
  exists at_ns, retry_loop f fates jit now timeout n [] = UTimeout at_ns 4.
Proof.
  induction f as [|f IH]; intros fates jit now timeout n Hn Hf HL; [lia|].
  cbn [retry_loop].
  assert (Hn3 : n < 4) by lia.
  destruct (all_lost_nth fates n HL Hn3) as [-> | ->]; simpl earliest; cbv iota.
  - destruct (3 <? n + 1) eqn:E.
    + apply N.ltb_lt in E. exists (now + timeout). f_equal. lia.
    + apply N.ltb_ge in E. apply IH; [lia | lia | exact HL].
  - destruct (3 <? n + 1) eqn:E.
    + apply N.ltb_lt in E. exists (now + timeout). f_equal. lia.
    + apply N.ltb_ge in E. apply IH; [lia | lia | exact HL].
Qed.

Lemma retry_all_lost : forall fates jit t0, all_lost fates = true ->
  exists at_ns, retry fates jit t0 = UTimeout at_ns 4.
Proof. intros. unfold retry. apply retry_loop_all_lost; [reflexivity | lia | assumption]. Qed.

(* an answer is always the reply to one of the transmissions made *)
Definition pend_ok (fates : list fate) (n : N) (e : N * N * bool) : Prop :=
  let '(i, a, k) := e in
  1 <= i <= n /\ exists d, nth_error fates (N.to_nat (i - 1)) = Some (if k then Reply d else SockErr d).

Lemma earliest_in : forall l x, earliest l = Some x -> In x l.
Proof.
  induction l as [|[[i a] k] r IH]; intros x H; [discriminate|].
  simpl in H. destruct (earliest r) as [[[j b] k']|] eqn:E.
  - destruct (a <=? b); inversion H; subst; [left; reflexivity | right; apply IH; reflexivity].
  - inversion H. left. reflexivity.
Qed.

Lemma retry_loop_answer_genuine : forall f fates jit now timeout n pend,
  Forall (pend_ok fates n) pend ->
  forall i a s, retry_loop f fates jit now timeout n pend = UAnswered i a s ->
  1 <= i <= s /\ exists d, nth_error fates (N.to_nat (i - 1)) = Some (Reply d).
Proof.
  induction f as [|f IH]; intros fates jit now timeout n pend HP i a s H; [discriminate|].
  cbn [retry_loop] in H.
  set (pend' := match nth_error fates (N.to_nat n) with
                | Some (Reply d) => pend ++ [(n + 1, now + d, true)]
                | Some (SockErr d) => pend ++ [(n + 1, now + d, false)]
                | _ => pend end) in *.
  assert (HP' : Forall (pend_ok fates (n + 1)) pend').
  { assert (HW : Forall (pend_ok fates (n + 1)) pend).
    { eapply Forall_impl; [|exact HP]. intros [[i0 a0] k0] [Hi Hd]. split; [lia|exact Hd]. }
    unfold pend'. destruct (nth_error fates (N.to_nat n)) as [[|d|d]|] eqn:E; try exact HW.
    - apply Forall_app. split; [exact HW|]. constructor; [|constructor].
      split; [lia|]. exists d. replace (n + 1 - 1) with n by lia. exact E.
    - apply Forall_app. split; [exact HW|]. constructor; [|constructor].
      split; [lia|]. exists d. replace (n + 1 - 1) with n by lia. exact E. }
  destruct (earliest pend') as [[[j b] k]|] eqn:EE.
  - destruct (b <=? now + timeout).
    + destruct k; inversion H; subst.
      apply earliest_in in EE. rewrite Forall_forall in HP'. specialize (HP' _ EE).
      destruct HP' as [Hi Hd]. split; [lia|exact Hd].
    + destruct (3 <? n + 1); [discriminate|]. eapply IH; [exact HP'|exact H].
  - destruct (3 <? n + 1); [discriminate|]. eapply IH; [exact HP'|exact H].
Qed.

Lemma retry_answer_genuine : forall fates jit t0 i a s,
  retry fates jit t0 = UAnswered i a s ->
  1 <= i <= s /\ exists d, nth_error fates (N.to_nat (i - 1)) = Some (Reply d).
Proof. intros. eapply retry_loop_answer_genuine; [constructor | exact H]. Qed.

(* ===================================================================== *)
(* (iii) Accept and composition                                          *)
(* ===================================================================== *)
Lemma accept_only_matching_id : forall id rid tc,
  accept_udp id rid tc = Accept <-> (rid = id /\ tc = false).
Proof.
  intros id rid tc. unfold accept_udp. destruct (rid =? id) eqn:E; simpl.
  - apply N.eqb_eq in E. destruct tc; split; intros H; try discriminate; auto.
    destruct H; discriminate.
  - apply N.eqb_neq in E. split; [discriminate|]. intros [H _]. contradiction.
Qed.

Lemma udp_reply_has_own_id : forall id rid tc t r,
  handle_query_model false id (UdpReply rid tc) t = OqReply r false -> r = id /\ tc = false.
Proof.
  intros id rid tc t r H. simpl in H. destruct (accept_udp id rid tc) eqn:E.
  - inversion H; subst. apply accept_only_matching_id in E. exact E.
  - destruct t; simpl in H; inversion H.
Qed.

Lemma timeout_is_servfail : forall client_qid up_rcode e,
  ir_rcode (in_reply_of client_qid up_rcode (OqErr e)) = SERVFAIL /\
  ir_qid (in_reply_of client_qid up_rcode (OqErr e)) = client_qid /\
  ir_from_upstream (in_reply_of client_qid up_rcode (OqErr e)) = false.
Proof. intros. simpl. auto. Qed.

Lemma silent_upstream_servfail : forall fates jit t0 id rid tc t client_qid up_rcode,
  0 < t0 -> all_lost fates = true ->
  let u := retry fates jit t0 in
  let rep := in_reply_of client_qid up_rcode (handle_query_model false id (udp_res_of u rid tc) t) in
  ir_rcode rep = SERVFAIL /\ ir_qid rep = client_qid /\ transmissions u = 4 /\ 8 * elapsed u <= 203 * t0.
Proof.
  intros fates jit t0 id rid tc t cq up Ht HL u rep.
  destruct (retry_all_lost fates jit t0 HL) as [at_ns E].
  destruct (retry_bounded fates jit t0 Ht) as (_ & B & _).
  subst rep u. rewrite E in *. simpl. auto.
Qed.

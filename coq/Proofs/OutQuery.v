(* Proofs about Model/OutQuery.v *)
From Erbium Require Import Lib.Base Model.OutQuery.

(* ===================================================================== *)
(* (ii) Retry                                                            *)
(* ===================================================================== *)
Definition Cb (f : nat) : N :=
  match f with O => 0 | 1%nat => 8 | 2%nat => 28 | 3%nat => 78 | _ => 203 end.

Lemma next_timeout_bounds : forall t j, 0 < t ->
  t <= next_timeout t j /\ 2 * next_timeout t j <= 5 * t.
Proof.
  intros t j Ht. unfold next_timeout.
  assert (H1 : j mod t < t) by (apply N.mod_lt; lia).
  assert (H2 : 2 * (t / 2) <= t) by (apply N.mul_div_le; lia).
  generalize dependent (t / 2). generalize dependent (j mod t). intros. lia.
Qed.

Lemma small_n : forall n : N, n < 4 -> n = 0 \/ n = 1 \/ n = 2 \/ n = 3.
Proof. intros n H. lia. Qed.

Lemma retry_loop_bounded : forall f fates jit now timeout n pend,
  n + N.of_nat f = 4 -> 0 < timeout ->
  let r := retry_loop f fates jit now timeout n pend in
  8 * elapsed r <= 8 * now + Cb f * timeout /\ n <= transmissions r <= 4 /\
  (is_timeout r = true -> transmissions r = 4).
Proof.
  induction f as [|f IH]; intros fates jit now timeout n pend Hn Ht.
  - simpl. simpl in Hn. split; [lia|]. split; [lia|]. intros _. lia.
  - assert (Hn3 : n <= 3) by lia.
    assert (HC : 8 * timeout <= Cb (S f) * timeout).
    { apply N.mul_le_mono_r. destruct f as [|[|[|f]]]; simpl; lia. }
    cbn [retry_loop].
    set (pend' := match nth_error fates (N.to_nat n) with
                  | Some (Reply d) => pend ++ [(n + 1, now + d, true)]
                  | Some (SockErr d) => pend ++ [(n + 1, now + d, false)]
                  | _ => pend end).
    assert (Timer : forall r,
      r = (if 3 <? n + 1 then UTimeout (now + timeout) (n + 1)
           else retry_loop f fates (tl jit) (now + timeout) (next_timeout timeout (hd 0 jit)) (n + 1) pend') ->
      8 * elapsed r <= 8 * now + Cb (S f) * timeout /\ n <= transmissions r <= 4 /\
      (is_timeout r = true -> transmissions r = 4)).
    { intros r ->. destruct (3 <? n + 1) eqn:E.
      - apply N.ltb_lt in E. cbn [elapsed transmissions is_timeout]. split; [lia|]. split; [lia|]. intros _. lia.
      - apply N.ltb_ge in E.
        destruct (next_timeout_bounds timeout (hd 0 jit) Ht) as [B1 B2].
        assert (Hf : (1 <= f)%nat) by lia.
        specialize (IH fates (tl jit) (now + timeout) (next_timeout timeout (hd 0 jit)) (n + 1) pend').
        destruct IH as (I1 & I2 & I3); [lia | lia |].
        split; [|split; [lia | exact I3]].
        destruct f as [|[|[|[|f]]]]; simpl Cb in *; try lia. }
    destruct (earliest pend') as [[[i a] k]|].
    + destruct (a <=? now + timeout) eqn:Ea.
      * apply N.leb_le in Ea.
        destruct k; cbn [elapsed transmissions is_timeout]; (split; [lia|]; split; [lia|]; intros H; discriminate H).
      * apply Timer. reflexivity.
    + apply Timer. reflexivity.
Qed.

Lemma retry_bounded : forall fates jit t0, 0 < t0 ->
  transmissions (retry fates jit t0) <= 4 /\ 8 * elapsed (retry fates jit t0) <= 203 * t0 /\
  (is_timeout (retry fates jit t0) = true -> transmissions (retry fates jit t0) = 4).
Proof.
  intros fates jit t0 Ht. unfold retry.
  destruct (retry_loop_bounded 4 fates jit 0 t0 0 [] eq_refl Ht) as (A & B & C).
  simpl Cb in A. split; [lia|]. split; [lia|exact C].
Qed.

Lemma all_lost_nth : forall fates n, all_lost fates = true -> n < 4 ->
  nth_error fates (N.to_nat n) = None \/ nth_error fates (N.to_nat n) = Some Lost.
Proof.
  intros fates n H Hn. unfold all_lost in H. cbn [forallb] in H.
  repeat (apply andb_true_iff in H; destruct H as [? H]).
  destruct (small_n n Hn) as [ -> | [ -> | [ -> | -> ] ] ];
  [ change (N.to_nat 0) with 0%nat | change (N.to_nat 1) with 1%nat
  | change (N.to_nat 2) with 2%nat | change (N.to_nat 3) with 3%nat ];
  match goal with |- nth_error _ ?k = _ \/ _ =>
    destruct (nth_error fates k) as [[| |]|]; try discriminate; auto end.
Qed.

Lemma retry_loop_all_lost : forall f fates jit now timeout n,
  n + N.of_nat f = 4 -> (1 <= f)%nat -> all_lost fates = true ->
  exists at_ns, retry_loop f fates jit now timeout n [] = UTimeout at_ns 4.
Proof.
  induction f as [|f IH]; intros fates jit now timeout n Hn Hf HL; [lia|].
  cbn [retry_loop].
  assert (Hn3 : n < 4) by lia.
  destruct (all_lost_nth fates n HL Hn3) as [-> | ->]; simpl earliest; cbv iota.
  - destruct (3 <? n + 1) eqn:E.
    + apply N.ltb_lt in E. exists (now + timeout). f_equal. lia.
    + apply N.ltb_ge in E. apply IH; [lia | lia | exact HL].
  - destruct (3 <? n + 1) eqn:E.
    + apply N.ltb_lt in E. exists (now + timeout). f_equal. lia.
    + apply N.ltb_ge in E. apply IH; [lia | lia | exact HL].
Qed.

Lemma retry_all_lost : forall fates jit t0, all_lost fates = true ->
  exists at_ns, retry fates jit t0 = UTimeout at_ns 4.
Proof. intros. unfold retry. apply retry_loop_all_lost; [reflexivity | lia | assumption]. Qed.

(* an answer is always the reply to one of the transmissions made *)
Definition pend_ok (fates : list fate) (n : N) (e : N * N * bool) : Prop :=
  let '(i, a, k) := e in
  1 <= i <= n /\ exists d, nth_error fates (N.to_nat (i - 1)) = Some (if k then Reply d else SockErr d).

Lemma earliest_in : forall l x, earliest l = Some x -> In x l.
Proof.
  induction l as [|[[i a] k] r IH]; intros x H; [discriminate|].
  simpl in H. destruct (earliest r) as [[[j b] k']|] eqn:E.
  - destruct (a <=? b); inversion H; subst; [left; reflexivity | right; apply IH; reflexivity].
  - inversion H. left. reflexivity.
Qed.

Lemma retry_loop_answer_genuine : forall f fates jit now timeout n pend,
  Forall (pend_ok fates n) pend ->
  forall i a s, retry_loop f fates jit now timeout n pend = UAnswered i a s ->
  1 <= i <= s /\ exists d, nth_error fates (N.to_nat (i - 1)) = Some (Reply d).
Proof.
  induction f as [|f IH]; intros fates jit now timeout n pend HP i a s H; [discriminate|].
  cbn [retry_loop] in H.
  set (pend' := match nth_error fates (N.to_nat n) with
                | Some (Reply d) => pend ++ [(n + 1, now + d, true)]
                | Some (SockErr d) => pend ++ [(n + 1, now + d, false)]
                | _ => pend end) in *.
  assert (HP' : Forall (pend_ok fates (n + 1)) pend').
  { assert (HW : Forall (pend_ok fates (n + 1)) pend).
    { eapply Forall_impl; [|exact HP]. intros [[i0 a0] k0] [Hi Hd]. split; [lia|exact Hd]. }
    unfold pend'. destruct (nth_error fates (N.to_nat n)) as [[|d|d]|] eqn:E; try exact HW.
    - apply Forall_app. split; [exact HW|]. constructor; [|constructor].
      split; [lia|]. exists d. replace (n + 1 - 1) with n by lia. exact E.
    - apply Forall_app. split; [exact HW|]. constructor; [|constructor].
      split; [lia|]. exists d. replace (n + 1 - 1) with n by lia. exact E. }
  destruct (earliest pend') as [[[j b] k]|] eqn:EE.
  - destruct (b <=? now + timeout).
    + destruct k; inversion H; subst.
      apply earliest_in in EE. rewrite Forall_forall in HP'. specialize (HP' _ EE).
      destruct HP' as [Hi Hd]. split; [lia|exact Hd].
    + destruct (3 <? n + 1); [discriminate|]. eapply IH; [exact HP'|exact H].
  - destruct (3 <? n + 1); [discriminate|]. eapply IH; [exact HP'|exact H].
Qed.

Lemma retry_answer_genuine : forall fates jit t0 i a s,
  retry fates jit t0 = UAnswered i a s ->
  1 <= i <= s /\ exists d, nth_error fates (N.to_nat (i - 1)) = Some (Reply d).
Proof. intros. eapply retry_loop_answer_genuine; [constructor | exact H]. Qed.

(* ===================================================================== *)
(* (iii) Accept and composition                                          *)
(* ===================================================================== *)
Lemma accept_only_matching_id : forall id rid tc,
  accept_udp id rid tc = Accept <-> (rid = id /\ tc = false).
Proof.
  intros id rid tc. unfold accept_udp. destruct (rid =? id) eqn:E; simpl.
  - apply N.eqb_eq in E. destruct tc; split; intros H; try discriminate; auto.
    destruct H; discriminate.
  - apply N.eqb_neq in E. split; [discriminate|]. intros [H _]. contradiction.
Qed.

Lemma udp_reply_has_own_id : forall id rid tc t r,
  handle_query_model false id (UdpReply rid tc) t = OqReply r false -> r = id /\ tc = false.
Proof.
  intros id rid tc t r H. simpl in H. destruct (accept_udp id rid tc) eqn:E.
  - inversion H; subst. apply accept_only_matching_id in E. exact E.
  - destruct t; simpl in H; inversion H.
Qed.

Lemma timeout_is_servfail : forall client_qid up_rcode e,
  ir_rcode (in_reply_of client_qid up_rcode (OqErr e)) = SERVFAIL /\
  ir_qid (in_reply_of client_qid up_rcode (OqErr e)) = client_qid /\
  ir_from_upstream (in_reply_of client_qid up_rcode (OqErr e)) = false.
Proof. intros. simpl. auto. Qed.

Lemma silent_upstream_servfail : forall fates jit t0 id rid tc t client_qid up_rcode,
  0 < t0 -> all_lost fates = true ->
  let u := retry fates jit t0 in
  let rep := in_reply_of client_qid up_rcode (handle_query_model false id (udp_res_of u rid tc) t) in
  ir_rcode rep = SERVFAIL /\ ir_qid rep = client_qid /\ transmissions u = 4 /\ 8 * elapsed u <= 203 * t0.
Proof.
  intros fates jit t0 id rid tc t cq up Ht HL u rep.
  destruct (retry_all_lost fates jit t0 HL) as [at_ns E].
  destruct (retry_bounded fates jit t0 Ht) as (_ & B & _).
  subst rep u. rewrite E in *. simpl. auto.
Qed.

(* ===================================================================== *)
(* (i) Demux, repaired code                                              *)
(* ===================================================================== *)
Definition keys {V} (m : list (N * V)) : list N := map fst m.
Definition npend (w : N) (m : list (N * (N * N))) : nat :=
  length (filter (fun e => snd (snd e) =? w) m).
Definition nsub (w : N) (evs : list dev) : nat :=
  length (filter (fun p => fst p =? w) (submissions evs)).

Lemma map_find_in : forall V (m : list (N * V)) k v, map_find k m = Some v -> In (k, v) m.
Proof.
  induction m as [|[k' v'] r IH]; intros k v H; [discriminate|]. simpl in H.
  destruct (k' =? k) eqn:E.
  - apply N.eqb_eq in E. inversion H; subst. left. reflexivity.
  - right. apply IH. exact H.
Qed.

Lemma map_find_none : forall V (m : list (N * V)) k, map_find k m = None -> ~ In k (keys m).
Proof.
  induction m as [|[k' v'] r IH]; intros k H; [intros []|]. simpl in H.
  destruct (k' =? k) eqn:E; [discriminate|]. apply N.eqb_neq in E.
  simpl. intros [A|A]; [contradiction|]. exact (IH k H A).
Qed.

Lemma map_mem_false : forall V (m : list (N * V)) k, map_mem k m = false -> ~ In k (keys m).
Proof.
  intros V m k H. unfold map_mem in H. destruct (map_find k m) eqn:E; [discriminate|].
  apply map_find_none. exact E.
Qed.

Lemma probe_fresh : forall V f id (m : list (N * V)) wire,
  probe f id m = Some wire -> map_mem wire m = false.
Proof.
  induction f as [|f IH]; intros id m wire H; [discriminate|]. simpl in H.
  destruct (map_mem id m) eqn:E.
  - eapply IH. exact H.
  - inversion H; subst. exact E.
Qed.

Lemma map_remove_notin : forall V (m : list (N * V)) k, ~ In k (keys m) -> map_remove k m = m.
Proof.
  induction m as [|[k' v'] r IH]; intros k H; [reflexivity|]. simpl in *.
  destruct (k' =? k) eqn:E.
  - apply N.eqb_eq in E. exfalso. apply H. left. exact E.
  - f_equal. apply IH. intros A. apply H. right. exact A.
Qed.

Lemma map_remove_subset : forall V (m : list (N * V)) k x, In x (map_remove k m) -> In x m.
Proof.
  induction m as [|[k' v'] r IH]; intros k x H; [exact H|]. simpl in H.
  destruct (k' =? k).
  - right. eapply IH. exact H.
  - destruct H as [H|H]; [left; exact H | right; eapply IH; exact H].
Qed.

Lemma NoDup_keys_remove : forall V (m : list (N * V)) k, NoDup (keys m) -> NoDup (keys (map_remove k m)).
Proof.
  induction m as [|[k' v'] r IH]; intros k H; [constructor|]. simpl in *.
  inversion H as [|? ? Hn Hr]; subst.
  destruct (k' =? k); [apply IH; exact Hr|].
  simpl. constructor; [|apply IH; exact Hr].
  intros A. apply Hn. unfold keys in *. apply in_map_iff in A. destruct A as [x [Hx1 Hx2]].
  apply in_map_iff. exists x. split; [exact Hx1|]. eapply map_remove_subset. exact Hx2.
Qed.

Lemma deliveries_app : forall w a b, deliveries w (a ++ b) = deliveries w a ++ deliveries w b.
Proof.
  induction a as [|[w' r|w' wire] a IH]; intros b; simpl; [reflexivity| |apply IH].
  destruct (w' =? w); simpl; rewrite IH; reflexivity.
Qed.

Lemma deliveries_teardown : forall w m, length (deliveries w (teardown m)) = npend w m.
Proof.
  induction m as [|[k [orig w']] r IH]; [reflexivity|]. unfold npend in *. simpl.
  destruct (w' =? w); simpl; rewrite IH; reflexivity.
Qed.

Lemma deliveries_in : forall w r o, In r (deliveries w o) <-> In (Deliver w r) o.
Proof.
  induction o as [|[w' r'|w' wire] o IH]; simpl; [tauto| |].
  - destruct (w' =? w) eqn:E.
    + apply N.eqb_eq in E. subst. simpl. split.
      * intros [A|A]; [left; subst; reflexivity | right; apply IH; exact A].
      * intros [A|A]; [left; inversion A; reflexivity | right; apply IH; exact A].
    + apply N.eqb_neq in E. split.
      * intros A. right. apply IH. exact A.
      * intros [A|A]; [inversion A; contradiction | apply IH; exact A].
  - split; [intros A; right; apply IH; exact A | intros [A|A]; [discriminate | apply IH; exact A]].
Qed.

Lemma npend_remove : forall m k orig w0 w, NoDup (keys m) -> map_find k m = Some (orig, w0) ->
  (npend w (map_remove k m) + (if (w0 =? w)%N then 1 else 0))%nat = npend w m.
Proof.
  induction m as [|[k' [o' w']] r IH]; intros k orig w0 w HN HF; [discriminate|].
  simpl in HN. inversion HN as [|? ? Hn Hr]; subst. simpl in HF. simpl map_remove.
  destruct (k' =? k) eqn:E.
  - apply N.eqb_eq in E. subst. inversion HF; subst.
    rewrite map_remove_notin by exact Hn. unfold npend. simpl.
    destruct (w0 =? w); simpl; lia.
  - specialize (IH k orig w0 w Hr HF). unfold npend in *. simpl.
    destruct (w' =? w); simpl; lia.
Qed.

(* [probe] never runs out of fuel: pigeonhole over the |map|+1 consecutive ids tried *)
Fixpoint probe_ids (f : nat) (i : N) : list N :=
  match f with O => [] | S f' => i :: probe_ids f' ((i + 1) mod 65536) end.

Lemma map_mem_true_in : forall V (m : list (N * V)) k, map_mem k m = true -> In k (keys m).
Proof.
  intros V m k H. unfold map_mem in H. destruct (map_find k m) as [v|] eqn:E; [|discriminate].
  apply map_find_in in E. unfold keys. apply in_map_iff. exists (k, v). auto.
Qed.

Lemma probe_none_incl : forall V f i (m : list (N * V)), probe f i m = None -> incl (probe_ids f i) (keys m).
Proof.
  induction f as [|f IH]; intros i m H x Hx; [destruct Hx|]. simpl in H.
  destruct (map_mem i m) eqn:E; [|discriminate]. simpl in Hx. destruct Hx as [<-|Hx].
  - apply map_mem_true_in. exact E.
  - eapply IH; eassumption.
Qed.

Lemma probe_ids_elem : forall f i x, i < 65536 -> In x (probe_ids f i) ->
  exists k, (k < f)%nat /\ x = (i + N.of_nat k) mod 65536.
Proof.
  induction f as [|f IH]; intros i x Hi Hx; [destruct Hx|]. simpl in Hx. destruct Hx as [<-|Hx].
  - exists 0%nat. split; [lia|]. simpl. rewrite N.add_0_r. symmetry. apply N.mod_small. exact Hi.
  - assert (Hi' : (i + 1) mod 65536 < 65536) by (apply N.mod_lt; lia).
    destruct (IH _ _ Hi' Hx) as [k [Hk ->]]. exists (S k). split; [lia|].
    rewrite N.add_mod_idemp_l by lia. f_equal. lia.
Qed.

Lemma probe_ids_nodup : forall f i, N.of_nat f <= 65536 -> i < 65536 -> NoDup (probe_ids f i).
Proof.
  induction f as [|f IH]; intros i Hf Hi; [constructor|]. simpl. constructor.
  - intros Hx. assert (Hi' : (i + 1) mod 65536 < 65536) by (apply N.mod_lt; lia).
    destruct (probe_ids_elem f _ i Hi' Hx) as [k [Hk E]].
    rewrite N.add_mod_idemp_l in E by lia.
    assert (Hk' : N.of_nat k < 65535) by lia.
    destruct (N.lt_ge_cases (i + 1 + N.of_nat k) 65536) as [L|G].
    + rewrite N.mod_small in E by exact L. lia.
    + replace (i + 1 + N.of_nat k) with ((i + 1 + N.of_nat k - 65536) + 1 * 65536) in E by lia.
      rewrite N.mod_add in E by lia. rewrite N.mod_small in E by lia. lia.
  - apply IH; [lia|]. apply N.mod_lt. lia.
Qed.

Lemma probe_ids_length : forall f i, length (probe_ids f i) = f.
Proof. induction f; intros; simpl; [reflexivity | rewrite IHf; reflexivity]. Qed.

Lemma probe_total : forall V (m : list (N * V)) id, id < 65536 -> lenN m < 65536 ->
  probe (S (length m)) id m <> None.
Proof.
  intros V m id Hid Hl H. unfold lenN in Hl. apply probe_none_incl in H.
  assert (ND : NoDup (probe_ids (S (length m)) id)) by (apply probe_ids_nodup; [lia | exact Hid]).
  pose proof (NoDup_incl_length ND H) as L. rewrite probe_ids_length in L.
  unfold keys in L. rewrite map_length in L. lia.
Qed.

Definition dinv (s : dstate) : Prop :=
  NoDup (keys (d_map s)) /\ (d_conn s = false -> d_map s = []).

Lemma dinv_init : dinv d_init.
Proof. split; [constructor | reflexivity]. Qed.

Ltac dinv_same HC :=
  split; [assumption | let A := fresh "A" in intros A; first [ congruence | apply HC; congruence | apply HC; reflexivity ]].

Definition sub1 (w : N) (e : dev) : nat :=
  match e with Submit w' _ _ _ => if w' =? w then 1%nat else 0%nat | _ => 0%nat end.

Lemma demux_step_acct : forall s e s' o w, dinv s -> demux_step s e = (s', o) ->
  dinv s' /\ (length (deliveries w o) + npend w (d_map s'))%nat = (npend w (d_map s) + sub1 w e)%nat.
Proof.
  intros s e s' o w [HN HC] H. destruct e as [w0 id q0 i| wire rq |]; unfold demux_step in H.
  - destruct (negb (d_conn s) && io_eqb i IoConnFail).
    { inversion H; subst. split; [split; assumption|]. simpl. destruct (w0 =? w); simpl; lia. }
    destruct (65536 <=? lenN (d_map s)).
    { inversion H; subst. split; [split; [exact HN | intros A; discriminate A]|].
      simpl. destruct (w0 =? w); simpl; lia. }
    destruct (probe (S (length (d_map s))) id (d_map s)) as [wire|] eqn:EP.
    2:{ inversion H; subst. split; [split; [exact HN | intros A; discriminate A]|].
        simpl. destruct (w0 =? w); simpl; lia. }
    apply probe_fresh in EP. apply map_mem_false in EP.
    destruct (io_eqb i IoWriteFail); inversion H; subst.
    + split; [split; [constructor | reflexivity]|].
      change (Deliver w0 RErrTcp :: teardown (d_map s)) with (teardown ((wire, (id, w0)) :: d_map s)).
      rewrite deliveries_teardown.
      unfold npend. simpl. destruct (w0 =? w); simpl; lia.
    + split; [split; [simpl; constructor; assumption | intros A; discriminate A]|].
      unfold npend. simpl. destruct (w0 =? w); simpl; lia.
  - destruct (d_conn s) eqn:EC.
    + destruct (map_find wire (d_map s)) as [[orig w1]|] eqn:EF.
      * destruct (question_matches wire rq (d_qs s)); inversion H; subst.
        -- split; [split; [simpl; apply NoDup_keys_remove; exact HN | intros A; discriminate A]|].
           pose proof (npend_remove (d_map s) wire orig w1 w HN EF) as P. simpl.
           destruct (w1 =? w); simpl; simpl in P; lia.
        -- split; [dinv_same HC|]. simpl. lia.
      * inversion H; subst. split; [dinv_same HC|]. simpl. lia.
    + inversion H; subst. split; [dinv_same HC|]. simpl. lia.
  - destruct (d_conn s) eqn:EC; inversion H; subst.
    + split; [split; [constructor | reflexivity]|]. rewrite deliveries_teardown. unfold npend. simpl. lia.
    + split; [dinv_same HC|]. simpl. lia.
Qed.

Lemma nsub_cons : forall w e r, nsub w (e :: r) = (sub1 w e + nsub w r)%nat.
Proof.
  intros w e r. unfold nsub. destruct e as [w0 id q0 i| ? ? |]; simpl; try reflexivity.
  destruct (w0 =? w); reflexivity.
Qed.

Lemma demux_run_acct : forall evs s s' o w, dinv s -> demux_run s evs = (s', o) ->
  dinv s' /\ (length (deliveries w o) + npend w (d_map s'))%nat = (npend w (d_map s) + nsub w evs)%nat.
Proof.
  induction evs as [|e r IH]; intros s s' o w HI H.
  - simpl in H. inversion H; subst. split; [exact HI|]. unfold nsub. simpl. lia.
  - simpl in H. destruct (demux_step s e) as [s1 o1] eqn:E1.
    destruct (demux_run s1 r) as [s2 o2] eqn:E2. inversion H; subst.
    destruct (demux_step_acct s e s1 o1 w HI E1) as [HI1 A1].
    destruct (IH s1 s' o2 w HI1 E2) as [HI2 A2].
    split; [exact HI2|]. rewrite deliveries_app, app_length, nsub_cons. lia.
Qed.

Lemma nsub_nodup : forall evs w, NoDup (map fst (submissions evs)) ->
  In w (map fst (submissions evs)) -> nsub w evs = 1%nat.
Proof.
  intros evs w. unfold nsub. generalize (submissions evs) as l.
  induction l as [|[w' id'] l IH]; intros HN HI; [destruct HI|].
  simpl in *. inversion HN as [|? ? Hn Hr]; subst.
  destruct (w' =? w) eqn:E.
  - apply N.eqb_eq in E. subst. simpl. f_equal.
    assert (Z : forall l', ~ In w (map fst l') -> filter (fun p : N * N => fst p =? w) l' = []).
    { induction l' as [|[a b] l' IH']; intros Hni; [reflexivity|]. simpl in *.
      destruct (a =? w) eqn:Ea.
      - apply N.eqb_eq in Ea. exfalso. apply Hni. left. exact Ea.
      - apply IH'. intros A. apply Hni. right. exact A. }
    rewrite Z by exact Hn. reflexivity.
  - apply N.eqb_neq in E. destruct HI as [HI|HI]; [contradiction|]. apply IH; assumption.
Qed.

Lemma nsub_notin : forall evs w, ~ In w (map fst (submissions evs)) -> nsub w evs = 0%nat.
Proof.
  intros evs w. unfold nsub. generalize (submissions evs) as l.
  induction l as [|[a b] l IH]; intros Hni; [reflexivity|]. simpl in *.
  destruct (a =? w) eqn:Ea.
  - apply N.eqb_eq in Ea. exfalso. apply Hni. left. exact Ea.
  - apply IH. intros A. apply Hni. right. exact A.
Qed.

Lemma pending_npend : forall w m, pending w m = false <-> npend w m = 0%nat.
Proof.
  induction m as [|[k [o w']] r IH]; [split; reflexivity|].
  unfold pending, npend in *. simpl. destruct (w' =? w); simpl; [split; discriminate | exact IH].
Qed.

(* the ids and the wire: a reply handed to w carries the id w's query was submitted with,
   and arrived with the id w's query was sent under *)
Definition jinv (subs qsubs : list (N * N)) (outs : list dout)
           (m : list (N * (N * N))) (qs : list (N * N)) : Prop :=
  forall wire orig w, In (wire, (orig, w)) m ->
    In (w, orig) subs /\ In (Sent w wire) outs /\
    exists q, map_find wire qs = Some q /\ In (w, q) qsubs.

Lemma jinv_mono : forall subs qsubs outs m qs subs' qsubs' outs', jinv subs qsubs outs m qs ->
  (forall x, In x subs -> In x subs') -> (forall x, In x qsubs -> In x qsubs') ->
  (forall x, In x outs -> In x outs') -> jinv subs' qsubs' outs' m qs.
Proof.
  intros subs qsubs outs m qs subs' qsubs' outs' J A B C wire orig w H.
  destruct (J _ _ _ H) as (X & Y & q & Z1 & Z2). split; [auto|]. split; [auto|]. exists q. auto.
Qed.

Lemma teardown_no_reply : forall m w orig wire rq, ~ In (Deliver w (RReply orig wire rq)) (teardown m).
Proof.
  induction m as [|e m IH]; intros w orig wire rq A; [destruct A|].
  simpl in A. destruct A as [A|A]; [discriminate A | exact (IH _ _ _ _ A)].
Qed.

Lemma map_remove_key_neq : forall V (m : list (N * V)) k k' v, In (k', v) (map_remove k m) -> k' <> k.
Proof.
  induction m as [|[k0 v0] r IH]; intros k k' v H; [destruct H|]. simpl in H.
  destruct (k0 =? k) eqn:E.
  - eapply IH. exact H.
  - apply N.eqb_neq in E. destruct H as [H|H]; [inversion H; subst; exact E | eapply IH; exact H].
Qed.

Lemma map_find_remove_other : forall V (m : list (N * V)) k k', k' <> k ->
  map_find k' (map_remove k m) = map_find k' m.
Proof.
  induction m as [|[k0 v0] r IH]; intros k k' H; [reflexivity|]. simpl.
  destruct (k0 =? k) eqn:E.
  - apply N.eqb_eq in E. subst. rewrite IH by exact H.
    destruct (k =? k') eqn:E2; [apply N.eqb_eq in E2; congruence | reflexivity].
  - simpl. destruct (k0 =? k'); [reflexivity | apply IH; exact H].
Qed.

Lemma in_keys : forall V (m : list (N * V)) k v, In (k, v) m -> In k (keys m).
Proof. intros V m k v H. unfold keys. apply in_map_iff. exists (k, v). auto. Qed.

Definition sub_of (e : dev) : list (N * N) := submissions [e].
Definition qsub_of (e : dev) : list (N * N) := questions [e].

Lemma demux_step_own : forall s e s' o subs qsubs outs,
  jinv subs qsubs outs (d_map s) (d_qs s) -> demux_step s e = (s', o) ->
  jinv (subs ++ sub_of e) (qsubs ++ qsub_of e) (outs ++ o) (d_map s') (d_qs s') /\
  forall w orig wire rq, In (Deliver w (RReply orig wire rq)) o ->
    In (w, orig) subs /\ In (Sent w wire) outs /\ In (w, rq) qsubs.
Proof.
  intros s e s' o subs qsubs outs J H.
  assert (JM : forall x y z, jinv (subs ++ x) (qsubs ++ y) (outs ++ z) (d_map s) (d_qs s)).
  { intros x y z. eapply jinv_mono; [exact J | | | ]; intros; apply in_or_app; left; assumption. }
  assert (JE : forall x y z qs, jinv x y z [] qs) by (intros x y z qs a b c []).
  destruct e as [w0 id q0 i| wire rq |]; unfold demux_step in H.
  - destruct (negb (d_conn s) && io_eqb i IoConnFail).
    { inversion H; subst. split; [apply JM|]. intros w orig wire rq [A|[]]. discriminate A. }
    destruct (65536 <=? lenN (d_map s)).
    { inversion H; subst. split; [apply JM|]. intros w orig wire rq [A|[]]. discriminate A. }
    destruct (probe (S (length (d_map s))) id (d_map s)) as [wire|] eqn:EP.
    2:{ inversion H; subst. split; [apply JM|]. intros w orig wire rq [A|[]]. discriminate A. }
    apply probe_fresh in EP. apply map_mem_false in EP.
    destruct (io_eqb i IoWriteFail); inversion H; subst.
    + split; [apply JE|]. intros w orig wire' rq A. exfalso.
      apply (teardown_no_reply ((wire, (id, w0)) :: d_map s) w orig wire' rq). exact A.
    + split.
      * intros wire' orig w [A|A].
        -- inversion A; subst. split; [apply in_or_app; right; simpl; auto|].
           split; [apply in_or_app; right; simpl; auto|].
           exists q0. cbn [d_qs map_find]. rewrite N.eqb_refl. split; [reflexivity|].
           apply in_or_app. right. simpl. auto.
        -- destruct (JM (sub_of (Submit w0 id q0 i)) (qsub_of (Submit w0 id q0 i)) [Sent w0 wire] _ _ _ A)
             as (X & Y & q & Z1 & Z2).
           split; [exact X|]. split; [exact Y|]. exists q. split; [|exact Z2].
           cbn [d_qs map_find]. destruct (wire =? wire') eqn:E; [|exact Z1].
           apply N.eqb_eq in E. subst. exfalso. apply EP. eapply in_keys. exact A.
      * intros w orig wire' rq [A|[]]. discriminate A.
  - destruct (d_conn s).
    + destruct (map_find wire (d_map s)) as [[orig w1]|] eqn:EF.
      * destruct (question_matches wire rq (d_qs s)) eqn:EQ; inversion H; subst.
        -- split.
           ++ intros wire' orig' w A. cbn [d_map d_qs] in *.
              pose proof (map_remove_key_neq _ _ _ _ _ A) as NE. apply map_remove_subset in A.
              destruct (JM (sub_of (Arrive wire rq)) (qsub_of (Arrive wire rq)) [Deliver w1 (RReply orig wire rq)] _ _ _ A)
                as (X & Y & q & Z1 & Z2).
              split; [exact X|]. split; [exact Y|]. exists q. split; [|exact Z2].
              rewrite map_find_remove_other by exact NE. exact Z1.
           ++ intros w orig' wire' rq' [A|[]]. inversion A; subst.
              destruct (J _ _ _ (map_find_in _ _ _ _ EF)) as (X & Y & q & Z1 & Z2).
              split; [exact X|]. split; [exact Y|].
              unfold question_matches in EQ. rewrite Z1 in EQ. apply N.eqb_eq in EQ. subst. exact Z2.
        -- split; [apply JM|]. intros w orig' wire' rq' [].
      * inversion H; subst. split; [apply JM|]. intros w orig' wire' rq' [].
    + inversion H; subst. split; [apply JM|]. intros w orig wire' rq' [].
  - destruct (d_conn s); inversion H; subst.
    + split; [apply JE|]. intros w orig wire' rq A. exfalso.
      apply (teardown_no_reply (d_map s) w orig wire' rq). exact A.
    + split; [apply JM|]. intros w orig wire' rq [].
Qed.

Lemma submissions_app : forall a b, submissions (a ++ b) = submissions a ++ submissions b.
Proof.
  induction a as [|e a IH]; intros b; [reflexivity|]. destruct e; simpl; rewrite IH; reflexivity.
Qed.
Lemma questions_app : forall a b, questions (a ++ b) = questions a ++ questions b.
Proof.
  induction a as [|e a IH]; intros b; [reflexivity|]. destruct e; simpl; rewrite IH; reflexivity.
Qed.

Lemma demux_run_own : forall evs s s' o subs qsubs outs,
  jinv subs qsubs outs (d_map s) (d_qs s) -> demux_run s evs = (s', o) ->
  jinv (subs ++ submissions evs) (qsubs ++ questions evs) (outs ++ o) (d_map s') (d_qs s') /\
  forall w orig wire rq, In (Deliver w (RReply orig wire rq)) o ->
    In (w, orig) (subs ++ submissions evs) /\ In (Sent w wire) (outs ++ o) /\
    In (w, rq) (qsubs ++ questions evs).
Proof.
  induction evs as [|e r IH]; intros s s' o subs qsubs outs J H.
  - simpl in H. inversion H; subst. simpl. rewrite !app_nil_r. split; [exact J|]. intros w orig wire rq [].
  - simpl in H. destruct (demux_step s e) as [s1 o1] eqn:E1.
    destruct (demux_run s1 r) as [s2 o2] eqn:E2. inversion H; subst.
    destruct (demux_step_own s e s1 o1 subs qsubs outs J E1) as [J1 D1].
    destruct (IH s1 s' o2 _ _ _ J1 E2) as [J2 D2].
    unfold sub_of, qsub_of in *.
    change (e :: r) with ([e] ++ r). rewrite submissions_app, questions_app.
    rewrite <- ?app_assoc in J2, D2. rewrite <- ?app_assoc.
    split; [exact J2|].
    intros w orig wire rq A. apply in_app_or in A. destruct A as [A|A].
    + destruct (D1 _ _ _ _ A) as (X & Y & Z). repeat split; apply in_or_app; left; assumption.
    + exact (D2 _ _ _ _ A).
Qed.

Lemma demux_run_app : forall a b s,
  demux_run s (a ++ b) =
  let '(s1, o1) := demux_run s a in let '(s2, o2) := demux_run s1 b in (s2, o1 ++ o2).
Proof.
  induction a as [|e a IH]; intros b s.
  - simpl. destruct (demux_run s b). reflexivity.
  - simpl. destruct (demux_step s e) as [s1 o1]. rewrite IH.
    destruct (demux_run s1 a) as [s2 o2]. destruct (demux_run s2 b) as [s3 o3].
    rewrite app_assoc. reflexivity.
Qed.

Lemma nodup_fst_inj : forall (l : list (N * N)) w a b,
  NoDup (map fst l) -> In (w, a) l -> In (w, b) l -> a = b.
Proof.
  induction l as [|[w' c] l IH]; intros w a b HN HA HB; [destruct HA|].
  simpl in HN. inversion HN as [|? ? Hn Hr]; subst.
  destruct HA as [HA|HA]; destruct HB as [HB|HB].
  - congruence.
  - inversion HA; subst. exfalso. apply Hn. apply in_map_iff. exists (w, b). auto.
  - inversion HB; subst. exfalso. apply Hn. apply in_map_iff. exists (w, a). auto.
  - eapply IH; eassumption.
Qed.

Theorem demux_exactly_once : forall evs s o,
  demux_run d_init evs = (s, o) ->
  NoDup (map fst (submissions evs)) ->
  (forall w id, In (w, id) (submissions evs) ->
     (pending w (d_map s) = false -> exists r, deliveries w o = [r]) /\
     (pending w (d_map s) = true -> deliveries w o = []) /\
     (forall orig wire rq, In (RReply orig wire rq) (deliveries w o) ->
        orig = id /\ In (Sent w wire) o /\ In (w, rq) (questions evs))) /\
  (forall w, ~ In w (map fst (submissions evs)) -> deliveries w o = [] /\ pending w (d_map s) = false).
Proof.
  intros evs s o H HN. split.
  - intros w id HI.
    destruct (demux_run_acct evs d_init s o w dinv_init H) as [_ A].
    assert (HS : nsub w evs = 1%nat).
    { apply nsub_nodup; [exact HN|]. apply in_map_iff. exists (w, id). auto. }
    rewrite HS in A. unfold npend at 2 in A. simpl in A.
    split; [|split].
    + intros P. apply pending_npend in P. rewrite P in A.
      destruct (deliveries w o) as [|r [|r' l]]; simpl in A; try lia. exists r. reflexivity.
    + intros P. destruct (npend w (d_map s)) eqn:E.
      * apply pending_npend in E. congruence.
      * destruct (deliveries w o); [reflexivity | simpl in A; lia].
    + intros orig wire rq HD. apply deliveries_in in HD.
      assert (J0 : jinv [] [] [] (d_map d_init) (d_qs d_init)) by (intros a b c []).
      destruct (demux_run_own evs d_init s o [] [] [] J0 H) as [_ D].
      destruct (D _ _ _ _ HD) as (X & Y & Z). simpl in X, Y, Z. split; [|split; [exact Y|exact Z]].
      eapply nodup_fst_inj; eassumption.
  - intros w HNI.
    destruct (demux_run_acct evs d_init s o w dinv_init H) as [_ A].
    rewrite (nsub_notin evs w HNI) in A. unfold npend at 2 in A. simpl in A.
    split.
    + destruct (deliveries w o); [reflexivity | simpl in A; lia].
    + apply pending_npend. lia.
Qed.

(* whatever is still waiting is released by the next connection event *)
Theorem demux_conn_error_releases_all : forall evs s o,
  demux_run d_init (evs ++ [ConnError]) = (s, o) -> d_map s = [].
Proof.
  intros evs s o H. rewrite demux_run_app in H.
  destruct (demux_run d_init evs) as [s1 o1] eqn:E1.
  destruct (demux_run_acct evs d_init s1 o1 0 dinv_init E1) as [[_ HC] _].
  simpl in H. destruct (d_conn s1) eqn:EC; inversion H; subst; [reflexivity|]. apply HC. reflexivity.
Qed.

(* ===================================================================== *)
(* (i) Demux, the code as found: a collision kills the task for good     *)
(* ===================================================================== *)
Lemma odead_absorbing : forall evs s, o_dead s = true ->
  fst (odemux_run s evs) = s /\
  forall x, In x (snd (odemux_run s evs)) -> exists w, x = Deliver w RErrInternal.
Proof.
  induction evs as [|e r IH]; intros s HD; [split; [reflexivity | intros x []]|].
  simpl. assert (E : exists o1, odemux_step s e = (s, o1) /\ forall x, In x o1 -> exists w, x = Deliver w RErrInternal).
  { destruct e as [w id q i| wire rq |]; unfold odemux_step; rewrite HD.
    - exists [Deliver w RErrInternal]. split; [reflexivity|]. intros x [A|[]]. exists w. auto.
    - exists []. split; [reflexivity | intros x []].
    - exists []. split; [reflexivity | intros x []]. }
  destruct E as [o1 [E1 E2]]. rewrite E1.
  destruct (IH s HD) as [I1 I2]. destruct (odemux_run s r) as [s2 o2]. simpl in *.
  split; [exact I1|]. intros x A. apply in_app_or in A. destruct A as [A|A]; auto.
Qed.

Lemma odemux_run_app : forall a b s,
  odemux_run s (a ++ b) =
  let '(s1, o1) := odemux_run s a in let '(s2, o2) := odemux_run s1 b in (s2, o1 ++ o2).
Proof.
  induction a as [|e a IH]; intros b s.
  - simpl. destruct (odemux_run s b). reflexivity.
  - simpl. destruct (odemux_step s e) as [s1 o1]. rewrite IH.
    destruct (odemux_run s1 a) as [s2 o2]. destruct (odemux_run s2 b) as [s3 o3].
    rewrite app_assoc. reflexivity.
Qed.

Theorem demux_collision_refuted :
  exists evs,
    (* two waiters, no I/O failure, no connection event, nobody answered ... *)
    evs = [Submit 0 7 100 IoOk; Submit 1 7 101 IoOk] /\
    NoDup (map fst (submissions evs)) /\
    deliveries 0 (snd (odemux_run o_init evs)) = [RErrInternal] /\
    deliveries 1 (snd (odemux_run o_init evs)) = [RErrInternal] /\
    (* ... and every later query through this task fails, whatever id it carries *)
    forall more w id q i,
      In (Deliver w RErrInternal) (snd (odemux_run o_init (evs ++ more ++ [Submit w id q i]))) /\
      forall r, In (Deliver w r) (snd (odemux_run (fst (odemux_run o_init evs)) (more ++ [Submit w id q i]))) ->
                r = RErrInternal.
Proof.
  exists [Submit 0 7 100 IoOk; Submit 1 7 101 IoOk]. split; [reflexivity|].
  split; [simpl; repeat constructor; simpl; intuition discriminate|].
  split; [reflexivity|]. split; [reflexivity|].
  intros more w id q i.
  set (dead := {| o_map := []; o_conn := false; o_dead := true |}).
  assert (E0 : odemux_run o_init [Submit 0 7 100 IoOk; Submit 1 7 101 IoOk] =
               (dead, [Sent 0 7; Deliver 1 RErrInternal; Deliver 0 RErrInternal])) by reflexivity.
  assert (HD : o_dead dead = true) by reflexivity.
  split.
  - rewrite odemux_run_app. rewrite E0. rewrite odemux_run_app.
    destruct (odead_absorbing more dead HD) as [M1 _].
    destruct (odemux_run dead more) as [s1 o1]. simpl in M1. subst s1.
    simpl. right. right. right. apply in_or_app. right. left. reflexivity.
  - rewrite E0. simpl fst. intros r A.
    destruct (odead_absorbing (more ++ [Submit w id q i]) dead HD) as [_ M2].
    destruct (M2 _ A) as [w' Hw]. inversion Hw. reflexivity.
Qed.

(* the repaired machine on the same events: both are sent, with different wire ids *)
Lemma demux_collision_repaired :
  snd (demux_run d_init [Submit 0 7 100 IoOk; Submit 1 7 101 IoOk; Arrive 8 101; Arrive 7 100]) =
  [Sent 0 7; Sent 1 8; Deliver 1 (RReply 7 8 101); Deliver 0 (RReply 7 7 100)].
Proof. reflexivity. Qed.

(* ---- the code as found behaves like the repaired code as long as no
   submission carries an id that is in flight ------------------------------ *)
Definition lift (m : list (N * N)) : list (N * (N * N)) :=
  map (fun e => (fst e, (fst e, snd e))) m.

Definition sim (os : ostate) (s : dstate) : Prop :=
  d_map s = lift (o_map os) /\ d_conn s = o_conn os /\ o_dead os = false.

Lemma map_find_lift : forall m k, map_find k (lift m) = option_map (fun w => (k, w)) (map_find k m).
Proof.
  induction m as [|[k' w] r IH]; intros k; [reflexivity|]. simpl.
  destruct (k' =? k) eqn:E; [apply N.eqb_eq in E; subst; reflexivity | apply IH].
Qed.

Lemma map_mem_lift : forall m k, map_mem k (lift m) = map_mem k m.
Proof. intros m k. unfold map_mem. rewrite map_find_lift. destruct (map_find k m); reflexivity. Qed.

Lemma map_remove_lift : forall m k, map_remove k (lift m) = lift (map_remove k m).
Proof.
  induction m as [|[k' w] r IH]; intros k; [reflexivity|]. simpl.
  destruct (k' =? k); [apply IH | simpl; f_equal; apply IH].
Qed.

Lemma teardown_lift : forall m, teardown (lift m) = oteardown RErrTcp m.
Proof. induction m as [|[k w] r IH]; [reflexivity|]. simpl. f_equal. exact IH. Qed.

Lemma lenN_lift : forall m, lenN (lift m) = lenN m.
Proof. intros m. unfold lenN, lift. rewrite map_length. reflexivity. Qed.

Lemma sim_step : forall os s e, sim os s ->
  match e with
  | Submit _ id _ _ => map_mem id (o_map os) = false /\ lenN (o_map os) < 65536
  | Arrive wire rq =>
    match map_find wire (d_map s) with
    | Some _ => question_matches wire rq (d_qs s) = true
    | None => True
    end
  | _ => True
  end ->
  snd (odemux_step os e) = snd (demux_step s e) /\ sim (fst (odemux_step os e)) (fst (demux_step s e)).
Proof.
  intros os s e [HM [HC HD]] Pre. destruct s as [dm dq dc]. simpl in HM, HC. subst dm dc.
  destruct e as [w id q i| wire rq |]; unfold odemux_step, demux_step; rewrite HD; cbn [d_map d_conn d_qs] in *.
  - destruct Pre as [PM PL].
    destruct (negb (o_conn os) && io_eqb i IoConnFail).
    { simpl. split; [reflexivity|]. split; [reflexivity|]. split; [reflexivity|exact HD]. }
    rewrite PM. rewrite lenN_lift.
    assert (G : (65536 <=? lenN (o_map os)) = false) by (apply N.leb_gt; exact PL). rewrite G.
    cbn [probe]. rewrite map_mem_lift, PM.
    destruct (io_eqb i IoWriteFail); simpl.
    + split; [f_equal; symmetry; apply teardown_lift|]. split; [reflexivity|]. split; reflexivity.
    + split; [reflexivity|]. split; [reflexivity|]. split; reflexivity.
  - destruct (o_conn os) eqn:EC.
    + rewrite map_find_lift in *. destruct (map_find wire (o_map os)) as [w|]; simpl in *.
      * rewrite Pre. simpl. split; [reflexivity|]. split; [apply map_remove_lift|]. split; reflexivity.
      * split; [reflexivity|]. split; [reflexivity|]. split; [simpl; congruence | exact HD].
    + simpl. split; [reflexivity|]. split; [reflexivity|]. split; [simpl; congruence | exact HD].
  - destruct (o_conn os) eqn:EC; simpl.
    + split; [symmetry; apply teardown_lift|]. split; [reflexivity|]. split; reflexivity.
    + split; [reflexivity|]. split; [reflexivity|]. split; [simpl; congruence | exact HD].
Qed.

Lemma sim_run : forall evs os s, sim os s -> no_collision os evs -> well_answered s evs ->
  snd (odemux_run os evs) = snd (demux_run s evs) /\
  sim (fst (odemux_run os evs)) (fst (demux_run s evs)).
Proof.
  induction evs as [|e r IH]; intros os s HS HN HW; [split; [reflexivity | exact HS]|].
  destruct HN as [Pre HN]. destruct HW as [PreW HW].
  assert (Pre' : match e with
                 | Submit _ id _ _ => map_mem id (o_map os) = false /\ lenN (o_map os) < 65536
                 | Arrive wire rq => match map_find wire (d_map s) with
                                     | Some _ => question_matches wire rq (d_qs s) = true
                                     | None => True end
                 | _ => True end) by (destruct e; assumption).
  destruct (sim_step os s e HS Pre') as [E1 S1].
  simpl. destruct (odemux_step os e) as [os1 oo1]. destruct (demux_step s e) as [s1 o1].
  simpl in E1, S1, HN, HW. destruct (IH os1 s1 S1 HN HW) as [E2 S2].
  destruct (odemux_run os1 r) as [os2 oo2]. destruct (demux_run s1 r) as [s2 o2].
  simpl in *. subst. split; [reflexivity | exact S2].
Qed.

Theorem orig_agrees_without_collision : forall evs, no_collision o_init evs -> well_answered d_init evs ->
  snd (odemux_run o_init evs) = snd (demux_run d_init evs) /\
  o_dead (fst (odemux_run o_init evs)) = false.
Proof.
  intros evs H HW. assert (S0 : sim o_init d_init) by (split; [reflexivity | split; reflexivity]).
  destruct (sim_run evs o_init d_init S0 H HW) as [E [_ [_ D]]]. split; assumption.
Qed.

(* ===================================================================== *)
(* composition: the answer a client gets is the answer to its own question *)
(* ===================================================================== *)
Lemma questions_fst : forall evs, map fst (questions evs) = map fst (submissions evs).
Proof. induction evs as [|e r IH]; [reflexivity|]. destruct e; simpl; congruence. Qed.

Theorem own_answer : forall evs s o,
  demux_run d_init evs = (s, o) ->
  NoDup (map fst (submissions evs)) ->
  forall w id q, In (w, id) (submissions evs) -> In (w, q) (questions evs) ->
  forall t, In t (deliveries w o) ->
  forall client_tcp u cq up,
    let rep := in_reply_of cq up (handle_query_model client_tcp id u t) in
    ir_qid rep = cq /\
    match answered_question client_tcp id q u t with
    | Some q' => q' = q /\ ir_from_upstream rep = true /\ ir_rcode rep = up
    | None => ir_rcode rep = SERVFAIL /\ ir_from_upstream rep = false
    end.
Proof.
  intros evs s o H HN w id q HI HQ t HT client_tcp u cq up.
  assert (TQ : forall orig wire rq, t = RReply orig wire rq -> rq = q).
  { intros orig wire rq ->.
    destruct (demux_exactly_once evs s o H HN) as [A _].
    destruct (A w id HI) as (_ & _ & B). destruct (B _ _ _ HT) as (_ & _ & Z).
    eapply nodup_fst_inj; [rewrite questions_fst; exact HN | exact Z | exact HQ]. }
  split.
  - destruct (handle_query_model client_tcp id u t); reflexivity.
  - unfold answered_question, handle_query_model. destruct client_tcp.
    + destruct t as [orig wire rq| | |]; simpl; auto. split; [eapply TQ; reflexivity | auto].
    + destruct u as [rid tc|e]; [|simpl; auto].
      destruct (accept_udp id rid tc); [simpl; auto|].
      destruct t as [orig wire rq| | |]; simpl; auto. split; [eapply TQ; reflexivity | auto].
Qed.

(* ===================================================================== *)
(* the adaptive first-retry delay stays in its documented range          *)
(* ===================================================================== *)
Lemma clamp_in_range : forall t, MIN_TIMEOUT <= clamp_timeout t <= MAX_TIMEOUT.
Proof. intros t. unfold clamp_timeout, MIN_TIMEOUT, MAX_TIMEOUT. lia. Qed.

Lemma adapt_in_range : forall initial cur dur attempts,
  MIN_TIMEOUT <= cur <= MAX_TIMEOUT ->
  MIN_TIMEOUT <= adapt initial cur dur attempts <= MAX_TIMEOUT.
Proof.
  intros initial cur dur attempts H. unfold adapt.
  destruct (attempts <=? 1); [exact H|].
  destruct (dur <? initial).
  - destruct (dur <=? cur); [apply clamp_in_range | exact H].
  - apply clamp_in_range.
Qed.

(* hence a query never starts with a first-retry delay above 2 s, and by
   retry_bounded never runs longer than 50.75 s *)
Lemma retry_bounded_capped : forall fates jit t0, 0 < t0 <= MAX_TIMEOUT ->
  elapsed (retry fates jit t0) <= 50750000000.
Proof.
  intros fates jit t0 [H0 H1]. destruct (retry_bounded fates jit t0 H0) as (_ & B & _).
  unfold MAX_TIMEOUT in H1. lia.
Qed.

(* Crash points between the write and the reply (C01 quantifies over
   crash_points).  A [lost] step updates the store exactly like a delivered one
   but its reply never reaches the client, so it is not logged as a grant.
   With such steps C01_no_double_allocation is FALSE for the faithful model:
   a renewal shortly after the previous one shortens the server's record
   (3 x elapsed < remaining), and if that reply is lost the client still relies
   on the longer lease it was told last. *)
From Erbium Require Import Lib.Base Model.DhcpPool Proofs.DhcpPool.

Definition step_lossy (s : state) (el : event * bool) : option state :=
  let '(e, lost) := el in
  match step s e with
  | Some (d', log') => Some (d', if lost then snd s else log')
  | None => None
  end.

Fixpoint run_lossy_from (s : state) (h : list (event * bool)) : option state :=
  match h with
  | [] => Some s
  | el :: h' => match step_lossy s el with Some s' => run_lossy_from s' h' | None => None end
  end.
Definition run_lossy (h : list (event * bool)) : option state := run_lossy_from ([], []) h.

Definition cr_a : list N := [1].
Definition cr_b : list N := [2].
Definition cr_op c := {| o_client := c; o_req := None; o_pool := [10]; o_min := 300; o_max := 86400 |}.
Definition crash_witness : list (event * bool) :=
  [ (EAlloc (cr_op cr_a) 1000 1000 (Granted 10 300 NewAddress), false);
    (EAlloc (cr_op cr_a) 1150 1150 (Granted 10 450 ReusingLease), false);   (* told: until 1600 *)
    (EAlloc (cr_op cr_a) 1151 1151 (Granted 10 300 ReusingLease), true);    (* record: until 1451; reply lost *)
    (EAlloc (cr_op cr_b) 1452 1452 (Granted 10 300 NewAddress), false) ].

Lemma lost_reply_refuted :
  exists h d log,
    wf_history (map fst h) = true /\ run_lossy h = Some (d, log) /\
    exists a b x t, a <> b /\ holds log a x t /\ holds log b x t.
Proof.
  exists crash_witness. eexists. eexists. split; [reflexivity|]. split; [vm_compute; reflexivity|].
  exists cr_a, cr_b, 10, 1500. split; [discriminate|]. split.
  - eexists. split; [vm_compute; reflexivity|]. vm_compute. reflexivity.
  - eexists. split; [vm_compute; reflexivity|]. vm_compute. reflexivity.
Qed.

(* without lost replies the lossy run is the ordinary one *)
Lemma run_lossy_none_lost : forall h s,
  run_lossy_from s (map (fun e => (e, false)) h) = run_from s h.
Proof.
  induction h as [|e h IH]; intros s; simpl; [reflexivity|].
  destruct (step s e) as [[d' log']|]; [apply IH|reflexivity].
Qed.

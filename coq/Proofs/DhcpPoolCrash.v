(* Crash points between the write and the reply (C01 quantifies over
   crash_points).  A [lost] step updates the store exactly like a delivered one
   but its reply never reaches the client, so it is not logged as a grant
   (Model/DhcpPool.v: step_lossy, run_lossy, wf_lossy).

   Before the repair of observation O1 the statement was FALSE for such
   histories (a renewal shortly after the previous one shortened the server's
   record below what the client had last been told).  With the repaired lease
   time -- a renewal is granted at least the remainder of the current lease --
   the server's record of an address never ends before the latest expiry the
   holding client was told, and the theorem holds for lossy histories as long
   as the configured maximum does not change inside the history (a lowered
   maximum would, correctly, cut the remainder). *)
From Erbium Require Import Lib.Base Model.DhcpPool Proofs.DhcpPool.

Definition RowsOK (M now : N) (d : db) : Prop :=
  forall r, In r d -> r_start r <= now /\ r_expiry r <= r_start r + M.

Definition CoveredL (now : N) (d : db) (log : list grant) : Prop :=
  forall c x g, newest_grant log c x = Some g ->
    (exists r, In r d /\ r_addr r = x /\ r_client r = c /\ g_expiry g <= r_expiry r)
    \/ g_expiry g <= now.

Definition LInv (M now : N) (d : db) (log : list grant) : Prop :=
  Inv d /\ Forall (fun g => g_time g <= now) log /\ RowsOK M now d /\ CoveredL now d log /\ NoDouble log.

Lemma linv_later : forall M now now' d log, now <= now' -> LInv M now d log -> LInv M now' d log.
Proof.
  intros M now now' d log L [I [F [R [C N]]]]. repeat split; try assumption.
  - eapply Forall_impl; [|exact F]. simpl. intros. lia.
  - destruct (R r H). lia.
  - destruct (R r H). assumption.
  - intros c x g G. destruct (C c x g G) as [H|H]; [left; assumption|right; lia].
Qed.

Lemma clamp_ge : forall o v, v <= o_max o -> v <= clamp o v.
Proof. intros. unfold clamp. lia. Qed.

(* the heart of the repair: whatever row sat on the granted address, the new
   record does not end before it did *)
Lemma grant_covers_old : forall M now d o t1 t2 ip s k d',
  Inv d -> RowsOK M now d -> now <= t1 -> t1 <= t2 -> t2 < pow2 32 -> o_max o = M ->
  alloc_ok d o t1 t2 (Granted ip s k) = Some d' ->
  forall r, In r d -> r_addr r = ip -> r_expiry r <= t2 + s.
Proof.
  intros M now d o t1 t2 ip s k d' I R L1 L2 L3 EM H r Hr Ea.
  assert (T : t1 < pow2 32) by lia.
  destruct (list_eq_dec N.eq_dec (r_client r) (o_client o)) as [Ec|Ec].
  2:{ pose proof (grant_respects_holder _ _ _ _ _ _ _ _ I T H r Hr Ea Ec). lia. }
  unfold alloc_ok in H. rewrite (cast_small _ T) in H.
  destruct k; brk H;
    repeat match goal with
    | E : (_ && _) = true |- _ => apply andb_true_iff in E; destruct E
    end.
  - (* New: the client has no row in the pool, but r is one *)
    exfalso.
    match goal with E : none_in_pool _ (my_rows d o) = true |- _ =>
      apply (proj1 (none_in_pool_spec _ _) E r) end.
    apply in_my_rows; auto. rewrite Ea. apply in_pool_spec. assumption.
  - (* Reusing: r is the row taken; the lease time is at least its remainder *)
    match goal with E : find_addr ip _ = Some ?r0 |- _ =>
      apply find_addr_some in E; destruct E as [E1 E2];
      apply in_cur_rows in E1; destruct E1 as [E1 [E3 E4]];
      assert (r0 = r) by (apply (nodup_unique d); [exact I|assumption|assumption|congruence]); subst r0
    end.
    match goal with E : (s =? clamp o _) = true |- _ => apply N.eqb_eq in E; subst s end.
    destruct (R r Hr) as [R1 R2].
    assert (V : r_expiry r - t1 <= reuse_secs t1 r) by (unfold reuse_secs, sat_sub; lia).
    assert (B : r_expiry r - t1 <= o_max o) by lia.
    assert (C : r_expiry r - t1 <= clamp o (reuse_secs t1 r)) by (unfold clamp in *; lia).
    lia.
  - (* Requested *)
    match goal with E : req_ok d o t1 ip = true |- _ =>
      unfold req_ok in E; apply andb_true_iff in E; destruct E as [_ E];
      pose proof (proj1 (free_spec _ _ _) E r Hr Ea) end.
    lia.
  - (* Revived: no current row of the client in the pool, so r has expired *)
    match goal with E : find_addr ip _ = Some ?r0 |- _ =>
      apply find_addr_some in E; destruct E as [E1 E2] end.
    match goal with E : best_in_pool _ _ _ _ = true |- _ =>
      unfold best_in_pool in E; apply andb_true_iff in E; destruct E as [E _]; apply in_pool_spec in E end.
    destruct (N.lt_ge_cases t1 (r_expiry r)) as [Lt|Ge]; [|lia].
    exfalso.
    match goal with E : none_in_pool _ (cur_rows d o t1) = true |- _ =>
      apply (proj1 (none_in_pool_spec _ _) E r) end.
    apply in_cur_rows; auto. congruence.
Qed.

Lemma old_holder_expired_l : forall M now d log o t1 t2 ip s k d' b t,
  LInv M now d log -> now <= t1 -> t1 <= t2 -> t2 < pow2 32 ->
  alloc_ok d o t1 t2 (Granted ip s k) = Some d' ->
  b <> o_client o -> t2 <= t -> holds log b ip t -> False.
Proof.
  intros M now d log o t1 t2 ip s k d' b t [I [F [R [C N]]]] L1 L2 L3 H NB LT [g [G E]].
  rewrite last_is_newest in G.
  2:{ eapply Forall_impl; [|exact F]. simpl. intros. lia. }
  destruct (C _ _ _ G) as [[r [R1 [R2 [R3 R4]]]]|G4].
  - assert (r_expiry r < t1).
    { eapply grant_respects_holder; try eassumption. lia. congruence. }
    lia.
  - lia.
Qed.

Lemma grant_step_l : forall M now d log o t1 t2 ip s k d' (lost : bool),
  LInv M now d log -> now <= t1 -> t1 <= t2 -> t2 + M < pow2 32 ->
  o_min o <= o_max o -> o_max o = M ->
  alloc_ok d o t1 t2 (Granted ip s k) = Some d' ->
  LInv M t2 d' (if lost then log else grant_of o t2 ip s :: log).
Proof.
  intros M now d log o t1 t2 ip s k d' lost LI L1 L2 L3 Lm EM H.
  pose proof LI as [I [F [R [C N]]]].
  pose proof (granted_store _ _ _ _ _ _ _ _ H) as ED.
  pose proof (lease_bounds _ _ _ _ _ _ _ _ H Lm) as [_ SB].
  assert (L3' : t2 < pow2 32) by lia.
  pose proof (grant_covers_old M now d o t1 t2 ip s k d' I R L1 L2 L3' EM H) as GC.
  assert (NE : r_expiry (new_row o ip t2 s) = t2 + s) by (simpl; apply cast_small; lia).
  assert (NS : r_start (new_row o ip t2 s) = t2) by (simpl; apply cast_small; lia).
  assert (Ftime : Forall (fun g => g_time g <= t2) log).
  { eapply Forall_impl; [|exact F]. simpl. intros. lia. }
  assert (Rows : RowsOK M t2 d').
  { subst d'. intros r Hr. apply in_upsert in Hr. destruct Hr as [Hr|[Hr _]].
    - subst r. rewrite NE, NS. lia.
    - destruct (R r Hr). lia. }
  (* the part of CoveredL that does not depend on whether the reply is logged *)
  assert (Old : forall c x g, newest_grant log c x = Some g ->
                (c = o_client o -> x = ip -> lost = true) ->
                (exists r, In r d' /\ r_addr r = x /\ r_client r = c /\ g_expiry g <= r_expiry r)
                \/ g_expiry g <= t2).
  { intros c x g G _. destruct (C _ _ _ G) as [[r [R1 [R2 [R3 R4]]]]|G4]; [|right; lia].
    destruct (N.eq_dec x ip) as [E|E].
    - rewrite E in *. clear E.
      destruct (list_eq_dec N.eq_dec c (o_client o)) as [Ec|Ec].
      + left. exists (new_row o ip t2 s). subst d'. split. apply in_upsert. left. reflexivity.
        split. reflexivity. split. simpl. congruence.
        rewrite NE. pose proof (GC r R1 R2). lia.
      + right. assert (r_expiry r < t1).
        { eapply grant_respects_holder; try eassumption. lia. congruence. }
        lia.
    - left. exists r. subst d'. split. apply in_upsert. right. split. assumption. simpl. congruence. auto. }
  split; [eapply alloc_preserves_inv; eassumption|].
  destruct lost.
  - (* reply lost: the log is unchanged *)
    split; [assumption|]. split; [assumption|]. split; [|assumption].
    intros c x g G. apply (Old c x g G). auto.
  - split; [constructor; [simpl; lia|assumption]|]. split; [assumption|]. split.
    + intros c x g G. simpl in G.
      destruct (bytes_eqb (o_client o) c && (ip =? x)) eqn:B.
      * inversion G; subst g. apply andb_true_iff in B. destruct B as [B1 B2].
        apply bytes_eqb_eq in B1. apply N.eqb_eq in B2. subst c x.
        left. exists (new_row o ip t2 s). subst d'. split. apply in_upsert. left. reflexivity.
        split. reflexivity. split. reflexivity. simpl. lia.
      * (* an older grant to another (client, address) pair *)
        destruct (C _ _ _ G) as [[r [R1 [R2 [R3 R4]]]]|G4]; [|right; lia].
        destruct (N.eq_dec x ip) as [E|E].
        -- rewrite E in *. clear E. rewrite N.eqb_refl in B. rewrite andb_true_r in B. apply bytes_eqb_neq in B.
           right. assert (r_expiry r < t1).
           { eapply grant_respects_holder; try eassumption. lia. congruence. }
           lia.
        -- left. exists r. subst d'. split. apply in_upsert. right. split. assumption. simpl. congruence. auto.
    + intros a b x t NEq [Ha Hb].
      apply holds_cons in Ha. apply holds_cons in Hb. simpl in Ha, Hb.
      destruct Ha as [[A1 [A2 [A3 A4]]]|Ha]; destruct Hb as [[B1 [B2 [B3 B4]]]|Hb].
      * congruence.
      * subst x. eapply (old_holder_expired_l M now d log o t1 t2 ip s k d' b t); eauto. congruence.
      * subst x. eapply (old_holder_expired_l M now d log o t1 t2 ip s k d' a t); eauto. congruence.
      * exact (N a b x t NEq (conj Ha Hb)).
Qed.

Lemma run_lossy_linv : forall M h now d log d' log',
  wf_lossy_from M now h = true -> LInv M now d log ->
  run_lossy_from (d, log) h = Some (d', log') -> exists now', LInv M now' d' log'.
Proof.
  induction h as [|[e lost] h IH]; intros now d log d' log' W LI H; simpl in H.
  - inversion H; subst. exists now. assumption.
  - destruct e as [o t1 t2 a|dd|]; simpl in H, W.
    + destruct (alloc_ok d o t1 t2 a) as [d1|] eqn:E; [|discriminate].
      repeat (apply andb_true_iff in W; destruct W as [W ?]).
      repeat match goal with X : (_ <=? _) = true |- _ => apply N.leb_le in X end.
      repeat match goal with X : (_ <? _) = true |- _ => apply N.ltb_lt in X end.
      repeat match goal with X : (_ =? _) = true |- _ => apply N.eqb_eq in X end.
      eapply (IH t2); [eassumption| |exact H].
      destruct a as [ip s k| | | |].
      * apply (grant_step_l M now d log o t1 t2 ip s k d1 lost); try assumption.
      * apply refused_store in E; [|congruence]. subst d1.
        destruct lost; apply (linv_later M now); try lia; assumption.
      * simpl in E. discriminate.
      * simpl in E. discriminate.
      * apply refused_store in E; [|congruence]. subst d1.
        destruct lost; apply (linv_later M now); try lia; assumption.
    + destruct lost; (eapply (IH (now + dd)); [eassumption| |exact H]; apply (linv_later M now); [lia|assumption]).
    + destruct lost; (eapply (IH now); eassumption).
Qed.

Lemma linv_init : forall M, LInv M 0 [] [].
Proof.
  intros M. repeat split.
  - constructor.
  - constructor.
  - destruct H.
  - destruct H.
  - intros c x g G. simpl in G. discriminate.
  - intros a b x t _ [[g [G _]] _]. simpl in G. discriminate.
Qed.

Lemma no_double_allocation_lossy : forall M h, wf_lossy M h = true ->
  forall d log, run_lossy h = Some (d, log) ->
  forall a b x t, a <> b -> ~ (holds log a x t /\ holds log b x t).
Proof.
  intros M h W d log H.
  destruct (run_lossy_linv M h 0 [] [] d log W (linv_init M) H) as [now' [_ [_ [_ [_ N]]]]].
  exact N.
Qed.

(* without lost replies the lossy run is the ordinary one *)
Lemma run_lossy_none_lost : forall h s,
  run_lossy_from s (map (fun e => (e, false)) h) = run_from s h.
Proof.
  induction h as [|e h IH]; intros s; simpl; [reflexivity|].
  destruct (step s e) as [[d' log']|]; [apply IH|reflexivity].
Qed.

From Erbium Require Import Lib.Base Model.Service.

Section ServiceFacts.
  Variables St Rep : Type.
  Variable handle : St -> list N -> outcome (St * option Rep).
  Hypothesis handle_total : forall st b, is_panic (handle st b) = false.

  Lemma inline_alive st bs : exists st', run_inline St Rep handle st bs = Some st'.
  Proof.
    unfold run_inline. revert st. induction bs as [|b bs IH]; intro st; cbn [fold_left].
    - now exists st.
    - unfold step_inline at 2. specialize (handle_total st b).
      destruct (handle st b) as [[s' r]| |]; [apply IH | apply IH | discriminate].
  Qed.

  (* after any inputs whatsoever the next request is handled by the real handler,
     not dropped by a dead service *)
  Lemma inline_still_answers st bs v :
    exists st', run_inline St Rep handle st bs = Some st' /\
                step_inline St Rep handle (run_inline St Rep handle st bs) v =
                match handle st' v with Ok (s', _) => Some s' | _ => Some st' end.
  Proof.
    destruct (inline_alive st bs) as [st' E]. exists st'. split; [exact E|].
    rewrite E. cbn [step_inline]. specialize (handle_total st' v).
    destruct (handle st' v) as [[s' r]| |]; [reflexivity|reflexivity|discriminate].
  Qed.
End ServiceFacts.

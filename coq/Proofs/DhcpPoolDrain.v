(* "Every address of the pool can actually be leased" for the lease store:
   a client without any lease is refused only when no pool address is free,
   is given the address it names if that one is free, and -- whatever order
   the implementation picks free addresses in (SipHash) -- as many new clients
   as the pool has addresses drain it completely, so every free address of the
   pool ends up leased.  Used by the bridge theorems of Props/C02Pool.v. *)
From Erbium Require Import Lib.Base Model.DhcpPool Proofs.DhcpPool.

Definition fresh (d : db) (c : list N) : Prop := forall r, In r d -> r_client r <> c.

Definition new_op (c : list N) (req : option N) (pool : list N) (mn mx : N) : op :=
  {| o_client := c; o_req := req; o_pool := pool; o_min := mn; o_max := mx |}.

Lemma fresh_my_rows : forall d o r, fresh d (o_client o) -> ~ In r (my_rows d o).
Proof. intros d o r F H. apply in_my_rows in H. destruct H as [H E]. exact (F r H E). Qed.

Lemma fresh_cur_rows : forall d o t r, fresh d (o_client o) -> ~ In r (cur_rows d o t).
Proof. intros d o t r F H. apply cur_sub_all in H. exact (fresh_my_rows d o r F H). Qed.

(* what the model admits for a client that has no lease at all *)
Lemma fresh_step : forall d o t1 t2 a d',
  fresh d (o_client o) -> t1 < pow2 32 ->
  alloc_ok d o t1 t2 a = Some d' ->
  (a = NoAddress /\ d' = d /\ forall x, In x (o_pool o) -> free d t1 x = false)
  \/ (exists ip s k, a = Granted ip s k /\ (k = NewAddress \/ k = Requested) /\
        In ip (o_pool o) /\ free d t1 ip = true /\
        (forall q, o_req o = Some q -> In q (o_pool o) -> free d t1 q = true -> ip = q) /\
        d' = upsert (new_row o ip t2 s) d).
Proof.
  intros d o t1 t2 a d' F T H.
  pose proof H as H0.
  unfold alloc_ok in H. rewrite (cast_small _ T) in H.
  destruct a as [ip s k| | | |]; try discriminate H.
  - right. exists ip, s, k. split; [reflexivity|].
    pose proof (granted_store _ _ _ _ _ _ _ _ H0) as ED.
    pose proof (granted_in_pool _ _ _ _ _ _ _ _ H0) as P.
    destruct k.
    + brk H. repeat match goal with E : (_ && _) = true |- _ => apply andb_true_iff in E; destruct E end.
      split; [left; reflexivity|]. split; [assumption|]. split; [assumption|]. split; [|assumption].
      intros q Eq Pq Fq. exfalso.
      match goal with E : no_req_ok d o t1 = true |- _ => unfold no_req_ok in E; rewrite Eq in E;
        apply negb_true_iff in E; unfold req_ok in E; rewrite Eq in E; simpl in E;
        rewrite N.eqb_refl, (proj2 (in_pool_spec _ _) Pq), Fq in E; discriminate E end.
    + exfalso. brk H.
      match goal with E : find_addr ip _ = Some ?r0 |- _ => apply find_addr_some in E; destruct E as [E1 _];
        exact (fresh_cur_rows d o t1 r0 F E1) end.
    + brk H. repeat match goal with E : (_ && _) = true |- _ => apply andb_true_iff in E; destruct E end.
      match goal with E : req_ok d o t1 ip = true |- _ => unfold req_ok in E;
        apply andb_true_iff in E; destruct E as [E Fr]; apply andb_true_iff in E; destruct E as [Rq _] end.
      split; [right; reflexivity|]. split; [assumption|]. split; [assumption|]. split; [|assumption].
      intros q Eq _ _. unfold is_req in Rq. rewrite Eq in Rq. apply N.eqb_eq in Rq. congruence.
    + exfalso. brk H.
      match goal with E : find_addr ip _ = Some ?r0 |- _ => apply find_addr_some in E; destruct E as [E1 _];
        exact (fresh_my_rows d o r0 F E1) end.
  - left. split; [reflexivity|]. split; [eapply refused_store; [exact H0|congruence]|].
    brk H. repeat match goal with E : (_ && _) = true |- _ => apply andb_true_iff in E; destruct E end.
    intros x Px.
    match goal with E : forallb _ (o_pool o) = true |- _ => rewrite forallb_forall in E; specialize (E x Px);
      apply negb_true_iff in E; exact E end.
  - exfalso. brk H. repeat match goal with E : (_ && _) = true |- _ => apply andb_true_iff in E; destruct E end.
    match goal with E : existsb _ (my_rows d o) = true |- _ => apply existsb_exists in E; destruct E as [r [R1 _]];
      exact (fresh_my_rows d o r F R1) end.
Qed.

(* naming a free pool address gets exactly that address *)
Lemma leasable_on_request : forall d c x pool mn mx t1 t2 a d',
  fresh d c -> t1 < pow2 32 -> In x pool -> free d t1 x = true ->
  alloc_ok d (new_op c (Some x) pool mn mx) t1 t2 a = Some d' ->
  exists s k, a = Granted x s k.
Proof.
  intros d c x pool mn mx t1 t2 a d' F T P Fx H.
  destruct (fresh_step d (new_op c (Some x) pool mn mx) t1 t2 a d' F T H) as [[_ [_ N]]|[ip [s [k [E [_ [_ [_ [Q _]]]]]]]]].
  - specialize (N x P). congruence.
  - exists s, k. rewrite E. f_equal. apply (Q x); auto.
Qed.

(* ---- draining the pool --------------------------------------------------- *)
Definition nfree (d : db) (t : N) (pool : list N) : nat := length (filter (free d t) pool).

Lemma filter_shrinks : forall (f g : N -> bool) (l : list N) ip,
  (forall y, g y = true -> f y = true) -> In ip l -> f ip = true -> g ip = false ->
  (length (filter g l) + 1 <= length (filter f l))%nat.
Proof.
  induction l as [|y l IH]; intros ip S I Fi Gi; simpl in *; [contradiction|].
  assert (Mono : (length (filter g l) <= length (filter f l))%nat).
  { clear -S. induction l as [|z l IH]; simpl; [lia|].
    destruct (g z) eqn:G; [rewrite (S z G); simpl; lia|]. destruct (f z); simpl; lia. }
  destruct I as [E|I].
  - subst y. rewrite Fi, Gi. simpl. lia.
  - specialize (IH ip S I Fi Gi).
    destruct (g y) eqn:G; [rewrite (S y G); simpl; lia|]. destruct (f y); simpl; lia.
Qed.

Lemma free_after_grant : forall d o ip t s y,
  t + s < pow2 32 ->
  free (upsert (new_row o ip t s) d) t y = if y =? ip then false else free d t y.
Proof.
  intros d o ip t s y W. unfold free, upsert. cbn [forallb new_row r_addr r_expiry].
  rewrite (cast_small (t + s)) by assumption.
  destruct (y =? ip) eqn:E.
  - apply N.eqb_eq in E. subst y. rewrite N.eqb_refl. simpl.
    assert (X : (t + s <? t) = false) by (apply N.ltb_ge; lia). rewrite X. reflexivity.
  - rewrite N.eqb_sym in E. rewrite E. simpl.
    induction d as [|r d IH]; simpl; [reflexivity|].
    destruct (r_addr r =? ip) eqn:A; simpl.
    + apply N.eqb_eq in A. rewrite A. rewrite E. simpl. exact IH.
    + rewrite IH. reflexivity.
Qed.

Definition drain_events (cas : list (list N * answer)) (pool : list N) (mn mx t : N) : list event :=
  map (fun ca => EAlloc (new_op (fst ca) None pool mn mx) t t (snd ca)) cas.

Lemma drain_progress : forall pool mn mx t, t + mx < pow2 32 -> mn <= mx ->
  forall cas d log d' log',
  NoDup (map fst cas) -> (forall c, In c (map fst cas) -> fresh d c) ->
  run_from (d, log) (drain_events cas pool mn mx t) = Some (d', log') ->
  forall x, In x pool -> free d t x = true ->
  (exists g, In g log' /\ g_addr g = x /\ In (g_client g) (map fst cas))
  \/ (free d' t x = true /\ (nfree d' t pool + length cas <= nfree d t pool)%nat).
Proof.
  intros pool mn mx t W Lm.
  assert (T : t < pow2 32) by lia.
  induction cas as [|[c a] cas IH]; intros d log d' log' ND FR H x Px Fx; simpl in H.
  - inversion H; subst. right. split; [assumption|]. simpl. lia.
  - destruct (alloc_ok d (new_op c None pool mn mx) t t a) as [d1|] eqn:E; [|discriminate].
    simpl in ND. inversion ND as [|? ? NI ND']; subst.
    assert (Fc : fresh d (o_client (new_op c None pool mn mx))) by (apply FR; left; reflexivity).
    destruct (fresh_step _ _ _ _ _ _ Fc T E) as [[Ea [Ed N]]|[ip [s [k [Ea [_ [Pi [Fi [_ Ed]]]]]]]]].
    + (* refused although x is free: impossible *)
      specialize (N x Px). congruence.
    + subst a.
      assert (SB : s <= mx).
      { pose proof (lease_bounds _ _ _ _ _ _ _ _ E Lm) as [_ B]. exact B. }
      assert (Wts : t + s < pow2 32) by lia.
      assert (FR1 : forall c', In c' (map fst cas) -> fresh d1 c').
      { intros c' I r Hr. subst d1. apply in_upsert in Hr. destruct Hr as [Hr|[Hr _]].
        - subst r. simpl. intro Ec. apply NI. rewrite Ec. exact I.
        - apply (FR c'). right. exact I. exact Hr. }
      destruct (N.eq_dec ip x) as [Ex|Ex].
      * (* x itself was granted now; the grant stays in the log *)
        left. clear IH.
        assert (Keep : forall h s0, run_from s0 h = Some (d', log') ->
                        forall g, In g (snd s0) -> In g log').
        { induction h as [|e h IHh]; intros s0 R g G; simpl in R.
          - inversion R; subst. exact G.
          - destruct (step s0 e) as [s1|] eqn:S; [|discriminate].
            apply (IHh s1 R). destruct e as [o' a1 a2 a'| |]; simpl in S.
            + destruct (alloc_ok (fst s0) o' a1 a2 a') as [dd|]; [|discriminate].
              inversion S; subst. simpl. destruct a'; simpl; auto.
            + inversion S; subst. exact G.
            + inversion S; subst. exact G. }
        exists (grant_of (new_op c None pool mn mx) t ip s). split.
        -- eapply Keep; [exact H|]. simpl. left. reflexivity.
        -- split; [exact Ex|]. simpl. left. reflexivity.
      * (* another address went; x is still free and one free address less *)
        assert (Fx1 : free d1 t x = true).
        { subst d1. rewrite free_after_grant by assumption.
          destruct (x =? ip) eqn:B; [apply N.eqb_eq in B; congruence|exact Fx]. }
        assert (Cnt : (nfree d1 t pool + 1 <= nfree d t pool)%nat).
        { unfold nfree. apply (filter_shrinks (free d t) (free d1 t) pool ip).
          - intros y Gy. subst d1. rewrite free_after_grant in Gy by assumption.
            destruct (y =? ip); [discriminate|exact Gy].
          - exact Pi.
          - exact Fi.
          - subst d1. rewrite free_after_grant by assumption. rewrite N.eqb_refl. reflexivity. }
        destruct (IH d1 _ d' log' ND' FR1 H x Px Fx1) as [[g [G1 [G2 G3]]]|[F2 C2]].
        -- left. exists g. split; [assumption|]. split; [assumption|]. simpl. right. assumption.
        -- right. split; [assumption|]. simpl. lia.
Qed.

(* as many new clients as the pool has addresses: every free address gets leased *)
Lemma drain : forall pool mn mx t cas d log d' log',
  t + mx < pow2 32 -> mn <= mx ->
  NoDup (map fst cas) -> (forall c, In c (map fst cas) -> fresh d c) ->
  length cas = length pool ->
  run_from (d, log) (drain_events cas pool mn mx t) = Some (d', log') ->
  forall x, In x pool -> free d t x = true ->
  exists g, In g log' /\ g_addr g = x /\ In (g_client g) (map fst cas).
Proof.
  intros pool mn mx t cas d log d' log' W Lm ND FR Len H x Px Fx.
  destruct (drain_progress pool mn mx t W Lm cas d log d' log' ND FR H x Px Fx) as [G|[F2 C]]; [exact G|].
  exfalso.
  assert (A : (nfree d t pool <= length pool)%nat).
  { unfold nfree. clear. induction pool as [|y l IH]; simpl; [lia|]. destruct (free d t y); simpl; lia. }
  assert (B : (1 <= nfree d' t pool)%nat).
  { unfold nfree. clear -Px F2. induction pool as [|y l IH]; simpl in *; [contradiction|].
    destruct Px as [E|I].
    - subst y. rewrite F2. simpl. lia.
    - specialize (IH I). destruct (free d' t y); simpl; lia. }
  lia.
Qed.

(* Lemmas about Model/ConfigAst.v (property C19). *)
From Erbium Require Import Lib.Base Model.ConfigAst.
From Coq Require Import String.

(* "does not panic" as a predicate that composes along the outcome monad *)
Definition np {A} (o : outcome A) : Prop := forall k, o <> Panic k.

Lemma np_ok : forall A (a : A), np (Ok a).
Proof. intros A a k; discriminate. Qed.
Lemma np_err : forall A e, np (@Err A e).
Proof. intros A e k; discriminate. Qed.
Lemma np_bind : forall A B (o : outcome A) (f : A -> outcome B),
  np o -> (forall a, o = Ok a -> np (f a)) -> np (obind o f).
Proof.
  intros A B o f Ho Hf k. destruct o as [a|e|k']; simpl.
  - apply Hf; reflexivity.
  - discriminate.
  - exfalso; exact (Ho k' eq_refl).
Qed.
Lemma np_is_panic : forall A (o : outcome A), np o -> is_panic o = false.
Proof. intros A o H; destruct o; try reflexivity. exfalso; exact (H k eq_refl). Qed.
Lemma is_panic_np : forall A (o : outcome A), is_panic o = false -> np o.
Proof. intros A o H k E; subst; discriminate. Qed.

Ltac np_step :=
  first [ apply np_ok | apply np_err
        | apply np_bind; [ | intros ? ? ] ].

(* a boolean fact about every n <= bound, checked by computation *)
Lemma upto_spec : forall (P : N -> bool) (bound : nat),
  forallb P (map N.of_nat (seq 0 (S bound))) = true ->
  forall n, n <= N.of_nat bound -> P n = true.
Proof.
  intros P bound H n Hn. rewrite forallb_forall in H. apply H.
  apply in_map_iff. exists (N.to_nat n). split.
  - apply N2Nat.id.
  - apply in_seq. lia.
Qed.

(* ---- type names (F29) --------------------------------------------------- *)
Lemma type_to_name_total : forall y, np (type_to_name y).
Proof.
  fix IH 1. intros y k. destruct y; try discriminate.
  destruct a as [|x a]; simpl; [discriminate|].
  specialize (IH x). destruct (type_to_name x) as [n|e|k'] eqn:E; try discriminate.
  exfalso; exact (IH k' eq_refl).
Qed.

Lemma type_to_name_orig_refuted : exists y, type_to_name_orig y = Panic IndexOOB.
Proof. exists (YArray []). reflexivity. Qed.

Lemma type_error_total : forall A y, np (@type_error A y).
Proof.
  intros A y k. unfold type_error. pose proof (type_to_name_total y) as H.
  destruct (type_to_name y) as [n|e|k']; try discriminate. exfalso; exact (H k' eq_refl).
Qed.

Lemma parse_string_total : forall y, np (parse_string y).
Proof. intros y; destruct y; simpl; first [apply np_ok | apply type_error_total]. Qed.
Lemma parse_boolean_total : forall y, np (parse_boolean y).
Proof. intros y; destruct y; simpl; first [apply np_ok | apply type_error_total]. Qed.

Lemma parse_elems_total : forall T (p : yaml -> outcome (option T)),
  (forall y, np (p y)) -> forall a, np (parse_elems p a).
Proof.
  intros T p Hp. induction a as [|x r IH]; simpl; [apply np_ok|].
  apply np_bind; [apply Hp|intros v _]. apply np_bind; [apply IH|intros vs _]. apply np_ok.
Qed.
Lemma no_nulls_total : forall T (l : list (option T)), np (no_nulls l).
Proof.
  induction l as [|[v|] r IH]; simpl; [apply np_ok| |apply np_err].
  apply np_bind; [apply IH|intros; apply np_ok].
Qed.
Lemma parse_array_total : forall T (p : yaml -> outcome (option T)),
  (forall y, np (p y)) -> forall y, np (parse_array p y).
Proof.
  intros T p Hp y. destruct y; simpl; try apply type_error_total; [|apply np_ok].
  apply np_bind; [apply parse_elems_total; exact Hp|intros l _].
  apply np_bind; [apply no_nulls_total|intros; apply np_ok].
Qed.

(* ---- durations (F30) ---------------------------------------------------- *)
Lemma dur_loop_total : forall s num ret, np (dur_loop s num ret).
Proof.
  induction s as [|c r IH]; intros num ret k; cbn [dur_loop].
  - destruct num as [n|]; [destruct (ret + n <=? u64max)|]; discriminate.
  - destruct (is_digit c).
    + match goal with |- (if ?b then _ else _) <> _ => destruct b end; [apply IH|discriminate].
    + destruct (unit_mult c) as [m|].
      * destruct num as [n|]; [|discriminate].
        destruct (n * m <=? u64max); [|discriminate].
        destruct (ret + n * m <=? u64max); [apply IH|discriminate].
      * destruct (is_whitespace c || (c =? 95))%bool; [apply IH|discriminate].
Qed.

Lemma str_duration_total : forall s k, str_duration s <> Panic k.
Proof. intros s; apply dur_loop_total. Qed.

(* an accepted duration fits u64 seconds *)
Lemma dur_loop_range : forall s num ret d, ret <= u64max -> dur_loop s num ret = Ok d -> d <= u64max.
Proof.
  induction s as [|c r IH]; intros num ret d Hret; cbn [dur_loop].
  - destruct num as [n|].
    + destruct (ret + n <=? u64max) eqn:E; [|discriminate]. intros H; inversion H; subst. apply N.leb_le; exact E.
    + intros H; inversion H; subst; exact Hret.
  - destruct (is_digit c).
    + match goal with |- (if ?b then _ else _) = _ -> _ => destruct b end; [apply IH; exact Hret|discriminate].
    + destruct (unit_mult c) as [m|].
      * destruct num as [n|]; [|discriminate].
        destruct (n * m <=? u64max); [|discriminate].
        destruct (ret + n * m <=? u64max) eqn:E; [|discriminate]. apply IH. apply N.leb_le; exact E.
      * destruct (is_whitespace c || (c =? 95))%bool; [apply IH; exact Hret|discriminate].
Qed.
Lemma str_duration_range : forall s d, str_duration s = Ok d -> d <= u64max.
Proof. intros s d; apply dur_loop_range. unfold u64max; lia. Qed.

Lemma str_duration_orig_refuted :
  str_duration_orig [115] = Panic UnwrapNone /\
  str_duration_orig [49;56;52;52;54;55;52;52;48;55;51;55;48;57;53;53;49;54;49;54] = Panic Overflow.
Proof. split; vm_compute; reflexivity. Qed.

Lemma parse_duration_total : forall y, np (parse_duration y).
Proof.
  intros y; destruct y; simpl; try apply type_error_total; try apply np_ok.
  apply np_bind; [intros k; apply str_duration_total|intros; apply np_ok].
Qed.

(* ---- masks --------------------------------------------------------------- *)
Lemma mask4_le32 : forall len, len <= 32 -> mask4 len + 2 ^ (32 - len) = 4294967296.
Proof.
  intros len H.
  pose proof (upto_spec (fun l => mask4 l + 2 ^ (32 - l) =? 4294967296) 32 eq_refl len H) as E.
  apply N.eqb_eq in E; exact E.
Qed.

Lemma land_le_r : forall a m, N.land a m <= m.
Proof.
  intros a m.
  assert (X : N.land a m = m - N.ldiff m a).
  { rewrite N.sub_nocarry_ldiff.
    - apply N.bits_inj; intro i. rewrite N.land_spec, !N.ldiff_spec.
      destruct (N.testbit m i), (N.testbit a i); reflexivity.
    - apply N.bits_inj; intro i. rewrite !N.ldiff_spec, N.bits_0.
      destruct (N.testbit m i), (N.testbit a i); reflexivity. }
  lia.
Qed.

(* ---- inversion of binds, lists ------------------------------------------ *)
Lemma obind_ok : forall A B (o : outcome A) (f : A -> outcome B) b,
  obind o f = Ok b -> exists a, o = Ok a /\ f a = Ok b.
Proof. intros A B o f b; destruct o; simpl; intros H; try discriminate. eauto. Qed.

Lemma type_error_not_ok : forall A y (v : A), type_error y <> Ok v.
Proof. intros A y v. unfold type_error. destruct (type_to_name y); discriminate. Qed.

Lemma Forall_forallb : forall A (f : A -> bool) l, Forall (fun x => f x = true) l -> forallb f l = true.
Proof. induction 1; simpl; [reflexivity|]. rewrite H, IHForall; reflexivity. Qed.
Lemma forallb_Forall : forall A (f : A -> bool) l, forallb f l = true -> Forall (fun x => f x = true) l.
Proof.
  induction l; simpl; intros H; constructor; apply andb_true_iff in H; destruct H; auto.
Qed.
Lemma Forall_somes : forall A (Q : A -> Prop) l,
  Forall (fun o => match o with Some v => Q v | None => True end) l -> Forall Q (somes l).
Proof. induction 1 as [|[v|] l H HF IH]; simpl; auto. Qed.
Lemma Forall_concat' : forall A (Q : A -> Prop) ll, Forall (Forall Q) ll -> Forall Q (List.concat ll).
Proof. induction 1; simpl; [constructor|]. apply Forall_app; split; assumption. Qed.
Lemma Forall_map' : forall A B (g : A -> B) (Q : B -> Prop) l, Forall (fun x => Q (g x)) l -> Forall Q (map g l).
Proof. induction 1; simpl; constructor; assumption. Qed.

Lemma omap_total : forall A B (f : A -> outcome B), (forall x, np (f x)) -> forall l, np (omap f l).
Proof.
  intros A B f Hf. induction l as [|x r IH]; simpl; [apply np_ok|].
  apply np_bind; [apply Hf|intros y _]. apply np_bind; [apply IH|intros; apply np_ok].
Qed.
Lemma omap_forall : forall A B (f : A -> outcome B) (Q : B -> Prop),
  (forall x y, f x = Ok y -> Q y) -> forall l l', omap f l = Ok l' -> Forall Q l'.
Proof.
  intros A B f Q Hf. induction l as [|x r IH]; simpl; intros l' H.
  - inversion H; constructor.
  - apply obind_ok in H as [y [Hy H]]. apply obind_ok in H as [ys [Hys H]]. inversion H; subst.
    constructor; [eapply Hf; eassumption|apply IH; assumption].
Qed.

Lemma parse_elems_forall : forall T (p : yaml -> outcome (option T)) (Q : T -> Prop),
  (forall y v, p y = Ok (Some v) -> Q v) ->
  forall a l, parse_elems p a = Ok l -> Forall (fun o => match o with Some v => Q v | None => True end) l.
Proof.
  intros T p Q Hp. induction a as [|x r IH]; simpl; intros l H.
  - inversion H; constructor.
  - apply obind_ok in H as [v [Hv H]]. apply obind_ok in H as [vs [Hvs H]]. inversion H; subst.
    constructor; [destruct v; [eapply Hp; eassumption|exact I]|apply IH; assumption].
Qed.
Lemma no_nulls_forall : forall T (Q : T -> Prop) (l : list (option T)) l',
  Forall (fun o => match o with Some v => Q v | None => True end) l -> no_nulls l = Ok l' -> Forall Q l'.
Proof.
  induction l as [|[v|] r IH]; simpl; intros l' HF H.
  - inversion H; constructor.
  - apply obind_ok in H as [vs [Hvs H]]. inversion H; subst. inversion HF; subst. constructor; auto.
  - discriminate.
Qed.
Lemma parse_array_forall : forall T (p : yaml -> outcome (option T)) (Q : T -> Prop),
  (forall y v, p y = Ok (Some v) -> Q v) ->
  forall y l, parse_array p y = Ok (Some l) -> Forall Q l.
Proof.
  intros T p Q Hp y l H. destruct y; simpl in H; try (exfalso; eapply type_error_not_ok; eassumption); [|discriminate].
  apply obind_ok in H as [l1 [H1 H]]. apply obind_ok in H as [l2 [H2 H]]. inversion H; subst.
  eapply no_nulls_forall; [|eassumption]. eapply parse_elems_forall; eassumption.
Qed.

Section Parsers.
Variable ip_parse : list N -> option ip.
Variable ip4_parse : list N -> option N.

(* ---- prefixes (F36) ------------------------------------------------------ *)
Lemma str_prefix_total : forall want s, np (str_prefix ip_parse want s).
Proof.
  intros want s k. unfold str_prefix.
  destruct (split_slash s) as [|a [|l [|x r]]]; try discriminate.
  destruct (parse_u8 l) as [n|]; try discriminate.
  destruct (ip_parse a) as [[v|v]|]; try discriminate.
  - destruct (want =? 6); try discriminate. destruct (n <=? 32); discriminate.
  - destruct (want =? 4); try discriminate. destruct (n <=? 128); discriminate.
Qed.

Lemma str_prefix_len : forall want s p, str_prefix ip_parse want s = Ok p ->
  (p_fam p = 4 /\ p_len p <= 32 /\ want <> 6) \/ (p_fam p = 6 /\ p_len p <= 128 /\ want <> 4).
Proof.
  intros want s p. unfold str_prefix.
  destruct (split_slash s) as [|a [|l [|x r]]]; try discriminate.
  destruct (parse_u8 l) as [n|]; try discriminate.
  destruct (ip_parse a) as [[v|v]|]; try discriminate.
  - destruct (want =? 6) eqn:W; try discriminate. destruct (n <=? 32) eqn:E; try discriminate.
    intros H; inversion H; subst; simpl. left. apply N.leb_le in E. apply N.eqb_neq in W. auto.
  - destruct (want =? 4) eqn:W; try discriminate. destruct (n <=? 128) eqn:E; try discriminate.
    intros H; inversion H; subst; simpl. right. apply N.leb_le in E. apply N.eqb_neq in W. auto.
Qed.

Lemma str_prefix_safe : forall want s p, str_prefix ip_parse want s = Ok p -> prefix_len_ok p = true.
Proof.
  intros want s p H. apply str_prefix_len in H. unfold prefix_len_ok.
  destruct H as [[F [L _]]|[F [L _]]]; rewrite F; simpl; apply N.leb_le; exact L.
Qed.

Lemma parse_string_prefix_total : forall want y, np (parse_string_prefix ip_parse want y).
Proof.
  intros want y. unfold parse_string_prefix. apply np_bind; [apply parse_string_total|intros [s|] _]; [|apply np_ok].
  apply np_bind; [apply str_prefix_total|intros; apply np_ok].
Qed.
Lemma parse_string_prefix_ok : forall want y p, parse_string_prefix ip_parse want y = Ok (Some p) ->
  exists s, str_prefix ip_parse want s = Ok p.
Proof.
  intros want y p H. unfold parse_string_prefix in H. apply obind_ok in H as [[s|] [_ H]]; [|discriminate].
  apply obind_ok in H as [q [Hq H]]. inversion H; subst. eauto.
Qed.
Lemma parse_string_prefix_safe : forall want y p, parse_string_prefix ip_parse want y = Ok (Some p) -> prefix_len_ok p = true.
Proof. intros want y p H. apply parse_string_prefix_ok in H as [s H]. eapply str_prefix_safe; eassumption. Qed.

Lemma load_addresses_total : forall y, np (load_addresses ip_parse y).
Proof.
  intros y. unfold load_addresses. apply np_bind; [|intros; apply np_ok].
  apply parse_array_total. apply parse_string_prefix_total.
Qed.
Lemma load_addresses_safe : forall y l, load_addresses ip_parse y = Ok l -> Forall (fun p => prefix_len_ok p = true) l.
Proof.
  intros y l H. unfold load_addresses in H. apply obind_ok in H as [[v|] [Hv H]]; inversion H; subst; [|constructor].
  eapply parse_array_forall; [|eassumption]. intros; eapply parse_string_prefix_safe; eassumption.
Qed.

(* ---- IPv4 subnets and the expansion of apply-subnet (F31) ---------------- *)
Lemma subnet_new_total : forall a len, np (subnet_new a len).
Proof. intros a len k. unfold subnet_new. destruct (len <=? 32); [destruct (_ =? 0)|]; discriminate. Qed.
Lemma subnet_new_ok : forall a len sn, subnet_new a len = Ok sn -> sn = (a, len) /\ len <= 32.
Proof.
  intros a len sn. unfold subnet_new. destruct (len <=? 32) eqn:E; [|discriminate].
  destruct (_ =? 0); [|discriminate]. intros H; inversion H; split; [reflexivity|apply N.leb_le; exact E].
Qed.

Lemma parse_subnet_total : forall y, np (parse_subnet ip4_parse y).
Proof.
  intros y. destruct y; simpl; try apply np_err; [|apply np_ok].
  destruct (split_slash s) as [|a [|l [|x r]]]; try apply np_err.
  destruct (ip4_parse a); [|apply np_err]. destruct (parse_u8 l); [|apply np_err].
  apply np_bind; [apply subnet_new_total|intros; apply np_ok].
Qed.
Lemma parse_subnet_len : forall y a len, parse_subnet ip4_parse y = Ok (Some (a, len)) -> len <= 32.
Proof.
  intros y a len H. destruct y; simpl in H; try discriminate.
  destruct (split_slash s) as [|a0 [|l [|x r]]]; try discriminate.
  destruct (ip4_parse a0); [|discriminate]. destruct (parse_u8 l); [|discriminate].
  apply obind_ok in H as [sn [Hsn H]]. apply subnet_new_ok in Hsn as [E L]. inversion H; subst. inversion H1; subst. exact L.
Qed.

Lemma pool_bounds : forall base len, len <= 32 -> base <= mask4 len -> 1 < 2 ^ (32 - len) - 1 ->
  base + 1 < 4294967296 /\ base + (2 ^ (32 - len) - 1 - 1) < 4294967296.
Proof. intros base len L B S. pose proof (mask4_le32 len L). lia. Qed.

Lemma apply_subnet_range_total : forall base len, len <= 32 -> base <= mask4 len -> np (apply_subnet_range base len).
Proof.
  intros base len L B. unfold apply_subnet_range, sub_chk.
  rewrite (proj2 (N.leb_le len 32) L). cbn [obind].
  destruct (32 - len =? 32); [apply np_err|].
  unfold sat_sub. destruct (1 <? 2 ^ (32 - len) - 1) eqn:E; [|apply np_ok].
  apply N.ltb_lt in E. destruct (pool_bounds base len L B E) as [B1 B2].
  unfold add_chk. change (pow2 32) with 4294967296.
  rewrite (proj2 (N.ltb_lt _ _) B1). cbn [obind].
  rewrite (proj2 (N.ltb_lt _ _) B2). cbn [obind]. apply np_ok.
Qed.

Lemma apply_subnet_total : forall y, np (apply_subnet ip4_parse y).
Proof.
  intros y. unfold apply_subnet. apply np_bind; [apply parse_subnet_total|intros [[a len]|] H]; [|apply np_err].
  apply apply_subnet_range_total; [eapply parse_subnet_len; eassumption|apply land_le_r].
Qed.
Lemma match_subnet_total : forall y, np (match_subnet ip4_parse y).
Proof.
  intros y. unfold match_subnet. apply np_bind; [apply parse_subnet_total|intros [x|] _]; [apply np_ok|apply np_err].
Qed.
Lemma match_subnet_len : forall y sn, match_subnet ip4_parse y = Ok sn -> snd sn <= 32.
Proof.
  intros y [a len] H. unfold match_subnet in H. apply obind_ok in H as [[x|] [Hx H]]; [|discriminate].
  inversion H; subst. simpl. eapply parse_subnet_len; eassumption.
Qed.

(* ---- route prefixes (F32) ------------------------------------------------- *)
Lemma route_prefix_total : forall y, np (route_prefix ip4_parse y).
Proof.
  intros y. destruct y; simpl; try apply np_err.
  destruct (split_slash s) as [|a rest]; [apply np_err|].
  destruct (ip4_parse a); [|apply np_err]. destruct rest as [|l r]; [apply np_err|].
  destruct (parse_u8 l); [apply subnet_new_total|apply np_err].
Qed.
Lemma route_prefix_len : forall y sn, route_prefix ip4_parse y = Ok sn -> snd sn <= 32.
Proof.
  intros y sn H. destruct y; simpl in H; try discriminate.
  destruct (split_slash s) as [|a rest]; [discriminate|].
  destruct (ip4_parse a); [|discriminate]. destruct rest as [|l r]; [discriminate|].
  destruct (parse_u8 l); [|discriminate]. apply subnet_new_ok in H as [E L]. subst; exact L.
Qed.

(* ---- router advertisement prefixes (F33), PREF64 -------------------------- *)
Lemma ra_prefix_keys_total : forall h pfx, np (ra_prefix_keys ip_parse h pfx).
Proof.
  induction h as [|[k v] h IH]; intros pfx; cbn [ra_prefix_keys]; [apply np_ok|].
  destruct (key_str k) as [ks|]; [|apply np_err].
  destruct (str_eqb ks (codes "prefix")).
  { apply np_bind; [apply parse_string_prefix_total|intros; apply IH]. }
  destruct (str_eqb ks (codes "on-link") || str_eqb ks (codes "autonomous"))%bool.
  { apply np_bind; [apply parse_boolean_total|intros; apply IH]. }
  destruct (str_eqb ks (codes "valid") || str_eqb ks (codes "preferred"))%bool.
  { apply np_bind; [apply parse_duration_total|intros; apply IH]. }
  apply np_err.
Qed.
Lemma ra_prefix_keys_safe : forall h pfx r,
  match pfx with Some p => p_len p <= 128 | None => True end ->
  ra_prefix_keys ip_parse h pfx = Ok r -> match r with Some p => p_len p <= 128 | None => True end.
Proof.
  induction h as [|[k v] h IH]; intros pfx r Hp; cbn [ra_prefix_keys]; intros H.
  { inversion H; subst; exact Hp. }
  destruct (key_str k) as [ks|]; [|discriminate].
  destruct (str_eqb ks (codes "prefix")).
  { apply obind_ok in H as [p [Hpp H]]. eapply IH; [|exact H]. destruct p as [p|]; [|exact I].
    apply parse_string_prefix_ok in Hpp as [s Hs]. apply str_prefix_len in Hs.
    destruct Hs as [[_ [_ W]]|[_ [L _]]]; [exfalso; apply W; reflexivity|exact L]. }
  destruct (str_eqb ks (codes "on-link") || str_eqb ks (codes "autonomous"))%bool.
  { apply obind_ok in H as [b [_ H]]. eapply IH; eassumption. }
  destruct (str_eqb ks (codes "valid") || str_eqb ks (codes "preferred"))%bool.
  { apply obind_ok in H as [b [_ H]]. eapply IH; eassumption. }
  discriminate.
Qed.
Lemma ra_prefix_total : forall y, np (ra_prefix ip_parse y).
Proof.
  intros y. destruct y; simpl; try apply type_error_total.
  apply np_bind; [apply ra_prefix_keys_total|intros [p|] _]; [apply np_ok|apply np_err].
Qed.
Lemma ra_prefix_safe : forall y p, ra_prefix ip_parse y = Ok p -> p_len p <= 128.
Proof.
  intros y p H. destruct y; simpl in H; try (exfalso; eapply type_error_not_ok; eassumption).
  apply obind_ok in H as [[q|] [Hq H]]; [|discriminate]. inversion H; subst.
  exact (ra_prefix_keys_safe _ None (Some p) I Hq).
Qed.

Lemma pref64_keys_total : forall h pfx, np (pref64_keys ip_parse h pfx).
Proof.
  induction h as [|[k v] h IH]; intros pfx; cbn [pref64_keys]; [apply np_ok|].
  destruct (key_str k) as [ks|]; [|apply np_err].
  destruct (str_eqb ks (codes "prefix")).
  { apply np_bind; [apply parse_string_prefix_total|intros; apply IH]. }
  destruct (str_eqb ks (codes "lifetime")).
  { apply np_bind; [apply parse_duration_total|intros; apply IH]. }
  apply np_err.
Qed.
Lemma pref64_total : forall y, np (pref64 ip_parse y).
Proof.
  intros y. destruct y; simpl; try apply type_error_total.
  apply np_bind; [apply pref64_keys_total|intros [p|] _]; [|apply np_ok].
  destruct (pref64_len_ok (p_len p)); [apply np_ok|apply np_err].
Qed.
Lemma pref64_safe : forall y p, pref64 ip_parse y = Ok (Some p) -> pref64_len_ok (p_len p) = true.
Proof.
  intros y p H. destruct y; simpl in H; try (exfalso; eapply type_error_not_ok; eassumption).
  apply obind_ok in H as [[q|] [Hq H]]; [|discriminate].
  destruct (pref64_len_ok (p_len q)) eqn:E; [|discriminate]. inversion H; subst; exact E.
Qed.

(* ---- ACLs ------------------------------------------------------------------ *)
Definition opt_all (o : option (list ipprefix)) : Prop :=
  match o with Some l => Forall (fun p => prefix_len_ok p = true) l | None => True end.

Lemma acl_keys_total : forall h sub, np (acl_keys ip_parse h sub).
Proof.
  induction h as [|[k v] h IH]; intros sub; cbn [acl_keys]; [apply np_ok|].
  destruct (key_str k) as [ks|]; [|apply np_err].
  destruct (str_eqb ks (codes "match-subnets")).
  { apply np_bind; [apply parse_array_total; apply parse_string_prefix_total|intros; apply IH]. }
  destruct (str_eqb ks (codes "match-unix")).
  { apply np_bind; [apply parse_boolean_total|intros; apply IH]. }
  destruct (str_eqb ks (codes "apply-access")).
  { apply np_bind; [apply parse_array_total; apply parse_string_total|intros [a|] _]; [apply IH|apply np_err]. }
  apply np_err.
Qed.
Lemma acl_keys_safe : forall h sub r, opt_all sub -> acl_keys ip_parse h sub = Ok r -> opt_all r.
Proof.
  induction h as [|[k v] h IH]; intros sub r Hs; cbn [acl_keys]; intros H.
  { inversion H; subst; exact Hs. }
  destruct (key_str k) as [ks|]; [|discriminate].
  destruct (str_eqb ks (codes "match-subnets")).
  { apply obind_ok in H as [s [Hs' H]]. eapply IH; [|exact H]. destruct s as [l|]; [|exact I].
    eapply parse_array_forall; [|eassumption]. intros; eapply parse_string_prefix_safe; eassumption. }
  destruct (str_eqb ks (codes "match-unix")).
  { apply obind_ok in H as [b [_ H]]. eapply IH; eassumption. }
  destruct (str_eqb ks (codes "apply-access")).
  { apply obind_ok in H as [[a|] [_ H]]; [|discriminate]. eapply IH; eassumption. }
  discriminate.
Qed.
Lemma acl_total : forall y, np (acl ip_parse y).
Proof.
  intros y. destruct y; simpl; try apply type_error_total.
  apply np_bind; [apply acl_keys_total|intros; apply np_ok].
Qed.
Lemma acl_safe : forall y l, acl ip_parse y = Ok l -> Forall (fun p => prefix_len_ok p = true) l.
Proof.
  intros y l H. destruct y; simpl in H; try (exfalso; eapply type_error_not_ok; eassumption).
  apply obind_ok in H as [s [Hs H]]. inversion H; subst.
  pose proof (acl_keys_safe _ None s I Hs) as X. destruct s; [exact X|constructor].
Qed.

(* ---- DNS routes (F35) ------------------------------------------------------ *)
Lemma parse_string_ip_total : forall y, np (parse_string_ip ip_parse y).
Proof.
  intros y. unfold parse_string_ip. apply np_bind; [apply parse_string_total|intros [s|] _]; [|apply np_ok].
  destruct (ip_parse s); [apply np_ok|apply np_err].
Qed.
Lemma route_keys_total : forall h servers handler, np (route_keys ip_parse h servers handler).
Proof.
  induction h as [|[k v] h IH]; intros servers handler; cbn [route_keys]; [apply np_ok|].
  destruct (key_str k) as [ks|]; [|apply np_err].
  destruct (str_eqb ks (codes "domain-suffixes")).
  { apply np_bind; [apply parse_array_total; apply parse_string_total|intros; apply IH]. }
  destruct (str_eqb ks (codes "dns-servers")).
  { apply np_bind; [apply parse_array_total; apply parse_string_ip_total|intros; apply IH]. }
  destruct (str_eqb ks (codes "type")).
  { apply np_bind; [apply parse_string_total|intros [t|] _]; [|apply np_err].
    destruct (str_eqb t (codes "forward")); [apply IH|].
    destruct (str_eqb t (codes "forge-nxdomain")); [apply IH|apply np_err]. }
  apply np_err.
Qed.
Lemma dns_route_total : forall y, np (dns_route ip_parse y).
Proof.
  intros y. destruct y; simpl; try apply np_ok.
  apply np_bind; [apply route_keys_total|intros [servers handler] _].
  destruct (1 <? _); [apply np_err|].
  destruct handler as [[|[p|p|]]|]; try apply np_ok; destruct (_ =? 0); first [apply np_err|apply np_ok].
Qed.
Lemma dns_route_safe : forall y r, dns_route ip_parse y = Ok (Some r) -> route_ok r = true.
Proof.
  intros y r H. destruct y; simpl in H; try discriminate.
  apply obind_ok in H as [[servers handler] [_ H]].
  destruct (1 <? _); [discriminate|].
  destruct handler as [[|[p|p|]]|];
    try (inversion H; subst; reflexivity);
    destruct (_ =? 0) eqn:E; try discriminate; inversion H; subst; unfold route_ok; simpl;
    apply N.eqb_neq in E; apply N.leb_le; lia.
Qed.

(* ---- the modelled fields together ------------------------------------------ *)
Lemma load_fragments_total : forall f, np (load_fragments ip_parse ip4_parse f).
Proof.
  intros f. unfold load_fragments.
  apply np_bind; [apply load_addresses_total|intros ? _].
  apply np_bind; [apply omap_total; apply acl_total|intros ? _].
  apply np_bind; [apply omap_total; apply dns_route_total|intros ? _].
  apply np_bind; [apply omap_total; apply pref64_total|intros ? _].
  apply np_bind; [apply omap_total; apply ra_prefix_total|intros ? _].
  apply np_bind; [apply omap_total; apply apply_subnet_total|intros ? _].
  apply np_bind; [apply omap_total; apply match_subnet_total|intros ? _].
  apply np_bind; [apply omap_total; apply route_prefix_total|intros ? _].
  apply np_ok.
Qed.

Lemma load_fragments_safe : forall f c, load_fragments ip_parse ip4_parse f = Ok c -> cfg_safe c = true.
Proof.
  intros f c H. unfold load_fragments in H.
  apply obind_ok in H as [addrs [Ha H]]. apply obind_ok in H as [acls [Hacl H]].
  apply obind_ok in H as [routes [Hr H]]. apply obind_ok in H as [p64 [Hp H]].
  apply obind_ok in H as [rap [Hrap H]]. apply obind_ok in H as [asn [_ H]].
  apply obind_ok in H as [ms [Hms H]]. apply obind_ok in H as [rp [Hrp H]].
  inversion H; subst; clear H. unfold cfg_safe; cbn [c_addresses c_acl c_routes c_pref64 c_raprefix c_subnets].
  repeat (apply andb_true_iff; split).
  - apply Forall_forallb. eapply load_addresses_safe; eassumption.
  - apply Forall_forallb. apply Forall_concat'. eapply omap_forall; [|eassumption]. apply acl_safe.
  - apply Forall_forallb. apply Forall_somes. eapply omap_forall; [|eassumption].
    intros x [r|] Hx; [eapply dns_route_safe; eassumption|exact I].
  - apply Forall_forallb. apply Forall_map'. apply Forall_somes. eapply omap_forall; [|eassumption].
    intros x [p|] Hx; [eapply pref64_safe; eassumption|exact I].
  - apply Forall_forallb. apply Forall_map'. eapply omap_forall; [|eassumption].
    intros x p Hx. apply N.leb_le. eapply ra_prefix_safe; eassumption.
  - apply Forall_forallb. apply Forall_app; split; apply Forall_map'.
    + eapply omap_forall; [|eassumption]. intros x sn Hx. apply N.leb_le. eapply match_subnet_len; eassumption.
    + eapply omap_forall; [|eassumption]. intros x sn Hx. apply N.leb_le. eapply route_prefix_len; eassumption.
Qed.

End Parsers.

(* ---- serving ---------------------------------------------------------------- *)
Lemma default_pool_total : forall a len, np (default_pool a len).
Proof.
  intros a len. unfold default_pool.
  destruct ((len =? 0) || (30 <? len))%bool eqn:G; [apply np_ok|].
  apply orb_false_iff in G as [G0 G30]. apply N.eqb_neq in G0. apply N.ltb_ge in G30.
  assert (L : len <= 32) by lia.
  destruct (subnet_new (network4 a len) len) as [sn|e|k] eqn:S; [|apply np_ok|exfalso; exact (subnet_new_total _ _ k S)].
  apply subnet_new_ok in S as [E _]. subst sn. cbn [fst snd]. unfold sub_chk at 1.
  rewrite (proj2 (N.leb_le len 32) L). cbn [obind].
  assert (H4 : 4 <= 2 ^ (32 - len)).
  { change 4 with (2 ^ 2). apply N.pow_le_mono_r; lia. }
  destruct (32 <=? 32 - len) eqn:X; [apply N.leb_le in X; lia|].
  unfold sub_chk. rewrite (proj2 (N.leb_le 1 (2 ^ (32 - len)))) by lia. cbn [obind].
  destruct (1 <? 2 ^ (32 - len) - 1) eqn:E; [|apply np_ok].
  apply N.ltb_lt in E.
  destruct (pool_bounds (network4 a len) len L (land_le_r _ _) E) as [B1 B2].
  unfold add_chk. change (pow2 32) with 4294967296.
  rewrite (proj2 (N.ltb_lt _ _) B1). cbn [obind].
  rewrite (proj2 (N.ltb_lt _ _) B2). cbn [obind]. apply np_ok.
Qed.

Lemma default_pool_orig_refuted :
  default_pool_orig 3221225985 32 = Panic Overflow /\ default_pool_orig 0 0 = Panic Overflow.
Proof. split; vm_compute; reflexivity. Qed.

Lemma mapped_needs_96 : forall a len, len <= 128 -> mapped_pattern (network6 a len) = true -> 96 <= len.
Proof.
  intros a len L M. destruct (N.le_gt_cases 96 len) as [H|H]; [exact H|exfalso].
  unfold mapped_pattern in M. apply N.eqb_eq in M.
  assert (B : N.testbit (network6 a len) 32 = true).
  { replace 32 with (0 + 32) by reflexivity. rewrite <- N.shiftr_spec by lia. rewrite M. reflexivity. }
  unfold network6 in B. rewrite N.land_spec in B. apply andb_true_iff in B as [_ B].
  pose proof (upto_spec (fun l => if l <? 96 then negb (N.testbit (mask6 l) 32) else true) 128 eq_refl len L) as P.
  cbv beta in P. rewrite (proj2 (N.ltb_lt len 96) H) in P. rewrite B in P. discriminate.
Qed.

Lemma prefix6_contains_v4_total : forall p c, p_len p <= 128 -> np (prefix6_contains_v4 p c).
Proof.
  intros p c L. unfold prefix6_contains_v4.
  destruct (mapped_pattern (network6 (p_addr p) (p_len p))) eqn:M; [|apply np_ok].
  pose proof (mapped_needs_96 _ _ L M) as H96.
  unfold sub_chk. rewrite (proj2 (N.leb_le 96 (p_len p)) H96). cbn [obind].
  rewrite (proj2 (N.leb_le (p_len p - 96) 32)) by lia. apply np_ok.
Qed.

Lemma prefix6_unchecked_refuted :
  exists p c, prefix6_contains_v4 p c = Panic Assert.
Proof.
  exists {| p_fam := 6; p_addr := 281473902968832; p_len := 200 |}, 3221225991. vm_compute. reflexivity.
Qed.

Lemma acl_check_total : forall p cl, prefix_len_ok p = true -> np (acl_check p cl).
Proof.
  intros p cl H. unfold acl_check. destruct cl as [c|c].
  - destruct (p_fam p =? 4) eqn:F; [apply np_ok|].
    apply prefix6_contains_v4_total. unfold prefix_len_ok in H. rewrite F in H. apply N.leb_le; exact H.
  - destruct (p_fam p =? 6); apply np_ok.
Qed.

Lemma pref64_plc_total : forall len, pref64_len_ok len = true -> np (pref64_plc len).
Proof.
  intros len H. unfold pref64_len_ok in H.
  repeat (apply orb_true_iff in H; destruct H as [H|H]);
    apply N.eqb_eq in H; subst; intros k; vm_compute; discriminate.
Qed.

Lemma route_dest_total : forall r, route_ok r = true -> np (route_dest r).
Proof.
  intros r H. unfold route_ok in H. unfold route_dest.
  destruct (fst r =? 0); simpl in H; [rewrite H; apply np_ok|apply np_ok].
Qed.

Lemma all_ok_intro : forall A B (f : A -> outcome B) l, (forall x, In x l -> np (f x)) -> all_ok f l = true.
Proof.
  intros A B f l H. unfold all_ok. apply forallb_forall. intros x Hx.
  rewrite np_is_panic; [reflexivity|apply H; exact Hx].
Qed.

Lemma serve_safe : forall c cls, cfg_safe c = true -> serve_no_panic c cls = true.
Proof.
  intros c cls H. unfold cfg_safe in H.
  repeat (apply andb_true_iff in H; destruct H as [H ?]).
  rename H into Haddr.
  match goal with X : forallb prefix_len_ok (c_acl c) = true |- _ => rename X into Hacl end.
  match goal with X : forallb route_ok _ = true |- _ => rename X into Hroutes end.
  match goal with X : forallb pref64_len_ok _ = true |- _ => rename X into Hp64 end.
  rewrite forallb_forall in Haddr, Hacl, Hroutes, Hp64.
  unfold serve_no_panic. repeat (apply andb_true_iff; split).
  - apply all_ok_intro. intros p _. destruct (p_fam p =? 4); [apply default_pool_total|apply np_ok].
  - apply forallb_forall. intros cl _. apply andb_true_iff; split; apply all_ok_intro; intros p Hp; apply acl_check_total; auto.
  - apply all_ok_intro. intros l Hl. apply pref64_plc_total; auto.
  - apply all_ok_intro. intros r Hr. apply route_dest_total; auto.
Qed.

(* the accepted value of a duration string is the manual's reading of it *)
Lemma dur_loop_value : forall s num ret d, dur_loop s num ret = Ok d -> dur_value s num ret = Some d.
Proof.
  induction s as [|c r IH]; intros num ret d; cbn [dur_loop dur_value].
  - destruct num as [n|].
    + destruct (ret + n <=? u64max); [|discriminate]. intros H; inversion H; reflexivity.
    + intros H; inversion H; subst. rewrite N.add_0_r; reflexivity.
  - destruct (is_digit c).
    + destruct num as [n|].
      * destruct (n * 10 + (c - 48) <=? u64max); [apply IH|discriminate].
      * destruct (c - 48 <=? u64max); [|discriminate]. intros H. apply IH in H. rewrite N.add_0_l. exact H.
    + destruct (unit_mult c) as [m|].
      * destruct num as [n|]; [|discriminate].
        destruct (n * m <=? u64max); [|discriminate].
        destruct (ret + n * m <=? u64max); [apply IH|discriminate].
      * destruct (is_whitespace c || (c =? 95))%bool; [apply IH|discriminate].
Qed.
Lemma str_duration_value : forall s d, str_duration s = Ok d -> dur_value s None 0 = Some d.
Proof. intros s d; apply dur_loop_value. Qed.

(* Well-formed LLDP frames are decoded to exactly the TLVs they carry
   (decoder after encoder, for every TLV kind the encoder writes correctly). *)
From Erbium Require Import Lib.Base Model.Lldp Proofs.Total Proofs.Lldp.

(* ---- finite checks by computation ------------------------------------------ *)
Definition rangeN (n : nat) : list N := map N.of_nat (seq 0 n).
Lemma in_rangeN : forall n x, x < N.of_nat n -> In x (rangeN n).
Proof.
  intros n x H. unfold rangeN. rewrite <- (N2Nat.id x). apply in_map. apply in_seq. lia.
Qed.

Definition hdr_check : bool :=
  forallb (fun ty => forallb (fun len => list_eqb N.eqb (tlv_hdr ty len) [ty * 2; len]) (rangeN 256)) (rangeN 128).
Lemma hdr_check_true : hdr_check = true.
Proof. vm_compute. reflexivity. Qed.

Lemma list_eqb_eq : forall a b : list N, list_eqb N.eqb a b = true -> a = b.
Proof.
  induction a as [|x a IH]; destruct b as [|y b]; simpl; intros H; try discriminate; auto.
  apply andb_true_iff in H. destruct H as [H1 H2]. apply N.eqb_eq in H1. f_equal; auto.
Qed.

Lemma tlv_hdr_small : forall ty len, ty < 128 -> len < 256 -> tlv_hdr ty len = [ty * 2; len].
Proof.
  intros ty len Ht Hl. pose proof hdr_check_true as H. unfold hdr_check in H.
  rewrite forallb_forall in H. specialize (H ty (in_rangeN 128 ty Ht)).
  rewrite forallb_forall in H. specialize (H len (in_rangeN 256 len Hl)).
  apply list_eqb_eq. exact H.
Qed.

Definition ty_check : bool :=
  forallb (fun ty => N.shiftr (N.land (ty * 2) 254) 1 =? ty) (rangeN 128).
Lemma ty_of_octet : forall ty, ty < 128 -> N.shiftr (N.land (ty * 2) 254) 1 = ty.
Proof.
  intros ty Ht. assert (H : ty_check = true) by (vm_compute; reflexivity).
  unfold ty_check in H. rewrite forallb_forall in H. apply N.eqb_eq. apply H. apply in_rangeN. exact Ht.
Qed.

(* ---- buffers ----------------------------------------------------------------- *)
Lemma takeN_app_len : forall (p r : list N), takeN (lenN p) (p ++ r) = p.
Proof.
  intros. unfold takeN, lenN. rewrite Nat2N.id. rewrite firstn_app, Nat.sub_diag, firstn_all. simpl. apply app_nil_r.
Qed.
Lemma dropN_app_len : forall (p r : list N), dropN (lenN p) (p ++ r) = r.
Proof.
  intros. unfold dropN, lenN. rewrite Nat2N.id. rewrite skipn_app, Nat.sub_diag, skipn_all. reflexivity.
Qed.
Lemma b_bytes_app : forall p r, b_bytes (lenN p) (p ++ r) = Ok (p, r).
Proof.
  intros. unfold b_bytes.
  assert (H : lenN p <=? lenN (p ++ r) = true) by (apply N.leb_le; unfold lenN; rewrite app_length; lia).
  rewrite H, takeN_app_len, dropN_app_len. reflexivity.
Qed.
Lemma b_bytes_all : forall p, b_bytes (lenN p) p = Ok (p, []).
Proof. intros. rewrite <- (app_nil_r p) at 2. apply b_bytes_app. Qed.

Lemma be16_decode : forall v, v < 65536 -> be_decode (be16 v) = v.
Proof.
  intros v H. unfold be16, be_decode. simpl.
  rewrite (N.mod_small (v / 256)) by (apply N.div_lt_upper_bound; lia).
  pose proof (N.div_mod v 256 ltac:(discriminate)). lia.
Qed.
Lemma be32_decode : forall v, v < 4294967296 -> be_decode (be32 v) = v.
Proof.
  intros v H. unfold be32, be_decode. simpl.
  rewrite (N.mod_small (v / 16777216)) by (apply N.div_lt_upper_bound; lia).
  pose proof (N.div_mod v 16777216 ltac:(discriminate)) as H1.
  pose proof (N.mod_lt v 16777216 ltac:(discriminate)) as L1.
  assert (E2 : (v / 65536) mod 256 = (v mod 16777216) / 65536).
  { change 16777216 with (65536 * 256). rewrite N.mod_mul_r by discriminate.
    rewrite N.mul_comm, N.div_add by discriminate.
    rewrite (N.div_small (v mod 65536)) by (apply N.mod_lt; discriminate). lia. }
  assert (E3 : (v / 256) mod 256 = (v mod 65536) / 256).
  { change 65536 with (256 * 256). rewrite N.mod_mul_r by discriminate.
    rewrite N.mul_comm, N.div_add by discriminate.
    rewrite (N.div_small (v mod 256)) by (apply N.mod_lt; discriminate). lia. }
  rewrite E2, E3.
  assert (M1 : v mod 65536 = (v mod 16777216) mod 65536).
  { change 16777216 with (65536 * 256). rewrite N.mod_mul_r by discriminate.
    rewrite N.mul_comm, N.mod_add by discriminate. rewrite N.mod_mod by discriminate. reflexivity. }
  assert (M2 : v mod 256 = (v mod 65536) mod 256).
  { change 65536 with (256 * 256). rewrite N.mod_mul_r by discriminate.
    rewrite N.mul_comm, N.mod_add by discriminate. rewrite N.mod_mod by discriminate. reflexivity. }
  pose proof (N.div_mod (v mod 16777216) 65536 ltac:(discriminate)) as H2.
  pose proof (N.div_mod (v mod 65536) 256 ltac:(discriminate)) as H3.
  rewrite M2 at 1. rewrite M1 in *. lia.
Qed.

Lemma lenN_be16 : forall v, lenN (be16 v) = 2.
Proof. reflexivity. Qed.
Lemma b_be16_be16 : forall v r, v < 65536 -> b_be16 (be16 v ++ r) = Ok (v, r).
Proof.
  intros v r H. unfold b_be16. change 2 with (lenN (be16 v)). rewrite b_bytes_app.
  cbv beta iota delta [obind]. rewrite be16_decode by exact H. reflexivity.
Qed.

Lemma lenN_cons : forall (x : N) l, lenN (x :: l) = lenN l + 1.
Proof. intros; unfold lenN; simpl length; lia. Qed.
Lemma lenN_app : forall (a b : list N), lenN (a ++ b) = lenN a + lenN b.
Proof. intros; unfold lenN; rewrite app_length; lia. Qed.

Lemma tlv_payload_bounds : forall t, wf_tlv t = true ->
  fst (tlv_payload t) < 128 /\ lenN (snd (tlv_payload t)) < 256.
Proof.
  intros t H. destruct t; simpl in H; try discriminate; simpl;
    repeat (apply andb_true_iff in H; destruct H as [H ?]);
    repeat match goal with
    | H : (_ <? _) = true |- _ => apply N.ltb_lt in H
    | H : (_ <=? _) = true |- _ => apply N.leb_le in H
    | H : (_ =? _) = true |- _ => apply N.eqb_eq in H
    end;
    rewrite ?lenN_cons, ?lenN_app; try (split; [lia | try lia]).
  - (* TTtl *) reflexivity.
  - (* TStr *) repeat (apply orb_true_iff in H; destruct H as [H|H]); apply N.eqb_eq in H; subst; lia.
  - (* TCap *) reflexivity.
  - (* TOrg *) rewrite lenN_cons. lia.
Qed.

(* the decoder after the encoder, TLV by TLV *)
Lemma tlv_roundtrip : forall t rest, wf_tlv t = true ->
  tlv_from_wire (tlv_wire t ++ rest) = Ok (t, rest).
Proof.
  intros t rest H. destruct (tlv_payload_bounds t H) as [Hty Hlen].
  unfold tlv_wire. destruct (tlv_payload t) as [ty p] eqn:EP. simpl in Hty, Hlen.
  rewrite (tlv_hdr_small ty (lenN p) Hty Hlen).
  unfold tlv_from_wire. simpl app. cbv beta iota delta [obind]. simpl b_u8. cbv beta iota. simpl b_u8. cbv beta iota.
  rewrite (ty_of_octet ty Hty). rewrite b_bytes_app.
  destruct t; simpl in H; try discriminate; simpl in EP; inversion EP; subst; clear EP;
    repeat (apply andb_true_iff in H; destruct H as [H ?]);
    repeat match goal with
    | H : (_ <? _) = true |- _ => apply N.ltb_lt in H
    | H : (_ <=? _) = true |- _ => apply N.leb_le in H
    end.
  - (* TChassis *)
    simpl. assert (E : (1 <=? subtype) && (subtype <=? 7) = true)
      by (apply andb_true_iff; split; apply N.leb_le; assumption).
    unfold id_subtype. simpl. rewrite E. reflexivity.
  - (* TPort *)
    simpl. assert (E : (1 <=? subtype) && (subtype <=? 7) = true)
      by (apply andb_true_iff; split; apply N.leb_le; assumption).
    unfold id_subtype. simpl. rewrite E. reflexivity.
  - (* TTtl *)
    cbn -[be16 b_be16 lenN]. rewrite lenN_be16. cbn -[be16 b_be16].
    rewrite <- (app_nil_r (be16 v)). rewrite b_be16_be16 by assumption. reflexivity.
  - (* TStr *)
    assert (Hs : (ty =? 0) = false /\ (ty =? 1) = false /\ (ty =? 2) = false /\ (ty =? 3) = false /\
                 ((ty =? 4) || (ty =? 5) || (ty =? 6)) = true).
    { repeat (apply orb_true_iff in H; destruct H as [H|H]); apply N.eqb_eq in H; subst; repeat split; reflexivity. }
    destruct Hs as (E0 & E1 & E2 & E3 & E4). rewrite E0, E1, E2, E3, E4.
    rewrite b_bytes_all. cbv beta iota delta [obind].
    match goal with H : utf8_ok _ = true |- _ => rewrite H end. reflexivity.
  - (* TCap *)
    cbn -[be16 b_be16 lenN].
    change ((sys / 256) mod 256 :: sys mod 256 :: be16 enabled) with (be16 sys ++ be16 enabled).
    rewrite lenN_app, !lenN_be16. cbn -[be16 b_be16 app].
    rewrite b_be16_be16 by assumption. cbv beta iota.
    rewrite <- (app_nil_r (be16 enabled)). rewrite b_be16_be16 by assumption. reflexivity.
  - (* TOrg *)
    simpl. unfold org_from_wire.
    match goal with H : (lenN oui =? 3) = true |- _ => apply N.eqb_eq in H; rewrite <- H end.
    rewrite b_bytes_app. cbv beta iota delta [obind]. simpl b_u8. cbv beta iota delta [obind].
    rewrite b_bytes_all. reflexivity.
  - (* TUnknown *)
    assert (Hs : (ty =? 0) = false /\ (ty =? 1) = false /\ (ty =? 2) = false /\ (ty =? 3) = false /\
                 ((ty =? 4) || (ty =? 5) || (ty =? 6)) = false /\ (ty =? 7) = false /\ (ty =? 8) = false /\
                 (ty =? 127) = false).
    { repeat split; try (apply N.eqb_neq; lia).
      apply orb_false_iff; split; [apply orb_false_iff; split|]; apply N.eqb_neq; lia. }
    destruct Hs as (E0 & E1 & E2 & E3 & E4 & E7 & E8 & E127).
    rewrite E0, E1, E2, E3, E4, E7, E8, E127.
    rewrite b_bytes_all. reflexivity.
Qed.


Lemma tlv_wire_length : forall t, (2 <= length (tlv_wire t))%nat.
Proof.
  intros t. unfold tlv_wire. destruct (tlv_payload t) as [ty p]. rewrite app_length.
  change (length (tlv_hdr ty (lenN p))) with 2%nat. lia.
Qed.

Lemma wire_length : forall ts, (length ts <= length (flat_map tlv_wire ts))%nat.
Proof.
  induction ts as [|t r IH]; simpl; [lia|]. rewrite app_length. pose proof (tlv_wire_length t). lia.
Qed.

Lemma end_tlv : forall junk, tlv_from_wire (0 :: 0 :: junk) = Ok (TEnd, junk).
Proof.
  intros. unfold tlv_from_wire. simpl b_u8. cbv beta iota delta [obind]. simpl b_u8. cbv beta iota.
  change (b_bytes 0 junk) with (b_bytes (lenN (@nil N)) ([] ++ junk)). rewrite b_bytes_app. reflexivity.
Qed.

Lemma pkt_loop_wf : forall ts fuel acc junk, wf_tlvs ts = true -> (length ts < fuel)%nat ->
  pkt_loop fuel (flat_map tlv_wire ts ++ [0; 0] ++ junk) acc = Ok (rev acc ++ ts ++ [TEnd]).
Proof.
  induction ts as [|t r IH]; intros fuel acc junk Hwf Hf; (destruct fuel as [|f]; [simpl in Hf; lia|]).
  - simpl. rewrite end_tlv. reflexivity.
  - simpl in Hwf. apply andb_true_iff in Hwf. destruct Hwf as [Ht Hr].
    simpl flat_map. rewrite <- app_assoc.
    pose proof (tlv_roundtrip t (flat_map tlv_wire r ++ [0; 0] ++ junk) Ht) as RT.
    destruct (tlv_wire t ++ flat_map tlv_wire r ++ [0; 0] ++ junk) as [|x l] eqn:EL.
    { pose proof (tlv_wire_length t) as L. apply (f_equal (@length N)) in EL.
      rewrite app_length in EL. simpl in EL. lia. }
    simpl pkt_loop. rewrite RT. cbv beta iota delta [obind].
    assert (E : is_end t = false) by (destruct t; simpl in Ht; try discriminate; reflexivity).
    rewrite E. rewrite IH by (try assumption; simpl in Hf; lia).
    simpl. rewrite <- app_assoc. reflexivity.
Qed.

(* a frame carrying well-formed TLVs and the End TLV (anything may follow it) is
   decoded to exactly those TLVs *)
Lemma lldp_wf_frame_decodes : forall hdr ts junk, length hdr = 14%nat -> wf_tlvs ts = true ->
  lldp_handle_frame (hdr ++ flat_map tlv_wire ts ++ [0; 0] ++ junk) = Ok (ts ++ [TEnd]).
Proof.
  intros hdr ts junk Hh Hwf. unfold lldp_handle_frame. rewrite frame_payload_spec by exact Hh.
  unfold lldp_from_wire. rewrite pkt_loop_wf; [reflexivity | exact Hwf |].
  rewrite app_length. pose proof (wire_length ts). lia.
Qed.

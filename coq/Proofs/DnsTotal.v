(* Totality of the DNS decoder (for C05): it never panics and never runs out of fuel. *)
From Erbium Require Import Lib.Base Model.DnsName Model.DnsCodec.

Definition good {A} (o : outcome A) : Prop :=
  match o with Panic _ => False | Err e => e <> E_FUEL | Ok _ => True end.

Lemma good_bind {A B} (o : outcome A) (f : A -> outcome B) :
  good o -> (forall a, good (f a)) -> good (obind o f).
Proof. destruct o; simpl; auto. Qed.

Lemma good_spec {A} (o : outcome A) : good o -> is_panic o = false /\ o <> Err E_FUEL.
Proof. destruct o; simpl; intros H; split; auto; try discriminate; try contradiction. congruence. Qed.

Lemma get_domain_into_good buf : forall fuel rest off depth alen,
  (255 - alen) + 2 * (128 - depth) + 2 <= 2 * N.of_nat fuel ->
  good (get_domain_into fuel buf rest off depth alen).
Proof.
  induction fuel as [|f IH]; intros rest off depth alen Hm; [simpl in Hm; lia|].
  cbn [get_domain_into]. destruct rest as [|p r]; [unfold good, E_TRUNC, E_FUEL; lia|].
  destruct (p =? 0) eqn:E0; [exact I|]. apply N.eqb_neq in E0.
  destruct (p <? 64) eqn:E1.
  - destruct (take_exact (N.to_nat p) r) as [[l r']|]; [|unfold good, E_TRUNC, E_FUEL; lia].
    destruct (MAXNAME <? alen + 1 + p + 1) eqn:E2; [unfold good, E_TOOLONG, E_FUEL; lia|].
    apply N.ltb_ge in E2. unfold MAXNAME in E2.
    assert (Hg : good (get_domain_into f buf r' (off + 1 + p) depth (alen + 1 + p))).
    { apply IH. rewrite Nat2N.inj_succ in Hm. lia. }
    destruct (get_domain_into f buf r' (off + 1 + p) depth (alen + 1 + p)) as [[ls nxt]| |]; simpl in *; auto.
  - destruct (192 <=? p); [|unfold good, E_LABELTYPE, E_FUEL; lia].
    destruct (LIMIT <? depth) eqn:E3; [unfold good, E_DEPTH, E_FUEL; lia|].
    apply N.ltb_ge in E3. unfold LIMIT in E3.
    destruct r as [|lo r2]; [unfold good, E_TRUNC, E_FUEL; lia|].
    assert (Hg : good (get_domain_into f buf (dropN ((p - 192) * 256 + lo) buf) ((p - 192) * 256 + lo) (depth + 1) alen)).
    { apply IH. rewrite Nat2N.inj_succ in Hm. lia. }
    destruct (get_domain_into f buf (dropN ((p - 192) * 256 + lo) buf) ((p - 192) * 256 + lo) (depth + 1) alen)
      as [[ls nxt]| |]; simpl in *; auto.
Qed.

Lemma get_name_good buf c : good (get_name buf c).
Proof.
  unfold get_name. apply good_bind.
  - apply get_domain_into_good. unfold NAME_FUEL. simpl. lia.
  - intros [n nxt]. exact I.
Qed.

Lemma get_u8_good c : good (get_u8 c).
Proof. unfold get_u8. destruct (fst c); simpl; unfold E_TRUNC, E_FUEL; auto; lia. Qed.
Lemma get_u16_good c : good (get_u16 c).
Proof. unfold get_u16. destruct (fst c) as [|a [|b r]]; simpl; unfold E_TRUNC, E_FUEL; auto; lia. Qed.
Lemma get_u32_good c : good (get_u32 c).
Proof. unfold get_u32. destruct (fst c) as [|a [|b [|d [|e r]]]]; simpl; unfold E_TRUNC, E_FUEL; auto; lia. Qed.
Lemma get_bytes_good n c : good (get_bytes n c).
Proof. unfold get_bytes. destruct (take_exact _ _) as [[a r]|]; simpl; unfold E_TRUNC, E_FUEL; auto; lia. Qed.
Lemma get_string_good c : good (get_string c).
Proof. unfold get_string. apply good_bind; [apply get_u8_good|]. intros [n c1]. apply get_bytes_good. Qed.

Lemma take_exact_len {A} : forall n (l a r : list A), take_exact n l = Some (a, r) -> (length r <= length l)%nat.
Proof.
  induction n; simpl; intros l a r H.
  - inversion H; subst; auto.
  - destruct l; [discriminate|]. destruct (take_exact n l) as [[x y]|] eqn:E; [|discriminate].
    inversion H; subst. apply IHn in E. simpl. lia.
Qed.

Lemma get_options_good : forall fuel b, (length b < fuel)%nat -> good (get_options fuel b).
Proof.
  induction fuel as [|f IH]; intros b Hl; [lia|].
  cbn [get_options]. destruct b as [|c1 [|c2 [|l1 [|l2 r]]]]; try exact I; try (unfold good, E_TRUNC, E_FUEL; lia).
  destruct (take_exact (N.to_nat (l1 * 256 + l2)) r) as [[d r']|] eqn:Et; [|unfold good, E_TRUNC, E_FUEL; lia].
  apply good_bind; [|intros; exact I]. apply IH. apply take_exact_len in Et. simpl in Hl. lia.
Qed.

Ltac gb := apply good_bind; [|intros [? ?]].

Lemma get_rdata_good buf ty c : good (get_rdata buf ty c).
Proof.
  unfold get_rdata. gb; [apply get_u16_good|].
  repeat match goal with
         | |- good (if ?c then _ else _) => destruct c
         | |- good (obind (get_name _ _) _) => gb; [apply get_name_good|]
         | |- good (obind (get_u16 _) _) => gb; [apply get_u16_good|]
         | |- good (obind (get_u32 _) _) => gb; [apply get_u32_good|]
         | |- good (obind (get_string _) _) => gb; [apply get_string_good|]
         | |- good (obind (get_bytes _ _) _) => gb; [apply get_bytes_good|]
         | |- good (obind (get_options _ _) _) => apply good_bind; [apply get_options_good; lia|intros ?]
         | |- good (Ok _) => exact I
         end.
Qed.

Lemma get_rr_good buf c : good (get_rr buf c).
Proof.
  unfold get_rr. gb; [apply get_name_good|]. gb; [apply get_u16_good|]. gb; [apply get_u16_good|].
  gb; [apply get_u32_good|]. gb; [apply get_rdata_good|]. exact I.
Qed.

Lemma get_rrs_good buf trunc : forall cnt c, good (get_rrs buf trunc cnt c).
Proof.
  induction cnt as [|k IH]; intros c; cbn [get_rrs]; [exact I|].
  destruct (fst c).
  - destruct trunc; [exact I|unfold good, E_TRUNC, E_FUEL; lia].
  - gb; [apply get_rr_good|]. gb; [apply IH|]. exact I.
Qed.

Lemma decode_good b : good (decode b).
Proof.
  unfold decode. cbv zeta.
  gb; [apply get_u16_good|]. gb; [apply get_u8_good|]. gb; [apply get_u8_good|]. gb; [apply get_u16_good|].
  match goal with |- good (if ?c then _ else _) => destruct c end; [unfold good, E_QCOUNT, E_FUEL; lia|].
  gb; [apply get_u16_good|]. gb; [apply get_u16_good|]. gb; [apply get_u16_good|].
  gb; [apply get_name_good|]. gb; [apply get_u16_good|]. gb; [apply get_u16_good|].
  gb; [apply get_rrs_good|]. gb; [apply get_rrs_good|]. gb; [apply get_rrs_good|]. exact I.
Qed.

(* for every octet string: the decoder returns a message or an ordinary error *)
Lemma decode_total b : is_panic (decode b) = false /\ decode b <> Err E_FUEL.
Proof. apply good_spec, decode_good. Qed.

Lemma get_name_total buf c : is_panic (get_name buf c) = false /\ get_name buf c <> Err E_FUEL.
Proof. apply good_spec, get_name_good. Qed.

(* Lemmas behind Props/C02Pool.v: the lease store only ever grants members of the pool it
   is given (= the set the policy walk of Model/DhcpAddrs.v ends with), and every free
   member can be leased. *)
From Erbium Require Import Lib.Base Model.DhcpPolicy Model.DhcpAddrs Model.DhcpAddrsSpec
  Model.DhcpPool Proofs.DhcpPool Proofs.DhcpPoolSpec Proofs.DhcpPoolDrain.

Lemma grant_in_allowed :
  forall g req d o t1 t2 ip s k d',
  (forall x, In x (o_pool o) -> allowed g req x = true) ->
  alloc_ok d o t1 t2 (Granted ip s k) = Some d' ->
  allowed g req ip = true.
Proof. intros g req d o t1 t2 ip s k d' P H. apply P. exact (granted_in_pool _ _ _ _ _ _ _ _ H). Qed.

Lemma admissible_in_allowed :
  forall g req d o t ip s k,
  Inv d -> t < pow2 32 ->
  (forall x, In x (o_pool o) -> allowed g req x = true) ->
  admissible d o t (Granted ip s k) -> allowed g req ip = true.
Proof.
  intros g req d o t ip s k I T P A.
  destruct (alloc_ok_complete d o t t (Granted ip s k) I T A) as [d' H].
  apply P. exact (granted_in_pool _ _ _ _ _ _ _ _ H).
Qed.

Lemma allowed_leasable_on_request :
  forall g req pool d c x mn mx t1 t2 a d',
  (forall y, allowed g req y = true -> In y pool) ->
  allowed g req x = true ->
  fresh d c -> t1 < pow2 32 -> free d t1 x = true ->
  alloc_ok d (new_op c (Some x) pool mn mx) t1 t2 a = Some d' ->
  exists s k, a = Granted x s k.
Proof.
  intros g req pool d c x mn mx t1 t2 a d' P A F T Fx H.
  exact (leasable_on_request d c x pool mn mx t1 t2 a d' F T (P x A) Fx H).
Qed.

Lemma allowed_everything_leasable :
  forall g req pool mn mx t cas d log d' log',
  (forall y, allowed g req y = true -> In y pool) ->
  t + mx < pow2 32 -> mn <= mx ->
  NoDup (map fst cas) -> (forall c, In c (map fst cas) -> fresh d c) ->
  length cas = length pool ->
  run_from (d, log) (drain_events cas pool mn mx t) = Some (d', log') ->
  forall x, allowed g req x = true -> free d t x = true ->
  exists gr, In gr log' /\ g_addr gr = x /\ In (g_client gr) (map fst cas).
Proof.
  intros g req pool mn mx t cas d log d' log' P W Lm ND FR Len H x A Fx.
  exact (drain pool mn mx t cas d log d' log' W Lm ND FR Len H x (P x A) Fx).
Qed.


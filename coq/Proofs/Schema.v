(* Proofs about Model/Schema.v *)
From Erbium Require Import Lib.Base Model.Schema.
From Coq Require Import ZifyBool ZifyN.
Local Open Scope Z_scope.

Lemma newer_refused s v :
  s_sv s = true -> s_ver s = Some v -> v <> 0 -> v <> 1 ->
  -2147483648 <= v < 2147483648 -> open s = Refused s.
Proof.
  intros Hsv Hv H0 H1 Hr. unfold open.
  assert (Hc : create_sv s = s) by (destruct s; cbn in *; subst; reflexivity).
  rewrite Hc. cbn [loop]. unfold iter. rewrite Hv.
  destruct v as [|p|p]; [congruence| |].
  - destruct p; try congruence;
      (destruct ((-2147483648 <=? _)%Z && (_ <? 2147483648)%Z) eqn:E; [reflexivity|lia]).
  - destruct ((-2147483648 <=? Z.neg p)%Z && (Z.neg p <? 2147483648)%Z) eqn:E; [reflexivity|lia].
Qed.

Ltac case_store s :=
  destruct s as [sv ver leases]; destruct sv; destruct ver as [[|[p|p|]|p]|];
  destruct leases as [[[|] rs]|]; cbn in *; try discriminate.

Lemma reopen_identity s : wf_store s = true ->
  exists s', open s = Opened s' /\ rows s' = rows s /\ wf_store s' = true /\ open s' = Opened s'.
Proof.
  intro H. case_store s; eexists; (split; [reflexivity|]); repeat split; reflexivity.
Qed.

Lemma upgrade_v0_preserves rs :
  let s := {| s_sv := false; s_ver := None; s_leases := Some (false, rs) |} in
  exists s', open s = Opened s' /\ rows s' = map row_view rs /\ s_ver s' = Some 1.
Proof. cbn. eexists. repeat split; reflexivity. Qed.

Lemma crash_keeps_wf s k st : wf_store s = true -> crash_state k s = Some st ->
  wf_store st = true /\ rows st = rows s.
Proof.
  intros H Hc. unfold crash_state in Hc.
  destruct (k =? 0)%N eqn:E0; [discriminate|].
  destruct (k =? 1)%N eqn:E1.
  - injection Hc as <-. case_store s; split; reflexivity.
  - case_store s;
      repeat match type of Hc with
             | context [(?a <=? ?b)%N] => destruct (a <=? b)%N eqn:?
             end;
      try discriminate; injection Hc as <-; split; reflexivity.
Qed.

Lemma crash_then_reopen s k st : wf_store s = true -> crash_state k s = Some st ->
  exists s', open st = Opened s' /\ rows s' = rows s.
Proof.
  intros H Hc. destruct (crash_keeps_wf s k st H Hc) as [Hwf Hrows].
  destruct (reopen_identity st Hwf) as [s' [Ho [Hr _]]].
  exists s'. split; [exact Ho|]. congruence.
Qed.

Lemma iter_rows t n t' : iter t = Continue n t' -> rows t' = rows t.
Proof.
  unfold iter. destruct t as [sv ver leases]. cbn.
  destruct ver as [[|[p|p|]|p]|]; destruct leases as [[[|] rs]|]; cbn;
    try discriminate; try (destruct (_ && _)%bool; discriminate);
    try (destruct (_ <? _)%Z; discriminate); try (destruct (_ <=? _)%Z; discriminate);
    intro H; inversion H; subst; reflexivity.
Qed.

Lemma loop_rows f : forall t, rows (res_store (loop f t)) = rows t.
Proof.
  induction f as [|f IH]; intro t; [reflexivity|]. cbn [loop].
  destruct (iter t) as [n t'| | |] eqn:E; try reflexivity.
  rewrite IH. exact (iter_rows _ _ _ E).
Qed.

Lemma open_never_touches_rows s : rows (res_store (open s)) = rows s.
Proof. unfold open. rewrite loop_rows. destruct s; reflexivity. Qed.

(* Proofs about Model/Http.v against the JSON specification Model/Json.v. *)
From Erbium Require Import Lib.Base Model.Json Model.Http Model.EntryC20.

(* ---- gauges ----------------------------------------------------------------- *)
Lemma sum_indicator (f : N -> bool) (l : list N) :
  fold_right N.add 0 (map (fun e => if f e then 1 else 0) l) = lenN (filter f l).
Proof.
  unfold lenN. induction l as [|x l IH]; [reflexivity|]. cbn [map fold_right filter]. rewrite IH.
  destruct (f x); [|reflexivity]. cbn [length]. rewrite Nat2N.inj_succ. lia.
Qed.

Lemma coalesce_sum (f : N -> bool) (l : list N) :
  coalesce (sql_sum (map (fun e => if f e then 1 else 0) l)) 0 = count f l.
Proof.
  unfold count. rewrite <- sum_indicator. destruct l; reflexivity.
Qed.

Lemma metrics_spec (exps : list N) (now : N) :
  metrics exps now = Ok (count (fun e => now <? e) exps, count (fun e => e <=? now) exps).
Proof. unfold metrics. rewrite !coalesce_sum. reflexivity. Qed.

Lemma metrics_total (exps : list N) (now : N) :
  count (fun e => now <? e) exps + count (fun e => e <=? now) exps = lenN exps.
Proof.
  unfold count, lenN. induction exps as [|x l IH]; [reflexivity|]. cbn [filter].
  destruct (N.ltb_spec now x), (N.leb_spec x now); try lia; cbn [length]; rewrite ?Nat2N.inj_succ; lia.
Qed.

(* ---- the escaper against the RFC's string grammar ---------------------------- *)
Lemma hexval_hexdigit (d : N) : d < 16 -> hexval (hexdigit d) = Some d.
Proof.
  intro H. assert (E : forallb (fun d => match hexval (hexdigit d) with Some v => v =? d | None => false end)
                         (map N.of_nat (seq 0 16)) = true) by (vm_compute; reflexivity).
  rewrite forallb_forall in E. specialize (E d).
  assert (Hin : In d (map N.of_nat (seq 0 16))).
  { apply in_map_iff. exists (N.to_nat d). split; [apply N2Nat.id|]. apply in_seq. lia. }
  specialize (E Hin). destruct (hexval (hexdigit d)); [|discriminate]. apply N.eqb_eq in E. congruence.
Qed.

Lemma hex4_ctrl (c : N) : c < 32 -> hex4 48 48 (hexdigit (c / 16)) (hexdigit (c mod 16)) = Some c.
Proof.
  intro H. unfold hex4. change (hexval 48) with (Some 0).
  rewrite !hexval_hexdigit.
  - f_equal. rewrite (N.div_mod c 16) at 3 by discriminate. lia.
  - apply N.mod_lt. discriminate.
  - apply N.div_lt_upper_bound; [discriminate|lia].
Qed.

(* \uXXXX for a code unit that is not a high surrogate: one character *)
Lemma parse_chars_u (h1 h2 h3 h4 u : N) (t : list N) :
  hex4 h1 h2 h3 h4 = Some u -> is_high_surrogate u = false ->
  parse_chars (92 :: 117 :: h1 :: h2 :: h3 :: h4 :: t) = cons_fst u (parse_chars t).
Proof.
  intros Hh Hs. cbn -[hex4 is_high_surrogate is_low_surrogate]. rewrite Hh.
  destruct t as [|b [|u' [|l1 [|l2 [|l3 [|l4 r3]]]]]]; try reflexivity.
  rewrite Hs. reflexivity.
Qed.

Lemma parse_chars_plain (c : N) (t : list N) :
  32 <= c -> c <> 34 -> c <> 92 -> c <= 1114111 ->
  parse_chars (c :: t) = cons_fst c (parse_chars t).
Proof.
  intros H1 H2 H3 H4. cbn [parse_chars].
  destruct (N.eqb_spec c 34); [contradiction|]. destruct (N.eqb_spec c 92); [contradiction|].
  destruct (N.ltb_spec c 32); [lia|]. destruct (N.ltb_spec 1114111 c); [lia|]. reflexivity.
Qed.

Lemma parse_chars_esc_char (c : N) (t : list N) :
  c <= 1114111 -> parse_chars (esc_char c ++ t) = cons_fst c (parse_chars t).
Proof.
  intro Hc. unfold esc_char.
  destruct (N.eqb_spec c 34); [subst; reflexivity|].
  destruct (N.eqb_spec c 92); [subst; reflexivity|].
  destruct (N.eqb_spec c 8); [subst; reflexivity|].
  destruct (N.eqb_spec c 12); [subst; reflexivity|].
  destruct (N.eqb_spec c 10); [subst; reflexivity|].
  destruct (N.eqb_spec c 13); [subst; reflexivity|].
  destruct (N.eqb_spec c 9); [subst; reflexivity|].
  destruct (N.ltb_spec c 32).
  - cbn [app]. apply parse_chars_u; [apply hex4_ctrl; assumption|].
    unfold is_high_surrogate. destruct (N.leb_spec 55296 c); [lia|reflexivity].
  - cbn [app]. apply parse_chars_plain; assumption.
Qed.

Definition wf_str (s : list N) : bool := forallb (fun c => c <=? 1114111) s.

Lemma parse_chars_escape (s t : list N) :
  wf_str s = true -> parse_chars (escape s ++ 34 :: t) = Some (s, t).
Proof.
  induction s as [|c s IH]; intro Hw; [reflexivity|].
  cbn [wf_str forallb] in Hw. apply andb_prop in Hw. destruct Hw as [Hc Hw]. apply N.leb_le in Hc.
  unfold escape. cbn [flat_map]. rewrite <- app_assoc. rewrite parse_chars_esc_char by exact Hc.
  fold (escape s). rewrite (IH Hw). reflexivity.
Qed.

Lemma escape_roundtrip (s : list N) : wf_str s = true -> json_string_parse (json_string s) = Some s.
Proof.
  intro Hw. unfold json_string, json_string_parse. cbn [app].
  rewrite (parse_chars_escape s [] Hw). reflexivity.
Qed.

Lemma hexdigit_ge (d : N) : 32 <= hexdigit d.
Proof. unfold hexdigit. destruct (d <? 10); lia. Qed.

(* the escaper never emits a raw control character *)
Lemma esc_char_no_raw_control (c : N) : Forall (fun x => 32 <= x) (esc_char c).
Proof.
  unfold esc_char.
  repeat match goal with |- context [if ?b then _ else _] => destruct b eqn:? end;
    repeat constructor; try (cbv; discriminate); try apply hexdigit_ge.
  apply N.ltb_ge. assumption.
Qed.

Lemma escape_no_raw_control (s : list N) : Forall (fun c => 32 <= c) (escape s).
Proof.
  unfold escape. induction s as [|c s IH]; [constructor|]. cbn [flat_map]. apply Forall_app. split; [|exact IH].
  apply esc_char_no_raw_control.
Qed.

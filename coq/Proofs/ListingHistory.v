(* C20 over the stores the DHCP server can actually reach ("for all lease stores
   reachable by any history"): the gauges computed by get_pool_metrics over the
   store left by ANY well-formed history of allocations count distinct addresses,
   add up to the number of rows, and the active gauge covers every lease a
   client was told it holds. *)
From Erbium Require Import Lib.Base Model.Http Model.EntryC20 Proofs.Http
  Model.DhcpPool Proofs.DhcpPool Proofs.DhcpPoolHistory.
Open Scope N_scope.

Definition active_rows (d : db) (now : N) : list row := filter (fun r => now <? r_expiry r) d.
Definition expired_rows (d : db) (now : N) : list row := filter (fun r => r_expiry r <=? now) d.

Lemma count_map_expiry : forall (f : N -> bool) (d : db),
  count f (map r_expiry d) = lenN (filter (fun r => f (r_expiry r)) d).
Proof.
  intros f d. unfold count, lenN. induction d as [|r d IH]; [reflexivity|].
  cbn [map filter]. destruct (f (r_expiry r)); cbn [length]; rewrite ?Nat2N.inj_succ; lia.
Qed.

Lemma nodup_map_filter : forall (p : row -> bool) (d : db),
  NoDup (map r_addr d) -> NoDup (map r_addr (filter p d)).
Proof.
  intros p d. induction d as [|r d IH]; intros N; [constructor|].
  cbn [map] in N. inversion N as [|? ? Hn N']; subst. cbn [filter].
  destruct (p r); [|apply IH; assumption].
  cbn [map]. constructor; [|apply IH; assumption].
  intros H. apply Hn. apply in_map_iff in H. destruct H as [r' [E R']].
  apply filter_In in R'. destruct R' as [R' _]. rewrite <- E. apply in_map. assumption.
Qed.

Lemma gauges_reachable : forall h d log now,
  wf_history h = true -> run h = Some (d, log) ->
  metrics (map r_expiry d) now = Ok (lenN (active_rows d now), lenN (expired_rows d now))
  /\ lenN (active_rows d now) + lenN (expired_rows d now) = lenN d
  /\ NoDup (map r_addr (active_rows d now))
  /\ NoDup (map r_addr (expired_rows d now))
  /\ (clock h <= now -> forall c x, holds log c x now ->
        exists r, In r (active_rows d now) /\ r_addr r = x /\ r_client r = c).
Proof.
  intros h d log now W R.
  pose proof (single_row_per_address h d log R) as ND.
  split; [|split; [|split; [|split]]].
  - rewrite metrics_spec. unfold active_rows, expired_rows.
    rewrite (count_map_expiry (fun e => now <? e)), (count_map_expiry (fun e => e <=? now)). reflexivity.
  - unfold active_rows, expired_rows.
    rewrite <- (count_map_expiry (fun e => now <? e)), <- (count_map_expiry (fun e => e <=? now)).
    rewrite metrics_total. unfold lenN. rewrite map_length. reflexivity.
  - apply nodup_map_filter. assumption.
  - apply nodup_map_filter. assumption.
  - intros L c x H.
    pose proof (run_from_loginv_clock h 0 [] [] d log W loginv_init R) as LI.
    fold (clock h) in LI.
    pose proof (holds_is_recorded _ _ _ _ _ _ LI L H) as HB.
    unfold held_by in HB. apply existsb_exists in HB. destruct HB as [r [R1 R2]].
    apply andb_true_iff in R2. destruct R2 as [R2 R4]. apply andb_true_iff in R2. destruct R2 as [R2 R3].
    apply N.eqb_eq in R2. unfold mine in R3. apply bytes_eqb_eq in R3.
    exists r. split; [|split; assumption].
    unfold active_rows. apply filter_In. split; assumption.
Qed.

(* distinct clients' held leases are distinct rows, so the active gauge is at least
   the number of (client, address) pairs the reply log says are held: stated for two *)
Lemma gauge_counts_each_holder : forall h d log now a b x y,
  wf_history h = true -> run h = Some (d, log) -> clock h <= now ->
  holds log a x now -> holds log b y now -> (a <> b \/ x <> y) ->
  2 <= lenN (active_rows d now).
Proof.
  intros h d log now a b x y W R L Ha Hb NE.
  destruct (gauges_reachable h d log now W R) as [_ [_ [ND [_ C]]]].
  destruct (C L a x Ha) as [ra [A1 [A2 A3]]].
  destruct (C L b y Hb) as [rb [B1 [B2 B3]]].
  assert (D : ra <> rb).
  { intros E. subst rb. destruct NE as [NE|NE]; apply NE; congruence. }
  unfold lenN. destruct (active_rows d now) as [|r1 [|r2 l]].
  - destruct A1.
  - exfalso. destruct A1 as [A1|[]]. destruct B1 as [B1|[]]. congruence.
  - cbn [length]. lia.
Qed.

(* The strict decoder of the specification side reads what the encoder writes (C04, byte level). *)
From Erbium Require Import Lib.Base Model.DnsName Model.DnsCodec Model.DnsStrict
  Proofs.DnsName Proofs.DnsCodec Proofs.DnsRecord Proofs.DnsPacket.

Ltac fin_eq :=
  match goal with
  | |- (if ?a =? ?b then _ else _) = _ =>
    replace a with b by (cbn [snd]; unfold lenN; repeat rewrite app_length; cbn [length be16 be32 app]; lia); rewrite N.eqb_refl
  end.

Lemma s_rdata_read B off0 ty d cs post :
  wf_rdata d = true -> kind_type_ok ty d = true ->
  reads B off0 cs (fields_of d) post ->
  s_rdata B ty (lenN (concat cs)) (concat cs ++ post, off0) = Some (d, (post, off0 + lenN (concat cs))).
Proof.
  intros Hw Hk HR. unfold s_rdata. cbn [snd].
  destruct d; cbn [fields_of] in HR; cbn [wf_rdata] in Hw; btrue Hw; wnum;
    try (apply N.eqb_eq in Hk; subst ty).
  - (* CNAME *) destruct cs as [|c [|? ?]]; cbn [reads] in HR; try (exfalso; tauto). destruct HR as [[_ G] _].
    cbn [concat app] in *. rewrite app_nil_r in *. cbn [N.eqb Pos.eqb T_CNAME]. rewrite G. cbn [snd].
    rewrite N.eqb_refl. reflexivity.
  - (* MX *) destruct cs as [|c1 [|c2 [|? ?]]]; cbn [reads] in HR; try (exfalso; tauto). destruct HR as [-> [[_ G] _]].
    cbn [concat app] in *. rewrite app_nil_r in *. rewrite <- app_assoc.
    cbn [N.eqb Pos.eqb T_CNAME T_NS T_PTR T_MX].
    rewrite get_u16_be16 by assumption. cbn [o2].
    change (lenN (be16 pref)) with 2 in G. rewrite G. cbn [snd]. fin_eq.
    change (lenN (be16 pref)) with 2.
    replace (off0 + 2 + lenN c2) with (off0 + (2 + lenN c2)) by lia. reflexivity.
  - (* NS *) destruct cs as [|c [|? ?]]; cbn [reads] in HR; try (exfalso; tauto). destruct HR as [[_ G] _].
    cbn [concat app] in *. rewrite app_nil_r in *. cbn [N.eqb Pos.eqb T_CNAME T_NS]. rewrite G. cbn [snd].
    rewrite N.eqb_refl. reflexivity.
  - (* PTR *) destruct cs as [|c [|? ?]]; cbn [reads] in HR; try (exfalso; tauto). destruct HR as [[_ G] _].
    cbn [concat app] in *. rewrite app_nil_r in *. cbn [N.eqb Pos.eqb T_CNAME T_NS T_PTR]. rewrite G. cbn [snd].
    rewrite N.eqb_refl. reflexivity.
  - (* SOA *) destruct cs as [|c1 [|c2 [|c3 [|? ?]]]]; cbn [reads] in HR; try (exfalso; tauto).
    destruct HR as [[_ G1] [[_ G2] [-> _]]].
    cbn [concat app] in *. rewrite app_nil_r in *.
    cbn [N.eqb Pos.eqb T_CNAME T_NS T_PTR T_MX T_RT T_AFSDB T_RP T_SOA].
    rewrite <- !app_assoc in *. rewrite G1. rewrite G2.
    repeat (rewrite get_u32_be32 by assumption; cbn [o2]).
    cbn [snd]. fin_eq.
    match goal with |- Some (_, (_, ?a)) = Some (_, (_, ?b)) =>
      replace a with b by (repeat rewrite lenN_app; repeat change (lenN (be32 _)) with 4; lia) end. reflexivity.
  - (* OPT *) destruct cs as [|c1 [|? ?]]; cbn [reads] in HR; try (exfalso; tauto). destruct HR as [-> _].
    cbn [concat app] in *. rewrite app_nil_r in *.
    cbn [N.eqb Pos.eqb T_CNAME T_NS T_PTR T_MX T_RT T_AFSDB T_RP T_SOA T_NAPTR T_OPT].
    rewrite get_bytes_app. cbn [o2].
    match goal with H : wf_opts _ = true |- _ => apply wf_opts_ok in H as [Ho _] end.
    destruct (options_roundtrip o (S (length (enc_opts o))) Ho ltac:(lia)) as [_ ->]. cbn [snd].
    rewrite N.eqb_refl. reflexivity.
  - (* AFSDB *) destruct cs as [|c1 [|c2 [|? ?]]]; cbn [reads] in HR; try (exfalso; tauto). destruct HR as [-> [[_ G] _]].
    cbn [concat app] in *. rewrite app_nil_r in *. rewrite <- app_assoc.
    cbn [N.eqb Pos.eqb T_CNAME T_NS T_PTR T_MX T_RT T_AFSDB].
    rewrite get_u16_be16 by assumption. cbn [o2].
    change (lenN (be16 subtype)) with 2 in G. rewrite G. cbn [snd]. fin_eq.
    change (lenN (be16 subtype)) with 2.
    replace (off0 + 2 + lenN c2) with (off0 + (2 + lenN c2)) by lia. reflexivity.
  - (* RP *) destruct cs as [|c1 [|c2 [|? ?]]]; cbn [reads] in HR; try (exfalso; tauto). destruct HR as [[_ G1] [[_ G2] _]].
    cbn [concat app] in *. rewrite app_nil_r in *.
    cbn [N.eqb Pos.eqb T_CNAME T_NS T_PTR T_MX T_RT T_AFSDB T_RP].
    rewrite <- !app_assoc in *. rewrite G1. rewrite G2. cbn [snd]. fin_eq.
    rewrite lenN_app. replace (off0 + lenN c1 + lenN c2) with (off0 + (lenN c1 + lenN c2)) by lia. reflexivity.
  - (* RT *) destruct cs as [|c1 [|c2 [|? ?]]]; cbn [reads] in HR; try (exfalso; tauto). destruct HR as [-> [[_ G] _]].
    cbn [concat app] in *. rewrite app_nil_r in *. rewrite <- app_assoc.
    cbn [N.eqb Pos.eqb T_CNAME T_NS T_PTR T_MX T_RT].
    rewrite get_u16_be16 by assumption. cbn [o2].
    change (lenN (be16 pref)) with 2 in G. rewrite G. cbn [snd]. fin_eq.
    change (lenN (be16 pref)) with 2.
    replace (off0 + 2 + lenN c2) with (off0 + (2 + lenN c2)) by lia. reflexivity.
  - (* NAPTR *) destruct cs as [|c1 [|c2 [|? ?]]]; cbn [reads] in HR; try (exfalso; tauto). destruct HR as [-> [[_ G] _]].
    cbn [concat app] in *. rewrite app_nil_r in *.
    cbn [N.eqb Pos.eqb T_CNAME T_NS T_PTR T_MX T_RT T_AFSDB T_RP T_SOA T_NAPTR].
    rewrite <- !app_assoc in *.
    rewrite get_u16_be16 by assumption. cbn [o2]. rewrite get_u16_be16 by assumption. cbn [o2].
    repeat (rewrite <- app_comm_cons || rewrite <- app_assoc).
    repeat (rewrite get_string_app by (apply wf_str_ok; assumption); cbn [o2]).
    repeat (rewrite lenN_app in G || rewrite lenN_cons in G). change (lenN (be16 order)) with 2 in G. change (lenN (be16 pref)) with 2 in G.
    match type of G with s_name _ (_, ?a) = _ => match goal with |- context [s_name _ (_, ?b)] => replace b with a by lia end end.
    rewrite G. cbn [snd].
    match goal with
    | |- (if ?a =? ?b then _ else _) = _ =>
      replace a with b by (repeat (rewrite lenN_app || rewrite lenN_cons); change (lenN (be16 order)) with 2; change (lenN (be16 pref)) with 2; lia);
        rewrite N.eqb_refl
    end.
    match goal with |- Some (_, (_, ?a)) = Some (_, (_, ?b)) =>
      replace a with b by (repeat (rewrite lenN_app || rewrite lenN_cons); change (lenN (be16 order)) with 2; change (lenN (be16 pref)) with 2; lia) end.
    reflexivity.
  - (* other *) destruct cs as [|c1 [|? ?]]; cbn [reads] in HR; try (exfalso; tauto). destruct HR as [-> _].
    cbn [concat app] in *. rewrite app_nil_r in *.
    destruct (other_type _ _ Hk) as (E1 & E2 & E3 & E4 & E5 & E6 & E7 & E8 & E9 & E10).
    rewrite E1, E2, E3, E4, E5, E6, E7, E8, E9, E10. rewrite get_bytes_app. cbn [o2 snd].
    rewrite N.eqb_refl. reflexivity.
Qed.

Lemma rr_read_s buf kids r b kids' :
  0 < lenN buf -> Forall (tree_ok buf []) kids -> wf_rr r = true ->
  push_rr (lenN buf) kids r = Ok (b, kids') ->
  forall post, s_rr (buf ++ b ++ post) (b ++ post, lenN buf) = Some (r, (post, lenN buf + lenN b)).
Proof.
  intros Hpos Hk Hwf Epush. apply wf_rr_parts in Hwf as (Hn & Hc & Ht & Hl & Hkt & Hd).
  destruct (get_name_written buf kids (r_name r) Hpos Hk Hn) as (nb & k1 & En & T1 & _ & Lnb & Rn).
  assert (Hp1 : 0 < lenN (buf ++ nb)) by (rewrite lenN_app; lia).
  destruct (fields_written (fields_of (r_data r)) (buf ++ nb) k1 10 Hp1 T1 (wf_rdata_fields _ Hd))
    as (cs & k2 & Ef & Lf & Hf).
  pose proof (fields_bound _ Hd) as Lb.
  assert (HL : lenN (concat cs) < 65536) by lia.
  rewrite lenN_app in Ef.
  pose proof (push_rdata_fields _ _ _ _ _ _ Hd Hkt Ef) as Epd.
  set (fixed := be16 (r_type r) ++ be16 (r_class r) ++ be32 (r_ttl r)).
  set (gap := fixed ++ be16 (lenN (concat cs))).
  assert (Hg : lenN gap = 10) by reflexivity.
  destruct (Hf gap Hg) as [T2 R2].
  assert (Eb : b = nb ++ fixed ++ be16 (lenN (concat cs)) ++ concat cs).
  { unfold push_rr in Epush. rewrite En in Epush. cbn [obind] in Epush. rewrite Epd in Epush.
    cbn [obind] in Epush. inversion Epush. reflexivity. }
  subst b. intros post. unfold s_rr.
  destruct (Rn ((fixed ++ be16 (lenN (concat cs)) ++ concat cs) ++ post)) as [_ Gn].
  rewrite <- !app_assoc in Gn. rewrite <- !app_assoc. rewrite Gn.
  unfold fixed. rewrite <- !app_assoc.
  rewrite get_u16_be16 by exact Ht. cbn [o2].
  rewrite get_u16_be16 by exact Hc. cbn [o2].
  rewrite get_u32_be32 by exact Hl. cbn [o2].
  rewrite get_u16_be16 by exact HL. cbn [o2].
  specialize (R2 post). unfold gap, fixed in R2. rewrite <- !app_assoc in R2. rewrite lenN_app in R2.
  replace (lenN buf + lenN nb + 10) with (lenN buf + lenN nb + 2 + 2 + 4 + 2) in R2 by lia.
  rewrite (s_rdata_read _ _ _ _ _ _ Hd Hkt R2).
  replace (lenN buf + lenN nb + 2 + 2 + 4 + 2 + lenN (concat cs))
    with (lenN buf + lenN (nb ++ be16 (r_type r) ++ be16 (r_class r) ++ be32 (r_ttl r) ++ be16 (lenN (concat cs)) ++ concat cs)).
  2:{ rewrite !lenN_app. change (lenN (be16 (r_type r))) with 2. change (lenN (be16 (r_class r))) with 2.
      change (lenN (be32 (r_ttl r))) with 4. change (lenN (be16 (lenN (concat cs)))) with 2. lia. }
  destruct r; reflexivity.
Qed.

Lemma rrs_read_s : forall rs buf kids bs kids',
  0 < lenN buf -> Forall (tree_ok buf []) kids -> forallb wf_rr rs = true ->
  enc_rrs (lenN buf) kids rs = Ok (bs, kids') ->
  Forall (tree_ok (buf ++ bs) []) kids' /\
  forall post, s_rrs (buf ++ bs ++ post) (length rs) (bs ++ post, lenN buf) = Some (rs, (post, lenN buf + lenN bs)).
Proof.
  induction rs as [|r rs IH]; intros buf kids bs kids' Hpos Hk Hwf E.
  - simpl in E. inversion E; subst. rewrite app_nil_r. split; auto.
    intros post. simpl. rewrite (@lenN_nil N), N.add_0_r. reflexivity.
  - simpl in Hwf. apply andb_true_iff in Hwf as [Hr Hrs].
    simpl in E. apply obind_ok in E as ([b k1] & E1 & E). apply obind_ok in E as ([bs' k2] & E2 & E).
    inversion E; subst. clear E.
    destruct (rr_written buf kids r Hpos Hk Hr) as (b' & k1' & E1' & T1 & Lb & _).
    rewrite E1 in E1'. inversion E1'; subst b' k1'. clear E1'.
    assert (Hp1 : 0 < lenN (buf ++ b)) by (rewrite lenN_app; lia).
    rewrite <- lenN_app in E2.
    destruct (IH (buf ++ b) k1 bs' kids' Hp1 T1 Hrs E2) as [T2 R2].
    split; [rewrite app_assoc; exact T2|].
    intros post. cbn [s_rrs length].
    pose proof (rr_read_s buf kids r b k1 Hpos Hk Hr E1 (bs' ++ post)) as R1.
    rewrite <- !app_assoc. rewrite R1.
    specialize (R2 post). rewrite <- !app_assoc in R2. rewrite lenN_app in R2. rewrite R2.
    rewrite lenN_app. replace (lenN buf + lenN b + lenN bs') with (lenN buf + (lenN b + lenN bs')) by lia.
    reflexivity.
Qed.

(* ---- flags and OPT word as the strict decoder reads them --------------------------- *)
Lemma flag1_facts_s rd_ tc_ aa_ qr_ op : op < 16 ->
  let f := flag1_of rd_ tc_ aa_ qr_ op in
  N.odd f = rd_ /\ N.odd (f / 2) = tc_ /\ N.odd (f / 4) = aa_ /\ N.odd (f / 128) = qr_ /\ (f / 8) mod 16 = op.
Proof.
  intros Hop.
  assert (H : forallb (fun op => forallb (fun a => forallb (fun b => forallb (fun c => forallb (fun d =>
             let f := flag1_of a b c d op in
             Bool.eqb (N.odd f) a && Bool.eqb (N.odd (f / 2)) b && Bool.eqb (N.odd (f / 4)) c
             && Bool.eqb (N.odd (f / 128)) d && ((f / 8) mod 16 =? op))
             bools) bools) bools) bools) (map N.of_nat (seq 0 16)) = true) by (vm_compute; reflexivity).
  pose proof (forall_below _ _ H op Hop) as H1. cbv beta in H1. unfold bools in H1.
  destruct rd_, tc_, aa_, qr_; cbn [forallb] in H1; btrue H1;
    repeat match goal with Hx : Bool.eqb _ _ = true |- _ => apply Bool.eqb_prop in Hx end;
    repeat match goal with Hx : (_ =? _) = true |- _ => apply N.eqb_eq in Hx end;
    cbv zeta; repeat split; assumption.
Qed.

Lemma flag2_facts_s cd_ ad_ ra_ rc :
  let f := flag2_of cd_ ad_ ra_ rc in
  N.odd (f / 32) = cd_ /\ N.odd (f / 64) = ad_ /\ N.odd (f / 128) = ra_ /\ f mod 16 = rc mod 16.
Proof.
  assert (Hr : rc mod 16 < 16) by (apply N.mod_lt; lia).
  assert (H : forallb (fun r => forallb (fun a => forallb (fun b => forallb (fun c =>
             let f := N.lor (N.lor (N.lor (bit a 32) (bit b 64)) (bit c 128)) r in
             Bool.eqb (N.odd (f / 32)) a && Bool.eqb (N.odd (f / 64)) b && Bool.eqb (N.odd (f / 128)) c
             && (f mod 16 =? r))
             bools) bools) bools) (map N.of_nat (seq 0 16)) = true) by (vm_compute; reflexivity).
  pose proof (forall_below _ _ H (rc mod 16) Hr) as H1. cbv beta in H1.
  unfold flag2_of. remember (rc mod 16) as r. unfold bools in H1.
  destruct cd_, ad_, ra_; cbn [forallb] in H1; btrue H1;
    repeat match goal with Hx : Bool.eqb _ _ = true |- _ => apply Bool.eqb_prop in Hx end;
    repeat match goal with Hx : (_ =? _) = true |- _ => apply N.eqb_eq in Hx end;
    cbv zeta; repeat split; assumption.
Qed.

Lemma opt_ttl_facts_s rc d : rc < 4096 ->
  let t := opt_ttl rc d in
  (t / 65536) mod 256 = 0 /\ N.odd (t / 32768) = d /\ rc mod 16 + 16 * (t / 16777216) = rc.
Proof.
  intros Hrc.
  assert (H : forallb (fun rc => forallb (fun d =>
             let t := opt_ttl rc d in
             ((t / 65536) mod 256 =? 0) && Bool.eqb (N.odd (t / 32768)) d
             && (rc mod 16 + 16 * (t / 16777216) =? rc)) bools) (map N.of_nat (seq 0 4096)) = true)
    by (vm_compute; reflexivity).
  pose proof (forall_below _ _ H rc Hrc) as H1. cbv beta in H1. unfold bools in H1.
  destruct d; cbn [forallb] in H1; btrue H1;
    repeat match goal with Hx : Bool.eqb _ _ = true |- _ => apply Bool.eqb_prop in Hx end;
    repeat match goal with Hx : (_ =? _) = true |- _ => apply N.eqb_eq in Hx end;
    cbv zeta; repeat split; assumption.
Qed.

(* ---- the three sections of a size-limited message ------------------------------------ *)
Lemma push_rrs_dropped size pos k rs bs k' c :
  push_rrs size pos k rs = Ok (bs, k', c, true) -> (N.to_nat c < length rs)%nat.
Proof.
  intros H. destruct (push_rrs_prefix _ _ _ _ _ _ _ _ H) as (_ & _ & _ & Ht).
  destruct (Ht eq_refl) as (r & b & kk & Hn & _). apply nth_error_Some. congruence.
Qed.

Lemma encode_sized_t_sections m size e t : encode_sized_t m size = Ok (e, t) ->
  exists qb k0 ab ka nb kn db kd ac nc dc,
    push_name 12 [] (qname m) = Ok (qb, k0) /\
    let qbytes := qb ++ be16 (qtype m) ++ be16 (qclass m) in
    let p0 := 12 + lenN qbytes in
    let adds := additional m ++ opt_rr m in
    e = be16 (qid m) ++ [flag1 m t; flag2 m] ++ be16 1 ++ be16 ac ++ be16 nc ++ be16 dc
        ++ qbytes ++ ab ++ nb ++ db /\
    enc_rrs p0 k0 (firstn (N.to_nat ac) (answer m)) = Ok (ab, ka) /\
    enc_rrs (p0 + lenN ab) ka (firstn (N.to_nat nc) (nameserver m)) = Ok (nb, kn) /\
    enc_rrs (p0 + lenN ab + lenN nb) kn (firstn (N.to_nat dc) adds) = Ok (db, kd) /\
    (N.to_nat ac <= length (answer m))%nat /\ (N.to_nat nc <= length (nameserver m))%nat /\
    (N.to_nat dc <= length adds)%nat /\
    (t = false -> N.to_nat ac = length (answer m) /\ N.to_nat nc = length (nameserver m) /\
                  N.to_nat dc = length adds) /\
    (t = true -> (N.to_nat ac < length (answer m))%nat \/ (N.to_nat nc < length (nameserver m))%nat \/
                 (N.to_nat dc < length adds)%nat) /\
    ((N.to_nat ac < length (answer m))%nat -> nc = 0 /\ dc = 0) /\
    ((N.to_nat nc < length (nameserver m))%nat -> dc = 0).
Proof.
  intros H.
  apply encode_sized_t_inv in H as (Hs & _ & qb & k0 & ab & k1 & ac & t1 & nb & k2 & nc & t2 & db & k3 & dc & Eq & H).
  cbv zeta in H. destruct H as (Ea & En & Ed & ->).
  destruct (push_rrs_prefix _ _ _ _ _ _ _ _ Ea) as (A1 & (ka & A2 & A2k) & A3 & _).
  destruct (sect_prefix _ _ _ _ _ _ _ _ _ En) as (N1 & (kn & N2 & N2k) & N3 & N4).
  destruct (sect_prefix _ _ _ _ _ _ _ _ _ Ed) as (D1 & (kd & D2 & D2k) & D3 & D4).
  assert (N2' : enc_rrs (12 + lenN (qb ++ be16 (qtype m) ++ be16 (qclass m)) + lenN ab) ka
                  (firstn (N.to_nat nc) (nameserver m)) = Ok (nb, if t1 then ka else kn)).
  { destruct t1.
    - destruct (N4 eq_refl) as [-> ->]. simpl in N2 |- *. inversion N2; subst. reflexivity.
    - rewrite (A2k eq_refl). exact N2. }
  assert (D2' : enc_rrs (12 + lenN (qb ++ be16 (qtype m) ++ be16 (qclass m)) + lenN ab + lenN nb)
                  (if t1 then ka else kn) (firstn (N.to_nat dc) (additional m ++ opt_rr m))
                = Ok (db, if t2 then (if t1 then ka else kn) else kd)).
  { destruct t2.
    - destruct (D4 eq_refl) as [-> ->]. simpl in D2 |- *. inversion D2; subst. reflexivity.
    - destruct (N3 eq_refl) as [-> _]. rewrite (N2k eq_refl). exact D2. }
  exists qb, k0, ab, ka, nb, (if t1 then ka else kn), db, (if t2 then (if t1 then ka else kn) else kd), ac, nc, dc.
  split; auto. cbv zeta. split; [reflexivity|]. split; [exact A2|]. split; [exact N2'|]. split; [exact D2'|].
  split; auto. split; auto. split; auto. split; [|split; [|split]].
  - intros ->. destruct (D3 eq_refl) as [-> Hd]. destruct (N3 eq_refl) as [-> Hn]. auto.
  - intros ->. destruct t2.
    + destruct t1.
      * left. eapply push_rrs_dropped; eauto.
      * right; left. unfold sect in En. eapply push_rrs_dropped; eauto.
    + right; right. unfold sect in Ed. eapply push_rrs_dropped; eauto.
  - intros Hlt. destruct t1; [|specialize (A3 eq_refl); lia].
    destruct (N4 eq_refl) as [-> ->]. destruct (D4 eq_refl) as [-> _]. auto.
  - intros Hlt. destruct t2; [|destruct (N3 eq_refl); lia].
    destruct (D4 eq_refl) as [-> _]. auto.
Qed.

(* ---- C04, byte level -------------------------------------------------------------------- *)
(* what a strict reader sees in a size-limited encoding of m that kept the first
   ac / nc / dc records of the three sections (OPT pseudo-record last) and dropped
   records iff t: m's header and question, TC = tc m || t, the kept records; when
   the OPT record was among the dropped ones, no EDNS (and hence only the low four
   bits of the rcode, size 512, DO clear) *)
Definition opt_kept (m : pkt) (dc : N) : bool :=
  match edns m with
  | Some _ => Nat.eqb (N.to_nat dc) (length (additional m ++ opt_rr m))
  | None => false
  end.

Definition sized_result (m : pkt) (ac nc dc : N) (t : bool) : pkt :=
  let keep := opt_kept m dc in
  {| qid := qid m; rd := rd m; tc := tc m || t; aa := aa m; qr := qr m; opcode := opcode m;
     cd := cd m; ad := ad m; ra := ra m;
     rcode := if keep then rcode m else rcode m mod 16;
     bufsize := if keep then bufsize m else 512;
     edns_ver := if keep then Some 0 else None;
     edns_do := if keep then edns_do m else false;
     qname := qname m; qtype := qtype m; qclass := qclass m;
     answer := firstn (N.to_nat ac) (answer m);
     nameserver := firstn (N.to_nat nc) (nameserver m);
     additional := firstn (N.to_nat dc) (additional m);
     edns := if keep then edns m else None |}.

Lemma forallb_firstn {A} (f : A -> bool) n l : forallb f l = true -> forallb f (firstn n l) = true.
Proof.
  revert l. induction n; intros [|x l]; simpl; auto. intros H. apply andb_true_iff in H as [H1 H2].
  rewrite H1. simpl. auto.
Qed.

Lemma existsb_firstn_false {A} (f : A -> bool) n l : existsb f l = false -> existsb f (firstn n l) = false.
Proof.
  revert l. induction n; intros [|x l]; simpl; auto. intros H. apply orb_false_iff in H as [H1 H2].
  rewrite H1. simpl. auto.
Qed.

Lemma no_opt_filters (l : list rr) : existsb (fun r => r_type r =? T_OPT) l = false ->
  filter is_opt l = [] /\ filter (fun r => negb (is_opt r)) l = l.
Proof.
  induction l as [|r l IH]; simpl; auto. intros H. apply orb_false_iff in H as [H1 H2].
  destruct (IH H2) as [I1 I2]. assert (Hr : is_opt r = false) by (unfold is_opt; exact H1).
  rewrite Hr. simpl. rewrite I1, I2. auto.
Qed.

Lemma no_opt_filters_app (l : list rr) o : existsb (fun r => r_type r =? T_OPT) l = false -> is_opt o = true ->
  filter is_opt (l ++ [o]) = [o] /\ filter (fun r => negb (is_opt r)) (l ++ [o]) = l.
Proof.
  intros H Ho. rewrite !filter_app. destruct (no_opt_filters l H) as [-> ->].
  simpl. rewrite Ho. simpl. rewrite app_nil_r. auto.
Qed.

Lemma lenN_firstn_lt {A} (l : list A) c : (N.to_nat c <= length l)%nat -> lenN l < 65536 -> c < 65536.
Proof. unfold lenN. lia. Qed.

Lemma strict_decode_sized m size e t :
  wf_pkt m = true -> encode_sized_t m size = Ok (e, t) ->
  exists ac nc dc,
    strict_decode e = Some (sized_result m ac nc dc t) /\
    let adds := additional m ++ opt_rr m in
    (N.to_nat ac <= length (answer m))%nat /\ (N.to_nat nc <= length (nameserver m))%nat /\
    (N.to_nat dc <= length adds)%nat /\
    (t = false -> N.to_nat ac = length (answer m) /\ N.to_nat nc = length (nameserver m) /\
                  N.to_nat dc = length adds) /\
    (t = true -> (N.to_nat ac < length (answer m))%nat \/ (N.to_nat nc < length (nameserver m))%nat \/
                 (N.to_nat dc < length adds)%nat) /\
    ((N.to_nat ac < length (answer m))%nat -> nc = 0 /\ dc = 0) /\
    ((N.to_nat nc < length (nameserver m))%nat -> dc = 0).
Proof.
  intros Hwf H.
  apply encode_sized_t_sections in H as (qb & k0 & ab & ka & nb & kn & db & kd & ac & nc & dc & Eq & H).
  cbv zeta in H. destruct H as (-> & Aa & An & Ad & C1 & C2 & C3 & Cf & Ct & Ca & Cn).
  exists ac, nc, dc. split; [|cbv zeta; repeat split; auto; try (apply Cf; auto); try (apply Ca; auto)].
  apply wf_pkt_parts in Hwf as (Wid & Wop & Wrc & Wbs & Wbs2 & Wqn & Wqt & Wqc & Wan & Wns & Wad & Wno & Lan & Lns & Lad & Wed).
  assert (Wad' : forallb wf_rr (additional m ++ opt_rr m) = true).
  { rewrite forallb_app, Wad. simpl. unfold opt_rr. destruct (edns m) as [o|]; [|reflexivity].
    destruct Wed as [Wo Wv]. cbn [forallb]. rewrite andb_true_r. unfold wf_rr. cbn [r_name r_class r_type r_ttl r_data].
    rewrite Wv. fold (opt_ttl (rcode m) (edns_do m)).
    destruct (opt_ttl_facts (rcode m) (edns_do m) Wrc) as (Tt & _).
    unfold w16, w32. cbn [wf_rdata kind_type_ok]. rewrite Wo.
    replace (bufsize m <? 65536) with true by (symmetry; apply N.ltb_lt; lia).
    replace (opt_ttl (rcode m) (edns_do m) <? 4294967296) with true by (symmetry; apply N.ltb_lt; lia).
    reflexivity. }
  pose proof (lenN_firstn_lt _ _ C1 Lan) as Lac. pose proof (lenN_firstn_lt _ _ C2 Lns) as Lnc.
  pose proof (lenN_firstn_lt _ _ C3 Lad) as Ldc.
  set (hdr := be16 (qid m) ++ [flag1 m t; flag2 m] ++ be16 1 ++ be16 ac ++ be16 nc ++ be16 dc).
  assert (Hh : lenN hdr = 12) by reflexivity.
  assert (Hp0 : 0 < lenN hdr) by (rewrite Hh; lia).
  destruct (get_name_written hdr [] (qname m) Hp0 (Forall_nil _) Wqn) as (qb' & k0' & Eq' & T0 & _ & _ & Rq).
  rewrite Hh, Eq in Eq'. inversion Eq'; subst qb' k0'. clear Eq'.
  set (qtail := be16 (qtype m) ++ be16 (qclass m)).
  assert (Hp1 : 0 < lenN (hdr ++ qb ++ qtail)) by (rewrite lenN_app; lia).
  assert (T0' : Forall (tree_ok (hdr ++ qb ++ qtail) []) k0).
  { rewrite app_assoc. now apply forall_tree_ok_app. }
  assert (Hl1 : lenN (hdr ++ qb ++ qtail) = 12 + lenN (qb ++ qtail)) by (rewrite lenN_app, Hh; reflexivity).
  unfold qtail in Hl1. rewrite <- Hl1 in Aa, An, Ad.
  destruct (rrs_read_s _ _ _ _ _ Hp1 T0' (forallb_firstn _ _ _ Wan) Aa) as [T1 Ra].
  assert (Hp2 : 0 < lenN ((hdr ++ qb ++ qtail) ++ ab)) by (rewrite lenN_app; lia).
  rewrite <- lenN_app in An, Ad.
  destruct (rrs_read_s _ _ _ _ _ Hp2 T1 (forallb_firstn _ _ _ Wns) An) as [T2 Rn].
  assert (Hp3 : 0 < lenN (((hdr ++ qb ++ qtail) ++ ab) ++ nb)) by (rewrite lenN_app; lia).
  rewrite <- lenN_app in Ad.
  destruct (rrs_read_s _ _ _ _ _ Hp3 T2 (forallb_firstn _ _ _ Wad') Ad) as [_ Rd].
  specialize (Rq (qtail ++ ab ++ nb ++ db)). destruct Rq as [_ Rq]. rewrite Hh in Rq.
  specialize (Ra (nb ++ db)). specialize (Rn db). specialize (Rd []).
  rewrite !firstn_length_le in Ra, Rn, Rd by assumption.
  unfold qtail in Ra, Rn, Rd.
  remember (hdr ++ qb ++ be16 (qtype m) ++ be16 (qclass m)) as X eqn:EX.
  repeat rewrite lenN_app in Rn. repeat rewrite lenN_app in Rd. rewrite Hl1 in Ra, Rn, Rd. subst X.
  unfold hdr, qtail in *. clear hdr qtail Hh Hp0 Hp1 Hp2 Hp3 Hl1 T0 T0' T1 T2.
  repeat rewrite <- app_assoc in Rq. repeat rewrite <- app_assoc in Ra.
  repeat rewrite <- app_assoc in Rn. repeat rewrite <- app_assoc in Rd. rewrite app_nil_r in Rd.
  repeat rewrite <- app_assoc. cbn [app] in *.
  rewrite (lenN_app qb) in Ra, Rn, Rd.
  change (lenN (be16 (qtype m) ++ be16 (qclass m))) with 4 in *.
  unfold strict_decode.
  rewrite get_u16_be16 by exact Wid. cbn [o2].
  rewrite get_u8_cons. cbn [o2]. rewrite get_u8_cons. cbn [o2].
  rewrite get_u16_be16 by lia. cbn [o2].
  rewrite get_u16_be16 by exact Lac. cbn [o2].
  rewrite get_u16_be16 by exact Lnc. cbn [o2].
  rewrite get_u16_be16 by exact Ldc. cbn [o2 negb N.eqb Pos.eqb].
  change (0 + 2 + 1 + 1 + 2 + 2 + 2 + 2) with 12.
  rewrite Rq.
  rewrite get_u16_be16 by exact Wqt. cbn [o2].
  rewrite get_u16_be16 by exact Wqc. cbn [o2].
  replace (12 + lenN qb + 2 + 2) with (12 + (lenN qb + 4)) by lia.
  rewrite Ra. rewrite Rn. rewrite Rd. cbn [fst].
  clear Ra Rn Rd Rq Aa An Ad Eq.
  pose proof (flag1_facts_s (rd m) (tc m || t) (aa m) (qr m) (opcode m) Wop) as F1.
  pose proof (flag2_facts_s (cd m) (ad m) (ra m) (rcode m)) as F2. cbv zeta in F1, F2.
  change (flag1 m t) with (flag1_of (rd m) (tc m || t) (aa m) (qr m) (opcode m)).
  change (flag2 m) with (flag2_of (cd m) (ad m) (ra m) (rcode m)).
  destruct F1 as (F11 & F12 & F13 & F14 & F15). destruct F2 as (F21 & F22 & F23 & F24).
  unfold sized_result, opt_kept. unfold opt_rr in *.
  destruct (edns m) as [o|] eqn:Eed.
  - destruct Wed as [Wo Wv].
    destruct (Nat.eqb (N.to_nat dc) (length (additional m ++ _))) eqn:Ek.
    + (* the OPT record was kept *)
      apply Nat.eqb_eq in Ek. rewrite Ek, firstn_all.
      rewrite Wv. fold (opt_ttl (rcode m) (edns_do m)).
      destruct (opt_ttl_facts_s (rcode m) (edns_do m) Wrc) as (Tv & Td & Tr).
      match goal with |- context [filter is_opt (additional m ++ [?R])] =>
        destruct (no_opt_filters_app (additional m) R Wno eq_refl) as [-> ->] end.
      cbn [r_name r_ttl r_class r_data].
      rewrite F11, F12, F13, F14, F15, F21, F22, F23, F24, Tv, Td, Tr.
      rewrite app_length in Ek. simpl in Ek.
      rewrite (firstn_all2 (additional m)) by (rewrite ?app_length; simpl; lia). reflexivity.
    + (* the OPT record was dropped *)
      apply Nat.eqb_neq in Ek. rewrite app_length in C3, Ek. simpl in C3, Ek.
      rewrite firstn_app. replace (N.to_nat dc - length (additional m))%nat with 0%nat by lia.
      cbn [firstn]. rewrite app_nil_r.
      destruct (no_opt_filters _ (existsb_firstn_false _ (N.to_nat dc) _ Wno)) as [-> ->].
      rewrite F11, F12, F13, F14, F15, F21, F22, F23, F24. rewrite N.mul_0_r, N.add_0_r. reflexivity.
  - rewrite app_nil_r.
    destruct (no_opt_filters _ (existsb_firstn_false _ (N.to_nat dc) _ Wno)) as [-> ->].
    rewrite F11, F12, F13, F14, F15, F21, F22, F23, F24. rewrite N.mul_0_r, N.add_0_r. reflexivity.
Qed.

Lemma sized_wellformed m size e t :
  wf_pkt m = true -> encode_sized_t m size = Ok (e, t) ->
  lenN e <= size /\
  exists ac nc dc,
    strict_decode e = Some (sized_result m ac nc dc t) /\
    let adds := additional m ++ opt_rr m in
    (N.to_nat ac <= length (answer m))%nat /\ (N.to_nat nc <= length (nameserver m))%nat /\
    (N.to_nat dc <= length adds)%nat /\
    (t = false -> N.to_nat ac = length (answer m) /\ N.to_nat nc = length (nameserver m) /\
                  N.to_nat dc = length adds) /\
    (t = true -> (N.to_nat ac < length (answer m))%nat \/ (N.to_nat nc < length (nameserver m))%nat \/
                 (N.to_nat dc < length adds)%nat) /\
    ((N.to_nat ac < length (answer m))%nat -> nc = 0 /\ dc = 0) /\
    ((N.to_nat nc < length (nameserver m))%nat -> dc = 0).
Proof.
  intros Hwf H. split; [|now apply (strict_decode_sized m size e t)].
  pose proof Hwf as Hwf'. apply wf_pkt_parts in Hwf' as (_ & _ & _ & _ & _ & Wqn & _).
  eapply encode_sized_within; eauto. eapply encode_sized_of_t; eauto.
Qed.

(* every pointer in any encoding (size-limited or not) of a well-formed message is
   backwards and below 0x4000: the strict decoder, which follows every name of the
   message and rejects any other pointer, accepts the octets *)
Lemma encoding_strictly_decodable m size e t :
  wf_pkt m = true -> encode_sized_t m size = Ok (e, t) -> exists m', strict_decode e = Some m'.
Proof.
  intros Hwf H. destruct (strict_decode_sized m size e t Hwf H) as (ac & nc & dc & Hs & _). eauto.
Qed.

(* Proofs about Model/Frame.v: the Internet checksum verifies at the receiver
   and the frame built by new_udp4 is a valid Ethernet/IPv4/UDP frame. *)
From Erbium Require Import Lib.Base Model.Frame.
From Coq Require Import ZifyN ZifyBool ZifyNat.
Ltac Zify.zify_post_hook ::= Z.div_mod_to_equations.

(* ---- fold16: end-around carry ---------------------------------------- *)
Definition folded (s v : N) : Prop :=
  v <= 65535 /\ (s = 0 -> v = 0) /\ (0 < s -> 0 < v /\ exists k, s = v + 65535 * k).

Lemma fold_step_inv s : 0 < s -> 0 < fold_step s /\ exists k, s = fold_step s + 65535 * k.
Proof.
  intro Hs. unfold fold_step. split.
  - lia.
  - exists (s / 65536). lia.
Qed.

Lemma fold16_folded s : s < 4294967296 -> folded s (fold16 s).
Proof.
  intro Hb. unfold fold16, fold_loop.
  destruct (65535 <? s) eqn:H1.
  2:{ unfold folded. split; [lia|]. split; [auto|]. intro Hp. split; [lia|]. exists 0. lia. }
  assert (Hs : 0 < s) by lia.
  destruct (fold_step_inv s Hs) as [Hp1 [k1 Hk1]].
  assert (Hb1 : fold_step s <= 131070) by (unfold fold_step; lia).
  destruct (65535 <? fold_step s) eqn:H2.
  2:{ unfold folded. split; [lia|]. split; [lia|]. intros _. split; [lia|]. exists k1. exact Hk1. }
  destruct (fold_step_inv (fold_step s) Hp1) as [Hp2 [k2 Hk2]].
  assert (Hb2 : fold_step (fold_step s) <= 65535) by (unfold fold_step at 1; lia).
  destruct (65535 <? fold_step (fold_step s)) eqn:H3; [lia|].
  unfold folded. split; [lia|]. split; [lia|]. intros _. split; [lia|].
  exists (k1 + k2). lia.
Qed.

(* what a receiver sees: data summing to [s], checksum field holding
   finish_netsum s, everything else unchanged *)
Lemma checksum_verifies s :
  s < 4294967296 -> s + finish_netsum s < 4294967296 ->
  fold16 (s + finish_netsum s) = 65535.
Proof.
  intros Hs Ht. unfold finish_netsum in *.
  destruct (fold16_folded s Hs) as [Hv [Hz Hp]].
  destruct (fold16_folded _ Ht) as [Hv' [Hz' Hp']].
  set (v := fold16 s) in *. set (v' := fold16 (s + (65535 - v))) in *.
  destruct (N.eq_dec s 0) as [->|Hne].
  - rewrite (Hz eq_refl) in *. destruct Hp' as [Hpos [k Hk]]; [lia|]. lia.
  - destruct Hp as [Hvp [k Hk]]; [lia|].
    destruct Hp' as [Hpos [k' Hk']]; [lia|]. lia.
Qed.

(* ---- sum16 ------------------------------------------------------------ *)
Lemma sum16_cons2 x y r : sum16 (x :: y :: r) = x * 256 + y + sum16 r.
Proof. reflexivity. Qed.
Lemma sum16_one x : sum16 [x] = x * 256.
Proof. reflexivity. Qed.
Lemma sum16_app_even a b : Nat.even (length a) = true -> sum16 (a ++ b) = sum16 a + sum16 b.
Proof.
  revert b. induction a as [a IH] using (well_founded_induction (Wf_nat.well_founded_ltof _ (@length N))).
  intros b He. destruct a as [|x [|y r]].
  - reflexivity.
  - discriminate He.
  - cbn [app]. rewrite !sum16_cons2. rewrite IH.
    + ring.
    + unfold Wf_nat.ltof. cbn [length]. lia.
    + exact He.
Qed.

Lemma sum16_bound l : bytes_ok l = true -> sum16 l <= 65280 * lenN l.
Proof.
  induction l as [l IH] using (well_founded_induction (Wf_nat.well_founded_ltof _ (@length N))).
  intro Hb. destruct l as [|x [|y r]].
  - cbn. lia.
  - unfold bytes_ok, byte_ok in Hb. cbn [forallb] in Hb. rewrite sum16_one. unfold lenN. cbn [length]. lia.
  - unfold bytes_ok in Hb. cbn [forallb] in Hb.
    apply andb_true_iff in Hb. destruct Hb as [Hx Hb].
    apply andb_true_iff in Hb. destruct Hb as [Hy Hr].
    unfold byte_ok in Hx, Hy. fold (bytes_ok r) in Hr.
    specialize (IH r). unfold Wf_nat.ltof in IH. cbn [length] in IH.
    specialize (IH ltac:(lia) Hr). rewrite sum16_cons2. unfold lenN in *. cbn [length]. lia.
Qed.

(* ---- list plumbing ---------------------------------------------------- *)
Lemma bytes_eqb_refl l : bytes_eqb l l = true.
Proof. induction l as [|x l IH]; cbn; [reflexivity|]. rewrite N.eqb_refl. exact IH. Qed.

Lemma len4 (l : list N) : (lenN l =? 4) = true -> exists a b c d, l = [a; b; c; d].
Proof.
  unfold lenN. intro H. destruct l as [|a [|b [|c [|d [|e r]]]]]; cbn [length] in H; try lia.
  now exists a, b, c, d.
Qed.
Lemma len6 (l : list N) : (lenN l =? 6) = true -> exists a b c d e f, l = [a; b; c; d; e; f].
Proof.
  unfold lenN. intro H. destruct l as [|a [|b [|c [|d [|e [|f [|g r]]]]]]]; cbn [length] in H; try lia.
  now exists a, b, c, d, e, f.
Qed.

Ltac nat_lits :=
  repeat match goal with
  | |- context [N.to_nat ?k] =>
    let v := eval vm_compute in (N.to_nat k) in change (N.to_nat k) with v
  end.

Lemma be16_decode c : c < 65536 -> be_decode (be16 c) = c.
Proof. intro H. unfold be_decode, be16. cbn [fold_left]. lia. Qed.

Lemma be16_sum c : c < 65536 -> (c / 256) mod 256 * 256 + c mod 256 = c.
Proof. intro H. lia. Qed.

Lemma finish_le s : finish_netsum s <= 65535.
Proof. unfold finish_netsum. lia. Qed.

Lemma forallb_bytes_app a b : bytes_ok (a ++ b) = bytes_ok a && bytes_ok b.
Proof. unfold bytes_ok. apply forallb_app. Qed.

Lemma be16_ok v : bytes_ok (be16 v) = true.
Proof. unfold bytes_ok, be16, byte_ok. cbn [forallb]. lia. Qed.


Lemma sum16_be16_tail (c : N) (r : list N) : c < 65536 -> sum16 (be16 c ++ r) = c + sum16 r.
Proof. intro H. unfold be16. cbn [app]. rewrite sum16_cons2. lia. Qed.

Section FrameValid.
  Variable a : udp4_args.
  Hypothesis Hwf : wf_udp4_args a = true.
  Hypothesis Hlen : lenN (u_payload a) <= 65507.

  Lemma ip_header_split ck :
    ip_header a ck = ([69; 0] ++ be16 (cast 16 (20 + (8 + lenN (u_payload a)))) ++ [0; 0; 0; 0; 1; 17]) ++ be16 ck ++ (u_src_ip a ++ u_dst_ip a).
  Proof. unfold ip_header. rewrite <- !app_assoc. reflexivity. Qed.

  Lemma ip_header_sum ck : ck < 65536 -> sum16 (ip_header a ck) = sum16 (ip_header a 0) + ck.
  Proof.
    intro H. rewrite !ip_header_split.
    rewrite !(sum16_app_even ([69; 0] ++ be16 _ ++ _)) by reflexivity.
    rewrite !sum16_be16_tail by lia. lia.
  Qed.

  Lemma wf_parts :
    bytes_ok (u_src_ip a) = true /\ length (u_src_ip a) = 4%nat /\
    bytes_ok (u_dst_ip a) = true /\ length (u_dst_ip a) = 4%nat /\
    bytes_ok (u_src_mac a) = true /\ length (u_src_mac a) = 6%nat /\
    bytes_ok (u_dst_mac a) = true /\ length (u_dst_mac a) = 6%nat /\
    u_src_port a < 65536 /\ u_dst_port a < 65536 /\ bytes_ok (u_payload a) = true.
  Proof.
    pose proof Hwf as H. unfold wf_udp4_args, lenN in H.
    repeat (apply andb_true_iff in H; let W := fresh "W" in destruct H as [H W]).
    repeat split; try assumption; lia.
  Qed.

  Lemma ip_rx_ok : rx_sum_ok (ip_header a (ip_cksum a)) = true.
  Proof.
    destruct wf_parts as (Bs & Ls & Bd & Ld & _).
    unfold rx_sum_ok. apply N.eqb_eq.
    rewrite ip_header_sum by (pose proof (finish_le (partial_netsum 0 (ip_header a 0))); unfold ip_cksum; lia).
    unfold ip_cksum, partial_netsum. rewrite N.add_0_l.
    assert (Hb : sum16 (ip_header a 0) <= 65280 * 20).
    { etransitivity; [apply sum16_bound|].
      - unfold ip_header. rewrite !forallb_bytes_app, !be16_ok, Bs, Bd. reflexivity.
      - unfold ip_header, lenN. rewrite !app_length, Ls, Ld. cbn. lia. }
    pose proof (finish_le (sum16 (ip_header a 0))).
    apply checksum_verifies; lia.
  Qed.

  Lemma udp_header_split ck :
    udp_header a ck = (be16 (u_src_port a) ++ be16 (u_dst_port a) ++ be16 (cast 16 (8 + lenN (u_payload a)))) ++ be16 ck.
  Proof. unfold udp_header. rewrite <- !app_assoc. reflexivity. Qed.

  Lemma udp_header_sum ck : ck < 65536 -> sum16 (udp_header a ck) = sum16 (udp_header a 0) + ck.
  Proof.
    intro H. rewrite !udp_header_split.
    rewrite !(sum16_app_even (be16 _ ++ be16 _ ++ be16 _)) by reflexivity.
    unfold be16 at 4 8. rewrite !sum16_cons2. cbn [sum16]. lia.
  Qed.

  Lemma pseudo_even : Nat.even (length (pseudo_header a)) = true.
  Proof.
    destruct wf_parts as (_ & Ls & _ & Ld & _).
    unfold pseudo_header. rewrite !app_length, Ls, Ld. reflexivity.
  Qed.

  Lemma udp_rx_ok : rx_sum_ok (pseudo_header a ++ udp_header a (udp_cksum a) ++ u_payload a) = true.
  Proof.
    destruct wf_parts as (Bs & Ls & Bd & Ld & _ & _ & _ & _ & _ & _ & Bp).
    unfold rx_sum_ok. apply N.eqb_eq.
    rewrite (sum16_app_even _ _ pseudo_even).
    rewrite (sum16_app_even (udp_header _ _)) by reflexivity.
    pose proof (finish_le (chain_netsum [pseudo_header a; udp_header a 0; u_payload a])) as Hck.
    fold (udp_cksum a) in Hck.
    rewrite udp_header_sum by lia.
    unfold udp_cksum in *. unfold chain_netsum, partial_netsum in *. cbn [fold_left] in *. rewrite N.add_0_l in *.
    set (S := sum16 (pseudo_header a) + sum16 (udp_header a 0) + sum16 (u_payload a)) in *.
    assert (HS : S <= 65280 * 12 + 65280 * 8 + 65280 * 65507).
    { unfold S.
      assert (H1 : sum16 (pseudo_header a) <= 65280 * 12).
      { etransitivity; [apply sum16_bound|].
        - unfold pseudo_header. rewrite !forallb_bytes_app, !be16_ok, Bs, Bd. reflexivity.
        - unfold pseudo_header, lenN. rewrite !app_length, Ls, Ld. cbn. lia. }
      assert (H2 : sum16 (udp_header a 0) <= 65280 * 8).
      { etransitivity; [apply sum16_bound|].
        - unfold udp_header. rewrite !forallb_bytes_app, !be16_ok. reflexivity.
        - cbn. lia. }
      pose proof (sum16_bound _ Bp) as H3. lia. }
    replace (sum16 (pseudo_header a) + (sum16 (udp_header a 0) + finish_netsum S + sum16 (u_payload a)))
      with (S + finish_netsum S) by (unfold S; lia).
    apply checksum_verifies; lia.
  Qed.
End FrameValid.

Lemma frame_valid a :
  wf_udp4_args a = true -> lenN (u_payload a) <= 65507 -> valid_frame a (udp4_frame a) = true.
Proof.
  intros Hwf Hlen.
  pose proof (ip_rx_ok a Hwf Hlen) as Hip.
  pose proof (udp_rx_ok a Hwf Hlen) as Hudp.
  pose proof (finish_le (partial_netsum 0 (ip_header a 0))) as Hck. fold (ip_cksum a) in Hck.
  pose proof (finish_le (chain_netsum [pseudo_header a; udp_header a 0; u_payload a])) as Huk. fold (udp_cksum a) in Huk.
  unfold valid_frame, udp4_frame.
  set (ck := ip_cksum a) in *. set (uk := udp_cksum a) in *. clearbody ck uk.
  destruct a as [sip sport smac dip dport dmac pl].
  unfold wf_udp4_args in Hwf. cbn [u_src_ip u_src_port u_src_mac u_dst_ip u_dst_port u_dst_mac u_payload] in *.
  repeat (apply andb_true_iff in Hwf; let H := fresh "W" in destruct Hwf as [Hwf H]).
  destruct (len4 _ W8) as (s0 & s1 & s2 & s3 & ->).
  destruct (len4 _ W6) as (d0 & d1 & d2 & d3 & ->).
  destruct (len6 _ W4) as (m0 & m1 & m2 & m3 & m4 & m5 & ->).
  destruct (len6 _ W2) as (n0 & n1 & n2 & n3 & n4 & n5 & ->).
  unfold valid_frame, split_frame, udp4_frame, eth_header, ip_header, udp_header, pseudo_header in *.
  cbn [u_src_ip u_src_port u_src_mac u_dst_ip u_dst_port u_dst_mac u_payload fv_dst_mac fv_src_mac fv_ethertype fv_ip_hdr fv_udp] in *.
  set (L8 := cast 16 (8 + lenN pl)) in *. set (L28 := cast 16 (20 + (8 + lenN pl))) in *.
  unfold be16 in *. cbn [app] in *.
  unfold takeN, dropN, nthN. nat_lits. cbn [firstn skipn nth_error app].
  rewrite Hip, !bytes_eqb_refl.
  assert (H28 : L28 = 28 + lenN pl) by (unfold L28, cast, pow2; lia).
  assert (H8 : L8 = 8 + lenN pl) by (unfold L8, cast, pow2; lia).
  change [(L28 / 256) mod 256; L28 mod 256] with (be16 L28).
  change [(L8 / 256) mod 256; L8 mod 256] with (be16 L8).
  change [(sport / 256) mod 256; sport mod 256] with (be16 sport).
  change [(dport / 256) mod 256; dport mod 256] with (be16 dport).
  change [(uk / 256) mod 256; uk mod 256] with (be16 uk).
  rewrite !be16_decode by lia.
  rewrite Hudp, orb_true_r, !N.eqb_refl.
  rewrite (proj2 (N.eqb_eq _ _) H28), (proj2 (N.eqb_eq _ _) H8).
  match goal with |- context [lenN ?l =? _] =>
    assert (Hl : (lenN l =? 42 + lenN pl) = true) by (unfold lenN; cbn [length]; lia); rewrite Hl end.
  reflexivity.
Qed.

Lemma udp4_build_ok a :
  lenN (u_payload a) <= 65507 -> udp4_build a = Ok (udp4_frame a).
Proof.
  intro H. unfold udp4_build, add_chk, cast, pow2.
  destruct (8 + lenN (u_payload a) mod 2 ^ 16 <? 2 ^ 16) eqn:H1; [|lia].
  cbn [obind].
  destruct (20 + (8 + lenN (u_payload a)) mod 2 ^ 16 <? 2 ^ 16) eqn:H2; [|lia].
  reflexivity.
Qed.

Lemma frame_build_valid a :
  wf_udp4_args a = true -> lenN (u_payload a) <= 65507 ->
  udp4_build a = Ok (udp4_frame a) /\ valid_frame a (udp4_frame a) = true.
Proof. intros Hwf Hlen. split; [apply udp4_build_ok | apply frame_valid]; assumption. Qed.

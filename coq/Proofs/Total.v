(* Totality bookkeeping shared by Proofs/Lldp.v and Proofs/DhcpOptVal.v:
   [good o] = the computation neither panicked nor ran out of fuel (error 99). *)
From Erbium Require Import Lib.Base.

Definition FUEL : N := 99.

Definition good {A} (o : outcome A) : Prop :=
  match o with Ok _ => True | Err e => e <> FUEL | Panic _ => False end.

Lemma good_ok : forall A (a : A), good (Ok a).
Proof. exact (fun _ _ => I). Qed.
Lemma good_err : forall A e, e <> FUEL -> good (@Err A e).
Proof. intros A e H; exact H. Qed.
Lemma good_bind : forall A B (o : outcome A) (f : A -> outcome B),
  good o -> (forall a, o = Ok a -> good (f a)) -> good (obind o f).
Proof. intros A B [a|e|k] f Ho Hf; simpl in *; auto. Qed.
Lemma good_no_panic : forall A (o : outcome A) k, good o -> o <> Panic k.
Proof. intros A o k H E; rewrite E in H; exact H. Qed.
Lemma good_no_fuel : forall A (o : outcome A), good o -> o <> Err FUEL.
Proof. intros A o H E; rewrite E in H; apply H; reflexivity. Qed.

Definition nopanic {A} (o : outcome A) : Prop :=
  match o with Panic _ => False | _ => True end.
Lemma np_bind : forall A B (o : outcome A) (f : A -> outcome B),
  nopanic o -> (forall a, o = Ok a -> nopanic (f a)) -> nopanic (obind o f).
Proof. intros A B [a|e|k] f Ho Hf; simpl in *; auto. Qed.
Lemma np_no_panic : forall A (o : outcome A) k, nopanic o -> o <> Panic k.
Proof. intros A o k H E; rewrite E in H; exact H. Qed.
Lemma good_np : forall A (o : outcome A), good o -> nopanic o.
Proof. intros A [a|e|k] H; simpl in *; auto. Qed.

(* obind o (fun t => Ok (t, r)) keeps r *)
Lemma bind_pair_snd : forall A B (o : outcome A) (r r0 : B) t0,
  obind o (fun t => Ok (t, r)) = Ok (t0, r0) -> r0 = r.
Proof. intros A B [a|e|k] r r0 t0 H; simpl in H; congruence. Qed.

Lemma length_dropN : forall A n (l : list A), (length (dropN n l) <= length l)%nat.
Proof. intros; unfold dropN; rewrite skipn_length; lia. Qed.

Lemma bytes_ok_app : forall a b, bytes_ok (a ++ b) = bytes_ok a && bytes_ok b.
Proof. intros; unfold bytes_ok; apply forallb_app. Qed.
Lemma bytes_ok_takeN : forall n l, bytes_ok l = true -> bytes_ok (takeN n l) = true.
Proof.
  intros n l H. unfold takeN. rewrite <- (firstn_skipn (N.to_nat n) l) in H.
  rewrite bytes_ok_app in H. apply andb_true_iff in H. tauto.
Qed.
Lemma bytes_ok_dropN : forall n l, bytes_ok l = true -> bytes_ok (dropN n l) = true.
Proof.
  intros n l H. unfold dropN. rewrite <- (firstn_skipn (N.to_nat n) l) in H.
  rewrite bytes_ok_app in H. apply andb_true_iff in H. tauto.
Qed.

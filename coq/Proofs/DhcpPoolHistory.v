(* C09 lifted from one step to whole histories: what the CLIENT was told (the
   log of replies) decides what it is given next, in every state reachable by
   a well-formed history -- not only in stores that happen to satisfy A_set.
   Uses the history invariant LogInv of Proofs/DhcpPool.v (Covered: the newest
   grant for (c, x) is either still recorded in the store with the expiry the
   client was told, or some other client was granted x after it ran out). *)
From Erbium Require Import Lib.Base Model.DhcpPool Proofs.DhcpPool Proofs.DhcpPoolCrash.

(* the reply log says c holds x at t  ==>  the store says so too *)
Lemma holds_is_recorded : forall now d log c x t,
  LogInv now d log -> now <= t ->
  holds log c x t -> held_by d c x t = true.
Proof.
  intros now d log c x t [I [F [C N]]] L [g [G E]].
  rewrite last_is_newest in G.
  2:{ eapply Forall_impl; [|exact F]. simpl. intros. lia. }
  destruct (C _ _ _ G) as [[r [R1 [R2 [R3 R4]]]]|[g' [G1 [G2 [G3 G4]]]]].
  - unfold held_by. apply existsb_exists. exists r. split; [assumption|].
    rewrite !andb_true_iff. unfold mine. rewrite N.eqb_eq, bytes_eqb_eq, N.ltb_lt.
    repeat split; try assumption. lia.
  - exfalso. rewrite Forall_forall in F. specialize (F g' G1). simpl in F. lia.
Qed.

(* the clock of a history: the time of its last allocation plus the ticks after it *)
Fixpoint clock_from (now : N) (h : list event) : N :=
  match h with
  | [] => now
  | EAlloc _ _ t2 _ :: h' => clock_from t2 h'
  | ETick d :: h' => clock_from (now + d) h'
  | ERestart :: h' => clock_from now h'
  end.
Definition clock (h : list event) : N := clock_from 0 h.

Lemma run_from_loginv_clock : forall h now d log d' log',
  wf_from now h = true -> LogInv now d log ->
  run_from (d, log) h = Some (d', log') -> LogInv (clock_from now h) d' log'.
Proof.
  induction h as [|e h IH]; intros now d log d' log' W LI H; simpl in H.
  - inversion H; subst. exact LI.
  - destruct e as [o t1 t2 a|dd|]; simpl in H, W |- *.
    + destruct (alloc_ok d o t1 t2 a) as [d1|] eqn:E; [|discriminate].
      repeat (apply andb_true_iff in W; destruct W as [W ?]).
      repeat match goal with X : (_ <=? _) = true |- _ => apply N.leb_le in X end.
      repeat match goal with X : (_ <? _) = true |- _ => apply N.ltb_lt in X end.
      eapply (IH t2); [eassumption| |exact H].
      destruct a as [ip s k| | | |].
      * apply (grant_step now d log o t1 t2 ip s k d1); try assumption. unfold pow2. simpl. lia.
      * apply refused_store in E; [|congruence]. subst. apply (loginv_later now); [lia|assumption].
      * simpl in E. discriminate.
      * simpl in E. discriminate.
      * apply refused_store in E; [|congruence]. subst. apply (loginv_later now); [lia|assumption].
    + eapply (IH (now + dd)); [eassumption| |exact H]. apply (loginv_later now); [lia|assumption].
    + eapply (IH now); eassumption.
Qed.

(* Every reachable state, every next request: a client that was TOLD it holds an
   unexpired lease on an address x inside the pool it is now served from is
   given an address it holds inside that pool, and the one it names if it was
   told it holds that one. *)
Lemma history_keeps_address : forall h d log,
  wf_history h = true -> run h = Some (d, log) ->
  forall o t1 t2 ans d' x,
  clock h <= t1 -> t1 < pow2 32 ->
  holds log (o_client o) x t1 -> In x (o_pool o) ->
  alloc_ok d o t1 t2 ans = Some d' ->
  exists ip s k, ans = Granted ip s k /\ In ip (o_pool o) /\
                 held_by d (o_client o) ip t1 = true /\
                 (forall q, o_req o = Some q -> holds log (o_client o) q t1 -> In q (o_pool o) -> ip = q).
Proof.
  intros h d log W R o t1 t2 ans d' x L T Hx Px H.
  pose proof (run_from_loginv_clock h 0 [] [] d log W loginv_init R) as LI.
  fold (clock h) in LI.
  pose proof LI as [I _].
  assert (Ax : A_set d o t1 x = true).
  { unfold A_set. apply andb_true_iff. split. apply in_pool_spec. assumption.
    eapply holds_is_recorded; eassumption. }
  destruct (keeps_address _ _ _ _ _ _ I T H (ex_intro _ x Ax)) as [ip [s [k [E1 [E2 E3]]]]].
  exists ip, s, k. split; [assumption|].
  unfold A_set in E2. apply andb_true_iff in E2. destruct E2 as [E2a E2b].
  split. apply in_pool_spec. assumption. split. assumption.
  intros q Eq Hq Pq. apply (E3 q Eq).
  unfold A_set. apply andb_true_iff. split. apply in_pool_spec. assumption.
  eapply holds_is_recorded; eassumption.
Qed.

(* ... and such a client is never refused for lack of addresses *)
Lemma history_never_refuses_holder : forall h d log,
  wf_history h = true -> run h = Some (d, log) ->
  forall o t1 t2 d' x,
  clock h <= t1 -> t1 < pow2 32 ->
  holds log (o_client o) x t1 -> In x (o_pool o) ->
  alloc_ok d o t1 t2 NoAddress = Some d' -> False.
Proof.
  intros h d log W R o t1 t2 d' x L T Hx Px H.
  destruct (history_keeps_address h d log W R o t1 t2 NoAddress d' x L T Hx Px H)
    as [ip [s [k [E _]]]]. discriminate.
Qed.

(* A refusal in a reachable state: every address of the pool is, according to the
   store, held by another client AND that row is the record of a reply still in
   the log or of one superseded -- at least the store-level statement lifts. *)
Lemma history_refusal_means_exhausted : forall h d log,
  wf_history h = true -> run h = Some (d, log) ->
  forall o t1 t2 d',
  t1 < pow2 32 ->
  alloc_ok d o t1 t2 NoAddress = Some d' ->
  d' = d /\ NoDup (map r_addr d) /\
  forall x, In x (o_pool o) ->
    exists r, In r d /\ r_addr r = x /\ r_client r <> o_client o /\ t1 <= r_expiry r /\
              (forall r', In r' d -> r_addr r' = x -> r' = r).
Proof.
  intros h d log W R o t1 t2 d' T H.
  pose proof (single_row_per_address h d log R) as ND.
  destruct (refusal_means_exhausted d o t1 t2 d' T H) as [E1 E2].
  split; [assumption|]. split; [assumption|].
  intros x Px. destruct (E2 x Px) as [r [R1 [R2 [R3 R4]]]].
  exists r. repeat split; try assumption.
  intros r' R1' R2'. apply (nodup_unique d); try assumption. congruence.
Qed.

(* ---- the same for histories with LOST replies (crash between the INSERT and the
   send, packet loss): what the client was told is a SUBSET of what the store did *)
Lemma holds_is_recorded_l : forall M now d log c x t,
  LInv M now d log -> now <= t ->
  holds log c x t -> held_by d c x t = true.
Proof.
  intros M now d log c x t [I [F [R [C N]]]] L [g [G E]].
  rewrite last_is_newest in G.
  2:{ eapply Forall_impl; [|exact F]. simpl. intros. lia. }
  destruct (C _ _ _ G) as [[r [R1 [R2 [R3 R4]]]]|G4].
  - unfold held_by. apply existsb_exists. exists r. split; [assumption|].
    rewrite !andb_true_iff. unfold mine. rewrite N.eqb_eq, bytes_eqb_eq, N.ltb_lt.
    repeat split; try assumption. lia.
  - exfalso. lia.
Qed.

Fixpoint clock_lossy_from (now : N) (h : list (event * bool)) : N :=
  match h with
  | [] => now
  | (EAlloc _ _ t2 _, _) :: h' => clock_lossy_from t2 h'
  | (ETick d, _) :: h' => clock_lossy_from (now + d) h'
  | (ERestart, _) :: h' => clock_lossy_from now h'
  end.
Definition clock_lossy (h : list (event * bool)) : N := clock_lossy_from 0 h.

Lemma run_lossy_linv_clock : forall M h now d log d' log',
  wf_lossy_from M now h = true -> LInv M now d log ->
  run_lossy_from (d, log) h = Some (d', log') -> LInv M (clock_lossy_from now h) d' log'.
Proof.
  induction h as [|[e lost] h IH]; intros now d log d' log' W LI H; simpl in H.
  - inversion H; subst. exact LI.
  - destruct e as [o t1 t2 a|dd|]; simpl in H, W |- *.
    + destruct (alloc_ok d o t1 t2 a) as [d1|] eqn:E; [|discriminate].
      repeat (apply andb_true_iff in W; destruct W as [W ?]).
      repeat match goal with X : (_ <=? _) = true |- _ => apply N.leb_le in X end.
      repeat match goal with X : (_ <? _) = true |- _ => apply N.ltb_lt in X end.
      repeat match goal with X : (_ =? _) = true |- _ => apply N.eqb_eq in X end.
      eapply (IH t2); [eassumption| |exact H].
      destruct a as [ip s k| | | |].
      * apply (grant_step_l M now d log o t1 t2 ip s k d1 lost); try assumption.
      * apply refused_store in E; [|congruence]. subst d1.
        destruct lost; apply (linv_later M now); try lia; assumption.
      * simpl in E. discriminate.
      * simpl in E. discriminate.
      * apply refused_store in E; [|congruence]. subst d1.
        destruct lost; apply (linv_later M now); try lia; assumption.
    + destruct lost; (eapply (IH (now + dd)); [eassumption| |exact H]; apply (linv_later M now); [lia|assumption]).
    + destruct lost; (eapply (IH now); eassumption).
Qed.

Lemma lossy_history_keeps_address : forall M h d log,
  wf_lossy M h = true -> run_lossy h = Some (d, log) ->
  forall o t1 t2 ans d' x,
  clock_lossy h <= t1 -> t1 < pow2 32 ->
  holds log (o_client o) x t1 -> In x (o_pool o) ->
  alloc_ok d o t1 t2 ans = Some d' ->
  exists ip s k, ans = Granted ip s k /\ In ip (o_pool o) /\
                 held_by d (o_client o) ip t1 = true /\
                 (forall q, o_req o = Some q -> holds log (o_client o) q t1 -> In q (o_pool o) -> ip = q).
Proof.
  intros M h d log W R o t1 t2 ans d' x L T Hx Px H.
  pose proof (run_lossy_linv_clock M h 0 [] [] d log W (linv_init M) R) as LI.
  fold (clock_lossy h) in LI.
  pose proof LI as [I _].
  assert (Ax : A_set d o t1 x = true).
  { unfold A_set. apply andb_true_iff. split. apply in_pool_spec. assumption.
    eapply holds_is_recorded_l; eassumption. }
  destruct (keeps_address _ _ _ _ _ _ I T H (ex_intro _ x Ax)) as [ip [s [k [E1 [E2 E3]]]]].
  exists ip, s, k. split; [assumption|].
  unfold A_set in E2. apply andb_true_iff in E2. destruct E2 as [E2a E2b].
  split. apply in_pool_spec. assumption. split. assumption.
  intros q Eq Hq Pq. apply (E3 q Eq).
  unfold A_set. apply andb_true_iff. split. apply in_pool_spec. assumption.
  eapply holds_is_recorded_l; eassumption.
Qed.

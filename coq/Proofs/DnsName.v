(* Proofs about DNS names: the compression dictionary invariant, the
   encoder/decoder round trip on names (C14_name_roundtrip) and the pointer
   discipline (DESIGN.md Appendix A.2). *)
From Erbium Require Import Lib.Base Model.DnsName.

(* ---- small list facts ------------------------------------------------------ *)
Lemma lenN_app {A} (a b : list A) : lenN (a ++ b) = lenN a + lenN b.
Proof. unfold lenN. rewrite app_length. lia. Qed.

Lemma lenN_cons {A} (x : A) (a : list A) : lenN (x :: a) = 1 + lenN a.
Proof. unfold lenN. simpl length. lia. Qed.

Lemma lenN_nil {A} : lenN (@nil A) = 0.
Proof. reflexivity. Qed.

Lemma dropN_app_exact {A} (pre rest : list A) : dropN (lenN pre) (pre ++ rest) = rest.
Proof.
  unfold dropN, lenN. rewrite Nat2N.id.
  rewrite skipn_app, skipn_all, Nat.sub_diag. reflexivity.
Qed.

Lemma list_eqb_N_eq : forall a b : list N, list_eqb N.eqb a b = true -> a = b.
Proof.
  induction a; destruct b; simpl; intros; try discriminate; auto.
  apply andb_true_iff in H as [H1 H2]. apply N.eqb_eq in H1. f_equal; auto.
Qed.

Lemma list_eqb_N_refl : forall a : list N, list_eqb N.eqb a a = true.
Proof. induction a; simpl; auto. rewrite N.eqb_refl; auto. Qed.

Lemma take_exact_app {A} : forall (a r : list A), take_exact (length a) (a ++ r) = Some (a, r).
Proof. induction a; simpl; intros; auto. rewrite IHa. reflexivity. Qed.

Lemma take_exact_spec {A} : forall n (l a r : list A), take_exact n l = Some (a, r) -> l = a ++ r /\ length a = n.
Proof.
  induction n; simpl; intros.
  - inversion H; subst; auto.
  - destruct l; try discriminate. destruct (take_exact n l) as [[x y]|] eqn:E; try discriminate.
    inversion H; subst. apply IHn in E as [-> <-]. auto.
Qed.

(* ---- bytes at an offset --------------------------------------------------- *)
Definition bytes_at (buf : list N) (off : N) (bs : list N) : Prop :=
  exists pre post, buf = pre ++ bs ++ post /\ lenN pre = off.

Lemma bytes_at_app buf off bs ext : bytes_at buf off bs -> bytes_at (buf ++ ext) off bs.
Proof.
  intros (pre & post & -> & <-). exists pre, (post ++ ext). split; auto.
  now rewrite <- !app_assoc.
Qed.

Lemma bytes_at_here buf bs ext : bytes_at (buf ++ bs ++ ext) (lenN buf) bs.
Proof. exists buf, ext. auto. Qed.

Lemma bytes_at_end buf bs : bytes_at (buf ++ bs) (lenN buf) bs.
Proof. exists buf, []. now rewrite app_nil_r. Qed.

Lemma bytes_at_drop buf off bs : bytes_at buf off bs -> exists post, dropN off buf = bs ++ post.
Proof. intros (pre & post & -> & <-). exists post. apply dropN_app_exact. Qed.

Lemma bytes_at_bound buf off bs : bytes_at buf off bs -> off + lenN bs <= lenN buf.
Proof. intros (pre & post & -> & <-). rewrite !lenN_app. lia. Qed.

Lemma bytes_at_split buf off a b : bytes_at buf off (a ++ b) -> bytes_at buf off a /\ bytes_at buf (off + lenN a) b.
Proof.
  intros (pre & post & -> & <-). split.
  - exists pre, (b ++ post). now rewrite <- app_assoc.
  - exists (pre ++ a), post. rewrite lenN_app. split; auto. now rewrite <- !app_assoc.
Qed.

(* ---- the meaning of the octets at an offset -------------------------------- *)
(* name_at buf off h ls nxt: decoding at [off] yields the labels [ls] using
   exactly [h] compression pointers, each targeting a strictly smaller offset
   below 0x4000; the inline part of the name ends at [nxt]. *)
Inductive name_at (buf : list N) : N -> nat -> name -> N -> Prop :=
| na_end off : bytes_at buf off [0] -> name_at buf off 0 [] (off + 1)
| na_label off l ls h nxt :
    0 < lenN l -> lenN l < 64 -> bytes_at buf off (lenN l :: l) ->
    name_at buf (off + 1 + lenN l) h ls nxt -> name_at buf off h (l :: ls) nxt
| na_ptr off tgt ls h nxt nxt' :
    bytes_at buf off (enc_ptr tgt) -> tgt < off -> tgt < PTR_MAX ->
    name_at buf tgt h ls nxt -> nxt' = off + 2 -> name_at buf off (S h) ls nxt'.

Lemma name_at_app buf ext off h ls nxt : name_at buf off h ls nxt -> name_at (buf ++ ext) off h ls nxt.
Proof.
  induction 1.
  - constructor. now apply bytes_at_app.
  - econstructor; eauto using bytes_at_app.
  - econstructor; eauto using bytes_at_app.
Qed.

Lemma name_at_lt buf off h ls nxt : name_at buf off h ls nxt -> off < lenN buf.
Proof.
  destruct 1 as [off H|off l ls h nxt _ _ H _|off tgt ls h nxt nxt' H _ _ _ _];
    apply bytes_at_bound in H; rewrite ?lenN_cons in H; unfold enc_ptr in *; rewrite ?lenN_cons in H; lia.
Qed.

(* literal labels *)
Definition lits (ls : name) : list N := flat_map (fun l => lenN l :: l) ls.
Definition label_ok (l : label) : Prop := 0 < lenN l /\ lenN l < 64.

Lemma lits_app a b : lits (a ++ b) = lits a ++ lits b.
Proof. unfold lits. now rewrite flat_map_app. Qed.

Lemma lits_name_at buf : forall ls off h path nxt,
  Forall label_ok ls -> bytes_at buf off (lits ls) ->
  name_at buf (off + lenN (lits ls)) h path nxt -> name_at buf off h (ls ++ path) nxt.
Proof.
  induction ls as [|l ls IH]; intros off h path nxt Hok Hb Hn.
  - simpl in *. rewrite lenN_nil, N.add_0_r in Hn. exact Hn.
  - inversion Hok as [|? ? [H1 H2] Hok']; subst. simpl in *.
    change (lenN l :: l ++ lits ls) with ((lenN l :: l) ++ lits ls) in Hb.
    apply bytes_at_split in Hb as [Hb1 Hb2].
    rewrite lenN_cons in Hb2. rewrite lenN_cons, lenN_app in Hn.
    replace (off + (1 + lenN l)) with (off + 1 + lenN l) in Hb2 by lia.
    apply na_label; auto.
    apply IH; auto.
    replace (off + 1 + lenN l + lenN (lits ls)) with (off + (1 + (lenN l + lenN (lits ls)))) by lia.
    exact Hn.
Qed.

(* ---- the decoder reads what name_at describes ------------------------------ *)
Lemma wire_len_cons l ls : wire_len (l :: ls) = 1 + lenN l + wire_len ls.
Proof. reflexivity. Qed.

Lemma wire_len_pos ls : 1 <= wire_len ls.
Proof. induction ls; [unfold wire_len; simpl; lia | rewrite wire_len_cons; lia]. Qed.

Lemma enc_ptr_decode tgt : tgt < PTR_MAX ->
  192 <= 192 + tgt / 256 /\ 192 + tgt / 256 < 256 /\ (192 + tgt / 256 - 192) * 256 + tgt mod 256 = tgt.
Proof.
  unfold PTR_MAX. intros H.
  assert (tgt / 256 < 64) by (apply N.div_lt_upper_bound; lia).
  pose proof (N.div_mod tgt 256 ltac:(lia)) as D.
  remember (tgt / 256) as d. remember (tgt mod 256) as r. clear Heqd Heqr.
  split; [lia|]. split; [lia|].
  replace (192 + d - 192) with d by lia. lia.
Qed.

Lemma decode_complete buf off h ls nxt :
  name_at buf off h ls nxt ->
  forall fuel depth alen,
    (length ls + h < fuel)%nat -> depth + N.of_nat h <= LIMIT + 1 -> alen + wire_len ls <= MAXNAME ->
    get_domain_into fuel buf (dropN off buf) off depth alen = Ok (ls, nxt).
Proof.
  induction 1 as [off Hb|off l ls h nxt Hl1 Hl2 Hb Hn IH|off tgt ls h nxt nxt' Hb Hlt Hmax Hn IH Hnxt];
    intros fuel depth alen Hf Hd Ha.
  - destruct fuel; [simpl in Hf; lia|].
    apply bytes_at_drop in Hb as [post ->]. simpl. reflexivity.
  - destruct fuel; [simpl in Hf; lia|].
    pose proof Hb as Hb'. apply bytes_at_drop in Hb' as [post E]. rewrite E. simpl.
    destruct (lenN l =? 0) eqn:E0; [apply N.eqb_eq in E0; lia|].
    destruct (lenN l <? 64) eqn:E1; [|apply N.ltb_ge in E1; lia].
    unfold lenN at 1. rewrite Nat2N.id, take_exact_app.
    rewrite wire_len_cons in Ha. pose proof (wire_len_pos ls).
    destruct (MAXNAME <? alen + 1 + lenN l + 1) eqn:E2; [apply N.ltb_lt in E2; lia|].
    assert (Hd' : dropN (off + 1 + lenN l) buf = post).
    { destruct Hb as (pre & post' & -> & <-).
      rewrite dropN_app_exact in E. simpl in E. inversion E as [E']. apply app_inv_head in E'. subst post'.
      replace (lenN pre + 1 + lenN l) with (lenN (pre ++ lenN l :: l)) by (rewrite lenN_app, lenN_cons; lia).
      replace (pre ++ (lenN l :: l) ++ post) with ((pre ++ lenN l :: l) ++ post) by (now rewrite <- app_assoc).
      apply dropN_app_exact. }
    rewrite <- Hd'. rewrite IH; auto; simpl in Hf; lia.
  - destruct fuel; [lia|].
    pose proof Hb as Hb'. apply bytes_at_drop in Hb' as [post E]. rewrite E. unfold enc_ptr.
    destruct (enc_ptr_decode tgt Hmax) as (P1 & P2 & P3).
    remember (192 + tgt / 256) as hi. remember (tgt mod 256) as lo. simpl.
    destruct (hi =? 0) eqn:E0; [apply N.eqb_eq in E0; lia|].
    destruct (hi <? 64) eqn:E1; [apply N.ltb_lt in E1; lia|].
    destruct (192 <=? hi) eqn:E2; [|apply N.leb_gt in E2; lia].
    destruct (LIMIT <? depth) eqn:E3; [apply N.ltb_lt in E3; lia|].
    rewrite P3. rewrite IH; subst; auto; lia.
Qed.

(* ---- the dictionary invariant ---------------------------------------------- *)
Section TreeInd.
  Variable P : tree -> Prop.
  Hypothesis HN : forall l off ks, Forall P ks -> P (Node l off ks).
  Fixpoint tree_ind' (t : tree) : P t :=
    match t with
    | Node l off ks =>
      HN l off ks ((fix go (ks : list tree) : Forall P ks :=
                      match ks with
                      | [] => Forall_nil P
                      | k :: r => Forall_cons k (tree_ind' k) (go r)
                      end) ks)
    end.
End TreeInd.

(* Every node (label l, offset off) below the suffix [path] stands for the
   name l :: path: if its offset can be expressed in a pointer, the octets at
   that offset decode to exactly that name, in fewer hops than the name has
   labels. *)
Fixpoint tree_ok (buf : list N) (path : name) (t : tree) : Prop :=
  match t with
  | Node l off ks =>
    0 < off /\
    (off < PTR_MAX -> exists h nxt, name_at buf off h (l :: path) nxt /\ (h <= length path)%nat) /\
    (fix all (ks : list tree) : Prop :=
       match ks with [] => True | k :: r => tree_ok buf (l :: path) k /\ all r end) ks
  end.

Lemma tree_ok_unfold buf path l off ks :
  tree_ok buf path (Node l off ks) <->
  0 < off /\
  (off < PTR_MAX -> exists h nxt, name_at buf off h (l :: path) nxt /\ (h <= length path)%nat) /\
  Forall (tree_ok buf (l :: path)) ks.
Proof.
  simpl. split; intros (H1 & H2 & H3); (split; [exact H1|split; [exact H2|]]); clear H1 H2.
  - induction ks as [|k r IHr]; constructor; destruct H3; auto.
  - induction ks as [|k r IHr]; auto. inversion H3; subst. split; auto. apply IHr; auto.
Qed.

Lemma tree_ok_app ext buf : forall t path, tree_ok buf path t -> tree_ok (buf ++ ext) path t.
Proof.
  induction t as [l off ks IH] using tree_ind'. intros path H.
  apply tree_ok_unfold in H as (H1 & H2 & H3). apply tree_ok_unfold. repeat split; auto.
  - intros Ho. destruct (H2 Ho) as (h & nxt & Hn & Hh). exists h, nxt. split; auto using name_at_app.
  - rewrite Forall_forall in *. intros k Hk. apply IH; auto.
Qed.

Lemma forall_tree_ok_app ext buf path ks :
  Forall (tree_ok buf path) ks -> Forall (tree_ok (buf ++ ext) path) ks.
Proof. intros H. eapply Forall_impl; [|exact H]. intros. now apply tree_ok_app. Qed.

(* find_last returns a usable child with that label, and the split of the list *)
Lemma find_last_spec l : forall ks a c b, find_last l ks = Some (a, c, b) ->
  ks = a ++ c :: b /\ t_lbl c = l /\ t_off c < PTR_MAX.
Proof.
  induction ks as [|k r IH]; simpl; intros a c b H; [discriminate|].
  destruct (find_last l r) as [[[a' c'] b']|] eqn:E.
  - inversion H; subst. destruct (IH _ _ _ eq_refl) as (-> & ? & ?). auto.
  - destruct (label_eqb (t_lbl k) l && usable k) eqn:E2; [|discriminate].
    inversion H; subst. apply andb_true_iff in E2 as [E3 E4].
    apply list_eqb_N_eq in E3. unfold usable in E4. apply N.ltb_lt in E4. auto.
Qed.

(* without a node to search in, push_prefix writes literal labels only *)
Lemma push_prefix_none : forall rl pos,
  match push_prefix pos rl None with
  | Ok (_, Some _, None) => True
  | Ok _ => False
  | _ => True
  end.
Proof.
  induction rl as [|l rp IH]; intros pos; simpl; auto.
  destruct rp as [|l2 rp'].
  - unfold enc_label. destruct (_ && _); simpl; auto.
  - specialize (IH pos). remember (l2 :: rp') as rp. simpl.
    destruct (push_prefix pos rp None) as [[[b1 [r|]] [ck|]]| |]; try contradiction; auto.
    unfold enc_label. destruct (_ && _); simpl; auto.
Qed.

Lemma node_off_small pos : node_off pos < PTR_MAX -> node_off pos = pos.
Proof. unfold node_off, PTR_MAX. lia. Qed.

Lemma node_off_pos pos : 0 < pos -> 0 < node_off pos.
Proof. unfold node_off. lia. Qed.

(* "open" nodes: returned by push_prefix while the name is still being
   written; they become valid as soon as the rest of the name (path) is in
   place right after the octets written so far *)
Definition open_ok (buf : list N) (fin : N) (path : name) (r : tree) : Prop :=
  forall ext h nxt, name_at (buf ++ ext) fin h path nxt -> (h <= length path)%nat ->
                    tree_ok (buf ++ ext) path r.

Lemma push_prefix_cons l rp pos okids : rp <> [] ->
  push_prefix pos (l :: rp) okids =
    let found := match okids with Some ks => find_last l ks | None => None end in
      match push_prefix pos rp (found_kids found) with
      | Ok (b1, ret, ck) =>
        match ret, found with
        | None, None => Panic Unreachable
        | None, Some (a, c, b) =>
          Ok (b1, None, Some (a ++ Node (t_lbl c) (t_off c) (match ck with Some k => k | None => t_kids c end) :: b))
        | Some r, None =>
          do lb <- enc_label l;
          Ok (b1 ++ lb, Some (Node l (node_off (pos + lenN b1)) [r]), okids)
        | Some r, Some (a, c, b) =>
          if t_off c =? 0 then Panic Assert
          else Ok (b1 ++ enc_ptr (t_off c), None,
                   Some (a ++ Node (t_lbl c) (t_off c) ((match ck with Some k => k | None => t_kids c end) ++ [r]) :: b))
        end
      | Err e => Err e
      | Panic k => Panic k
      end.
Proof. destruct rp; [congruence|reflexivity]. Qed.

Lemma push_prefix_spec : forall rl pos okids path buf,
  rl <> [] -> lenN buf = pos -> 0 < pos -> Forall label_ok rl ->
  (forall ks, okids = Some ks -> Forall (tree_ok buf path) ks) ->
  match push_prefix pos rl okids with
  | Ok (b, None, okids') =>
    exists ks', okids' = Some ks' /\ okids <> None /\
      Forall (tree_ok (buf ++ b) path) ks' /\
      exists h, name_at (buf ++ b) pos h (rev rl ++ path) (pos + lenN b) /\ (h <= length (rev rl ++ path))%nat
  | Ok (b, Some r, okids') =>
    okids' = okids /\ b = lits (rev rl) /\ open_ok (buf ++ b) (pos + lenN b) path r
  | _ => False
  end.
Proof.
  induction rl as [|l rp IH]; intros pos okids path buf Hne Hlen Hpos Hlab Hks; [congruence|].
  inversion Hlab as [|? ? [Hl1 Hl2] Hlab']; subst.
  destruct rp as [|l2 rp'].
  - (* last label *)
    simpl.
    destruct (match okids with Some ks => find_last l ks | None => None end) as [[[a c] b]|] eqn:Ef.
    + destruct okids as [ks|]; [|discriminate].
      apply find_last_spec in Ef as (-> & Hlc & Hoc).
      specialize (Hks _ eq_refl). pose proof Hks as Hks0.
      apply Forall_app in Hks as [_ Hks]. pose proof (Forall_inv Hks) as Hc.
      destruct c as [lc oc kc]. simpl in Hlc, Hoc. subst lc.
      apply tree_ok_unfold in Hc as (Ho1 & Ho2 & _). destruct (Ho2 Hoc) as (h & nxt & Hn & Hh).
      exists (a ++ Node l oc kc :: b). repeat split; auto; try congruence.
      * now apply forall_tree_ok_app.
      * exists (S h). split; [|simpl; lia].
        eapply na_ptr with (tgt := oc) (nxt := nxt).
        -- simpl t_off. apply bytes_at_end.
        -- now apply name_at_lt in Hn.
        -- exact Hoc.
        -- now apply name_at_app.
        -- unfold enc_ptr. rewrite !lenN_cons, lenN_nil. lia.
    + unfold enc_label. destruct ((0 <? lenN l) && (lenN l <? 64)) eqn:El.
      2:{ apply andb_false_iff in El as [El|El]; [apply N.ltb_ge in El|apply N.ltb_ge in El]; lia. }
      simpl. split; [reflexivity|]. split; [simpl; now rewrite app_nil_r|].
      * intros ext h nxt Hn Hh. apply tree_ok_unfold. split; [now apply node_off_pos|]. split; [|constructor].
        intros Hsm. rewrite (node_off_small _ Hsm). exists h, nxt. split; auto.
        apply na_label; auto.
        -- rewrite <- app_assoc. apply bytes_at_here.
        -- rewrite lenN_cons in Hn. replace (lenN buf + 1 + lenN l) with (lenN buf + (1 + lenN l)) by lia. exact Hn.
  - (* a label with a non-empty prefix before it *)
    remember (l2 :: rp') as rp eqn:Erp.
    assert (Hrp : rp <> []) by (subst; discriminate).
    rewrite (push_prefix_cons l rp _ okids Hrp). cbv zeta.
    destruct (match okids with Some ks => find_last l ks | None => None end) as [[[a c] b]|] eqn:Ef.
    + (* the label has a usable node c *)
      destruct okids as [ks|]; [|discriminate].
      apply find_last_spec in Ef as (-> & Hlc & Hoc).
      specialize (Hks _ eq_refl). pose proof Hks as Hks0.
      apply Forall_app in Hks as [Hka Hks]. pose proof (Forall_inv Hks) as Hc. pose proof (Forall_inv_tail Hks) as Hkb.
      destruct c as [lc oc kc]. simpl in Hlc, Hoc. subst lc.
      apply tree_ok_unfold in Hc as (Ho1 & Ho2 & Hkc). destruct (Ho2 Hoc) as (hc & nxtc & Hnc & Hhc).
      specialize (IH (lenN buf) (Some kc) (l :: path) buf Hrp eq_refl Hpos Hlab').
      simpl found_kids.
      destruct (push_prefix (lenN buf) rp (Some kc)) as [[[b1 [r|]] ck]| |]; try (exfalso; apply IH; intros ? E; inversion E; subst; auto; fail).
      * (* literal labels were written: close the name with a pointer to c *)
        destruct IH as (-> & Hb1 & Hopen); [intros ? E; inversion E; subst; auto|].
        simpl t_off. destruct (oc =? 0) eqn:E0; [apply N.eqb_eq in E0; lia|].
        simpl t_lbl.
        assert (Hptr : name_at (buf ++ b1 ++ enc_ptr oc) (lenN buf + lenN b1) (S hc) (l :: path) (lenN buf + lenN b1 + 2)).
        { eapply na_ptr with (tgt := oc) (nxt := nxtc); auto.
          - rewrite app_assoc, <- lenN_app. apply bytes_at_end.
          - apply name_at_lt in Hnc. lia.
          - now apply name_at_app. }
        exists (a ++ Node l oc (kc ++ [r]) :: b). split; [reflexivity|]. split; [congruence|]. split.
        -- apply Forall_app. split; [now apply forall_tree_ok_app|]. constructor; [|now apply forall_tree_ok_app].
           apply tree_ok_unfold. split; auto. split.
           ++ intros _. exists hc, nxtc. split; auto. now apply name_at_app.
           ++ apply Forall_app. split; [now apply forall_tree_ok_app|]. constructor; [|constructor].
              rewrite app_assoc. apply (Hopen (enc_ptr oc) (S hc) (lenN buf + lenN b1 + 2)); [|simpl; lia].
              rewrite <- app_assoc. exact Hptr.
        -- exists (S hc). split.
           ++ simpl rev. rewrite <- app_assoc. simpl app at 2.
              replace (lenN buf + lenN (b1 ++ enc_ptr oc)) with (lenN buf + lenN b1 + 2)
                by (rewrite lenN_app; unfold enc_ptr; rewrite !lenN_cons, lenN_nil; lia).
              apply lits_name_at.
              ** apply Forall_rev. exact Hlab'.
              ** rewrite <- Hb1. apply bytes_at_here.
              ** rewrite <- Hb1. exact Hptr.
           ++ simpl rev. rewrite !app_length. simpl. lia.
      * (* a pointer closed the name further down: c's children were updated *)
        destruct IH as (ks' & -> & _ & Hks' & h & Hn & Hh); [intros ? E; inversion E; subst; auto|].
        exists (a ++ Node l oc ks' :: b). split; [reflexivity|]. split; [congruence|]. split.
        -- apply Forall_app. split; [now apply forall_tree_ok_app|]. constructor; [|now apply forall_tree_ok_app].
           apply tree_ok_unfold. split; auto. split; auto.
           intros _. exists hc, nxtc. split; auto. now apply name_at_app.
        -- exists h. simpl rev. rewrite <- app_assoc. simpl app at 2. split; auto.
    + (* no node for this label: everything below is written literally *)
      assert (Hfk : found_kids (@None (list tree * tree * list tree)) = None) by reflexivity.
      rewrite Hfk.
      pose proof (push_prefix_none rp (lenN buf)) as Hnone.
      specialize (IH (lenN buf) None (l :: path) buf Hrp eq_refl Hpos Hlab').
      destruct (push_prefix (lenN buf) rp None) as [[[b1 [r|]] [ck|]]| |]; try contradiction;
        try (exfalso; apply IH; intros ? E; discriminate).
      destruct IH as (_ & Hb1 & Hopen); [intros ? E; discriminate|].
      unfold enc_label. destruct ((0 <? lenN l) && (lenN l <? 64)) eqn:El.
      2:{ apply andb_false_iff in El as [El|El]; [apply N.ltb_ge in El|apply N.ltb_ge in El]; lia. }
      simpl. split; auto. split.
      * simpl rev. rewrite lits_app. simpl. rewrite app_nil_r. now rewrite Hb1.
      * intros ext h nxt Hn Hh.
        assert (Hlab_at : name_at ((buf ++ b1 ++ lenN l :: l) ++ ext) (lenN buf + lenN b1) h (l :: path) nxt).
        { apply na_label; auto.
          - replace ((buf ++ b1 ++ lenN l :: l) ++ ext) with ((buf ++ b1) ++ (lenN l :: l) ++ ext)
              by (now rewrite <- !app_assoc).
            rewrite <- lenN_app. apply bytes_at_here.
          - rewrite lenN_app, lenN_cons in Hn.
            replace (lenN buf + lenN b1 + 1 + lenN l) with (lenN buf + (lenN b1 + (1 + lenN l))) by lia. exact Hn. }
        apply tree_ok_unfold. split; [apply node_off_pos; lia|]. split.
        -- intros Hsm. rewrite (node_off_small _ Hsm). exists h, nxt. auto.
        -- constructor; [|constructor].
           replace ((buf ++ b1 ++ lenN l :: l) ++ ext) with ((buf ++ b1) ++ (lenN l :: l) ++ ext)
             by (now rewrite <- !app_assoc).
           apply (Hopen ((lenN l :: l) ++ ext) h nxt); [|simpl; lia].
           replace ((buf ++ b1) ++ (lenN l :: l) ++ ext) with ((buf ++ b1 ++ lenN l :: l) ++ ext)
             by (now rewrite <- !app_assoc).
           exact Hlab_at.
Qed.

Lemma get_domain_complete : forall buf off h ls nxt,
  name_at buf off h ls nxt -> (h <= 127)%nat -> (length ls <= 127)%nat -> wire_len ls <= 255 ->
  get_domain buf off = Ok (ls, nxt).
Proof.
  intros. unfold get_domain. eapply decode_complete; eauto;
    unfold NAME_FUEL, LIMIT, MAXNAME; lia.
Qed.
Lemma push_name_cons pos kids n : n <> [] ->
  push_name pos kids n =
    match push_prefix pos (rev n) (Some kids) with
    | Ok (b, None, Some ks) => Ok (b, ks)
    | Ok (b, Some r, Some ks) => Ok (b ++ [0], ks ++ [r])
    | Ok (_, _, None) => Panic Unreachable
    | Err e => Err e
    | Panic k => Panic k
    end.
Proof. destruct n; [congruence|reflexivity]. Qed.

Lemma push_name_spec buf kids n :
  0 < lenN buf -> Forall (tree_ok buf []) kids -> Forall label_ok n ->
  match push_name (lenN buf) kids n with
  | Ok (b, kids') =>
    Forall (tree_ok (buf ++ b) []) kids' /\
    exists h, name_at (buf ++ b) (lenN buf) h n (lenN buf + lenN b) /\ (h <= length n)%nat
  | _ => False
  end.
Proof.
  intros Hpos Hk Hl. destruct n as [|l n'].
  - simpl. split; [now apply forall_tree_ok_app|]. exists 0%nat. split; auto.
    change (lenN [0]) with 1. constructor. apply bytes_at_end.
  - remember (l :: n') as n eqn:En. assert (Hn : n <> []) by (subst; discriminate).
    rewrite (push_name_cons _ _ _ Hn).
    assert (Hrl : rev n <> []).
    { intros E. apply (f_equal (@rev _)) in E. rewrite rev_involutive in E. simpl in E. auto. }
    assert (Hks : forall ks, Some kids = Some ks -> Forall (tree_ok buf []) ks)
      by (intros ? E; inversion E; subst; auto).
    pose proof (push_prefix_spec (rev n) (lenN buf) (Some kids) [] buf Hrl eq_refl Hpos (Forall_rev Hl) Hks) as H.
    destruct (push_prefix (lenN buf) (rev n) (Some kids)) as [[[b [r|]] ok']| |]; try contradiction.
    + destruct H as (-> & Hb & Hopen).
      rewrite rev_involutive in Hb.
      assert (Hend : name_at ((buf ++ b) ++ [0]) (lenN buf + lenN b) 0 [] (lenN buf + lenN b + 1)).
      { constructor. rewrite <- lenN_app. apply bytes_at_end. }
      split.
      * apply Forall_app. split.
        -- rewrite app_assoc. apply forall_tree_ok_app. now apply forall_tree_ok_app.
        -- constructor; [|constructor]. rewrite app_assoc. apply (Hopen [0] 0%nat (lenN buf + lenN b + 1)); auto.
      * exists 0%nat. split; [|lia].
        rewrite <- (app_nil_r n) at 1.
        replace (lenN buf + lenN (b ++ [0])) with (lenN buf + lenN b + 1) by (rewrite lenN_app; change (lenN [0]) with 1; lia).
        apply lits_name_at; auto.
        -- rewrite <- Hb. apply bytes_at_here.
        -- rewrite <- Hb, app_assoc. exact Hend.
    + destruct H as (ks' & -> & _ & Hks' & h & Hna & Hh).
      rewrite rev_involutive, app_nil_r in *. split; auto. exists h. auto.
Qed.

(* a name of at most 255 octets has at most 127 labels *)
Lemma wire_len_labels : forall n, Forall label_ok n -> 2 * N.of_nat (length n) + 1 <= wire_len n.
Proof.
  induction 1 as [|l n [H1 H2] _ IH].
  - unfold wire_len. simpl. lia.
  - rewrite wire_len_cons. simpl length. lia.
Qed.

Lemma wf_name_labels n : wf_name n = true -> Forall label_ok n /\ wire_len n <= 255.
Proof.
  unfold wf_name. intros H. apply andb_true_iff in H as [H1 H2]. apply N.leb_le in H2. split; auto.
  rewrite forallb_forall in H1. apply Forall_forall. intros l Hl. specialize (H1 l Hl).
  unfold wf_label in H1. apply andb_true_iff in H1 as [H1 _]. apply andb_true_iff in H1 as [H3 H4].
  apply N.ltb_lt in H3, H4. split; auto.
Qed.

(* C14 on names: writing a well-formed name with a valid dictionary keeps the
   dictionary valid, never panics, and the decoder reads the name back from
   where it was written, ending where the encoder ended. *)
Lemma name_roundtrip buf kids n :
  0 < lenN buf -> Forall (tree_ok buf []) kids -> wf_name n = true ->
  exists b kids', push_name (lenN buf) kids n = Ok (b, kids') /\
    Forall (tree_ok (buf ++ b) []) kids' /\
    get_domain (buf ++ b) (lenN buf) = Ok (n, lenN buf + lenN b).
Proof.
  intros Hpos Hk Hwf. apply wf_name_labels in Hwf as [Hl Hw].
  pose proof (push_name_spec buf kids n Hpos Hk Hl) as H.
  pose proof (wire_len_labels n Hl) as Hn.
  destruct (push_name (lenN buf) kids n) as [[b kids']| |]; try contradiction.
  destruct H as (Hk' & h & Hna & Hh). exists b, kids'. repeat split; auto.
  eapply get_domain_complete; eauto; lia.
Qed.

(* every pointer the encoder writes is backwards and below 0x4000: this is
   what name_at says about each hop; here as a checkable statement about the
   strict decoder of the specification side *)
Lemma strict_complete buf off h ls nxt :
  name_at buf off h ls nxt ->
  forall fuel alen, (length ls + h < fuel)%nat -> alen + wire_len ls <= 255 ->
    strict_name fuel buf (dropN off buf) off alen = Some (ls, nxt).
Proof.
  induction 1 as [off Hb|off l ls h nxt Hl1 Hl2 Hb Hn IH|off tgt ls h nxt nxt' Hb Hlt Hmax Hn IH Hnxt];
    intros fuel alen Hf Ha.
  - destruct fuel; [simpl in Hf; lia|].
    apply bytes_at_drop in Hb as [post ->]. simpl. reflexivity.
  - destruct fuel; [simpl in Hf; lia|].
    pose proof Hb as Hb'. apply bytes_at_drop in Hb' as [post E]. rewrite E. simpl.
    destruct (lenN l =? 0) eqn:E0; [apply N.eqb_eq in E0; lia|].
    destruct (lenN l <? 64) eqn:E1; [|apply N.ltb_ge in E1; lia].
    unfold lenN at 1. rewrite Nat2N.id, take_exact_app.
    rewrite wire_len_cons in Ha. pose proof (wire_len_pos ls).
    destruct (255 <? alen + 1 + lenN l + 1) eqn:E2; [apply N.ltb_lt in E2; lia|].
    assert (Hd' : dropN (off + 1 + lenN l) buf = post).
    { destruct Hb as (pre & post' & -> & <-).
      rewrite dropN_app_exact in E. simpl in E. inversion E as [E']. apply app_inv_head in E'. subst post'.
      replace (lenN pre + 1 + lenN l) with (lenN (pre ++ lenN l :: l)) by (rewrite lenN_app, lenN_cons; lia).
      replace (pre ++ (lenN l :: l) ++ post) with ((pre ++ lenN l :: l) ++ post) by (now rewrite <- app_assoc).
      apply dropN_app_exact. }
    rewrite <- Hd'. rewrite IH; auto; simpl in Hf; lia.
  - destruct fuel; [lia|].
    pose proof Hb as Hb'. apply bytes_at_drop in Hb' as [post E]. rewrite E. unfold enc_ptr.
    destruct (enc_ptr_decode tgt Hmax) as (P1 & P2 & P3).
    remember (192 + tgt / 256) as hi. remember (tgt mod 256) as lo. simpl.
    destruct (hi =? 0) eqn:E0; [apply N.eqb_eq in E0; lia|].
    destruct (hi <? 64) eqn:E1; [apply N.ltb_lt in E1; lia|].
    destruct (192 <=? hi) eqn:E2; [|apply N.leb_gt in E2; lia].
    rewrite P3.
    destruct (tgt <? off) eqn:E3; [|apply N.ltb_ge in E3; lia].
    destruct (tgt <? PTR_MAX) eqn:E4; [|apply N.ltb_ge in E4; lia].
    simpl. rewrite IH; subst; auto; lia.
Qed.

Lemma name_pointers_strict buf kids n :
  0 < lenN buf -> Forall (tree_ok buf []) kids -> wf_name n = true ->
  exists b kids', push_name (lenN buf) kids n = Ok (b, kids') /\
    strict_name NAME_FUEL (buf ++ b) (dropN (lenN buf) (buf ++ b)) (lenN buf) 0 = Some (n, lenN buf + lenN b).
Proof.
  intros Hpos Hk Hwf. apply wf_name_labels in Hwf as [Hl Hw].
  pose proof (push_name_spec buf kids n Hpos Hk Hl) as H.
  pose proof (wire_len_labels n Hl) as Hn.
  destruct (push_name (lenN buf) kids n) as [[b kids']| |]; try contradiction.
  destruct H as (Hk' & h & Hna & Hh). exists b, kids'. split; auto.
  eapply strict_complete; eauto; unfold NAME_FUEL; lia.
Qed.

(* a whole sequence of names written against one dictionary (harness case
   kind 3): every name is read back, wherever the buffer is extended later *)
Lemma names_roundtrip : forall ns buf kids,
  0 < lenN buf -> Forall (tree_ok buf []) kids -> forallb wf_name ns = true ->
  exists bs, push_names (lenN buf) kids ns = Ok bs /\
    forall ext, get_domains (buf ++ bs ++ ext) (lenN buf) (length ns) = Ok ns.
Proof.
  induction ns as [|n ns IH]; intros buf kids Hpos Hk Hwf.
  - exists []. split; auto.
  - simpl in Hwf. apply andb_true_iff in Hwf as [Hn Hns].
    pose proof Hn as Hn'. apply wf_name_labels in Hn' as [Hl Hw].
    pose proof (push_name_spec buf kids n Hpos Hk Hl) as H.
    pose proof (wire_len_labels n Hl) as Hlab.
    simpl. destruct (push_name (lenN buf) kids n) as [[b kids']| |]; try contradiction.
    destruct H as (Hk' & h & Hna & Hh). simpl.
    assert (Hpos' : 0 < lenN (buf ++ b)) by (rewrite lenN_app; lia).
    destruct (IH (buf ++ b) kids' Hpos' Hk' Hns) as (bs & Ebs & Hdec).
    rewrite lenN_app in Ebs. rewrite Ebs. simpl. exists (b ++ bs). split; auto.
    intros ext.
    assert (Hg : get_domain (buf ++ (b ++ bs) ++ ext) (lenN buf) = Ok (n, lenN buf + lenN b)).
    { apply get_domain_complete with (h := h); try lia.
      replace (buf ++ (b ++ bs) ++ ext) with ((buf ++ b) ++ bs ++ ext) by (now rewrite <- !app_assoc).
      apply name_at_app. exact Hna. }
    rewrite Hg. simpl.
    specialize (Hdec ext). rewrite lenN_app in Hdec.
    replace (buf ++ (b ++ bs) ++ ext) with ((buf ++ b) ++ bs ++ ext) by (now rewrite <- !app_assoc).
    rewrite Hdec. reflexivity.
Qed.
Lemma take_exact_bytes_ok : forall n (l a r : list N), take_exact n l = Some (a, r) -> bytes_ok l = true -> bytes_ok a = true /\ bytes_ok r = true.
Proof.
  intros n l a r H Hb. apply take_exact_spec in H as [-> _].
  unfold bytes_ok in *. rewrite forallb_app in Hb. now apply andb_true_iff in Hb.
Qed.

Lemma bytes_ok_dropN n (l : list N) : bytes_ok l = true -> bytes_ok (dropN n l) = true.
Proof.
  unfold bytes_ok, dropN. intros H. rewrite forallb_forall in *. intros x Hx. apply H.
  rewrite <- (firstn_skipn (N.to_nat n) l). apply in_or_app. now right.
Qed.

(* whatever the decoder returns is a name the encoder accepts *)
Lemma get_domain_into_wf buf : bytes_ok buf = true ->
  forall fuel rest off depth alen ls nxt,
    bytes_ok rest = true -> alen + 1 <= 255 ->
    get_domain_into fuel buf rest off depth alen = Ok (ls, nxt) ->
    forallb wf_label ls = true /\ alen + wire_len ls <= 255.
Proof.
  intros Hbuf. induction fuel as [|f IH]; intros rest off depth alen ls nxt Hr Ha H; [discriminate|].
  simpl in H. destruct rest as [|p r]; [discriminate|].
  simpl in Hr. apply andb_true_iff in Hr as [Hp Hr].
  destruct (p =? 0) eqn:E0.
  - inversion H; subst. split; [reflexivity|unfold wire_len; simpl; lia].
  - apply N.eqb_neq in E0. destruct (p <? 64) eqn:E1.
    + apply N.ltb_lt in E1.
      destruct (take_exact (N.to_nat p) r) as [[l r']|] eqn:Et; [|discriminate].
      destruct (MAXNAME <? alen + 1 + p + 1) eqn:E2; [discriminate|]. apply N.ltb_ge in E2. unfold MAXNAME in E2.
      destruct (get_domain_into f buf r' (off + 1 + p) depth (alen + 1 + p)) as [[ls' nxt']| |] eqn:Er; try discriminate.
      inversion H; subst.
      destruct (take_exact_bytes_ok _ _ _ _ Et Hr) as [Hl Hr'].
      apply take_exact_spec in Et as [_ Hlen].
      assert (Ha' : alen + 1 + p + 1 <= 255) by lia.
      destruct (IH _ _ _ _ _ _ Hr' Ha' Er) as [Hw Hlen'].
      assert (Hll : lenN l = p) by (unfold lenN; rewrite Hlen; lia).
      split.
      * simpl. rewrite Hw, andb_true_r. unfold wf_label. rewrite Hll, Hl.
        replace (0 <? p) with true by (symmetry; apply N.ltb_lt; lia).
        replace (p <? 64) with true by (symmetry; apply N.ltb_lt; lia). reflexivity.
      * rewrite wire_len_cons, Hll. lia.
    + destruct (192 <=? p); [|discriminate].
      destruct (LIMIT <? depth); [discriminate|].
      destruct r as [|lo r2]; [discriminate|].
      destruct (get_domain_into f buf (dropN ((p - 192) * 256 + lo) buf) ((p - 192) * 256 + lo) (depth + 1) alen)
        as [[ls' nxt']| |] eqn:Er; try discriminate.
      inversion H; subst. refine (IH _ _ _ _ _ _ _ Ha Er). apply bytes_ok_dropN. exact Hbuf.
Qed.

Lemma get_domain_wf buf off n nxt :
  bytes_ok buf = true -> get_domain buf off = Ok (n, nxt) -> wf_name n = true.
Proof.
  intros Hb. unfold get_domain. generalize NAME_FUEL. intros fuel H.
  assert (H0 : 0 + 1 <= 255) by lia.
  destruct (get_domain_into_wf buf Hb _ _ _ _ _ _ _ (bytes_ok_dropN _ _ Hb) H0 H) as [H1 H2].
  unfold wf_name. rewrite H1. simpl. apply N.leb_le. lia.
Qed.

(* decode . encode . decode = decode on names: a name the decoder returned
   (from any octets whatsoever) is written by the encoder at any later place,
   against any valid dictionary, such that the decoder returns it again *)
Lemma decoded_name_reencodes b off n nxt buf kids :
  bytes_ok b = true -> get_domain b off = Ok (n, nxt) ->
  0 < lenN buf -> Forall (tree_ok buf []) kids ->
  exists e kids', push_name (lenN buf) kids n = Ok (e, kids') /\
    Forall (tree_ok (buf ++ e) []) kids' /\
    get_domain (buf ++ e) (lenN buf) = Ok (n, lenN buf + lenN e).
Proof.
  intros Hb Hd Hpos Hk. apply name_roundtrip; auto. eapply get_domain_wf; eauto.
Qed.

(* Lemmas about Model/DnsCache.v (property C06). *)
From Erbium Require Import Lib.Base Model.DnsCache.

Lemma non_in_not_cached : forall c k qc tl ti up, qc <> 1 ->
  handle c k qc tl ti up = (Ok up, c, true).
Proof.
  intros. unfold handle. destruct (N.eqb_spec qc 1); [contradiction|reflexivity].
Qed.

(* Lemmas about Model/DnsCache.v (property C06). *)
From Erbium Require Import Lib.Base Lib.ListEqbFacts Model.DnsCache.

(* ---- keys ------------------------------------------------------------------- *)
Lemma names_eqb_eq : forall a b : list (list N), list_eqb (list_eqb N.eqb) a b = true <-> a = b.
Proof.
  intros. rewrite (list_eqb_Forall2 (list_eqb N.eqb) eq); [apply Forall2_eq | intros; apply bytes_eqb_eq].
Qed.

Lemma key_eqb_eq : forall a b : key, key_eqb a b = true <-> a = b.
Proof.
  intros [[[n1 t1] d1] c1] [[[n2 t2] d2] c2]. unfold key_eqb.
  rewrite !andb_true_iff, names_eqb_eq, N.eqb_eq, !Bool.eqb_true_iff.
  split; [intros [[[-> ->] ->] ->]; reflexivity | intro E; inversion E; auto].
Qed.

Lemma key_eqb_refl : forall k, key_eqb k k = true.
Proof. intro. apply key_eqb_eq. reflexivity. Qed.

Lemma lookup_in : forall c k e, lookup k c = Some e -> In (k, e) c.
Proof.
  induction c as [|[k' e'] c IH]; simpl; intros k e H; [discriminate|].
  destruct (key_eqb k k') eqn:E.
  - apply key_eqb_eq in E. inversion H; subst. left. reflexivity.
  - right. apply IH. assumption.
Qed.

Lemma lookup_remove_same : forall c k, lookup k (remove k c) = None.
Proof.
  induction c as [|[k' e'] c IH]; simpl; intro k; [reflexivity|].
  destruct (key_eqb k k') eqn:E; simpl; [apply IH|]. rewrite E. apply IH.
Qed.

Lemma lookup_remove_other : forall c k k', key_eqb k' k = false -> lookup k' (remove k c) = lookup k' c.
Proof.
  induction c as [|[k0 e0] c IH]; simpl; intros k k' NE; [reflexivity|].
  destruct (key_eqb k k0) eqn:E; simpl.
  - apply key_eqb_eq in E. subst k0. rewrite NE. apply IH. assumption.
  - destruct (key_eqb k' k0); [reflexivity | apply IH; assumption].
Qed.

(* an entry is found under the key it was stored with, and under no other *)
Lemma lookup_insert : forall c k e k',
  lookup k' (insert k e c) = if key_eqb k' k then Some e else lookup k' c.
Proof.
  intros. unfold insert. simpl. destruct (key_eqb k' k) eqn:E; [reflexivity|].
  apply lookup_remove_other. assumption.
Qed.

(* ---- minimum TTL ---------------------------------------------------------------- *)
Lemma min_list_le_default : forall l d, min_list d l <= d \/ l <> [].
Proof. intros [|x l] d; simpl; [left; lia | right; discriminate]. Qed.

Lemma min_list_le_in : forall l d x, In x l -> min_list d l <= x.
Proof.
  induction l as [|y l IH]; simpl; intros d x H; [destruct H|].
  destruct H as [->|H]; [lia|]. specialize (IH y x H). lia.
Qed.

Lemma min_ttl_le : forall r p, In p (all_rrs r) -> min_ttl r <= fst p.
Proof.
  intros r p H. unfold min_ttl. apply (in_map fst) in H.
  destruct (map fst (all_rrs r)) as [|x l]; [destruct H|].
  apply min_list_le_in. assumption.
Qed.

Lemma min_ttl_empty : forall r, all_rrs r = [] -> min_ttl r = 0.
Proof. intros r H. unfold min_ttl. rewrite H. reflexivity. Qed.

Lemma min_ttl_zero : forall r id, In (0, id) (all_rrs r) -> min_ttl r = 0.
Proof. intros r id H. apply min_ttl_le in H. simpl in H. lia. Qed.

(* ---- TTL decrement ------------------------------------------------------------------- *)
Definition dec_exact (d : N) (l : rrs) : rrs := map (fun p => (fst p - d, snd p)) l.
Definition dec_reply_exact (d : N) (r : reply) : reply :=
  (dec_exact d (r_answer r), dec_exact d (r_ns r), dec_exact d (r_additional r)).

Lemma dec_rrs_ok : forall d l, (forall p, In p l -> d <= fst p) -> dec_rrs d l = Ok (dec_exact d l).
Proof.
  induction l as [|[ttl id] l IH]; intro H; simpl; [reflexivity|].
  unfold sub_chk. pose proof (H (ttl, id) (or_introl eq_refl)) as H0. simpl in H0.
  destruct (N.leb_spec d ttl); [|lia]. simpl.
  rewrite IH by (intros; apply H; right; assumption). reflexivity.
Qed.

Lemma dec_reply_ok : forall d r, (forall p, In p (all_rrs r) -> d <= fst p) ->
  dec_reply d r = Ok (dec_reply_exact d r).
Proof.
  intros d r H. unfold dec_reply, all_rrs in *.
  rewrite !dec_rrs_ok; [reflexivity | | |]; intros p Hp; apply H; rewrite !in_app_iff; auto.
Qed.

Definition reply_u32 (r : reply) : Prop := forall p, In p (all_rrs r) -> fst p < pow2 32.
Definition result_u32 (res : result) : Prop := match res with ROk r => reply_u32 r | RErr _ => True end.

(* within its lifetime a stored reply is served with every TTL lowered by exactly the
   whole seconds elapsed, which no TTL falls short of *)
Lemma dec_result_exact : forall r el, reply_u32 r -> 0 < calculate_expiry (ROk r) ->
  el <= calculate_expiry (ROk r) ->
  dec_result (ROk r) el = Ok (ROk (dec_reply_exact (el / NS) r)) /\
  (forall p, In p (all_rrs r) -> el / NS <= fst p) /\ el / NS <= min_ttl r.
Proof.
  intros r el U L H. change (calculate_expiry (ROk r)) with (NS * min_ttl r) in *.
  cbn [dec_result]. unfold NS in *.
  assert (D : el / 1000000000 <= min_ttl r).
  { apply N.div_le_upper_bound; lia. }
  assert (A : forall p, In p (all_rrs r) -> el / 1000000000 <= fst p).
  { intros p Hp. pose proof (min_ttl_le r p Hp). lia. }
  split; [|split; assumption].
  assert (NE : all_rrs r <> []).
  { intro E. rewrite (min_ttl_empty r E) in L. lia. }
  assert (EX : exists p, In p (all_rrs r)).
  { destruct (all_rrs r) as [|p l]; [congruence | exists p; left; reflexivity]. }
  destruct EX as (p & Hp).
  pose proof (U p Hp). pose proof (A p Hp).
  unfold cast. rewrite N.mod_small by lia.
  rewrite dec_reply_ok; [reflexivity | assumption].
Qed.

(* ---- the cache invariant ------------------------------------------------------------ *)
Definition entry_ok (e : entry) : Prop :=
  e_life e = calculate_expiry (e_reply e) /\ 0 < e_life e /\ result_u32 (e_reply e).
Definition cache_ok (c : cache) : Prop := forall k e, In (k, e) c -> entry_ok e.

Lemma cache_ok_nil : cache_ok [].
Proof. intros k e []. Qed.

Lemma in_remove : forall c k p, In p (remove k c) -> In p c.
Proof. intros c k p H. unfold remove in H. apply filter_In in H. tauto. Qed.

Lemma in_expire : forall c t p, In p (expire c t) -> In p c.
Proof. intros c t p H. unfold expire in H. apply filter_In in H. tauto. Qed.

Lemma cache_ok_expire : forall c t, cache_ok c -> cache_ok (expire c t).
Proof. intros c t H k e Hin. apply (H k). apply in_expire in Hin. assumption. Qed.

Lemma get_entry_some : forall c k now o, get_entry c k now = Some o ->
  exists e, In (k, e) c /\ lookup k c = Some e /\ now <= e_birth e + e_life e /\
            o = dec_result (e_reply e) (now - e_birth e).
Proof.
  intros c k now o H. unfold get_entry in H. destruct (lookup k c) as [e|] eqn:L; [|discriminate].
  destruct (N.leb_spec now (e_birth e + e_life e)); [|discriminate].
  inversion H; subst. exists e. split; [apply lookup_in; assumption | auto].
Qed.

Lemma handle_cache_ok : forall c k qc tl ti up, cache_ok c -> result_u32 up ->
  cache_ok (snd (fst (handle c k qc tl ti up))).
Proof.
  intros c k qc tl ti up H U. unfold handle.
  destruct (negb (qc =? 1)); [exact H|].
  destruct (get_entry c k tl); [exact H|]. simpl.
  destruct (N.ltb_spec 0 (calculate_expiry up)); [|exact H].
  intros k' e' [E|Hin].
  - inversion E; subst. unfold entry_ok. simpl. auto.
  - apply (H k'). eapply in_remove. eassumption.
Qed.

(* ---- the statements about one call --------------------------------------------------- *)
(* a hit comes from an entry stored under the very key asked for, not past its lifetime;
   for a reply the lifetime is its smallest TTL *)
Lemma hit_only_fresh_and_same_key : forall c k now o, cache_ok c -> get_entry c k now = Some o ->
  exists e, lookup k c = Some e /\ In (k, e) c /\
    now <= e_birth e + e_life e /\
    (forall r, e_reply e = ROk r -> e_life e = NS * min_ttl r /\ 0 < min_ttl r) /\
    o = dec_result (e_reply e) (now - e_birth e).
Proof.
  intros c k now o OK H. destruct (get_entry_some _ _ _ _ H) as (e & Hin & L & F & E).
  exists e. repeat split; try assumption.
  - destruct (OK k e Hin) as (E1 & _ & _). rewrite E1, H0. reflexivity.
  - destruct (OK k e Hin) as (E1 & E2 & _). rewrite E1, H0 in E2.
    change (calculate_expiry (ROk r)) with (NS * min_ttl r) in E2. unfold NS in E2. lia.
Qed.

Lemma ttl_exact : forall c k now o e r, cache_ok c -> get_entry c k now = Some o ->
  lookup k c = Some e -> e_reply e = ROk r ->
  let d := (now - e_birth e) / NS in
  o = Ok (ROk (dec_reply_exact d r)) /\
  (forall p, In p (all_rrs r) -> d <= fst p) /\
  NS * d <= now - e_birth e /\ d <= min_ttl r.
Proof.
  intros c k now o e r OK H L R d.
  destruct (get_entry_some _ _ _ _ H) as (e' & Hin & L' & F & E).
  rewrite L in L'. inversion L'; subst e'. clear L'.
  destruct (OK k e Hin) as (E1 & E2 & E3). rewrite R in *. simpl in E3.
  assert (el : now - e_birth e <= calculate_expiry (ROk r)) by lia.
  rewrite E1 in E2.
  destruct (dec_result_exact r (now - e_birth e) E3 E2 el) as (D1 & D2 & D3).
  subst o. fold d in D1, D2, D3. repeat split; try assumption.
  unfold d. apply N.mul_div_le. unfold NS. lia.
Qed.

Lemma refetch_after_expiry : forall c k now ti up,
  (forall e, lookup k c = Some e -> e_birth e + e_life e < now) ->
  fst (fst (handle c k 1 now ti up)) = Ok up /\ snd (handle c k 1 now ti up) = true.
Proof.
  intros c k now ti up H. unfold handle. simpl. unfold get_entry.
  destruct (lookup k c) as [e|] eqn:L.
  - specialize (H e eq_refl). destruct (N.leb_spec now (e_birth e + e_life e)); [lia|]. simpl. auto.
  - simpl. auto.
Qed.

Lemma zero_ttl_not_cached : forall c k tl ti r,
  min_ttl r = 0 -> get_entry c k tl = None ->
  handle c k 1 tl ti (ROk r) = (Ok (ROk r), c, true).
Proof.
  intros c k tl ti r Z M. unfold handle. change (negb (1 =? 1)) with false. cbn iota. rewrite M.
  change (calculate_expiry (ROk r)) with (NS * min_ttl r). rewrite Z, N.mul_0_r. reflexivity.
Qed.

Lemma non_in_not_cached : forall c k qc tl ti up, qc <> 1 ->
  handle c k qc tl ti up = (Ok up, c, true).
Proof.
  intros. unfold handle. destruct (N.eqb_spec qc 1); [contradiction|reflexivity].
Qed.

(* ---- histories ------------------------------------------------------------------------ *)
(* every entry of the cache was obtained from the resolver by an earlier query for the same
   key and class IN, at the time recorded as its birth *)
Definition from_history (pre : list cop) (c : cache) : Prop :=
  forall k e, In (k, e) c ->
    In (Query k 1 (e_birth e) (e_reply e)) pre /\ e_life e = calculate_expiry (e_reply e) /\ 0 < e_life e.

Lemma from_history_mono : forall pre x c, from_history pre c -> from_history (pre ++ x) c.
Proof.
  intros pre x c H k e Hin. destruct (H k e Hin) as (A & B & C).
  split; [apply in_or_app; left; assumption | auto].
Qed.

Lemma run_provenance : forall ops pre c, from_history pre c ->
  forall k qc t o, In (k, qc, t, o, false) (run c ops) ->
  exists ops1 ops2 up' t0 up,
    ops = ops1 ++ Query k qc t up' :: ops2 /\ qc = 1 /\
    In (Query k 1 t0 up) (pre ++ ops1) /\
    0 < calculate_expiry up /\ t <= t0 + calculate_expiry up /\
    o = dec_result up (t - t0).
Proof.
  induction ops as [|op ops IH]; intros pre c FH k qc t o Hin; simpl in Hin; [destruct Hin|].
  destruct op as [k1 qc1 t1 up1|t1].
  - destruct (handle c k1 qc1 t1 t1 up1) as [[res c'] asked] eqn:HE. simpl in Hin.
    assert (FH' : from_history (pre ++ [Query k1 qc1 t1 up1]) c').
    { unfold handle in HE. destruct (N.eqb_spec qc1 1) as [->|NE]; simpl in HE.
      - destruct (get_entry c k1 t1).
        + inversion HE; subst. apply from_history_mono. assumption.
        + inversion HE; subst. destruct (N.ltb_spec 0 (calculate_expiry up1)).
          * intros k' e' [E|Hin'].
            -- inversion E; subst. simpl. split; [apply in_or_app; right; left; reflexivity | auto].
            -- apply in_remove in Hin'. apply (from_history_mono pre _ c FH). assumption.
          * apply from_history_mono. assumption.
      - inversion HE; subst. apply from_history_mono. assumption. }
    destruct Hin as [E|Hin].
    + inversion E; subst. clear E.
      unfold handle in HE. destruct (N.eqb_spec qc 1) as [->|NE]; simpl in HE; [|inversion HE].
      destruct (get_entry c k t) as [o'|] eqn:G; [|inversion HE].
      inversion HE; subst. destruct (get_entry_some _ _ _ _ G) as (e & Hin & _ & F & Eo).
      destruct (FH k e Hin) as (A & B & C).
      exists [], ops, up1, (e_birth e), (e_reply e). rewrite app_nil_r.
      repeat split; try assumption; rewrite <- B; assumption.
    + destruct (IH _ _ FH' k qc t o Hin) as (ops1 & ops2 & up' & t0 & up & E1 & E2 & E3 & E4 & E5 & E6).
      exists (Query k1 qc1 t1 up1 :: ops1), ops2, up', t0, up. subst ops.
      repeat split; try assumption.
      rewrite <- app_assoc in E3. exact E3.
  - assert (FH' : from_history (pre ++ [Expire t1]) (expire c t1)).
    { apply from_history_mono. intros k' e' H'. apply in_expire in H'. apply FH. assumption. }
    destruct (IH _ _ FH' k qc t o Hin) as (ops1 & ops2 & up' & t0 & up & E1 & E2 & E3 & E4 & E5 & E6).
    exists (Expire t1 :: ops1), ops2, up', t0, up. subst ops.
    repeat split; try assumption.
    rewrite <- app_assoc in E3. exact E3.
Qed.

(* from the empty cache: whatever is answered without asking the resolver is the answer the
   resolver gave to an earlier query with the same key, no longer ago than its lifetime, with
   the TTLs lowered by the whole seconds elapsed *)
Lemma history_sound : forall ops k qc t o, In (k, qc, t, o, false) (run [] ops) ->
  exists ops1 ops2 up' t0 up,
    ops = ops1 ++ Query k qc t up' :: ops2 /\ qc = 1 /\
    In (Query k 1 t0 up) ops1 /\
    0 < calculate_expiry up /\ t <= t0 + calculate_expiry up /\
    o = dec_result up (t - t0) /\
    (forall r, up = ROk r -> reply_u32 r ->
       o = Ok (ROk (dec_reply_exact ((t - t0) / NS) r)) /\
       (t - t0) / NS <= min_ttl r /\
       (forall p, In p (all_rrs r) -> (t - t0) / NS <= fst p)).
Proof.
  intros ops k qc t o Hin.
  destruct (run_provenance ops [] [] ltac:(intros ? ? []) k qc t o Hin)
    as (ops1 & ops2 & up' & t0 & up & E1 & E2 & E3 & E4 & E5 & E6).
  exists ops1, ops2, up', t0, up. simpl in E3.
  split; [assumption|]. split; [assumption|]. split; [assumption|]. split; [assumption|].
  split; [assumption|]. split; [assumption|].
  intros r -> U.
  destruct (dec_result_exact r (t - t0) U E4 ltac:(lia)) as (D1 & D2 & D3).
  split; [rewrite E6; exact D1|]. split; [exact D3 | exact D2].
Qed.

(* ---- expiry sweeps are invisible ------------------------------------------------------ *)
Fixpoint uniq (c : cache) : Prop :=
  match c with
  | [] => True
  | (k, _) :: r => lookup k r = None /\ uniq r
  end.

Lemma lookup_filter_none : forall f c k, lookup k c = None -> lookup k (filter f c) = None.
Proof.
  intros f c k. induction c as [|[k' e'] c IH]; simpl; intro H; [reflexivity|].
  destruct (key_eqb k k') eqn:E; [discriminate|].
  destruct (f (k', e')); simpl; [rewrite E|]; apply IH; assumption.
Qed.

Lemma uniq_filter : forall f c, uniq c -> uniq (filter f c).
Proof.
  intros f c. induction c as [|[k e] c IH]; simpl; intro H; [exact I|].
  destruct H as [H1 H2]. destruct (f (k, e)); simpl; [|apply IH; assumption].
  split; [apply lookup_filter_none; assumption | apply IH; assumption].
Qed.

Lemma uniq_insert : forall c k e, uniq c -> uniq (insert k e c).
Proof.
  intros c k e H. unfold insert. simpl. split; [apply lookup_remove_same | apply uniq_filter; assumption].
Qed.

Lemma uniq_handle : forall c k qc tl ti up, uniq c -> uniq (snd (fst (handle c k qc tl ti up))).
Proof.
  intros c k qc tl ti up H. unfold handle. destruct (negb (qc =? 1)); [exact H|].
  destruct (get_entry c k tl); [exact H|]. simpl.
  destruct (0 <? calculate_expiry up); [apply uniq_insert; assumption | exact H].
Qed.

Lemma lookup_expire : forall c t k, uniq c ->
  lookup k (expire c t) =
  match lookup k c with
  | Some e => if t <=? e_birth e + e_life e then Some e else None
  | None => None
  end.
Proof.
  intros c t k. unfold expire. induction c as [|[k' e'] c IH]; simpl; intro U; [reflexivity|].
  destruct U as [U1 U2]. destruct (key_eqb k k') eqn:E.
  - apply key_eqb_eq in E. subst k'.
    destruct (t <=? e_birth e' + e_life e'); simpl.
    + rewrite key_eqb_refl. reflexivity.
    + apply lookup_filter_none. assumption.
  - destruct (t <=? e_birth e' + e_life e'); simpl; [rewrite E|]; apply IH; assumption.
Qed.

(* c1: the cache with sweeps, c2: the same history without them.  They agree except for
   entries of c2 that ran out before T *)
Definition sim (T : N) (c1 c2 : cache) : Prop :=
  forall k, lookup k c1 = lookup k c2 \/
            (lookup k c1 = None /\ exists e, lookup k c2 = Some e /\ e_birth e + e_life e < T).

Lemma sim_get : forall T c1 c2 k now, sim T c1 c2 -> T <= now ->
  get_entry c1 k now = get_entry c2 k now.
Proof.
  intros T c1 c2 k now S H. unfold get_entry. destruct (S k) as [E|(E1 & e & E2 & L)].
  - rewrite E. reflexivity.
  - rewrite E1, E2. destruct (N.leb_spec now (e_birth e + e_life e)); [lia | reflexivity].
Qed.

Lemma sim_insert : forall T c1 c2 k e, sim T c1 c2 -> sim T (insert k e c1) (insert k e c2).
Proof.
  intros T c1 c2 k e S k'. rewrite !lookup_insert. destruct (key_eqb k' k); [left; reflexivity | apply S].
Qed.

Lemma sim_handle : forall T c1 c2 k qc tl ti up, sim T c1 c2 -> T <= tl ->
  fst (fst (handle c1 k qc tl ti up)) = fst (fst (handle c2 k qc tl ti up)) /\
  snd (handle c1 k qc tl ti up) = snd (handle c2 k qc tl ti up) /\
  sim T (snd (fst (handle c1 k qc tl ti up))) (snd (fst (handle c2 k qc tl ti up))).
Proof.
  intros T c1 c2 k qc tl ti up S H. unfold handle.
  destruct (negb (qc =? 1)); [simpl; auto|].
  rewrite (sim_get T c1 c2 k tl S H). destruct (get_entry c2 k tl); [simpl; auto|]. simpl.
  destruct (0 <? calculate_expiry up); [|auto].
  split; [reflexivity|]. split; [reflexivity|]. apply sim_insert. assumption.
Qed.

Lemma sim_expire : forall T c1 c2 t, uniq c1 -> sim T c1 c2 -> T <= t -> sim t (expire c1 t) c2.
Proof.
  intros T c1 c2 t U S H k. rewrite (lookup_expire c1 t k U).
  destruct (S k) as [E|(E1 & e & E2 & L)].
  - rewrite E. destruct (lookup k c2) as [e|]; [|left; reflexivity].
    destruct (N.leb_spec t (e_birth e + e_life e)); [left; reflexivity|].
    right. split; [reflexivity|]. exists e. split; [reflexivity | assumption].
  - rewrite E1. right. split; [reflexivity|]. exists e. split; [assumption | lia].
Qed.

Fixpoint cop_sorted (t : N) (ops : list cop) : Prop :=
  match ops with
  | [] => True
  | o :: r => t <= cop_time o /\ cop_sorted (cop_time o) r
  end.

Definition is_query (o : cop) : bool := match o with Query _ _ _ _ => true | Expire _ => false end.
Definition strip (ops : list cop) : list cop := filter is_query ops.

Lemma run_strip_sim : forall ops T c1 c2, uniq c1 -> sim T c1 c2 -> cop_sorted T ops ->
  run c1 ops = run c2 (strip ops).
Proof.
  induction ops as [|o ops IH]; intros T c1 c2 U S HS; simpl; [reflexivity|].
  destruct HS as [H1 H2]. destruct o as [k qc t up|t]; simpl in *.
  - destruct (sim_handle T c1 c2 k qc t t up S H1) as (R1 & R2 & R3).
    pose proof (uniq_handle c1 k qc t t up U) as U'.
    destruct (handle c1 k qc t t up) as [[res1 c1'] a1].
    destruct (handle c2 k qc t t up) as [[res2 c2'] a2]. simpl in *. subst res2 a2.
    f_equal. apply (IH t); try assumption.
    intro k'. destruct (R3 k') as [E|(E1 & e & E2 & L)]; [left; assumption|].
    right. split; [assumption|]. exists e. split; [assumption | lia].
  - apply (IH t); [apply uniq_filter; assumption | eapply sim_expire; eassumption | assumption].
Qed.

(* a history with non-decreasing times, from the empty cache: the expiry sweeps change no
   observation *)
Lemma expire_invisible : forall ops, cop_sorted 0 ops -> run [] ops = run [] (strip ops).
Proof.
  intros ops H. apply (run_strip_sim ops 0 [] []); [exact I | intro k; left; reflexivity | assumption].
Qed.

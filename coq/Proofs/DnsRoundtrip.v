(* decode . encode . decode = decode (C14), from DnsPacket.decode_encode and DnsWf.decode_wf *)
From Erbium Require Import Lib.Base Model.DnsName Model.DnsCodec Proofs.DnsPacket Proofs.DnsWf.

Lemma decode_encode_decode b m size e :
  bytes_ok b = true -> decode b = Ok m -> encode_sized_t m size = Ok (e, false) -> decode e = Ok m.
Proof. intros Hb Hd He. eapply decode_encode; eauto. eapply decode_wf; eauto. Qed.

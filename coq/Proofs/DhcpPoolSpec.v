(* The declarative reading of the lease-store step (DESIGN.md Appendix A.1)
   and the proof that the executable [alloc_ok] decides exactly it.  The
   specification shares no code with the decision procedure beyond the
   projections, the ORDER BY key and the lease-time arithmetic. *)
From Erbium Require Import Lib.Base Model.DhcpPool Proofs.DhcpPool.

Definition maximal_in_pool (pool : list N) (req : option N) (rs : list row) (r : row) : Prop :=
  In r rs /\ In (r_addr r) pool /\
  forall r', In r' rs -> In (r_addr r') pool -> key_le req r' r = true.

Definition freeP (d : db) (t x : N) : Prop :=
  forall r, In r d -> r_addr r = x -> r_expiry r < t.     (* NOT (expiry >= ts) *)

Definition admissible (d : db) (o : op) (t : N) (a : answer) : Prop :=
  let mineP r := In r d /\ r_client r = o_client o in
  let curP r := mineP r /\ t < r_expiry r in                                   (* step 1: expiry >  ts *)
  let none_cur := forall r, curP r -> ~ In (r_addr r) (o_pool o) in
  let none_all := forall r, mineP r -> ~ In (r_addr r) (o_pool o) in
  let req_okP x := o_req o = Some x /\ In x (o_pool o) /\ freeP d t x in
  match a with
  | Granted ip s ReusingLease =>
      exists r, maximal_in_pool (o_pool o) (o_req o) (cur_rows d o t) r /\ r_addr r = ip /\
                s = clamp o (reuse_secs t r)
  | Granted ip s Revived =>
      none_cur /\ exists r, maximal_in_pool (o_pool o) (o_req o) (my_rows d o) r /\ r_addr r = ip /\
                            r_start r <= r_expiry r /\ s = clamp o (revive_secs r)
  | Granted ip s Requested => none_all /\ req_okP ip /\ s = clamp o 0
  | Granted ip s NewAddress =>
      none_all /\ (forall x, ~ req_okP x) /\ In ip (o_pool o) /\ freeP d t ip /\ s = clamp o 0
  | NoAddress => none_all /\ (forall x, ~ req_okP x) /\ forall x, In x (o_pool o) -> ~ freeP d t x
  | Panicked =>
      none_cur /\ exists r, maximal_in_pool (o_pool o) (o_req o) (my_rows d o) r /\ r_expiry r < r_start r
  | InUse | DbErr => False
  end.

Lemma best_in_pool_spec : forall pool req rs r,
  In r rs -> (best_in_pool pool req rs r = true <-> maximal_in_pool pool req rs r).
Proof.
  intros pool req rs r Hr. unfold best_in_pool, maximal_in_pool.
  rewrite andb_true_iff, in_pool_spec, forallb_forall. split.
  - intros [P F]. split; [assumption|]. split; [assumption|]. intros r' Hr' P'.
    specialize (F r' Hr'). apply orb_true_iff in F. destruct F as [F|F]; [|assumption].
    apply negb_true_iff in F. apply in_pool_spec in P'. congruence.
  - intros [_ [P F]]. split; [assumption|]. intros r' Hr'.
    destruct (in_pool pool (r_addr r')) eqn:E; simpl; [|reflexivity].
    apply F. assumption. apply in_pool_spec. assumption.
Qed.

Lemma find_addr_unique : forall d rs r,
  Inv d -> (forall x, In x rs -> In x d) -> In r rs -> find_addr (r_addr r) rs = Some r.
Proof.
  intros d rs r I S Hr. unfold find_addr.
  destruct (find (fun r0 => r_addr r0 =? r_addr r) rs) as [r0|] eqn:E.
  - apply find_some in E. destruct E as [E1 E2]. apply N.eqb_eq in E2.
    f_equal. apply (nodup_unique d); auto.
  - exfalso. apply (find_none _ _ E) in Hr. rewrite N.eqb_refl in Hr. discriminate.
Qed.

Lemma my_sub : forall d o r, In r (my_rows d o) -> In r d.
Proof. intros. apply in_my_rows in H. tauto. Qed.
Lemma cur_sub : forall d o t r, In r (cur_rows d o t) -> In r d.
Proof. intros. apply in_cur_rows in H. tauto. Qed.

Lemma req_ok_spec : forall d o t x,
  req_ok d o t x = true <-> (o_req o = Some x /\ In x (o_pool o) /\ freeP d t x).
Proof.
  intros. unfold req_ok, freeP. rewrite !andb_true_iff, in_pool_spec, free_spec.
  unfold is_req. destruct (o_req o) as [q|]; split.
  - intros [[E P] F]. apply N.eqb_eq in E. subst. auto.
  - intros [E [P F]]. inversion E; subst. rewrite N.eqb_refl. auto.
  - intros [[E _] _]. discriminate.
  - intros [E _]. discriminate.
Qed.

Lemma no_req_ok_spec : forall d o t,
  no_req_ok d o t = true <-> (forall x, ~ (o_req o = Some x /\ In x (o_pool o) /\ freeP d t x)).
Proof.
  intros. unfold no_req_ok. destruct (o_req o) as [q|] eqn:E; split.
  - intros H x [E1 R]. inversion E1; subst x. apply negb_true_iff in H.
    assert (req_ok d o t q = true) by (apply req_ok_spec; rewrite E; auto). congruence.
  - intros H. apply negb_true_iff. destruct (req_ok d o t q) eqn:R; [|reflexivity].
    apply req_ok_spec in R. exfalso. apply (H q). rewrite E in R. destruct R as [_ R]. auto.
  - intros _ x [E1 _]. discriminate.
  - reflexivity.
Qed.

Lemma none_cur_spec : forall d o t,
  none_in_pool (o_pool o) (cur_rows d o t) = true <->
  (forall r, (In r d /\ r_client r = o_client o) /\ t < r_expiry r -> ~ In (r_addr r) (o_pool o)).
Proof.
  intros. rewrite none_in_pool_spec. split; intros H r Hr.
  - apply H. apply in_cur_rows. tauto.
  - apply H. apply in_cur_rows in Hr. tauto.
Qed.

Lemma none_all_spec : forall d o,
  none_in_pool (o_pool o) (my_rows d o) = true <->
  (forall r, In r d /\ r_client r = o_client o -> ~ In (r_addr r) (o_pool o)).
Proof.
  intros. rewrite none_in_pool_spec. split; intros H r Hr.
  - apply H. apply in_my_rows. tauto.
  - apply H. apply in_my_rows in Hr. tauto.
Qed.

Lemma exhausted_spec : forall d t pool,
  forallb (fun x => negb (free d t x)) pool = true <-> (forall x, In x pool -> ~ freeP d t x).
Proof.
  intros. rewrite forallb_forall. split; intros H x Hx.
  - specialize (H x Hx). apply negb_true_iff in H. intro F. apply (proj2 (free_spec _ _ _)) in F. congruence.
  - apply negb_true_iff. destruct (free d t x) eqn:E; [|reflexivity].
    exfalso. apply (H x Hx). exact (proj1 (free_spec _ _ _) E).
Qed.

Theorem alloc_ok_sound : forall d o t1 t2 a d',
  Inv d -> t1 < pow2 32 -> alloc_ok d o t1 t2 a = Some d' -> admissible d o t1 a.
Proof.
  intros d o t1 t2 a d' I T H. unfold alloc_ok in H. rewrite (cast_small _ T) in H.
  destruct a as [ip s k| | | |]; [destruct k| | | |]; brk H; try discriminate H;
    repeat match goal with
    | E : (_ && _) = true |- _ => apply andb_true_iff in E; destruct E
    end;
    repeat match goal with
    | E : (_ =? _) = true |- _ => apply N.eqb_eq in E
    | E : (_ <=? _) = true |- _ => apply N.leb_le in E
    | E : (_ <? _) = true |- _ => apply N.ltb_lt in E
    end; simpl.
  - (* New *)
    repeat split; try assumption.
    + apply none_all_spec. assumption.
    + apply no_req_ok_spec. assumption.
    + apply in_pool_spec. assumption.
    + match goal with E : free d t1 ip = true |- _ => exact (proj1 (free_spec _ _ _) E) end.
  - (* Reusing *)
    match goal with E : find_addr ip _ = Some ?r0 |- _ => apply find_addr_some in E; destruct E as [R1 R2]; exists r0 end.
    split; [|split; assumption]. apply best_in_pool_spec; assumption.
  - (* Requested *)
    split. apply none_all_spec. assumption. split. apply req_ok_spec. assumption. assumption.
  - (* Revived *)
    split. apply none_cur_spec. assumption.
    match goal with E : find_addr ip _ = Some ?r0 |- _ => apply find_addr_some in E; destruct E as [R1 R2]; exists r0 end.
    split. apply best_in_pool_spec; assumption. auto.
  - (* NoAddress *)
    split. apply none_all_spec. assumption. split. apply no_req_ok_spec. assumption.
    apply exhausted_spec. assumption.
  - (* Panicked *)
    split. apply none_cur_spec. assumption.
    match goal with E : existsb _ _ = true |- _ => apply existsb_exists in E; destruct E as [r [R1 R2]] end.
    apply andb_true_iff in R2. destruct R2 as [R2 R3]. apply N.ltb_lt in R3.
    exists r. split; [|assumption]. apply best_in_pool_spec; assumption.
Qed.

Theorem alloc_ok_complete : forall d o t1 t2 a,
  Inv d -> t1 < pow2 32 -> admissible d o t1 a -> exists d', alloc_ok d o t1 t2 a = Some d'.
Proof.
  intros d o t1 t2 a I T A. unfold alloc_ok. rewrite (cast_small _ T).
  destruct a as [ip s k| | | |]; [destruct k| | | |]; simpl in A.
  - destruct A as [A1 [A2 [A3 [A4 A5]]]].
    rewrite (proj2 (none_all_spec d o) A1), (proj2 (no_req_ok_spec d o t1) A2),
            (proj2 (in_pool_spec _ _) A3), (proj2 (free_spec _ _ _) A4), (proj2 (N.eqb_eq _ _) A5).
    simpl. eexists. reflexivity.
  - destruct A as [r [M [E S]]]. subst ip.
    pose proof M as [M1 _].
    rewrite (find_addr_unique d _ r I (cur_sub d o t1) M1).
    rewrite (proj2 (best_in_pool_spec _ _ _ r M1) M), (proj2 (N.eqb_eq _ _) S).
    simpl. eexists. reflexivity.
  - destruct A as [A1 [A2 A3]].
    rewrite (proj2 (none_all_spec d o) A1), (proj2 (req_ok_spec d o t1 ip) A2), (proj2 (N.eqb_eq _ _) A3).
    simpl. eexists. reflexivity.
  - destruct A as [A1 [r [M [E [L S]]]]]. subst ip.
    pose proof M as [M1 _].
    rewrite (proj2 (none_cur_spec d o t1) A1).
    rewrite (find_addr_unique d _ r I (my_sub d o) M1).
    rewrite (proj2 (best_in_pool_spec _ _ _ r M1) M), (proj2 (N.leb_le _ _) L), (proj2 (N.eqb_eq _ _) S).
    simpl. eexists. reflexivity.
  - destruct A as [A1 [A2 A3]].
    rewrite (proj2 (none_all_spec d o) A1), (proj2 (no_req_ok_spec d o t1) A2),
            (proj2 (exhausted_spec d t1 (o_pool o)) A3).
    simpl. eexists. reflexivity.
  - contradiction.
  - contradiction.
  - destruct A as [A1 [r [M L]]]. pose proof M as [M1 _].
    rewrite (proj2 (none_cur_spec d o t1) A1).
    assert (X : existsb (fun r0 => best_in_pool (o_pool o) (o_req o) (my_rows d o) r0 && (r_expiry r0 <? r_start r0))
                        (my_rows d o) = true).
    { apply existsb_exists. exists r. split. assumption.
      rewrite (proj2 (best_in_pool_spec _ _ _ r M1) M), (proj2 (N.ltb_lt _ _) L). reflexivity. }
    rewrite X. simpl. eexists. reflexivity.
Qed.

Theorem alloc_ok_iff_admissible : forall d o t1 t2 a,
  Inv d -> t1 < pow2 32 ->
  ((exists d', alloc_ok d o t1 t2 a = Some d') <-> admissible d o t1 a).
Proof.
  intros d o t1 t2 a I T. split.
  - intros [d' H]. eapply alloc_ok_sound; eassumption.
  - apply alloc_ok_complete; assumption.
Qed.
